(* C19 -- statements only; see DESIGN.md section 6 C19.  Theorems are added as the proofs land;
   the witnesses below are evaluated in the kernel on the whole-parser model. *)
From Coq Require Import String.
From MdIt Require Import Prims Tables Escape Tree Render Core Dump Dispatch TreeProofs RenderProofs.
Local Open Scope string_scope.
Local Open Scope list_scope.
Local Open Scope N_scope.

Definition html_of (cfg src : string) : str :=
  let m := build_md (bs cfg) 100 in
  match snd (parse (default_fuel m) m (bs src)) with
  | inr d => match render false (d_root d) with inr h => h | inl _ => bs "<render panic>" end
  | inl _ => bs "<parse panic>"
  end.

Example C19_witness_xhtml :
  serialize true [ECr; EOpen (bs "p") []; EText [0; 60]; ESelfClose (bs "br") []; ECr; ECr; EClose (bs "p")] =
  bs "<p>" ++ [239; 191; 189] ++ bs "&lt;<br />
</p>".
Proof. vm_compute. reflexivity. Qed.


(* every renderer event appends exactly its chunk to the output; the built-in serializer is
   the concatenation of these chunks followed by NUL replacement (nothing else is emitted) *)
Theorem C19_serializer_is_chunks : forall xhtml es,
  serialize xhtml es = replace_nul (concat (chunks xhtml [] es)).
Proof. exact serialize_chunks. Qed.

(* a line-break event emits one line feed unless the output is empty or already ends with one *)
Theorem C19_cr_rule : forall xhtml buf,
  chunk xhtml (at_line_start buf) ECr = if at_line_start buf then [] else [10].
Proof. reflexivity. Qed.

(* XHTML differs from HTML only by " /" before '>' in self-close chunks: chunk by chunk *)
Theorem C19_xhtml_vs_html : forall es,
  Forall2 (fun e (p : str * str) => xchunk_rel e (fst p) (snd p)) es
          (combine (chunks false [] es) (chunks true [] es)).
Proof. intros es. exact (xhtml_vs_html es [] [] eq_refl). Qed.

(* U+0000 never reaches the output, and output without U+0000 is left alone *)
Theorem C19_no_nul : forall xhtml es, forallb (fun b => negb (b =? 0)) (serialize xhtml es) = true.
Proof. intros. unfold serialize. apply replace_nul_no_nul. Qed.
Theorem C19_nul_only : forall s, forallb (fun b => negb (b =? 0)) s = true -> replace_nul s = s.
Proof. exact replace_nul_id. Qed.

(* text events are escaped, raw text events are not *)
Theorem C19_text_chunks : forall xhtml ls s,
  chunk xhtml ls (EText s) = escape_html s /\ chunk xhtml ls (ERaw s) = s.
Proof. intros. split; reflexivity. Qed.

Print Assumptions C19_serializer_is_chunks.
Print Assumptions C19_xhtml_vs_html.
Print Assumptions C19_no_nul.
Print Assumptions C19_nul_only.
