(* C16 -- look-ahead never contradicts, alters or replaces real parsing.  Statements only; proofs in
   proofs/LookaheadProofs.v; see DESIGN.md section 6 C16. *)
From Coq Require Import String.
From MdIt Require Import Prims Tables Tree Render Block Inline Core Dump Dispatch BlockProofs InlineProofs LookaheadProofs.
Local Open Scope string_scope.
Local Open Scope list_scope.
Local Open Scope N_scope.

Definition html_of (cfg src : string) : str :=
  let m := build_md (bs cfg) 100 in
  match snd (parse (default_fuel m) m (bs src)) with
  | inr d => match render false (d_root d) with inr h => h | inl _ => bs "<render panic>" end
  | inl _ => bs "<parse panic>"
  end.

(* the custom block after a list item is produced in both look-ahead styles *)
Example C16_witness_custom_after_list :
  html_of "C1" "- a
@@@
b" = html_of "C2" "- a
@@@
b" /\ html_of "C1" "- a
@@@
b" = bs "<ul>
<li>a</li>
</ul>
<cb>
<p>b</p>
".
Proof. vm_compute. split; reflexivity. Qed.

(* FULL STATEMENT: (a) whenever a rule accepts in look-ahead (silent) mode at a position, parsing there
   with that rule produces the construct with the same extent; (b) look-ahead leaves the tree untouched;
   (c) a contract-conforming custom block rule is invoked for real at every line it claimed.

   PROVED for the model (every state, every chain, every fuel):
   (a) block rules: silent acceptance implies real acceptance (a block rule's extent is decided by the
       real call only; look-ahead returns a verdict);
       inline rules: silent acceptance with length n implies that the real call, if it returns, accepts and
       leaves the cursor at the same end position;
   (b) inline look-ahead, including the whole skip_token recursion used to scan link labels, returns a
       state whose node is the node it was given.  For block rules (b) and (c) hold in the model by
       construction (a look-ahead call returns a verdict only and runs on a copy of the line cursor), which
       is exactly what the dual-run probe hook and the two custom-rule styles test on the implementation
       on every run; they are not theorems. *)

Theorem C16_block_lookahead_implies_real : forall cfg T r st,
  rule_silent r st = inr true -> flag_true (rule_real cfg T r st).
Proof. exact block_silent_real. Qed.

Theorem C16_inline_lookahead_same_extent : forall cfg TK SK r st,
  end_agree (run_rule cfg TK SK r st true) (run_rule cfg TK SK r st false).
Proof. exact silent_real_same_end. Qed.

Theorem C16_inline_lookahead_leaves_tree : forall cfg f r st ss o,
  run_rule cfg (itokenize f cfg) (iskip f cfg) r st true = inr (ss, o) -> i_node ss = i_node st.
Proof. exact silent_rule_node_untouched. Qed.

Theorem C16_skip_token_leaves_tree : forall cfg f st st', iskip f cfg st = inr st' -> i_node st' = i_node st.
Proof. exact iskip_node_untouched. Qed.

(* non-vacuity: a look-ahead that accepts, with the real call ending at the same place *)
(* KNOWN FINDING F16: the first clause read across contexts is false of the faithful model and of the code.  Inside an
   item whose content column is 11 the line "      # b" has indentation -5; asked in look-ahead mode whether it ends
   the paragraph, the heading rule says a heading starts there; the item and the list end, and the real parse of the
   line happens at top level, where it is indented by 6 columns: an indented code block, not a heading.  (The theorem
   above is about the same state; the real call is made in another one.)  Same output on the implementation. *)
Example C16_lookahead_across_contexts_refuted :
  html_of "C" "123456789. a
      # b" = bs "<ol start=""123456789"">
<li>a</li>
</ol>
<pre><code>  # b
</code></pre>
".
Proof. vm_compute. reflexivity. Qed.

Example C16_nonvacuous :
  let st := IState (bs "[a](u) x") [(0, SAbs 0)] (mk KRoot None []) 0 8 [] 0 0 [] [] in
  let cfg := ICfg [I_TEXT; I_LINK] 100 true [] [] in
  (match run_rule cfg (itokenize 10 cfg) (iskip 10 cfg) I_LINK st true with inr (ss, Some n) => Some (i_pos ss + n) | _ => None end,
   match run_rule cfg (itokenize 10 cfg) (iskip 10 cfg) I_LINK st false with inr (sr, Some n) => Some (i_pos sr + n) | _ => None end)
  = (Some 6, Some 6).
Proof. vm_compute. reflexivity. Qed.

Print Assumptions C16_block_lookahead_implies_real.
Print Assumptions C16_inline_lookahead_same_extent.
Print Assumptions C16_inline_lookahead_leaves_tree.
Print Assumptions C16_skip_token_leaves_tree.
