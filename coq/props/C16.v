(* C16 -- statements only; see DESIGN.md section 6 C16.  Theorems are added as the proofs land;
   the witnesses below are evaluated in the kernel on the whole-parser model. *)
From Coq Require Import String.
From MdIt Require Import Prims Tables Tree Render Core Dump Dispatch.
Local Open Scope string_scope.
Local Open Scope list_scope.
Local Open Scope N_scope.

Definition html_of (cfg src : string) : str :=
  let m := build_md (bs cfg) 100 in
  match snd (parse (default_fuel m) m (bs src)) with
  | inr d => match render false (d_root d) with inr h => h | inl _ => bs "<render panic>" end
  | inl _ => bs "<parse panic>"
  end.

(* the custom block after a list item is produced in both look-ahead styles *)
Example C16_witness_custom_after_list :
  html_of "C1" "- a
@@@
b" = html_of "C2" "- a
@@@
b" /\ html_of "C1" "- a
@@@
b" = bs "<ul>
<li>a</li>
</ul>
<cb>
<p>b</p>
".
Proof. vm_compute. split; reflexivity. Qed.
