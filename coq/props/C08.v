(* C08 -- statements only; see DESIGN.md section 6 C08.  Theorems are added as the proofs land;
   the witnesses below are evaluated in the kernel on the whole-parser model. *)
From Coq Require Import String.
From MdIt Require Import Prims Tables Tree Render Core Dump Dispatch.
Local Open Scope string_scope.
Local Open Scope list_scope.
Local Open Scope N_scope.

Definition html_of (cfg src : string) : str :=
  let m := build_md (bs cfg) 100 in
  match snd (parse (default_fuel m) m (bs src)) with
  | inr d => match render false (d_root d) with inr h => h | inl _ => bs "<render panic>" end
  | inl _ => bs "<parse panic>"
  end.

(* parse; remove the emphasis rule; parse again: the removed rule no longer fires *)
Example C08_witness_remove_after_parse :
  let m := build_md (bs "C") 100 in
  let '(m1, _) := parse (default_fuel m) m (bs "*a*") in
  let m2 := remove_plugin_rule m1 109 in
  match snd (parse (default_fuel m2) m2 (bs "*a*")) with
  | inr d => render false (d_root d) = inr (bs "<p>*a*</p>
")
  | inl _ => False
  end.
Proof. vm_compute. reflexivity. Qed.
