(* C08 -- statements only; see DESIGN.md section 6 C08.  Theorems are added as the proofs land;
   the witnesses below are evaluated in the kernel on the whole-parser model. *)
From Coq Require Import String.
From MdIt Require Import Prims Tables Ruler Tree Render Core Dump Dispatch CacheProofs.
Local Open Scope string_scope.
Local Open Scope list_scope.
Local Open Scope N_scope.

Definition html_of (cfg src : string) : str :=
  let m := build_md (bs cfg) 100 in
  match snd (parse (default_fuel m) m (bs src)) with
  | inr d => match render false (d_root d) with inr h => h | inl _ => bs "<render panic>" end
  | inl _ => bs "<parse panic>"
  end.

(* parse; remove the emphasis rule; parse again: the removed rule no longer fires *)
Example C08_witness_remove_after_parse :
  let m := build_md (bs "C") 100 in
  let '(m1, _) := parse (default_fuel m) m (bs "*a*") in
  let m2 := remove_plugin_rule m1 109 in
  match snd (parse (default_fuel m2) m2 (bs "*a*")) with
  | inr d => render false (d_root d) = inr (bs "<p>*a*</p>
")
  | inl _ => False
  end.
Proof. vm_compute. reflexivity. Qed.

(* deleting the parse calls from any history of plugin adds, rule removals (block, inline -- also
   rules with letter markers --, core), nesting-limit changes and parses does not change what the
   next parse returns *)
Theorem C08_erase_parses : forall ops src,
  result_after md_new ops src = result_after md_new (filter (fun o => negb (is_parse o)) ops) src.
Proof. exact erase_parses_same_result. Qed.

(* configuration calls look at the configuration only and leave the caches coherent *)
Theorem C08_add_is_config_only : forall cs m, md_coherent m ->
  md_coherent (add_plugins m cs) /\ md_clear (add_plugins m cs) = md_clear (add_plugins (md_clear m) cs).
Proof. intros cs. exact (add_plugins_cfg cs). Qed.
Theorem C08_remove_is_config_only : forall c m, md_coherent m ->
  md_coherent (remove_plugin_rule m c) /\ md_clear (remove_plugin_rule m c) = md_clear (remove_plugin_rule (md_clear m) c).
Proof. intros c. exact (remove_rule_cfg c). Qed.

(* the same for one Ruler: iterating or Debug-printing in between never changes what a later
   iteration returns, for any sequence of add (with any builder calls) and remove *)
Theorem C08_ruler_erase_uses : forall ops,
  snd (r_iter (fold_left rstep ops ruler_new)) =
  snd (r_iter (fold_left rstep (filter (fun o => negb (is_use o)) ops) ruler_new)).
Proof. intros ops. apply ruler_erase_uses; [left; reflexivity|left; reflexivity|reflexivity]. Qed.

(* a removed rule is not in the chain any more: the chain is compiled from the current rule list *)
Theorem C08_iter_is_compile : forall r, coherent r ->
  snd (r_iter r) = snd (r_iter (clear r)).
Proof. intros r H. exact (proj1 (iter_spec r H)). Qed.

Print Assumptions C08_erase_parses.
Print Assumptions C08_ruler_erase_uses.
