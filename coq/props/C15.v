(* C15 -- byte offsets convert to exact line:column positions.
   Statements only.  Model: model/SourceMap.v (src/common/sourcemap.rs, plugins/sourcepos.rs). *)
From MdIt Require Import Prims SourceMap SourceMapProofs.
Local Open Scope N_scope.

(* For every text (any byte string) and every byte offset -- inside the text, on or off a
   character boundary, or past the end -- the converter built from sparse checkpoints
   (line starts and every 16th column), binary search and a forward count returns exactly
   what one left-to-right pass over the first offset+1 bytes returns. *)
Theorem C15_get_position : forall src off, get_position src off = pos_spec src off.
Proof. exact get_position_spec. Qed.

(* ranges: start position and position of the last byte of the range *)
Theorem C15_get_positions : forall src s e,
  get_positions src s e = (pos_spec src s, pos_spec src (if 0 <? e then e - 1 else e)).
Proof. exact get_positions_spec. Qed.

(* the pass is the direct definition of the property text:
   line = 1 + number of line endings completed up to and including the offset
   (LF, or CR not followed by LF: a CRLF pair is counted once, at its LF) ... *)
Theorem C15_line : forall src off,
  fst (pos_spec src off) = 1 + count_eols src (N.to_nat (off + 1)).
Proof. exact pos_spec_line. Qed.

(* ... column = number of characters after the last completed line ending (at byte j), up to
   and including the character at the offset *)
Theorem C15_column : forall src off j,
  (j <= N.to_nat (off + 1))%nat ->
  (forall i, (i < N.to_nat (off + 1) - j)%nat -> counted_eol src (j + i) = false) ->
  (j = 0%nat \/ counted_eol src (j - 1) = true) ->
  snd (pos_spec src off) = count_starts (take (N.to_nat (off + 1) - j) (drop j src)).
Proof. exact pos_spec_col. Qed.

(* non-vacuity / sanity: checkpoint spacing, multi-byte characters, CRLF, past-the-end clamp *)
Example C15_examples :
  get_position (repeatN 120 40) 16 = (1, 17) /\
  get_position (repeatN 120 40) 39 = (1, 40) /\
  get_position (repeatN 120 40) 1000 = (1, 40) /\
  get_position [97; 13; 10; 98] 1 = (1, 2) /\
  get_position [97; 13; 10; 98] 2 = (2, 0) /\
  get_position [97; 13; 10; 98] 3 = (2, 1) /\
  get_position [195; 169; 98] 1 = (1, 1) /\
  get_position [195; 169; 98] 2 = (1, 2).
Proof. vm_compute. repeat split. Qed.

Print Assumptions C15_get_position.
Print Assumptions C15_get_positions.
Print Assumptions C15_line.
Print Assumptions C15_column.
