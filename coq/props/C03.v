(* C03 -- statements only; see DESIGN.md section 6 C03.  Theorems are added as the proofs land;
   the witnesses below are evaluated in the kernel on the whole-parser model. *)
From Coq Require Import String.
From MdIt Require Import Prims Tables Tree Render Core Dump Dispatch.
Local Open Scope string_scope.
Local Open Scope list_scope.
Local Open Scope N_scope.

Definition html_of (cfg src : string) : str :=
  let m := build_md (bs cfg) 100 in
  match snd (parse (default_fuel m) m (bs src)) with
  | inr d => match render false (d_root d) with inr h => h | inl _ => bs "<render panic>" end
  | inl _ => bs "<parse panic>"
  end.

Example C03_witness_escaped :
  html_of "Cs" "[a](/u ""x\""y"") <script>" = bs "<p><a href=""/u"" title=""x&quot;y"">a</a> &lt;script&gt;</p>
".
Proof. vm_compute. reflexivity. Qed.
