(* C03 -- statements only; see DESIGN.md section 6 C03.  Theorems are added as the proofs land;
   the witnesses below are evaluated in the kernel on the whole-parser model. *)
From Coq Require Import String.
From MdIt Require Import Prims Tables Escape Ruler Tree Render Block Inline Core Dump Dispatch TreeProofs RenderProofs SafeProofs ConfigProofs.
Local Open Scope string_scope.
Local Open Scope list_scope.
Local Open Scope N_scope.

Definition html_of (cfg src : string) : str :=
  let m := build_md (bs cfg) 100 in
  match snd (parse (default_fuel m) m (bs src)) with
  | inr d => match render false (d_root d) with inr h => h | inl _ => bs "<render panic>" end
  | inl _ => bs "<parse panic>"
  end.

Example C03_witness_escaped :
  html_of "Cs" "[a](/u ""x\""y"") <script>" = bs "<p><a href=""/u"" title=""x&quot;y"">a</a> &lt;script&gt;</p>
".
Proof. vm_compute. reflexivity. Qed.


(* escaping: no raw '<', '>' or double quote survives, and a reader that decodes the four
   entities gets the original characters back -- for every byte string *)
Theorem C03_escape_no_special : forall s, forallb (fun b => negb (special b)) (escape_html s) = true.
Proof. exact escape_no_special. Qed.

Theorem C03_escape_lossless : forall s fuel, (length (escape_html s) <= fuel)%nat ->
  unescape_html fuel (escape_html s) = s.
Proof. exact unescape_escape. Qed.

(* text reaches the output only through escape_html; attribute names and values are escaped and
   double-quoted (chunk structure of the serializer) *)
Theorem C03_text_is_escaped : forall xhtml ls s, chunk xhtml ls (EText s) = escape_html s.
Proof. reflexivity. Qed.
Theorem C03_attrs_are_escaped : forall attrs,
  attrs_chunk attrs = flat_map (fun a : str * str => [32] ++ escape_html (fst a) ++ [61; 34] ++ escape_html (snd a) ++ [34]) attrs.
Proof. reflexivity. Qed.

(* without the raw-HTML rules no raw-HTML node is ever built: every parser whose compiled block and inline chains
   contain neither the HTML block rule nor the inline HTML rule (and whose emphasis pairs construct ordinary nodes),
   every input, every core chain *)
Theorem C03_no_raw_nodes : forall fuel m src d bc ic,
  snd (r_iter (md_block m)) = inr bc -> snd (r_iter (md_inline m)) = inr ic ->
  no_html_block bc = true -> no_html_inline ic = true -> md_pairs_ok m = true ->
  snd (parse fuel m src) = inr d -> raw_free (d_root d) = true.
Proof. exact parse_raw_free. Qed.

(* ... and then the HTML / XHTML is the serialisation of events none of which is raw: tag markup written by the
   serializer, escape_html of text, escape_html of attribute names and values between double quotes *)
Theorem C03_output_fully_escaped : forall fuel m src d bc ic xhtml html,
  snd (r_iter (md_block m)) = inr bc -> snd (r_iter (md_inline m)) = inr ic ->
  no_html_block bc = true -> no_html_inline ic = true -> md_pairs_ok m = true ->
  snd (parse fuel m src) = inr d -> render xhtml (d_root d) = inr html ->
  exists es, Forall not_raw_event es /\ html = serialize xhtml es.
Proof. exact parse_render_no_raw. Qed.

(* all three hypotheses discharged: EVERY parser assembled from the shipped plugins (any letters of the harness' plugin
   alphabet in any order and multiplicity, any nesting limit) without the HTML plugin -- i.e. whose configuration string
   uses neither x (inline HTML), X (HTML block) nor W (both) -- every input, every fuel *)
Theorem C03_shipped_without_html : forall cfg nest fuel src d, html_free_cfg cfg = true ->
  snd (parse fuel (build_md cfg nest) src) = inr d ->
  raw_free (d_root d) = true /\
  forall xhtml html, render xhtml (d_root d) = inr html -> exists es, Forall not_raw_event es /\ html = serialize xhtml es.
Proof. exact shipped_without_html_safe. Qed.

Example C03_html_free_cfg : html_free_cfg = fun cfg => forallb (fun c => negb ((c =? 120) || (c =? 88) || (c =? 87))) cfg.
Proof. reflexivity. Qed.

(* the hypotheses hold for CommonMark + strikethrough (+ sourcepos, custom rules) in any order *)
Example C03_hypotheses_hold :
  let m := build_md (bs "sC8S13") 100 in
  match snd (r_iter (md_block m)), snd (r_iter (md_inline m)) with
  | inr bc, inr ic => no_html_block bc && no_html_inline ic && md_pairs_ok m = true
  | _, _ => False end.
Proof. vm_compute. reflexivity. Qed.

Print Assumptions C03_escape_no_special.
Print Assumptions C03_escape_lossless.
Print Assumptions C03_no_raw_nodes.
Print Assumptions C03_output_fully_escaped.
Print Assumptions C03_shipped_without_html.
