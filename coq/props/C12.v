(* C12 -- statements only; see DESIGN.md section 6 C12.  Theorems are added as the proofs land;
   the witnesses below are evaluated in the kernel on the whole-parser model. *)
From Coq Require Import String.
From MdIt Require Import Prims Tables Escape Tree Render Block Inline Core Dump Dispatch RangeProofs EscapeProofs EscapeCtxProofs EscapeTextProofs Indent CodeProofs CodeSearchProofs LineProofs DocProofs.
Local Open Scope string_scope.
Local Open Scope list_scope.
Local Open Scope N_scope.

Definition html_of (cfg src : string) : str :=
  let m := build_md (bs cfg) 100 in
  match snd (parse (default_fuel m) m (bs src)) with
  | inr d => match render false (d_root d) with inr h => h | inl _ => bs "<render panic>" end
  | inl _ => bs "<parse panic>"
  end.

Example C12_witness_numeric_everywhere :
  html_of "C" "&#65; [l](/&#65; ""&#65;"")" = bs "<p>A <a href=""/A"" title=""A"">l</a></p>
".
Proof. vm_compute. reflexivity. Qed.

(* FULL STATEMENT (not proved end to end; decided on every run by the five-context oracle, the
   round-trip oracle and the model/implementation correspondence): a valid reference or escape
   denotes in a destination, title, reference definition and info string what it denotes in
   paragraph text; escaping every punctuation character of a line displays that line.

   PROVED PARTS, about the decoder used by destinations, titles, definitions and info strings
   (unescape_all) -- paragraph text uses get_entity_from_str / numeric_code / code_to_str directly: *)

(* every named reference of the implementation's entity table, standing alone, decodes to its value *)
Theorem C12_named : forall k v, get_entity_from_str k = Some v -> unescape_all k = v.
Proof. exact named_reference_decodes. Qed.

(* every well-formed numeric reference (decimal 1-7 digits, x/X + 1-6 hex digits) decodes to the
   character of its code point, U+FFFD when the code point is not allowed -- exactly as in text *)
Theorem C12_numeric : forall body code, numeric_code body = Some code ->
  unescape_all (38 :: 35 :: body ++ [59]) = code_to_str code.
Proof. exact numeric_reference_decodes. Qed.

(* which code points are allowed *)
Theorem C12_valid_code : forall code,
  is_valid_entity_code code = true <->
  ~ (0xD800 <= code <= 0xDFFF) /\ ~ (0xFDD0 <= code <= 0xFDEF) /\
  N.land code 0xFFFF <> 0xFFFF /\ N.land code 0xFFFF <> 0xFFFE /\
  8 < code /\ code <> 0xB /\ ~ (0xE <= code <= 0x1F) /\ ~ (0x7F <= code <= 0x9F) /\ code <= 0x10FFFF.
Proof. exact valid_entity_code_spec. Qed.

(* every escapable punctuation character: backslash + c decodes to c; anything else keeps the backslash *)
Theorem C12_escape : forall c, is_ascii_punct c = true -> unescape_all [92; c] = [c].
Proof. exact escape_decodes. Qed.
Theorem C12_escape_other : forall c, is_ascii_punct c = false -> c <> 38 -> c <> 92 -> unescape_all [92; c] = [92; c].
Proof. exact escape_other_stays. Qed.

(* IN CONTEXT: destinations, titles, definitions and info strings are decoded by unescape_all applied to the whole
   string; plain text around a complete reference or escape passes through and the reference decodes to the same
   characters as when it stands alone -- so what it denotes does not depend on what surrounds it *)
Theorem C12_escape_in_context : forall pre d post, forallb plain pre = true -> is_ascii_punct d = true ->
  unescape_all (pre ++ 92 :: d :: post) = pre ++ d :: unescape_all post.
Proof. exact escape_in_context. Qed.

Theorem C12_numeric_in_context : forall pre body code post, forallb plain pre = true -> numeric_code body = Some code ->
  unescape_all (pre ++ 38 :: 35 :: body ++ 59 :: post) = pre ++ code_to_str code ++ unescape_all post.
Proof. exact numeric_in_context. Qed.

Theorem C12_named_in_context : forall pre c body v post, forallb plain pre = true ->
  is_alpha c = true -> forallb is_alnum body = true -> (1 <=? len body) && (len body <=? 31) = true ->
  get_entity_from_str (38 :: c :: body ++ [59]) = Some v ->
  unescape_all (pre ++ 38 :: c :: body ++ 59 :: post) = pre ++ v ++ unescape_all post.
Proof. exact named_in_context. Qed.

(* THE PARAGRAPH-TEXT PATH (inline entity and escape rules) agrees with the attribute path (EscapeTextProofs):
   - whenever the entity rule accepts, the node holds the consumed markup and exactly the characters unescape_all makes
     of that markup;
   - every name of the table and every well-formed numeric reference standing at the current position IS accepted, and
     the node holds the table value / the character of the code point (U+FFFD when not allowed);
   - an escaped ASCII character yields a node holding what unescape_all makes of the same two bytes.
   With the context theorems above: a reference or escape denotes the same characters in paragraph text as in a
   destination, title, definition or info string.  (The range of the node is whatever iget_map returns; its success is
   a hypothesis here and the subject of C05.) *)
Theorem C12_text_path_same_decoding : forall st st' n, rule_entity st false = inr (st', Some n) ->
  exists markup content rng,
    last_child st' = Some (mk (KTextSpecial content markup true) rng []) /\ n = len markup /\
    unescape_all markup = content.
Proof. exact entity_rule_same_decoding. Qed.

Theorem C12_text_path_named : forall st k v tail1 tail2 m,
  get_entity_from_str k = Some v ->
  irest st = inr (k ++ tail1) -> isl st (i_pos st) (len (i_src st)) = inr (k ++ tail2) ->
  iget_map st (i_pos st) (i_pos st + len k) = inr m ->
  rule_entity st false = inr (ipush st (mk (KTextSpecial v k true) m []), Some (len k)).
Proof. exact entity_rule_accepts_named. Qed.

Theorem C12_text_path_numeric : forall st body code tail1 tail2 m,
  numeric_code body = Some code ->
  irest st = inr (38 :: 35 :: body ++ 59 :: tail1) -> isl st (i_pos st) (len (i_src st)) = inr (38 :: 35 :: body ++ 59 :: tail2) ->
  iget_map st (i_pos st) (i_pos st + (2 + len body + 1)) = inr m ->
  rule_entity st false =
    inr (ipush st (mk (KTextSpecial (code_to_str code) (38 :: 35 :: body ++ [59]) true) m []), Some (2 + len body + 1)).
Proof. exact entity_rule_accepts_numeric. Qed.

Theorem C12_text_path_escape : forall st d tail m,
  irest st = inr (92 :: d :: tail) -> d <> 10 -> d < 128 ->
  iget_map st (i_pos st) (i_pos st + 2) = inr m ->
  rule_escape st false = inr (ipush st (mk (KTextSpecial (unescape_all [92; d]) [92; d] false) m []), Some 2).
Proof. exact escape_rule_same_decoding. Qed.

Example C12_context_nonvacuous :
  unescape_all (bs "/p&amp;z\*&#x41;") = bs "/p&z*A" /\ forallb plain (bs "/p") = true.
Proof. vm_compute. split; reflexivity. Qed.

(* INFO-STRING CONTEXT END TO END (default CommonMark parser): for every fenced document (opening fence with info string,
   payload lines, closing fence; the hypotheses of C11_fence_document plus "the info string does not start with the
   marker and, for backtick fences, holds no backtick") the class attribute is the prefix followed by the first word of
   exactly what the attribute-path decoder unescape_all makes of the info string -- line splitting, block loop, fence rule,
   inline pass, clean-up, serializer. *)
Theorem C12_info_string_document : forall (m : N) (n : nat) (pre cpre trail params : str) (n' : nat) (texts : list (list N)) (src : str),
  m = 96 \/ m = 126 -> (3 <= n)%nat -> forallb is_ws pre = true -> forallb is_ws cpre = true ->
  cols_from 0 pre < 4 -> cols_from 0 cpre < 4 ->
  match params with x :: _ => (x =? m) = false | [] => True end -> (m = 96 -> mem 96 params = false) ->
  (forall T, In T texts -> runs_lt m (N.of_nat n) T = true) -> (n <= n')%nat -> all_sptab trail = true ->
  texts_of src = (pre ++ repeatN m n ++ params) :: map (fun T => pre ++ T) texts ++ [cpre ++ repeatN m n' ++ trail] ->
  forall xhtml, html_of_parse (default_fuel md_cmark) md_cmark xhtml src =
  inr (replace_nul (bs "<pre><code" ++ class_attr (bs "language-") params ++ bs ">" ++ escape_html (out_lines true texts) ++ bs "</code></pre>" ++ [10]%N)).
Proof. exact fence_info_document_html. Qed.

Example C12_info_string_nonvacuous :
  class_attr (bs "language-") (bs " r&#117;st\+ &amp; x") = bs " class=""language-rust+""" /\
  html_of "C" "``` r&#117;st\+ &amp; x
a
```" = bs "<pre><code class=""language-rust+"">a
</code></pre>
".
Proof. vm_compute. split; reflexivity. Qed.

Example C12_nonvacuous :
  numeric_code (bs "x1F600") = Some 0x1F600 /\ numeric_code (bs "0000000") = Some 0 /\
  code_to_str 0 = [239; 191; 189] /\ get_entity_from_str (bs "&amp;") = Some [38] /\ is_ascii_punct 96 = true.
Proof. vm_compute. repeat split. Qed.

Print Assumptions C12_named.
Print Assumptions C12_numeric.
Print Assumptions C12_valid_code.
Print Assumptions C12_escape.
Print Assumptions C12_escape_in_context.
Print Assumptions C12_numeric_in_context.
Print Assumptions C12_named_in_context.
Print Assumptions C12_text_path_same_decoding.
Print Assumptions C12_text_path_named.
Print Assumptions C12_text_path_numeric.
Print Assumptions C12_text_path_escape.
Print Assumptions C12_info_string_document.
