(* C02 -- statements only; see DESIGN.md section 6 C02.  Theorems are added as the proofs land;
   the witnesses below are evaluated in the kernel on the whole-parser model. *)
From Coq Require Import String.
From MdIt Require Import Prims Tables Tree Render Core Dump Dispatch.
Local Open Scope string_scope.
Local Open Scope list_scope.
Local Open Scope N_scope.

Definition html_of (cfg src : string) : str :=
  let m := build_md (bs cfg) 100 in
  match snd (parse (default_fuel m) m (bs src)) with
  | inr d => match render false (d_root d) with inr h => h | inl _ => bs "<render panic>" end
  | inl _ => bs "<parse panic>"
  end.

Definition depth_with (nest : N) (src : str) : option nat :=
  let m := build_md (bs "CsW") nest in
  match snd (parse (default_fuel m) m src) with inr d => Some (depth_of (d_root d)) | inl _ => None end.

(* 60 nested block quotes / brackets under a limit of 3: depth stays within 3*limit+4 *)
Example C02_witness_quotes : depth_with 3 (repeatN 62 60 ++ bs " a") = Some 3%nat.
Proof. vm_compute. reflexivity. Qed.
Example C02_witness_brackets :
  match depth_with 3 (flat_map (fun _ => bs "![") (seq 0 30) ++ bs "a" ++ flat_map (fun _ => bs "](u)") (seq 0 30)) with
  | Some d => Nat.leb d 13 = true | None => False end.
Proof. vm_compute. reflexivity. Qed.
