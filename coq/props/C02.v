(* C02 -- the nesting limit bounds tree depth and recursion for any input.  Statements only; proofs in
   proofs/{BlockProofs,InlineProofs,CoreProofs}.v; see DESIGN.md section 6 C02. *)
From Coq Require Import String.
From MdIt Require Import Prims Tables Ruler Tree Render Block Inline Core Dump Dispatch BlockProofs InlineProofs CoreProofs DepthProofs InlineDepthProofs TreeDepthProofs ConfigProofs.
Local Open Scope string_scope.
Local Open Scope list_scope.
Local Open Scope N_scope.

Definition html_of (cfg src : string) : str :=
  let m := build_md (bs cfg) 100 in
  match snd (parse (default_fuel m) m (bs src)) with
  | inr d => match render false (d_root d) with inr h => h | inl _ => bs "<render panic>" end
  | inl _ => bs "<parse panic>"
  end.

Definition depth_with (nest : N) (src : str) : option nat :=
  let m := build_md (bs "CsW") nest in
  match snd (parse (default_fuel m) m src) with inr d => Some (depth_of (d_root d)) | inl _ => None end.

(* 60 nested block quotes / brackets under a limit of 3: depth stays within 3*limit+4 *)
Example C02_witness_quotes : depth_with 3 (repeatN 62 60 ++ bs " a") = Some 3%nat.
Proof. vm_compute. reflexivity. Qed.
Example C02_witness_brackets :
  match depth_with 3 (flat_map (fun _ => bs "![") (seq 0 30) ++ bs "a" ++ flat_map (fun _ => bs "](u)") (seq 0 30)) with
  | Some d => Nat.leb d 13 = true | None => False end.
Proof. vm_compute. reflexivity. Qed.

(* FULL STATEMENT: depth_of (d_root d) and the recursion needed to parse, walk, render and drop the
   tree are bounded by a constant multiple of max_nesting, for every input.

   PROVED (this file): the recursion needed to PARSE.  In the model every nested call of the block
   tokenizer, the inline tokenizer and skip_token consumes one unit of fuel, and running out is the
   distinguished outcome OutOfFuel; the theorems say that outcome is impossible once the budget exceeds
   the nesting limit by 1 (blocks) or 2 (inlines) -- whatever the input and the rule chain.
   ALSO PROVED: the tree built by the block parser is at most 2 * max_nesting deep (any input, any chain).
   ALSO PROVED: for every parser whose inline chain contains no emphasis-pair rule (emphasis, strong,
   strikethrough), the depth of the whole document tree is bounded by a function of the core chain and the
   nesting limit alone: each inline root adds at most max_nesting + 1 levels (links and images one per level).
   NOT PROVED, because false: the same bound with the emphasis-pair rules -- open known finding F3 (see the
   refuting example below); walk, render and drop recurse once per tree level, so they are bounded exactly
   when the depth is.  Decided on every run by the depth oracle (tree depth, emphasis wrappers not counted, <= 3*limit+4), the measured
   recursion gauge of the implementation, and the correspondence.  Emphasis nesting is NOT bounded by
   the limit in the implementation: open known finding F3. *)

(* block tokenizer at any level: budget maxnest + 1 - level suffices *)
Theorem C02_block_recursion_bounded : forall cfg fuel st,
  (N.to_nat (bc_maxnest cfg + 1 - b_level st) <= fuel)%nat -> (b_level st <= bc_maxnest cfg) ->
  btokenize fuel cfg st <> inl OutOfFuel.
Proof. exact block_recursion_bounded. Qed.

(* inline tokenizer / skip_token at any level: budgets maxnest + 2 - level and maxnest + 1 - level *)
Theorem C02_inline_recursion_bounded : forall cfg fuel st, cache_ok st ->
  (N.to_nat (ic_maxnest cfg + 2 - i_level st) <= fuel)%nat -> (i_level st <= ic_maxnest cfg) ->
  itokenize fuel cfg st <> inl OutOfFuel.
Proof. exact inline_recursion_bounded. Qed.

(* the whole parser with the default budget 2 * max_nesting + 10 *)
Theorem C02_parse_recursion_bounded : forall m src, snd (parse (default_fuel m) m src) <> inl OutOfFuel.
Proof. exact parse_recursion_bounded. Qed.

(* block tree depth: quotes add one level, lists two, per nesting level; beyond the limit nothing is built *)
Theorem C02_block_tree_depth_bounded : forall fuel cfg texts k m a e refs root' refs',
  block_parse fuel cfg texts (Node k m a e []) refs = inr (root', refs') ->
  (depth_of root' <= 2 * N.to_nat (bc_maxnest cfg))%nat.
Proof. exact block_tree_depth. Qed.

(* one inline root: links / images nest one level per nesting level, everything else is flat *)
Theorem C02_inline_depth_bounded_without_emphasis : forall fuel cfg src map_ k m a e refs root',
  no_emph (ic_chain cfg) = true ->
  inline_parse fuel cfg src map_ (Node k m a e []) refs = inr root' -> (depth_of root' <= S (N.to_nat (ic_maxnest cfg)))%nat.
Proof. exact inline_parse_depth. Qed.

(* the whole document, any core chain *)
Theorem C02_tree_depth_bounded_without_emphasis : forall fuel m src d cc ic,
  snd (r_iter (md_core m)) = inr cc -> snd (r_iter (md_inline m)) = inr ic -> no_emph ic = true ->
  snd (parse fuel m src) = inr d ->
  (depth_of (d_root d) <= fold_left (fun dd rule => step_bound (md_maxnest m) (md_maxnest m) rule dd) cc 0%nat)%nat.
Proof. exact parse_tree_depth. Qed.

(* the hypothesis about the inline chain discharged: every parser assembled from the shipped plugins without the
   emphasis (m), strikethrough (s), composite CommonMark (C) and harness one-tilde pair (z) letters -- any other letters, any order *)
Theorem C02_shipped_without_emphasis : forall cfg nest fuel src d cc,
  forallb (fun c => negb ((c =? 109) || (c =? 115) || (c =? 67) || (c =? 122))) cfg = true ->
  let m := build_md cfg nest in
  snd (r_iter (md_core m)) = inr cc -> snd (parse fuel m src) = inr d ->
  (depth_of (d_root d) <= fold_left (fun dd rule => step_bound (md_maxnest m) (md_maxnest m) rule dd) cc 0%nat)%nat.
Proof. exact shipped_without_emphasis_depth. Qed.

(* the bound for the usual chain block -> inline (-> sourcepos): 3 * limit + 1 *)
Example C02_bound_value : fold_left (fun dd rule => step_bound 100 100 rule dd) [C_BLOCK; C_INLINE; C_SOURCEPOS] 0%nat = 301%nat.
Proof. vm_compute. reflexivity. Qed.

(* F3, as a theorem about the model: with the emphasis rules the depth is NOT bounded by the limit *)
Example C02_emphasis_depth_refuted :
  match depth_with 1 (flat_map (fun _ => bs "*a **b ") (seq 0 6) ++ bs "c" ++ flat_map (fun _ => bs " b** a*") (seq 0 6)) with
  | Some d => Nat.ltb (3 * 1 + 4) d = true | None => False end.
Proof. vm_compute. reflexivity. Qed.

(* non-vacuity: the budget is tight up to a constant -- with a budget below the nesting limit the
   same parser does run out on nested input *)
Example C02_budget_matters :
  let m := build_md (bs "CsW") 5 in
  snd (parse 3 m (bs "> > > > > > a")) = inl OutOfFuel /\
  is_ok (snd (parse (default_fuel m) m (bs "> > > > > > a"))) = true.
Proof. vm_compute. split; reflexivity. Qed.

Print Assumptions C02_block_recursion_bounded.
Print Assumptions C02_inline_recursion_bounded.
Print Assumptions C02_parse_recursion_bounded.
Print Assumptions C02_shipped_without_emphasis.
Print Assumptions C02_block_tree_depth_bounded.
Print Assumptions C02_inline_depth_bounded_without_emphasis.
Print Assumptions C02_tree_depth_bounded_without_emphasis.
