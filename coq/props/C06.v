(* C06 -- container prefixing changes neither interpretation nor source mapping of content.  Statements only;
   proofs in proofs/QuoteProofs.v; see DESIGN.md section 6 C06. *)
From Coq Require Import String.
From MdIt Require Import Prims Tables Tree Render Block Core Dump Dispatch QuoteProofs.
Local Open Scope string_scope.
Local Open Scope list_scope.
Local Open Scope N_scope.

Definition html_of (cfg src : string) : str :=
  let m := build_md (bs cfg) 100 in
  match snd (parse (default_fuel m) m (bs src)) with
  | inr d => match render false (d_root d) with inr h => h | inl _ => bs "<render panic>" end
  | inl _ => bs "<parse panic>"
  end.

Example C06_witness_quote :
  html_of "C" "> # a
> 
> - b" = bs "<blockquote>
" ++ html_of "C" "# a

- b" ++ bs "</blockquote>
".
Proof. vm_compute. reflexivity. Qed.

(* FULL STATEMENT (not proved end to end; decided on every run by the metamorphic oracle -- HTML wrapper
   and range shift under '> ' prefixing, list-item wrapper under indentation -- and the correspondence).

   PROVED PART (model): the mechanism the property rests on.  For source lines "> " ++ T_i with T_i tab-free,
   the quote rule's scan accepts every line and hands its nested tokenizer, for each line, the line record of
   T_i itself with the text prefixed by the two bytes and the content offset moved by exactly 2 -- same
   indentation, same emptiness -- and leaves all earlier lines alone.  What is NOT proved is the second half:
   that the block and inline rules are insensitive to such a shift of (text, offset) except for adding 2 to
   every recorded position. *)

Theorem C06_quote_lines_are_shifted_lines : forall cfg st0, b_blk st0 = 0 -> forall texts start lines n le,
  (forall i T, nth_error texts i = Some T -> tab_free T = true /\ nth_error lines (start + i) = Some (qline T)) ->
  b_max st0 = (start + length texts)%nat -> (length texts <= n)%nat ->
  exists lines', quote_scan cfg st0 n lines start le = inr (lines', (start + length texts)%nat) /\
    (forall i T, nth_error texts i = Some T -> nth_error lines' (start + i) = Some (shifted T)) /\
    (forall j, (j < start)%nat -> nth_error lines' j = nth_error lines j).
Proof. exact quote_scan_rewrites. Qed.

Example C06_nonvacuous :
  shifted (bs "  - a") = LRec (bs ">   - a") 4 2%Z /\ mk_line (bs "  - a") = LRec (bs "  - a") 2 2%Z.
Proof. vm_compute. split; reflexivity. Qed.

Print Assumptions C06_quote_lines_are_shifted_lines.
