(* C06 -- container prefixing changes neither interpretation nor source mapping of content.  Statements only;
   proofs in proofs/QuoteProofs.v; see DESIGN.md section 6 C06. *)
From Coq Require Import String.
From MdIt Require Import Prims Tables Tree Render Block Core Dump Dispatch Inline QuoteProofs ShiftProofs InlineShiftProofs RenderWrapProofs.
Local Open Scope string_scope.
Local Open Scope list_scope.
Local Open Scope N_scope.

Definition html_of (cfg src : string) : str :=
  let m := build_md (bs cfg) 100 in
  match snd (parse (default_fuel m) m (bs src)) with
  | inr d => match render false (d_root d) with inr h => h | inl _ => bs "<render panic>" end
  | inl _ => bs "<parse panic>"
  end.

Example C06_witness_quote :
  html_of "C" "> # a
> 
> - b" = bs "<blockquote>
" ++ html_of "C" "# a

- b" ++ bs "</blockquote>
".
Proof. vm_compute. reflexivity. Qed.

(* FULL STATEMENT (not proved end to end; decided on every run by the metamorphic oracle -- HTML wrapper
   and range shift under '> ' prefixing, list-item wrapper under indentation -- and the correspondence).

   PROVED PART (model): the mechanism the property rests on.  For source lines "> " ++ T_i with T_i tab-free,
   the quote rule's scan accepts every line and hands its nested tokenizer, for each line, the line record of
   T_i itself with the text prefixed by the two bytes and the content offset moved by exactly 2 -- same
   indentation, same emptiness -- and leaves all earlier lines alone.  What is NOT proved is the second half:
   that the block and inline rules are insensitive to such a shift of (text, offset) except for adding 2 to
   every recorded position. *)

Theorem C06_quote_lines_are_shifted_lines : forall cfg st0, b_blk st0 = 0 -> forall texts start lines n le,
  (forall i T, nth_error texts i = Some T -> tab_free T = true /\ nth_error lines (start + i) = Some (qline T)) ->
  b_max st0 = (start + length texts)%nat -> (length texts <= n)%nat ->
  exists lines', quote_scan cfg st0 n lines start le = inr (lines', (start + length texts)%nat) /\
    (forall i T, nth_error texts i = Some T -> nth_error lines' (start + i) = Some (shifted T)) /\
    (forall j, (j < start)%nat -> nth_error lines' j = nth_error lines j).
Proof. exact quote_scan_rewrites. Qed.

(* THE SECOND HALF, BLOCK LEVEL (ShiftProofs): the block rules are insensitive to the shift.  For every prefix P of ASCII
   bytes without tabs, every state whose line texts are ASCII without tabs (first non-blank offset inside the text,
   indentation not larger than that offset -- true of every untouched tab-free line and kept by the containers), every
   chain of block rules and every fuel: tokenizing the shifted state (texts P ++ t, content offsets + |P|, same
   indentation; tree positions + |P|) gives exactly the shifted result of tokenizing the state itself -- same blocks,
   same contents, same lines consumed, same reference map, every recorded position (ranges and the position tables of
   inline content) moved by |P|.  All eleven rules, the three local loops, paragraph/heading scans, quote scan, list
   item loop, tight-list flattening, the no-rule fallback, the nested tokenizer.
   And put together with the first half: the quote rule applied to the document "> " ++ T_1 .. "> " ++ T_n returns, as the
   content of the quote, the shifted tree of T_1 .. T_n tokenized in a quote shell at nesting level 1.
   The inline pass (below): whenever it returns a tree for a block tree it returns the shifted tree for the shifted
   block tree -- every inline rule (text, line breaks, escapes, code spans, the three emphasis markers with delimiter
   matching, links and images with their nested calls, autolinks, entities, inline HTML, the harness rules), look-ahead,
   the nesting limit; every chain, every fuel, every parser built from the shipped plugins; and the fragment-joining
   core rule commutes with the shift.  (An implication, not an equation: a marker length taken off a recorded offset
   can underflow on the original offsets and not on the larger shifted ones.)
   The serializer ignores recorded positions, so the shifted block tree yields the same HTML after inline pass and
   clean-up (C06_shifted_tree_same_html).
   The HTML wrapper (C06_quote_wrapper_html): Root[Blockquote cs] renders as the blockquote element around the
   rendering of Root cs.
   NOT proved: the comparison with D parsed at level 0 (level 1 vs 0 only matters at the nesting limit), the
   list-item half, and the composition of these pieces into one statement about `parse`. *)
Theorem C06_block_tokenizer_shift_invariant : forall P, atf P = true -> forall cfg fuel st, sinv st ->
  btokenize fuel cfg (sh P st) = fmap (sh P) (btokenize fuel cfg st).
Proof. exact btokenize_sh. Qed.

Theorem C06_quote_of_prefixed_document : forall cfg f texts root refs, texts <> [] -> Forall (fun T => atf T = true) texts ->
  let n := length texts in
  let st0 := BState (map qline texts) root 0 0 n false None 0 refs in
  let innerD := BState (map mk_line texts) (mk KBlockquote None []) 0 0 n false None 1 refs in
  rule_quote cfg (btokenize f cfg) st0 =
    do inner' <- fmap (sh QP) (btokenize f cfg innerD);
    let st' := BState (map qline texts) root 0 (b_line inner') n (b_tight inner') (b_list_indent inner') 0 (b_refs inner') in
    do mp <- get_map st' 0 (b_line inner' - 1);
    ret (push_node st' (set_map (b_node inner') mp), true).
Proof. exact quote_of_prefixed_document. Qed.

Theorem C06_inline_pass_shift_invariant : forall P fuel cfg refs, pairs_plain P cfg ->
  forall n n', inline_walk fuel cfg refs n = inr n' -> inline_walk fuel cfg refs (sh_node P n) = inr (sh_node P n').
Proof. exact inline_walk_shift. Qed.

Theorem C06_inline_parse_shift_invariant : forall P fuel cfg src mp nd refs, pairs_plain P cfg ->
  forall nd', inline_parse fuel cfg src mp nd refs = inr nd' ->
  inline_parse fuel cfg src (map (sh_ent P) mp) (sh_node P nd) refs = inr (sh_node P nd').
Proof. exact inline_parse_shift. Qed.

Theorem C06_fragments_join_shift_invariant : forall P n, fj_walk (sh_node P n) = sh_node P (fj_walk n).
Proof. exact fj_walk_shift. Qed.

Theorem C06_shipped_inline_pass_shift : forall P cfg nest ic tp ts fuel refs n n',
  let icf := ICfg ic (md_maxnest (build_md cfg nest)) tp ts
                  (map (fun p : N * (bool * list (option kind)) => (fst p, snd (snd p))) (md_pairs (build_md cfg nest))) in
  inline_walk fuel icf refs n = inr n' ->
  inline_walk fuel icf refs (sh_node P n) = inr (sh_node P n') /\
  fj_walk (sh_node P n') = sh_node P (fj_walk n').
Proof. exact shipped_inline_pass_shift. Qed.

Theorem C06_render_ignores_positions : forall P x n, render x (sh_node P n) = render x n.
Proof. exact render_sh. Qed.

(* inline pass + clean-up + serializer: the shifted block tree yields the same HTML (every shipped parser) *)
Theorem C06_shifted_tree_same_html : forall P cfg nest ic tp ts fuel refs x n n',
  let icf := ICfg ic (md_maxnest (build_md cfg nest)) tp ts
                  (map (fun p : N * (bool * list (option kind)) => (fst p, snd (snd p))) (md_pairs (build_md cfg nest))) in
  inline_walk fuel icf refs n = inr n' ->
  exists n2, inline_walk fuel icf refs (sh_node P n) = inr n2 /\ render x (fj_walk n2) = render x (fj_walk n').
Proof. exact shifted_tree_same_html. Qed.

(* THE HTML WRAPPER: a document whose only block is a block quote renders as "<blockquote>" LF, the rendering of the
   quote's content as a document of its own, a line feed unless that is empty or already ends with one, "</blockquote>" LF
   -- every content, HTML and XHTML *)
Theorem C06_quote_wrapper_html : forall xhtml m a e m2 e2 m' a' e' cs,
  render xhtml (Node KRoot m a e [Node KBlockquote m2 [] e2 cs]) = fmap bq_wrap (render xhtml (Node KRoot m' a' e' cs)).
Proof. exact quote_wrapper_html. Qed.

Example C06_wrapper_nonvacuous :
  bq_wrap (bs "<p>a</p>
") = bs "<blockquote>
<p>a</p>
</blockquote>
" /\ bq_wrap [] = bs "<blockquote>
</blockquote>
".
Proof. vm_compute. split; reflexivity. Qed.

(* non-vacuity: the default parser's inline pass on a paragraph with emphasis, a code span and a link returns, and the
   shifted run returns the shifted tree *)
Example C06_inline_shift_nonvacuous :
  let para := mk KParagraph (Some (SRel 0 0, SRel 0 22))
                 [mk (KInlineRoot (bs "a *b* `c` [d](e) &amp;") [(0, SRel 0 0)]) None []] in
  let icf := ICfg [I_TEXT; I_NEWLINE; I_ESCAPE; I_BACKTICK; I_EMPH_STAR; I_LINK; I_ENTITY] 100 true []
                  [(42, [Some (KEm 42); Some (KStrong 42); None])] in
  match inline_walk 10 icf [] para with
  | inr t => inline_walk 10 icf [] (sh_node QP para) = inr (sh_node QP t) /\ 6 <= N.of_nat (length (n_children t))
  | inl _ => False
  end.
Proof. vm_compute. split; [reflexivity|discriminate]. Qed.

(* non-vacuity: the invariant holds for the line records of tab-free ASCII texts, and the shift is what it says *)
Example C06_shift_nonvacuous :
  atf (bs "  - a `b`") = true /\ sh_rec QP (mk_line (bs "  - a")) = LRec (bs ">   - a") 4 2%Z /\
  sh_node QP (mk KParagraph (Some (SRel 3 2, SRel 4 7)) [mk (KInlineRoot (bs "x") [(0, SRel 3 2)]) None []]) =
  mk KParagraph (Some (SRel 3 4, SRel 4 9)) [mk (KInlineRoot (bs "x") [(0, SRel 3 4)]) None []].
Proof. vm_compute. repeat split; reflexivity. Qed.

Example C06_nonvacuous :
  shifted (bs "  - a") = LRec (bs ">   - a") 4 2%Z /\ mk_line (bs "  - a") = LRec (bs "  - a") 2 2%Z.
Proof. vm_compute. split; reflexivity. Qed.

Print Assumptions C06_quote_lines_are_shifted_lines.
Print Assumptions C06_block_tokenizer_shift_invariant.
Print Assumptions C06_quote_of_prefixed_document.
Print Assumptions C06_inline_pass_shift_invariant.
Print Assumptions C06_inline_parse_shift_invariant.
Print Assumptions C06_fragments_join_shift_invariant.
Print Assumptions C06_shipped_inline_pass_shift.
Print Assumptions C06_render_ignores_positions.
Print Assumptions C06_shifted_tree_same_html.
Print Assumptions C06_quote_wrapper_html.
