(* C13 -- statements only; see DESIGN.md section 6 C13.  Theorems are added as the proofs land;
   the witnesses below are evaluated in the kernel on the whole-parser model. *)
From Coq Require Import String.
From MdIt Require Import Prims Tables NormRef Block Tree Render Core Dump Dispatch NormRefTables NormRefProofs.
Local Open Scope string_scope.
Local Open Scope list_scope.
Local Open Scope N_scope.

Definition html_of (cfg src : string) : str :=
  let m := build_md (bs cfg) 100 in
  match snd (parse (default_fuel m) m (bs src)) with
  | inr d => match render false (d_root d) with inr h => h | inl _ => bs "<render panic>" end
  | inl _ => bs "<parse panic>"
  end.

Example C13_witness_first_wins :
  html_of "C" "[FOO   bar]

[foo bar]: /first
[Foo Bar]: /second" = bs "<p><a href=""/first"">FOO   bar</a></p>
".
Proof. vm_compute. reflexivity. Qed.

(* FULL STATEMENT (not proved end to end; decided on every run by the resolution oracle and the
   model/implementation correspondence): a reference use resolves iff a definition with the same
   normalised label exists anywhere in the document, to the first such definition.

   PROVED PARTS.  Label normalisation = trim, collapse whitespace runs, then per character
   upper(lower(c)) (n1), over code points; facts about the case tables are established by a finite
   sweep over the tables generated from the implementation. *)

(* normalising twice = normalising once: definitions normalise their label twice, uses once,
   so this is what makes a definition reachable at all *)
Theorem C13_normalize_idempotent : forall l, normalize_cps (normalize_cps l) = normalize_cps l.
Proof. exact normalize_idempotent. Qed.

(* letter case is ignored: every character, its lowercase and its uppercase expansion have the same
   normal form (includes final sigma, sharp s, dotted I, ligatures, Kelvin/Angstrom/Ohm signs) *)
Theorem C13_case_lower : forall c, n1s (lower_cp c) = n1 c.
Proof. exact n1_lower. Qed.
Theorem C13_case_upper : forall c, n1s (upper_cp c) = n1 c.
Proof. exact n1_upper. Qed.

(* every White_Space character counts as a space, runs collapse, ends are trimmed *)
Theorem C13_whitespace_kind : forall l, normalize_cps (map ws_to_space l) = normalize_cps l.
Proof. exact whitespace_kind_irrelevant. Qed.
Theorem C13_whitespace_normal_form : forall l, nf (W l) = true /\ W (W l) = W l.
Proof. intros l. split; [apply W_nf|apply W_idempotent]. Qed.

(* the per-document map keeps the first definition of a key (entry().or_insert_with) *)
Theorem C13_first_definition_wins : forall defs m k,
  ref_get (fold_left (fun m (d : str * refentry) => ref_insert_first m (fst d) (snd d)) defs m) k =
  match ref_get m k with Some x => Some x | None => first_def defs k end.
Proof. exact first_definition_wins. Qed.

Example C13_nonvacuous :
  normalize_cps [0x3A3; 32; 9; 0x3C2; 0xDF; 0x2126] = [0x3A3; 32; 0x3A3; 83; 83; 0x3A9].
Proof. vm_compute. reflexivity. Qed.

Print Assumptions C13_normalize_idempotent.
Print Assumptions C13_case_lower.
Print Assumptions C13_whitespace_kind.
Print Assumptions C13_first_definition_wins.
