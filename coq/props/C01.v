(* C01 -- statements only; see DESIGN.md section 6 C01.  Theorems are added as the proofs land;
   the witnesses below are evaluated in the kernel on the whole-parser model. *)
From Coq Require Import String.
From MdIt Require Import Prims Tables Tree Render Core Dump Dispatch.
Local Open Scope string_scope.
Local Open Scope list_scope.
Local Open Scope N_scope.

Definition html_of (cfg src : string) : str :=
  let m := build_md (bs cfg) 100 in
  match snd (parse (default_fuel m) m (bs src)) with
  | inr d => match render false (d_root d) with inr h => h | inl _ => bs "<render panic>" end
  | inl _ => bs "<parse panic>"
  end.

(* the input that used to panic in the code-span closer cache now parses and renders *)
Example C01_witness_bracket_backtick : html_of "CsW" "[`" = bs "<p>[`</p>
".
Proof. vm_compute. reflexivity. Qed.
