(* C01 -- parsing and rendering never panic, abort or hang.  Statements only; proofs in
   proofs/{BlockProofs,InlineProofs,RegexProofs,CoreProofs,RenderProofs}.v; see DESIGN.md section 6 C01. *)
From Coq Require Import String.
From MdIt Require Import Prims Tables Tree Render Block Inline Core Dump Dispatch BlockProofs InlineProofs CoreProofs.
Local Open Scope string_scope.
Local Open Scope list_scope.
Local Open Scope N_scope.

Definition html_of (cfg src : string) : str :=
  let m := build_md (bs cfg) 100 in
  match snd (parse (default_fuel m) m (bs src)) with
  | inr d => match render false (d_root d) with inr h => h | inl _ => bs "<render panic>" end
  | inl _ => bs "<parse panic>"
  end.

(* the input that used to panic in the code-span closer cache now parses and renders *)
Example C01_witness_bracket_backtick : html_of "CsW" "[`" = bs "<p>[`</p>
".
Proof. vm_compute. reflexivity. Qed.

(* FULL STATEMENT: for every parser m built from the shipped plugins and every UTF-8 text src,
     snd (parse (default_fuel m) m src) = inr d   and   render x (d_root d) = inr html.
   The model returns inl (Panic k) where the implementation would panic, inl Hang where one of
   its unbounded `while` loops would not make progress, and inl OutOfFuel where the recursion
   would go deeper than 2 * max_nesting + 10.

   PROVED (this file): the Hang and OutOfFuel outcomes are impossible -- for EVERY parser object
   (any rule chain in any order, shipped or not, any cache state, any nesting limit) and every byte
   string.  NOT PROVED: absence of Panic (index, slice, unwrap, overflow, assertion); it is decided on every
   run by the model/implementation correspondence and the no-panic oracle on generated documents. *)

Definition terminates {A} (r : res A) : Prop := r <> inl Hang /\ r <> inl OutOfFuel.

Lemma benign_terminates {A} (r : res A) : benign r -> terminates r.
Proof. destruct r as [[k| |]|x]; cbn; intros H; try contradiction; split; discriminate. Qed.

(* 1. the whole parser *)
Theorem C01_parse_terminates : forall m src, terminates (snd (parse (default_fuel m) m src)).
Proof. intros m src. apply benign_terminates. exact (parse_terminates m src). Qed.

(* 2. the two engines, for any chain of rules and any state: the block tokenizer's line loop,
      the list-item loop, the inline tokenizer's position loop and the link-label scanner always advance *)
Theorem C01_block_never_hangs : forall fuel cfg st, btokenize fuel cfg st <> inl Hang.
Proof. exact btokenize_never_hangs. Qed.
Theorem C01_inline_never_hangs : forall fuel cfg st, cache_ok st -> itokenize fuel cfg st <> inl Hang.
Proof. exact itokenize_never_hangs. Qed.

(* 3. what makes the inline loop advance: a rule that reports a match reports a positive length
      (or, for links, an end beyond the start), and skip_token always moves forward *)
Theorem C01_rule_progress : forall cfg TK SK LT LS,
  (forall st, cache_ok st -> gspec (condT cfg LT (i_level st)) cache_ok (TK st)) ->
  (forall st, cache_ok st -> (i_pos st < i_max st) -> gspec (condS cfg LS (i_level st)) (spost_i st) (SK st)) ->
  forall c r st silent, cache_ok st -> rcond cfg LT LS c silent (i_level st) ->
  gspec c (ipost st) (run_rule cfg TK SK r st silent).
Proof. exact run_rule_spec. Qed.

(* 4. rendering has no loop and no recursion budget of its own (it may still panic on a node kind
      that has no renderer, e.g. an inline root left behind by a parser without the inline rule) *)
Theorem C01_render_terminates : forall xhtml n, terminates (render xhtml n).
Proof. intros xhtml n. apply benign_terminates. exact (render_benign xhtml n). Qed.

(* non-vacuity: a document exercising both loops parses to a value *)
Example C01_nonvacuous :
  let m := build_md (bs "CsW") 100 in
  is_ok (snd (parse (default_fuel m) m (bs "- > [a *b* `c`](</u> 't')
  1. <b>x</b>"))) = true.
Proof. vm_compute. reflexivity. Qed.

Print Assumptions C01_parse_terminates.
Print Assumptions C01_block_never_hangs.
Print Assumptions C01_inline_never_hangs.
Print Assumptions C01_rule_progress.
Print Assumptions C01_render_terminates.
