(* C01 -- parsing and rendering never panic, abort or hang.  Statements only; proofs in
   proofs/{BlockProofs,InlineProofs,RegexProofs,CoreProofs,RenderProofs}.v; see DESIGN.md section 6 C01. *)
From Coq Require Import String.
From MdIt Require Import Prims Tables Ruler Tree Render Block Inline Core Dump Dispatch BlockProofs RefSafeProofs BlockSafeProofs InlineProofs CoreProofs PairsProofs RenderTotalProofs.
Local Open Scope string_scope.
Local Open Scope list_scope.
Local Open Scope N_scope.

Definition html_of (cfg src : string) : str :=
  let m := build_md (bs cfg) 100 in
  match snd (parse (default_fuel m) m (bs src)) with
  | inr d => match render false (d_root d) with inr h => h | inl _ => bs "<render panic>" end
  | inl _ => bs "<parse panic>"
  end.

(* the input that used to panic in the code-span closer cache now parses and renders *)
Example C01_witness_bracket_backtick : html_of "CsW" "[`" = bs "<p>[`</p>
".
Proof. vm_compute. reflexivity. Qed.

(* FULL STATEMENT: for every parser m built from the shipped plugins and every UTF-8 text src,
     snd (parse (default_fuel m) m src) = inr d   and   render x (d_root d) = inr html.
   The model returns inl (Panic k) where the implementation would panic, inl Hang where one of
   its unbounded `while` loops would not make progress, and inl OutOfFuel where the recursion
   would go deeper than 2 * max_nesting + 10.

   PROVED (this file): (a) the Hang and OutOfFuel outcomes are impossible -- for EVERY parser object
   (any rule chain in any order, shipped or not, any cache state, any nesting limit) and every byte
   string; (b) rendering a tree the parser returned never panics (theorems 5-6), for every parser whose
   core chain runs inline parsing after the last block pass and fragments-join after the last inline pass.
   NOT PROVED: absence of Panic (index, slice, unwrap, overflow, assertion) inside `parse`; it is decided on
   every run by the model/implementation correspondence and the no-panic oracle on generated documents. *)

Definition terminates {A} (r : res A) : Prop := r <> inl Hang /\ r <> inl OutOfFuel.

Lemma benign_terminates {A} (r : res A) : benign r -> terminates r.
Proof. destruct r as [[k| |]|x]; cbn; intros H; try contradiction; split; discriminate. Qed.

(* 1. the whole parser *)
Theorem C01_parse_terminates : forall m src, terminates (snd (parse (default_fuel m) m src)).
Proof. intros m src. apply benign_terminates. exact (parse_terminates m src). Qed.

(* 2. the two engines, for any chain of rules and any state: the block tokenizer's line loop,
      the list-item loop, the inline tokenizer's position loop and the link-label scanner always advance *)
Theorem C01_block_never_hangs : forall fuel cfg st, btokenize fuel cfg st <> inl Hang.
Proof. exact btokenize_never_hangs. Qed.
Theorem C01_inline_never_hangs : forall fuel cfg st, cache_ok st -> itokenize fuel cfg st <> inl Hang.
Proof. exact itokenize_never_hangs. Qed.

(* 3. what makes the inline loop advance: a rule that reports a match reports a positive length
      (or, for links, an end beyond the start), and skip_token always moves forward *)
Theorem C01_rule_progress : forall cfg TK SK LT LS,
  (forall st, cache_ok st -> gspec (condT cfg LT (i_level st)) cache_ok (TK st)) ->
  (forall st, cache_ok st -> (i_pos st < i_max st) -> gspec (condS cfg LS (i_level st)) (spost_i st) (SK st)) ->
  forall c r st silent, cache_ok st -> rcond cfg LT LS c silent (i_level st) ->
  gspec c (ipost st) (run_rule cfg TK SK r st silent).
Proof. exact run_rule_spec. Qed.

(* 4. rendering has no loop and no recursion budget of its own (it may still panic on a node kind
      that has no renderer, e.g. an inline root left behind by a parser without the inline rule) *)
Theorem C01_render_terminates : forall xhtml n, terminates (render xhtml n).
Proof. intros xhtml n. apply benign_terminates. exact (render_benign xhtml n). Qed.

(* 5. rendering what the parser returned never panics.  The renderer has no arm for three node kinds -- the inline-root
      placeholder, the emphasis-delimiter placeholder and the empty node -- and indexes a table by the heading level.
      None of these can be met: no rule builds an empty node or an out-of-range heading level (any configuration), the
      inline core rule replaces every placeholder by nodes that contain none, and fragments-join turns every delimiter
      into text.  `chain_renders cc` is a fold over the compiled core chain: block parsing may leave both placeholders,
      inline parsing removes the first and may leave the second, fragments-join removes the second. *)
Theorem C01_render_never_panics : forall fuel m src d cc xhtml,
  md_pairs_emph m = true -> snd (r_iter (md_core m)) = inr cc -> chain_renders cc = true ->
  snd (parse fuel m src) = inr d -> exists html, render xhtml (d_root d) = inr html.
Proof. exact parse_then_render. Qed.

(* 6. the first hypothesis holds for every parser assembled from the shipped plugins, in any order ... *)
Theorem C01_shipped_pairs : forall cfg nest, md_pairs_emph (build_md cfg nest) = true.
Proof. exact build_md_pairs_emph. Qed.

(* ... and the second for the shipped sets (evaluated: the compiled chains of CommonMark, + strikethrough + HTML,
   + source positions + a custom core rule, and of a parser with no emphasis rule added but fragments-join present) *)
Definition chain_ok (cfg : string) : bool :=
  match snd (r_iter (md_core (build_md (bs cfg) 100))) with inr cc => chain_renders cc | inl _ => false end.
Example C01_shipped_chains : forallb chain_ok ["C"; "CsW"; "CsWS5"; "SCs"; "5sWCS"; "nebmp"; "slp"; "C8134"] = true.
Proof. vm_compute. reflexivity. Qed.

(* the hypothesis is needed: without fragments-join (removed by the user) a left-over delimiter has no renderer *)
(* THE BLOCK PASS NEVER PANICS (BlockSafeProofs, RefSafeProofs): for every document (any list of line texts that hold no
   line feed -- the lines of every source text do: texts_of_lf_free), EVERY chain of block rules (any order, the
   reference-definition rule and custom rules included), every nesting limit and every amount of recursion fuel,
   block_parse does not end in an index / slice / unwrap / overflow / assertion failure; with the termination theorem:
   it returns.  Invariant: the line table has at least b_max entries, each entry's first non-blank offset lies within
   its text; every rule keeps the table, ends inside (start, b_max] when it accepts and returns the state unchanged when
   it declines (containers: quote scan, list item loop, nested tokenizer; reference definitions: the reported line
   count is bounded by the line feeds of the scanned text).  NOT covered: the inline pass. *)
Theorem C01_block_pass_never_panics : forall fuel cfg texts root refs,
  Forall (fun t => cl t = 0) texts -> forall k, block_parse fuel cfg texts root refs <> inl (Panic k).
Proof. exact block_parse_never_panics. Qed.

Theorem C01_block_pass_returns : forall fuel cfg texts root refs,
  Forall (fun t => cl t = 0) texts -> (N.to_nat (bc_maxnest cfg) < fuel)%nat ->
  exists x, block_parse fuel cfg texts root refs = inr x.
Proof. exact block_parse_returns. Qed.

Theorem C01_block_pass_of_source_returns : forall fuel cfg src root refs,
  (N.to_nat (bc_maxnest cfg) < fuel)%nat -> exists x, block_parse fuel cfg (LineProofs.texts_of src) root refs = inr x.
Proof. exact block_pass_of_source_returns. Qed.

Theorem C01_reference_lines_bounded : forall s label href title lines,
  parse_reference s = Some (label, href, title, lines) -> lines <= cl s.
Proof. exact parse_reference_lines. Qed.

(* non-vacuity: a nested document with a reference definition goes through the block pass of the CommonMark chain *)
Example C01_block_pass_nonvacuous :
  is_ok (block_parse 20 (BCfg [R_CODE; R_FENCE; R_QUOTE; R_HR; R_LIST; R_REF; R_HEADING; R_LHEADING; R_PARA] 100 [])
           [bs "> - a"; bs ">   ```"; bs ">"; bs "1. b"; bs "   # c"; bs "---"; bs "[r]: /u"; bs " 't'"; bs "x"] (mk KRoot None []) []) = true
  /\ forallb (fun t => cl t =? 0) [bs "> - a"; bs "[r]: /u"] = true.
Proof. vm_compute. split; reflexivity. Qed.

Example C01_render_needs_join :
  let m := remove_plugin_rule (build_md (bs "C") 100) 74 in
  match snd (parse (default_fuel m) m (bs "*a")) with inr d => render false (d_root d) | inl e => inl e end = inl (Panic Unimplemented).
Proof. vm_compute. reflexivity. Qed.

(* non-vacuity: a document exercising both loops parses to a value *)
Example C01_nonvacuous :
  let m := build_md (bs "CsW") 100 in
  is_ok (snd (parse (default_fuel m) m (bs "- > [a *b* `c`](</u> 't')
  1. <b>x</b>"))) = true.
Proof. vm_compute. reflexivity. Qed.

Print Assumptions C01_parse_terminates.
Print Assumptions C01_block_never_hangs.
Print Assumptions C01_inline_never_hangs.
Print Assumptions C01_rule_progress.
Print Assumptions C01_render_terminates.
Print Assumptions C01_render_never_panics.
Print Assumptions C01_shipped_pairs.
Print Assumptions C01_block_pass_never_panics.
Print Assumptions C01_block_pass_returns.
Print Assumptions C01_block_pass_of_source_returns.
Print Assumptions C01_reference_lines_bounded.
