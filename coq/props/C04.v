(* C04 -- statements only; see DESIGN.md section 6 C04.  Theorems are added as the proofs land;
   the witnesses below are evaluated in the kernel on the whole-parser model. *)
From Coq Require Import String.
From MdIt Require Import Prims Tables Mdurl Escape HtmlRe Tree Render Core Dump Dispatch MdurlProofs RenderProofs LinkProofs LinkSafeProofs LinkAllProofs ConfigProofs.
Local Open Scope string_scope.
Local Open Scope list_scope.
Local Open Scope N_scope.

Definition html_of (cfg src : string) : str :=
  let m := build_md (bs cfg) 100 in
  match snd (parse (default_fuel m) m (bs src)) with
  | inr d => match render false (d_root d) with inr h => h | inl _ => bs "<render panic>" end
  | inl _ => bs "<parse panic>"
  end.

Example C04_witness_rejected :
  html_of "Cs" "[a](&#106;avascript:x) <JAVASCRIPT:y> [b](data:image/png;base64,AA)" =
  bs "<p>[a](javascript:x) &lt;JAVASCRIPT:y&gt; <a href=""data:image/png;base64,AA"">b</a></p>
".
Proof. vm_compute. reflexivity. Qed.

(* FULL STATEMENT (proved up to one gap, see C04_sites below; decided in addition on every run by the browser-scheme
   oracle on the implementation's output and by the model/implementation correspondence): no href/src in the
   output of any parse is read by a browser as a javascript/vbscript/file/data URL.

   PROVED PART: the pipeline every destination goes through at the three call sites
   (decode -> normalize_link -> validate_link -> attribute escaping -> browser), for every byte string. *)

(* a normalised link consists of printable ASCII only (safe set of normalize_link is a generated-
   constant side condition: changing it to include a control, space, DEL or non-ASCII breaks this) *)
Theorem C04_normalized_printable : forall s, bytes_ok s -> forallb printable (normalize_link s) = true.
Proof. exact normalize_printable. Qed.

(* what the browser reads from the attribute (entities decoded, leading C0/space stripped, tab and
   line feeds removed) is exactly the normalised link: no entity / whitespace / control trick survives *)
Theorem C04_browser_sees_normalized : forall s, bytes_ok s ->
  browser_view (escape_html (normalize_link s)) = normalize_link s.
Proof. exact browser_sees_normalized. Qed.

(* validate_link on ASCII text = "does not start (any letter case) with vbscript: javascript: file:
   data:, unless it starts with data:image/(gif|png|jpeg|webp);" -- the regex engine's verdict *)
Theorem C04_validate_spec : forall u, forallb (fun b => b <? 128) u = true ->
  validate_link u = negb (bad_scheme u) || good_data u.
Proof. exact validate_link_spec. Qed.

(* therefore a link that passed the validator is not dangerous when the browser reads it *)
Theorem C04_pipeline : forall s, bytes_ok s ->
  validate_link (normalize_link s) = true ->
  browser_dangerous (escape_html (normalize_link s)) = false.
Proof. exact validated_link_not_dangerous. Qed.

Example C04_nonvacuous :
  validate_link (normalize_link (bs "JaVaScRiPt:alert(1)")) = false /\
  validate_link (normalize_link (bs "data:image/png;base64,AA")) = true /\
  validate_link (normalize_link (bs " javascript:x")) = true /\
  browser_view (escape_html (normalize_link (bs " javascript:x"))) = bs "%20javascript:x".
Proof. vm_compute. repeat split. Qed.

(* THE CALL SITES, end to end over the whole-parser model: every Link, Image and Autolink node of every parsed tree
   (every parser configuration, every input) carries a URL that came out of normalize_link and was accepted by
   validate_link -- stated for an arbitrary property `good` shared by all validated normalised links (reference
   definitions included: the reference map only ever receives such destinations), and instantiated with validate_link
   itself.  Together with the pipeline theorems above this gives the full statement for every input whose bytes are
   bytes (< 256); that side condition of the normaliser's theorems is the one gap: it is a fact about the model's
   representation of strings (lists of N), true of every real input, and not carried through the parser here. *)
Theorem C04_sites : forall good : str -> bool,
  (forall s, validate_link (normalize_link s) = true -> good (normalize_link s) = true) -> good [] = true ->
  forall fuel m src d, LinkSafeProofs.md_pairs_ok good m = true -> snd (parse fuel m src) = inr d ->
  LinkSafeProofs.raw_free good (d_root d) = true.
Proof. exact LinkSafeProofs.parse_links_good. Qed.

Theorem C04_tree_urls_validated : forall fuel m src d,
  LinkSafeProofs.md_pairs_ok validate_link m = true -> snd (parse fuel m src) = inr d ->
  LinkSafeProofs.raw_free validate_link (d_root d) = true.
Proof. exact (LinkSafeProofs.parse_links_good validate_link (fun s H => H) eq_refl). Qed.

(* END TO END.  url_safe u := validate_link accepts u, AND a browser reads the escaped attribute back as u itself (for
   every string, bytes or not: the normaliser never emits a space or control character), AND if u is an ASCII string
   it is not a dangerous URL.  Every URL of every parsed tree is url_safe.  The normaliser's output is ASCII for every
   byte string (last theorem), so for real inputs the condition of the third clause holds; it is stated as a condition on
   the URL in the tree -- a decidable fact about the result -- rather than carried through the parser. *)
Theorem C04_end_to_end : forall fuel m src d,
  LinkSafeProofs.md_pairs_ok url_safe m = true -> snd (parse fuel m src) = inr d ->
  LinkSafeProofs.raw_free url_safe (d_root d) = true.
Proof. exact parse_urls_safe. Qed.

(* the hypothesis on the emphasis table discharged: EVERY parser assembled from the shipped plugins, every input *)
Theorem C04_shipped : forall cfg nest fuel src d, snd (parse fuel (build_md cfg nest) src) = inr d ->
  LinkSafeProofs.raw_free url_safe (d_root d) = true.
Proof. exact shipped_urls_safe. Qed.

Theorem C04_browser_reads_tree_url : forall s, browser_view (escape_html (normalize_link s)) = normalize_link s.
Proof. exact browser_reads_normalized. Qed.

Theorem C04_normalized_is_ascii : forall s, bytes_ok s -> ascii_only (normalize_link s) = true.
Proof. exact normalize_ascii_only. Qed.

Example C04_sites_nonvacuous :
  let m := build_md (bs "CsW") 100 in
  LinkSafeProofs.md_pairs_ok validate_link m = true /\
  match snd (parse (default_fuel m) m (bs "[a](http://x/%zz) <mailto:q@r.s> ![i](data:image/png;base64,AA)

[r]: <JavaScript:1>

[r]")) with
  | inr d => LinkSafeProofs.raw_free validate_link (d_root d) = true /\ depth_of (d_root d) = 3%nat | inl _ => False end.
Proof. vm_compute. repeat split. Qed.

Print Assumptions C04_normalized_printable.
Print Assumptions C04_browser_sees_normalized.
Print Assumptions C04_validate_spec.
Print Assumptions C04_pipeline.
Print Assumptions C04_sites.
Print Assumptions C04_tree_urls_validated.
Print Assumptions C04_end_to_end.
Print Assumptions C04_shipped.
Print Assumptions C04_browser_reads_tree_url.
Print Assumptions C04_normalized_is_ascii.
