(* C17 -- URL normalisation yields clean, stable percent-encoding.
   Statements only; every proof is `exact <lemma>`.  Model: model/Mdurl.v
   (src/common/mdurl/encode.rs, asciiset.rs, normalize_link in src/parser/main.rs). *)
From Coq Require Import String.
From MdIt Require Import Prims Mdurl MdurlProofs.
Local Open Scope string_scope.
Local Open Scope N_scope.

(* for every byte string, every safe set and both keep-escaped modes the result is pure ASCII *)
Theorem C17_ascii : forall safe keep s,
  bytes_ok s -> Forall (fun b => b < 128) (encode safe keep s).
Proof. exact encode_ascii. Qed.

(* ... made only of safe characters and well-formed %XX triplets *)
Theorem C17_grammar : forall safe keep s,
  bytes_ok s -> wf_enc safe (encode safe keep s).
Proof. exact encode_grammar. Qed.

(* keep-escaped mode is idempotent ... *)
Theorem C17_idempotent : forall safe s,
  bytes_ok s -> encode safe true (encode safe true s) = encode safe true s.
Proof. exact encode_idempotent. Qed.

(* ... and preserves every valid %XX of the input (decoding before and after agree) *)
Theorem C17_keeps_escapes : forall safe s,
  bytes_ok s -> pct_dec (encode safe true s) = pct_dec s.
Proof. exact encode_keeps_escapes. Qed.

(* without keep-escaped (and '%' not declared safe) percent-decoding returns the original bytes *)
Theorem C17_roundtrip : forall safe s,
  bytes_ok s -> aset_has safe 37 = false -> pct_dec (encode safe false s) = s.
Proof. exact encode_roundtrip. Qed.

(* the model is a total function: a '%' in the last two positions takes the plain branch
   (the look-ahead guard `i + 2 < len` is the pattern  h1 :: h2 :: _ ) *)
Example C17_percent_at_end :
  encode normalize_safe true (bs "%") = bs "%25" /\
  encode normalize_safe true (bs "%a") = bs "%25a" /\
  encode normalize_safe true (bs "a%4") = bs "a%254" /\
  encode normalize_safe true (bs "%4G%41") = bs "%254G%41".
Proof. vm_compute. repeat split. Qed.

(* non-vacuity: hypotheses are satisfiable on a non-trivial value *)
Example C17_nonvacuous :
  bytes_ok (bs "a b%41%4") /\ aset_has normalize_safe 37 = false.
Proof. split; [repeat constructor|vm_compute; reflexivity]. Qed.

Print Assumptions C17_ascii.
Print Assumptions C17_grammar.
Print Assumptions C17_idempotent.
Print Assumptions C17_keeps_escapes.
Print Assumptions C17_roundtrip.
