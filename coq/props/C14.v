(* C14 -- statements only; see DESIGN.md section 6 C14.  Theorems are added as the proofs land;
   the witnesses below are evaluated in the kernel on the whole-parser model. *)
From Coq Require Import String.
From MdIt Require Import Prims Tables Tree Render Core Dump Dispatch TreeProofs FragProofs.
Local Open Scope string_scope.
Local Open Scope list_scope.
Local Open Scope N_scope.

Definition html_of (cfg src : string) : str :=
  let m := build_md (bs cfg) 100 in
  match snd (parse (default_fuel m) m (bs src)) with
  | inr d => match render false (d_root d) with inr h => h | inl _ => bs "<render panic>" end
  | inl _ => bs "<parse panic>"
  end.

Definition tree_of (cfg src : string) : str :=
  let m := build_md (bs cfg) 100 in
  match snd (parse (default_fuel m) m (bs src)) with
  | inr d => dump_tree (d_starts d) (d_root d) | inl _ => bs "<panic>" end.

Example C14_witness_merged_text :
  tree_of "C" "a * b *c" = bs "0:Root()@0-8{};1:Paragraph()@0-8{};2:Text(61202a2062202a63)@0-8{}".
Proof. vm_compute. reflexivity. Qed.

(* FULL STATEMENT (not yet proved for the whole parser; decided on every run by the tree-shape oracle
   and the model/implementation correspondence):
     forall cfg src t, has_paragraph cfg -> parse cfg src = inr t -> wf_tree t
   where wf_tree = final kinds only, Root at the top only, list/item discipline, inline kinds under
   leaf blocks / items / inline containers only, childless leaves, no empty Text, no adjacent Text.

   PROVED PART (the clean-up pass every tree goes through, for every tree whatsoever): *)

(* after FragmentsJoin no node anywhere in the tree has a delimiter placeholder, an empty Text
   or two adjacent Text nodes among its children *)
Theorem C14_fragments_join_partial : forall n, frag_ok (fj_walk n) = true.
Proof. exact fj_walk_ok. Qed.

(* the pass touches nothing but text: all other nodes stay, in order ... *)
Theorem C14_join_keeps_others : forall l,
  filter (fun n => negb (is_text n)) (fj_collapse None l) = filter (fun n => negb (is_text n)) l.
Proof. intros l. exact (fj_others l None I). Qed.

(* ... and the text itself is preserved *)
Theorem C14_join_keeps_text : forall l,
  flat_map content_of (fj_collapse None l) = flat_map content_of l.
Proof. intros l. exact (fj_text l None I). Qed.

Example C14_nonvacuous :
  let t := mk KParagraph None [mk (KText (bs "a")) None []; mk (KEmphMarker 42 2 1 true false) None [];
                               mk (KEmphMarker 95 1 0 true false) None []; mk (KText (bs "b")) None [];
                               mk (KEm 42) None [mk (KEmphMarker 42 1 1 false true) None []]] in
  map (fun c => content_of c) (n_children (fj_walk t)) = [bs "a*b"; []] /\ frag_ok (fj_walk t) = true.
Proof. vm_compute. split; reflexivity. Qed.

Print Assumptions C14_fragments_join_partial.
Print Assumptions C14_join_keeps_others.
Print Assumptions C14_join_keeps_text.
