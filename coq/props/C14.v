(* C14 -- statements only; see DESIGN.md section 6 C14.  Theorems are added as the proofs land;
   the witnesses below are evaluated in the kernel on the whole-parser model. *)
From Coq Require Import String.
From MdIt Require Import Prims Tables Ruler Tree Render Block Core Dump Dispatch TreeProofs FragProofs PairsProofs RenderTotalProofs ConfigProofs.
From MdIt Require KindProofs NoRootProofs PlaceProofs.
Local Open Scope string_scope.
Local Open Scope list_scope.
Local Open Scope N_scope.

Definition html_of (cfg src : string) : str :=
  let m := build_md (bs cfg) 100 in
  match snd (parse (default_fuel m) m (bs src)) with
  | inr d => match render false (d_root d) with inr h => h | inl _ => bs "<render panic>" end
  | inl _ => bs "<parse panic>"
  end.

Definition tree_of (cfg src : string) : str :=
  let m := build_md (bs cfg) 100 in
  match snd (parse (default_fuel m) m (bs src)) with
  | inr d => dump_tree (d_starts d) (d_root d) | inl _ => bs "<panic>" end.

Example C14_witness_merged_text :
  tree_of "C" "a * b *c" = bs "0:Root()@0-8{};1:Paragraph()@0-8{};2:Text(61202a2062202a63)@0-8{}".
Proof. vm_compute. reflexivity. Qed.

(* FULL STATEMENT (proved for the whole parser only in the parts listed below; the rest is decided on every run by the
   tree-shape oracle and the model/implementation correspondence):
     forall cfg src t, has_paragraph cfg -> parse cfg src = inr t -> wf_tree t
   where wf_tree = final kinds only, Root at the top only, list/item discipline, inline kinds under
   leaf blocks / items / inline containers only, childless leaves, no empty Text, no adjacent Text.

   PROVED FOR THE WHOLE PARSER (every input, every parser built from the shipped plugins whose core chain runs inline
   parsing after the last block pass and fragments-join after the last inline pass -- C01_shipped_chains evaluates
   that condition for the shipped sets): final node kinds only (no inline-root placeholder, no delimiter placeholder,
   no empty node, heading levels 1..6 / 1..2), no empty Text and no two adjacent Text siblings anywhere, Root on top.
   PLACEMENT (C14_placement, C14_well_formed): for every parser whose block chain contains the paragraph rule -- any
   other rules, any core chain -- every node stands where its kind may stand (relation `may`, spelled out in
   C14_may_spec): blocks only under Root / Blockquote / Item, items only under lists and lists hold only items, inline
   nodes only under Paragraph / headings / Item (tight lists) / inline containers, code spans and autolinks hold only
   Text, every other kind (Text, breaks, Hr, code blocks, HTML, Root as a child, ...) has no children / never occurs
   as a child.  Without the paragraph rule the engine's fallback puts inline content directly under a container
   (kernel-checked example C14_needs_paragraph_rule), which is why the property is quantified as it is. *)

Theorem C14_placement : forall fuel m src d bc,
  md_pairs_emph m = true -> snd (r_iter (md_block m)) = inr bc -> In R_PARA bc ->
  snd (parse fuel m src) = inr d -> PlaceProofs.placed (d_root d) = true /\ n_kind (d_root d) = KRoot.
Proof. exact parse_placed. Qed.

(* the whole statement, placeholders excluded from the relation *)
Theorem C14_well_formed : forall fuel m src d bc cc,
  md_pairs_emph m = true -> snd (r_iter (md_block m)) = inr bc -> In R_PARA bc ->
  snd (r_iter (md_core m)) = inr cc -> chain_renders cc = true ->
  snd (parse fuel m src) = inr d ->
  n_kind (d_root d) = KRoot /\ placed_final (d_root d) = true /\ frag_ok (d_root d) = true /\ all_k KindProofs.kind_ok (d_root d) = true.
Proof. exact parse_well_formed. Qed.

(* for EVERY parser assembled from the shipped plugins with the paragraph plugin (letter p or the composite C), any
   other letters in any order: the first two hypotheses are discharged *)
Theorem C14_shipped_placement : forall cfg nest fuel src d,
  existsb (fun c => (c =? 112) || (c =? 67)) cfg = true ->
  snd (parse fuel (build_md cfg nest) src) = inr d ->
  PlaceProofs.placed (d_root d) = true /\ n_kind (d_root d) = KRoot.
Proof. exact shipped_placed. Qed.

Example C14_may_spec : forall p c, PlaceProofs.may p c =
  match p with
  | KRoot | KBlockquote => PlaceProofs.is_blk c
  | KItem => PlaceProofs.is_blk c || PlaceProofs.is_inl_ph c
  | KBullet _ | KOrdered _ _ => match c with KItem => true | _ => false end
  | KParagraph | KATX _ | KSetext _ _ => PlaceProofs.is_inl_ph c
  | KEm _ | KStrong _ | KStrike _ | KLink _ _ | KImage _ _ | KCustomPair _ => PlaceProofs.is_inl_ph c
  | KCodeInline _ _ | KAutolink _ => match c with KText _ => true | _ => false end
  | _ => false
  end.
Proof. reflexivity. Qed.
Example C14_kind_classes :
  (forall k, PlaceProofs.is_blk k = match k with KParagraph | KATX _ | KSetext _ _ | KHr _ _ | KCodeBlock _ | KFence _ _ _ _ _ | KBlockquote
                                     | KBullet _ | KOrdered _ _ | KHtmlBlock _ | KCustomBlock | KCustomCore _ => true | _ => false end) /\
  (forall k, PlaceProofs.is_inl k = match k with KText _ | KTextSpecial _ _ _ | KSoftbreak | KHardbreak | KCodeInline _ _ | KEm _ | KStrong _
                                     | KStrike _ | KLink _ _ | KImage _ _ | KAutolink _ | KHtmlInline _ | KCustomInline _ | KCustomPair _
                                     | KEmphMarker _ _ _ _ _ => true | _ => false end) /\
  (forall p c, may_final p c = PlaceProofs.may p c && NoRootProofs.kind_ok c && not_marker c).
Proof. repeat split; intros; try destruct k; reflexivity. Qed.

(* why the paragraph rule is required: without it the engine's fallback leaves inline content directly under Root *)
Example C14_needs_paragraph_rule :
  let m := build_md (bs "nebmliatcfqhurHL") 100 in
  match snd (parse (default_fuel m) m (bs "a")) with inr d => PlaceProofs.placed (d_root d) | inl _ => true end = false.
Proof. vm_compute. reflexivity. Qed.

(* non-vacuity: tight and loose lists, quotes, nested inline containers, code span, autolink *)
Example C14_placement_nonvacuous :
  let m := build_md (bs "CsW") 100 in
  match snd (parse (default_fuel m) m (bs "- a *b [c `d`](e)*
- > f <http://g.h>

  1. i
  2. ~~j~~

# k")) with inr d => placed_final (d_root d) && (20 <? N.of_nat (size (d_root d))) | inl _ => false end = true.
Proof. vm_compute. reflexivity. Qed.



Theorem C14_final_tree : forall fuel m src d cc,
  md_pairs_emph m = true -> snd (r_iter (md_core m)) = inr cc -> chain_renders cc = true ->
  snd (parse fuel m src) = inr d ->
  all_k KindProofs.kind_ok (d_root d) = true /\      (* no Empty node, heading levels in range *)
  all_k NoRootProofs.kind_ok (d_root d) = true /\    (* no inline-root placeholder *)
  all_k not_marker (d_root d) = true /\              (* no delimiter placeholder *)
  frag_ok (d_root d) = true /\                       (* no empty Text, no adjacent Text siblings, at every level *)
  n_kind (d_root d) = KRoot.
Proof. exact parse_final_tree. Qed.

(* the first of these needs no condition on the chain at all *)
Theorem C14_no_empty_any_chain : forall fuel m src d,
  md_pairs_emph m = true -> snd (parse fuel m src) = inr d -> KindProofs.raw_free (d_root d) = true.
Proof. intros fuel m src d Hp. apply KindProofs.parse_kinds_ok. apply emph_kinds. exact Hp. Qed.

Theorem C14_shipped_pairs : forall cfg nest, md_pairs_emph (build_md cfg nest) = true.
Proof. exact build_md_pairs_emph. Qed.

(* the three kind predicates, spelled out *)
Example C14_predicates :
  (forall k, KindProofs.kind_ok k = match k with KEmpty => false | KATX l => (1 <=? l) && (l <=? 6) | KSetext l _ => (1 <=? l) && (l <=? 2) | _ => true end) /\
  (forall k, NoRootProofs.kind_ok k = match k with KInlineRoot _ _ => false | _ => true end) /\
  (forall k, not_marker k = match k with KEmphMarker _ _ _ _ _ => false | _ => true end).
Proof. repeat split; intros k; destruct k; reflexivity. Qed.

(* non-vacuity of the whole-parser theorem: a document with placeholders of both kinds on the way *)
Example C14_final_nonvacuous :
  let m := build_md (bs "CsW") 100 in
  match snd (parse (default_fuel m) m (bs "# *a* _b
- [c *d](e) ~~f~~ **")) with
  | inr d => all_k not_marker (d_root d) && frag_ok (d_root d) && (2 <? N.of_nat (size (d_root d)))
  | inl _ => false end = true.
Proof. vm_compute. reflexivity. Qed.

(* THE CLEAN-UP PASS on its own (for every tree whatsoever): *)

(* after FragmentsJoin no node anywhere in the tree has a delimiter placeholder, an empty Text
   or two adjacent Text nodes among its children *)
Theorem C14_fragments_join_partial : forall n, frag_ok (fj_walk n) = true.
Proof. exact fj_walk_ok. Qed.

(* the pass touches nothing but text: all other nodes stay, in order ... *)
Theorem C14_join_keeps_others : forall l,
  filter (fun n => negb (is_text n)) (fj_collapse None l) = filter (fun n => negb (is_text n)) l.
Proof. intros l. exact (fj_others l None I). Qed.

(* ... and the text itself is preserved *)
Theorem C14_join_keeps_text : forall l,
  flat_map content_of (fj_collapse None l) = flat_map content_of l.
Proof. intros l. exact (fj_text l None I). Qed.

Example C14_nonvacuous :
  let t := mk KParagraph None [mk (KText (bs "a")) None []; mk (KEmphMarker 42 2 1 true false) None [];
                               mk (KEmphMarker 95 1 0 true false) None []; mk (KText (bs "b")) None [];
                               mk (KEm 42) None [mk (KEmphMarker 42 1 1 false true) None []]] in
  map (fun c => content_of c) (n_children (fj_walk t)) = [bs "a*b"; []] /\ frag_ok (fj_walk t) = true.
Proof. vm_compute. split; reflexivity. Qed.

Print Assumptions C14_final_tree.
Print Assumptions C14_placement.
Print Assumptions C14_well_formed.
Print Assumptions C14_shipped_placement.
Print Assumptions C14_no_empty_any_chain.
Print Assumptions C14_shipped_pairs.
Print Assumptions C14_fragments_join_partial.
Print Assumptions C14_join_keeps_others.
Print Assumptions C14_join_keeps_text.
