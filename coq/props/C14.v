(* C14 -- statements only; see DESIGN.md section 6 C14.  Theorems are added as the proofs land;
   the witnesses below are evaluated in the kernel on the whole-parser model. *)
From Coq Require Import String.
From MdIt Require Import Prims Tables Tree Render Core Dump Dispatch.
Local Open Scope string_scope.
Local Open Scope list_scope.
Local Open Scope N_scope.

Definition html_of (cfg src : string) : str :=
  let m := build_md (bs cfg) 100 in
  match snd (parse (default_fuel m) m (bs src)) with
  | inr d => match render false (d_root d) with inr h => h | inl _ => bs "<render panic>" end
  | inl _ => bs "<parse panic>"
  end.

Definition tree_of (cfg src : string) : str :=
  let m := build_md (bs cfg) 100 in
  match snd (parse (default_fuel m) m (bs src)) with
  | inr d => dump_tree (d_starts d) (d_root d) | inl _ => bs "<panic>" end.

Example C14_witness_merged_text :
  tree_of "C" "a * b *c" = bs "0:Root()@0-8{};1:Paragraph()@0-8{};2:Text(61202a2062202a63)@0-8{}".
Proof. vm_compute. reflexivity. Qed.
