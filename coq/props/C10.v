(* C10 -- statements only; see DESIGN.md section 6 C10.  Theorems are added as the proofs land;
   the witnesses below are evaluated in the kernel on the whole-parser model. *)
From Coq Require Import String.
From MdIt Require Import Prims Tables Ruler Tree Render Core Dump Dispatch LineProofs ConfigProofs.
Local Open Scope string_scope.
Local Open Scope list_scope.
(* string append for building inputs *)
Notation "a +s+ b" := (String.append a b) (at level 60, right associativity).
Local Open Scope N_scope.

Definition html_of (cfg src : string) : str :=
  let m := build_md (bs cfg) 100 in
  match snd (parse (default_fuel m) m (bs src)) with
  | inr d => match render false (d_root d) with inr h => h | inl _ => bs "<render panic>" end
  | inl _ => bs "<parse panic>"
  end.

Example C10_witness_crlf :
  let cr := String (Ascii.ascii_of_nat 13) "" in
  let lf := String (Ascii.ascii_of_nat 10) "" in
  html_of "CsW" ("a" +s+ cr +s+ lf +s+ "b") = html_of "CsW" ("a" +s+ lf +s+ "b") /\
  html_of "CsW" ("```" +s+ cr +s+ "x") = html_of "CsW" ("```" +s+ lf +s+ "x" +s+ lf).
Proof. vm_compute. split; reflexivity. Qed.

(* In the model the block parser receives the list of line texts and nothing else (positions are
   symbolic: line index + offset in the line); only the source-position rule reads the source again.

   the line texts do not depend on the line-ending convention nor on one final line ending *)
Theorem C10_lines_crlf : forall s, cr_free s = true -> texts_of (to_crlf s) = texts_of s.
Proof. exact texts_of_crlf. Qed.
Theorem C10_lines_cr : forall s, cr_free s = true -> texts_of (to_cr s) = texts_of s.
Proof. exact texts_of_cr. Qed.
Theorem C10_lines_final_lf : forall s, ends_with_eol s = false -> texts_of (s ++ [10]) = texts_of s.
Proof. exact texts_of_final_lf. Qed.

(* whole parser, any configuration whose core chain lacks the source-position rule, any fuel:
   two sources with the same line texts give the same HTML / XHTML (same error, if any) *)
Theorem C10_parse_depends_on_lines : forall fuel m xhtml s1 s2,
  no_sourcepos m -> texts_of s1 = texts_of s2 -> html_of_parse fuel m xhtml s1 = html_of_parse fuel m xhtml s2.
Proof. exact parse_depends_on_texts. Qed.

(* the property: LF -> CRLF, LF -> CR, appended final line ending *)
Theorem C10_crlf : forall fuel m xhtml s, no_sourcepos m -> cr_free s = true ->
  html_of_parse fuel m xhtml (to_crlf s) = html_of_parse fuel m xhtml s.
Proof. exact html_crlf. Qed.
Theorem C10_cr : forall fuel m xhtml s, no_sourcepos m -> cr_free s = true ->
  html_of_parse fuel m xhtml (to_cr s) = html_of_parse fuel m xhtml s.
Proof. exact html_cr. Qed.
Theorem C10_final_newline : forall fuel m xhtml s, no_sourcepos m -> ends_with_eol s = false ->
  html_of_parse fuel m xhtml (s ++ [10]) = html_of_parse fuel m xhtml s.
Proof. exact html_final_lf. Qed.

(* the hypothesis holds for EVERY parser assembled from the shipped plugins without the source-position plugin (letter S):
   a compiled chain contains only rules that were added, and no other plugin adds that rule *)
Theorem C10_shipped_without_sourcepos : forall cfg nest,
  forallb (fun c => negb (c =? 83)) cfg = true -> no_sourcepos (build_md cfg nest).
Proof. exact build_md_no_sourcepos. Qed.

(* hence, spelled out for the three transformations on such parsers *)
Theorem C10_shipped : forall cfg nest fuel xhtml s, forallb (fun c => negb (c =? 83)) cfg = true ->
  let m := build_md cfg nest in
  (cr_free s = true -> html_of_parse fuel m xhtml (to_crlf s) = html_of_parse fuel m xhtml s) /\
  (cr_free s = true -> html_of_parse fuel m xhtml (to_cr s) = html_of_parse fuel m xhtml s) /\
  (ends_with_eol s = false -> html_of_parse fuel m xhtml (s ++ [10]) = html_of_parse fuel m xhtml s).
Proof.
  intros cfg nest fuel xhtml s Hc m. pose proof (build_md_no_sourcepos cfg nest Hc) as Hn. fold m in Hn.
  split; [|split]; intros H; [apply html_crlf|apply html_cr|apply html_final_lf]; assumption.
Qed.

(* the shipped plugin set (CommonMark + strikethrough + raw HTML) has no source-position rule; with
   that rule the statement is about line:column attributes and is NOT proved (checked by the oracle) *)
Example C10_nonvacuous : no_sourcepos (build_md (bs "CsW") 100) /\ cr_free (bs "a") = true.
Proof. split; [vm_compute; repeat constructor; discriminate|reflexivity]. Qed.

Print Assumptions C10_parse_depends_on_lines.
Print Assumptions C10_shipped_without_sourcepos.
Print Assumptions C10_shipped.
Print Assumptions C10_crlf.
Print Assumptions C10_cr.
Print Assumptions C10_final_newline.
