(* C10 -- statements only; see DESIGN.md section 6 C10.  Theorems are added as the proofs land;
   the witnesses below are evaluated in the kernel on the whole-parser model. *)
From Coq Require Import String.
From MdIt Require Import Prims Tables Tree Render Core Dump Dispatch.
Local Open Scope string_scope.
Local Open Scope list_scope.
(* string append for building inputs *)
Notation "a +s+ b" := (String.append a b) (at level 60, right associativity).
Local Open Scope N_scope.

Definition html_of (cfg src : string) : str :=
  let m := build_md (bs cfg) 100 in
  match snd (parse (default_fuel m) m (bs src)) with
  | inr d => match render false (d_root d) with inr h => h | inl _ => bs "<render panic>" end
  | inl _ => bs "<parse panic>"
  end.

Example C10_witness_crlf :
  let cr := String (Ascii.ascii_of_nat 13) "" in
  let lf := String (Ascii.ascii_of_nat 10) "" in
  html_of "CsW" ("a" +s+ cr +s+ lf +s+ "b") = html_of "CsW" ("a" +s+ lf +s+ "b") /\
  html_of "CsW" ("```" +s+ cr +s+ "x") = html_of "CsW" ("```" +s+ lf +s+ "x" +s+ lf).
Proof. vm_compute. split; reflexivity. Qed.
