(* C05 -- every node carries a valid, nested, ordered and faithful source range.  Statements only; proofs in
   proofs/RangeProofs.v; see DESIGN.md section 6 C05. *)
From Coq Require Import String.
From MdIt Require Import Prims Tables Tree Render Block Inline Core Dump Dispatch RangeProofs RefSafeProofs BlockRangeDefs BlockSafeProofs LineProofs.
Local Open Scope string_scope.
Local Open Scope list_scope.
Local Open Scope N_scope.

Definition html_of (cfg src : string) : str :=
  let m := build_md (bs cfg) 100 in
  match snd (parse (default_fuel m) m (bs src)) with
  | inr d => match render false (d_root d) with inr h => h | inl _ => bs "<render panic>" end
  | inl _ => bs "<parse panic>"
  end.

Definition tree_of (cfg src : string) : str :=
  let m := build_md (bs cfg) 100 in
  match snd (parse (default_fuel m) m (bs src)) with
  | inr d => dump_tree (d_starts d) (d_root d) | inl _ => bs "<panic>" end.

(* emphasis outside the first paragraph: the range that used to be translated twice *)
Example C05_witness_emphasis_range :
  tree_of "C" "a

*b*" = bs "0:Root()@0-6{};1:Paragraph()@0-1{};2:Text(61)@0-1{};1:Paragraph()@3-6{};2:Em(42)@3-6{};3:Text(62)@4-5{}".
Proof. vm_compute. reflexivity. Qed.

(* FULL STATEMENT (not proved end to end; decided on every run by the range oracle on every node of
   generated documents and by the model/implementation correspondence on every range): every node has
   0 <= start <= end <= len src on character boundaries, the root covers the input, children lie inside
   their parent in source order, a one-line Text node selects its own text and an escape / character
   reference node selects its markup.

   PROVED PARTS (model, every parser configuration and input):
   - the root's range is [0, len src) whatever the core chain does to the tree;
   - a text node is created with content = src[a..b) and the positions of a and b as its range, and
     grows by src[a..b) at its end with its range end moved to the position of b;
   - an escape node's / character reference node's markup is the source text under its range. *)

Theorem C05_root_covers_input : forall fuel m src d,
  snd (parse fuel m src) = inr d -> n_map (d_root d) = Some (SAbs 0, SAbs (len src)).
Proof. exact root_covers_input. Qed.

Theorem C05_text_created_faithful : forall st a b st',
  match last_child st with Some x => is_text_kind x = false | None => True end ->
  trailing_text_push st a b = inr st' ->
  exists pa pb, source_pos_for st a = inr pa /\ source_pos_for st b = inr pb /\
    last_child st' = Some (mk (KText (sub (i_src st) a b)) (Some (pa, pb)) []).
Proof. exact text_push_fresh. Qed.

Theorem C05_text_extended_faithful : forall st a b st' init c ms me at_ e cs,
  split_last (n_children (i_node st)) = Some (init, Node (KText c) (Some (ms, me)) at_ e cs) ->
  trailing_text_push st a b = inr st' ->
  exists pb, source_pos_for st b = inr pb /\
    last_child st' = Some (Node (KText (c ++ sub (i_src st) a b)) (Some (ms, pb)) at_ e cs).
Proof. exact text_push_merge. Qed.

Theorem C05_entity_selects_markup : forall st st' n,
  rule_entity st false = inr (st', Some n) -> pushed_special st st' n.
Proof. exact entity_markup. Qed.

Theorem C05_escape_selects_markup : forall st st' n, rule_escape st false = inr (st', Some n) ->
  exists rest, irest st = inr rest /\
    ((exists m, last_child st' = Some (mk KHardbreak m [])) \/
     exists content pa pb,
       last_child st' = Some (mk (KTextSpecial content (takeN n rest) false) (Some (pa, pb)) []) /\
       source_pos_for st (i_pos st) = inr pa /\ source_pos_for st (i_pos st + n) = inr pb).
Proof. exact escape_markup. Qed.

(* THE BLOCK TREE (BlockSafeProofs, same invariant as the no-panic proof of C01): for every document (list of line texts
   without line feeds; the lines of every source text), every chain of block rules, every limit and fuel -- every block node the block
   pass returns carries a range (line a, offset) .. (line b, offset) whose ends are positions of the line texts
   (offset <= length of that line), a <= b and on one line start offset <= end offset; the lines of every child lie
   within the lines of its parent; siblings occupy strictly increasing, disjoint line ranges (kids_ok / blk_ok, file
   BlockRangeDefs; nodes without a range -- the placeholders of inline content -- are skipped).  Containers (quote,
   list, list item, tight-list flattening) included.  In absolute offsets this is validity, nesting and order at line
   granularity.  NOT covered: nesting of the start offset within one line, the inline nodes. *)
Theorem C05_block_ranges : forall fuel cfg texts refs root' refs',
  Forall (fun t => cl t = 0) texts ->
  block_parse fuel cfg texts (mk KRoot None []) refs = inr (root', refs') ->
  kids_ok texts 0 (length texts) (n_children root').
Proof. exact block_parse_ranges. Qed.

Theorem C05_block_ranges_of_source : forall fuel cfg src refs root' refs',
  block_parse fuel cfg (texts_of src) (mk KRoot None []) refs = inr (root', refs') ->
  kids_ok (texts_of src) 0 (length (texts_of src)) (n_children root').
Proof. exact block_pass_of_source_ranges. Qed.

(* what kids_ok says about one node *)
Theorem C05_block_range_meaning : forall tx lo hi k m a e cs,
  blk_ok tx lo hi (Node k m a e cs) =
  match m with
  | None => cs = []
  | Some (SRel la oa, SRel lb ob) =>
    (lo <= la)%nat /\ (la <= lb)%nat /\ (lb < hi)%nat /\ pos_ok tx la oa /\ pos_ok tx lb ob /\ (la = lb -> oa <= ob) /\
    kids_ok tx la (S lb) cs
  | _ => False
  end.
Proof. exact blk_ok_unfold. Qed.

(* non-vacuity: a nested document goes through the block pass and yields several ranged blocks *)
Example C05_block_ranges_nonvacuous :
  match block_parse 20 (BCfg [R_CODE; R_FENCE; R_QUOTE; R_HR; R_LIST; R_HEADING; R_LHEADING; R_PARA] 100 [])
          [bs "> - a"; bs ">   b"; bs ""; bs "1. c"; bs "   # d"; bs "---"] (mk KRoot None []) [] with
  | inr (r, _) => map (fun c => n_map c) (n_children r) =
                  [Some (SRel 0 0, SRel 1 5); Some (SRel 3 0, SRel 4 6); Some (SRel 5 0, SRel 5 3)]
  | inl _ => False
  end.
Proof. vm_compute. reflexivity. Qed.

Example C05_nonvacuous :
  let st := IState (bs "a &amp; \\* b") [(0, SRel 3 2)] (mk KRoot None []) 2 11 [] 0 0 [] [] in
  match rule_entity st false with
  | inr (st', Some n) => (n, last_child st') = (5, Some (mk (KTextSpecial (bs "&") (bs "&amp;") true) (Some (SRel 3 4, SRel 3 9)) []))
  | _ => False end.
Proof. vm_compute. reflexivity. Qed.

Print Assumptions C05_root_covers_input.
Print Assumptions C05_text_created_faithful.
Print Assumptions C05_text_extended_faithful.
Print Assumptions C05_entity_selects_markup.
Print Assumptions C05_block_ranges.
Print Assumptions C05_block_ranges_of_source.
Print Assumptions C05_block_range_meaning.
Print Assumptions C05_escape_selects_markup.
