(* C05 -- statements only; see DESIGN.md section 6 C05.  Theorems are added as the proofs land;
   the witnesses below are evaluated in the kernel on the whole-parser model. *)
From Coq Require Import String.
From MdIt Require Import Prims Tables Tree Render Core Dump Dispatch.
Local Open Scope string_scope.
Local Open Scope list_scope.
Local Open Scope N_scope.

Definition html_of (cfg src : string) : str :=
  let m := build_md (bs cfg) 100 in
  match snd (parse (default_fuel m) m (bs src)) with
  | inr d => match render false (d_root d) with inr h => h | inl _ => bs "<render panic>" end
  | inl _ => bs "<parse panic>"
  end.

Definition tree_of (cfg src : string) : str :=
  let m := build_md (bs cfg) 100 in
  match snd (parse (default_fuel m) m (bs src)) with
  | inr d => dump_tree (d_starts d) (d_root d) | inl _ => bs "<panic>" end.

(* emphasis outside the first paragraph: the range that used to be translated twice *)
Example C05_witness_emphasis_range :
  tree_of "C" "a

*b*" = bs "0:Root()@0-6{};1:Paragraph()@0-1{};2:Text(61)@0-1{};1:Paragraph()@3-6{};2:Em(42)@3-6{};3:Text(62)@4-5{}".
Proof. vm_compute. reflexivity. Qed.
