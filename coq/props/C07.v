(* C07 -- statements only; see DESIGN.md section 6 C07.  Theorems are added as the proofs land;
   the witnesses below are evaluated in the kernel on the whole-parser model. *)
From Coq Require Import String.
From MdIt Require Import Prims Tables Ruler Tree Render Core Dump Dispatch CacheProofs.
Local Open Scope string_scope.
Local Open Scope list_scope.
Local Open Scope N_scope.

Definition html_of (cfg src : string) : str :=
  let m := build_md (bs cfg) 100 in
  match snd (parse (default_fuel m) m (bs src)) with
  | inr d => match render false (d_root d) with inr h => h | inl _ => bs "<render panic>" end
  | inl _ => bs "<parse panic>"
  end.

(* a reference defined in one document is not visible in the next parse on the same parser *)
Example C07_witness_no_leak :
  let m := build_md (bs "C") 100 in
  let '(m1, _) := parse (default_fuel m) m (bs "[r]: /leak") in
  match snd (parse (default_fuel m1) m1 (bs "[r]")), snd (parse (default_fuel m) m (bs "[r]")) with
  | inr d1, inr d2 => render false (d_root d1) = render false (d_root d2)
  | _, _ => False
  end.
Proof. vm_compute. reflexivity. Qed.

(* The parser object is modelled with its interior-mutable caches as explicit state (the compiled
   chain of each of the three rulers and the lazily chosen text scanner); per-document state
   (reference map, per-paragraph caches, node environments) is created inside `parse` and is not
   part of the parser at all.

   a parser with warm caches returns what the same configuration with cold caches returns,
   keeps its configuration and keeps its caches coherent *)
Theorem C07_cache_independent : forall fuel m src, md_coherent m ->
  snd (parse fuel m src) = snd (parse fuel (md_clear m) src) /\
  md_coherent (fst (parse fuel m src)) /\ md_clear (fst (parse fuel m src)) = md_clear m.
Proof. exact parse_cache_independent. Qed.

(* for every configuration history cfg (plugin adds, rule removals, nesting limit) and every sequence
   of documents already parsed, the next parse returns exactly what a freshly built parser with the
   same configuration returns *)
Theorem C07_reuse_same_as_fresh : forall cfg docs src,
  result_after md_new (cfg ++ map HParse docs) src =
  result_after md_new (filter (fun o => negb (is_parse o)) cfg) src.
Proof. exact reuse_same_as_fresh. Qed.

(* every parser reachable by configuration calls and parses has coherent caches *)
Theorem C07_reachable_coherent : forall ops, md_coherent (hrun md_new ops).
Proof. intros ops. exact (proj1 (hrun_erase ops md_new md_new md_new_coherent md_new_coherent eq_refl)). Qed.

Example C07_nonvacuous : md_coherent (fst (parse 210 (build_md (bs "CsW") 100) (bs "*a* [b]"))) /\
  md_text_impl (fst (parse 210 (build_md (bs "CsW") 100) (bs "*a*"))) <> None.
Proof. split; [apply (parse_cache_independent 210 _ _ (C07_reachable_coherent [HSetNesting 100; HAdd (bs "CsW")]))|vm_compute; discriminate]. Qed.

Print Assumptions C07_cache_independent.
Print Assumptions C07_reuse_same_as_fresh.
Print Assumptions C07_reachable_coherent.
