(* C07 -- statements only; see DESIGN.md section 6 C07.  Theorems are added as the proofs land;
   the witnesses below are evaluated in the kernel on the whole-parser model. *)
From Coq Require Import String.
From MdIt Require Import Prims Tables Tree Render Core Dump Dispatch.
Local Open Scope string_scope.
Local Open Scope list_scope.
Local Open Scope N_scope.

Definition html_of (cfg src : string) : str :=
  let m := build_md (bs cfg) 100 in
  match snd (parse (default_fuel m) m (bs src)) with
  | inr d => match render false (d_root d) with inr h => h | inl _ => bs "<render panic>" end
  | inl _ => bs "<parse panic>"
  end.

(* a reference defined in one document is not visible in the next parse on the same parser *)
Example C07_witness_no_leak :
  let m := build_md (bs "C") 100 in
  let '(m1, _) := parse (default_fuel m) m (bs "[r]: /leak") in
  match snd (parse (default_fuel m1) m1 (bs "[r]")), snd (parse (default_fuel m) m (bs "[r]")) with
  | inr d1, inr d2 => render false (d_root d1) = render false (d_root d2)
  | _, _ => False
  end.
Proof. vm_compute. reflexivity. Qed.
