(* C20 -- typed storage and tree API obey their map and traversal semantics.
   Statements only.  Models: model/ErasedSet.v (src/common/erasedset.rs, typekey.rs),
   model/Tree.v (src/parser/node.rs). *)
From MdIt Require Import Prims ErasedSet Tree ErasedSetProofs TreeProofs.
Local Open Scope list_scope.
Local Open Scope N_scope.

(* --- storage: refinement to a map  type id -> option value  (abs), for every key and value.
   wf = one entry per type id and every boxed value has the type of its key. --- *)
Theorem C20_new : wf es_new /\ same (abs es_new) a_empty.
Proof. exact (conj wf_new (fun k => eq_refl)). Qed.

(* insert returns the old value and behaves as map update *)
Theorem C20_insert : forall s k v, wf s ->
  exists s', es_insert s k v = inr (s', abs s k) /\ wf s' /\ same (abs s') (a_insert (abs s) k v).
Proof. exact insert_refines. Qed.

(* get-or-insert inserts only when absent *)
Theorem C20_get_or_insert : forall s k v, wf s ->
  match abs s k with
  | Some x => es_get_or_insert s k v = inr (s, x)
  | None => exists s', es_get_or_insert s k v = inr (s', v) /\ wf s' /\ same (abs s') (a_insert (abs s) k v)
  end.
Proof. exact get_or_insert_refines. Qed.

(* assignment through get_mut *)
Theorem C20_get_mut : forall s k v, wf s ->
  let '(s', old) := es_set s k v in
  old = abs s k /\ wf s' /\
  same (abs s') (match abs s k with Some _ => a_insert (abs s) k v | None => abs s end).
Proof. exact set_refines. Qed.

Theorem C20_remove : forall s k, wf s ->
  exists s', es_remove s k = inr (s', abs s k) /\ wf s' /\ same (abs s') (a_remove (abs s) k).
Proof. exact remove_refines. Qed.

Theorem C20_clear : forall s, wf (es_clear s) /\ same (abs (es_clear s)) a_empty.
Proof. exact clear_refines. Qed.

Theorem C20_contains : forall s k, wf s ->
  es_contains s k = match abs s k with Some _ => true | None => false end.
Proof. exact contains_refines. Qed.

(* at most one value per type; len counts the types that hold a value *)
Theorem C20_len : forall s, wf s ->
  es_len s = len (map e_key s) /\ NoDup (map e_key s) /\ forall k, In k (map e_key s) <-> abs s k <> None.
Proof. exact len_refines. Qed.

(* under any sequence of operations on any mix of types no downcast ever fails *)
Theorem C20_any_sequence : forall ops s, wf s -> exists s', run s ops = inr s' /\ wf s'.
Proof. exact run_never_panics. Qed.

(* --- traversal: nodes are addressed by child-index paths; `paths n` lists every valid
   address exactly once, parents before children and siblings left to right (pre-order). --- *)
Theorem C20_walk_nodes : forall n d, map Some (map fst (walk n d)) = map (at_path n) (paths n).
Proof. exact walk_nodes. Qed.

Theorem C20_walk_depths : forall n d,
  map snd (walk n d) = map (fun p => d + N.of_nat (length p)) (paths n).
Proof. exact walk_depths. Qed.

Theorem C20_walk_once : forall n d, length (walk n d) = size n.
Proof. exact walk_length. Qed.

Theorem C20_paths_complete : forall n p, In p (paths n) <-> at_path n p <> None.
Proof. exact paths_complete. Qed.

Theorem C20_paths_nodup : forall n, NoDup (paths n).
Proof. exact paths_nodup. Qed.

(* walk_mut visits the same addresses, whatever the callback does to each node *)
Theorem C20_walk_mut_shape : forall f n d, paths (walk_mut f n d) = paths n.
Proof. exact walk_mut_paths. Qed.

(* replace changes the kind and nothing else *)
Theorem C20_replace : forall n k,
  n_kind (replace n k) = k /\ n_children (replace n k) = n_children n /\
  n_map (replace n k) = n_map n /\ n_attrs (replace n k) = n_attrs n /\ n_env (replace n k) = n_env n.
Proof. exact replace_spec. Qed.

(* non-vacuity: a reachable, non-trivial well-formed state; a tree with siblings at depth 2 *)
Example C20_nonvacuous :
  (exists s, run es_new [OInsert 2 5; OInsert 3 7; OInsert 0 0; ORemove 2; OGetOrInsert 4 9] = inr s /\ wf s /\ es_len s = 3) /\
  map snd (walk (mk KRoot None [mk KParagraph None [mk (KText [97]) None []; mk KSoftbreak None []]; mk (KHr 42 3) None []]) 0)
  = [0; 1; 2; 2; 1].
Proof.
  split; [|vm_compute; reflexivity].
  destruct (run_never_panics [OInsert 2 5; OInsert 3 7; OInsert 0 0; ORemove 2; OGetOrInsert 4 9] es_new wf_new) as (s & E & W).
  exists s. split; [exact E|]. split; [exact W|].
  vm_compute in E. injection E as <-. vm_compute. reflexivity.
Qed.

Print Assumptions C20_insert.
Print Assumptions C20_get_or_insert.
Print Assumptions C20_get_mut.
Print Assumptions C20_remove.
Print Assumptions C20_len.
Print Assumptions C20_any_sequence.
Print Assumptions C20_walk_nodes.
Print Assumptions C20_walk_depths.
Print Assumptions C20_paths_complete.
Print Assumptions C20_paths_nodup.
Print Assumptions C20_walk_mut_shape.
