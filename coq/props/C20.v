(* C20 -- statements only; see DESIGN.md section 6 C20.  Theorems are added as the proofs land;
   the witnesses below are evaluated in the kernel on the whole-parser model. *)
From Coq Require Import String.
From MdIt Require Import Prims Tables Tree Render Core Dump Dispatch.
Local Open Scope string_scope.
Local Open Scope list_scope.
Local Open Scope N_scope.

Definition html_of (cfg src : string) : str :=
  let m := build_md (bs cfg) 100 in
  match snd (parse (default_fuel m) m (bs src)) with
  | inr d => match render false (d_root d) with inr h => h | inl _ => bs "<render panic>" end
  | inl _ => bs "<parse panic>"
  end.

Example C20_witness_walk :
  map snd (walk (mk KRoot None [mk KParagraph None [mk (KText [97]) None []]; mk (KHr 42 3) None []]) 0) = [0; 1; 2; 1].
Proof. vm_compute. reflexivity. Qed.
