(* C09 -- rule ordering honours every constraint, is canonical, rejects cycles loudly. *)
From MdIt Require Import Prims Ruler.
Local Open Scope N_scope.

(* placeholder until proofs/RulerProofs.v lands: executable sanity of model and specification *)
Example C09_examples :
  let a := Item [1] 10 PNormal [] in
  let b := Item [2] 20 PNormal [CBefore 1] in
  let c := Item [3] 30 PAfterAll [CRequire 9] in
  compile [a; b] = inr [1; 0]%nat /\ greedy_rank [a; b] = Some [1; 0]%nat /\
  compile [a; b; c] = inl (Panic Missing) /\
  compile [Item [1] 1 PNormal [CBefore 1]] = inl (Panic Cyclic).
Proof. vm_compute. repeat split. Qed.
