(* C09 -- rule ordering honours every constraint, is canonical, rejects cycles loudly.
   Statements only; proofs are in proofs/RulerProofs.v (specification level) and
   proofs/RulerRefine.v (compile(), modelled statement by statement, computes the specification). *)
From MdIt Require Import Prims Ruler RulerProofs RulerRefine.
From Coq Require Import Permutation.
Local Open Scope list_scope.

(* FULL STATEMENT, proved for the model of src/common/ruler.rs (model/Ruler.v; tied to the
   implementation by the correspondence check on every run):

   for every rule set ds (any marks, aliases, duplicate or absent or own marks in constraints,
   priorities, insertion order) compile ds is
     - panic Missing, when some require(m) names a mark no rule holds;
     - otherwise the canonical order: repeatedly the first rule, in rank order (before_all, normal,
       after_all; insertion order inside a class), that is not placed and whose predecessors all are;
       this order is a permutation of the rules and respects every before/after constraint
       (through every alias);
     - panic Cyclic exactly when no admissible order exists;
   and a Ruler answers the same on every use. *)

(* 1. compile = specification, all rule sets *)
Theorem C09_compile_is_canonical : forall ds,
  compile ds = if requires_ok ds then match greedy_rank ds with Some o => inr o | None => inl (Panic Cyclic) end
               else inl (Panic Missing).
Proof. exact compile_spec. Qed.

(* 2. a successful compile is a permutation of the rules satisfying every constraint *)
Theorem C09_order_sound : forall ds o, compile ds = inr o ->
  Permutation o (seq 0 (length ds)) /\
  (forall i j, In i o -> edge ds j i = true -> (j < length ds)%nat -> before o j i).
Proof.
  intros ds o H. rewrite compile_spec in H. destruct (requires_ok ds); [|discriminate].
  destruct (greedy_rank ds) as [o'|] eqn:G; [|discriminate]. injection H as <-. exact (greedy_sound ds o' G).
Qed.

(* 3. the only possible panics are Missing and Cyclic, with exact conditions:
      Missing iff a requirement names an absent mark; Cyclic iff requirements hold and no admissible
      order (permutation in which each rule comes after all its predecessors) exists *)
Theorem C09_missing_iff : forall ds, compile ds = inl (Panic Missing) <-> requires_ok ds = false.
Proof.
  intros ds. rewrite compile_spec. destruct (requires_ok ds); [|split; reflexivity].
  destruct (greedy_rank ds); split; discriminate.
Qed.

Theorem C09_cyclic_iff : forall ds,
  compile ds = inl (Panic Cyclic) <-> (requires_ok ds = true /\ ~ exists p, admissible ds p).
Proof.
  intros ds. rewrite compile_spec, <- greedy_none_iff_unsatisfiable.
  destruct (requires_ok ds); [|split; [discriminate|intros [H _]; discriminate]].
  destruct (greedy_rank ds); split; try discriminate; auto. intros [_ H]. discriminate.
Qed.

Theorem C09_no_other_outcome : forall ds,
  (exists o, compile ds = inr o) \/ compile ds = inl (Panic Missing) \/ compile ds = inl (Panic Cyclic).
Proof.
  intros ds. rewrite compile_spec. destruct (requires_ok ds); [|auto]. destruct (greedy_rank ds) as [o|]; [left; exists o; reflexivity|auto].
Qed.

(* 4. never a partial order: whenever any admissible order exists and the requirements hold, compile succeeds *)
Theorem C09_complete : forall ds p, requires_ok ds = true -> admissible ds p -> exists o, compile ds = inr o.
Proof.
  intros ds p R A. rewrite compile_spec, R. destruct (greedy_complete ds p A) as [o ->]. exists o. reflexivity.
Qed.

(* 5. the same on every use: the cache returns what the first use computed, a panic repeats *)
Theorem C09_same_on_every_use : forall r, let '(r', c) := r_iter r in r_iter r' = (r', c).
Proof. exact r_iter_stable. Qed.

Theorem C09_iter_fresh : forall ds,
  snd (r_iter (Ruler ds None)) =
  if requires_ok ds then
    match greedy_rank ds with
    | Some o => inr (map (fun i => match nth_error ds i with Some d => value d | None => 0%N end) o)
    | None => inl (Panic Cyclic) end
  else inl (Panic Missing).
Proof. exact r_iter_fresh. Qed.

(* non-vacuity: alias fan-out, priority against dependency, absent and own marks *)
Local Open Scope N_scope.
Example C09_examples :
  let a := Item [1; 7] 10 PNormal [] in
  let b := Item [2] 20 PAfterAll [CBefore 7] in
  let c := Item [3; 7] 30 PBeforeAll [CAfter 2; CBefore 99] in
  compile [a; b] = inr [1; 0]%nat /\
  compile [a; b; c] = inr [1; 2; 0]%nat /\
  compile [a; b; Item [3; 7] 30 PNormal [CBefore 2]] = inl (Panic Cyclic) /\
  compile [a; c] = inr [1; 0]%nat /\
  compile [a; b; Item [4] 40 PNormal [CRequire 9]] = inl (Panic Missing) /\
  compile [Item [1] 1 PNormal [CBefore 1]] = inl (Panic Cyclic).
Proof. vm_compute. repeat split. Qed.

Example C09_admissible_nonvacuous :
  admissible [Item [1; 7] 10 PNormal []; Item [2] 20 PAfterAll [CBefore 7]] [1; 0]%nat.
Proof. apply greedy_admissible. vm_compute. reflexivity. Qed.

Print Assumptions C09_compile_is_canonical.
Print Assumptions C09_order_sound.
Print Assumptions C09_missing_iff.
Print Assumptions C09_cyclic_iff.
Print Assumptions C09_no_other_outcome.
Print Assumptions C09_complete.
Print Assumptions C09_same_on_every_use.
Print Assumptions C09_iter_fresh.
