(* C11 -- code content is opaque and reproduced verbatim.  Statements only; proofs in proofs/CodeProofs.v;
   see DESIGN.md section 6 C11. *)
From Coq Require Import String.
From MdIt Require Import Prims Tables Escape Indent Tree Render Block Inline Core Dump Dispatch RenderProofs RangeProofs CodeProofs.
Local Open Scope string_scope.
Local Open Scope list_scope.
Local Open Scope N_scope.

Definition html_of (cfg src : string) : str :=
  let m := build_md (bs cfg) 100 in
  match snd (parse (default_fuel m) m (bs src)) with
  | inr d => match render false (d_root d) with inr h => h | inl _ => bs "<render panic>" end
  | inl _ => bs "<parse panic>"
  end.

Example C11_witness_fence :
  html_of "C" "````
*a* ``` &amp; \*
````" = bs "<pre><code>*a* ``` &amp;amp; \*
</code></pre>
".
Proof. vm_compute. reflexivity. Qed.

(* FULL STATEMENT (not proved end to end; decided on every run by the payload oracle in the three code
   contexts at top level, in block quotes and in list items, and by the correspondence): a text T placed
   in a long enough fence, indented by four spaces, or in a long enough backtick span reappears in the
   output character for character (escaped; line endings normalised; span rules), tabs preserved.

   PROVED PARTS (model):
   1. cutting indentation (all mixtures of tabs and spaces): a line that starts with the blanks pre, cut
      by exactly the columns of pre, loses exactly pre and no space is invented -- so with pre = [] (fence
      content), pre = four spaces (indented code) or the fence's own indentation the rest of the line,
      tabs included, is kept byte for byte; get_lines over such lines yields the lines joined by LF;
   2. provenance: the content of a fence / code block / code span node is that cut of the lines (resp. the
      source slice between opener and closer, LF -> space, one pair of padding spaces removed) and nothing
      else: no unescaping, no reference decoding, no inline parsing touches it;
   3. rendering: the content reaches the output through escape_html only (lossless, see C03). *)

Theorem C11_cut_keeps_line_verbatim : forall pre T, forallb is_ws pre = true ->
  let l := mk_line (pre ++ T) in
  (l_first l <=? l_end l) = true /\
  calc_right_whitespace (takeN (l_first l) (l_text l)) (l_indent l - Z.of_N (cols_from 0 pre)) = (0, len pre).
Proof. exact cut_line_verbatim. Qed.

Theorem C11_lines_joined_verbatim : forall st pre keep, forallb is_ws pre = true -> forall texts n b acc mp,
  (length texts <= n)%nat ->
  (forall i T, nth_error texts i = Some T -> nth_error (b_lines st) (b + i) = Some (mk_line (pre ++ T))) ->
  exists mp', get_lines_loop st n b (b + length texts) (cols_from 0 pre) keep acc mp = inr (acc ++ out_lines keep texts, mp').
Proof. exact get_lines_verbatim. Qed.

Theorem C11_fence_content_is_the_lines : forall cfg st st', rule_fence cfg st = inr (st', true) ->
  exists m n params r0 next content mp rng,
    fence_open st = inr (Some (m, n, params)) /\ line_rec st (b_line st) = inr r0 /\
    get_lines st (S (b_line st)) next (Z.to_N (l_indent r0)) true = inr (content, mp) /\
    last_block_child st' = Some (mk (KFence params m n content (bc_fence_prefix cfg)) rng []).
Proof. exact fence_content. Qed.

Theorem C11_code_block_content_is_the_lines : forall st st', rule_code st = inr (st', true) ->
  exists last content mp rng,
    get_lines st (b_line st) last (4 + b_blk st) false = inr (content, mp) /\
    last_block_child st' = Some (mk (KCodeBlock (content ++ [10])) rng []).
Proof. exact code_block_content. Qed.

Theorem C11_code_span_content_is_the_slice : forall st m st' n, rule_code_pair st m false = inr (st', Some n) ->
  exists rest ms me mv k rng1 rng2,
    irest st = inr rest /\ k = count_run m rest /\
    code_scan (S (length rest)) st m k (i_pos st + k) (snd (get_bt st m)) = inr (Some (ms, me), mv) /\
    n = me - i_pos st /\
    last_child st' = Some (mk (KCodeInline m k) rng1 [mk (KText (span_text (sub (i_src st) (i_pos st + k) ms))) rng2 []]).
Proof. exact code_span_content. Qed.

Theorem C11_code_block_rendering : forall xhtml c m e cs,
  render xhtml (Node (KCodeBlock c) m [] e cs) = inr (replace_nul (bs "<pre><code>" ++ escape_html c ++ bs "</code></pre>" ++ [10])).
Proof. exact render_code_block. Qed.
Theorem C11_fence_rendering : forall xhtml mk_ k c pfx m e cs,
  render xhtml (Node (KFence [] mk_ k c pfx) m [] e cs) = inr (replace_nul (bs "<pre><code>" ++ escape_html c ++ bs "</code></pre>" ++ [10])).
Proof. exact render_fence_plain. Qed.
Theorem C11_code_span_rendering : forall xhtml mk_ k m e t r,
  render xhtml (Node (KCodeInline mk_ k) m [] e [mk (KText t) r []]) = inr (replace_nul (bs "<code>" ++ escape_html t ++ bs "</code>")).
Proof. exact render_code_inline. Qed.

(* non-vacuity: a tab after two spaces of indentation inside an indented code line survives the 4-column cut *)
Example C11_nonvacuous :
  let l := mk_line (bs "    " ++ [32; 9; 42]) in
  calc_right_whitespace (takeN (l_first l) (l_text l)) (l_indent l - 4) = (0, 4).
Proof. vm_compute. reflexivity. Qed.

Print Assumptions C11_cut_keeps_line_verbatim.
Print Assumptions C11_lines_joined_verbatim.
Print Assumptions C11_fence_content_is_the_lines.
Print Assumptions C11_code_block_content_is_the_lines.
Print Assumptions C11_code_span_content_is_the_slice.
Print Assumptions C11_code_block_rendering.
Print Assumptions C11_fence_rendering.
Print Assumptions C11_code_span_rendering.
