(* C11 -- code content is opaque and reproduced verbatim.  Statements only; proofs in proofs/CodeProofs.v;
   see DESIGN.md section 6 C11. *)
From Coq Require Import String.
From MdIt Require Import Prims Tables Escape Indent Tree Render Block Inline Core Dump Dispatch RenderProofs RangeProofs CodeProofs CodeSearchProofs LineProofs DocProofs.
Local Open Scope string_scope.
Local Open Scope list_scope.
Local Open Scope N_scope.

Definition html_of (cfg src : string) : str :=
  let m := build_md (bs cfg) 100 in
  match snd (parse (default_fuel m) m (bs src)) with
  | inr d => match render false (d_root d) with inr h => h | inl _ => bs "<render panic>" end
  | inl _ => bs "<parse panic>"
  end.

Example C11_witness_fence :
  html_of "C" "````
*a* ``` &amp; \*
````" = bs "<pre><code>*a* ``` &amp;amp; \*
</code></pre>
".
Proof. vm_compute. reflexivity. Qed.

(* FULL STATEMENT (not proved end to end; decided on every run by the payload oracle in the three code
   contexts at top level, in block quotes and in list items, and by the correspondence): a text T placed
   in a long enough fence, indented by four spaces, or in a long enough backtick span reappears in the
   output character for character (escaped; line endings normalised; span rules), tabs preserved.

   PROVED PARTS (model):
   1. cutting indentation (all mixtures of tabs and spaces): a line that starts with the blanks pre, cut
      by exactly the columns of pre, loses exactly pre and no space is invented -- so with pre = [] (fence
      content), pre = four spaces (indented code) or the fence's own indentation the rest of the line,
      tabs included, is kept byte for byte; get_lines over such lines yields the lines joined by LF;
   2. provenance: the content of a fence / code block / code span node is that cut of the lines (resp. the
      source slice between opener and closer, LF -> space, one pair of padding spaces removed) and nothing
      else: no unescaping, no reference decoding, no inline parsing touches it;
   3. rendering: the content reaches the output through escape_html only (lossless, see C03). *)

Theorem C11_cut_keeps_line_verbatim : forall pre T, forallb is_ws pre = true ->
  let l := mk_line (pre ++ T) in
  (l_first l <=? l_end l) = true /\
  calc_right_whitespace (takeN (l_first l) (l_text l)) (l_indent l - Z.of_N (cols_from 0 pre)) = (0, len pre).
Proof. exact cut_line_verbatim. Qed.

Theorem C11_lines_joined_verbatim : forall st pre keep, forallb is_ws pre = true -> forall texts n b acc mp,
  (length texts <= n)%nat ->
  (forall i T, nth_error texts i = Some T -> nth_error (b_lines st) (b + i) = Some (mk_line (pre ++ T))) ->
  exists mp', get_lines_loop st n b (b + length texts) (cols_from 0 pre) keep acc mp = inr (acc ++ out_lines keep texts, mp').
Proof. exact get_lines_verbatim. Qed.

Theorem C11_fence_content_is_the_lines : forall cfg st st', rule_fence cfg st = inr (st', true) ->
  exists m n params r0 next content mp rng,
    fence_open st = inr (Some (m, n, params)) /\ line_rec st (b_line st) = inr r0 /\
    get_lines st (S (b_line st)) next (Z.to_N (l_indent r0)) true = inr (content, mp) /\
    last_block_child st' = Some (mk (KFence params m n content (bc_fence_prefix cfg)) rng []).
Proof. exact fence_content. Qed.

Theorem C11_code_block_content_is_the_lines : forall st st', rule_code st = inr (st', true) ->
  exists last content mp rng,
    get_lines st (b_line st) last (4 + b_blk st) false = inr (content, mp) /\
    last_block_child st' = Some (mk (KCodeBlock (content ++ [10])) rng []).
Proof. exact code_block_content. Qed.

Theorem C11_code_span_content_is_the_slice : forall st m st' n, rule_code_pair st m false = inr (st', Some n) ->
  exists rest ms me mv k rng1 rng2,
    irest st = inr rest /\ k = count_run m rest /\
    code_scan (S (length rest)) st m k (i_pos st + k) (snd (get_bt st m)) = inr (Some (ms, me), mv) /\
    n = me - i_pos st /\
    last_child st' = Some (mk (KCodeInline m k) rng1 [mk (KText (span_text (sub (i_src st) (i_pos st + k) ms))) rng2 []]).
Proof. exact code_span_content. Qed.

Theorem C11_code_block_rendering : forall xhtml c m e cs,
  render xhtml (Node (KCodeBlock c) m [] e cs) = inr (replace_nul (bs "<pre><code>" ++ escape_html c ++ bs "</code></pre>" ++ [10])).
Proof. exact render_code_block. Qed.
Theorem C11_fence_rendering : forall xhtml mk_ k c pfx m e cs,
  render xhtml (Node (KFence [] mk_ k c pfx) m [] e cs) = inr (replace_nul (bs "<pre><code>" ++ escape_html c ++ bs "</code></pre>" ++ [10])).
Proof. exact render_fence_plain. Qed.
Theorem C11_code_span_rendering : forall xhtml mk_ k m e t r,
  render xhtml (Node (KCodeInline mk_ k) m [] e [mk (KText t) r []]) = inr (replace_nul (bs "<code>" ++ escape_html t ++ bs "</code>")).
Proof. exact render_code_inline. Qed.

(* 4. THE SEARCH stops where the property says (CodeSearchProofs): whatever the payload,
   - a fence of n markers indented by less than four columns, payload lines behind the same indentation in which every
     run of the marker is shorter than n, then a line of at least n markers followed by blanks only: the fence rule
     takes exactly these lines and its node holds the payload lines joined by LF (top level and list items: any block
     indent the state carries);
   - lines behind four columns of indentation, first and last one not blank, then blank lines and the end of the block
     or a non-blank line indented by less than four: the code rule takes exactly the payload lines;
   - a run of k markers, a payload in which every run of the marker is shorter than k and which neither starts nor ends
     with it, a run of exactly k markers not followed by another one: the code-span rule consumes 2k + |payload| bytes
     and its node holds span_text payload -- for every closer-cache state that does not (wrongly) deny a closer. *)
Theorem C11_fence_search_verbatim : forall cfg st m n pre cpre params trail n' texts,
  m = 96 \/ m = 126 -> (3 <= n)%nat -> forallb is_ws pre = true -> forallb is_ws cpre = true ->
  b_blk st <= cols_from 0 pre < b_blk st + 4 -> b_blk st <= cols_from 0 cpre < b_blk st + 4 ->
  match params with x :: _ => (x =? m) = false | [] => True end -> (m = 96 -> mem 96 params = false) ->
  nth_error (b_lines st) (b_line st) = Some (mk_line (pre ++ repeatN m n ++ params)) ->
  (forall i T, nth_error texts i = Some T ->
     nth_error (b_lines st) (S (b_line st) + i) = Some (mk_line (pre ++ T)) /\ runs_lt m (N.of_nat n) T = true) ->
  (n <= n')%nat -> all_sptab trail = true ->
  nth_error (b_lines st) (S (b_line st) + length texts) = Some (mk_line (cpre ++ repeatN m n' ++ trail)) ->
  (S (b_line st) + length texts < b_max st)%nat ->
  exists rng, rule_fence cfg st =
    inr (push_node (set_line st (S (S (b_line st) + length texts)))
           (mk (KFence params m (N.of_nat n) (out_lines true texts) (bc_fence_prefix cfg)) rng []), true).
Proof. exact fence_verbatim. Qed.

Theorem C11_indented_search_verbatim : forall st pre texts tailblank,
  forallb is_ws pre = true -> cols_from 0 pre = 4 + b_blk st ->
  (forall i T, nth_error texts i = Some T -> nth_error (b_lines st) (b_line st + i) = Some (mk_line (pre ++ T))) ->
  (exists T, nth_error texts 0 = Some T /\ blank T = false) ->
  (exists T, nth_error texts (length texts - 1) = Some T /\ blank T = false) ->
  (forall j, (j < tailblank)%nat -> is_empty st (b_line st + length texts + j) = true) ->
  (b_line st + length texts + tailblank <= b_max st)%nat ->
  ((b_line st + length texts + tailblank = b_max st)%nat \/
   exists text f ind, nth_error (b_lines st) (b_line st + length texts + tailblank) = Some (LRec text f ind) /\
                      f < len text /\ (ind - Z.of_N (b_blk st) < 4)%Z) ->
  exists rng, rule_code st =
    inr (push_node (set_line st (b_line st + length texts)) (mk (KCodeBlock (out_lines false texts ++ [10])) rng []), true).
Proof. exact code_block_verbatim. Qed.

Theorem C11_span_search_verbatim : forall st m k before T tail after,
  m < 128 -> (1 <= k)%nat ->
  i_src st = before ++ (repeatN m k ++ T ++ repeatN m k ++ tail) ++ after ->
  i_pos st = len before -> i_max st = len before + len (repeatN m k ++ T ++ repeatN m k ++ tail) ->
  starts_clean after ->
  match T with x :: _ => (x =? m) = false | [] => False end -> last_not m T -> iruns_lt m (N.of_nat k) T = true ->
  starts_clean T /\ no_cont_after m T = true ->
  match tail with x :: _ => (x =? m) = false | [] => True end ->
  match rev (trailing_text_get st) with x :: _ => (x =? m) = false | [] => True end ->
  (fst (get_bt st m) && (nth (N.to_nat (N.of_nat k)) (snd (get_bt st m)) 0 <=? i_pos st)) = false ->
  (exists p0 t, i_map st = (0, p0) :: t) ->
  exists mv rng rng2, rule_code_pair st m false =
    inr (ipush (set_bt st m (fst (get_bt st m), mv)) (mk (KCodeInline m (N.of_nat k)) rng [mk (KText (span_text T)) rng2 []]),
         Some (N.of_nat k + len T + N.of_nat k)).
Proof. exact code_span_verbatim. Qed.

(* 5. END TO END for the default CommonMark parser (DocProofs): a source whose lines are an opening fence (no info
   string), payload lines and a closing fence as above renders as <pre><code>ESCAPED PAYLOAD</code></pre> -- through
   line splitting, the block loop (no earlier rule takes the opening line), the inline pass, the clean-up pass and the
   serializer; likewise a source made of indented lines, and a one-line source that is a code span (k backticks, payload,
   k backticks: every block rule in front of the paragraph rule and every inline rule in front of the backtick rule
   declines, the span rule takes the whole line) renders as <p><code>PAYLOAD (line feeds -> spaces, one padding pair
   removed, escaped)</code></p>; and the lines of an LF-terminated text are its lines. *)
Theorem C11_fence_document : forall m n pre cpre trail n' texts src,
  m = 96 \/ m = 126 -> (3 <= n)%nat -> forallb is_ws pre = true -> forallb is_ws cpre = true ->
  cols_from 0 pre < 4 -> cols_from 0 cpre < 4 ->
  (forall T, In T texts -> runs_lt m (N.of_nat n) T = true) -> (n <= n')%nat -> all_sptab trail = true ->
  texts_of src = (pre ++ repeatN m n ++ []) :: map (fun T => pre ++ T) texts ++ [cpre ++ repeatN m n' ++ trail] ->
  forall xhtml, html_of_parse (default_fuel md_cmark) md_cmark xhtml src =
  inr (replace_nul (bs "<pre><code>" ++ escape_html (out_lines true texts) ++ bs "</code></pre>" ++ [10])).
Proof. exact fence_document_html. Qed.

(* the same with an info string on the opening fence (not starting with the marker; without backticks for a backtick fence) *)
Theorem C11_fence_info_document : forall m n pre cpre trail params n' texts src,
  m = 96 \/ m = 126 -> (3 <= n)%nat -> forallb is_ws pre = true -> forallb is_ws cpre = true ->
  cols_from 0 pre < 4 -> cols_from 0 cpre < 4 ->
  match params with x :: _ => (x =? m) = false | [] => True end -> (m = 96 -> mem 96 params = false) ->
  (forall T, In T texts -> runs_lt m (N.of_nat n) T = true) -> (n <= n')%nat -> all_sptab trail = true ->
  texts_of src = (pre ++ repeatN m n ++ params) :: map (fun T => pre ++ T) texts ++ [cpre ++ repeatN m n' ++ trail] ->
  forall xhtml, html_of_parse (default_fuel md_cmark) md_cmark xhtml src =
  inr (replace_nul (bs "<pre><code" ++ class_attr (bs "language-") params ++ bs ">" ++ escape_html (out_lines true texts) ++ bs "</code></pre>" ++ [10])).
Proof. exact fence_info_document_html. Qed.

Theorem C11_indented_document : forall pre texts src,
  forallb is_ws pre = true -> cols_from 0 pre = 4 ->
  (exists T, nth_error texts 0 = Some T /\ blank T = false) ->
  (exists T, nth_error texts (length texts - 1) = Some T /\ blank T = false) ->
  texts_of src = map (fun T => pre ++ T) texts ->
  forall xhtml, html_of_parse (default_fuel md_cmark) md_cmark xhtml src =
  inr (replace_nul (bs "<pre><code>" ++ escape_html (out_lines false texts ++ [10]) ++ bs "</code></pre>" ++ [10])).
Proof. exact indented_document_html. Qed.

Theorem C11_span_document : forall k T src,
  (1 <= k)%nat -> match T with x :: _ => (x =? 96) = false | [] => False end -> last_not 96 T ->
  iruns_lt 96 (N.of_nat k) T = true -> starts_clean T /\ no_cont_after 96 T = true ->
  texts_of src = [repeatN 96 k ++ T ++ repeatN 96 k ++ []] ->
  forall xhtml, html_of_parse (default_fuel md_cmark) md_cmark xhtml src =
  inr (replace_nul (bs "<p><code>" ++ escape_html (span_text T) ++ bs "</code></p>" ++ [10])).
Proof. exact span_document_html. Qed.

Theorem C11_lines_of_text : forall ls, ls <> [] -> forallb eol_free ls = true -> texts_of (lf_lines ls) = ls.
Proof. exact texts_of_lf_lines. Qed.

(* KNOWN FINDING F15 (the full statement "in every context" is false of the faithful model and of the code): a span
   that opens inside bracketed text right after an unmatched backtick run is not seen by the link rule's look-ahead,
   which consults the text node pushed before the look-ahead began.  Kernel-checked witness; the same input replayed on
   the implementation gives the same HTML (known_findings.json F15).  The control (a blank between run and bracket)
   reproduces the payload. *)
Example C11_span_in_every_context_refuted :
  html_of "C" "``[a `](u) b`" = bs "<p>``<a href=""u"">a `</a> b`</p>
" /\
  html_of "C" "`` [a `](u) b`" = bs "<p>`` [a <code>](u) b</code></p>
".
Proof. vm_compute. split; reflexivity. Qed.

(* non-vacuity of the search theorems: the hypotheses hold for a concrete state / document with markup in the payload *)
Example C11_fence_document_nonvacuous :
  let texts := [bs "*a* ``` &amp; \*"; bs ""; bs "  ~~~~"] in
  texts_of (lf_lines (bs "````" :: texts ++ [bs "`````  "])) = (bs "" ++ repeatN 96 4 ++ []) :: map (fun T => bs "" ++ T) texts ++ [bs "" ++ repeatN 96 5 ++ bs "  "]
  /\ forallb (runs_lt 96 4) texts = true.
Proof. vm_compute. split; reflexivity. Qed.

(* non-vacuity: a tab after two spaces of indentation inside an indented code line survives the 4-column cut *)
Example C11_nonvacuous :
  let l := mk_line (bs "    " ++ [32; 9; 42]) in
  calc_right_whitespace (takeN (l_first l) (l_text l)) (l_indent l - 4) = (0, 4).
Proof. vm_compute. reflexivity. Qed.

Print Assumptions C11_fence_info_document.
Print Assumptions C11_cut_keeps_line_verbatim.
Print Assumptions C11_lines_joined_verbatim.
Print Assumptions C11_fence_content_is_the_lines.
Print Assumptions C11_code_block_content_is_the_lines.
Print Assumptions C11_code_span_content_is_the_slice.
Print Assumptions C11_code_block_rendering.
Print Assumptions C11_fence_rendering.
Print Assumptions C11_code_span_rendering.
Print Assumptions C11_fence_search_verbatim.
Print Assumptions C11_indented_search_verbatim.
Print Assumptions C11_span_search_verbatim.
Print Assumptions C11_fence_document.
Print Assumptions C11_lines_of_text.
Print Assumptions C11_indented_document.
Print Assumptions C11_span_document.
