(* C18 -- statements only; see DESIGN.md section 6 C18.  Theorems are added as the proofs land;
   the witnesses below are evaluated in the kernel on the whole-parser model. *)
From Coq Require Import String.
From MdIt Require Import Prims Tables Escape Tree Render Core Dump Dispatch TreeProofs RenderProofs.
Local Open Scope string_scope.
Local Open Scope list_scope.
Local Open Scope N_scope.

Definition html_of (cfg src : string) : str :=
  let m := build_md (bs cfg) 100 in
  match snd (parse (default_fuel m) m (bs src)) with
  | inr d => match render false (d_root d) with inr h => h | inl _ => bs "<render panic>" end
  | inl _ => bs "<parse panic>"
  end.

Example C18_witness_alt :
  html_of "C" "![a \* &amp; *b*
c](x)" = bs "<p><img src=""x"" alt=""a * &amp; b
c""></p>
".
Proof. vm_compute. reflexivity. Qed.


(* For every tree: the alt text is the concatenation, over the pre-order walk of the image's
   subtree, of each node's own text (Text / decoded escape or reference content, line feed for
   soft and hard breaks, nothing for containers) -- nothing is dropped, containers, links,
   code spans and nested images are flattened to their text. *)
Theorem C18_alt_is_walk : forall n d,
  alt_text n = flat_map (fun p : node * N => text_of (n_kind (fst p))) (walk n d).
Proof. exact alt_text_walk. Qed.

(* that text is what the image issues as its alt attribute through the renderer interface *)
Theorem C18_alt_attribute : forall m a e cs url title,
  render_events (Node (KImage url title) m a e cs) =
  inr [ESelfClose (bs "img")
         (a ++ [(bs "src", url); (bs "alt", alt_text (Node (KImage url title) m a e cs))]
            ++ match title with Some t => [(bs "title", t)] | None => [] end)].
Proof. exact image_alt_attr. Qed.

(* and it is exactly what the same inline content displays: for every inline subtree (leaf kinds
   childless, no node attribute named alt) the displayed text of its renderer events -- text
   events, a line feed per line-break event, the alt of nested images -- equals its alt text *)
Theorem C18_alt_is_displayed_text : forall n,
  inline_only n = true -> forall es, render_events n = inr es -> ev_text es = alt_text n.
Proof. exact alt_is_displayed_text. Qed.

Example C18_nonvacuous :
  let d := mk (KEm 42) None [mk (KText (bs "a ")) None []; mk (KTextSpecial (bs "*") (bs "\*") false) None [];
                             mk KSoftbreak None []; mk (KImage (bs "u") None) None [mk (KText (bs "in")) None []]] in
  inline_only d = true /\ alt_text d = bs "a *" ++ [10] ++ bs "in".
Proof. vm_compute. split; reflexivity. Qed.

Print Assumptions C18_alt_is_walk.
Print Assumptions C18_alt_attribute.
Print Assumptions C18_alt_is_displayed_text.
