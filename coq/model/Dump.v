(* Dump.v -- canonical text form of trees and parse reports; mirrors harness/src/dump.rs *)
From Coq Require Import String.
From MdIt Require Import Prims Tables Tree Render Core.
Local Open Scope string_scope.
Local Open Scope list_scope.
Local Open Scope N_scope.

Definition h (s : str) : str := hexs s.
Definition ho (o : option str) : str := match o with None => bs "none" | Some x => bs "s" ++ hexs x end.
Definition b01 (b : bool) : str := if b then bs "1" else bs "0".
Definition commas (l : list str) : str := join (bs ",") l.

Definition kind_txt (starts : list N) (k : kind) : str :=
  match k with
  | KRoot => bs "Root()"
  | KParagraph => bs "Paragraph()"
  | KATX l => bs "ATXHeading(" ++ dec l ++ bs ")"
  | KSetext l m => bs "SetextHeader(" ++ commas [dec l; dec m] ++ bs ")"
  | KHr m n => bs "ThematicBreak(" ++ commas [dec m; dec n] ++ bs ")"
  | KCodeBlock c => bs "CodeBlock(" ++ h c ++ bs ")"
  | KFence i m n c p => bs "CodeFence(" ++ commas [h i; dec m; dec n; h c; h p] ++ bs ")"
  | KBlockquote => bs "Blockquote()"
  | KBullet m => bs "BulletList(" ++ dec m ++ bs ")"
  | KOrdered s m => bs "OrderedList(" ++ commas [dec s; dec m] ++ bs ")"
  | KItem => bs "ListItem()"
  | KHtmlBlock c => bs "HtmlBlock(" ++ h c ++ bs ")"
  | KText c => bs "Text(" ++ h c ++ bs ")"
  | KTextSpecial c m e => bs "TextSpecial(" ++ commas [h c; h m; if e then bs "entity" else bs "escape"] ++ bs ")"
  | KSoftbreak => bs "Softbreak()"
  | KHardbreak => bs "Hardbreak()"
  | KCodeInline m n => bs "CodeInline(" ++ commas [dec m; dec n] ++ bs ")"
  | KEm m => bs "Em(" ++ dec m ++ bs ")"
  | KStrong m => bs "Strong(" ++ dec m ++ bs ")"
  | KStrike m => bs "Strikethrough(" ++ dec m ++ bs ")"
  | KLink u t => bs "Link(" ++ commas [h u; ho t] ++ bs ")"
  | KImage u t => bs "Image(" ++ commas [h u; ho t] ++ bs ")"
  | KAutolink u => bs "Autolink(" ++ h u ++ bs ")"
  | KHtmlInline c => bs "HtmlInline(" ++ h c ++ bs ")"
  | KInlineRoot c mp =>
    bs "InlineRoot(" ++ h c ++ bs "," ++
    join (bs "+") (map (fun e : N * spos => dec (fst e) ++ bs ">" ++ dec (abs_pos starts (snd e))) mp) ++ bs ")"
  | KEmphMarker m l r o c => bs "EmphMarker(" ++ commas [dec m; dec l; dec r; b01 o; b01 c] ++ bs ")"
  | KEmpty => bs "Empty()"
  | KCustomBlock => bs "CustomBlock()"
  | KCustomInline n => bs "CustomInline(" ++ dec n ++ bs ")"
  | KCustomPair n => bs "CustomPair(" ++ dec n ++ bs ")"
  | KCustomCore n => bs "CustomCore(" ++ dec n ++ bs ")"
  end.

Definition node_txt (starts : list N) (n : node) (depth : N) : str :=
  let 'Node k m a _ _ := n in
  dec depth ++ bs ":" ++ kind_txt starts k ++ bs "@" ++
  (match m with
   | Some (x, y) => dec (abs_pos starts x) ++ bs "-" ++ dec (abs_pos starts y)
   | None => bs "none"
   end) ++ bs "{" ++ attrs_txt a ++ bs "}".

Definition dump_tree (starts : list N) (root : node) : str :=
  join (bs ";") (map (fun p : node * N => node_txt starts (fst p) (snd p)) (walk root 0)).

Definition has_flag (flags : str) (c : N) : bool := mem c flags.

(* same layout as harness parse_report; the gauge is measured on the implementation only *)
Definition parse_report (fuel : nat) (m : md) (src flags : str) : md * str :=
  let '(m', r) := parse fuel m src in
  (m',
   match r with
   | inl e => bs "panic " ++ (match e with Panic k => match k with
                 | IndexOOB => bs "IndexOOB" | SliceErr => bs "Slice" | UnwrapNone => bs "UnwrapNone"
                 | Overflow => bs "Overflow" | AssertFail => bs "Assert" | Cyclic => bs "Cyclic"
                 | Missing => bs "Missing" | Unimplemented => bs "Unimplemented" | Borrow => bs "Borrow" end
                 | Hang => bs "HANG" | OutOfFuel => bs "FUEL" end)
   | inr d =>
     let root := d_root d in
     let base := bs "ok depth=" ++ dec (N.of_nat (depth_of root)) ++ bs " gauge=na" in
     let t := if has_flag flags 84 then bs " tree=" ++ dump_tree (d_starts d) root else [] in
     match (if has_flag flags 82 then render_events root else ret []) with
     | inl _ => bs "panic Unimplemented"
     | inr es =>
       let r_ := if has_flag flags 82
                 then bs " html=" ++ h (serialize false es) ++ bs " xhtml=" ++ h (serialize true es) ++ bs " pure=1"
                      ++ (if has_flag flags 69 then bs " ev=" ++ events_txt es else [])
                 else [] in
       let w := if has_flag flags 87
                then bs " walk=" ++ dec (N.of_nat (size root)) ++ bs "/" ++ dec (N.of_nat (depth_of root)) else [] in
       base ++ t ++ r_ ++ w
     end
   end).
