(* LinkParse.v -- full_link.rs:177-287: parse_link_destination, parse_link_title.
   Both work on str[start..max) and return (end position, newlines consumed, unescaped text). *)
From MdIt Require Import Prims Tables Escape.
Local Open Scope list_scope.
Local Open Scope N_scope.

Record frag := Frag { f_pos : N; f_lines : N; f_str : str }.

(* <...> form; rest = bytes after '<'; pos = position of the next byte *)
Fixpoint dest_angle (s : str) (start : N) (rest : str) (pos : N) : option frag :=
  match rest with
  | [] => None
  | c :: t =>
    if (c =? 10) || (c =? 60) then None
    else if c =? 62 then Some (Frag (pos + 1) 0 (unescape_all (sub s (start + 1) pos)))
    else if c =? 92 then
      match t with
      | [] => None
      | _ :: t' => dest_angle s start t' (pos + 2)
      end
    else dest_angle s start t (pos + 1)
  end.

(* plain form: returns the end position, or None when more than 32 levels of parentheses *)
Fixpoint dest_plain (rest : str) (pos level : N) : option (N * N) :=
  match rest with
  | [] => Some (pos, level)
  | c :: t =>
    if (c <=? 32) || (c =? 127) then Some (pos, level)
    else if c =? 92 then
      match t with
      | [] => Some (pos, level)
      | 32 :: _ => Some (pos, level)
      | _ :: t' => dest_plain t' (pos + 2) level
      end
    else if c =? 40 then
      if 32 <? level + 1 then None else dest_plain t (pos + 1) (level + 1)
    else if c =? 41 then
      if level =? 0 then Some (pos, level) else dest_plain t (pos + 1) (level - 1)
    else dest_plain t (pos + 1) level
  end.

Definition parse_link_destination (s : str) (start max : N) : option frag :=
  let body := sub s start max in
  match body with
  | 60 :: t => dest_angle s start t (start + 1)
  | _ =>
    match dest_plain body start 0 with
    | Some (pos, level) =>
      if level =? 0 then Some (Frag pos 0 (unescape_all (sub s start pos))) else None
    | None => None
    end
  end.

Fixpoint title_loop (s : str) (start : N) (marker : N) (rest : str) (pos lines : N) : option frag :=
  match rest with
  | [] => None
  | c :: t =>
    if c =? marker then Some (Frag (pos + 1) lines (unescape_all (sub s (start + 1) pos)))
    else if (c =? 40) && (marker =? 41) then None
    else if c =? 10 then title_loop s start marker t (pos + 1) (lines + 1)
    else if c =? 92 then
      match t with
      | [] => None
      | _ :: t' => title_loop s start marker t' (pos + 2) lines
      end
    else title_loop s start marker t (pos + 1) lines
  end.

Definition parse_link_title (s : str) (start max : N) : option frag :=
  match sub s start max with
  | c :: t =>
    if c =? 34 then title_loop s start 34 t (start + 1) 0
    else if c =? 39 then title_loop s start 39 t (start + 1) 0
    else if c =? 40 then title_loop s start 41 t (start + 1) 0
    else None
  | [] => None
  end.
