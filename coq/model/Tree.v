(* Tree.v -- src/parser/node.rs: the AST.  One constructor per NodeValue type of the crate
   (public fields only), plus the custom kinds the harness registers. *)
From MdIt Require Import Prims.
Local Open Scope list_scope.
Local Open Scope N_scope.

(* Source positions are symbolic inside the parser (line index, byte offset relative to the
   line start) and made absolute at the very end (DESIGN.md 3.3).  The root's range is absolute. *)
Inductive spos := SAbs (o : N) | SRel (line : nat) (rel : N).
Definition smap := option (spos * spos).

Inductive kind :=
| KRoot
| KParagraph
| KATX (level : N)
| KSetext (level : N) (marker : N)
| KHr (marker : N) (marker_len : N)
| KCodeBlock (content : str)
| KFence (info : str) (marker : N) (marker_len : N) (content : str) (lang_prefix : str)
| KBlockquote
| KBullet (marker : N)
| KOrdered (start : N) (marker : N)
| KItem
| KHtmlBlock (content : str)
| KText (content : str)
| KTextSpecial (content markup : str) (is_entity : bool)
| KSoftbreak
| KHardbreak
| KCodeInline (marker : N) (marker_len : N)
| KEm (marker : N)
| KStrong (marker : N)
| KStrike (marker : N)
| KLink (url : str) (title : option str)
| KImage (url : str) (title : option str)
| KAutolink (url : str)
| KHtmlInline (content : str)
| KInlineRoot (content : str) (mapping : list (N * spos))
| KEmphMarker (marker : N) (length remaining : N) (can_open can_close : bool)
| KEmpty
| KCustomBlock
| KCustomInline (n : N)
| KCustomPair (n : N)
| KCustomCore (n : N).

(* node.env holds only OpenersBottom<MARKER> in the shipped code: marker -> [usize; 6] *)
Definition openers := list (N * list N).

Inductive node :=
  Node (k : kind) (map : smap) (attrs : list (str * str)) (env : openers) (children : list node).

Definition n_kind (n : node) := let 'Node k _ _ _ _ := n in k.
Definition n_map (n : node) := let 'Node _ m _ _ _ := n in m.
Definition n_attrs (n : node) := let 'Node _ _ a _ _ := n in a.
Definition n_env (n : node) := let 'Node _ _ _ e _ := n in e.
Definition n_children (n : node) := let 'Node _ _ _ _ c := n in c.

Definition mk (k : kind) (m : smap) (cs : list node) : node := Node k m [] [] cs.
Definition set_children (n : node) (cs : list node) : node :=
  let 'Node k m a e _ := n in Node k m a e cs.
Definition set_map (n : node) (m : smap) : node :=
  let 'Node k _ a e c := n in Node k m a e c.
Definition set_kind (n : node) (k : kind) : node :=
  let 'Node _ m a e c := n in Node k m a e c.
Definition push_child (n : node) (c : node) : node := set_children n (n_children n ++ [c]).

(* Node::replace (node.rs:96-99): kind/value changes, children, range, attrs and env stay *)
Definition replace (n : node) (k : kind) : node := set_kind n k.

(* Node::walk (node.rs:101-112): pre-order with depth *)
Fixpoint walk (n : node) (depth : N) : list (node * N) :=
  let 'Node _ _ _ _ cs := n in
  (n, depth) :: flat_map (fun c => walk c (depth + 1)) cs.

(* walk_mut (node.rs:114-125) with a callback that updates the node itself (kind, range, attrs,
   env) but not its child list; the callback sees the node before its children are visited *)
Fixpoint walk_mut (f : node -> N -> node) (n : node) (depth : N) : node :=
  let 'Node _ _ _ _ cs := n in
  set_children (f n depth) (map (fun c => walk_mut f c (depth + 1)) cs).

Fixpoint size (n : node) : nat :=
  let 'Node _ _ _ _ cs := n in S (fold_right (fun c acc => size c + acc)%nat 0%nat cs).

Fixpoint depth_of (n : node) : nat :=
  let 'Node _ _ _ _ cs := n in fold_right (fun c acc => Nat.max (S (depth_of c)) acc) 0%nat cs.
