(* Render.v -- src/parser/renderer.rs and every NodeValue::render of the crate.
   render_events: what a node issues through the public Renderer interface.
   serialize: the built-in HTML / XHTML serializer (HTMLRenderer<XHTML>). *)
From Coq Require Import String.
From MdIt Require Import Prims Tables Escape Tree.
Local Open Scope string_scope.
Local Open Scope list_scope.
Local Open Scope N_scope.

Definition attrs_t := list (str * str).

Inductive event :=
| EOpen (tag : str) (attrs : attrs_t)
| EClose (tag : str)
| ESelfClose (tag : str) (attrs : attrs_t)
| ECr
| EText (s : str)
| ERaw (s : str).

(* char::is_whitespace on a code point (generated table) *)
Definition is_ws_cp (c : N) : bool := mem c ws_table.

(* str::split_whitespace().next().unwrap_or("") *)
Fixpoint first_word_fuel (fuel : nat) (s : str) (started : bool) : str :=
  match fuel with
  | O => []
  | S f =>
    match decode1 s with
    | None => []
    | Some (c, n) =>
      if is_ws_cp c then (if started then [] else first_word_fuel f (dropN n s) false)
      else takeN n s ++ first_word_fuel f (dropN n s) true
    end
  end.
Definition first_word (s : str) : str := first_word_fuel (length s) s false.

(* image.rs:16-36 (after the fix): alt text = walk over the subtree *)
Fixpoint alt_text (n : node) : str :=
  let 'Node k _ _ _ cs := n in
  (match k with
   | KText c => c
   | KTextSpecial c _ _ => c
   | KSoftbreak | KHardbreak => [10]
   | _ => []
   end) ++ flat_map alt_text cs.

Definition heading_tag (level : N) : res str :=
  if (1 <=? level) && (level <=? 6) then ret (bs "h" ++ dec level) else panic IndexOOB.
Definition setext_tag (level : N) : res str :=
  if (1 <=? level) && (level <=? 2) then ret (bs "h" ++ dec level) else panic IndexOOB.

Fixpoint render_events (n : node) : res (list event) :=
  let 'Node k _ attrs _ cs := n in
  let contents :=
    (fix go (l : list node) : res (list event) :=
       match l with
       | [] => ret []
       | c :: t => do a <- render_events c; do b <- go t; ret (a ++ b)
       end) cs in
  match k with
  | KRoot => contents
  | KParagraph => do c <- contents; ret ([ECr; EOpen (bs "p") attrs] ++ c ++ [EClose (bs "p"); ECr])
  | KATX level => do tg <- heading_tag level; do c <- contents;
                  ret ([ECr; EOpen tg attrs] ++ c ++ [EClose tg; ECr])
  | KSetext level _ => do tg <- setext_tag level; do c <- contents;
                       ret ([ECr; EOpen tg attrs] ++ c ++ [EClose tg; ECr])
  | KHr _ _ => ret [ECr; ESelfClose (bs "hr") attrs; ECr]
  | KCodeBlock content =>
    ret [ECr; EOpen (bs "pre") []; EOpen (bs "code") attrs; EText content;
         EClose (bs "code"); EClose (bs "pre"); ECr]
  | KFence info _ _ content prefix =>
    let lang := first_word (unescape_all info) in
    let attrs' := match lang with [] => attrs | _ => attrs ++ [(bs "class", prefix ++ lang)] end in
    ret [ECr; EOpen (bs "pre") []; EOpen (bs "code") attrs'; EText content;
         EClose (bs "code"); EClose (bs "pre"); ECr]
  | KBlockquote => do c <- contents;
                   ret ([ECr; EOpen (bs "blockquote") attrs; ECr] ++ c ++ [ECr; EClose (bs "blockquote"); ECr])
  | KBullet _ => do c <- contents;
                 ret ([ECr; EOpen (bs "ul") attrs; ECr] ++ c ++ [ECr; EClose (bs "ul"); ECr])
  | KOrdered start _ =>
    let attrs' := if start =? 1 then attrs else attrs ++ [(bs "start", dec start)] in
    do c <- contents;
    ret ([ECr; EOpen (bs "ol") attrs'; ECr] ++ c ++ [ECr; EClose (bs "ol"); ECr])
  | KItem => do c <- contents; ret ([EOpen (bs "li") attrs] ++ c ++ [EClose (bs "li"); ECr])
  | KHtmlBlock content => ret [ECr; ERaw content; ECr]
  | KText content => ret [EText content]
  | KTextSpecial content _ _ => ret [EText content]
  | KSoftbreak => ret [ECr]
  | KHardbreak => ret [ESelfClose (bs "br") []; ECr]
  | KCodeInline _ _ => do c <- contents; ret ([EOpen (bs "code") attrs] ++ c ++ [EClose (bs "code")])
  | KEm _ => do c <- contents; ret ([EOpen (bs "em") attrs] ++ c ++ [EClose (bs "em")])
  | KStrong _ => do c <- contents; ret ([EOpen (bs "strong") attrs] ++ c ++ [EClose (bs "strong")])
  | KStrike _ => do c <- contents; ret ([EOpen (bs "s") attrs] ++ c ++ [EClose (bs "s")])
  | KLink url title =>
    let attrs' := attrs ++ [(bs "href", url)] ++ match title with Some t => [(bs "title", t)] | None => [] end in
    do c <- contents; ret ([EOpen (bs "a") attrs'] ++ c ++ [EClose (bs "a")])
  | KImage url title =>
    let attrs' := attrs ++ [(bs "src", url); (bs "alt", alt_text n)]
                        ++ match title with Some t => [(bs "title", t)] | None => [] end in
    ret [ESelfClose (bs "img") attrs']
  | KAutolink url => do c <- contents;
                     ret ([EOpen (bs "a") (attrs ++ [(bs "href", url)])] ++ c ++ [EClose (bs "a")])
  | KHtmlInline content => ret [ERaw content]
  | KInlineRoot _ _ | KEmphMarker _ _ _ _ _ | KEmpty => panic Unimplemented
  | KCustomBlock => ret [ECr; ESelfClose (bs "cb") attrs; ECr]
  | KCustomInline v => ret [EOpen (bs "ci") attrs; EText (dec v); EClose (bs "ci")]
  | KCustomPair _ => do c <- contents; ret ([EOpen (bs "cp") attrs] ++ c ++ [EClose (bs "cp")])
  | KCustomCore v => ret [ECr; EOpen (bs "cc") attrs; EText (dec v); EClose (bs "cc"); ECr]
  end.

(* ---- renderer.rs:26-124: HTMLRenderer<XHTML>.  The buffer is kept reversed. ---- *)
Definition rpush (buf : str) (s : str) : str := rev_append s buf.

Definition make_attrs (buf : str) (attrs : attrs_t) : str :=
  fold_left (fun b (a : str * str) =>
               rpush (rpush (rpush (rpush (rpush b [32]) (escape_html (fst a))) [61; 34]) (escape_html (snd a))) [34])
            attrs buf.

(* cr(): only push a line feed if the output is non-empty and does not end with one *)
Definition at_line_start (buf : str) : bool := match buf with [] => true | c :: _ => c =? 10 end.

Definition ser_event (xhtml : bool) (buf : str) (e : event) : str :=
  match e with
  | EOpen tag attrs => rpush (make_attrs (rpush (rpush buf [60]) tag) attrs) [62]
  | EClose tag => rpush (rpush (rpush buf [60; 47]) tag) [62]
  | ESelfClose tag attrs =>
    let b := make_attrs (rpush (rpush buf [60]) tag) attrs in
    rpush (if xhtml then rpush b [32; 47] else b) [62]
  | ECr => if at_line_start buf then buf else 10 :: buf
  | EText s => rpush buf (escape_html s)
  | ERaw s => rpush buf s
  end.

(* From<HTMLRenderer> for String: U+0000 -> U+FFFD at the very end *)
Definition replace_nul (s : str) : str := flat_map (fun b => if b =? 0 then [239; 191; 189] else [b]) s.

Definition serialize (xhtml : bool) (es : list event) : str :=
  replace_nul (rev (fold_left (ser_event xhtml) es [])).

Definition render (xhtml : bool) (n : node) : res str :=
  do es <- render_events n; ret (serialize xhtml es).

(* ---- textual form of events, as printed by the harness' recording Renderer ---- *)
Definition attrs_txt (a : attrs_t) : str :=
  join (bs ",") (map (fun p : str * str => fst p ++ bs "=" ++ hexs (snd p)) a).
Definition event_txt (e : event) : str :=
  match e with
  | EOpen t a => bs "o:" ++ t ++ bs ":" ++ attrs_txt a
  | EClose t => bs "c:" ++ t
  | ESelfClose t a => bs "s:" ++ t ++ bs ":" ++ attrs_txt a
  | ECr => bs "n"
  | EText s => bs "t:" ++ hexs s
  | ERaw s => bs "r:" ++ hexs s
  end.
Definition events_txt (es : list event) : str := join (bs "|") (map event_txt es).
