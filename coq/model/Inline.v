(* Inline.v -- src/parser/inline/{mod,state}.rs, builtin/skip_text.rs, generics/inline/*.rs,
   plugins/cmark/inline/*.rs, plugins/html/html_inline.rs, extra/strikethrough.rs *)
From Coq Require Import String.
From MdIt Require Import Prims Tables Escape NormRef Mdurl LinkParse Tree HtmlRe Block.
Local Open Scope string_scope.
Local Open Scope list_scope.
Local Open Scope N_scope.

Definition I_TEXT := 1. Definition I_NEWLINE := 2. Definition I_ESCAPE := 3. Definition I_BACKTICK := 4.
Definition I_EMPH_STAR := 5. Definition I_EMPH_UNDER := 6. Definition I_LINK := 7. Definition I_LINKEND := 8.
Definition I_IMAGE := 9. Definition I_AUTOLINK := 10. Definition I_ENTITY := 11. Definition I_STRIKE := 12.
Definition I_HTMLINLINE := 13. Definition I_CUSTOM_LETTER := 14. Definition I_CUSTOM_PUNCT := 15.
Definition I_CUSTOM_PAIR := 16.

(* configuration seen by the inline rules *)
Record icfg := ICfg {
  ic_chain : list N;
  ic_maxnest : N;
  ic_text_punct : bool;          (* TextScannerImpl::SkipPunct ? *)
  ic_text_stops : list N;        (* SkipRegex: marker characters *)
  ic_pairs : list (N * list (option kind))   (* PairConfig<MARKER>.fns *)
}.

Record istate := IState {
  i_src : str; i_map : list (N * spos); i_node : node; i_pos : N; i_max : N;
  i_cache : list (N * N); i_link_level : Z; i_level : N;
  i_bt : list (N * (bool * list N));            (* inline_env: CodePairCache per marker *)
  i_refs : refmap }.

Definition iset_node (st : istate) (n : node) : istate :=
  IState (i_src st) (i_map st) n (i_pos st) (i_max st) (i_cache st) (i_link_level st) (i_level st) (i_bt st) (i_refs st).
Definition iset_pos (st : istate) (p : N) : istate :=
  IState (i_src st) (i_map st) (i_node st) p (i_max st) (i_cache st) (i_link_level st) (i_level st) (i_bt st) (i_refs st).
Definition iset_max (st : istate) (p : N) : istate :=
  IState (i_src st) (i_map st) (i_node st) (i_pos st) p (i_cache st) (i_link_level st) (i_level st) (i_bt st) (i_refs st).
Definition iset_cache (st : istate) (c : list (N * N)) : istate :=
  IState (i_src st) (i_map st) (i_node st) (i_pos st) (i_max st) c (i_link_level st) (i_level st) (i_bt st) (i_refs st).
Definition iset_ll (st : istate) (l : Z) : istate :=
  IState (i_src st) (i_map st) (i_node st) (i_pos st) (i_max st) (i_cache st) l (i_level st) (i_bt st) (i_refs st).
Definition iset_level (st : istate) (l : N) : istate :=
  IState (i_src st) (i_map st) (i_node st) (i_pos st) (i_max st) (i_cache st) (i_link_level st) l (i_bt st) (i_refs st).
Definition iset_bt (st : istate) (b : list (N * (bool * list N))) : istate :=
  IState (i_src st) (i_map st) (i_node st) (i_pos st) (i_max st) (i_cache st) (i_link_level st) (i_level st) b (i_refs st).
Definition ipush (st : istate) (n : node) : istate := iset_node st (push_child (i_node st) n).

(* src[a..b] with the slicing panics *)
Definition isl (st : istate) (a b : N) : res str := slice (i_src st) a b.
(* src[pos..pos_max] *)
Definition irest (st : istate) : res str := isl st (i_pos st) (i_max st).

(* ------------------------------------------------------------------ *)
(* source positions (inline/state.rs:252-269)                          *)

Definition spos_add (p : spos) (n : N) : spos :=
  match p with SAbs o => SAbs (o + n) | SRel l r => SRel l (r + n) end.
Definition spos_sub (p : spos) (n : N) : res spos :=
  match p with
  | SAbs o => if n <=? o then ret (SAbs (o - n)) else panic Overflow
  | SRel l r => if n <=? r then ret (SRel l (r - n)) else panic Overflow
  end.

Fixpoint last_entry (m : list (N * spos)) (pos : N) (cur : option (N * spos)) : option (N * spos) :=
  match m with
  | [] => cur
  | e :: t => if fst e <=? pos then last_entry t pos (Some e) else cur
  end.
Definition source_pos_for (st : istate) (pos : N) : res spos :=
  match last_entry (i_map st) pos None with
  | Some (k, p) => ret (spos_add p (pos - k))
  | None => panic Overflow          (* Err(0) => 0 - 1, or indexing an empty table *)
  end.
Definition iget_map (st : istate) (a b : N) : res smap :=
  if a <=? b then do x <- source_pos_for st a; do y <- source_pos_for st b; ret (Some (x, y))
  else panic AssertFail.

(* ------------------------------------------------------------------ *)
(* trailing text (inline/state.rs:124-168)                             *)

Definition split_last {A} (l : list A) : option (list A * A) :=
  match rev l with [] => None | x :: r => Some (rev r, x) end.

Definition trailing_text_push (st : istate) (a b : N) : res istate :=
  do piece <- isl st a b;
  match split_last (n_children (i_node st)) with
  | Some (init, Node (KText c) m at_ e cs) =>
    do m' <- match m with
             | Some (ms, _) => do me <- source_pos_for st b; ret (Some (ms, me))
             | None => ret None
             end;
    ret (iset_node st (set_children (i_node st) (init ++ [Node (KText (c ++ piece)) m' at_ e cs])))
  | _ =>
    do m <- iget_map st a b;
    ret (ipush st (mk (KText piece) m []))
  end.

Definition trailing_text_pop (st : istate) (count : N) : res istate :=
  if count =? 0 then ret st else
  match split_last (n_children (i_node st)) with
  | Some (init, Node (KText c) m at_ e cs) =>
    if len c =? count then ret (iset_node st (set_children (i_node st) init))
    else if len c <? count then panic Overflow
    else
      do m' <- match m with
               | Some (ms, me) => do me' <- spos_sub me count; ret (Some (ms, me'))
               | None => ret None
               end;
      ret (iset_node st (set_children (i_node st)
             (init ++ [Node (KText (takeN (len c - count) c)) m' at_ e cs])))
  | _ => panic UnwrapNone
  end.

Definition trailing_text_get (st : istate) : str :=
  match split_last (n_children (i_node st)) with
  | Some (_, Node (KText c) _ _ _ _) => c
  | _ => []
  end.

(* ------------------------------------------------------------------ *)
(* scan_delims (inline/state.rs:170-250)                               *)

Definition is_punct_cp (c : N) : bool := existsb (fun r : N * N => (fst r <=? c) && (c <=? snd r)) punct_ranges.

Fixpoint count_run (c : N) (s : str) : N :=
  match s with x :: t => if x =? c then 1 + count_run c t else 0 | [] => 0 end.

Definition scan_delims (st : istate) (start : N) (can_split_word : bool) : res (N * bool * bool) :=
  (* returns (length, can_open, can_close) *)
  do before <- isl st 0 start;
  do rest <- isl st start (i_max st);
  match rest with
  | [] => panic UnwrapNone
  | marker :: _ =>
    let last_char := match prev_char (i_src st) start with Some c => c | None => 32 end in
    let count := count_run marker rest in
    let next_char := match decode1 (dropN count rest) with Some (c, _) => c | None => 32 end in
    let is_last_punct := is_punct_cp last_char in
    let is_next_punct := is_punct_cp next_char in
    let is_last_ws := is_ws_cp last_char in
    let is_next_ws := is_ws_cp next_char in
    let left_flanking :=
        if is_next_ws then false
        else if is_next_punct then (is_last_ws || is_last_punct) else true in
    let right_flanking :=
        if is_last_ws then false
        else if is_last_punct then (is_next_ws || is_next_punct) else true in
    let can_open := if can_split_word then left_flanking
                    else left_flanking && (negb right_flanking || is_last_punct) in
    let can_close := if can_split_word then right_flanking
                     else right_flanking && (negb left_flanking || is_next_punct) in
    ret (count, can_open, can_close)
  end.

(* ------------------------------------------------------------------ *)
(* emph_pair.rs                                                         *)

Definition get_openers (n : node) (marker : N) : list N :=
  let fix go (e : openers) := match e with [] => [0; 0; 0; 0; 0; 0]
                                      | (m, v) :: t => if m =? marker then v else go t end in
  go (n_env n).
Definition set_openers (n : node) (marker : N) (v : list N) : node :=
  let 'Node k m a e c := n in
  let fix go (e : openers) := match e with [] => [(marker, v)]
                                      | (m', v') :: t => if m' =? marker then (marker, v) :: t else (m', v') :: go t end in
  Node k m a (go e) c.
Definition nthN (l : list N) (i : N) : N := nth (N.to_nat i) l 0.
Fixpoint setN (l : list N) (i : nat) (x : N) : list N :=
  match l, i with [], _ => [] | _ :: t, O => x :: t | y :: t, S k => y :: setN t k x end.

Record emark := EMark { em_marker : N; em_length : N; em_remaining : N; em_open : bool; em_close : bool }.
Definition emark_of (k : kind) : option emark :=
  match k with KEmphMarker m l r o c => Some (EMark m l r o c) | _ => None end.
Definition kind_of_emark (e : emark) : kind :=
  KEmphMarker (em_marker e) (em_length e) (em_remaining e) (em_open e) (em_close e).

Definition is_odd_match (o c : emark) : bool :=
  (em_close o || em_open c) &&
  (((em_length o + em_length c) mod 3 =? 0) &&
   (negb (em_length o mod 3 =? 0) || negb (em_length c mod 3 =? 0))).

Definition pair_fns (cfg : icfg) (marker : N) : list (option kind) :=
  let fix go (l : list (N * list (option kind))) :=
      match l with [] => [None; None; None] | (m, f) :: t => if m =? marker then f else go t end in
  go (ic_pairs cfg).

(* largest marker_len <= max_len with a registered constructor *)
Definition or_opt {A} (a b : option A) : option A := match a with Some _ => a | None => b end.
Definition matched_rule (fns : list (option kind)) (max_len : N) : option (N * kind) :=
  let try_len (n : N) := match nth (N.to_nat (n - 1)) fns None with Some k => Some (n, k) | None => None end in
  if 3 <=? max_len then or_opt (try_len 3) (or_opt (try_len 2) (try_len 1))
  else if 2 <=? max_len then or_opt (try_len 2) (try_len 1)
  else if 1 <=? max_len then try_len 1 else None.

Definition map_shift_start (m : smap) (n : N) : smap * option spos :=
  match m with Some (a, b) => (Some (spos_add a n, b), Some (spos_add a n)) | None => (None, None) end.

(* inner `while closer.remaining > 0 && opener.remaining > 0` of scan_and_match_delimiters.
   children = nodes before the opener; inner = nodes after it; returns the updated pieces *)
Fixpoint match_pair (n : nat) (fns : list (option kind)) (o c : emark) (omap cmap : smap) (inner : list node)
  : res (emark * emark * smap * smap * list node * bool) :=
  match n with
  | O => ret (o, c, omap, cmap, inner, false)
  | S k =>
    if (0 <? em_remaining c) && (0 <? em_remaining o) then
      match matched_rule fns (N.min 3 (N.min (em_remaining o) (em_remaining c))) with
      | None => ret (o, c, omap, cmap, inner, false)
      | Some (mlen, knd) =>
        let c' := EMark (em_marker c) (em_length c) (em_remaining c - mlen) (em_open c) (em_close c) in
        let o' := EMark (em_marker o) (em_length o) (em_remaining o - mlen) (em_open o) (em_close o) in
        let '(cmap', end_pos) := map_shift_start cmap mlen in
        do om <- match omap with
                 | Some (a, b) => do b' <- spos_sub b mlen; ret (Some (a, b'), Some b')
                 | None => ret (None, None)
                 end;
        let '(omap', start_pos) := om in
        let nmap := Some (match start_pos with Some p => p | None => SAbs 0 end,
                          match end_pos with Some p => p | None => SAbs 0 end) in
        let new_token := mk knd nmap inner in
        do r <- match_pair k fns o' c' omap' cmap' [new_token];
        let '(o2, c2, om2, cm2, inner2, _) := r in
        ret (o2, c2, om2, cm2, inner2, true)
      end
    else ret (o, c, omap, cmap, inner, false)
  end.

(* outer `while idx > min_opener_idx` loop; before = children[..idx] reversed (nearest first),
   after = children[idx..] in order *)
Fixpoint match_openers (cfg : icfg) (n : nat) (rbefore : list node) (after : list node) (idx min_idx : N)
         (c : emark) (cmap : smap) (matched_any : bool)
  : res (list node * emark * smap * bool) :=
  match n with
  | O => ret (rev_append rbefore after, c, cmap, matched_any)
  | S k =>
    if idx <=? min_idx then ret (rev_append rbefore after, c, cmap, matched_any) else
    match rbefore with
    | [] => ret (after, c, cmap, matched_any)
    | cand :: rb' =>
      match emark_of (n_kind cand) with
      | Some o =>
        if em_open o && (em_marker o =? em_marker c) && negb (is_odd_match o c) then
          do r <- match_pair (S (N.to_nat (em_remaining o))) (pair_fns cfg (em_marker c)) o c (n_map cand) cmap after;
          let '(o2, c2, omap2, cmap2, inner2, any) := r in
          if any then
            let after' := if 0 <? em_remaining o2
                          then set_map (set_kind cand (kind_of_emark o2)) omap2 :: inner2
                          else inner2 in
            match_openers cfg k rb' after' (idx - 1) min_idx c2 cmap2 true
          else match_openers cfg k rb' (cand :: after) (idx - 1) min_idx c cmap matched_any
        else match_openers cfg k rb' (cand :: after) (idx - 1) min_idx c cmap matched_any
      | None => match_openers cfg k rb' (cand :: after) (idx - 1) min_idx c cmap matched_any
      end
    end
  end.

Definition scan_and_match_delimiters (cfg : icfg) (st : istate) (marker : N) : res istate :=
  let cs := n_children (i_node st) in
  match split_last cs with
  | None => panic UnwrapNone
  | Some ([], _) => ret st                                   (* children.len() == 1 *)
  | Some (init, closer_tok) =>
    match emark_of (n_kind closer_tok) with
    | None => panic UnwrapNone
    | Some closer =>
      let ops := get_openers (i_node st) marker in
      let param := (if em_open closer then 3 else 0) + em_length closer mod 3 in
      let min_idx := nthN ops param in
      let idx := N.of_nat (length init) - 1 in
      let init_last := split_last init in
      do r <- match init_last with
              | None => panic UnwrapNone
              | Some (init', lastn) =>
                match_openers cfg (S (length init)) (rev init') [lastn] idx min_idx closer (n_map closer_tok) false
              end;
      let '(cs', closer', cmap', any) := r in
      let node1 := set_children (i_node st) cs' in
      let node2 := if any then node1
                   else if idx =? 0 then node1
                   else set_openers node1 marker (setN ops (N.to_nat param) idx) in
      let node3 := if 0 <? em_remaining closer'
                   then push_child node2 (set_map (set_kind closer_tok (kind_of_emark closer')) cmap')
                   else node2 in
      ret (iset_node st node3)
    end
  end.

Definition rule_emph (cfg : icfg) (marker : N) (can_split : bool) (st : istate) (silent : bool)
  : res (istate * option N) :=
  if silent then ret (st, None) else
  do rest <- irest st;
  match rest with
  | [] => panic UnwrapNone
  | c :: _ =>
    if negb (c =? marker) then ret (st, None) else
    do sc <- scan_delims st (i_pos st) can_split;
    let '(length, can_open, can_close) := sc in
    do m <- iget_map st (i_pos st) (i_pos st + length);
    let st1 := ipush st (mk (KEmphMarker marker length length can_open can_close) m []) in
    do st2 <- (if can_close then scan_and_match_delimiters cfg st1 marker else ret st1);
    ret (st2, Some length)
  end.

(* ------------------------------------------------------------------ *)
(* simple rules                                                         *)

Definition punct_stop (c : N) : bool :=
  mem c [10; 33; 35; 36; 37; 38; 42; 43; 45; 58; 60; 61; 62; 64; 91; 92; 93; 94; 95; 96; 123; 125; 126].

(* builtin/skip_text.rs *)
Definition rule_text (cfg : icfg) (st : istate) (silent : bool) : res (istate * option N) :=
  do rest <- irest st;
  let stop := if ic_text_punct cfg then punct_stop else (fun c => mem c (ic_text_stops cfg)) in
  let n := len (fst (span (fun c => negb (stop c)) rest)) in
  if n =? 0 then ret (st, None) else
  do st' <- (if silent then ret st else trailing_text_push st (i_pos st) (i_pos st + n));
  ret (st', Some n).

(* cmark/inline/newline.rs *)
Definition rule_newline (st : istate) (silent : bool) : res (istate * option N) :=
  do rest <- irest st;
  match rest with
  | [] => panic UnwrapNone
  | c :: t =>
    if negb (c =? 10) then ret (st, None) else
    let pos := i_pos st + 1 + len (fst (span is_sptab t)) in
    if silent then ret (st, Some (pos - i_pos st)) else
    let tail_size := len (fst (span (fun x => x =? 32) (rev (trailing_text_get st)))) in
    do st1 <- trailing_text_pop st tail_size;
    if i_pos st <? tail_size then panic Overflow else
    do m <- iget_map st1 (i_pos st - tail_size) pos;
    ret (ipush st1 (mk (if 2 <=? tail_size then KHardbreak else KSoftbreak) m []), Some (pos - i_pos st))
  end.

(* cmark/inline/escape.rs *)
Definition rule_escape (st : istate) (silent : bool) : res (istate * option N) :=
  do rest <- irest st;
  match rest with
  | [] => panic UnwrapNone
  | c :: t =>
    if negb (c =? 92) then ret (st, None) else
    match t with
    | [] => ret (st, None)
    | 10 :: t' =>
      let n := 2 + len (fst (span is_sptab t')) in
      if silent then ret (st, Some n) else
      do m <- iget_map st (i_pos st) (i_pos st + 2);
      ret (ipush st (mk KHardbreak m []), Some n)
    | d :: _ =>
      let clen := match decode1 t with Some (_, l) => l | None => 1 end in
      let chr := takeN clen t in
      let n := 1 + clen in
      if silent then ret (st, Some n) else
      let orig := 92 :: chr in
      let content := if (d <? 128) && is_ascii_punct d then chr else orig in
      do m <- iget_map st (i_pos st) (i_pos st + n);
      ret (ipush st (mk (KTextSpecial content orig false) m []), Some n)
    end
  end.

(* generics/inline/code_pair.rs with TOKENIZE = false *)
Definition get_bt (st : istate) (marker : N) : bool * list N :=
  let fix go (l : list (N * (bool * list N))) :=
      match l with [] => (false, []) | (m, v) :: t => if m =? marker then v else go t end in
  go (i_bt st).
Definition set_bt (st : istate) (marker : N) (v : bool * list N) : istate :=
  let fix go (l : list (N * (bool * list N))) :=
      match l with [] => [(marker, v)] | (m, v') :: t => if m =? marker then (marker, v) :: t else (m, v') :: go t end in
  iset_bt st (go (i_bt st)).

Fixpoint find_byte (c : N) (s : str) (i : N) : option N :=
  match s with [] => None | x :: t => if x =? c then Some i else find_byte c t (i + 1) end.

Definition extend_to (l : list N) (n : nat) : list N := l ++ repeatN 0 (n - length l).

Fixpoint code_scan (n : nat) (st : istate) (marker opener_len : N) (match_end : N) (maxv : list N)
  : res (option (N * N) * list N) :=
  (* returns (Some (match_start, match_end) | None, updated max) *)
  match n with
  | O => ret (None, maxv)
  | S k =>
    do rest <- isl st match_end (i_max st);
    match find_byte marker rest 0 with
    | None => ret (None, maxv)
    | Some p =>
      let ms := match_end + p in
      let run := count_run marker (dropN p rest) in
      let me := ms + run in
      if run =? opener_len then ret (Some (ms, me), maxv)
      else
        let maxv' := setN (extend_to maxv (S (N.to_nat run))) (N.to_nat run) ms in
        code_scan k st marker opener_len me maxv'
    end
  end.

Definition rule_code_pair (st : istate) (marker : N) (silent : bool) : res (istate * option N) :=
  do rest <- irest st;
  match rest with
  | [] => panic UnwrapNone
  | c :: _ =>
    if negb (c =? marker) then ret (st, None) else
    if match rev (trailing_text_get st) with x :: _ => x =? marker | [] => false end then ret (st, None) else
    let opener_len := count_run marker rest in
    let pos := i_pos st + opener_len in
    let '(scanned, maxv) := get_bt st marker in
    if scanned && (nth (N.to_nat opener_len) maxv 0 <=? i_pos st) then ret (st, None) else
    do r <- code_scan (S (length rest)) st marker opener_len pos maxv;
    match fst r with
    | None => ret (set_bt st marker (true, snd r), None)
    | Some (ms, me) =>
      let st1 := set_bt st marker (scanned, snd r) in
      if silent then ret (st1, Some (me - i_pos st)) else
      do raw <- isl st pos ms;
      let content := map (fun b => if b =? 10 then 32 else b) raw in
      let strip := match content, rev content with
                   | 32 :: _, 32 :: _ => 2 <? len content
                   | _, _ => false
                   end in
      let content' := if strip then sub content 1 (len content - 1) else content in
      let pos' := if strip then pos + 1 else pos in
      let ms' := if strip then ms - 1 else ms in
      do m <- iget_map st (i_pos st) me;
      do mi <- iget_map st pos' ms';
      let node := mk (KCodeInline marker opener_len) m [mk (KText content') mi []] in
      ret (ipush st1 node, Some (me - i_pos st))
    end
  end.

(* cmark/inline/autolink.rs *)
Fixpoint autolink_end (s : str) (pos : N) : option N :=
  match s with
  | [] => None
  | c :: t => if c =? 60 then None else if c =? 62 then Some pos else autolink_end t (pos + 1)
  end.

Definition rule_autolink (st : istate) (silent : bool) : res (istate * option N) :=
  do rest <- irest st;
  match rest with
  | [] => panic UnwrapNone
  | c :: t =>
    if negb (c =? 60) then ret (st, None) else
    match autolink_end t (i_pos st + 2) with
    | None => ret (st, None)
    | Some pos =>
      do url <- isl st (i_pos st + 1) (pos - 1);
      let a := is_autolink url in
      let e := is_email url in
      if negb a && negb e then ret (st, None) else
      let full := if a then normalize_link url else normalize_link (bs "mailto:" ++ url) in
      if negb (validate_link full) then ret (st, None) else
      if silent then ret (st, Some (pos - i_pos st)) else
      do m <- iget_map st (i_pos st) pos;
      do mi <- iget_map st (i_pos st + 1) (pos - 1);
      ret (ipush st (mk (KAutolink full) m [mk (KText url) mi []]), Some (pos - i_pos st))
    end
  end.

(* cmark/inline/entity.rs -- note: the regexes run on src[pos..] (not bounded by pos_max) *)
Definition rule_entity (st : istate) (silent : bool) : res (istate * option N) :=
  do rest <- irest st;
  match rest with
  | [] => panic UnwrapNone
  | c :: t =>
    if negb (c =? 38) then ret (st, None) else
    do full <- isl st (i_pos st) (len (i_src st));
    match t with
    | 35 :: _ =>
      (* (?i)^&#((?:x[a-f0-9]{1,6}|[0-9]{1,7})); *)
      let body_rest := dropN 2 full in
      let '(run, after) := span (fun b => (b <? 128) && is_alnum b) body_rest in
      match after with
      | 59 :: _ =>
        match numeric_code run with
        | Some code =>
          let n := 2 + len run + 1 in
          if silent then ret (st, Some n) else
          do m <- iget_map st (i_pos st) (i_pos st + n);
          ret (ipush st (mk (KTextSpecial (code_to_str code) (takeN n full) true) m []), Some n)
        | None => ret (st, None)
        end
      | _ => ret (st, None)
      end
    | _ =>
      match match_entity_re false (dropN 1 full) with
      | Some (whole, _) =>
        match get_entity_from_str whole with
        | Some v =>
          let n := len whole in
          if silent then ret (st, Some n) else
          do m <- iget_map st (i_pos st) (i_pos st + n);
          ret (ipush st (mk (KTextSpecial v whole true) m []), Some n)
        | None => ret (st, None)
        end
      | None => ret (st, None)
      end
    end
  end.

(* plugins/html/html_inline.rs *)
Definition rule_html_inline (st : istate) (silent : bool) : res (istate * option N) :=
  do rest <- irest st;
  match rest with
  | [] => panic UnwrapNone
  | c :: t =>
    if negb (c =? 60) then ret (st, None) else
    match t with
    | d :: _ =>
      if (d =? 33) || (d =? 63) || (d =? 47) || ((d <? 128) && is_alpha d) then
        match html_tag_len rest with
        | None => ret (st, None)
        | Some n =>
          if silent then ret (st, Some n) else
          let content := takeN n rest in
          let ll := if html_link_open content then (i_link_level st + 1)%Z
                    else if html_link_close content then (i_link_level st - 1)%Z
                    else i_link_level st in
          do m <- iget_map st (i_pos st) (i_pos st + n);
          ret (ipush (iset_ll st ll) (mk (KHtmlInline content) m []), Some n)
        end
      else ret (st, None)
    | [] => ret (st, None)
    end
  end.

Definition rule_custom_inline (st : istate) (pat : str) (v : N) (silent : bool) : res (istate * option N) :=
  do rest <- irest st;
  if negb (starts_with pat rest) then ret (st, None) else
  if silent then ret (st, Some 2) else
  do m <- iget_map st (i_pos st) (i_pos st + 2);
  ret (ipush st (mk (KCustomInline v) m []), Some 2).

(* ------------------------------------------------------------------ *)
(* links (generics/inline/full_link.rs), parametrised by the recursive calls *)

Section Rules.
Variable cfg : icfg.
Variable tokenize_rec : istate -> res istate.
Variable skip_rec : istate -> res istate.

(* parse_link_label: returns (state with caches updated and pos restored, label end) *)
Fixpoint label_loop (n : nat) (st : istate) (level : N) (enable_nested : bool) : res (istate * option N) :=
  match n with
  | O => fail Hang
  | S k =>
    do rest <- irest st;
    match rest with
    | [] => ret (st, None)
    | ch :: _ =>
      if (ch =? 93) && (level =? 1) then ret (st, Some (i_pos st)) else
      let level1 := if ch =? 93 then level - 1 else level in
      let prev := i_pos st in
      do st' <- skip_rec st;
      if ch =? 91 then
        if prev + 1 =? i_pos st' then label_loop k st' (level1 + 1) enable_nested
        else if negb enable_nested then ret (st', None)
        else label_loop k st' level1 enable_nested
      else label_loop k st' level1 enable_nested
    end
  end.

Definition parse_link_label (st : istate) (start : N) (enable_nested : bool) : res (istate * option N) :=
  let old := i_pos st in
  do r <- label_loop (S (S (length (i_src st)))) (iset_pos st (start + 1)) 1 enable_nested;
  ret (iset_pos (fst r) old, snd r).

Definition skip_spnl (s : str) (pos : N) : N :=
  pos + len (fst (span (fun c => is_sptab c || (c =? 10)) s)).

Record plink := PLink { pl_label_start : N; pl_label_end : N; pl_href : option str;
                        pl_title : option str; pl_end : N }.

Definition parse_link (st : istate) (pos0 : N) (enable_nested : bool) : res (istate * option plink) :=
  do r <- parse_link_label st pos0 enable_nested;
  let '(st1, le) := r in
  match le with
  | None => ret (st1, None)
  | Some label_end =>
    let label_start := pos0 + 1 in
    let src := i_src st1 in
    let mx := i_max st1 in
    do after <- isl st1 (label_end + 1) mx;
    (* inline link *)
    let inline_res :=
        match after with
        | 40 :: t =>
          let pos := skip_spnl t (label_end + 2) in
          let '(pos1, href, title) :=
              match parse_link_destination src pos mx with
              | Some d =>
                let cand := normalize_link (f_str d) in
                let '(p, h) := if validate_link cand then (f_pos d, Some cand) else (pos, None) in
                let p2 := skip_spnl (sub src p mx) p in
                match parse_link_title src p2 mx with
                | Some ti => (skip_spnl (sub src (f_pos ti) mx) (f_pos ti), h, Some (f_str ti))
                | None => (p2, h, None)
                end
              | None => (pos, None, None)
              end in
          match sub src pos1 mx with
          | 41 :: _ => Some (PLink label_start label_end href title (pos1 + 1))
          | _ => None
          end
        | _ => None
        end in
    match inline_res with
    | Some pl => ret (st1, Some pl)
    | None =>
      (* link reference *)
      let pos := label_end + 1 in
      do x <- match after with
              | 91 :: _ =>
                do r2 <- parse_link_label st1 pos false;
                match snd r2 with
                | Some e => ret (fst r2, Some (sub src (pos + 1) e), e + 1)
                | None => ret (fst r2, None, pos)
                end
              | _ => ret (st1, None, pos)
              end;
      let '(st2, maybe_label, pos') := x in
      let label := match maybe_label with
                   | None | Some [] => sub src label_start label_end
                   | Some l => l
                   end in
      match ref_get (i_refs st2) (normalize_reference label) with
      | Some e => ret (st2, Some (PLink label_start label_end (Some (r_dest e)) (r_title e) pos'))
      | None => ret (st2, None)
      end
    end
  end.

Definition rule_link (st : istate) (silent : bool) (enable_nested : bool) (offset : N)
           (mkk : str -> option str -> kind) : res (istate * option N) :=
  let start := i_pos st in
  do r <- parse_link st (i_pos st + offset) enable_nested;
  let '(st1, pl) := r in
  match pl with
  | None => ret (st1, None)
  | Some p =>
    if silent then
      (if i_pos st1 <=? pl_end p then ret (st1, Some (pl_end p - i_pos st1)) else panic Overflow)
    else
      let old_node := i_node st1 in
      let newn := mk (mkk (match pl_href p with Some h => h | None => [] end) (pl_title p)) None [] in
      let mx := i_max st1 in
      let inner := IState (i_src st1) (i_map st1) newn (pl_label_start p) (pl_label_end p) (i_cache st1)
                          (i_link_level st1 + 1)%Z (i_level st1 + 1) (i_bt st1) (i_refs st1) in
      do inner' <- tokenize_rec inner;
      let st2 := IState (i_src st1) (i_map st1) old_node (i_pos inner') mx (i_cache inner')
                        (i_link_level inner') (i_level st1) (i_bt inner') (i_refs st1) in
      do m <- iget_map st2 start (pl_end p);
      let st3 := iset_ll (ipush st2 (set_map (i_node inner') m)) (i_link_level inner' - 1)%Z in
      if i_pos st3 <=? pl_end p then ret (st3, Some (pl_end p - i_pos st3)) else panic Overflow
  end.

(* generics/inline/code_pair.rs with TOKENIZE = true: the content between the markers is tokenized
   into the new node, one nesting level deeper *)
Definition rule_code_pair_tok (st : istate) (marker : N) (silent : bool) : res (istate * option N) :=
  do rest <- irest st;
  match rest with
  | [] => panic UnwrapNone
  | c :: _ =>
    if negb (c =? marker) then ret (st, None) else
    if match rev (trailing_text_get st) with x :: _ => x =? marker | [] => false end then ret (st, None) else
    let opener_len := count_run marker rest in
    let pos := i_pos st + opener_len in
    let '(scanned, maxv) := get_bt st marker in
    if scanned && (nth (N.to_nat opener_len) maxv 0 <=? i_pos st) then ret (st, None) else
    do r <- code_scan (S (length rest)) st marker opener_len pos maxv;
    match fst r with
    | None => ret (set_bt st marker (true, snd r), None)
    | Some (ms, me) =>
      let st1 := set_bt st marker (scanned, snd r) in
      if silent then ret (st1, Some (me - i_pos st)) else
      do raw <- isl st pos ms;
      let content := map (fun b => if b =? 10 then 32 else b) raw in
      let strip := match content, rev content with
                   | 32 :: _, 32 :: _ => 2 <? len content
                   | _, _ => false
                   end in
      let pos' := if strip then pos + 1 else pos in
      let ms' := if strip then ms - 1 else ms in
      do m <- iget_map st (i_pos st) me;
      let newn := mk (KCustomPair opener_len) m [] in
      (* the skip cache is set aside for the nested call and restored afterwards (entries of the enclosing
         range may end beyond the narrower range) *)
      let inner := IState (i_src st1) (i_map st1) newn pos' ms' [] (i_link_level st1)
                          (i_level st1 + 1) (i_bt st1) (i_refs st1) in
      do inner' <- tokenize_rec inner;
      let st2 := IState (i_src st1) (i_map st1) (push_child (i_node st1) (i_node inner')) (i_pos inner') (i_max st1)
                        (i_cache st1) (i_link_level inner') (i_level st1) (i_bt inner') (i_refs st1) in
      if i_pos st2 <=? me then ret (st2, Some (me - i_pos st2)) else panic Overflow
    end
  end.

Definition run_rule (r : N) (st : istate) (silent : bool) : res (istate * option N) :=
  if r =? I_TEXT then rule_text cfg st silent
  else if r =? I_NEWLINE then rule_newline st silent
  else if r =? I_ESCAPE then rule_escape st silent
  else if r =? I_BACKTICK then rule_code_pair st 96 silent
  else if r =? I_EMPH_STAR then rule_emph cfg 42 true st silent
  else if r =? I_EMPH_UNDER then rule_emph cfg 95 false st silent
  else if r =? I_STRIKE then rule_emph cfg 126 true st silent
  else if r =? I_LINK then
    do rest <- irest st;
    match rest with
    | [] => panic UnwrapNone
    | c :: _ => if c =? 91 then rule_link st silent false 0 KLink else ret (st, None)
    end
  else if r =? I_IMAGE then
    do rest <- irest st;
    match rest with
    | 33 :: 91 :: _ => rule_link st silent true 1 KImage
    | _ => ret (st, None)
    end
  else if r =? I_LINKEND then ret (st, None)
  else if r =? I_AUTOLINK then rule_autolink st silent
  else if r =? I_ENTITY then rule_entity st silent
  else if r =? I_HTMLINLINE then rule_html_inline st silent
  else if r =? I_CUSTOM_LETTER then rule_custom_inline st (bs "xx") 1 silent
  else if r =? I_CUSTOM_PUNCT then rule_custom_inline st (bs "%%") 2 silent
  else if r =? I_CUSTOM_PAIR then rule_code_pair_tok st 37 silent
  else ret (st, None).

Fixpoint try_rules (chain : list N) (st : istate) (silent : bool) (bump : bool) : res (istate * option N) :=
  match chain with
  | [] => ret (st, None)
  | r :: t =>
    do x <- run_rule r (if bump then iset_level st (i_level st + 1) else st) silent;
    let st' := if bump then iset_level (fst x) (i_level st) else fst x in
    match snd x with
    | Some n => ret (st', Some n)
    | None => try_rules t st' silent bump
    end
  end.

Definition first_char_len (st : istate) : res N :=
  do rest <- irest st;
  match decode1 rest with Some (_, n) => ret n | None => panic UnwrapNone end.

Definition cache_get (st : istate) (p : N) : option N :=
  let fix go (l : list (N * N)) := match l with [] => None | (k, v) :: t => if k =? p then Some v else go t end in
  go (i_cache st).

(* inline/mod.rs:40-86 (with the nesting repair) *)
Definition skip_token_body (st : istate) : res istate :=
  let pos := i_pos st in
  match cache_get st pos with
  | Some x => ret (iset_pos st x)
  | None =>
    if i_level st <? ic_maxnest cfg then
      do x <- try_rules (ic_chain cfg) st true true;
      let st1 := fst x in
      do st2 <- match snd x with
                | Some n => ret (iset_pos st1 (i_pos st1 + n))
                | None => do n <- first_char_len st1; ret (iset_pos st1 (i_pos st1 + n))
                end;
      ret (iset_cache st2 ((pos, i_pos st2) :: i_cache st2))
    else
      let st1 := iset_pos st (i_max st) in
      ret (iset_cache st1 ((pos, i_pos st1) :: i_cache st1))
  end.

(* inline/mod.rs:88-118 *)
Fixpoint tok_loop (n : nat) (st : istate) (end_ : N) : res istate :=
  if negb (i_pos st <? end_) then ret st else
  match n with
  | O => fail Hang
  | S k =>
    do x <- (if i_level st <? ic_maxnest cfg then try_rules (ic_chain cfg) st false false else ret (st, None));
    let st1 := fst x in
    match snd x with
    | Some n' =>
      let st2 := iset_pos st1 (i_pos st1 + n') in
      if end_ <=? i_pos st2 then ret st2 else tok_loop k st2 end_
    | None =>
      do cl <- first_char_len st1;
      do st2 <- trailing_text_push st1 (i_pos st1) (i_pos st1 + cl);
      tok_loop k (iset_pos st2 (i_pos st2 + cl)) end_
    end
  end.

Definition tokenize_body (st : istate) : res istate :=
  tok_loop (S (S (N.to_nat (i_max st - i_pos st)))) st (i_max st).

End Rules.

Fixpoint itokenize (fuel : nat) (cfg : icfg) (st : istate) : res istate :=
  match fuel with
  | O => fail OutOfFuel
  | S f => tokenize_body cfg (itokenize f cfg) (iskip f cfg) st
  end
with iskip (fuel : nat) (cfg : icfg) (st : istate) : res istate :=
  match fuel with
  | O => fail OutOfFuel
  | S f => skip_token_body cfg (itokenize f cfg) (iskip f cfg) st
  end.

(* InlineState::new + trim_src, InlineParser::parse *)
Definition inline_parse (fuel : nat) (cfg : icfg) (src : str) (map_ : list (N * spos)) (nd : node)
           (refs : refmap) : res node :=
  let trailing := len (fst (span is_sptab (rev src))) in
  let pos_max := len src - trailing in
  let leading := if pos_max =? 0 then 0 else len (fst (span is_sptab src)) in
  let st := IState src map_ nd leading pos_max [] 0 0 [] refs in
  do st' <- itokenize fuel cfg st;
  ret (i_node st').
