(* SourceMap.v -- src/common/sourcemap.rs *)
From MdIt Require Import Prims.
Local Open Scope list_scope.
Local Open Scope N_scope.

Record mark := Mark { m_off : N; m_line : N; m_col : N }.

Definition next_is_lf (t : str) : bool := match t with 10 :: _ => true | _ => false end.

(* sourcemap.rs:11-41 -- SourceWithLineStarts::new.  char_indices() over valid UTF-8 visits
   exactly the non-continuation bytes; continuation bytes are skipped. *)
Fixpoint marks_from (s : str) (o line col : N) : list mark :=
  match s with
  | [] => []
  | b :: t =>
    if (b =? 13) && next_is_lf t then marks_from t (o + 1) line (col + 1)
    else if (b =? 13) || (b =? 10) then
      Mark (o + 1) (line + 1) 0 :: marks_from t (o + 1) (line + 1) 0
    else if is_cont b then marks_from t (o + 1) line col
    else if (col mod 16 =? 0) && (0 <? col)
         then Mark o line col :: marks_from t (o + 1) line (col + 1)
         else marks_from t (o + 1) line (col + 1)
  end.

Definition first_mark : mark := Mark 0 1 0.
Definition marks_of (src : str) : list mark := first_mark :: marks_from src 0 1 0.

(* sourcemap.rs:43-57 -- get_position.  binary_search_by over strictly increasing offsets
   followed by `Err(x) => x - 1` selects the last mark whose offset is <= the key. *)
Fixpoint last_le (ms : list mark) (key : N) (cur : mark) : mark :=
  match ms with
  | [] => cur
  | m :: t => if m_off m <=? key then last_le t key m else cur
  end.

Definition count_starts (s : str) : N := len (filter (fun b => negb (is_cont b)) s).

Definition get_position (src : str) (byte_offset : N) : N * N :=
  let key := byte_offset + 1 in
  let m := last_le (marks_of src) key first_mark in
  (m_line m, m_col m + count_starts (sub src (m_off m) key)).

(* sourcemap.rs:87-93 -- SourcePos::get_positions *)
Definition get_positions (src : str) (s e : N) : (N * N) * (N * N) :=
  (get_position src s, get_position src (if 0 <? e then e - 1 else e)).

(* ---- the direct definition (specification): one left-to-right pass over the first k bytes ---- *)
Fixpoint scan (s : str) (line col : N) (k : nat) {struct k} : N * N :=
  match k, s with
  | O, _ => (line, col)
  | _, [] => (line, col)
  | S k', b :: t =>
    if (b =? 13) && next_is_lf t then scan t line (col + 1) k'
    else if (b =? 13) || (b =? 10) then scan t (line + 1) 0 k'
    else if is_cont b then scan t line col k'
    else scan t line (col + 1) k'
  end.
Definition pos_spec (src : str) (off : N) : N * N := scan src 1 0 (N.to_nat (off + 1)).

(* plugins/sourcepos.rs:21-33 -- attribute formatting *)
Definition fmt_sourcepos (p : (N * N) * (N * N)) : str :=
  let '((l1, c1), (l2, c2)) := p in
  dec l1 ++ [58] ++ dec c1 ++ [45] ++ dec l2 ++ [58] ++ dec c2.
