(* ErasedSet.v -- src/common/erasedset.rs + typekey.rs.
   HashMap<TypeKey, Box<dyn AnyDebug>>: a finite map from type ids to (type tag of the boxed
   value, payload).  Every access downcasts to the requested type; downcast failure is
   `?` (None) in get/get_mut and `unwrap` (panic) elsewhere. *)
From MdIt Require Import Prims.
Local Open Scope list_scope.
Local Open Scope N_scope.

Record entry := Entry { e_key : N; e_tag : N; e_val : N }.
Definition eset := list entry.

Definition es_new : eset := [].
Definition es_len (s : eset) : N := len (map e_key s).
Definition es_is_empty (s : eset) : bool := match s with [] => true | _ => false end.
Definition es_clear (s : eset) : eset := [].

Fixpoint es_find (s : eset) (k : N) : option entry :=
  match s with [] => None | e :: t => if e_key e =? k then Some e else es_find t k end.
Definition es_contains (s : eset) (k : N) : bool :=
  match es_find s k with Some _ => true | None => false end.

Definition es_drop (s : eset) (k : N) : eset := filter (fun e => negb (e_key e =? k)) s.

(* get: downcast_ref()? -> None on a tag mismatch *)
Definition es_get (s : eset) (k : N) : option N :=
  match es_find s k with
  | Some e => if e_tag e =? k then Some (e_val e) else None
  | None => None
  end.

(* get_mut followed by an assignment through the reference; returns the old value *)
Definition es_set (s : eset) (k v : N) : eset * option N :=
  match es_get s k with
  | Some old => (map (fun e => if e_key e =? k then Entry k k v else e) s, Some old)
  | None => (s, None)
  end.

(* insert: HashMap::insert, old value downcast with unwrap *)
Definition es_insert (s : eset) (k v : N) : res (eset * option N) :=
  match es_find s k with
  | Some e => if e_tag e =? k
              then ret (map (fun e' => if e_key e' =? k then Entry k k v else e') s, Some (e_val e))
              else panic UnwrapNone
  | None => ret (s ++ [Entry k k v], None)
  end.

(* get_or_insert / get_or_insert_with / get_or_insert_default: entry().or_insert_with, downcast_mut().unwrap() *)
Definition es_get_or_insert (s : eset) (k v : N) : res (eset * N) :=
  match es_find s k with
  | Some e => if e_tag e =? k then ret (s, e_val e) else panic UnwrapNone
  | None => ret (s ++ [Entry k k v], v)
  end.

Definition es_remove (s : eset) (k : N) : res (eset * option N) :=
  match es_find s k with
  | Some e => if e_tag e =? k then ret (es_drop s k, Some (e_val e)) else panic UnwrapNone
  | None => ret (s, None)
  end.

(* ---- abstract specification: a total map from type ids to optional values ---- *)
Definition amap := N -> option N.
Definition abs (s : eset) : amap := fun k => es_get s k.
Definition a_insert (m : amap) (k v : N) : amap := fun k' => if k' =? k then Some v else m k'.
Definition a_remove (m : amap) (k : N) : amap := fun k' => if k' =? k then None else m k'.
Definition a_empty : amap := fun _ => None.
