(* Indent.v -- src/common/utils.rs: rfind_and_count, find_indent_of, calc/cut_right_whitespace_with_tabstops,
   and the line splitter of src/parser/block/state.rs (generate_caches). *)
From MdIt Require Import Prims.
Local Open Scope list_scope.
Local Open Scope N_scope.

(* utils.rs:181-188 -- number of characters after the last occurrence of byte c (ASCII) *)
Fixpoint rfind_count_rev (rs : str) (c : N) (acc : N) : N :=
  match rs with
  | [] => acc
  | b :: t => if b =? c then acc
              else rfind_count_rev t c (if is_cont b then acc else acc + 1)
  end.
Definition rfind_and_count (s : str) (c : N) : N := rfind_count_rev (rev s) c 0.

(* utils.rs:197-216 -- find_indent_of(line, pos): (indent, pos of first non-space) *)
Fixpoint find_indent_loop (line rest : str) (pos indent : N) : N * N :=
  match rest with
  | 9 :: t => let bs_count := rfind_and_count (takeN pos line) 9 in
              find_indent_loop line t (pos + 1) (indent + (4 - bs_count mod 4))
  | 32 :: t => find_indent_loop line t (pos + 1) (indent + 1)
  | _ => (indent, pos)
  end.
Definition find_indent_of (line : str) (pos : N) : N * N :=
  find_indent_loop line (dropN pos line) pos 0.

(* utils.rs:252-283 -- calc_right_whitespace_with_tabstops(source, indent): (spaces, start)
   rs = reversed remaining prefix; its length is the byte position after the current char *)
Fixpoint calc_rw_loop (rs : str) (indent : Z) (start : N) : N * N :=
  match rs with
  | [] => (0, if (0 <? indent)%Z then 0 else start)
  | b :: t =>
    if (indent <=? 0)%Z then (0, start)
    else if is_cont b then calc_rw_loop t indent start     (* inside a multi-byte char: keep walking to its first byte *)
    else
      let pos := len t in
      if b =? 9 then
        let from_start := rfind_count_rev t 9 0 in
        let tab_width := (4 - Z.of_N (from_start mod 4))%Z in
        if (indent <? tab_width)%Z then (Z.to_N indent, start)
        else calc_rw_loop t (indent - tab_width)%Z pos
      else calc_rw_loop t (indent - 1)%Z pos
  end.
Definition calc_right_whitespace (source : str) (indent : Z) : N * N :=
  calc_rw_loop (rev source) indent (len source).

(* utils.rs:233-245 *)
Definition cut_right_whitespace (source : str) (indent : Z) : str :=
  let '(sp, start) := calc_right_whitespace source indent in
  repeatN 32 (N.to_nat sp) ++ dropN start source.

(* ------------------------------------------------------------------ *)
(* block/state.rs:121-170 -- generate_caches: split into lines (LF, CR, CRLF alike).
   Returns, for every line, its start offset and its text without the terminator.  A final
   terminator does not open another line; there is always at least one line. *)
Fixpoint split_lines_loop (s : str) (pos start : N) (cur : str) : list (N * str) :=
  match s with
  | [] => [(start, rev cur)]
  | c :: t =>
    if c =? 10 then
      match t with
      | [] => [(start, rev cur)]
      | _ :: _ => (start, rev cur) :: split_lines_loop t (pos + 1) (pos + 1) []
      end
    else if c =? 13 then
      match t with
      | [] => [(start, rev cur)]
      | d :: t' =>
        if d =? 10 then
          match t' with
          | [] => [(start, rev cur)]
          | _ :: _ => (start, rev cur) :: split_lines_loop t' (pos + 2) (pos + 2) []
          end
        else (start, rev cur) :: split_lines_loop t (pos + 1) (pos + 1) []
      end
    else split_lines_loop t (pos + 1) start (c :: cur)
  end.
Definition split_lines (src : str) : list (N * str) := split_lines_loop src 0 0 [].

(* leading blanks of a line: (number of bytes, column after them) *)
Fixpoint leading_ws (s : str) (bytes cols : N) : N * N :=
  match s with
  | 32 :: t => leading_ws t (bytes + 1) (cols + 1)
  | 9 :: t => leading_ws t (bytes + 1) (cols + (4 - cols mod 4))
  | _ => (bytes, cols)
  end.
