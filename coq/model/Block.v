(* Block.v -- src/parser/block/{mod,state}.rs and src/plugins/cmark/block/*.rs, plugins/html/html_block.rs.
   The document is a list of line records; every source position is (line, offset in line). *)
From Coq Require Import String.
From MdIt Require Import Prims Tables Escape NormRef Indent Mdurl LinkParse Tree HtmlRe.
Local Open Scope string_scope.
Local Open Scope list_scope.
Local Open Scope N_scope.

(* ------------------------------------------------------------------ *)
(* state                                                               *)

(* LineOffset, relative to the line's own start: line_start = 0, line_end = len text *)
Record lrec := LRec { l_text : str; l_first : N; l_indent : Z }.
Definition l_end (l : lrec) : N := len (l_text l).

Definition mk_line (text : str) : lrec :=
  let '(b, c) := leading_ws text 0 0 in LRec text b (Z.of_N c).

Record refentry := RefEntry { r_dest : str; r_title : option str }.
Definition refmap := list (str * refentry).       (* normalised key -> entry; first insertion kept *)

Fixpoint ref_get (m : refmap) (k : str) : option refentry :=
  match m with [] => None | (a, e) :: t => if list_eqb a k then Some e else ref_get t k end.
Definition ref_insert_first (m : refmap) (k : str) (e : refentry) : refmap :=
  match ref_get m k with Some _ => m | None => m ++ [(k, e)] end.

(* rule identifiers *)
Definition R_CODE := 20. Definition R_FENCE := 21. Definition R_QUOTE := 22. Definition R_HR := 23.
Definition R_LIST := 24. Definition R_REF := 25. Definition R_HEADING := 26. Definition R_LHEADING := 27.
Definition R_PARA := 28. Definition R_HTMLBLOCK := 29. Definition R_CUSTOM_A := 30. Definition R_CUSTOM_B := 31.
(* a mark used only as an alias shared by the two custom block rules (never a rule of its own) *)
Definition R_CUSTOM_GROUP := 32.

Record bcfg := BCfg { bc_chain : list N; bc_maxnest : N; bc_fence_prefix : str }.

Record bstate := BState {
  b_lines : list lrec; b_node : node; b_blk : N; b_line : nat; b_max : nat;
  b_tight : bool; b_list_indent : option N; b_level : N; b_refs : refmap }.

Definition set_line (st : bstate) (l : nat) : bstate :=
  BState (b_lines st) (b_node st) (b_blk st) l (b_max st) (b_tight st) (b_list_indent st) (b_level st) (b_refs st).
Definition set_node (st : bstate) (n : node) : bstate :=
  BState (b_lines st) n (b_blk st) (b_line st) (b_max st) (b_tight st) (b_list_indent st) (b_level st) (b_refs st).
Definition set_lines (st : bstate) (ls : list lrec) : bstate :=
  BState ls (b_node st) (b_blk st) (b_line st) (b_max st) (b_tight st) (b_list_indent st) (b_level st) (b_refs st).
Definition set_max (st : bstate) (m : nat) : bstate :=
  BState (b_lines st) (b_node st) (b_blk st) (b_line st) m (b_tight st) (b_list_indent st) (b_level st) (b_refs st).
Definition set_blk (st : bstate) (b : N) : bstate :=
  BState (b_lines st) (b_node st) b (b_line st) (b_max st) (b_tight st) (b_list_indent st) (b_level st) (b_refs st).
Definition set_tight (st : bstate) (t : bool) : bstate :=
  BState (b_lines st) (b_node st) (b_blk st) (b_line st) (b_max st) t (b_list_indent st) (b_level st) (b_refs st).
Definition set_list_indent (st : bstate) (li : option N) : bstate :=
  BState (b_lines st) (b_node st) (b_blk st) (b_line st) (b_max st) (b_tight st) li (b_level st) (b_refs st).
Definition set_level (st : bstate) (lv : N) : bstate :=
  BState (b_lines st) (b_node st) (b_blk st) (b_line st) (b_max st) (b_tight st) (b_list_indent st) lv (b_refs st).
Definition set_refs (st : bstate) (r : refmap) : bstate :=
  BState (b_lines st) (b_node st) (b_blk st) (b_line st) (b_max st) (b_tight st) (b_list_indent st) (b_level st) r.
Definition push_node (st : bstate) (n : node) : bstate := set_node st (push_child (b_node st) n).

Fixpoint set_nth {A} (l : list A) (n : nat) (x : A) : list A :=
  match l, n with
  | [], _ => []
  | _ :: t, O => x :: t
  | y :: t, S k => y :: set_nth t k x
  end.

(* ------------------------------------------------------------------ *)
(* accessors (block/state.rs:172-254)                                  *)

Definition line_rec (st : bstate) (l : nat) : res lrec :=
  match nth_error (b_lines st) l with Some r => ret r | None => panic IndexOOB end.

Definition is_empty (st : bstate) (l : nat) : bool :=
  match nth_error (b_lines st) l with Some r => l_end r <=? l_first r | None => false end.

Fixpoint skip_empty_from (n : nat) (st : bstate) (l : nat) : nat :=
  match n with
  | O => l
  | S k => if negb (Nat.eqb l (b_max st)) && is_empty st l then skip_empty_from k st (S l) else l
  end.
Definition skip_empty_lines (st : bstate) (from : nat) : nat :=
  skip_empty_from (S (b_max st - from)) st from.

Definition line_indent (st : bstate) (l : nat) : res Z :=
  do r <- line_rec st l; ret (l_indent r - Z.of_N (b_blk st))%Z.

Definition get_line (st : bstate) (l : nat) : res str :=
  do r <- line_rec st l;
  if l_first r <=? l_end r then ret (dropN (l_first r) (l_text r)) else panic SliceErr.

Definition pos_first (st : bstate) (l : nat) : res spos :=
  do r <- line_rec st l; ret (SRel l (l_first r)).
Definition pos_end (st : bstate) (l : nat) : res spos :=
  do r <- line_rec st l; ret (SRel l (l_end r)).

(* get_map(start_line, end_line); debug_assert!(start_line <= end_line) *)
Definition get_map (st : bstate) (sl el : nat) : res smap :=
  if Nat.leb sl el then do a <- pos_first st sl; do b <- pos_end st el; ret (Some (a, b))
  else panic AssertFail.

(* state.rs:212-237 (with the split-tab repair): cut lines begin..end *)
Fixpoint get_lines_loop (st : bstate) (n : nat) (line end_ : nat) (indent : N) (keep_last_lf : bool)
         (acc : str) (map_ : list (N * spos)) : res (str * list (N * spos)) :=
  match n with
  | O => ret (acc, map_)
  | S k =>
    if negb (Nat.ltb line end_) then ret (acc, map_)
    else
      do r <- line_rec st line;
      let add_lf := Nat.ltb (S line) end_ || keep_last_lf in
      if negb (l_first r <=? l_end r) then panic SliceErr else
      let '(sp, first) := calc_right_whitespace (takeN (l_first r) (l_text r)) (l_indent r - Z.of_N indent)%Z in
      let base := len acc in
      let virt := map (fun i => (base + N.of_nat i, SRel line (first - 1))) (seq 0 (N.to_nat sp)) in
      let acc' := acc ++ repeatN 32 (N.to_nat sp) ++ dropN first (l_text r) ++ (if add_lf then [10] else []) in
      get_lines_loop st k (S line) end_ indent keep_last_lf acc' (map_ ++ virt ++ [(base + sp, SRel line first)])
  end.
Definition get_lines (st : bstate) (b e : nat) (indent : N) (keep_last_lf : bool) : res (str * list (N * spos)) :=
  if Nat.leb b e then get_lines_loop st (e - b) b e indent keep_last_lf [] [] else panic AssertFail.

Definition first_byte (s : str) : option N := match s with c :: _ => Some c | [] => None end.
Definition all_sptab (s : str) : bool := forallb is_sptab s.
Fixpoint count_prefix (c : N) (s : str) : N :=
  match s with x :: t => if x =? c then 1 + count_prefix c t else 0 | [] => 0 end.

(* ------------------------------------------------------------------ *)
(* rules that never recurse: look-ahead (silent) verdicts               *)

(* fence.rs: opening line; returns (marker, len, params) *)
Definition fence_open (st : bstate) : res (option (N * N * str)) :=
  do ind <- line_indent st (b_line st);
  if (4 <=? ind)%Z then ret None else
  do line <- get_line st (b_line st);
  match line with
  | m :: _ =>
    if (m =? 126) || (m =? 96) then
      let n := count_prefix m line in
      if n <? 3 then ret None else
      let params := dropN n line in
      if (m =? 96) && mem 96 params then ret None else ret (Some (m, n, params))
    else ret None
  | [] => ret None
  end.

Definition quote_open (st : bstate) : res bool :=
  do ind <- line_indent st (b_line st);
  if (4 <=? ind)%Z then ret false else
  do line <- get_line st (b_line st);
  ret (match line with 62 :: _ => true | _ => false end).

(* hr.rs: returns (marker, count) *)
Definition hr_match (st : bstate) : res (option (N * N)) :=
  do ind <- line_indent st (b_line st);
  if (4 <=? ind)%Z then ret None else
  do line <- get_line st (b_line st);
  match line with
  | m :: t =>
    if (m =? 42) || (m =? 45) || (m =? 95) then
      if forallb (fun c => (c =? m) || is_sptab c) t then
        let cnt := 1 + len (filter (fun c => c =? m) t) in
        if cnt <? 3 then ret None else ret (Some (m, cnt))
      else ret None
    else ret None
  | [] => ret None
  end.

(* list.rs:83-121 *)
Definition skip_bullet_list_marker (s : str) : option N :=
  match s with
  | c :: t =>
    if (c =? 42) || (c =? 45) || (c =? 43) then
      match t with
      | [] => Some 1
      | d :: _ => if is_sptab d then Some 1 else None
      end
    else None
  | [] => None
  end.

Fixpoint ordered_loop (s : str) (pos : N) : option (N * str) :=
  (* pos already incremented for the byte at the head of s *)
  match s with
  | [] => None
  | c :: t =>
    if is_digit c then (if 10 <=? pos then None else ordered_loop t (pos + 1))
    else if (c =? 41) || (c =? 46) then Some (pos, t)
    else None
  end.
Definition skip_ordered_list_marker (s : str) : option N :=
  match s with
  | c :: t =>
    if is_digit c then
      match ordered_loop t 2 with
      | Some (pos, rest) =>
        match rest with
        | [] => Some pos
        | d :: _ => if is_sptab d then Some pos else None
        end
      | None => None
      end
    else None
  | [] => None
  end.

Definition is_list_kind (k : kind) : bool :=
  match k with KBullet _ | KOrdered _ _ => true | _ => false end.

(* list.rs:137-206: everything before `if silent { return true; }`;
   returns (marker_value, pos_after_marker, current_line) *)
Definition list_open (st : bstate) (silent : bool) : res (option (option N * N * str)) :=
  if silent && is_list_kind (n_kind (b_node st)) then ret None else
  do ind <- line_indent st (b_line st);
  if (4 <=? ind)%Z then ret None else
  do r <- line_rec st (b_line st);
  if match b_list_indent st with
     | Some li => (4 <=? l_indent r - Z.of_N li)%Z && (l_indent r <? Z.of_N (b_blk st))%Z
     | None => false
     end then ret None else
  let is_term := silent && (0 <=? ind)%Z in
  do cur <- get_line st (b_line st);
  match skip_ordered_list_marker cur with
  | Some p =>
    let v := parse_dec (takeN (p - 1) cur) 0 in
    if is_term && negb (v =? 1) then ret None
    else if is_term && all_sptab (dropN p cur) then ret None
    else ret (Some (Some v, p, cur))
  | None =>
    match skip_bullet_list_marker cur with
    | Some p =>
      if is_term && all_sptab (dropN p cur) then ret None else ret (Some (None, p, cur))
    | None => ret None
    end
  end.

(* heading.rs: returns (level, text_pos) *)
Fixpoint heading_scan (s : str) (idx level : N) : option (N * N) :=
  match s with
  | [] => Some (level, level)
  | c :: t =>
    if c =? 35 then (if 6 <? level + 1 then None else heading_scan t (idx + 1) (level + 1))
    else if is_sptab c then Some (level, idx)
    else None
  end.
Definition heading_open (st : bstate) : res (option (N * N * str)) :=
  do ind <- line_indent st (b_line st);
  if (4 <=? ind)%Z then ret None else
  do line <- get_line st (b_line st);
  match line with
  | 35 :: _ => match heading_scan line 0 0 with
               | Some (lv, tp) => ret (Some (lv, tp, line))
               | None => ret None
               end
  | _ => ret None
  end.

(* html_block.rs: index of the first matching sequence *)
Definition html_open (st : bstate) : res (option (N * str)) :=
  do ind <- line_indent st (b_line st);
  if (4 <=? ind)%Z then ret None else
  do line <- get_line st (b_line st);
  match line with
  | 60 :: _ => match html_block_seq line with Some i => ret (Some (i, line)) | None => ret None end
  | _ => ret None
  end.

(* harness custom block rules: a line that is "@@@" followed by blanks only *)
Definition custom_line (st : bstate) : res bool :=
  do ind <- line_indent st (b_line st);
  if (4 <=? ind)%Z then ret false else
  do line <- get_line st (b_line st);
  ret (starts_with (bs "@@@") line && all_sptab (dropN 3 line)).

(* rule(state, true) *)
Definition rule_silent (r : N) (st : bstate) : res bool :=
  if r =? R_CODE then ret false
  else if r =? R_FENCE then do o <- fence_open st; ret (match o with Some _ => true | None => false end)
  else if r =? R_QUOTE then quote_open st
  else if r =? R_HR then do o <- hr_match st; ret (match o with Some _ => true | None => false end)
  else if r =? R_LIST then do o <- list_open st true; ret (match o with Some _ => true | None => false end)
  else if r =? R_REF then ret false
  else if r =? R_HEADING then do o <- heading_open st; ret (match o with Some _ => true | None => false end)
  else if r =? R_LHEADING then ret false
  else if r =? R_PARA then ret false
  else if r =? R_HTMLBLOCK then
    do o <- html_open st; ret (match o with Some (i, _) => html_seq_terminates i | None => false end)
  else if (r =? R_CUSTOM_A) || (r =? R_CUSTOM_B) then custom_line st
  else ret false.

(* state.rs:172-179 -- test_rules_at_line at line l (callers restore state.line) *)
Fixpoint test_rules (chain : list N) (st : bstate) : res bool :=
  match chain with
  | [] => ret false
  | r :: t => do ok <- rule_silent r st; if ok then ret true else test_rules t st
  end.
Definition test_rules_at (cfg : bcfg) (st : bstate) (l : nat) : res bool :=
  test_rules (bc_chain cfg) (set_line st l).

(* ------------------------------------------------------------------ *)
(* paragraph-like continuation scan shared by paragraph / reference (and lheading with its own check) *)

Fixpoint para_scan (cfg : bcfg) (st : bstate) (n : nat) (next : nat) : res nat :=
  (* next has just been incremented *)
  match n with
  | O => ret next
  | S k =>
    if Nat.leb (b_max st) next || is_empty st next then ret next else
    do ind <- line_indent st next;
    if (4 <=? ind)%Z then para_scan cfg st k (S next) else
    do r <- line_rec st next;
    if (l_indent r <? 0)%Z then para_scan cfg st k (S next) else
    do term <- test_rules_at cfg st next;
    if term then ret next else para_scan cfg st k (S next)
  end.

Definition setext_underline (s : str) : option N :=
  match s with
  | m :: t =>
    if (m =? 45) || (m =? 61) then
      let rest := dropN (count_prefix m t) t in
      if all_sptab rest then Some (if m =? 61 then 1 else 2) else None
    else None
  | [] => None
  end.

Fixpoint lheading_scan (cfg : bcfg) (st : bstate) (n : nat) (next : nat) : res (nat * N) :=
  match n with
  | O => ret (next, 0)
  | S k =>
    if Nat.leb (b_max st) next || is_empty st next then ret (next, 0) else
    do ind <- line_indent st next;
    if (4 <=? ind)%Z then lheading_scan cfg st k (S next) else
    do line <- get_line st next;
    match (if (0 <=? ind)%Z then setext_underline line else None) with
    | Some lv => ret (next, lv)
    | None =>
      do r <- line_rec st next;
      if (l_indent r <? 0)%Z then lheading_scan cfg st k (S next) else
      do term <- test_rules_at cfg st next;
      if term then ret (next, 0) else lheading_scan cfg st k (S next)
    end
  end.

(* ------------------------------------------------------------------ *)
(* reference.rs:100-262, on the extracted text                          *)

Fixpoint ref_label_end (s : str) (pos lines : N) : option (N * N) :=
  (* s = text after '[' ; pos = its position *)
  match s with
  | [] => None
  | c :: t =>
    if c =? 91 then None
    else if c =? 93 then Some (pos, lines)
    else if c =? 10 then ref_label_end t (pos + 1) (lines + 1)
    else if c =? 92 then
      match t with
      | [] => None
      | d :: t' => ref_label_end t' (pos + 2) (if d =? 10 then lines + 1 else lines)
      end
    else ref_label_end t (pos + 1) lines
  end.

Fixpoint skip_ws_nl (s : str) (pos lines : N) : N * N :=
  match s with
  | c :: t => if is_sptab c then skip_ws_nl t (pos + 1) lines
              else if c =? 10 then skip_ws_nl t (pos + 1) (lines + 1)
              else (pos, lines)
  | [] => (pos, lines)
  end.

(* trailing check; returns Some (title, lines) or None (not a reference) *)
Fixpoint ref_trailing (fuel : nat) (s : str) (pos : N) (title : option str) (lines : N)
         (dest_end_pos dest_end_lines : N) : option (option str * N) :=
  match fuel with
  | O => None
  | S f =>
    match dropN pos s with
    | [] => Some (title, lines)
    | c :: _ =>
      if is_sptab c then ref_trailing f s (pos + 1) title lines dest_end_pos dest_end_lines
      else if c =? 10 then Some (title, lines)
      else match title with
           | Some _ => ref_trailing f s dest_end_pos None dest_end_lines dest_end_pos dest_end_lines
           | None => None
           end
    end
  end.

(* returns Some (label, href, title, lines) *)
Definition parse_reference (s : str) : option (str * str * option str * N) :=
  match s with
  | _ :: t =>
    match ref_label_end t 1 0 with
    | None => None
    | Some (label_end, lines) =>
      match dropN (label_end + 1) s with
      | 58 :: after =>
        let '(pos, lines) := skip_ws_nl after (label_end + 2) lines in
        match parse_link_destination s pos (len s) with
        | None => None
        | Some d =>
          if pos =? f_pos d then None else
          let href := normalize_link (f_str d) in
          if negb (validate_link href) then None else
          let pos := f_pos d in
          let lines := lines + f_lines d in
          let '(pos2, lines2) := skip_ws_nl (dropN pos s) pos lines in
          let '(title, pos3, lines3) :=
              if pos2 =? pos then (None, pos2, lines2)
              else match parse_link_title s pos2 (len s) with
                   | Some ti => (Some (f_str ti), f_pos ti, lines2 + f_lines ti)
                   | None => (None, pos, lines)
                   end in
          match ref_trailing (S (S (length s)) * 2) s pos3 title lines3 pos lines with
          | None => None
          | Some (title', lines') =>
            let label := normalize_reference (sub s 1 label_end) in
            match label with
            | [] => None
            | _ => Some (label, href, title', lines')
            end
          end
        end
      | _ => None
      end
    end
  | [] => None
  end.

(* quick pre-check of reference.rs:66-81 on the first line *)
Fixpoint ref_precheck (s : str) : bool :=
  match s with
  | [] => true
  | c :: t =>
    if c =? 92 then (match t with [] => true | _ :: t' => ref_precheck t' end)
    else if c =? 93 then (match t with 58 :: _ => true | _ => false end)
    else ref_precheck t
  end.

(* ------------------------------------------------------------------ *)
(* list helper: mark_tight_paragraphs                                   *)
Definition mark_tight (cs : list node) : list node :=
  flat_map (fun c => match n_kind c with KParagraph => n_children c | _ => [c] end) cs.

(* heading.rs:64-80 -- end of the heading text (cut the closing sequence) *)
Definition heading_text_max (line : str) (text_pos : N) : N :=
  (* chars after text_pos's char: the iterator has consumed the char at text_pos (if any) *)
  let rest := dropN (text_pos + 1) line in
  let base := text_pos + 1 in
  let r1 := rev rest in
  let after_sp := drop (N.to_nat (len (fst (span is_sptab r1)))) r1 in
  let after_hash := drop (N.to_nat (len (fst (span (fun c => c =? 35) after_sp)))) after_sp in
  match after_hash with
  | [] => text_pos
  | c :: _ => if is_sptab c then base + len after_hash else len line
  end.

(* ------------------------------------------------------------------ *)
(* the rules proper, parametrised by the nested tokenizer                *)

Section Rules.
Variable cfg : bcfg.
Variable tokenize_rec : bstate -> res bstate.

Definition rule_code (st : bstate) : res (bstate * bool) :=
  do ind <- line_indent st (b_line st);
  if (ind <? 4)%Z then ret (st, false) else
  let fix scan (n : nat) (next last : nat) : res nat :=
      match n with
      | O => ret last
      | S k =>
        if negb (Nat.ltb next (b_max st)) then ret last
        else if is_empty st next then scan k (S next) last
        else do i <- line_indent st next;
             if (4 <=? i)%Z then scan k (S next) (S next) else ret last
      end in
  do last <- scan (S (b_max st)) (S (b_line st)) (S (b_line st));
  let start := b_line st in
  do cm <- get_lines st start last (4 + b_blk st) false;
  match snd cm with
  | [] => panic IndexOOB
  | (_, p0) :: _ =>
    do pe <- pos_end st (last - 1);
    let node := mk (KCodeBlock (fst cm ++ [10])) (Some (p0, pe)) [] in
    ret (push_node (set_line st last) node, true)
  end.

Definition rule_fence (st : bstate) : res (bstate * bool) :=
  do o <- fence_open st;
  match o with
  | None => ret (st, false)
  | Some (marker, n, params) =>
    let start := b_line st in
    let fix search (k : nat) (next : nat) : res (nat * bool) :=
        (* next already incremented *)
        match k with
        | O => ret (next, false)
        | S k' =>
          if Nat.leb (b_max st) next then ret (next, false) else
          do line <- get_line st next;
          do ind <- line_indent st next;
          if negb (match line with [] => true | _ => false end) && (ind <? 0)%Z then ret (next, false)
          else match line with
               | c :: _ =>
                 if negb (c =? marker) then search k' (S next)
                 else if (4 <=? ind)%Z then search k' (S next)
                 else
                   let len_end := count_prefix marker line in
                   if len_end <? n then search k' (S next)
                   else if all_sptab (dropN len_end line) then ret (next, true)
                   else search k' (S next)
               | [] => search k' (S next)
               end
        end in
    do nb <- search (S (b_max st)) (S start);
    let '(next, have_end) := nb in
    do r0 <- line_rec st start;
    do cm <- get_lines st (S start) next (Z.to_N (l_indent r0)) true;
    do mp <- get_map st start (if have_end then next else next - 1);
    let node := mk (KFence params marker n (fst cm) (bc_fence_prefix cfg)) mp [] in
    ret (push_node (set_line st (if have_end then S next else next)) node, true)
  end.

(* blockquote.rs:66-146: rewrite the offsets of the quoted lines; returns (lines', next_line) *)
Fixpoint quote_scan (st0 : bstate) (n : nat) (lines : list lrec) (next : nat) (last_empty : bool)
  : res (list lrec * nat) :=
  match n with
  | O => ret (lines, next)
  | S k =>
    if negb (Nat.ltb next (b_max st0)) then ret (lines, next) else
    let st := set_lines st0 lines in
    do ind <- line_indent st next;
    do line <- get_line st next;
    do r <- line_rec st next;
    match line with
    | [] => ret (lines, next)
    | c :: rest =>
      if (c =? 62) && negb (ind <? 0)%Z then
        let pos_after := l_first r + 1 in
        let '(ia, fn) := find_indent_of (l_text r) pos_after in
        let last_empty' := fn =? l_end r in
        let ia' := match rest with
                   | d :: _ => if is_sptab d then ia - 1 else ia
                   | [] => ia
                   end in
        quote_scan st0 k (set_nth lines next (LRec (l_text r) fn (Z.of_N ia'))) (S next) last_empty'
      else if last_empty then ret (lines, next)
      else
        do term <- test_rules_at cfg st next;
        if term then
          ret (if b_blk st0 =? 0 then lines
               else set_nth lines next (LRec (l_text r) (l_first r) (l_indent r - Z.of_N (b_blk st0))%Z), next)
        else quote_scan st0 k (set_nth lines next (LRec (l_text r) (l_first r) (-1)%Z)) (S next) last_empty
    end
  end.

Definition rule_quote (st : bstate) : res (bstate * bool) :=
  do ok <- quote_open st;
  if negb ok then ret (st, false) else
  let start := b_line st in
  let orig := b_lines st in
  do ln <- quote_scan st (S (b_max st)) orig start false;
  let '(lines', next) := ln in
  let inner := BState lines' (mk KBlockquote None []) 0 start next (b_tight st) (b_list_indent st)
                      (b_level st + 1) (b_refs st) in
  do inner' <- tokenize_rec inner;
  let st' := BState orig (b_node st) (b_blk st) (b_line inner') (b_max st) (b_tight inner')
                    (b_list_indent inner') (b_level st) (b_refs inner') in
  do mp <- get_map st' start (b_line inner' - 1);
  ret (push_node st' (set_map (b_node inner') mp), true).

Definition rule_hr (st : bstate) : res (bstate * bool) :=
  do o <- hr_match st;
  match o with
  | None => ret (st, false)
  | Some (m, cnt) =>
    do mp <- get_map st (b_line st) (b_line st);
    ret (push_node (set_line st (S (b_line st))) (mk (KHr m cnt) mp []), true)
  end.

Definition last_byte (s : str) : option N := match rev s with c :: _ => Some c | [] => None end.

(* list.rs:229-350: the item loop.  st carries the list node as b_node. *)
Fixpoint list_items (n : nat) (st : bstate) (ordered : bool) (marker_char : N) (pos_after_marker : N)
         (next : nat) (prev_empty_end tight : bool) : res (bstate * nat * bool) :=
  match n with
  | O => fail Hang
  | S k =>
    if negb (Nat.ltb next (b_max st)) then ret (st, next, tight) else
    do r <- line_rec st next;
    let initial := Z.to_N (l_indent r) + pos_after_marker in
    let '(ia, fn) := find_indent_of (l_text r) (pos_after_marker + l_first r) in
    let reached_end := fn =? l_end r in
    let indent_nonspace := initial + ia in
    let ia' := if reached_end then 1 else if 4 <? ia then 1 else ia in
    let indent := initial + ia' in
    let list_node := b_node st in
    let lines1 := set_nth (b_lines st) next (LRec (l_text r) fn (Z.of_N indent_nonspace)) in
    let st1 := BState lines1 (mk KItem None []) indent (b_line st) (b_max st) true (Some (b_blk st))
                      (b_level st) (b_refs st) in
    do st2 <-
       (if reached_end && is_empty st1 (S next)
        then ret (set_line st1 (if Nat.ltb (b_line st + 2) (b_max st) then (b_line st + 2)%nat else b_max st))
        else do x <- tokenize_rec (set_level (set_line st1 next) (b_level st + 1));
             ret (set_level x (b_level st)));
    let tight' := if negb (b_tight st2) || prev_empty_end then false else tight in
    if Nat.ltb (b_line st2) next then panic Overflow else
    let prev_empty_end' := Nat.ltb 1 (b_line st2 - next) && is_empty st2 (b_line st2 - 1) in
    let st3 := BState (b_lines st) list_node (b_blk st) (b_line st2) (b_max st) (b_tight st)
                      (b_list_indent st) (b_level st) (b_refs st2) in
    let end_line := b_line st2 in
    if Nat.eqb end_line 0 then panic Overflow else
    do mp <- get_map st3 next (end_line - 1);
    let st4 := push_node st3 (set_map (b_node st2) mp) in
    let next' := end_line in
    if Nat.leb (b_max st4) next' then ret (st4, next', tight') else
    do ind <- line_indent st4 next';
    if (ind <? 0)%Z then ret (st4, next', tight') else
    if (4 <=? ind)%Z then ret (st4, next', tight') else
    do term <- test_rules_at cfg st4 next';
    let st5 := set_line st4 next' in
    if term then ret (st5, next', tight') else
    do cur <- get_line st5 next';
    match (if ordered then skip_ordered_list_marker cur else skip_bullet_list_marker cur) with
    | None => ret (st5, next', tight')
    | Some p =>
      match last_byte (takeN p cur) with
      | None => panic UnwrapNone
      | Some mc =>
        if negb (mc =? marker_char) then ret (st5, next', tight')
        else list_items k st5 ordered marker_char p next' prev_empty_end' tight'
      end
    end
  end.

Definition rule_list (st : bstate) : res (bstate * bool) :=
  do o <- list_open st false;
  match o with
  | None => ret (st, false)
  | Some (mv, p, cur) =>
    match last_byte (takeN p cur) with
    | None => panic UnwrapNone
    | Some mc =>
      let start := b_line st in
      let old_node := b_node st in
      let new_node := match mv with
                      | Some v => mk (KOrdered v mc) None []
                      | None => mk (KBullet mc) None []
                      end in
      do x <- list_items (S (b_max st)) (set_node st new_node)
                         (match mv with Some _ => true | None => false end) mc p start false true;
      let '(st', next, tight) := x in
      let ln := b_node st' in
      let ln' := if tight then set_children ln (map (fun it => set_children it (mark_tight (n_children it))) (n_children ln))
                 else ln in
      if Nat.eqb next 0 then panic Overflow else
      do mp <- get_map st' start (next - 1);
      ret (set_node st' (push_child old_node (set_map ln' mp)), true)
    end
  end.

Definition rule_reference (st : bstate) : res (bstate * bool) :=
  do ind <- line_indent st (b_line st);
  if (4 <=? ind)%Z then ret (st, false) else
  do line <- get_line st (b_line st);
  match line with
  | 91 :: t =>
    if negb (ref_precheck t) then ret (st, false) else
    let start := b_line st in
    do next <- para_scan cfg st (S (b_max st)) (S start);
    do cm <- get_lines st start next (b_blk st) false;
    let s := trim_str (fst cm) in
    match parse_reference s with
    | None => ret (st, false)
    | Some (label, href, title, lines) =>
      let key := normalize_reference label in
      ret (set_line (set_refs st (ref_insert_first (b_refs st) key (RefEntry href title)))
                    (start + N.to_nat lines + 1), true)
    end
  | _ => ret (st, false)
  end.

Definition rule_heading (st : bstate) : res (bstate * bool) :=
  do o <- heading_open st;
  match o with
  | None => ret (st, false)
  | Some (level, text_pos, line) =>
    let text_max := heading_text_max line text_pos in
    do r <- line_rec st (b_line st);
    if negb (text_pos <=? text_max) then panic SliceErr else
    let content := sub line text_pos text_max in
    let mapping := [(0, SRel (b_line st) (l_first r + text_pos))] in
    do mp <- get_map st (b_line st) (b_line st);
    let node := mk (KATX level) mp [mk (KInlineRoot content mapping) None []] in
    ret (push_node (set_line st (S (b_line st))) node, true)
  end.

Definition rule_lheading (st : bstate) : res (bstate * bool) :=
  do ind <- line_indent st (b_line st);
  if (4 <=? ind)%Z then ret (st, false) else
  let start := b_line st in
  do nl <- lheading_scan cfg st (S (b_max st)) (S start);
  let '(next, level) := nl in
  if level =? 0 then ret (st, false) else
  do cm <- get_lines st start next (b_blk st) false;
  let st' := set_line st (S next) in
  do mp <- get_map st' start next;
  let node := mk (KSetext level (if level =? 2 then 45 else 61)) mp
                 [mk (KInlineRoot (fst cm) (snd cm)) None []] in
  ret (push_node st' node, true).

Definition rule_paragraph (st : bstate) : res (bstate * bool) :=
  let start := b_line st in
  do next <- para_scan cfg st (S (b_max st)) (S start);
  do cm <- get_lines st start next (b_blk st) false;
  let st' := set_line st next in
  do mp <- get_map st' start (next - 1);
  let node := mk KParagraph mp [mk (KInlineRoot (fst cm) (snd cm)) None []] in
  ret (push_node st' node, true).

Definition rule_html_block (st : bstate) : res (bstate * bool) :=
  do o <- html_open st;
  match o with
  | None => ret (st, false)
  | Some (seq_i, line_text) =>
    let start := b_line st in
    let fix roll (k : nat) (next : nat) : res nat :=
        match k with
        | O => ret next
        | S k' =>
          if negb (Nat.ltb next (b_max st)) then ret next else
          do lt <- get_line st next;
          do ind <- line_indent st next;
          if negb (match lt with [] => true | _ => false end) && (ind <? 0)%Z then ret next else
          if html_seq_close seq_i lt then ret (match lt with [] => next | _ => S next end)
          else roll k' (S next)
        end in
    do next <- (if html_seq_close seq_i line_text then ret (S start) else roll (S (b_max st)) (S start));
    let st' := set_line st next in
    do cm <- get_lines st' start next (b_blk st) true;
    do mp <- get_map st' start (next - 1);
    ret (push_node st' (mk (KHtmlBlock (fst cm)) mp []), true)
  end.

Definition rule_custom (st : bstate) : res (bstate * bool) :=
  do ok <- custom_line st;
  if negb ok then ret (st, false) else
  do mp <- get_map st (b_line st) (b_line st);
  ret (push_node (set_line st (S (b_line st))) (mk KCustomBlock mp []), true).

(* rule(state, false) *)
Definition rule_real (r : N) (st : bstate) : res (bstate * bool) :=
  if r =? R_CODE then rule_code st
  else if r =? R_FENCE then rule_fence st
  else if r =? R_QUOTE then rule_quote st
  else if r =? R_HR then rule_hr st
  else if r =? R_LIST then rule_list st
  else if r =? R_REF then rule_reference st
  else if r =? R_HEADING then rule_heading st
  else if r =? R_LHEADING then rule_lheading st
  else if r =? R_PARA then rule_paragraph st
  else if r =? R_HTMLBLOCK then rule_html_block st
  else if (r =? R_CUSTOM_A) || (r =? R_CUSTOM_B) then rule_custom st
  else ret (st, false).

Fixpoint try_rules (chain : list N) (st : bstate) : res (bstate * bool) :=
  match chain with
  | [] => ret (st, false)
  | r :: t =>
    do x <- rule_real r st;
    if snd x then
      (if Nat.ltb (b_line st) (b_line (fst x)) then ret x else panic AssertFail)
    else try_rules t st
  end.

(* block/mod.rs:31-93 *)
Fixpoint tok_loop (n : nat) (st : bstate) (has_empty : bool) : res bstate :=
  if negb (Nat.ltb (b_line st) (b_max st)) then ret st else
  match n with
  | O => fail Hang
  | S k =>
    let line := skip_empty_lines st (b_line st) in
    let st := set_line st line in
    if Nat.leb (b_max st) line then ret st else
    do ind <- line_indent st line;
    if (ind <? 0)%Z then ret st else
    if bc_maxnest cfg <=? b_level st then ret (set_line st (b_max st)) else
    do x <- try_rules (bc_chain cfg) st;
    do st1 <-
       (if snd x then ret (fst x)
        else
          do content <- get_line st line;
          do r <- line_rec st line;
          let node := mk (KInlineRoot (content ++ [10]) [(0, SRel line (l_first r))]) None [] in
          ret (set_line (push_node st node) (S line)));
    let st2 := set_tight st1 (negb has_empty) in
    let has_empty1 := if is_empty st2 (b_line st2 - 1) then true else has_empty in
    if Nat.ltb (b_line st2) (b_max st2) && is_empty st2 (b_line st2)
    then tok_loop k (set_line st2 (S (b_line st2))) true
    else tok_loop k st2 has_empty1
  end.

Definition tokenize_body (st : bstate) : res bstate :=
  tok_loop (S (b_max st - b_line st)) st false.

End Rules.

(* recursion depth is bounded by fuel; every nested call gets fuel - 1 *)
Fixpoint btokenize (fuel : nat) (cfg : bcfg) (st : bstate) : res bstate :=
  match fuel with
  | O => fail OutOfFuel
  | S f => tokenize_body cfg (btokenize f cfg) st
  end.

(* block/mod.rs:97-101 + BlockState::new *)
Definition block_parse (fuel : nat) (cfg : bcfg) (texts : list str) (root : node) (refs : refmap)
  : res (node * refmap) :=
  let lines := map mk_line texts in
  let st := BState lines root 0 0 (length lines) false None 0 refs in
  do st' <- btokenize fuel cfg st;
  ret (b_node st', b_refs st').
