(* NormRef.v -- utils.rs:128-168 normalize_reference: trim, collapse whitespace runs, lowercase then uppercase *)
From MdIt Require Import Prims Tables.
Local Open Scope list_scope.
Local Open Scope N_scope.

Definition is_ws_cp (c : N) : bool := mem c ws_table.

Fixpoint assoc_cp (c : N) (t : list (N * list N)) : option (list N) :=
  match t with
  | [] => None
  | (k, v) :: r => if k =? c then Some v else assoc_cp c r
  end.
Definition lower_cp (c : N) : list N := match assoc_cp c lower_table with Some v => v | None => [c] end.
Definition upper_cp (c : N) : list N := match assoc_cp c upper_table with Some v => v | None => [c] end.

Fixpoint drop_ws (cs : list N) : list N :=
  match cs with c :: t => if is_ws_cp c then drop_ws t else cs | [] => [] end.
Definition trim_cps (cs : list N) : list N := rev (drop_ws (rev (drop_ws cs))).

(* SPACE_RE.replace_all(.., " ") *)
Fixpoint collapse_ws (cs : list N) (in_ws : bool) : list N :=
  match cs with
  | [] => []
  | c :: t => if is_ws_cp c then (if in_ws then collapse_ws t true else 32 :: collapse_ws t true)
              else c :: collapse_ws t false
  end.

(* str::to_lowercase maps Sigma to final sigma in word-final position; to_uppercase maps both
   sigmas back to Sigma, so the composite equals the per-character composite (checked on the
   generated tables in proofs/NormRefProofs.v). *)
Definition normalize_cps (cs : list N) : list N :=
  flat_map upper_cp (flat_map lower_cp (collapse_ws (trim_cps cs) false)).

Definition normalize_reference (s : str) : str := unchars (normalize_cps (chars s)).

(* str::trim: the sub-slice of s without its leading and trailing White_Space characters (a slice, as in Rust:
   nothing is re-encoded) *)
Fixpoint trim_start_fuel (f : nat) (s : str) : str :=
  match f with
  | O => s
  | S f' => match decode1 s with
            | Some (c, n) => if is_ws_cp c then trim_start_fuel f' (dropN n s) else s
            | None => s
            end
  end.
Fixpoint trim_end_fuel (f : nat) (s : str) : str :=
  match f with
  | O => s
  | S f' =>
    let p := last_char_start 4 s (len s) in
    if p <? len s then
      match decode1 (dropN p s) with
      | Some (c, _) => if is_ws_cp c then trim_end_fuel f' (takeN p s) else s
      | None => s
      end
    else s
  end.
Definition trim_str (s : str) : str :=
  let t := trim_start_fuel (length s) s in trim_end_fuel (length t) t.
