(* Regex.v -- a small backtracking matcher with the leftmost-first (Perl / `regex` crate)
   semantics, over code points.  Structurally recursive on the expression; the iteration of
   a star is bounded by the remaining input (an iteration that consumes nothing ends it). *)
From MdIt Require Import Prims Tables NormRef.
Local Open Scope list_scope.
Local Open Scope N_scope.

Inductive re :=
| REps
| RChr (p : N -> bool)          (* one code point satisfying p *)
| RSeq (a b : re)
| RAlt (a b : re)               (* prefers a *)
| RStar (a : re)                (* greedy *)
| RStarLazy (a : re)
| RRep (a : re) (lo hi : nat)   (* greedy {lo,hi} *)
| REnd.                         (* $ : end of text *)

Definition orelse {A} (a b : option A) : option A := match a with Some _ => a | None => b end.

Fixpoint rmatch (r : re) (s : list N) (k : list N -> option (list N)) : option (list N) :=
  match r with
  | REps => k s
  | RChr p => match s with c :: t => if p c then k t else None | [] => None end
  | RSeq a b => rmatch a s (fun s' => rmatch b s' k)
  | RAlt a b => orelse (rmatch a s k) (rmatch b s k)
  | RStar a =>
    (fix loop (n : nat) (s : list N) : option (list N) :=
       match n with
       | O => k s
       | S n' => orelse (rmatch a s (fun s' => if Nat.ltb (length s') (length s) then loop n' s' else None)) (k s)
       end) (length s) s
  | RStarLazy a =>
    (fix loop (n : nat) (s : list N) : option (list N) :=
       match n with
       | O => k s
       | S n' => orelse (k s) (rmatch a s (fun s' => if Nat.ltb (length s') (length s) then loop n' s' else None))
       end) (length s) s
  | RRep a lo hi =>
    (fix loop (lo hi : nat) (s : list N) : option (list N) :=
       match hi with
       | O => k s
       | S hi' =>
         match lo with
         | O => orelse (rmatch a s (fun s' => loop O hi' s')) (k s)
         | S lo' => rmatch a s (fun s' => loop lo' hi' s')
         end
       end) lo hi s
  | REnd => match s with [] => k s | _ => None end
  end.

(* anchored match at the start of s: remaining input after the match *)
Definition match_prefix (r : re) (s : list N) : option (list N) := rmatch r s (fun x => Some x).
Definition is_match_prefix (r : re) (s : list N) : bool :=
  match match_prefix r s with Some _ => true | None => false end.

(* unanchored search *)
Fixpoint is_match_anywhere (r : re) (s : list N) : bool :=
  is_match_prefix r s || match s with [] => false | _ :: t => is_match_anywhere r t end.

(* ---- building blocks ---- *)
Definition rseq (l : list re) : re := fold_right RSeq REps l.
Fixpoint ralt (l : list re) : re :=
  match l with [] => RChr (fun _ => false) | [x] => x | x :: t => RAlt x (ralt t) end.
Definition rchar (c : N) : re := RChr (fun x => x =? c).
Definition rlit (s : list N) : re := rseq (map rchar s).
Definition ropt (a : re) : re := RAlt a REps.
Definition rplus (a : re) : re := RSeq a (RStar a).

(* (?i) with Unicode simple case folding: besides the ASCII pair, 's' also matches U+017F and
   'k' also matches U+212A *)
Definition ci_eq (pat c : N) : bool :=
  let p := to_ascii_lower pat in
  (to_ascii_lower c =? p) && (c <? 128)
  || ((p =? 115) && (c =? 0x17F)) || ((p =? 107) && (c =? 0x212A)).
Definition rchar_ci (c : N) : re := RChr (ci_eq c).
Definition rlit_ci (s : list N) : re := rseq (map rchar_ci s).

Definition rws : re := RChr is_ws_cp.                 (* \s *)
Definition rany : re := RChr (fun _ => true).         (* [\s\S] *)
