(* Dispatch.v -- the line protocol of DESIGN.md section 4.1, on the model side.
   dispatch takes one command line (bytes) and returns one result line (bytes); the
   OCaml driver only converts between OCaml strings and byte lists. *)
From Coq Require Import String.
From MdIt Require Import Prims Tables Mdurl SourceMap Ruler Escape NormRef Indent HtmlRe ErasedSet Tree Render Core Dump.
Local Open Scope string_scope.
Local Open Scope list_scope.
Local Open Scope N_scope.

Definition is1 (s : str) : bool := list_eqb s (bs "1").
Definition arg_hex (s : str) : str := if list_eqb s (bs "-") then [] else unhexs s.

Definition cmd_enc (a : list str) : str :=
  match a with
  | [k; base; safe; src] =>
    let set := aset_add_many (if is1 base then aset_new else aset_empty)
                             (filter (fun b => b <? 128) (arg_hex safe)) in
    bs "ok " ++ hexs (encode set (is1 k) (arg_hex src))
  | _ => bs "error args"
  end.

Definition panic_name (k : panic_kind) : str :=
  match k with
  | IndexOOB => bs "IndexOOB" | SliceErr => bs "Slice" | UnwrapNone => bs "UnwrapNone"
  | Overflow => bs "Overflow" | AssertFail => bs "Assert" | Cyclic => bs "Cyclic"
  | Missing => bs "Missing" | Unimplemented => bs "Unimplemented" | Borrow => bs "Borrow"
  end.
Definition err_name (e : err) : str :=
  match e with Panic k => panic_name k | Hang => bs "HANG" | OutOfFuel => bs "FUEL" end.

(* ---- ruler script ---- *)
Definition tl_str (s : str) : str := match s with [] => [] | _ :: t => t end.
Definition num (s : str) : N := parse_dec s 0.

Definition ruler_mod (r : ruler) (m : str) : ruler :=
  match m with
  | 98 :: v => r_before (num v) r      (* b *)
  | 102 :: v => r_after (num v) r      (* f *)
  | 108 :: v => r_alias (num v) r      (* l *)
  | 113 :: v => r_require (num v) r    (* q *)
  | 66 :: _ => r_before_all r          (* B *)
  | 65 :: _ => r_after_all r           (* A *)
  | _ => r
  end.

Definition ruler_op (st : ruler * list str) (op : str) : ruler * list str :=
  let '(r, out) := st in
  match op with
  | 97 :: rest =>                      (* a<mark>,<val>[:mod]* *)
    match split 58 rest with
    | head :: mods =>
      match split 44 head with
      | [mk; vl] => (fold_left ruler_mod mods (r_add r (num mk) (num vl)), out)
      | _ => st
      end
    | [] => st
    end
  | 114 :: v => (r_remove r (num v), out)                                   (* r *)
  | 99 :: v => (r, out ++ [bs "c" ++ (if r_contains r (num v) then bs "1" else bs "0")])   (* c *)
  | 105 :: _ =>                                                            (* i *)
    let '(r', x) := r_iter r in
    (r', out ++ [match x with
                 | inr vs => bs "i[" ++ join (bs ",") (map dec vs) ++ bs "]"
                 | inl e => bs "iP" ++ err_name e
                 end])
  | 100 :: _ =>                                                            (* d *)
    let '(r', x) := r_debug r in
    (r', out ++ [match x with
                 | inr ps => bs "d[" ++ join (bs ",") (map (fun p => bs "(" ++ dec (N.of_nat (fst p)) ++ bs "," ++ dec (snd p) ++ bs ")") ps) ++ bs "]"
                 | inl e => bs "dP" ++ err_name e
                 end])
  | _ => st
  end.

Definition cmd_ruler (a : list str) : str :=
  match a with
  | [script] => bs "ok " ++ join (bs ";") (snd (fold_left ruler_op (split 59 script) (ruler_new, [])))
  | _ => bs "error args"
  end.

(* parse <cfg> <nest> <flags> <src hex> *)
Definition build_md (cfg : str) (nest : N) : md :=
  add_plugins (with_maxnest md_new nest) (filter (fun c => negb (c =? 45)) cfg).

Definition cmd_parse (a : list str) : str :=
  match a with
  | [cfg; nest; flags; src] =>
    let m := build_md cfg (num nest) in
    snd (parse_report (default_fuel m) m (arg_hex src) flags)
  | _ => bs "error args"
  end.

(* hist <nest> <flags> <script> *)
Definition hist_op (flags : str) (st : md * list str) (op : str) : md * list str :=
  let '(m, out) := st in
  match op with
  | 43 :: rest => (add_plugins m rest, out)                                  (* + *)
  | 45 :: rest => (fold_left remove_plugin_rule rest m, out)                 (* - *)
  | 63 :: rest => (m, out ++ [bs "?" ++ flat_map (fun c => b01 (has_plugin_rule m c)) rest])   (* ? *)
  | 80 :: rest =>                                                           (* P *)
    let '(m', r) := parse_report (default_fuel m) m (arg_hex rest) flags in
    (m', out ++ [bs "P[" ++ r ++ bs "]"])
  | 78 :: rest => (with_maxnest m (num rest), out)                             (* N: md.max_nesting = k *)
  | 68 :: _ =>                                                              (* D *)
    let x := do _ <- snd (r_debug (md_core m)); do _ <- snd (r_debug (md_block m)); snd (r_debug (md_inline m)) in
    (m, out ++ [match x with inr _ => bs "D[ok true]" | inl e => bs "D[panic " ++ err_name e ++ bs "]" end])
  | _ => st
  end.

Definition cmd_hist (a : list str) : str :=
  match a with
  | [nest; flags; script] =>
    bs "ok " ++ join (bs ";") (snd (fold_left (hist_op flags) (split 59 script) (with_maxnest md_new (num nest), [])))
  | _ => bs "error args"
  end.

(* eset <script> *)
Definition show_val (t v : N) : str := if t <? 2 then bs "z" else dec v.
Definition show_opt (t : N) (o : option N) : str := match o with Some v => show_val t v | None => bs "-" end.

Definition eset_op (st : res (eset * list str)) (op : str) : res (eset * list str) :=
  do x <- st;
  let '(s, out) := x in
  match op with
  | c :: rest =>
    let parts := split 44 rest in
    let t := match parts with a :: _ => num a | [] => 0 end in
    let v := match parts with _ :: b :: _ => num b | _ => 0 end in
    if c =? 105 then do r <- es_insert s t v; ret (fst r, out ++ [show_opt t (snd r)])
    else if c =? 103 then ret (s, out ++ [show_opt t (es_get s t)])
    else if c =? 109 then
      (if t <? 2 then ret (s, out ++ [show_opt t (es_get s t)])
       else let '(s', old) := es_set s t v in ret (s', out ++ [show_opt t old]))
    else if c =? 111 then do r <- es_get_or_insert s t v; ret (fst r, out ++ [show_val t (snd r)])
    else if c =? 100 then do r <- es_get_or_insert s t 0; ret (fst r, out ++ [show_val t (snd r)])
    else if c =? 114 then do r <- es_remove s t; ret (fst r, out ++ [show_opt t (snd r)])
    else if c =? 104 then ret (s, out ++ [b01 (es_contains s t)])
    else if c =? 99 then ret (es_clear s, out ++ [bs "c"])
    else if c =? 108 then ret (s, out ++ [dec (es_len s) ++ (if es_is_empty s then bs "e" else bs "n")])
    else ret x
  | [] => ret x
  end.

Definition cmd_eset (a : list str) : str :=
  match a with
  | [script] =>
    match fold_left eset_op (split 59 script) (ret (es_new, [])) with
    | inr x => bs "ok " ++ join (bs ";") (snd x)
    | inl e => bs "panic " ++ err_name e
    end
  | _ => bs "error args"
  end.

(* walk <shape> *)
Fixpoint build_shape (fuel : nat) (s : str) (counter : N) : option (node * str * N) :=
  match fuel with
  | O => None
  | S f =>
    match s with
    | 40 :: t =>
      let id := counter in
      let fix kids (n : nat) (s : str) (c : N) (acc : list node) : option (list node * str * N) :=
          match n with
          | O => None
          | S n' =>
            match s with
            | 40 :: _ => match build_shape f s c with
                         | Some (k, s', c') => kids n' s' c' (acc ++ [k])
                         | None => None
                         end
            | 41 :: t' => Some (acc, t', c)
            | _ => None
            end
          end in
      match kids (S (length t)) t (counter + 1) [] with
      | Some (cs, rest, c') =>
        Some (Node (KText (dec id)) (Some (SAbs id, SAbs (id + 1))) [(bs "id", dec id)] [] cs, rest, c')
      | None => None
      end
    | _ => None
    end
  end.

Definition text_of_node (n : node) : str := match n_kind n with KText c => c | _ => [] end.

Definition cmd_walk (a : list str) : str :=
  match a with
  | [shape] =>
    match build_shape (S (length shape)) shape 0 with
    | Some (root, _, _) =>
      let seq_txt := join (bs ",") (map (fun p : node * N => text_of_node (fst p) ++ bs "/" ++ dec (snd p)) (walk root 0)) in
      let root' := walk_mut (fun n d => if d mod 2 =? 1 then replace n (KEm 42) else n) root 0 in
      bs "ok w=" ++ seq_txt ++ bs " m=" ++ seq_txt ++ bs " t=" ++ dump_tree [0] root'
    | None => bs "error shape"
    end
  | _ => bs "error args"
  end.

(* signed decimal *)
Definition znum (s : str) : Z := match s with 45 :: t => (- Z.of_N (num t))%Z | _ => Z.of_N (num s) end.

Definition dispatch (line : str) : str :=
  match split 32 line with
  | cmd :: a =>
    if list_eqb cmd (bs "enc") then cmd_enc a
    else if list_eqb cmd (bs "norm") then
      match a with [s] => bs "ok " ++ hexs (normalize_link (arg_hex s)) | _ => bs "error args" end
    else if list_eqb cmd (bs "pos") then
      match a with
      | [s; st; en] => bs "ok " ++ fmt_sourcepos (get_positions (arg_hex s) (parse_dec st 0) (parse_dec en 0))
      | _ => bs "error args"
      end
    else if list_eqb cmd (bs "ruler") then cmd_ruler a
    else if list_eqb cmd (bs "parse") then cmd_parse a
    else if list_eqb cmd (bs "eset") then cmd_eset a
    else if list_eqb cmd (bs "walk") then cmd_walk a
    else if list_eqb cmd (bs "cutws") then
      match a with
      | [s; n] => let src := arg_hex s in
                  let '(sp, st) := calc_right_whitespace src (znum n) in
                  bs "ok " ++ dec sp ++ bs " " ++ dec st ++ bs " " ++ hexs (cut_right_whitespace src (znum n))
      | _ => bs "error args" end
    else if list_eqb cmd (bs "hist") then cmd_hist a
    else if list_eqb cmd (bs "valid") then
      match a with [s] => bs "ok " ++ b01 (validate_link (arg_hex s)) | _ => bs "error args" end
    else if list_eqb cmd (bs "esc") then
      match a with [s] => bs "ok " ++ hexs (escape_html (arg_hex s)) | _ => bs "error args" end
    else if list_eqb cmd (bs "unesc") then
      match a with [s] => bs "ok " ++ hexs (unescape_all (arg_hex s)) | _ => bs "error args" end
    else if list_eqb cmd (bs "entcode") then
      match a with [s] => bs "ok " ++ b01 (is_valid_entity_code (num s)) | _ => bs "error args" end
    else if list_eqb cmd (bs "ent") then
      match a with [s] => bs "ok " ++ (match get_entity_from_str (arg_hex s) with Some v => hexs v | None => bs "none" end)
                  | _ => bs "error args" end
    else if list_eqb cmd (bs "normref") then
      match a with [s] => bs "ok " ++ hexs (normalize_reference (arg_hex s)) | _ => bs "error args" end
    else if list_eqb cmd (bs "indent") then
      match a with
      | [s; p] => let '(i, q) := find_indent_of (arg_hex s) (num p) in bs "ok " ++ dec i ++ bs " " ++ dec q
      | _ => bs "error args" end
    else if list_eqb cmd (bs "rfind") then
      match a with [s; c] => bs "ok " ++ dec (rfind_and_count (arg_hex s) (num c)) | _ => bs "error args" end
    else if list_eqb cmd (bs "ping") then bs "ok pong"
    else bs "error unknown-command"
  | [] => bs "error empty"
  end.
