(* Dispatch.v -- the line protocol of DESIGN.md section 4.1, on the model side.
   dispatch takes one command line (bytes) and returns one result line (bytes); the
   OCaml driver only converts between OCaml strings and byte lists. *)
From Coq Require Import String.
From MdIt Require Import Prims Mdurl SourceMap.
Local Open Scope string_scope.
Local Open Scope list_scope.
Local Open Scope N_scope.

Definition is1 (s : str) : bool := list_eqb s (bs "1").
Definition arg_hex (s : str) : str := if list_eqb s (bs "-") then [] else unhexs s.

Definition cmd_enc (a : list str) : str :=
  match a with
  | [k; base; safe; src] =>
    let set := aset_add_many (if is1 base then aset_new else aset_empty)
                             (filter (fun b => b <? 128) (arg_hex safe)) in
    bs "ok " ++ hexs (encode set (is1 k) (arg_hex src))
  | _ => bs "error args"
  end.

Definition dispatch (line : str) : str :=
  match split 32 line with
  | cmd :: a =>
    if list_eqb cmd (bs "enc") then cmd_enc a
    else if list_eqb cmd (bs "norm") then
      match a with [s] => bs "ok " ++ hexs (normalize_link (arg_hex s)) | _ => bs "error args" end
    else if list_eqb cmd (bs "pos") then
      match a with
      | [s; st; en] => bs "ok " ++ fmt_sourcepos (get_positions (arg_hex s) (parse_dec st 0) (parse_dec en 0))
      | _ => bs "error args"
      end
    else if list_eqb cmd (bs "ping") then bs "ok pong"
    else bs "error unknown-command"
  | [] => bs "error empty"
  end.
