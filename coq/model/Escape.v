(* Escape.v -- src/common/utils.rs: escape_html, is_valid_entity_code, get_entity_from_str,
   replace_entity_pattern, unescape_all; plus the numeric/named reference recognisers shared
   with src/plugins/cmark/inline/entity.rs. *)
From Coq Require Import String.
From MdIt Require Import Prims Tables.
Local Open Scope string_scope.
Local Open Scope list_scope.
Local Open Scope N_scope.

(* utils.rs:115-117 -- html_escape::encode_double_quoted_attribute: amp lt gt quot *)
Definition esc_byte (b : N) : str :=
  if b =? 38 then bs "&amp;" else if b =? 60 then bs "&lt;"
  else if b =? 62 then bs "&gt;" else if b =? 34 then bs "&quot;" else [b].
Definition escape_html (s : str) : str := flat_map esc_byte s.

(* utils.rs:30-44 *)
Definition is_valid_entity_code (code : N) : bool :=
  if (0xD800 <=? code) && (code <=? 0xDFFF) then false
  else if (0xFDD0 <=? code) && (code <=? 0xFDEF) then false
  else if (N.land code 0xFFFF =? 0xFFFF) || (N.land code 0xFFFF =? 0xFFFE) then false
  else if code <=? 0x08 then false
  else if code =? 0x0B then false
  else if (0x0E <=? code) && (code <=? 0x1F) then false
  else if (0x7F <=? code) && (code <=? 0x9F) then false
  else if 0x10FFFF <? code then false
  else true.

(* utils.rs:52-64 -- table of the `entities` crate rows whose name ends in ';' (generated) *)
Fixpoint assoc_str (k : str) (t : list (str * str)) : option str :=
  match t with
  | [] => None
  | (a, v) :: r => if list_eqb a k then Some v else assoc_str k r
  end.
Definition get_entity_from_str (s : str) : option str := assoc_str s entity_table.

(* maximal prefix of bytes satisfying p *)
Fixpoint span (p : N -> bool) (s : str) : str * str :=
  match s with
  | [] => ([], [])
  | c :: t => if p c then let '(a, b) := span p t in (c :: a, b) else ([], s)
  end.

Fixpoint parse_hex (s : str) (acc : N) : N :=
  match s with [] => acc | c :: t => parse_hex t (acc * 16 + hex_val c) end.

(* body of a numeric reference, i.e. the text between "&#" and ";":
   (?i) x[a-f0-9]{1,6} | [0-9]{1,7}     -> Some code *)
Definition numeric_code (body : str) : option N :=
  match body with
  | c :: t =>
    if (c =? 120) || (c =? 88) then
      if forallb is_hex t && (1 <=? len t) && (len t <=? 6) then Some (parse_hex t 0) else None
    else if forallb is_digit body && (len body <=? 7) then Some (parse_dec body 0) else None
  | [] => None
  end.

Definition code_to_str (code : N) : str :=
  if is_valid_entity_code code then encode1 code else encode1 0xFFFD.

(* utils.rs:66-86 (after the fix): argument is the whole "&...;" text *)
Definition replace_entity_pattern (s : str) : option str :=
  match get_entity_from_str s with
  | Some e => Some e
  | None =>
    match s with
    | 38 :: 35 :: rest =>                       (* "&#" *)
      match rev rest with
      | 59 :: rbody =>                          (* ends with ';' *)
        match numeric_code (rev rbody) with
        | Some code => Some (code_to_str code)
        | None => None
        end
      | _ => None
      end
    | _ => None
    end
  end.

(* ENTITY_RE at the head of s = '&' :: t :  &([A-Za-z#][A-Za-z0-9]{1,31});  -> (whole match, rest) *)
Definition match_entity_re (hash_ok : bool) (t : str) : option (str * str) :=
  match t with
  | c :: t1 =>
    if is_alpha c || (hash_ok && (c =? 35)) then
      let '(run, rest) := span is_alnum t1 in
      match rest with
      | 59 :: rest' =>
        if (1 <=? len run) && (len run <=? 31) then Some (38 :: c :: run ++ [59], rest') else None
      | _ => None
      end
    else None
  | [] => None
  end.

(* utils.rs:93-108 -- unescape_all: replace_all of  \\(punct) | &(name);  leftmost, non-overlapping *)
Fixpoint unescape_fuel (fuel : nat) (s : str) : str :=
  match fuel with
  | O => s
  | S f =>
    match s with
    | [] => []
    | c :: t =>
      if c =? 92 then
        match t with
        | d :: t' => if is_ascii_punct d then d :: unescape_fuel f t' else 92 :: unescape_fuel f t
        | [] => 92 :: unescape_fuel f t
        end
      else if c =? 38 then
        match match_entity_re true t with
        | Some (m, rest) =>
          match replace_entity_pattern m with
          | Some r => r ++ unescape_fuel f rest
          | None => m ++ unescape_fuel f rest
          end
        | None => 38 :: unescape_fuel f t
        end
      else c :: unescape_fuel f t
    end
  end.
Definition unescape_all (s : str) : str := unescape_fuel (S (length s)) s.
