(* HtmlRe.v -- the regular expressions of plugins/html/utils/regexps.rs, html_block.rs,
   cmark/inline/autolink.rs and parser/main.rs (validate_link), transcribed. *)
From Coq Require Import String.
From MdIt Require Import Prims Tables NormRef Regex.
Local Open Scope string_scope.
Local Open Scope list_scope.
Local Open Scope N_scope.

Definition in_set (s : string) (c : N) : bool := mem c (bs s).
Definition rng (a b : string) (c : N) : bool :=
  match bs a, bs b with x :: _, y :: _ => between x c y | _, _ => false end.
Definition alpha (c : N) := (c <? 128) && is_alpha c.
Definition alnum (c : N) := (c <? 128) && is_alnum c.

(* attr_name  [a-zA-Z_:][a-zA-Z0-9:._-]* *)
Definition re_attr_name : re :=
  RSeq (RChr (fun c => alpha c || in_set "_:" c)) (RStar (RChr (fun c => alnum c || in_set ":._-" c))).
(* unquoted  [^DQ'=<>`\x00-\x20]+ *)
Definition re_unquoted : re :=
  rplus (RChr (fun c => negb (mem c [34; 39; 61; 60; 62; 96]) && (32 <? c))).
Definition re_single_quoted : re := rseq [rchar 39; RStar (RChr (fun c => negb (c =? 39))); rchar 39].
Definition re_double_quoted : re := rseq [rchar 34; RStar (RChr (fun c => negb (c =? 34))); rchar 34].
Definition re_attr_value : re := ralt [re_unquoted; re_single_quoted; re_double_quoted].
(* attribute  (?:\s+attr_name(?:\s*=\s*attr_value)?) *)
Definition re_attribute : re :=
  rseq [rplus rws; re_attr_name; ropt (rseq [RStar rws; rchar 61; RStar rws; re_attr_value])].
(* open_tag  <[A-Za-z][A-Za-z0-9\-]*attribute*\s*/?> *)
Definition re_open_tag : re :=
  rseq [rchar 60; RChr alpha; RStar (RChr (fun c => alnum c || (c =? 45))); RStar re_attribute;
        RStar rws; ropt (rchar 47); rchar 62].
(* close_tag  </[A-Za-z][A-Za-z0-9\-]*\s*> *)
Definition re_close_tag : re :=
  rseq [rchar 60; rchar 47; RChr alpha; RStar (RChr (fun c => alnum c || (c =? 45))); RStar rws; rchar 62].
(* comment  <!---->|<!--(?:-?[^>-])(?:-?[^-])*--> *)
Definition re_comment : re :=
  RAlt (rlit (bs "<!---->"))
       (rseq [rlit (bs "<!--");
              RSeq (ropt (rchar 45)) (RChr (fun c => negb ((c =? 62) || (c =? 45))));
              RStar (RSeq (ropt (rchar 45)) (RChr (fun c => negb (c =? 45))));
              rlit (bs "-->")]).
(* processing  <[?][\s\S]*?[?]> *)
Definition re_processing : re := rseq [rlit (bs "<?"); RStarLazy rany; rlit (bs "?>")].
(* declaration  <![A-Z]+\s+[^>]*> *)
Definition re_declaration : re :=
  rseq [rlit (bs "<!"); rplus (RChr (fun c => (c <? 128) && is_upper c)); rplus rws;
        RStar (RChr (fun c => negb (c =? 62))); rchar 62].
(* cdata  <!\[CDATA\[[\s\S]*?\]\]> *)
Definition re_cdata : re := rseq [rlit (bs "<![CDATA["); RStarLazy rany; rlit (bs "]]>")].

Definition re_html_tag : re :=
  ralt [re_open_tag; re_close_tag; re_comment; re_processing; re_declaration; re_cdata].
Definition re_open_close_tag : re := RAlt re_open_tag re_close_tag.

(* HTML_TAG_RE.captures(s).get(0): length in BYTES of the match at the start of s *)
Definition html_tag_len (s : str) : option N :=
  let cs := chars s in
  match match_prefix re_html_tag cs with
  | Some rest => Some (len (unchars (firstn (length cs - length rest) cs)))   (* bytes of the matched characters *)
  | None => None
  end.

(* HTML_LINK_OPEN ^<a[>\s]   HTML_LINK_CLOSE ^</a\s*> *)
Definition html_link_open (s : str) : bool :=
  is_match_prefix (rseq [rlit (bs "<a"); RChr (fun c => (c =? 62) || is_ws_cp c)]) (chars s).
Definition html_link_close (s : str) : bool :=
  is_match_prefix (rseq [rlit (bs "</a"); RStar rws; rchar 62]) (chars s).

(* ---- html_block.rs: HTML_SEQUENCES ---- *)
Definition html_block_names : list string :=
  ["address"; "article"; "aside"; "base"; "basefont"; "blockquote"; "body"; "caption"; "center"; "col";
   "colgroup"; "dd"; "details"; "dialog"; "dir"; "div"; "dl"; "dt"; "fieldset"; "figcaption"; "figure";
   "footer"; "form"; "frame"; "frameset"; "h1"; "h2"; "h3"; "h4"; "h5"; "h6"; "head"; "header"; "hr";
   "html"; "iframe"; "legend"; "li"; "link"; "main"; "menu"; "menuitem"; "nav"; "noframes"; "ol";
   "optgroup"; "option"; "p"; "param"; "section"; "source"; "summary"; "table"; "tbody"; "td"; "tfoot";
   "th"; "thead"; "title"; "tr"; "track"; "ul"].

Definition re_names_ci (l : list string) : re := ralt (map (fun n => rlit_ci (bs n)) l).

Definition seq_open (i : N) : re :=
  if i =? 0 then rseq [rchar 60; re_names_ci ["script"; "pre"; "style"; "textarea"];
                       ralt [rws; rchar 62; REnd]]
  else if i =? 1 then rlit (bs "<!--")
  else if i =? 2 then rlit (bs "<?")
  else if i =? 3 then RSeq (rlit (bs "<!")) (RChr (fun c => (c <? 128) && is_upper c))
  else if i =? 4 then rlit (bs "<![CDATA[")
  else if i =? 5 then rseq [rchar 60; ropt (rchar 47); re_names_ci html_block_names;
                            ralt [rws; RSeq (ropt (rchar 47)) (rchar 62); REnd]]
  else rseq [re_open_close_tag; RStar rws; REnd].

Definition html_block_seq (line : str) : option N :=
  let cs := chars line in
  let fix go (l : list N) : option N :=
      match l with
      | [] => None
      | i :: t => if is_match_prefix (seq_open i) cs then Some i else go t
      end in
  go [0; 1; 2; 3; 4; 5; 6].

Definition html_seq_terminates (i : N) : bool := negb (i =? 6).

Definition html_seq_close (i : N) (line : str) : bool :=
  let cs := chars line in
  if i =? 0 then is_match_anywhere (rseq [rlit (bs "</"); re_names_ci ["script"; "pre"; "style"; "textarea"]; rchar 62]) cs
  else if i =? 1 then is_match_anywhere (rlit (bs "-->")) cs
  else if i =? 2 then is_match_anywhere (rlit (bs "?>")) cs
  else if i =? 3 then is_match_anywhere (rchar 62) cs
  else if i =? 4 then is_match_anywhere (rlit (bs "]]>")) cs
  else match cs with [] => true | _ => false end.      (* ^$ *)

(* ---- autolink.rs ---- *)
(* ^([a-zA-Z][a-zA-Z0-9+.\-]{1,31}):([^<>\x00-\x20]* )$ *)
Definition re_autolink : re :=
  rseq [RChr alpha; RRep (RChr (fun c => alnum c || in_set "+.-" c)) 1 31; rchar 58;
        RStar (RChr (fun c => negb ((c =? 60) || (c =? 62)) && (32 <? c))); REnd].
(* ^([a-zA-Z0-9.!#$%&'*+/=?^_`{|}~-]+@[a-zA-Z0-9](?:[a-zA-Z0-9-]{0,61}[a-zA-Z0-9])?(?:\.[a-zA-Z0-9](?:[a-zA-Z0-9-]{0,61}[a-zA-Z0-9])?)* )$ *)
Definition re_email_label : re :=
  RSeq (RChr alnum) (ropt (RSeq (RRep (RChr (fun c => alnum c || (c =? 45))) 0 61) (RChr alnum))).
Definition re_email : re :=
  rseq [rplus (RChr (fun c => alnum c || in_set ".!#$%&'*+/=?^_`{|}~-" c)); rchar 64;
        re_email_label; RStar (RSeq (rchar 46) re_email_label); REnd].
Definition is_autolink (url : str) : bool := is_match_prefix re_autolink (chars url).
Definition is_email (url : str) : bool := is_match_prefix re_email (chars url).

(* ---- main.rs:59-69 validate_link ---- *)
(* (?i)^(vbscript|javascript|file|data):      (?i)^data:image/(gif|png|jpeg|webp); *)
Definition re_bad_proto : re :=
  RSeq (re_names_ci ["vbscript"; "javascript"; "file"; "data"]) (rchar 58).
Definition re_good_data : re :=
  rseq [rlit_ci (bs "data:image/"); re_names_ci ["gif"; "png"; "jpeg"; "webp"]; rchar 59].
Definition validate_link (s : str) : bool :=
  let cs := chars s in
  negb (is_match_prefix re_bad_proto cs) || is_match_prefix re_good_data cs.
