(* Core.v -- src/parser/main.rs, parser/core/*, inline/builtin/inline_parser.rs, block/builtin/block_parser.rs,
   plugins/**/mod.rs (the `add` functions), plugins/sourcepos.rs, emph_pair::FragmentsJoin. *)
From Coq Require Import String.
From MdIt Require Import Prims Tables Escape NormRef Indent Mdurl SourceMap Ruler Tree Render Block Inline.
Local Open Scope string_scope.
Local Open Scope list_scope.
Local Open Scope N_scope.

Definition C_BLOCK := 40. Definition C_INLINE := 41. Definition C_FRAGJOIN := 42.
Definition C_SOURCEPOS := 43. Definition C_CUSTOMCORE := 44.

(* the MarkdownIt object: three rulers, the marker map, the lazily chosen text scanner and
   the plugin configuration kept in md.env *)
Record md := MD {
  md_block : ruler; md_inline : ruler; md_core : ruler;
  md_charmap : list (N * list N);
  md_text_impl : option (bool * list N);
  md_pairs : list (N * (bool * list (option kind)));
  md_fence_prefix : option str;
  md_maxnest : N }.

Definition with_block (m : md) (r : ruler) := MD r (md_inline m) (md_core m) (md_charmap m) (md_text_impl m) (md_pairs m) (md_fence_prefix m) (md_maxnest m).
Definition with_inline (m : md) (r : ruler) := MD (md_block m) r (md_core m) (md_charmap m) (md_text_impl m) (md_pairs m) (md_fence_prefix m) (md_maxnest m).
Definition with_core (m : md) (r : ruler) := MD (md_block m) (md_inline m) r (md_charmap m) (md_text_impl m) (md_pairs m) (md_fence_prefix m) (md_maxnest m).
Definition with_charmap (m : md) (c : list (N * list N)) := MD (md_block m) (md_inline m) (md_core m) c (md_text_impl m) (md_pairs m) (md_fence_prefix m) (md_maxnest m).
Definition with_text_impl (m : md) (t : option (bool * list N)) := MD (md_block m) (md_inline m) (md_core m) (md_charmap m) t (md_pairs m) (md_fence_prefix m) (md_maxnest m).
Definition with_pairs (m : md) (p : list (N * (bool * list (option kind)))) := MD (md_block m) (md_inline m) (md_core m) (md_charmap m) (md_text_impl m) p (md_fence_prefix m) (md_maxnest m).
Definition with_fence_prefix (m : md) (p : option str) := MD (md_block m) (md_inline m) (md_core m) (md_charmap m) (md_text_impl m) (md_pairs m) p (md_maxnest m).
Definition with_maxnest (m : md) (n : N) := MD (md_block m) (md_inline m) (md_core m) (md_charmap m) (md_text_impl m) (md_pairs m) (md_fence_prefix m) n.

(* inline/mod.rs:124-146 (with the cache-reset repair) *)
Fixpoint cm_push (c : list (N * list N)) (marker id : N) : list (N * list N) :=
  match c with
  | [] => [(marker, [id])]
  | (k, v) :: t => if k =? marker then (k, v ++ [id]) :: t else (k, v) :: cm_push t marker id
  end.
Fixpoint cm_remove (c : list (N * list N)) (marker id : N) : list (N * list N) :=
  match c with
  | [] => [(marker, [])]
  | (k, v) :: t => if k =? marker then (k, filter (fun x => negb (x =? id)) v) :: t else (k, v) :: cm_remove t marker id
  end.

Definition inline_add_rule (m : md) (id marker : N) (f : ruler -> ruler) : md :=
  let m1 := with_text_impl m None in
  let m2 := if marker =? 0 then m1 else with_charmap m1 (cm_push (md_charmap m1) marker id) in
  with_inline m2 (f (r_add (md_inline m2) id id)).
Definition inline_remove_rule (m : md) (id marker : N) : md :=
  let m1 := with_text_impl m None in
  let m2 := if marker =? 0 then m1 else with_charmap m1 (cm_remove (md_charmap m1) marker id) in
  with_inline m2 (r_remove (md_inline m2) id).
Definition block_add_rule (m : md) (id : N) (f : ruler -> ruler) : md :=
  with_block m (f (r_add (md_block m) id id)).
Definition core_add_rule (m : md) (id : N) (f : ruler -> ruler) : md :=
  with_core m (f (r_add (md_core m) id id)).
Definition idf (r : ruler) := r.

(* MarkdownIt::new / Default *)
Definition md_new : md :=
  let m0 := MD ruler_new ruler_new ruler_new [] None [] None max_nesting_default in
  let m1 := core_add_rule m0 C_BLOCK r_before_all in
  let m2 := inline_add_rule m1 I_TEXT 0 r_before_all in
  core_add_rule m2 C_INLINE (fun r => r_before_all (r_after C_BLOCK r)).

Definition inline_marker (id : N) : N :=
  if id =? I_NEWLINE then 10 else if id =? I_ESCAPE then 92 else if id =? I_BACKTICK then 96
  else if id =? I_EMPH_STAR then 42 else if id =? I_EMPH_UNDER then 95 else if id =? I_LINK then 91
  else if id =? I_LINKEND then 93 else if id =? I_IMAGE then 33 else if id =? I_AUTOLINK then 60
  else if id =? I_ENTITY then 38 else if id =? I_STRIKE then 126 else if id =? I_HTMLINLINE then 60
  else if id =? I_CUSTOM_LETTER then 120 else if id =? I_CUSTOM_PUNCT then 37
  else if id =? I_CUSTOM_PAIR then 37 else 0.

Definition add_inline (m : md) (id : N) : md := inline_add_rule m id (inline_marker id) idf.

(* emph_pair::add_with::<MARKER, LENGTH, CAN_SPLIT_WORD> *)
Fixpoint pairs_get (p : list (N * (bool * list (option kind)))) (marker : N) : bool * list (option kind) :=
  match p with
  | [] => (false, [None; None; None])
  | (k, v) :: t => if k =? marker then v else pairs_get t marker
  end.
Fixpoint pairs_set (p : list (N * (bool * list (option kind)))) (marker : N) (v : bool * list (option kind)) :=
  match p with
  | [] => [(marker, v)]
  | (k, v') :: t => if k =? marker then (k, v) :: t else (k, v') :: pairs_set t marker v
  end.
Fixpoint set_nth_opt {A} (l : list A) (i : nat) (x : A) : list A :=
  match l, i with [], _ => [] | _ :: t, O => x :: t | y :: t, S k => y :: set_nth_opt t k x end.

Definition emph_add_with (m : md) (marker : N) (length : nat) (rule_id : N) (k : kind) : md :=
  let '(inserted, fns) := pairs_get (md_pairs m) marker in
  let m1 := with_pairs m (pairs_set (md_pairs m) marker (true, set_nth_opt fns (length - 1) (Some k))) in
  let m2 := if inserted then m1 else add_inline m1 rule_id in
  if r_contains (md_core m2) C_FRAGJOIN then m2
  else core_add_rule m2 C_FRAGJOIN (fun r => r_after C_INLINE (r_before_all r)).

Definition add_link_end (m : md) : md :=
  if r_contains (md_inline m) I_LINKEND then m else add_inline m I_LINKEND.

(* the shipped `add` functions, by the harness' plugin letter *)
Definition add_plugin (m : md) (c : N) : md :=
  if c =? 110 (* n *) then add_inline m I_NEWLINE
  else if c =? 101 (* e *) then add_inline m I_ESCAPE
  else if c =? 98 (* b *) then add_inline m I_BACKTICK
  else if c =? 109 (* m *) then
    let m1 := emph_add_with m 42 1 I_EMPH_STAR (KEm 42) in
    let m2 := emph_add_with m1 95 1 I_EMPH_UNDER (KEm 95) in
    let m3 := emph_add_with m2 42 2 I_EMPH_STAR (KStrong 42) in
    emph_add_with m3 95 2 I_EMPH_UNDER (KStrong 95)
  else if c =? 108 (* l *) then add_link_end (add_inline m I_LINK)
  else if c =? 105 (* i *) then add_link_end (add_inline m I_IMAGE)
  else if c =? 97 (* a *) then add_inline m I_AUTOLINK
  else if c =? 116 (* t *) then add_inline m I_ENTITY
  else if c =? 99 (* c *) then block_add_rule m R_CODE idf
  else if c =? 102 (* f *) then with_fence_prefix (block_add_rule m R_FENCE idf) (Some (bs "language-"))
  else if c =? 70 (* F *) then with_fence_prefix (block_add_rule m R_FENCE idf) (Some (bs "lang-"))
  else if c =? 113 (* q *) then block_add_rule m R_QUOTE idf
  else if c =? 104 (* h *) then block_add_rule m R_HR idf
  else if c =? 117 (* u *) then block_add_rule m R_LIST (r_after R_HR)
  else if c =? 114 (* r *) then block_add_rule m R_REF idf
  else if c =? 72 (* H *) then block_add_rule m R_HEADING idf
  else if c =? 76 (* L *) then block_add_rule m R_LHEADING (fun r => r_after_all (r_before R_PARA r))
  else if c =? 112 (* p *) then block_add_rule m R_PARA r_after_all
  else if c =? 115 (* s *) then emph_add_with m 126 2 I_STRIKE (KStrike 126)
  else if c =? 120 (* x *) then add_inline m I_HTMLINLINE
  else if c =? 88 (* X *) then block_add_rule m R_HTMLBLOCK idf
  else if c =? 83 (* S *) then core_add_rule m C_SOURCEPOS (r_after C_BLOCK)
  else if c =? 49 (* 1 *) then block_add_rule m R_CUSTOM_A idf
  else if c =? 50 (* 2 *) then block_add_rule m R_CUSTOM_B idf
  else if c =? 51 (* 3 *) then add_inline m I_CUSTOM_LETTER
  else if c =? 52 (* 4 *) then add_inline m I_CUSTOM_PUNCT
  else if c =? 53 (* 5 *) then core_add_rule m C_CUSTOMCORE idf
  else if c =? 54 (* 6 *) then block_add_rule m R_CUSTOM_A r_before_all
  else if c =? 55 (* 7 *) then block_add_rule m R_CUSTOM_B r_before_all
  else if c =? 56 (* 8 *) then add_inline m I_CUSTOM_PAIR
  else if c =? 122 (* z: emph_pair::add_with::<'~', 1, true>, a one-tilde pair on top of strikethrough's marker *) then emph_add_with m 126 1 I_STRIKE (KEm 126)
  else if c =? 103 (* g *) then block_add_rule m R_CUSTOM_A (r_alias R_CUSTOM_GROUP)
  else if c =? 71 (* G *) then block_add_rule m R_CUSTOM_B (r_alias R_CUSTOM_GROUP)
  else m.

(* composite shorthands C (cmark::add) and W (html::add) *)
Definition add_plugins (m : md) (cs : str) : md :=
  fold_left (fun m c =>
               if c =? 67 then fold_left add_plugin (bs "nebmliatcfqhurHLp") m
               else if c =? 87 then fold_left add_plugin (bs "xX") m
               else add_plugin m c) cs m.

(* remove_rule by harness letter *)
Definition remove_plugin_rule (m : md) (c : N) : md :=
  let rin (id : N) := inline_remove_rule m id (inline_marker id) in
  let rbl (id : N) := with_block m (r_remove (md_block m) id) in
  let rco (id : N) := with_core m (r_remove (md_core m) id) in
  if c =? 110 then rin I_NEWLINE else if c =? 101 then rin I_ESCAPE else if c =? 98 then rin I_BACKTICK
  else if c =? 109 then rin I_EMPH_STAR else if c =? 77 then rin I_EMPH_UNDER else if c =? 115 then rin I_STRIKE
  else if c =? 108 then rin I_LINK else if c =? 105 then rin I_IMAGE else if c =? 69 then rin I_LINKEND
  else if c =? 97 then rin I_AUTOLINK else if c =? 116 then rin I_ENTITY else if c =? 120 then rin I_HTMLINLINE
  else if c =? 99 then rbl R_CODE else if c =? 102 then rbl R_FENCE else if c =? 113 then rbl R_QUOTE
  else if c =? 104 then rbl R_HR else if c =? 117 then rbl R_LIST else if c =? 114 then rbl R_REF
  else if c =? 72 then rbl R_HEADING else if c =? 76 then rbl R_LHEADING else if c =? 112 then rbl R_PARA
  else if c =? 88 then rbl R_HTMLBLOCK else if c =? 83 then rco C_SOURCEPOS else if c =? 74 then rco C_FRAGJOIN
  else if (c =? 49) || (c =? 54) then rbl R_CUSTOM_A else if (c =? 50) || (c =? 55) then rbl R_CUSTOM_B
  else if c =? 51 then rin I_CUSTOM_LETTER else if c =? 52 then rin I_CUSTOM_PUNCT
  else if c =? 53 then rco C_CUSTOMCORE else if c =? 56 then rin I_CUSTOM_PAIR
  else if c =? 90 (* Z: by the shared alias *) then rbl R_CUSTOM_GROUP else m.

Definition has_plugin_rule (m : md) (c : N) : bool :=
  let hin (id : N) := r_contains (md_inline m) id in
  let hbl (id : N) := r_contains (md_block m) id in
  let hco (id : N) := r_contains (md_core m) id in
  if c =? 110 then hin I_NEWLINE else if c =? 101 then hin I_ESCAPE else if c =? 98 then hin I_BACKTICK
  else if c =? 109 then hin I_EMPH_STAR else if c =? 77 then hin I_EMPH_UNDER else if c =? 115 then hin I_STRIKE
  else if c =? 108 then hin I_LINK else if c =? 105 then hin I_IMAGE else if c =? 69 then hin I_LINKEND
  else if c =? 97 then hin I_AUTOLINK else if c =? 116 then hin I_ENTITY else if c =? 120 then hin I_HTMLINLINE
  else if c =? 99 then hbl R_CODE else if c =? 102 then hbl R_FENCE else if c =? 113 then hbl R_QUOTE
  else if c =? 104 then hbl R_HR else if c =? 117 then hbl R_LIST else if c =? 114 then hbl R_REF
  else if c =? 72 then hbl R_HEADING else if c =? 76 then hbl R_LHEADING else if c =? 112 then hbl R_PARA
  else if c =? 88 then hbl R_HTMLBLOCK else if c =? 83 then hco C_SOURCEPOS else if c =? 74 then hco C_FRAGJOIN
  else if (c =? 49) || (c =? 54) then hbl R_CUSTOM_A else if (c =? 50) || (c =? 55) then hbl R_CUSTOM_B
  else if c =? 51 then hin I_CUSTOM_LETTER else if c =? 52 then hin I_CUSTOM_PUNCT
  else if c =? 53 then hco C_CUSTOMCORE else if c =? 56 then hin I_CUSTOM_PAIR
  else if c =? 90 then hbl R_CUSTOM_GROUP else false.

(* skip_text.rs:98-125 -- choose_text_impl over the keys of the marker map *)
Definition choose_text_impl (charmap : list (N * list N)) : bool * list N :=
  let keys := map fst charmap in
  (forallb punct_stop keys, keys).

(* ------------------------------------------------------------------ *)
(* core rules                                                           *)

(* emph_pair.rs:255-317 fragments_join on one node's children *)
Definition marker_to_text (n : node) : node :=
  match n_kind n with
  | KEmphMarker m _ remaining _ _ => set_kind n (KText (repeatN m (N.to_nat remaining)))
  | _ => n
  end.

Definition merge_text (t1 t2 : node) : node :=
  match n_kind t1, n_kind t2 with
  | KText a, KText b =>
    let m := match n_map t1, n_map t2 with
             | Some (s1, _), Some (_, e2) => Some (s1, e2)
             | m1, _ => m1
             end in
    set_map (set_kind t1 (KText (a ++ b))) m
  | _, _ => t1
  end.

Definition is_text (n : node) : bool := match n_kind n with KText _ => true | _ => false end.
Definition text_nonempty (n : node) : bool := match n_kind n with KText [] => false | _ => true end.

Fixpoint fj_collapse (acc : option node) (l : list node) : list node :=
  match l with
  | [] => match acc with Some t => if text_nonempty t then [t] else [] | None => [] end
  | x :: t =>
    if is_text x then
      fj_collapse (Some (match acc with Some a => merge_text a x | None => x end)) t
    else
      (match acc with Some a => if text_nonempty a then [a] else [] | None => [] end) ++ x :: fj_collapse None t
  end.

Definition fragments_join (n : node) : node :=
  set_children n (fj_collapse None (map marker_to_text (n_children n))).

(* FragmentsJoin::run = walk_mut(fragments_join); children are unaffected by what happens to
   their parent, so the traversal order does not matter *)
Fixpoint fj_walk (n : node) : node :=
  let 'Node k m a e cs := n in
  fragments_join (Node k m a e (map fj_walk cs)).

(* inline_parser.rs:26-47 *)
Fixpoint inline_walk (fuel : nat) (cfg : icfg) (refs : refmap) (n : node) : res node :=
  let 'Node k m a e cs := n in
  do cs' <- (fix go (l : list node) : res (list node) :=
               match l with
               | [] => ret []
               | c :: t =>
                 match n_kind c with
                 | KInlineRoot content mapping =>
                   do root' <- inline_parse fuel cfg content mapping
                                 (Node (KInlineRoot [] []) (n_map c) (n_attrs c) (n_env c) []) refs;
                   do rest <- go t;
                   ret (n_children root' ++ rest)
                 | _ => do c' <- inline_walk fuel cfg refs c; do rest <- go t; ret (c' :: rest)
                 end
               end) cs;
  ret (Node k m a e cs').

Definition abs_pos (starts : list N) (p : spos) : N :=
  match p with SAbs o => o | SRel l r => nth l starts 0 + r end.

(* plugins/sourcepos.rs *)
Definition sourcepos_attr (src : str) (starts : list N) (n : node) (_ : N) : node :=
  match n_map n with
  | Some (a, b) =>
    let 'Node k m at_ e cs := n in
    Node k m (at_ ++ [(bs "data-sourcepos", fmt_sourcepos (get_positions src (abs_pos starts a) (abs_pos starts b)))]) e cs
  | None => n
  end.

Fixpoint count_custom (n : node) : N :=
  let 'Node k _ _ _ cs := n in
  (match k with KCustomBlock | KCustomInline _ => 1 | _ => 0 end)
  + fold_right (fun c acc => count_custom c + acc) 0 cs.

Record doc := Doc { d_root : node; d_starts : list N }.

Definition core_step (fuel : nat) (bcf : bcfg) (icf : icfg) (src : str) (st : res (node * refmap * list N)) (rule : N)
  : res (node * refmap * list N) :=
  do x <- st;
  let '(root, refs, starts) := x in
  if rule =? C_BLOCK then
    let ls := split_lines src in
    (* the block tokenizer only ever pushes children into the node it is given and looks at its kind *)
    do r <- block_parse fuel bcf (map snd ls) (mk KRoot None []) refs;
    ret (set_children root (n_children root ++ n_children (fst r)), snd r, map fst ls)
  else if rule =? C_INLINE then
    do r <- inline_walk fuel icf refs root; ret (r, refs, starts)
  else if rule =? C_FRAGJOIN then ret (fj_walk root, refs, starts)
  else if rule =? C_SOURCEPOS then ret (walk_mut (sourcepos_attr src starts) root 0, refs, starts)
  else if rule =? C_CUSTOMCORE then ret (push_child root (mk (KCustomCore (count_custom root)) None []), refs, starts)
  else ret x.

(* MarkdownIt::parse.  Returns the parser (caches filled) and the document. *)
Definition parse (fuel : nat) (m : md) (src : str) : md * res doc :=
  let '(rc, core_chain) := r_iter (md_core m) in
  let '(rb, block_chain) := r_iter (md_block m) in
  let '(ri, inline_chain) := r_iter (md_inline m) in
  let ti := match md_text_impl m with Some t => t | None => choose_text_impl (md_charmap m) end in
  let m' := MD rb ri rc (md_charmap m) (Some ti) (md_pairs m) (md_fence_prefix m) (md_maxnest m) in
  (m',
   do cc <- core_chain;
   do bc <- block_chain;
   do ic <- inline_chain;
   let bcf := BCfg bc (md_maxnest m) (match md_fence_prefix m with Some p => p | None => [] end) in
   let icf := ICfg ic (md_maxnest m) (fst ti) (snd ti) (map (fun p => (fst p, snd (snd p))) (md_pairs m)) in
   let root := Node KRoot (Some (SAbs 0, SAbs (len src))) [] [] [] in
   do r <- fold_left (core_step fuel bcf icf src) cc (ret (root, [], [0]));
   let '(root', _, starts) := r in
   ret (Doc root' starts)).

(* recursion depth never exceeds this (block nesting + inline nesting + look-ahead), see C02 *)
Definition default_fuel (m : md) : nat := N.to_nat (2 * md_maxnest m + 10).
