(* Prims.v -- conventions shared by the whole model (DESIGN.md section 3).
   Strings are byte lists (UTF-8, as in Rust); every position is a byte offset.
   Executable definitions only; proofs live in proofs/. *)
From Coq Require Import String Ascii.
From Coq Require Export List NArith ZArith Bool.
Export ListNotations.
Open Scope N_scope.

Definition str := list N.

Definition bs (s : string) : str := map N_of_ascii (list_ascii_of_string s).

(* ------------------------------------------------------------------ *)
(* partiality: panics, hangs and fuel exhaustion are values            *)

Inductive panic_kind :=
| IndexOOB | SliceErr | UnwrapNone | Overflow | AssertFail | Cyclic | Missing
| Unimplemented | Borrow.

Inductive err := Panic (k : panic_kind) | Hang | OutOfFuel.

Definition res (A : Type) := (err + A)%type.
Definition ret {A} (x : A) : res A := inr x.
Definition fail {A} (e : err) : res A := inl e.
Definition panic {A} (k : panic_kind) : res A := inl (Panic k).
Definition bind {A B} (a : res A) (f : A -> res B) : res B :=
  match a with inl e => inl e | inr x => f x end.
Notation "'do' x <- a ; b" := (bind a (fun x => b))
  (at level 200, x pattern, a at level 100, b at level 200).

Definition is_ok {A} (a : res A) : bool := match a with inr _ => true | inl _ => false end.

(* ------------------------------------------------------------------ *)
(* bytes and characters                                                *)

Definition len (s : str) : N := N.of_nat (length s).

Definition is_cont (b : N) : bool := (128 <=? b) && (b <? 192).   (* UTF-8 continuation byte *)

(* number of bytes of the UTF-8 sequence introduced by lead byte b (1 for stray bytes) *)
Definition seq_len (b : N) : N :=
  if b <? 192 then 1 else if b <? 224 then 2 else if b <? 240 then 3 else 4.

(* len_utf8 of a code point *)
Definition len_utf8 (c : N) : N :=
  if c <? 128 then 1 else if c <? 2048 then 2 else if c <? 65536 then 3 else 4.

Fixpoint drop (n : nat) (s : str) : str :=
  match n, s with O, _ => s | S n', _ :: t => drop n' t | _, [] => [] end.
Fixpoint take (n : nat) (s : str) : str :=
  match n, s with O, _ => [] | S n', c :: t => c :: take n' t | _, [] => [] end.

Definition dropN (n : N) (s : str) := drop (N.to_nat n) s.
Definition takeN (n : N) (s : str) := take (N.to_nat n) s.

(* s[a..b) without boundary checks *)
Definition sub (s : str) (a b : N) : str := takeN (b - a) (dropN a s).

(* is offset p a char boundary of s (Rust: str::is_char_boundary) *)
Definition is_boundary (s : str) (p : N) : bool :=
  if p =? 0 then true
  else match dropN p s with
       | [] => p =? len s
       | c :: _ => negb (is_cont c)
       end.

(* &s[a..b] with Rust's panic conditions *)
Definition slice (s : str) (a b : N) : res str :=
  if (a <=? b) && (b <=? len s) && is_boundary s a && is_boundary s b
  then ret (sub s a b) else panic SliceErr.

(* decode the code point starting at the head of s; returns (code point, byte length).
   s is assumed to be valid UTF-8 positioned on a boundary. *)
Definition decode1 (s : str) : option (N * N) :=
  match s with
  | [] => None
  | b0 :: t =>
    if b0 <? 128 then Some (b0, 1)
    else if b0 <? 224 then
      match t with b1 :: _ => Some ((b0 - 192) * 64 + (b1 - 128), 2) | _ => Some (b0, 1) end
    else if b0 <? 240 then
      match t with b1 :: b2 :: _ => Some (((b0 - 224) * 64 + (b1 - 128)) * 64 + (b2 - 128), 3)
                 | _ => Some (b0, 1) end
    else
      match t with b1 :: b2 :: b3 :: _ =>
                   Some ((((b0 - 240) * 64 + (b1 - 128)) * 64 + (b2 - 128)) * 64 + (b3 - 128), 4)
                 | _ => Some (b0, 1) end
  end.

(* encode a code point as UTF-8 *)
Definition encode1 (c : N) : str :=
  if c <? 128 then [c]
  else if c <? 2048 then [192 + c / 64; 128 + c mod 64]
  else if c <? 65536 then [224 + c / 4096; 128 + (c / 64) mod 64; 128 + c mod 64]
  else [240 + c / 262144; 128 + (c / 4096) mod 64; 128 + (c / 64) mod 64; 128 + c mod 64].

(* list of code points of a UTF-8 string (chars()) *)
Fixpoint chars_fuel (fuel : nat) (s : str) : list N :=
  match fuel with
  | O => []
  | S f => match decode1 s with
           | None => []
           | Some (c, n) => c :: chars_fuel f (dropN n s)
           end
  end.
Definition chars (s : str) : list N := chars_fuel (length s) s.

Definition unchars (cs : list N) : str := flat_map encode1 cs.

(* last code point before offset p (chars().next_back() on s[..p]) *)
Fixpoint last_char_start (fuel : nat) (s : str) (p : N) : N :=
  match fuel with
  | O => p
  | S f => if p =? 0 then 0
           else match dropN (p - 1) s with
                | c :: _ => if is_cont c then last_char_start f s (p - 1) else p - 1
                | [] => p - 1
                end
  end.
Definition prev_char (s : str) (p : N) : option N :=
  if p =? 0 then None
  else let st := last_char_start 4 s p in
       match decode1 (dropN st s) with Some (c, _) => Some c | None => None end.

(* ------------------------------------------------------------------ *)
(* ASCII classes                                                       *)

Definition between (a b c : N) : bool := (a <=? b) && (b <=? c).
Definition is_digit (b : N) := between 48 b 57.
Definition is_upper (b : N) := between 65 b 90.
Definition is_lower (b : N) := between 97 b 122.
Definition is_alpha (b : N) := is_upper b || is_lower b.
Definition is_alnum (b : N) := is_digit b || is_alpha b.
Definition is_hex (b : N) := is_digit b || between 65 b 70 || between 97 b 102.
Definition is_sptab (b : N) := (b =? 32) || (b =? 9).
(* char::is_ascii_punctuation *)
Definition is_ascii_punct (b : N) :=
  between 33 b 47 || between 58 b 64 || between 91 b 96 || between 123 b 126.
Definition to_ascii_lower (b : N) := if is_upper b then b + 32 else b.

Definition hex_val (b : N) : N :=
  if is_digit b then b - 48 else if between 65 b 70 then b - 55 else b - 87.
Definition hex_digit_upper (n : N) : N := if n <? 10 then 48 + n else 55 + n.
Definition hex_digit_lower (n : N) : N := if n <? 10 then 48 + n else 87 + n.

Fixpoint list_eqb (a b : list N) : bool :=
  match a, b with
  | [], [] => true
  | x :: a', y :: b' => (x =? y) && list_eqb a' b'
  | _, _ => false
  end.

Fixpoint starts_with (p s : str) : bool :=
  match p, s with
  | [], _ => true
  | x :: p', y :: s' => (x =? y) && starts_with p' s'
  | _ :: _, [] => false
  end.

Definition ends_with (p s : str) : bool := starts_with (rev p) (rev s).

Fixpoint mem (x : N) (l : list N) : bool :=
  match l with [] => false | y :: t => (x =? y) || mem x t end.

Fixpoint repeatN (c : N) (n : nat) : str := match n with O => [] | S k => c :: repeatN c k end.

(* decimal rendering of a number *)
Fixpoint dec_fuel (fuel : nat) (n : N) (acc : str) : str :=
  match fuel with
  | O => acc
  | S f => let acc' := (48 + n mod 10) :: acc in
           if n <? 10 then acc' else dec_fuel f (n / 10) acc'
  end.
Definition dec (n : N) : str := dec_fuel 40 n [].

Definition hexs_raw (s : str) : str :=
  flat_map (fun b => [hex_digit_lower (b / 16); hex_digit_lower (b mod 16)]) s.
(* protocol convention: the empty string is written "-" *)
Definition hexs (s : str) : str := match s with [] => [45] | _ => hexs_raw s end.

Fixpoint unhexs (s : str) : str :=
  match s with
  | h :: l :: t => (hex_val h * 16 + hex_val l) :: unhexs t
  | _ => []
  end.

Fixpoint parse_dec (s : str) (acc : N) : N :=
  match s with
  | [] => acc
  | c :: t => parse_dec t (acc * 10 + (c - 48))
  end.

(* split on a separator byte *)
Fixpoint split_on (sep : N) (s : str) (cur : str) : list str :=
  match s with
  | [] => [rev cur]
  | c :: t => if c =? sep then rev cur :: split_on sep t [] else split_on sep t (c :: cur)
  end.
Definition split (sep : N) (s : str) : list str := split_on sep s [].

Fixpoint join (sep : str) (l : list str) : str :=
  match l with
  | [] => []
  | [x] => x
  | x :: t => x ++ sep ++ join sep t
  end.
