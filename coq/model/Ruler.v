(* Ruler.v -- src/common/ruler.rs.  Marks and payloads are numbers. *)
From MdIt Require Import Prims.
Local Open Scope list_scope.
Local Open Scope N_scope.

Inductive prio := PNormal | PBeforeAll | PAfterAll.
Inductive rcons := CBefore (m : N) | CAfter (m : N) | CRequire (m : N).
Record item := Item { marks : list N; value : N; pr : prio; rcs : list rcons }.

(* ------------------------------------------------------------------ *)
(* compile(), following ruler.rs:87-210 statement by statement          *)

(* Vec::insert(pos, x) *)
Fixpoint insert_at {A} (n : nat) (x : A) (l : list A) : list A :=
  match n, l with
  | O, _ => x :: l
  | S n', y :: t => y :: insert_at n' x t
  | S _, [] => [x]
  end.

(* idhash: HashMap<M, Vec<usize>> as an association list; entry(m).or_default().push(idx) *)
Definition idhash := list (N * list nat).
Fixpoint ih_push (h : idhash) (m : N) (idx : nat) : idhash :=
  match h with
  | [] => [(m, [idx])]
  | (k, v) :: t => if k =? m then (k, v ++ [idx]) :: t else (k, v) :: ih_push t m idx
  end.
Fixpoint ih_get (h : idhash) (m : N) : option (list nat) :=
  match h with
  | [] => None
  | (k, v) :: t => if k =? m then Some v else ih_get t m
  end.
(* entry(m).or_default(): creates an empty holder list if absent *)
Definition ih_touch (h : idhash) (m : N) : idhash :=
  match ih_get h m with Some _ => h | None => h ++ [(m, [])] end.
Definition ih_holders (h : idhash) (m : N) : list nat :=
  match ih_get h m with Some v => v | None => [] end.

(* first loop: priority pre-order and idhash *)
Record pre := Pre { p_order : list nat; p_before : nat; p_after : nat; p_hash : idhash }.

Definition pre_step (st : pre) (idx : nat) (d : item) : pre :=
  let h := fold_left (fun h m => ih_push h m idx) (marks d) (p_hash st) in
  match pr d with
  | PNormal => Pre (insert_at (length (p_order st) - p_after st) idx (p_order st)) (p_before st) (p_after st) h
  | PBeforeAll => Pre (insert_at (p_before st) idx (p_order st)) (S (p_before st)) (p_after st) h
  | PAfterAll => Pre (insert_at (length (p_order st)) idx (p_order st)) (p_before st) (S (p_after st)) h
  end.

Fixpoint pre_loop (ds : list item) (idx : nat) (st : pre) : pre :=
  match ds with
  | [] => st
  | d :: t => pre_loop t (S idx) (pre_step st idx d)
  end.

(* deps_graph: Vec<HashSet<usize>>; a set is a duplicate-free list *)
Fixpoint memn (x : nat) (l : list nat) : bool :=
  match l with [] => false | y :: t => Nat.eqb x y || memn x t end.
Definition set_insert (x : nat) (l : list nat) : list nat := if memn x l then l else l ++ [x].
Definition set_remove (x : nat) (l : list nat) : list nat := filter (fun y => negb (Nat.eqb x y)) l.

Fixpoint graph_insert (g : list (list nat)) (at_ : nat) (x : nat) : list (list nat) :=
  match g, at_ with
  | [], _ => []
  | s :: t, O => set_insert x s :: t
  | s :: t, S n => s :: graph_insert t n x
  end.

(* second loop: constraints of one rule *)
Fixpoint cons_loop (idx : nat) (first_mark : N) (cs : list rcons) (h : idhash) (g : list (list nat))
  : res (idhash * list (list nat)) :=
  match cs with
  | [] => ret (h, g)
  | CBefore v :: t =>
    let h' := ih_touch h v in
    cons_loop idx first_mark t h' (fold_left (fun g depidx => graph_insert g depidx idx) (ih_holders h' v) g)
  | CAfter v :: t =>
    let h' := ih_touch h v in
    cons_loop idx first_mark t h' (fold_left (fun g depidx => graph_insert g idx depidx) (ih_holders h' v) g)
  | CRequire v :: t =>
    match ih_get h v with
    | Some (_ :: _) => cons_loop idx first_mark t h g
    | _ => panic Missing
    end
  end.

Fixpoint graph_loop (ds : list item) (order : list nat) (h : idhash) (g : list (list nat))
  : res (idhash * list (list nat)) :=
  match order with
  | [] => ret (h, g)
  | idx :: t =>
    match nth_error ds idx with
    | None => panic UnwrapNone
    | Some d =>
      do hg <- cons_loop idx (hd 0 (marks d)) (rcs d) h g;
      graph_loop ds t (fst hg) (snd hg)
    end
  end.

(* third loop: repeatedly push the first not-yet-inserted rule whose set is empty *)
Fixpoint find_free (order : list nat) (inserted : list nat) (g : list (list nat)) : option nat :=
  match order with
  | [] => None
  | idx :: t =>
    if memn idx inserted then find_free t inserted g
    else match nth_error g idx with
         | Some [] => Some idx
         | _ => find_free t inserted g
         end
  end.

Fixpoint select (remaining : nat) (order : list nat) (inserted : list nat) (g : list (list nat))
                (acc : list nat) : res (list nat) :=
  match remaining with
  | O => ret (rev acc)
  | S r =>
    match find_free order inserted g with
    | Some idx => select r order (idx :: inserted) (map (set_remove idx) g) (idx :: acc)
    | None => panic Cyclic
    end
  end.

Definition compile (ds : list item) : res (list nat) :=
  let st := pre_loop ds 0 (Pre [] 0 0 []) in
  do hg <- graph_loop ds (p_order st) (p_hash st) (map (fun _ => []) ds);
  select (length ds) (p_order st) [] (snd hg) [].

(* ------------------------------------------------------------------ *)
(* the Ruler object: deps plus the OnceCell cache (ruler.rs:51-86,213-235) *)

Record ruler := Ruler { deps : list item; compiled : option (list nat * list N) }.
Definition ruler_new : ruler := Ruler [] None.

Definition r_add (r : ruler) (mark val : N) : ruler :=
  Ruler (deps r ++ [Item [mark] val PNormal []]) None.

(* builder calls on the item returned by add (the last one) *)
Definition upd_last (f : item -> item) (r : ruler) : ruler :=
  match rev (deps r) with
  | [] => r
  | d :: t => Ruler (rev (f d :: t)) (compiled r)
  end.
Definition r_before (m : N) := upd_last (fun d => Item (marks d) (value d) (pr d) (rcs d ++ [CBefore m])).
Definition r_after (m : N) := upd_last (fun d => Item (marks d) (value d) (pr d) (rcs d ++ [CAfter m])).
Definition r_require (m : N) := upd_last (fun d => Item (marks d) (value d) (pr d) (rcs d ++ [CRequire m])).
Definition r_alias (m : N) := upd_last (fun d => Item (marks d ++ [m]) (value d) (pr d) (rcs d)).
Definition r_before_all := upd_last (fun d => Item (marks d) (value d) PBeforeAll (rcs d)).
Definition r_after_all := upd_last (fun d => Item (marks d) (value d) PAfterAll (rcs d)).

Definition r_remove (r : ruler) (mark : N) : ruler :=
  Ruler (filter (fun d => negb (mem mark (marks d))) (deps r)) None.

Definition r_contains (r : ruler) (mark : N) : bool :=
  existsb (fun d => mem mark (marks d)) (deps r).

(* get_or_init: fills the cache on success; a panic leaves it empty *)
Definition r_force (r : ruler) : ruler * res (list nat * list N) :=
  match compiled r with
  | Some c => (r, ret c)
  | None =>
    match compile (deps r) with
    | inl e => (r, inl e)
    | inr idxs =>
      let vals := map (fun i => match nth_error (deps r) i with Some d => value d | None => 0 end) idxs in
      (Ruler (deps r) (Some (idxs, vals)), ret (idxs, vals))
    end
  end.

Definition r_iter (r : ruler) : ruler * res (list N) :=
  let '(r', c) := r_force r in (r', do x <- c; ret (snd x)).

(* Debug: maps every compiled index through deps[idx].marks[0] (unwrap) *)
Definition r_debug (r : ruler) : ruler * res (list (nat * N)) :=
  let '(r', c) := r_force r in
  (r', do x <- c;
       fold_right (fun i acc =>
                     do a <- acc;
                     match nth_error (deps r') i with
                     | Some d => match marks d with m :: _ => ret ((i, m) :: a) | [] => panic UnwrapNone end
                     | None => panic UnwrapNone
                     end) (ret []) (fst x)).

(* ------------------------------------------------------------------ *)
(* specification side (used by the C09 theorems and by the oracle)      *)

(* stable partition by priority class *)
Definition rank_order (ds : list item) : list nat :=
  let idx := seq 0 (length ds) in
  let cls (p : prio) (i : nat) := match nth_error ds i with
                                  | Some d => match pr d, p with
                                              | PBeforeAll, PBeforeAll | PNormal, PNormal | PAfterAll, PAfterAll => true
                                              | _, _ => false end
                                  | None => false end in
  filter (cls PBeforeAll) idx ++ filter (cls PNormal) idx ++ filter (cls PAfterAll) idx.

Definition holds (ds : list item) (i : nat) (m : N) : bool :=
  match nth_error ds i with Some d => mem m (marks d) | None => false end.

(* j must precede i *)
Definition edge (ds : list item) (j i : nat) : bool :=
  match nth_error ds i, nth_error ds j with
  | Some di, Some dj =>
    existsb (fun c => match c with CAfter v => mem v (marks dj) | _ => false end) (rcs di) ||
    existsb (fun c => match c with CBefore v => mem v (marks di) | _ => false end) (rcs dj)
  | _, _ => false
  end.

Definition requires_ok (ds : list item) : bool :=
  forallb (fun d => forallb (fun c => match c with
                                      | CRequire v => existsb (fun d' => mem v (marks d')) ds
                                      | _ => true end) (rcs d)) ds.

Definition preds (ds : list item) (i : nat) : list nat :=
  filter (fun j => edge ds j i) (seq 0 (length ds)).

(* greedy: repeatedly the first rule in rank order that is not placed and whose predecessors are *)
Definition ready (ds : list item) (placed : list nat) (i : nat) : bool :=
  negb (memn i placed) && forallb (fun j => memn j placed) (preds ds i).

Fixpoint greedy (n : nat) (ds : list item) (order placed : list nat) : option (list nat) :=
  match n with
  | O => Some (rev placed)
  | S n' => match find (ready ds placed) order with
            | Some i => greedy n' ds order (i :: placed)
            | None => None
            end
  end.
Definition greedy_rank (ds : list item) : option (list nat) :=
  greedy (length ds) ds (rank_order ds) [].
