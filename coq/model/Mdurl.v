(* Mdurl.v -- src/common/mdurl/{asciiset,encode}.rs *)
From Coq Require Import String.
From MdIt Require Import Prims.
Local Open Scope string_scope.
Local Open Scope list_scope.
Local Open Scope N_scope.

(* asciiset.rs:5-41 -- AsciiSet(u128) *)
Definition aset := N.
Definition aset_empty : aset := 0.
Definition aset_new : aset := 0x07fffffe07fffffe03ff000000000000.
Definition aset_add (s : aset) (b : N) : aset := N.lor s (N.shiftl 1 b).
Definition aset_has (s : aset) (b : N) : bool := N.testbit s b.
Definition aset_add_many (s : aset) (l : list N) : aset := fold_left aset_add l s.
Definition aset_from (l : list N) : aset := aset_add_many aset_new l.

(* encode.rs:18-54.  The `i + 2 < len` guard of the three-byte look-ahead is the
   pattern  h1 :: h2 :: t'  on the remaining bytes. *)
Definition pct (byte : N) : list N := [37; hex_digit_upper (byte / 16); hex_digit_upper (byte mod 16)].

Definition should_encode (safe : aset) (byte : N) : bool := (128 <=? byte) || negb (aset_has safe byte).

Definition starts_2hex (l : list N) : bool :=
  match l with h1 :: h2 :: _ => is_hex h1 && is_hex h2 | _ => false end.

(* NB: no `let` around the recursive calls -- extraction and vm_compute are strict. *)
Fixpoint encode (safe : aset) (keep : bool) (s : list N) : list N :=
  match s with
  | [] => []
  | c :: t =>
    if keep && (c =? 37) && starts_2hex t then
      match t with
      | h1 :: h2 :: t' => c :: h1 :: h2 :: encode safe keep t'
      | _ => (if should_encode safe c then pct c else [c]) ++ encode safe keep t
      end
    else (if should_encode safe c then pct c else [c]) ++ encode safe keep t
  end.

(* main.rs:71-74 -- normalize_link *)
Definition normalize_safe : aset := aset_from (bs ";/?:@&=+$,-_.!~*'()#").
Definition normalize_link (s : str) : str := encode normalize_safe true s.

(* ---- specification-side definitions used by the C17 theorems ---- *)

(* output grammar: safe single bytes (ASCII) and well-formed %XX triplets *)
Fixpoint enc_grammar (safe : aset) (l : list N) : bool :=
  match l with
  | [] => true
  | c :: t =>
    if (c <? 128) && aset_has safe c then enc_grammar safe t
    else if c =? 37 then
      match t with
      | h1 :: h2 :: t' => is_hex h1 && is_hex h2 && enc_grammar safe t'
      | _ => false
      end
    else false
  end.

(* percent-decoding: every valid %XX becomes its byte, everything else is kept *)
Fixpoint pct_dec (l : list N) : list N :=
  match l with
  | [] => []
  | c :: t =>
    match t with
    | h1 :: h2 :: t' =>
      if (c =? 37) && is_hex h1 && is_hex h2
      then (hex_val h1 * 16 + hex_val h2) :: pct_dec t'
      else c :: pct_dec t
    | _ => c :: pct_dec t
    end
  end.
