(* Extraction of the executable model to OCaml.  Directives used: ExtrOcamlBasic only
   (bool, option, unit, list, prod, sumbool, sumor mapped to OCaml's own types).  N, Z and
   positive stay the extracted inductive types. *)
From Coq Require Extraction.
From Coq Require Import ExtrOcamlBasic.
From MdIt Require Import Dispatch.
Extraction "../driver/model.ml" dispatch.
