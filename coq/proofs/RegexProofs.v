(* The matcher only ever consumes a prefix of its input, at least min_len code points long. *)
From MdIt Require Import Prims Tables NormRef Regex.
From Coq Require Import Lia.
Local Open Scope list_scope.
Local Open Scope nat_scope.

Fixpoint min_len (r : re) : nat :=
  match r with
  | REps => 0
  | RChr _ => 1
  | RSeq a b => min_len a + min_len b
  | RAlt a b => Nat.min (min_len a) (min_len b)
  | RStar _ | RStarLazy _ | RRep _ _ _ | REnd => 0
  end.

Definition consumed (m : nat) (s : list N) (k : list N -> option (list N)) (x : list N) : Prop :=
  exists pre s', s = pre ++ s' /\ m <= length pre /\ k s' = Some x.

Lemma consumed_0 s k x : k s = Some x -> consumed 0 s k x.
Proof. intros H. exists [], s. repeat split; auto. Qed.

Lemma consumed_weaken m m' s k x : m' <= m -> consumed m s k x -> consumed m' s k x.
Proof. intros H (pre & s' & A & B & C). exists pre, s'. repeat split; auto. lia. Qed.

Lemma consumed_trans m1 m2 s k k' x :
  consumed m1 s k' x -> (forall s', k' s' = Some x -> consumed m2 s' k x) -> consumed (m1 + m2) s k x.
Proof.
  intros (pre & s' & -> & B & C) H. destruct (H s' C) as (pre2 & s2 & -> & B2 & C2).
  exists (pre ++ pre2), s2. rewrite app_assoc, app_length. repeat split; auto. lia.
Qed.

Lemma rmatch_consumes r : forall s k x, rmatch r s k = Some x -> consumed (min_len r) s k x.
Proof.
  induction r as [|p|a IHa b IHb|a IHa b IHb|a IHa|a IHa|a IHa lo hi|]; intros s k x H; cbn [rmatch min_len] in *.
  - apply consumed_0. exact H.
  - destruct s as [|c t]; [discriminate|]. destruct (p c); [|discriminate]. exists [c], t. repeat split; auto.
  - eapply consumed_trans; [apply IHa; exact H|]. intros s' Hs. apply IHb. exact Hs.
  - destruct (rmatch a s k) eqn:E; cbn [orelse] in H.
    + injection H as <-. eapply consumed_weaken; [|apply IHa; exact E]. lia.
    + eapply consumed_weaken; [|apply IHb; exact H]. lia.
  - revert H. generalize (length s) at 1. intros n. revert s. induction n as [|n IHn]; intros s H; [apply consumed_0; exact H|].
    match type of H with orelse ?m _ = _ => destruct m eqn:E end; cbn [orelse] in H; [|apply consumed_0; exact H].
    injection H as <-. apply IHa in E. change 0 with (0 + 0). eapply consumed_trans; [eapply consumed_weaken; [|exact E]; lia|].
    intros s' Hs. cbv beta in Hs. match type of Hs with (if ?c then _ else _) = _ => destruct c end; [|discriminate]. apply IHn. exact Hs.
  - revert H. generalize (length s) at 1. intros n. revert s. induction n as [|n IHn]; intros s H; [apply consumed_0; exact H|].
    destruct (k s) eqn:Ek; cbn [orelse] in H; [injection H as <-; apply consumed_0; exact Ek|].
    apply IHa in H. change 0 with (0 + 0). eapply consumed_trans; [eapply consumed_weaken; [|exact H]; lia|].
    intros s' Hs. cbv beta in Hs. match type of Hs with (if ?c then _ else _) = _ => destruct c end; [|discriminate]. apply IHn. exact Hs.
  - revert lo s H. induction hi as [|hi IHh]; intros lo s H; [apply consumed_0; exact H|].
    destruct lo as [|lo].
    + match type of H with orelse ?m _ = _ => destruct m eqn:E end; cbn [orelse] in H; [|apply consumed_0; exact H].
      injection H as <-. apply IHa in E. change 0 with (0 + 0). eapply consumed_trans; [eapply consumed_weaken; [|exact E]; lia|].
      intros s' Hs. cbv beta in Hs. apply (IHh 0). exact Hs.
    + apply IHa in H. change 0 with (0 + 0). eapply consumed_trans; [eapply consumed_weaken; [|exact H]; lia|].
      intros s' Hs. cbv beta in Hs. apply (IHh lo). exact Hs.
  - destruct s; [apply consumed_0; exact H|discriminate].
Qed.

Lemma match_prefix_consumes r s rest : match_prefix r s = Some rest ->
  exists pre, s = pre ++ rest /\ min_len r <= length pre.
Proof.
  intros H. apply rmatch_consumes in H. destruct H as (pre & s' & -> & B & C). injection C as ->. exists pre. auto.
Qed.
