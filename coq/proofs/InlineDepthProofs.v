(* The nesting limit bounds the depth added by the inline parser for every chain of inline rules that does
   not contain the emphasis-pair rules (property C02; emphasis nesting is the open finding F3). *)
From Coq Require Import String.
From MdIt Require Import Prims Tables Escape NormRef Mdurl LinkParse Tree Regex HtmlRe Block Inline.
From MdIt Require Import BlockProofs InlineProofs LookaheadProofs RangeProofs DepthProofs.
From Coq Require Import Lia ZifyBool ZifyN ZifyNat.
Local Open Scope list_scope.
Local Open Scope N_scope.

Arguments N.eqb : simpl never.
Arguments N.leb : simpl never.
Arguments N.ltb : simpl never.
Arguments N.add : simpl never.
Arguments N.sub : simpl never.

Definition idepth (st : istate) : nat := depth_of (i_node st).

Lemma split_last_spec {A} (l : list A) i x : split_last l = Some (i, x) -> l = i ++ [x].
Proof.
  unfold split_last. destruct (rev l) as [|y r] eqn:E; [discriminate|]. intros H. injection H as <- <-.
  apply (f_equal (@rev A)) in E. rewrite rev_involutive in E. cbn in E. exact E.
Qed.

Lemma idepth_ipush st x : idepth (ipush st x) = Nat.max (idepth st) (S (depth_of x)).
Proof. unfold idepth, ipush. cbn [i_node iset_node]. apply depth_push. Qed.

Lemma depth_replace_last n init k m a e cs k' m' :
  n_children n = init ++ [Node k m a e cs] ->
  depth_of (set_children n (init ++ [Node k' m' a e cs])) = depth_of n.
Proof.
  intros H. destruct n as [k0 m0 a0 e0 cs0]. cbn [n_children set_children] in *. subst cs0. rewrite !depth_node, !cdepth_app. reflexivity.
Qed.

Lemma depth_drop_last n init x : n_children n = init ++ [x] -> (depth_of (set_children n init) <= depth_of n)%nat.
Proof.
  intros H. destruct n as [k0 m0 a0 e0 cs0]. cbn [n_children set_children] in *. subst cs0. rewrite !depth_node, cdepth_app. lia.
Qed.

Lemma ttpush_depth st a b st' : trailing_text_push st a b = inr st' -> (idepth st' <= Nat.max (idepth st) 1)%nat.
Proof.
  unfold trailing_text_push. intros H. hinv H; injection H as <-; try (rewrite idepth_ipush, depth_mk0; lia).
  all: match goal with E : split_last _ = Some _ |- _ => apply split_last_spec in E end.
  all: unfold idepth; cbn [i_node iset_node]; erewrite depth_replace_last by eassumption; lia.
Qed.

Lemma ttpop_depth st n st' : trailing_text_pop st n = inr st' -> (idepth st' <= idepth st)%nat.
Proof.
  unfold trailing_text_pop. intros H. hinv H; injection H as <-; try lia.
  all: match goal with E : split_last _ = Some _ |- _ => apply split_last_spec in E end.
  all: unfold idepth; cbn [i_node iset_node].
  all: first [erewrite depth_replace_last by eassumption; lia | eapply depth_drop_last; eassumption].
Qed.

(* rules that do not recurse add at most two levels (a node with one text child) *)
Ltac push2 := rewrite ?idepth_ipush; unfold idepth; cbn [i_node iset_node iset_bt iset_ll set_bt]; rewrite ?depth_mk0, ?depth_mk1; unfold idepth; lia.

Lemma rule_text_depth cfg st st' o : rule_text cfg st false = inr (st', o) -> (idepth st' <= Nat.max (idepth st) 2)%nat.
Proof.
  unfold rule_text. intros H. hinv H; injection H as <- _; try lia.
  match goal with E : trailing_text_push _ _ _ = inr _ |- _ => apply ttpush_depth in E end. lia.
Qed.
Lemma rule_newline_depth st st' o : rule_newline st false = inr (st', o) -> (idepth st' <= Nat.max (idepth st) 2)%nat.
Proof.
  unfold rule_newline. intros H. hinv H; injection H as <- _; try lia.
  all: match goal with E : trailing_text_pop _ _ = inr _ |- _ => apply ttpop_depth in E end.
  all: rewrite idepth_ipush, depth_mk0; lia.
Qed.
Lemma rule_escape_depth st st' o : rule_escape st false = inr (st', o) -> (idepth st' <= Nat.max (idepth st) 2)%nat.
Proof. unfold rule_escape. intros H. hinv H; injection H as <- _; push2. Qed.
Lemma rule_code_pair_depth st m st' o : rule_code_pair st m false = inr (st', o) -> (idepth st' <= Nat.max (idepth st) 2)%nat.
Proof. unfold rule_code_pair. intros H. hinv H; injection H as <- _; push2. Qed.
Lemma rule_autolink_depth st st' o : rule_autolink st false = inr (st', o) -> (idepth st' <= Nat.max (idepth st) 2)%nat.
Proof. unfold rule_autolink. intros H. hinv H; injection H as <- _; push2. Qed.
Lemma rule_entity_depth st st' o : rule_entity st false = inr (st', o) -> (idepth st' <= Nat.max (idepth st) 2)%nat.
Proof. unfold rule_entity. intros H. hinv H; injection H as <- _; push2. Qed.
Lemma rule_html_inline_depth st st' o : rule_html_inline st false = inr (st', o) -> (idepth st' <= Nat.max (idepth st) 2)%nat.
Proof. unfold rule_html_inline. intros H. hinv H; injection H as <- _; push2. Qed.
Lemma rule_custom_inline_depth st p v st' o : rule_custom_inline st p v false = inr (st', o) -> (idepth st' <= Nat.max (idepth st) 2)%nat.
Proof. unfold rule_custom_inline. intros H. hinv H; injection H as <- _; push2. Qed.

Definition no_emph (chain : list N) : bool :=
  forallb (fun r => negb ((r =? I_EMPH_STAR) || (r =? I_EMPH_UNDER) || (r =? I_STRIKE))) chain.

Section Engine.
Variable cfg : icfg.
Variable f : nat.
Let TK := itokenize f cfg.
Let SK := iskip f cfg.
Definition D (lv : N) : nat := S (N.to_nat (ic_maxnest cfg - lv)).

Hypothesis TK_depth : forall st st', cache_ok st -> TK st = inr st' -> (idepth st' <= Nat.max (idepth st) (D (i_level st)))%nat.

(* frame facts from the termination development, read off successful results *)
Let LT := ic_maxnest cfg + 2 - N.of_nat f.
Let LS := ic_maxnest cfg + 1 - N.of_nat f.
Lemma TKok : forall st, cache_ok st -> gspec (condT cfg LT (i_level st)) cache_ok (TK st).
Proof. exact (proj1 (itokenize_iskip_spec cfg f)). Qed.
Lemma SKok : forall st, cache_ok st -> i_pos st < i_max st -> gspec (condS cfg LS (i_level st)) (spost_i st) (SK st).
Proof. exact (proj2 (itokenize_iskip_spec cfg f)). Qed.

Lemma rcond_false silent lv : rcond cfg LT LS false silent lv.
Proof. split; intros; discriminate. Qed.

Lemma run_rule_frame r st silent st' o : cache_ok st -> run_rule cfg TK SK r st silent = inr (st', o) -> ipost st (st', o).
Proof.
  intros Hc H. pose proof (run_rule_spec cfg TK SK LT LS TKok SKok false r st silent Hc (rcond_false _ _)) as S.
  rewrite H in S. exact S.
Qed.

Lemma D_step lv : lv <? ic_maxnest cfg = true -> D lv = S (D (lv + 1)).
Proof. intros H. unfold D. f_equal. lia. Qed.
Lemma D_ge2 lv : lv <? ic_maxnest cfg = true -> (2 <= D lv)%nat.
Proof. intros H. unfold D. lia. Qed.

Lemma rule_link_depth st nested offset mkk st' o : cache_ok st -> i_level st <? ic_maxnest cfg = true ->
  rule_link TK SK st false nested offset mkk = inr (st', o) -> (idepth st' <= Nat.max (idepth st) (D (i_level st)))%nat.
Proof.
  intros Hc Hl. unfold rule_link. cbv zeta.
  pose proof (parse_link_spec cfg TK SK LT LS TKok SKok false st (i_pos st + offset) nested Hc ltac:(discriminate)) as Sp.
  destruct (parse_link SK st (i_pos st + offset) nested) as [|[s1 pl]] eqn:E; cbn [bind]; [discriminate|].
  cbn in Sp. destruct Sp as [[(Hc1 & Hs1 & Hm1 & Hl1) Hp1] _]. cbn [fst] in *.
  pose proof (parse_link_node SK (iskip_node_untouched cfg f) _ _ _ _ _ E) as Hn.
  destruct pl as [p|]; [|intros H; injection H as <- _; unfold idepth; rewrite Hn; lia].
  match goal with |- bind (TK ?inner) _ = _ -> _ => destruct (TK inner) as [|inner'] eqn:Et end; cbn [bind]; [discriminate|].
  apply TK_depth in Et; [|exact Hc1]. unfold idepth in Et. cbn [i_node i_level] in Et. rewrite depth_mk0, Hl1 in Et.
  intros H. hinv H. injection H as <- _. unfold idepth. cbn [i_node iset_ll ipush iset_node]. rewrite depth_push, depth_set_map, Hn.
  rewrite (D_step _ Hl). lia.
Qed.

Lemma rule_code_pair_tok_depth st m st' o : cache_ok st -> i_level st <? ic_maxnest cfg = true ->
  rule_code_pair_tok TK st m false = inr (st', o) -> (idepth st' <= Nat.max (idepth st) (D (i_level st)))%nat.
Proof.
  intros Hc Hl. unfold rule_code_pair_tok.
  destruct (irest st) as [|rest]; cbn [bind]; [discriminate|]. destruct rest as [|ch t]; [discriminate|].
  destruct (negb (ch =? m)); [intros H; injection H as <- _; lia|].
  destruct (match rev (trailing_text_get st) with x :: _ => x =? m | [] => false end); [intros H; injection H as <- _; lia|].
  destruct (get_bt st m) as [scanned maxv]. destruct (_ && _); [intros H; injection H as <- _; lia|].
  destruct (code_scan _ _ _ _ _ _) as [|[o1 mv]]; cbn [bind]; [discriminate|]. cbn [fst snd].
  destruct o1 as [[ms me]|]; [|intros H; injection H as <- _; unfold idepth; cbn [i_node set_bt iset_bt]; lia].
  destruct (isl st _ ms) as [|raw]; cbn [bind]; [discriminate|]. cbv zeta.
  destruct (iget_map st (i_pos st) me) as [|mp]; cbn [bind]; [discriminate|].
  match goal with |- bind (TK ?inner) _ = _ -> _ => destruct (TK inner) as [|inner'] eqn:Et end; cbn [bind]; [discriminate|].
  apply TK_depth in Et; [|intros x y []]. unfold idepth in Et. cbn [i_node i_level set_bt iset_bt] in Et. rewrite depth_mk0 in Et.
  destruct (_ <=? me); [|discriminate]. intros H. injection H as <- _. unfold idepth. cbn [i_node set_bt iset_bt].
  rewrite depth_push, (D_step _ Hl). lia.
Qed.

Lemma run_rule_depth r st st' o : cache_ok st -> i_level st <? ic_maxnest cfg = true ->
  negb ((r =? I_EMPH_STAR) || (r =? I_EMPH_UNDER) || (r =? I_STRIKE)) = true ->
  run_rule cfg TK SK r st false = inr (st', o) -> (idepth st' <= Nat.max (idepth st) (D (i_level st)))%nat.
Proof.
  intros Hc Hl Hr. pose proof (D_ge2 _ Hl) as H2. unfold run_rule.
  assert (W : (idepth st' <= Nat.max (idepth st) 2)%nat -> (idepth st' <= Nat.max (idepth st) (D (i_level st)))%nat) by lia.
  assert (Dn : ret (st, @None N) = inr (st', o) -> (idepth st' <= Nat.max (idepth st) (D (i_level st)))%nat) by (intros H; injection H as <- _; lia).
  destruct (r =? I_TEXT); [intros H; apply W; eapply rule_text_depth; exact H|].
  destruct (r =? I_NEWLINE); [intros H; apply W; eapply rule_newline_depth; exact H|].
  destruct (r =? I_ESCAPE); [intros H; apply W; eapply rule_escape_depth; exact H|].
  destruct (r =? I_BACKTICK); [intros H; apply W; eapply rule_code_pair_depth; exact H|].
  destruct (r =? I_EMPH_STAR); [discriminate Hr|].
  destruct (r =? I_EMPH_UNDER); [discriminate Hr|].
  destruct (r =? I_STRIKE); [discriminate Hr|].
  destruct (r =? I_LINK).
  { destruct (irest st) as [|rest]; cbn [bind]; [discriminate|]. destruct rest as [|ch t]; [discriminate|].
    destruct (ch =? 91); [apply rule_link_depth; assumption|exact Dn]. }
  destruct (r =? I_IMAGE).
  { destruct (irest st) as [|rest]; cbn [bind]; [discriminate|].
    destruct rest as [|a0 t0]; [exact Dn|]. lit_cases_k a0 ltac:(exact Dn).
    destruct t0 as [|a1 t1]; [exact Dn|]. lit_cases_k a1 ltac:(exact Dn).
    apply rule_link_depth; assumption. }
  destruct (r =? I_LINKEND); [exact Dn|].
  destruct (r =? I_AUTOLINK); [intros H; apply W; eapply rule_autolink_depth; exact H|].
  destruct (r =? I_ENTITY); [intros H; apply W; eapply rule_entity_depth; exact H|].
  destruct (r =? I_HTMLINLINE); [intros H; apply W; eapply rule_html_inline_depth; exact H|].
  destruct (r =? I_CUSTOM_LETTER); [intros H; apply W; eapply rule_custom_inline_depth; exact H|].
  destruct (r =? I_CUSTOM_PUNCT); [intros H; apply W; eapply rule_custom_inline_depth; exact H|].
  destruct (r =? I_CUSTOM_PAIR); [apply rule_code_pair_tok_depth; assumption|].
  exact Dn.
Qed.

Lemma try_rules_depth chain : forall st st' o, cache_ok st -> i_level st <? ic_maxnest cfg = true -> no_emph chain = true ->
  try_rules cfg TK SK chain st false false = inr (st', o) ->
  ipost st (st', o) /\ (idepth st' <= Nat.max (idepth st) (D (i_level st)))%nat.
Proof.
  induction chain as [|r t IH]; intros st st' o Hc Hl Hne; cbn [try_rules].
  { intros H. injection H as <- <-. split; [|lia]. split; cbn [fst snd]; [repeat split; auto|reflexivity]. }
  cbn [no_emph forallb] in Hne. apply andb_true_iff in Hne. destruct Hne as [Hr Ht].
  destruct (run_rule cfg TK SK r st false) as [|[s1 o1]] eqn:E; cbn [bind]; [discriminate|]. cbn [fst snd].
  pose proof (run_rule_frame _ _ _ _ _ Hc E) as F. pose proof (run_rule_depth _ _ _ _ Hc Hl Hr E) as Dp.
  destruct o1 as [n|]; [intros H; injection H as <- <-; split; assumption|].
  destruct F as [(Hc1 & Hs1 & Hm1 & Hl1) Hp1]. cbn [fst snd] in *.
  intros H. apply IH in H; [|exact Hc1|rewrite Hl1; exact Hl|exact Ht]. destruct H as [F2 D2]. split.
  - eapply ipost_trans; [|exact Hp1|exact F2]. repeat split; auto.
  - rewrite Hl1 in D2. lia.
Qed.

Lemma itok_loop_depth n : forall st end_ st', cache_ok st -> no_emph (ic_chain cfg) = true ->
  tok_loop cfg TK SK n st end_ = inr st' -> (idepth st' <= Nat.max (idepth st) (D (i_level st)))%nat.
Proof.
  induction n as [|n IH]; intros st end_ st' Hc Hne; cbn [tok_loop].
  - destruct (negb _); [|discriminate]. intros H. injection H as <-. lia.
  - destruct (negb _); [intros H; injection H as <-; lia|].
    assert (P : exists s1 o, (if i_level st <? ic_maxnest cfg then try_rules cfg TK SK (ic_chain cfg) st false false else ret (st, None)) = inr (s1, o) ->
                True) by (exists st, None; auto). clear P.
    destruct (i_level st <? ic_maxnest cfg) eqn:El.
    + destruct (try_rules cfg TK SK (ic_chain cfg) st false false) as [|[s1 o]] eqn:Et; cbn [bind]; [discriminate|]. cbn [fst snd].
      apply try_rules_depth in Et; [|exact Hc|exact El|exact Hne]. destruct Et as [[(Hc1 & Hs1 & Hm1 & Hl1) Hp1] D1]. cbn [fst snd] in *.
      destruct o as [n'|].
      * destruct (_ <=? _); [intros H; injection H as <-; unfold idepth in *; cbn [i_node iset_pos]; lia|].
        intros H. apply IH in H; [|exact Hc1|exact Hne]. unfold idepth in *. cbn [i_node i_level iset_pos] in H. rewrite Hl1 in H. lia.
      * destruct (first_char_len s1) as [|cl]; cbn [bind]; [discriminate|].
        destruct (trailing_text_push s1 _ _) as [|s2] eqn:Ep; cbn [bind]; [discriminate|].
        pose proof (ttpush_spec false s1 (i_pos s1) (i_pos s1 + cl)) as Fp. rewrite Ep in Fp. cbn in Fp. destruct Fp as (F1 & F2 & F3 & F4 & F5).
        apply ttpush_depth in Ep. intros H. apply IH in H; [| |exact Hne].
        -- unfold idepth in *. cbn [i_node i_level iset_pos] in H. rewrite F3, Hl1 in H. unfold D in *. lia.
        -- unfold cache_ok. cbn [i_cache iset_pos]. rewrite F4. exact Hc1.
    + cbn [bind ret fst snd].
      destruct (first_char_len st) as [|cl]; cbn [bind]; [discriminate|].
      destruct (trailing_text_push st _ _) as [|s2] eqn:Ep; cbn [bind]; [discriminate|].
      pose proof (ttpush_spec false st (i_pos st) (i_pos st + cl)) as Fp. rewrite Ep in Fp. cbn in Fp. destruct Fp as (F1 & F2 & F3 & F4 & F5).
      apply ttpush_depth in Ep. intros H. apply IH in H; [| |exact Hne].
      * unfold idepth in *. cbn [i_node i_level iset_pos] in H. rewrite F3 in H. unfold D in *. lia.
      * unfold cache_ok. cbn [i_cache iset_pos]. rewrite F4. exact Hc.
Qed.
End Engine.

Theorem itokenize_depth cfg : no_emph (ic_chain cfg) = true -> forall f st st', cache_ok st ->
  itokenize f cfg st = inr st' -> (idepth st' <= Nat.max (idepth st) (D cfg (i_level st)))%nat.
Proof.
  intros Hne. induction f as [|f IH]; intros st st' Hc; cbn [itokenize]; [discriminate|].
  unfold tokenize_body. apply (itok_loop_depth cfg f IH); assumption.
Qed.

(* one inline root: at most max_nesting + 1 levels below it *)
Theorem inline_parse_depth fuel cfg src map_ k m a e refs root' : no_emph (ic_chain cfg) = true ->
  inline_parse fuel cfg src map_ (Node k m a e []) refs = inr root' -> (depth_of root' <= S (N.to_nat (ic_maxnest cfg)))%nat.
Proof.
  intros Hne. unfold inline_parse. cbv zeta. destruct (itokenize _ _ _) as [|st'] eqn:E; cbn [bind]; [discriminate|].
  intros H. injection H as <-. apply itokenize_depth in E; [|exact Hne|intros x y []].
  unfold idepth, D in E. cbn [i_node i_level] in E. rewrite depth_node in E. cbn [cdepth fold_right] in E.
  replace (ic_maxnest cfg - 0) with (ic_maxnest cfg) in E by lia. lia.
Qed.
