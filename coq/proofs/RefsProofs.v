(* The reference map of an inline state is never modified by look-ahead: mechanical twin of the
   "look-ahead leaves the tree alone" lemmas of LookaheadProofs.v, for the field i_refs (used by C04). *)
From Coq Require Import String.
From MdIt Require Import Prims Tables Escape NormRef Indent Mdurl LinkParse Tree Regex HtmlRe Block Inline.
From MdIt Require Import BlockProofs InlineProofs LookaheadProofs.
From Coq Require Import Lia ZifyBool ZifyN ZifyNat.
Local Open Scope list_scope.
Local Open Scope N_scope.

Arguments N.eqb : simpl never.
Arguments N.leb : simpl never.
Arguments N.ltb : simpl never.
Arguments N.add : simpl never.
Arguments N.sub : simpl never.

Ltac refs_same H := hinv H; injection H as <- _; reflexivity.

Lemma silent_text_r cfg st ss o : rule_text cfg st true = inr (ss, o) -> i_refs ss = i_refs st.
Proof. unfold rule_text. intros H. refs_same H. Qed.
Lemma silent_newline_r st ss o : rule_newline st true = inr (ss, o) -> i_refs ss = i_refs st.
Proof. unfold rule_newline. intros H. refs_same H. Qed.
Lemma silent_escape_r st ss o : rule_escape st true = inr (ss, o) -> i_refs ss = i_refs st.
Proof. unfold rule_escape. intros H. refs_same H. Qed.
Lemma silent_code_pair_r st m ss o : rule_code_pair st m true = inr (ss, o) -> i_refs ss = i_refs st.
Proof. unfold rule_code_pair. intros H. refs_same H. Qed.
Lemma silent_emph_r cfg m cs st ss o : rule_emph cfg m cs st true = inr (ss, o) -> i_refs ss = i_refs st.
Proof. unfold rule_emph. intros H. refs_same H. Qed.
Lemma silent_autolink_r st ss o : rule_autolink st true = inr (ss, o) -> i_refs ss = i_refs st.
Proof. unfold rule_autolink. intros H. refs_same H. Qed.
Lemma silent_entity_r st ss o : rule_entity st true = inr (ss, o) -> i_refs ss = i_refs st.
Proof. unfold rule_entity. intros H. refs_same H. Qed.
Lemma silent_html_inline_r st ss o : rule_html_inline st true = inr (ss, o) -> i_refs ss = i_refs st.
Proof. unfold rule_html_inline. intros H. refs_same H. Qed.
Lemma silent_custom_r st p v ss o : rule_custom_inline st p v true = inr (ss, o) -> i_refs ss = i_refs st.
Proof. unfold rule_custom_inline. intros H. refs_same H. Qed.


Section SilentEngineRefs.
Variable cfg : icfg.
Variable TK SK : istate -> res istate.
Hypothesis SK_node_r : forall st st', SK st = inr st' -> i_refs st' = i_refs st.

Lemma label_loop_node_r n : forall st level nested st' r,
  label_loop SK n st level nested = inr (st', r) -> i_refs st' = i_refs st.
Proof.
  induction n as [|n IH]; intros st level nested st' r; cbn [label_loop]; [discriminate|].
  destruct (irest st) as [|rest]; cbn [bind]; [discriminate|].
  destruct rest as [|ch t]; [intros H; injection H as <- _; reflexivity|].
  destruct (_ && _); [intros H; injection H as <- _; reflexivity|].
  destruct (SK st) as [|s1] eqn:Es; cbn [bind]; [discriminate|]. apply SK_node_r in Es.
  destruct (ch =? 91).
  - destruct (_ =? _); [intros H; apply IH in H; congruence|].
    destruct (negb nested); [intros H; injection H as <- _; exact Es|intros H; apply IH in H; congruence].
  - intros H; apply IH in H; congruence.
Qed.

Lemma parse_link_label_node_r st start nested st' r :
  parse_link_label SK st start nested = inr (st', r) -> i_refs st' = i_refs st.
Proof.
  unfold parse_link_label. cbv zeta. destruct (label_loop _ _ _ _ _) as [|[s1 r1]] eqn:E; cbn [bind]; [discriminate|].
  apply label_loop_node_r in E. intros H. injection H as <- _. cbn [i_refs iset_pos fst] in *. exact E.
Qed.

Lemma parse_link_node_r st pos0 nested st' r :
  parse_link SK st pos0 nested = inr (st', r) -> i_refs st' = i_refs st.
Proof.
  unfold parse_link. destruct (parse_link_label SK st pos0 nested) as [|[s1 le]] eqn:E; cbn [bind]; [discriminate|].
  apply parse_link_label_node_r in E. destruct le as [label_end|]; [|intros H; injection H as <- _; exact E].
  cbv zeta. destruct (isl s1 (label_end + 1) (i_max s1)) as [|after]; cbn [bind]; [discriminate|].
  match goal with |- (match ?ir with Some _ => _ | None => _ end) = _ -> _ => destruct ir end; [intros H; injection H as <- _; exact E|].
  assert (K : forall (X : res (istate * option str * N)),
             (forall s2 ml p, X = inr (s2, ml, p) -> i_refs s2 = i_refs st) ->
             forall F, (forall s2 ml p, match F (s2, ml, p) with inr (s3, _) => s3 = s2 | inl _ => True end) ->
             bind X F = inr (st', r) -> i_refs st' = i_refs st).
  { intros X HX F HF. destruct X as [|[[s2 ml] p]]; cbn [bind]; [discriminate|]. specialize (HX s2 ml p eq_refl). specialize (HF s2 ml p).
    intros H. rewrite H in HF. subst st'. exact HX. }
  apply K.
  - intros s2 ml p. destruct after as [|a0 t0]; [intros H; injection H as <- _ _; exact E|].
    assert (D : ret (s1, @None str, label_end + 1) = inr (s2, ml, p) -> i_refs s2 = i_refs st) by (intros H; injection H as <- _ _; exact E).
    lit_cases_k a0 ltac:(exact D).
    destruct (parse_link_label SK s1 (label_end + 1) false) as [|[s2' e2]] eqn:E2; cbn [bind]; [discriminate|].
    apply parse_link_label_node_r in E2. cbn [fst snd]. destruct e2; intros H; injection H as <- _ _; congruence.
  - intros s2 ml p. cbv beta iota. destruct (ref_get _ _); reflexivity.
Qed.

Lemma rule_link_silent_node_r st nested offset mkk ss o :
  rule_link TK SK st true nested offset mkk = inr (ss, o) -> i_refs ss = i_refs st.
Proof.
  unfold rule_link. cbv zeta. destruct (parse_link SK st (i_pos st + offset) nested) as [|[s1 pl]] eqn:E; cbn [bind]; [discriminate|].
  apply parse_link_node_r in E. destruct pl as [p|]; [|intros H; injection H as <- _; exact E].
  destruct (_ <=? _); [|discriminate]. intros H; injection H as <- _; exact E.
Qed.

Lemma run_rule_silent_node_r r st ss o : run_rule cfg TK SK r st true = inr (ss, o) -> i_refs ss = i_refs st.
Proof.
  unfold run_rule.
  repeat match goal with |- (if ?b then _ else _) = _ -> _ => destruct b end;
    try solve [intros H; first [apply silent_text_r in H | apply silent_newline_r in H | apply silent_escape_r in H
      | apply silent_code_pair_r in H | apply silent_emph_r in H | apply silent_autolink_r in H | apply silent_entity_r in H
      | apply silent_html_inline_r in H | apply silent_custom_r in H]; exact H];
    try (intros H; injection H as <- _; reflexivity).
  - destruct (irest st) as [|rest]; cbn [bind]; [discriminate|]. destruct rest as [|ch t]; [discriminate|].
    destruct (ch =? 91); [apply (rule_link_silent_node_r st false 0 KLink)|intros H; injection H as <- _; reflexivity].
  - destruct (irest st) as [|rest]; cbn [bind]; [discriminate|].
    assert (D : ret (st, @None N) = inr (ss, o) -> i_refs ss = i_refs st) by (intros H; injection H as <- _; reflexivity).
    destruct rest as [|a0 t0]; [exact D|]. lit_cases_k a0 ltac:(exact D).
    destruct t0 as [|a1 t1]; [exact D|]. lit_cases_k a1 ltac:(exact D).
    apply (rule_link_silent_node_r st true 1 KImage).
Qed.

Lemma try_rules_silent_node_r bump chain : forall st ss o,
  try_rules cfg TK SK chain st true bump = inr (ss, o) -> i_refs ss = i_refs st.
Proof.
  induction chain as [|r t IH]; intros st ss o; cbn [try_rules]; [intros H; injection H as <- _; reflexivity|].
  destruct (run_rule _ _ _ _ _ _) as [|[s1 o1]] eqn:E; cbn [bind]; [discriminate|]. apply run_rule_silent_node_r in E.
  cbn [fst snd]. assert (E' : i_refs (if bump then iset_level s1 (i_level st) else s1) = i_refs st).
  { destruct bump; cbn [i_refs iset_level] in *; exact E. }
  destruct o1; [intros H; injection H as <- _; exact E'|]. intros H. apply IH in H. congruence.
Qed.

Lemma skip_token_body_node_r st st' : skip_token_body cfg TK SK st = inr st' -> i_refs st' = i_refs st.
Proof.
  unfold skip_token_body. cbv zeta. destruct (cache_get st (i_pos st)); [intros H; injection H as <-; reflexivity|].
  destruct (_ <? _); [|intros H; injection H as <-; reflexivity].
  destruct (try_rules _ _ _ _ _ _ _) as [|[s1 o]] eqn:E; cbn [bind]; [discriminate|]. apply try_rules_silent_node_r in E. cbn [fst snd].
  destruct o; cbn [bind ret].
  - intros H; injection H as <-. cbn [i_refs iset_cache iset_pos]. exact E.
  - destruct (first_char_len s1); cbn [bind]; [discriminate|]. intros H; injection H as <-. cbn [i_refs iset_cache iset_pos]. exact E.
Qed.
End SilentEngineRefs.

(* skip_token (the look-ahead used while scanning link labels), at any fuel, never touches the tree *)
Theorem iskip_node_untouched_r cfg : forall f st st', iskip f cfg st = inr st' -> i_refs st' = i_refs st.
Proof.
  induction f as [|f IH]; intros st st'; cbn [iskip]; [discriminate|].
  apply skip_token_body_node_r. exact IH.
Qed.


(* real (non-silent) calls do not modify the reference map either *)
Lemma ttpush_refs st a b st' : trailing_text_push st a b = inr st' -> i_refs st' = i_refs st.
Proof. unfold trailing_text_push. intros H. hinv H; injection H as <-; reflexivity. Qed.
Lemma ttpop_refs st n st' : trailing_text_pop st n = inr st' -> i_refs st' = i_refs st.
Proof. unfold trailing_text_pop. intros H. hinv H; injection H as <-; reflexivity. Qed.
Lemma samd_refs cfg st m st' : scan_and_match_delimiters cfg st m = inr st' -> i_refs st' = i_refs st.
Proof. unfold scan_and_match_delimiters. intros H. hinv H; injection H as <-; reflexivity. Qed.

Ltac refs_real H := hinv H; injection H as <- _;
  repeat match goal with
  | E : trailing_text_push _ _ _ = inr _ |- _ => apply ttpush_refs in E
  | E : trailing_text_pop _ _ = inr _ |- _ => apply ttpop_refs in E
  | E : scan_and_match_delimiters _ _ _ = inr _ |- _ => apply samd_refs in E
  end; cbn [i_refs ipush iset_node iset_bt set_bt iset_ll] in *; try congruence; try reflexivity.

Lemma real_text_r cfg st ss o : rule_text cfg st false = inr (ss, o) -> i_refs ss = i_refs st.
Proof. unfold rule_text. intros H. refs_real H. Qed.
Lemma real_newline_r st ss o : rule_newline st false = inr (ss, o) -> i_refs ss = i_refs st.
Proof. unfold rule_newline. intros H. refs_real H. Qed.
Lemma real_escape_r st ss o : rule_escape st false = inr (ss, o) -> i_refs ss = i_refs st.
Proof. unfold rule_escape. intros H. refs_real H. Qed.
Lemma real_code_pair_r st m ss o : rule_code_pair st m false = inr (ss, o) -> i_refs ss = i_refs st.
Proof. unfold rule_code_pair. intros H. refs_real H. Qed.
Lemma real_emph_r cfg m cs st ss o : rule_emph cfg m cs st false = inr (ss, o) -> i_refs ss = i_refs st.
Proof.
  unfold rule_emph. intros H. hinv H; injection H as <- _; try reflexivity.
  all: match goal with E : (if ?b then _ else _) = inr _ |- _ => destruct b end.
  all: try match goal with E : scan_and_match_delimiters _ _ _ = inr _ |- _ => apply samd_refs in E; exact E end.
  all: match goal with E : inr _ = inr _ |- _ => injection E as <-; reflexivity end.
Qed.
Lemma real_autolink_r st ss o : rule_autolink st false = inr (ss, o) -> i_refs ss = i_refs st.
Proof. unfold rule_autolink. intros H. refs_real H. Qed.
Lemma real_entity_r st ss o : rule_entity st false = inr (ss, o) -> i_refs ss = i_refs st.
Proof. unfold rule_entity. intros H. refs_real H. Qed.
Lemma real_html_inline_r st ss o : rule_html_inline st false = inr (ss, o) -> i_refs ss = i_refs st.
Proof. unfold rule_html_inline. intros H. refs_real H. Qed.
Lemma real_custom_r st p v ss o : rule_custom_inline st p v false = inr (ss, o) -> i_refs ss = i_refs st.
Proof. unfold rule_custom_inline. intros H. refs_real H. Qed.

Section RealEngineRefs.
Variable cfg : icfg.
Variable TK SK : istate -> res istate.
Hypothesis SK_refs : forall st st', SK st = inr st' -> i_refs st' = i_refs st.

Lemma rule_link_r st silent nested offset mkk ss o : rule_link TK SK st silent nested offset mkk = inr (ss, o) -> i_refs ss = i_refs st.
Proof.
  unfold rule_link. cbv zeta. destruct (parse_link SK st (i_pos st + offset) nested) as [|[s1 pl]] eqn:E; cbn [bind]; [discriminate|].
  apply (parse_link_node_r SK SK_refs) in E. destruct pl as [p|]; [|intros H; injection H as <- _; exact E].
  destruct silent; [destruct (_ <=? _); [|discriminate]; intros H; injection H as <- _; exact E|].
  match goal with |- bind ?a _ = _ -> _ => destruct a as [|inner'] end; cbn [bind]; [discriminate|].
  intros H. hinv H. injection H as <- _. cbn [i_refs iset_ll ipush iset_node]. exact E.
Qed.

Lemma rule_code_pair_tok_r st m silent ss o : rule_code_pair_tok TK st m silent = inr (ss, o) -> i_refs ss = i_refs st.
Proof. unfold rule_code_pair_tok. intros H. destruct silent; hinv H; injection H as <- _; reflexivity. Qed.

Lemma run_rule_r r st silent ss o : run_rule cfg TK SK r st silent = inr (ss, o) -> i_refs ss = i_refs st.
Proof.
  destruct silent; [apply (run_rule_silent_node_r cfg TK SK SK_refs)|].
  unfold run_rule.
  assert (D : ret (st, @None N) = inr (ss, o) -> i_refs ss = i_refs st) by (intros H; injection H as <- _; reflexivity).
  repeat match goal with |- (if ?b then _ else _) = _ -> _ => destruct b end;
    try solve [intros H; first [apply real_text_r in H | apply real_newline_r in H | apply real_escape_r in H
      | apply real_code_pair_r in H | apply real_emph_r in H | apply real_autolink_r in H | apply real_entity_r in H
      | apply real_html_inline_r in H | apply real_custom_r in H | apply rule_code_pair_tok_r in H]; exact H];
    try exact D.
  - destruct (irest st) as [|rest]; cbn [bind]; [discriminate|]. destruct rest as [|ch t]; [discriminate|].
    destruct (ch =? 91); [apply rule_link_r|exact D].
  - destruct (irest st) as [|rest]; cbn [bind]; [discriminate|].
    destruct rest as [|a0 t0]; [exact D|]. lit_cases_k a0 ltac:(exact D).
    destruct t0 as [|a1 t1]; [exact D|]. lit_cases_k a1 ltac:(exact D).
    apply rule_link_r.
Qed.

Lemma try_rules_r chain silent bump : forall st ss o, try_rules cfg TK SK chain st silent bump = inr (ss, o) -> i_refs ss = i_refs st.
Proof.
  induction chain as [|r t IH]; intros st ss o; cbn [try_rules]; [intros H; injection H as <- _; reflexivity|].
  destruct (run_rule _ _ _ _ _ _) as [|[s1 o1]] eqn:E; cbn [bind]; [discriminate|]. apply run_rule_r in E. cbn [fst snd].
  assert (E' : i_refs (if bump then iset_level s1 (i_level st) else s1) = i_refs st) by (destruct bump; cbn [i_refs iset_level] in *; exact E).
  destruct o1; [intros H; injection H as <- _; exact E'|]. intros H. apply IH in H. congruence.
Qed.
End RealEngineRefs.
