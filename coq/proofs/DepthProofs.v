(* The nesting limit bounds the depth of the block tree (property C02): whatever the input and the
   chain of block rules, the tree built by the block parser is at most 2 * max_nesting deep. *)
From Coq Require Import String.
From MdIt Require Import Prims Tables Escape NormRef Indent Mdurl LinkParse Tree HtmlRe Block.
From MdIt Require Import BlockProofs LookaheadProofs.
From Coq Require Import Lia ZifyBool ZifyN ZifyNat.
Local Open Scope list_scope.
Local Open Scope N_scope.

Arguments N.eqb : simpl never.
Arguments N.leb : simpl never.
Arguments N.ltb : simpl never.
Arguments N.add : simpl never.
Arguments N.sub : simpl never.

Definition cdepth (cs : list node) : nat := fold_right (fun c acc => Nat.max (S (depth_of c)) acc) 0%nat cs.

Lemma depth_node k m a e cs : depth_of (Node k m a e cs) = cdepth cs.
Proof. reflexivity. Qed.
Lemma depth_children n : depth_of n = cdepth (n_children n).
Proof. destruct n; reflexivity. Qed.
Lemma cdepth_app a b : cdepth (a ++ b) = Nat.max (cdepth a) (cdepth b).
Proof. induction a as [|x t IH]; cbn [cdepth fold_right app]; [reflexivity|]. fold (cdepth (t ++ b)) (cdepth t). rewrite IH. lia. Qed.
Lemma depth_push n c : depth_of (push_child n c) = Nat.max (depth_of n) (S (depth_of c)).
Proof. destruct n as [k m a e cs]. cbn [push_child set_children n_children]. rewrite !depth_node, cdepth_app. cbn. lia. Qed.
Lemma depth_set_map n m : depth_of (set_map n m) = depth_of n.
Proof. destruct n; reflexivity. Qed.
Lemma depth_mk0 k m : depth_of (mk k m []) = 0%nat.
Proof. reflexivity. Qed.
Lemma depth_mk1 k m k' m' : depth_of (mk k m [mk k' m' []]) = 1%nat.
Proof. reflexivity. Qed.
Lemma depth_push_node st c : depth_of (b_node (push_node st c)) = Nat.max (depth_of (b_node st)) (S (depth_of c)).
Proof. unfold push_node. cbn [b_node set_node]. apply depth_push. Qed.

(* tight lists: paragraphs are replaced by their children, which never deepens an item *)
Lemma cdepth_mark_tight cs : (cdepth (mark_tight cs) <= cdepth cs)%nat.
Proof.
  induction cs as [|c t IH]; [cbn; lia|]. unfold mark_tight in *. cbn [flat_map]. rewrite cdepth_app. cbn [cdepth fold_right].
  fold (cdepth t). destruct (n_kind c); cbn [cdepth fold_right]; try lia. rewrite (depth_children c). lia.
Qed.
Lemma cdepth_map_tight items : (cdepth (map (fun it => set_children it (mark_tight (n_children it))) items) <= cdepth items)%nat.
Proof.
  induction items as [|it t IH]; [cbn; lia|]. cbn [map cdepth fold_right]. fold (cdepth t) (cdepth (map (fun it => set_children it (mark_tight (n_children it))) t)).
  destruct it as [k m a e cs]. cbn [set_children n_children]. rewrite !depth_node. pose proof (cdepth_mark_tight cs). lia.
Qed.

Section Engine.
Variable cfg : bcfg.
Variable T : bstate -> res bstate.
Definition B (lv : N) : nat := (2 * N.to_nat (bc_maxnest cfg - lv))%nat.
Definition dle (st st' : bstate) (bound : nat) : Prop :=
  b_level st' = b_level st /\ (depth_of (b_node st') <= Nat.max (depth_of (b_node st)) bound)%nat.

Hypothesis T_depth : forall st st', T st = inr st' -> (depth_of (b_node st') <= Nat.max (depth_of (b_node st)) (B (b_level st)))%nat.

(* a rule that runs below the limit adds at most B(level) *)
Ltac fin_push := unfold dle; split; [reflexivity|]; rewrite ?depth_push_node; cbn [b_node set_line set_refs set_node]; rewrite ?depth_mk0, ?depth_mk1; unfold B; lia.

Lemma B_step lv : lv <? bc_maxnest cfg = true -> (B lv = 2 + B (lv + 1))%nat.
Proof. intros H. unfold B. lia. Qed.

Lemma rule_code_depth st st' b : b_level st <? bc_maxnest cfg = true -> rule_code st = inr (st', b) -> dle st st' (B (b_level st)).
Proof. intros Hl H. unfold rule_code in H. hinv H; injection H as <- _; fin_push. Qed.
Lemma rule_fence_depth st st' b : b_level st <? bc_maxnest cfg = true -> rule_fence cfg st = inr (st', b) -> dle st st' (B (b_level st)).
Proof. intros Hl H. unfold rule_fence in H. hinv H; injection H as <- _; fin_push. Qed.
Lemma rule_hr_depth st st' b : b_level st <? bc_maxnest cfg = true -> rule_hr st = inr (st', b) -> dle st st' (B (b_level st)).
Proof. intros Hl H. unfold rule_hr in H. hinv H; injection H as <- _; fin_push. Qed.
Lemma rule_reference_depth st st' b : b_level st <? bc_maxnest cfg = true -> rule_reference cfg st = inr (st', b) -> dle st st' (B (b_level st)).
Proof. intros Hl H. unfold rule_reference in H. hinv H; injection H as <- _; fin_push. Qed.
Lemma rule_heading_depth st st' b : b_level st <? bc_maxnest cfg = true -> rule_heading st = inr (st', b) -> dle st st' (B (b_level st)).
Proof. intros Hl H. unfold rule_heading in H. hinv H; injection H as <- _; fin_push. Qed.
Lemma rule_lheading_depth st st' b : b_level st <? bc_maxnest cfg = true -> rule_lheading cfg st = inr (st', b) -> dle st st' (B (b_level st)).
Proof. intros Hl H. unfold rule_lheading in H. hinv H; injection H as <- _; fin_push. Qed.
Lemma rule_paragraph_depth st st' b : b_level st <? bc_maxnest cfg = true -> rule_paragraph cfg st = inr (st', b) -> dle st st' (B (b_level st)).
Proof. intros Hl H. unfold rule_paragraph in H. hinv H; injection H as <- _; fin_push. Qed.
Lemma rule_html_block_depth st st' b : b_level st <? bc_maxnest cfg = true -> rule_html_block st = inr (st', b) -> dle st st' (B (b_level st)).
Proof. intros Hl H. unfold rule_html_block in H. hinv H; injection H as <- _; fin_push. Qed.
Lemma rule_custom_depth st st' b : b_level st <? bc_maxnest cfg = true -> rule_custom st = inr (st', b) -> dle st st' (B (b_level st)).
Proof. intros Hl H. unfold rule_custom in H. hinv H; injection H as <- _; fin_push. Qed.

Lemma rule_quote_depth st st' b : b_level st <? bc_maxnest cfg = true -> rule_quote cfg T st = inr (st', b) -> dle st st' (B (b_level st)).
Proof.
  intros Hl H. unfold rule_quote in H. hinv H; injection H as <- _; try fin_push.
  match goal with E : T _ = inr _ |- _ => apply T_depth in E; cbn [b_node b_level] in E; rewrite depth_mk0 in E end.
  unfold dle. split; [reflexivity|]. rewrite depth_push_node, depth_set_map. cbn [b_node]. rewrite (B_step _ Hl). lia.
Qed.

Lemma list_items_depth n : forall st ordered mc p next pe tight st' nx tg, b_level st <? bc_maxnest cfg = true ->
  list_items cfg T n st ordered mc p next pe tight = inr (st', nx, tg) ->
  dle st st' (S (B (b_level st + 1))).
Proof.
  induction n as [|n IH]; intros st ordered mc p next pe tight st' nx tg Hl H; [discriminate|].
  cbn [list_items] in H.
  (* one item: the item node is built by the nested tokenizer one level deeper *)
  unfold bind, ret, panic in H.
  repeat match type of H with
  | (match list_items _ _ _ _ _ _ _ _ _ _ with _ => _ end) = _ => fail 1
  | list_items _ _ _ _ _ _ _ _ _ _ = _ => fail 1
  | (match ?x with _ => _ end) = _ => destruct x eqn:?; try discriminate H
  end.
  all: try (injection H as <- _ _).
  all: repeat match goal with E : (match ?x with _ => _ end) = inr _ |- _ => destruct x eqn:?; try discriminate E end.
  all: repeat match goal with E : inr _ = inr ?v |- _ => is_var v; injection E as <- end.
  all: try match goal with E : T _ = inr _ |- _ => apply T_depth in E; cbn [b_node b_level set_level set_line] in E; rewrite depth_mk0 in E end.
  all: try (apply IH in H; [|cbn [b_level set_line push_node set_node]; exact Hl]; destruct H as [HL H]; cbn [b_node set_line] in H; rewrite depth_push_node, depth_set_map in H; cbn [b_node b_level set_line push_node set_node] in H; rewrite ?depth_mk0 in H).
  all: unfold dle; split; [try reflexivity; cbn [b_level set_line push_node set_node] in *; congruence|].
  all: cbn [b_node set_line set_level]; rewrite ?depth_push_node, ?depth_set_map; cbn [b_node set_line set_level]; rewrite ?depth_mk0; try lia.
  all: cbn [b_node set_level set_line] in *; lia.
Qed.

Lemma depth_set_children_le n cs : (cdepth cs <= depth_of n)%nat -> (depth_of (set_children n cs) <= depth_of n)%nat.
Proof. destruct n. cbn [set_children]. rewrite !depth_node. auto. Qed.

Lemma rule_list_depth st st' b : b_level st <? bc_maxnest cfg = true -> rule_list cfg T st = inr (st', b) -> dle st st' (B (b_level st)).
Proof.
  intros Hl H. unfold rule_list in H. unfold bind, ret, panic in H.
  repeat match type of H with
  | (match list_items _ _ _ _ _ _ _ _ _ _ with _ => _ end) = _ => fail 1
  | (match ?x with _ => _ end) = _ => destruct x eqn:?; try discriminate H
  end.
  all: try (injection H as <- _; unfold dle; split; [reflexivity|lia]).
  all: destruct (list_items _ _ _ _ _ _ _ _ _ _) as [|[[st1 nx] tg]] eqn:E; [discriminate|].
  all: apply list_items_depth in E; [|cbn [b_level set_node]; exact Hl].
  all: destruct E as [EL E]; cbn [b_node b_level set_node] in E, EL.
  all: repeat match type of E with context [match ?m with _ => _ end] => destruct m end.
  all: rewrite depth_mk0 in E.
  all: repeat match type of H with (match ?x with _ => _ end) = _ => destruct x eqn:?; try discriminate H end.
  all: injection H as <- _; unfold dle; split; [exact EL|]; cbn [b_node set_node]; rewrite depth_push, depth_set_map, (B_step _ Hl).
  all: try lia.
  all: match goal with |- context [set_children ?ln ?cs] => pose proof (depth_set_children_le ln cs) as Q end.
  all: destruct tg; [|lia].
  all: assert (Q' : (cdepth (map (fun it : node => set_children it (mark_tight (n_children it))) (n_children (b_node st1))) <= depth_of (b_node st1))%nat) by (rewrite (depth_children (b_node st1)); apply cdepth_map_tight).
  all: specialize (Q Q'); lia.
Qed.

Lemma rule_real_depth r st st' b : b_level st <? bc_maxnest cfg = true -> rule_real cfg T r st = inr (st', b) -> dle st st' (B (b_level st)).
Proof.
  intros Hl. unfold rule_real.
  repeat match goal with |- (if ?c then _ else _) = _ -> _ => destruct c end;
    eauto using rule_code_depth, rule_fence_depth, rule_quote_depth, rule_hr_depth, rule_list_depth, rule_reference_depth,
      rule_heading_depth, rule_lheading_depth, rule_paragraph_depth, rule_html_block_depth, rule_custom_depth.
  intros H. injection H as <- _. unfold dle. split; [reflexivity|lia].
Qed.

Lemma try_rules_depth chain : forall st st' b, b_level st <? bc_maxnest cfg = true ->
  try_rules cfg T chain st = inr (st', b) -> dle st st' (B (b_level st)).
Proof.
  induction chain as [|r t IH]; intros st st' b Hl; cbn [try_rules]; [intros H; injection H as <- _; unfold dle; split; [reflexivity|lia]|].
  destruct (rule_real cfg T r st) as [|[s1 ok]] eqn:E; cbn [bind]; [discriminate|]. cbn [fst snd]. destruct ok.
  - destruct (_ <? _)%nat; [|discriminate]. intros H. injection H as <- _. eapply rule_real_depth; eassumption.
  - apply IH. exact Hl.
Qed.

Lemma tok_loop_depth n : forall st he st', tok_loop cfg T n st he = inr st' -> dle st st' (B (b_level st)).
Proof.
  induction n as [|n IH]; intros st he st'.
  - cbn [tok_loop]. destruct (negb _); [|discriminate]. intros H. injection H as <-. split; [reflexivity|lia].
  - cbn [tok_loop]. destruct (negb _); [intros H; injection H as <-; split; [reflexivity|lia]|].
    cbv zeta. destruct (_ <=? _)%nat; [intros H; injection H as <-; split; [reflexivity|cbn [b_node set_line]; lia]|].
    destruct (line_indent _ _) as [|ind]; cbn [bind]; [discriminate|].
    destruct (ind <? 0)%Z; [intros H; injection H as <-; split; [reflexivity|cbn [b_node set_line]; lia]|].
    cbn [b_level set_line]. destruct (bc_maxnest cfg <=? b_level st) eqn:El.
    { intros H; injection H as <-; split; [reflexivity|cbn [b_node set_line]; lia]. }
    assert (Hl : b_level st <? bc_maxnest cfg = true) by lia.
    destruct (try_rules cfg T (bc_chain cfg) _) as [|[s1 ok]] eqn:Et; cbn [bind]; [discriminate|]. cbn [fst snd].
    pose proof (try_rules_depth (bc_chain cfg) (set_line st (skip_empty_lines st (b_line st))) s1 ok Hl Et) as [L1 D1].
    cbn [b_level b_node set_line] in D1, L1.
    assert (R : forall st1, b_level st1 = b_level st -> (depth_of (b_node st1) <= Nat.max (depth_of (b_node st)) (B (b_level st)))%nat ->
                forall he1 he2 st', (if (b_line (set_tight st1 he1) <? b_max (set_tight st1 he1))%nat && is_empty (set_tight st1 he1) (b_line (set_tight st1 he1))
                  then tok_loop cfg T n (set_line (set_tight st1 he1) (S (b_line (set_tight st1 he1)))) true
                  else tok_loop cfg T n (set_tight st1 he1) he2) = inr st' -> dle st st' (B (b_level st))).
    { intros st1 LL D he1 he2 st2 H. destruct (_ && _); apply IH in H; destruct H as [A Bd]; cbn [b_level b_node set_line set_tight] in A, Bd; rewrite LL in *;
        (split; [exact A|]); lia. }
    destruct ok.
    + cbn [bind ret]. apply R; assumption.
    + destruct (get_line _ _) as [|content]; cbn [bind]; [discriminate|]. destruct (line_rec _ _) as [|r]; cbn [bind]; [discriminate|].
      cbn [ret]. apply R; [reflexivity|]. cbn [b_node set_line]. rewrite depth_push_node. cbn [b_node set_line]. rewrite depth_mk0.
      rewrite (B_step _ Hl). lia.
Qed.

Lemma tokenize_body_depth st st' : tokenize_body cfg T st = inr st' -> dle st st' (B (b_level st)).
Proof. apply tok_loop_depth. Qed.
End Engine.

Theorem btokenize_depth cfg : forall fuel st st', btokenize fuel cfg st = inr st' ->
  (depth_of (b_node st') <= Nat.max (depth_of (b_node st)) (B cfg (b_level st)))%nat.
Proof.
  induction fuel as [|f IH]; intros st st'; cbn [btokenize]; [discriminate|].
  intros H. apply (tokenize_body_depth cfg (btokenize f cfg) IH) in H. exact (proj2 H).
Qed.

(* the block tree is at most 2 * max_nesting deep: every input, every chain of block rules, every fuel *)
Theorem block_tree_depth fuel cfg texts k m a e refs root' refs' :
  block_parse fuel cfg texts (Node k m a e []) refs = inr (root', refs') ->
  (depth_of root' <= 2 * N.to_nat (bc_maxnest cfg))%nat.
Proof.
  unfold block_parse. cbv zeta. destruct (btokenize _ _ _) as [|st'] eqn:E; cbn [bind]; [discriminate|].
  intros H. injection H as <- _. apply btokenize_depth in E. cbn [b_node b_level] in E. unfold B in E.
  rewrite depth_node in E. cbn [cdepth fold_right] in E. replace (bc_maxnest cfg - 0) with (bc_maxnest cfg) in E by lia. lia.
Qed.
