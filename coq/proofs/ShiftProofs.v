(* Property C06, block level: prefixing every line text with the same bytes P and moving every content offset by |P|
   changes nothing the block rules look at.  For a state st whose line texts are ASCII without tabs, btokenize on the
   shifted state (texts P ++ t, first non-blank offsets + |P|, same indentation) returns the shifted result: the same
   tree with every recorded position moved by |P|, the same lines consumed, the same reference map -- every rule chain,
   every fuel.  With QuoteProofs (the quote scan over lines "> " ++ t produces exactly these shifted records) this is the
   block-level half of "the tree below the quote is the tree of D with every range shifted by the inserted bytes". *)
From Coq Require Import String.
From MdIt Require Import Prims Tables Escape NormRef Indent Mdurl LinkParse Tree HtmlRe Block.
From MdIt Require Import LookaheadProofs RefSafeProofs BlockRangeDefs BlockSafeProofs CodeProofs.
From Coq Require Import Lia ZifyBool ZifyN ZifyNat.
Local Open Scope list_scope.
Local Open Scope N_scope.

Arguments N.eqb : simpl never.
Arguments N.leb : simpl never.
Arguments N.ltb : simpl never.
Arguments N.add : simpl never.
Arguments N.sub : simpl never.
Arguments Z.leb : simpl never.
Arguments Z.ltb : simpl never.
Arguments Z.sub : simpl never.
Arguments Z.of_N : simpl never.

Definition fmap {A B} (f : A -> B) (r : res A) : res B := match r with inl e => inl e | inr x => inr (f x) end.

Lemma fmap_bind {A B C} (f : B -> C) (a : res A) (g : A -> res B) : fmap f (bind a g) = bind a (fun x => fmap f (g x)).
Proof. destruct a; reflexivity. Qed.
Lemma bind_fmap {A B C} (f : A -> B) (a : res A) (g : B -> res C) : bind (fmap f a) g = bind a (fun x => g (f x)).
Proof. destruct a; reflexivity. Qed.

(* the local loops of the fence and HTML-block rules, named *)
Definition fsearch (st : bstate) (marker n : N) : nat -> nat -> res (nat * bool) :=
  fix fsearch_ (k : nat) (next : nat) : res (nat * bool) :=
  match k with
  | O => ret (next, false)
  | S k' =>
    if Nat.leb (b_max st) next then ret (next, false) else
    do line <- get_line st next;
    do ind <- line_indent st next;
    if negb (match line with [] => true | _ => false end) && (ind <? 0)%Z then ret (next, false)
    else match line with
         | c :: _ =>
           if negb (c =? marker) then fsearch_ k' (S next)
           else if (4 <=? ind)%Z then fsearch_ k' (S next)
           else
             let len_end := count_prefix marker line in
             if len_end <? n then fsearch_ k' (S next)
             else if all_sptab (dropN len_end line) then ret (next, true)
             else fsearch_ k' (S next)
         | [] => fsearch_ k' (S next)
         end
  end.

Lemma rule_fence_unfold cfg st : rule_fence cfg st =
  do o <- fence_open st;
  match o with
  | None => ret (st, false)
  | Some (marker, n, params) =>
    do nb <- fsearch st marker n (S (b_max st)) (S (b_line st));
    let '(next, have_end) := nb in
    do r0 <- line_rec st (b_line st);
    do cm <- get_lines st (S (b_line st)) next (Z.to_N (l_indent r0)) true;
    do mp <- get_map st (b_line st) (if have_end then next else next - 1)%nat;
    ret (push_node (set_line st (if have_end then S next else next)) (mk (KFence params marker n (fst cm) (bc_fence_prefix cfg)) mp []), true)
  end.
Proof. reflexivity. Qed.

Definition hroll (st : bstate) (seq_i : N) : nat -> nat -> res nat :=
  fix hroll_ (k : nat) (next : nat) : res nat :=
  match k with
  | O => ret next
  | S k' =>
    if negb (Nat.ltb next (b_max st)) then ret next else
    do lt <- get_line st next;
    do ind <- line_indent st next;
    if negb (match lt with [] => true | _ => false end) && (ind <? 0)%Z then ret next else
    if html_seq_close seq_i lt then ret (match lt with [] => next | _ => S next end)
    else hroll_ k' (S next)
  end.

Lemma rule_html_block_unfold st : rule_html_block st =
  do o <- html_open st;
  match o with
  | None => ret (st, false)
  | Some (seq_i, line_text) =>
    do next <- (if html_seq_close seq_i line_text then ret (S (b_line st)) else hroll st seq_i (S (b_max st)) (S (b_line st)));
    do cm <- get_lines (set_line st next) (b_line st) next (b_blk st) true;
    do mp <- get_map (set_line st next) (b_line st) (next - 1);
    ret (push_node (set_line st next) (mk (KHtmlBlock (fst cm)) mp []), true)
  end.
Proof. reflexivity. Qed.

Lemma take_app_plus (p t : str) k : take (length p + k) (p ++ t) = p ++ take k t.
Proof. induction p as [|x p IH]; [reflexivity|]. cbn [length Nat.add take app]. f_equal. exact IH. Qed.

Section Shift.
Variable P : str.
Let d := len P.

Definition sh_rec (r : lrec) : lrec := LRec (P ++ l_text r) (d + l_first r) (l_indent r).
Definition sh_pos (p : spos) : spos := match p with SRel l o => SRel l (d + o) | SAbs o => SAbs o end.
Definition sh_map (m : smap) : smap := match m with Some (a, b) => Some (sh_pos a, sh_pos b) | None => None end.
Definition sh_ent (e : N * spos) : N * spos := (fst e, sh_pos (snd e)).
Definition sh_kind (k : kind) : kind :=
  match k with KInlineRoot c mp => KInlineRoot c (map sh_ent mp) | _ => k end.
Fixpoint sh_node (n : node) : node :=
  let 'Node k m a e cs := n in Node (sh_kind k) (sh_map m) a e (map sh_node cs).
Definition sh (st : bstate) : bstate :=
  BState (map sh_rec (b_lines st)) (sh_node (b_node st)) (b_blk st) (b_line st) (b_max st) (b_tight st)
         (b_list_indent st) (b_level st) (b_refs st).

(* texts that are ASCII without tabs *)
Definition atf (s : str) : bool := forallb (fun c => (c <? 128) && negb (c =? 9)) s.
(* the invariant under which the shift is invisible *)
Definition sinv_rec (r : lrec) : Prop :=
  atf (l_text r) = true /\ l_first r <= len (l_text r) /\ (l_indent r <= Z.of_N (l_first r))%Z.
Definition sinv (st : bstate) : Prop := forall l r, nth_error (b_lines st) l = Some r -> sinv_rec r.

(* ---- primitives ---- *)

Lemma nth_sh ls l : nth_error (map sh_rec ls) l = option_map sh_rec (nth_error ls l).
Proof. revert l. induction ls as [|a t IH]; intros [|l]; cbn; auto. Qed.

Lemma line_rec_sh st l : line_rec (sh st) l = fmap sh_rec (line_rec st l).
Proof. unfold line_rec. cbn [b_lines sh]. rewrite nth_sh. destruct (nth_error (b_lines st) l); reflexivity. Qed.

Lemma line_indent_sh st l : line_indent (sh st) l = line_indent st l.
Proof. unfold line_indent. rewrite line_rec_sh. destruct (line_rec st l); reflexivity. Qed.

Lemma dropN_sh (f : N) (t : str) : dropN (d + f) (P ++ t) = dropN f t.
Proof. unfold d. replace (len P + f) with (len P + N.of_nat (N.to_nat f)) by lia. rewrite dropN_add, dropN_len_app. reflexivity. Qed.

Lemma len_sh (t : str) : len (P ++ t) = d + len t.
Proof. unfold d, len. rewrite app_length. lia. Qed.

Lemma get_line_sh st l : get_line (sh st) l = get_line st l.
Proof.
  unfold get_line. rewrite line_rec_sh. destruct (line_rec st l) as [e|r]; [reflexivity|]. cbn [fmap bind ret sh_rec l_first l_end l_text].
  unfold l_end. change (l_text (sh_rec r)) with (P ++ l_text r). rewrite len_sh, dropN_sh. replace (d + l_first r <=? d + len (l_text r)) with (l_first r <=? len (l_text r)) by lia. reflexivity.
Qed.

Lemma is_empty_sh st l : is_empty (sh st) l = is_empty st l.
Proof.
  unfold is_empty. cbn [b_lines sh]. rewrite nth_sh. destruct (nth_error (b_lines st) l) as [r|]; [|reflexivity].
  cbn [option_map]. unfold l_end. change (l_text (sh_rec r)) with (P ++ l_text r). change (l_first (sh_rec r)) with (d + l_first r). rewrite len_sh. lia.
Qed.

Lemma pos_first_sh st l : pos_first (sh st) l = fmap sh_pos (pos_first st l).
Proof. unfold pos_first. rewrite line_rec_sh. destruct (line_rec st l); reflexivity. Qed.
Lemma pos_end_sh st l : pos_end (sh st) l = fmap sh_pos (pos_end st l).
Proof.
  unfold pos_end. rewrite line_rec_sh. destruct (line_rec st l) as [e|r]; [reflexivity|]. cbn [fmap bind ret sh_pos]. unfold l_end. change (l_text (sh_rec r)) with (P ++ l_text r). rewrite len_sh. reflexivity.
Qed.
Lemma get_map_sh st a b : get_map (sh st) a b = fmap sh_map (get_map st a b).
Proof.
  unfold get_map. destruct (a <=? b)%nat; [|reflexivity]. rewrite pos_first_sh, pos_end_sh.
  destruct (pos_first st a); [reflexivity|]. destruct (pos_end st b); reflexivity.
Qed.

Lemma skip_empty_from_sh st n : forall l, skip_empty_from n (sh st) l = skip_empty_from n st l.
Proof. induction n as [|n IH]; intros l; cbn [skip_empty_from]; [reflexivity|]. rewrite is_empty_sh. cbn [b_max sh]. destruct (_ && _); [apply IH|reflexivity]. Qed.


Hypothesis HP : atf P = true.

(* ---- cutting indentation: only bytes of the original prefix are walked over ---- *)

Lemma atf_app a b : atf (a ++ b) = atf a && atf b.
Proof. unfold atf. apply forallb_app. Qed.
Lemma atf_rev a : atf (rev a) = atf a.
Proof. induction a as [|x a IH]; [reflexivity|]. cbn [rev]. rewrite atf_app, IH. cbn [atf forallb]. rewrite andb_true_r. apply andb_comm. Qed.
Lemma atf_take k : forall a, atf a = true -> atf (take k a) = true.
Proof. induction k as [|k IH]; intros a H; destruct a as [|x a]; cbn [take atf forallb] in *; auto. apply andb_true_iff in H. destruct H as [H1 H2]. rewrite H1. apply IH. exact H2. Qed.

Lemma calc_rw_atf rs : forall keep start, atf rs = true ->
  calc_rw_loop rs keep start =
  if (keep <=? 0)%Z then (0, start) else if (keep <=? Z.of_N (len rs))%Z then (0, len rs - Z.to_N keep) else (0, 0).
Proof.
  induction rs as [|b t IH]; intros keep start H; cbn [calc_rw_loop].
  - destruct (keep <=? 0)%Z eqn:E0.
    + replace (0 <? keep)%Z with false by lia. reflexivity.
    + replace (0 <? keep)%Z with true by lia. change (len []) with 0. replace (keep <=? Z.of_N 0)%Z with false by lia. reflexivity.
  - cbn [atf forallb] in H. apply andb_true_iff in H. destruct H as [Hb Ht]. fold (atf t) in Ht.
    destruct (keep <=? 0)%Z eqn:E0; [reflexivity|].
    assert (Hc : is_cont b = false) by (unfold is_cont; lia). rewrite Hc.
    assert (H9 : (b =? 9) = false) by lia. rewrite H9.
    rewrite (IH (keep - 1)%Z (len t) Ht).
    assert (Hl : len (b :: t) = len t + 1) by (unfold len; cbn [length]; lia). rewrite Hl.
    destruct (keep - 1 <=? 0)%Z eqn:E1.
    + replace (keep <=? Z.of_N (len t + 1))%Z with true by lia. f_equal. lia.
    + destruct (keep - 1 <=? Z.of_N (len t))%Z eqn:E2.
      * replace (keep <=? Z.of_N (len t + 1))%Z with true by lia. f_equal. lia.
      * replace (keep <=? Z.of_N (len t + 1))%Z with false by lia. reflexivity.
Qed.

Lemma takeN_sh (f : N) (t : str) : takeN (d + f) (P ++ t) = P ++ takeN f t.
Proof.
  unfold takeN, d, len. replace (N.to_nat (N.of_nat (length P) + f)) with (length P + N.to_nat f)%nat by lia.
  apply take_app_plus.
Qed.

Lemma len_takeN (f : N) (t : str) : f <= len t -> len (takeN f t) = f.
Proof.
  unfold takeN, len. intros H. assert (forall k (l : str), (k <= length l)%nat -> length (take k l) = k).
  { induction k as [|k IH]; intros l Hk; destruct l as [|x l]; cbn [take length] in *; try lia. rewrite IH; lia. }
  rewrite H0; lia.
Qed.

Lemma calc_rw_sh (f : N) (t : str) (keep : Z) : atf t = true -> f <= len t -> (keep <= Z.of_N f)%Z ->
  calc_right_whitespace (takeN (d + f) (P ++ t)) keep =
  (0, d + snd (calc_right_whitespace (takeN f t) keep)) /\ fst (calc_right_whitespace (takeN f t) keep) = 0.
Proof.
  intros Ht Hf Hk. unfold calc_right_whitespace. rewrite takeN_sh.
  assert (A1 : atf (rev (P ++ takeN f t)) = true) by (rewrite atf_rev, atf_app, HP; cbn [andb]; apply atf_take; exact Ht).
  assert (A2 : atf (rev (takeN f t)) = true) by (rewrite atf_rev; apply atf_take; exact Ht).
  rewrite (calc_rw_atf _ _ _ A1), (calc_rw_atf _ _ _ A2).
  assert (L1 : len (rev (P ++ takeN f t)) = d + f) by (unfold len; rewrite rev_length; fold (len (P ++ takeN f t)); rewrite len_sh, len_takeN; [reflexivity|exact Hf]).
  assert (L2 : len (rev (takeN f t)) = f) by (unfold len; rewrite rev_length; fold (len (takeN f t)); apply len_takeN; exact Hf).
  assert (L3 : len (P ++ takeN f t) = d + f) by (rewrite len_sh, len_takeN; [reflexivity|exact Hf]).
  assert (L4 : len (takeN f t) = f) by (apply len_takeN; exact Hf).
  rewrite L1, L2, L3, L4.
  destruct (keep <=? 0)%Z eqn:E0; [split; reflexivity|].
  replace (keep <=? Z.of_N (d + f))%Z with true by lia. replace (keep <=? Z.of_N f)%Z with true by lia. cbn [fst snd]. split; [f_equal; lia|reflexivity].
Qed.

Definition sh_cm (x : str * list (N * spos)) : str * list (N * spos) := (fst x, map sh_ent (snd x)).

Lemma get_lines_loop_sh st n : forall line e ind keep acc mp, sinv st ->
  get_lines_loop (sh st) n line e ind keep acc (map sh_ent mp) = fmap sh_cm (get_lines_loop st n line e ind keep acc mp).
Proof.
  induction n as [|n IH]; intros line e ind keep acc mp Hs; cbn [get_lines_loop]; [reflexivity|].
  destruct (negb (line <? e)%nat); [reflexivity|]. rewrite line_rec_sh.
  unfold line_rec. destruct (nth_error (b_lines st) line) as [r|] eqn:Er; [|reflexivity]. cbn [fmap bind ret].
  destruct (Hs _ _ Er) as (Ha & Hf & Hi).
  unfold l_end. change (l_text (sh_rec r)) with (P ++ l_text r). change (l_first (sh_rec r)) with (d + l_first r). change (l_indent (sh_rec r)) with (l_indent r).
  rewrite len_sh. replace (d + l_first r <=? d + len (l_text r)) with (l_first r <=? len (l_text r)) by lia.
  destruct (negb (l_first r <=? len (l_text r))); [reflexivity|].
  destruct (calc_rw_sh (l_first r) (l_text r) (l_indent r - Z.of_N ind)%Z Ha Hf ltac:(lia)) as [Hc Hz]. rewrite Hc.
  destruct (calc_right_whitespace (takeN (l_first r) (l_text r)) (l_indent r - Z.of_N ind)) as [sp first]. cbn [fst snd] in *. subst sp.
  cbn [N.to_nat seq map repeatN app]. rewrite dropN_sh.
  specialize (IH (S line) e ind keep (acc ++ dropN first (l_text r) ++ (if (S line <? e)%nat || keep then [10] else [])) (mp ++ [(len acc + 0, SRel line first)]) Hs).
  rewrite map_app in IH. cbn [map sh_ent fst snd sh_pos] in IH. exact IH.
Qed.

Lemma get_lines_sh st b e ind keep : sinv st -> get_lines (sh st) b e ind keep = fmap sh_cm (get_lines st b e ind keep).
Proof. intros Hs. unfold get_lines. destruct (b <=? e)%nat; [|reflexivity]. apply (get_lines_loop_sh st _ b e ind keep [] [] Hs). Qed.

(* ---- scanning blanks after a marker ---- *)

Lemma find_indent_loop_atf line line' rest : forall pos pos' ind, atf rest = true ->
  find_indent_loop line' rest pos' ind =
  (fst (find_indent_loop line rest pos ind), snd (find_indent_loop line rest pos ind) + pos' - pos) /\
  pos <= snd (find_indent_loop line rest pos ind) /\
  fst (find_indent_loop line rest pos ind) + pos = ind + snd (find_indent_loop line rest pos ind).
Proof.
  induction rest as [|c t IH]; intros pos pos' ind H; cbn [find_indent_loop].
  - cbn [fst snd]. split; [f_equal; lia|lia].
  - cbn [atf forallb] in H. apply andb_true_iff in H. destruct H as [Hc Ht]. fold (atf t) in Ht.
    destruct c as [|pc]; [cbn [fst snd]; split; [f_equal; lia|lia]|].
    assert (H9 : N.pos pc <> 9) by lia.
    repeat (destruct pc as [pc|pc|]; try (cbn [fst snd]; split; [f_equal; lia|lia]); try congruence).
    destruct (IH (pos + 1) (pos' + 1) (ind + 1) Ht) as (E & L & C). rewrite E. split; [f_equal; lia|lia].
Qed.

Lemma atf_drop k : forall a, atf a = true -> atf (drop k a) = true.
Proof. induction k as [|k IH]; intros a H; destruct a as [|x a]; cbn [drop atf forallb] in *; auto. apply andb_true_iff in H. destruct H as [_ H2]. apply IH. exact H2. Qed.

Lemma find_indent_of_sh (t : str) (pos : N) : atf t = true ->
  find_indent_of (P ++ t) (d + pos) = (fst (find_indent_of t pos), d + snd (find_indent_of t pos)).
Proof.
  intros Ht. unfold find_indent_of. rewrite dropN_sh.
  destruct (find_indent_loop_atf t (P ++ t) (dropN pos t) pos (d + pos) 0 ltac:(apply atf_drop; exact Ht)) as (E & L & _).
  rewrite E. f_equal. lia.
Qed.

Lemma find_indent_of_cols (t : str) (pos : N) : atf t = true -> fst (find_indent_of t pos) + pos = snd (find_indent_of t pos).
Proof.
  intros Ht. unfold find_indent_of.
  destruct (find_indent_loop_atf t t (dropN pos t) pos pos 0 ltac:(apply atf_drop; exact Ht)) as (_ & _ & C). lia.
Qed.

(* ---- look-ahead verdicts and paragraph scans see no difference ---- *)

Ltac prim := rewrite ?line_indent_sh, ?get_line_sh, ?line_rec_sh, ?is_empty_sh.

Lemma set_line_sh st l : set_line (sh st) l = sh (set_line st l).
Proof. reflexivity. Qed.

Lemma fence_open_sh st : fence_open (sh st) = fence_open st.
Proof. unfold fence_open. cbn [b_line sh]. prim. reflexivity. Qed.
Lemma quote_open_sh st : quote_open (sh st) = quote_open st.
Proof. unfold quote_open. cbn [b_line sh]. prim. reflexivity. Qed.
Lemma hr_match_sh st : hr_match (sh st) = hr_match st.
Proof. unfold hr_match. cbn [b_line sh]. prim. reflexivity. Qed.
Lemma heading_open_sh st : heading_open (sh st) = heading_open st.
Proof. unfold heading_open. cbn [b_line sh]. prim. reflexivity. Qed.
Lemma html_open_sh st : html_open (sh st) = html_open st.
Proof. unfold html_open. cbn [b_line sh]. prim. reflexivity. Qed.
Lemma custom_line_sh st : custom_line (sh st) = custom_line st.
Proof. unfold custom_line. cbn [b_line sh]. prim. reflexivity. Qed.

Lemma sh_kind_list k : is_list_kind (sh_kind k) = is_list_kind k.
Proof. destruct k; reflexivity. Qed.

Lemma list_open_sh st s : list_open (sh st) s = list_open st s.
Proof.
  unfold list_open. cbn [b_line b_node b_list_indent b_blk sh]. destruct (b_node st) as [k m a e cs]. cbn [sh_node n_kind]. rewrite sh_kind_list.
  destruct (s && is_list_kind k); [reflexivity|]. prim.
  destruct (line_indent st (b_line st)) as [e0|ind]; [reflexivity|]. cbn [bind ret]. destruct (4 <=? ind)%Z; [reflexivity|].
  destruct (line_rec st (b_line st)) as [e1|r]; [reflexivity|]. cbn [fmap bind ret]. change (l_indent (sh_rec r)) with (l_indent r). reflexivity.
Qed.

Lemma rule_silent_sh r st : rule_silent r (sh st) = rule_silent r st.
Proof.
  unfold rule_silent. rewrite fence_open_sh, quote_open_sh, hr_match_sh, list_open_sh, heading_open_sh, html_open_sh, custom_line_sh. reflexivity.
Qed.

Lemma test_rules_sh chain st : test_rules chain (sh st) = test_rules chain st.
Proof. induction chain as [|r t IH]; cbn [test_rules]; [reflexivity|]. rewrite rule_silent_sh, IH. reflexivity. Qed.

Lemma test_rules_at_sh cfg st l : test_rules_at cfg (sh st) l = test_rules_at cfg st l.
Proof. unfold test_rules_at. rewrite set_line_sh. apply test_rules_sh. Qed.

Lemma para_scan_sh cfg st n : forall next, para_scan cfg (sh st) n next = para_scan cfg st n next.
Proof.
  induction n as [|n IH]; intros next; cbn [para_scan]; [reflexivity|]. cbn [b_max sh]. prim. rewrite test_rules_at_sh, !IH.
  destruct (_ || _); [reflexivity|]. destruct (line_indent st next) as [e|ind]; [reflexivity|]. cbn [bind ret]. destruct (4 <=? ind)%Z; [reflexivity|].
  destruct (line_rec st next) as [e|r]; [reflexivity|]. cbn [fmap bind ret]. change (l_indent (sh_rec r)) with (l_indent r). reflexivity.
Qed.

Lemma lheading_scan_sh cfg st n : forall next, lheading_scan cfg (sh st) n next = lheading_scan cfg st n next.
Proof.
  induction n as [|n IH]; intros next; cbn [lheading_scan]; [reflexivity|]. cbn [b_max sh]. prim. rewrite test_rules_at_sh, !IH.
  destruct (_ || _); [reflexivity|]. destruct (line_indent st next) as [e|ind]; [reflexivity|]. cbn [bind ret]. destruct (4 <=? ind)%Z; [reflexivity|].
  destruct (get_line st next) as [e|line]; [reflexivity|]. cbn [bind ret]. destruct (if (0 <=? ind)%Z then setext_underline line else None); [reflexivity|].
  destruct (line_rec st next) as [e|r]; [reflexivity|]. cbn [fmap bind ret]. change (l_indent (sh_rec r)) with (l_indent r). reflexivity.
Qed.

(* ---- the rules ---- *)

Definition shr (x : bstate * bool) : bstate * bool := (sh (fst x), snd x).

Lemma push_node_sh st c : push_node (sh st) (sh_node c) = sh (push_node st c).
Proof. unfold push_node, set_node, push_child, sh. cbn [b_node b_lines b_blk b_line b_max b_tight b_list_indent b_level b_refs]. destruct (b_node st) as [k m a e cs]. cbn [sh_node set_children n_children]. rewrite map_app. reflexivity. Qed.

Lemma set_map_sh n m : set_map (sh_node n) (sh_map m) = sh_node (set_map n m).
Proof. destruct n; reflexivity. Qed.

Lemma rule_hr_sh st : rule_hr (sh st) = fmap shr (rule_hr st).
Proof.
  unfold rule_hr. rewrite hr_match_sh. destruct (hr_match st) as [e|[[m c]|]]; try reflexivity. cbn [bind ret b_line sh].
  rewrite get_map_sh. destruct (get_map st (b_line st) (b_line st)) as [e|mp]; [reflexivity|]. cbn [fmap bind ret].
  rewrite set_line_sh. change (mk (KHr m c) (sh_map mp) []) with (sh_node (mk (KHr m c) mp [])). rewrite push_node_sh. reflexivity.
Qed.

Lemma rule_custom_sh st : rule_custom (sh st) = fmap shr (rule_custom st).
Proof.
  unfold rule_custom. rewrite custom_line_sh. destruct (custom_line st) as [e|[|]]; try reflexivity. cbn [bind ret negb b_line sh].
  rewrite get_map_sh. destruct (get_map st (b_line st) (b_line st)) as [e|mp]; [reflexivity|]. cbn [fmap bind ret].
  rewrite set_line_sh. change (mk KCustomBlock (sh_map mp) []) with (sh_node (mk KCustomBlock mp [])). rewrite push_node_sh. reflexivity.
Qed.

Lemma rule_heading_sh st : rule_heading (sh st) = fmap shr (rule_heading st).
Proof.
  unfold rule_heading. rewrite heading_open_sh. destruct (heading_open st) as [e|[[[lv tp] line]|]]; try reflexivity. cbn [bind ret b_line sh].
  rewrite line_rec_sh. destruct (line_rec st (b_line st)) as [e|r]; [reflexivity|]. cbn [fmap bind ret].
  destruct (negb (tp <=? heading_text_max line tp)); [reflexivity|].
  rewrite get_map_sh. destruct (get_map st (b_line st) (b_line st)) as [e|mp]; [reflexivity|]. cbn [fmap bind ret].
  rewrite set_line_sh. change (l_first (sh_rec r)) with (d + l_first r).
  match goal with |- context [push_node (sh ?s) ?nd] => replace nd with (sh_node (mk (KATX lv) mp [mk (KInlineRoot (sub line tp (heading_text_max line tp)) [(0, SRel (b_line st) (l_first r + tp))]) None []])) end.
  - rewrite push_node_sh. reflexivity.
  - unfold mk. cbn [sh_node sh_kind map sh_map]. unfold sh_ent. cbn [fst snd sh_pos]. replace (d + (l_first r + tp)) with (d + l_first r + tp) by lia. reflexivity.
Qed.

Section WithInv.
Variable st : bstate.
Hypothesis Hs : sinv st.

Lemma rule_paragraph_sh cfg : rule_paragraph cfg (sh st) = fmap shr (rule_paragraph cfg st).
Proof.
  unfold rule_paragraph. cbv zeta. cbn [b_line b_max b_blk sh]. rewrite para_scan_sh.
  destruct (para_scan cfg st (S (b_max st)) (S (b_line st))) as [e|next]; [reflexivity|]. cbn [bind ret].
  rewrite (get_lines_sh st _ _ _ _ Hs). destruct (get_lines st (b_line st) next (b_blk st) false) as [e|cm]; [reflexivity|]. cbn [fmap bind ret].
  rewrite set_line_sh, get_map_sh. destruct (get_map (set_line st next) (b_line st) (next - 1)) as [e|mp]; [reflexivity|]. cbn [fmap bind ret sh_cm fst snd].
  change (mk KParagraph (sh_map mp) [mk (KInlineRoot (fst cm) (map sh_ent (snd cm))) None []]) with (sh_node (mk KParagraph mp [mk (KInlineRoot (fst cm) (snd cm)) None []])).
  rewrite push_node_sh. reflexivity.
Qed.

Lemma rule_lheading_sh cfg : rule_lheading cfg (sh st) = fmap shr (rule_lheading cfg st).
Proof.
  unfold rule_lheading. cbv zeta. cbn [b_line b_max b_blk sh]. rewrite line_indent_sh.
  destruct (line_indent st (b_line st)) as [e|ind]; [reflexivity|]. cbn [bind ret]. destruct (4 <=? ind)%Z; [reflexivity|].
  rewrite lheading_scan_sh. destruct (lheading_scan cfg st (S (b_max st)) (S (b_line st))) as [e|[next level]]; [reflexivity|]. cbn [bind ret].
  destruct (level =? 0); [reflexivity|].
  rewrite (get_lines_sh st _ _ _ _ Hs). destruct (get_lines st (b_line st) next (b_blk st) false) as [e|cm]; [reflexivity|]. cbn [fmap bind ret].
  rewrite set_line_sh, get_map_sh. destruct (get_map (set_line st (S next)) (b_line st) next) as [e|mp]; [reflexivity|]. cbn [fmap bind ret sh_cm fst snd].
  match goal with |- context [push_node (sh ?s) ?nd] => change nd with (sh_node (mk (KSetext level (if level =? 2 then 45 else 61)) mp [mk (KInlineRoot (fst cm) (snd cm)) None []])) end.
  rewrite push_node_sh. reflexivity.
Qed.

Lemma rule_reference_sh cfg : rule_reference cfg (sh st) = fmap shr (rule_reference cfg st).
Proof.
  unfold rule_reference. cbn [b_line b_max b_blk b_refs sh]. rewrite line_indent_sh, get_line_sh.
  destruct (line_indent st (b_line st)) as [e|ind]; [reflexivity|]. cbn [bind ret]. destruct (4 <=? ind)%Z; [reflexivity|].
  destruct (get_line st (b_line st)) as [e|line]; [reflexivity|]. cbn [bind ret].
  destruct line as [|c t]; [reflexivity|]. destruct c as [|pc]; [reflexivity|].
  repeat (destruct pc as [pc|pc|]; try reflexivity).
  destruct (negb (ref_precheck t)); [reflexivity|]. cbv zeta. rewrite para_scan_sh.
  destruct (para_scan cfg st (S (b_max st)) (S (b_line st))) as [e|next]; [reflexivity|]. cbn [bind ret].
  rewrite (get_lines_sh st _ _ _ _ Hs). destruct (get_lines st (b_line st) next (b_blk st) false) as [e|cm]; [reflexivity|]. cbn [fmap bind ret sh_cm fst].
  destruct (parse_reference (trim_str (fst cm))) as [[[[label href] title] lines]|]; reflexivity.
Qed.

Ltac bind_inr := repeat match goal with |- context [bind (inr ?x) ?f] => change (bind (inr x) f) with (f x); cbv beta end.

Lemma rule_code_sh : rule_code (sh st) = fmap shr (rule_code st).
Proof.
  cbv beta zeta delta [rule_code].
  match goal with |- context [?g (S (b_max (sh st))) _ _] => set (scan' := g) end.
  match goal with |- context [?f (S (b_max st)) (S (b_line st)) _] => set (scan := f) end.
  assert (Hscan : forall n a b, scan' n a b = scan n a b).
  { induction n as [|n IH]; intros a b; cbn [scan' scan]; [reflexivity|]. cbn [b_max sh]. rewrite is_empty_sh, line_indent_sh, !IH. reflexivity. }
  change (b_line (sh st)) with (b_line st). change (b_max (sh st)) with (b_max st). change (b_blk (sh st)) with (b_blk st).
  rewrite line_indent_sh, Hscan.
  destruct (line_indent st (b_line st)) as [e|ind]; [reflexivity|]. bind_inr. destruct (ind <? 4)%Z; [reflexivity|].
  destruct (scan (S (b_max st)) (S (b_line st)) (S (b_line st))) as [e|last]; [reflexivity|]. bind_inr.
  rewrite (get_lines_sh st _ _ _ _ Hs). destruct (get_lines st (b_line st) last (4 + b_blk st) false) as [e|cm]; [reflexivity|]. cbn [fmap bind ret sh_cm fst snd].
  destruct (snd cm) as [|[k0 p0] rest]; [reflexivity|]. cbn [map sh_ent fst snd].
  rewrite pos_end_sh. destruct (pos_end st (last - 1)) as [e|pe]; [reflexivity|]. cbn [fmap bind ret].
  rewrite set_line_sh. change (mk (KCodeBlock (fst cm ++ [10])) (Some (sh_pos p0, sh_pos pe)) []) with (sh_node (mk (KCodeBlock (fst cm ++ [10])) (Some (p0, pe)) [])).
  rewrite push_node_sh. reflexivity.
Qed.

Lemma fsearch_sh marker n k : forall a, fsearch (sh st) marker n k a = fsearch st marker n k a.
Proof.
  induction k as [|k IH]; intros a; [reflexivity|].
  change (fsearch (sh st) marker n (S k) a) with (if Nat.leb (b_max (sh st)) a then ret (a, false) else do line <- get_line (sh st) a; do ind <- line_indent (sh st) a; if negb (match line with [] => true | _ => false end) && (ind <? 0)%Z then ret (a, false) else match line with c :: _ => if negb (c =? marker) then fsearch (sh st) marker n k (S a) else if (4 <=? ind)%Z then fsearch (sh st) marker n k (S a) else let len_end := count_prefix marker line in if len_end <? n then fsearch (sh st) marker n k (S a) else if all_sptab (dropN len_end line) then ret (a, true) else fsearch (sh st) marker n k (S a) | [] => fsearch (sh st) marker n k (S a) end).
  change (fsearch st marker n (S k) a) with (if Nat.leb (b_max st) a then ret (a, false) else do line <- get_line st a; do ind <- line_indent st a; if negb (match line with [] => true | _ => false end) && (ind <? 0)%Z then ret (a, false) else match line with c :: _ => if negb (c =? marker) then fsearch st marker n k (S a) else if (4 <=? ind)%Z then fsearch st marker n k (S a) else let len_end := count_prefix marker line in if len_end <? n then fsearch st marker n k (S a) else if all_sptab (dropN len_end line) then ret (a, true) else fsearch st marker n k (S a) | [] => fsearch st marker n k (S a) end).
  cbn [b_max sh]. rewrite get_line_sh, line_indent_sh, !IH. reflexivity.
Qed.

Lemma rule_fence_sh cfg : rule_fence cfg (sh st) = fmap shr (rule_fence cfg st).
Proof.
  rewrite !rule_fence_unfold. rewrite fence_open_sh. destruct (fence_open st) as [e|[[[marker n] params]|]]; try reflexivity. cbn [bind ret].
  cbn [b_line b_max sh]. rewrite fsearch_sh. destruct (fsearch st marker n (S (b_max st)) (S (b_line st))) as [e|[next he]]; [reflexivity|]. cbn [bind ret].
  rewrite line_rec_sh. destruct (line_rec st (b_line st)) as [e|r0]; [reflexivity|]. cbn [fmap bind ret]. change (l_indent (sh_rec r0)) with (l_indent r0).
  rewrite (get_lines_sh st _ _ _ _ Hs). destruct (get_lines st (S (b_line st)) next (Z.to_N (l_indent r0)) true) as [e|cm]; [reflexivity|]. cbn [fmap bind ret sh_cm fst].
  rewrite get_map_sh. destruct (get_map st (b_line st) (if he then next else (next - 1)%nat)) as [e|mp]; [reflexivity|]. cbn [fmap bind ret].
  rewrite set_line_sh.
  change (mk (KFence params marker n (fst cm) (bc_fence_prefix cfg)) (sh_map mp) []) with (sh_node (mk (KFence params marker n (fst cm) (bc_fence_prefix cfg)) mp [])).
  rewrite push_node_sh. reflexivity.
Qed.

Lemma hroll_sh seq_i k : forall a, hroll (sh st) seq_i k a = hroll st seq_i k a.
Proof.
  induction k as [|k IH]; intros a; [reflexivity|].
  change (hroll (sh st) seq_i (S k) a) with (if negb (Nat.ltb a (b_max (sh st))) then ret a else do lt <- get_line (sh st) a; do ind <- line_indent (sh st) a; if negb (match lt with [] => true | _ => false end) && (ind <? 0)%Z then ret a else if html_seq_close seq_i lt then ret (match lt with [] => a | _ => S a end) else hroll (sh st) seq_i k (S a)).
  change (hroll st seq_i (S k) a) with (if negb (Nat.ltb a (b_max st)) then ret a else do lt <- get_line st a; do ind <- line_indent st a; if negb (match lt with [] => true | _ => false end) && (ind <? 0)%Z then ret a else if html_seq_close seq_i lt then ret (match lt with [] => a | _ => S a end) else hroll st seq_i k (S a)).
  cbn [b_max sh]. rewrite get_line_sh, line_indent_sh, !IH. reflexivity.
Qed.

Lemma rule_html_block_sh : rule_html_block (sh st) = fmap shr (rule_html_block st).
Proof.
  rewrite !rule_html_block_unfold. rewrite html_open_sh. destruct (html_open st) as [e|[[seq_i line_text]|]]; try reflexivity. cbn [bind ret].
  cbn [b_line b_max b_blk sh]. rewrite hroll_sh.
  destruct (if html_seq_close seq_i line_text then ret (S (b_line st)) else hroll st seq_i (S (b_max st)) (S (b_line st))) as [e|next]; [reflexivity|]. cbn [bind ret].
  rewrite set_line_sh, (get_lines_sh (set_line st next) _ _ _ _ Hs).
  destruct (get_lines (set_line st next) (b_line st) next (b_blk st) true) as [e|cm]; [reflexivity|]. cbn [fmap bind ret sh_cm fst].
  rewrite get_map_sh. destruct (get_map (set_line st next) (b_line st) (next - 1)) as [e|mp]; [reflexivity|]. cbn [fmap bind ret].
  change (mk (KHtmlBlock (fst cm)) (sh_map mp) []) with (sh_node (mk (KHtmlBlock (fst cm)) mp [])).
  rewrite push_node_sh. reflexivity.
Qed.

End WithInv.

(* ---- containers ---- *)

Definition sinv_lines (ls : list lrec) : Prop := forall l r, nth_error ls l = Some r -> sinv_rec r.

Lemma set_nth_map {A B} (f : A -> B) (ls : list A) : forall n x, set_nth (map f ls) n (f x) = map f (set_nth ls n x).
Proof. induction ls as [|a t IH]; intros [|n] x; cbn; auto. f_equal. apply IH. Qed.

Lemma set_nth_sinv ls n x : sinv_lines ls -> sinv_rec x -> sinv_lines (set_nth ls n x).
Proof.
  intros Hw Hx l r H. destruct (PeanoNat.Nat.eq_dec l n) as [->|Hne].
  - destruct (nth_error ls n) as [y|] eqn:E.
    + rewrite (BlockProofs.set_nth_same _ _ _ _ E) in H. injection H as <-. exact Hx.
    + assert (nth_error (set_nth ls n x) n = None) by (apply nth_error_None; rewrite set_nth_length; apply nth_error_None; exact E). congruence.
  - rewrite set_nth_other in H by exact Hne. eapply Hw; exact H.
Qed.

Definition shq (x : list lrec * nat) : list lrec * nat := (map sh_rec (fst x), snd x).

Lemma set_lines_sh st ls : set_lines (sh st) (map sh_rec ls) = sh (set_lines st ls).
Proof. reflexivity. Qed.

Lemma quote_scan_sh cfg st0 n : forall lines next le, sinv_lines lines ->
  quote_scan cfg (sh st0) n (map sh_rec lines) next le = fmap shq (quote_scan cfg st0 n lines next le) /\
  (forall x, quote_scan cfg st0 n lines next le = inr x -> sinv_lines (fst x)).
Proof.
  induction n as [|n IH]; intros lines next le Hw; cbn [quote_scan].
  { split; [reflexivity|]. intros x H. injection H as <-. exact Hw. }
  cbn [b_max sh]. destruct (negb (next <? b_max st0)%nat).
  { split; [reflexivity|]. intros x H. injection H as <-. exact Hw. }
  cbv zeta. rewrite set_lines_sh, line_indent_sh, get_line_sh, line_rec_sh.
  destruct (line_indent (set_lines st0 lines) next) as [e|ind]; [split; [reflexivity|discriminate]|]. cbn [bind ret].
  destruct (get_line (set_lines st0 lines) next) as [e|line] eqn:Egl; [split; [reflexivity|discriminate]|]. cbn [bind ret].
  unfold line_rec. cbn [b_lines set_lines]. destruct (nth_error lines next) as [r|] eqn:Er; [|split; [reflexivity|discriminate]]. cbn [fmap bind ret].
  destruct (Hw _ _ Er) as (Ha & Hf & Hi).
  destruct line as [|c rest]. { split; [reflexivity|]. intros x H. injection H as <-. exact Hw. }
  assert (Hfl : l_first r < len (l_text r)).
  { unfold get_line, line_rec in Egl. cbn [b_lines set_lines] in Egl. rewrite Er in Egl. cbn [bind ret] in Egl.
    destruct (l_first r <=? l_end r); [|discriminate]. injection Egl as Egl. apply drop_cons_lt in Egl. lia. }
  change (l_first (sh_rec r)) with (d + l_first r). change (l_text (sh_rec r)) with (P ++ l_text r). change (l_indent (sh_rec r)) with (l_indent r).
  change (b_blk (sh st0)) with (b_blk st0).
  destruct ((c =? 62) && negb (ind <? 0)%Z).
  - replace (d + l_first r + 1) with (d + (l_first r + 1)) by lia. rewrite (find_indent_of_sh _ _ Ha).
    pose proof (find_indent_of_cols (l_text r) (l_first r + 1) Ha) as Hcols.
    pose proof (find_indent_of_bound (l_text r) (l_first r + 1) (fst (find_indent_of (l_text r) (l_first r + 1))) (snd (find_indent_of (l_text r) (l_first r + 1))) ltac:(lia) ltac:(destruct (find_indent_of _ _); reflexivity)) as Hb.
    destruct (find_indent_of (l_text r) (l_first r + 1)) as [ia fn]. cbn [fst snd] in *.
    unfold l_end. change (l_text (sh_rec r)) with (P ++ l_text r). rewrite len_sh. replace (d + fn =? d + len (l_text r)) with (fn =? len (l_text r)) by lia.
    set (ia' := match rest with d0 :: _ => if is_sptab d0 then ia - 1 else ia | [] => ia end).
    change (LRec (P ++ l_text r) (d + fn) (Z.of_N ia')) with (sh_rec (LRec (l_text r) fn (Z.of_N ia'))). rewrite set_nth_map.
    apply IH. apply set_nth_sinv; [exact Hw|]. unfold sinv_rec. cbn [l_text l_first l_indent]. repeat split; try assumption; try lia.
    unfold ia'. destruct rest as [|d0 rest']; [lia|]. destruct (is_sptab d0); lia.
  - destruct le. { split; [reflexivity|]. intros x H. injection H as <-. exact Hw. }
    rewrite test_rules_at_sh. destruct (test_rules_at cfg (set_lines st0 lines) next) as [e|term]; [split; [reflexivity|discriminate]|]. cbn [bind ret].
    destruct term.
    + destruct (b_blk st0 =? 0).
      * split; [reflexivity|]. intros x H. injection H as <-. exact Hw.
      * change (LRec (P ++ l_text r) (d + l_first r) (l_indent r - Z.of_N (b_blk st0))) with (sh_rec (LRec (l_text r) (l_first r) (l_indent r - Z.of_N (b_blk st0)))).
        rewrite set_nth_map. split; [reflexivity|]. intros x H. injection H as <-. cbn [fst].
        apply set_nth_sinv; [exact Hw|]. unfold sinv_rec. cbn [l_text l_first l_indent]. repeat split; try assumption; lia.
    + change (LRec (P ++ l_text r) (d + l_first r) (-1)) with (sh_rec (LRec (l_text r) (l_first r) (-1))). rewrite set_nth_map.
      apply IH. apply set_nth_sinv; [exact Hw|]. unfold sinv_rec. cbn [l_text l_first l_indent]. repeat split; try assumption; lia.
Qed.

Section WithT.
Variable cfg : bcfg.
Variable T : bstate -> res bstate.
Hypothesis T_sh : forall x, sinv x -> T (sh x) = fmap sh (T x).

Lemma rule_quote_sh st : sinv st -> rule_quote cfg T (sh st) = fmap shr (rule_quote cfg T st).
Proof.
  intros Hs. unfold rule_quote. rewrite quote_open_sh. destruct (quote_open st) as [e|[|]]; try reflexivity. cbn [bind ret negb]. cbv zeta.
  cbn [b_line b_max b_lines b_tight b_list_indent b_level b_refs b_node b_blk sh].
  destruct (quote_scan_sh cfg st (S (b_max st)) (b_lines st) (b_line st) false Hs) as [Hq Hqi]. rewrite Hq.
  destruct (quote_scan cfg st (S (b_max st)) (b_lines st) (b_line st) false) as [e|[lines' next]]; [reflexivity|]. cbn [fmap bind ret shq fst snd].
  specialize (Hqi _ eq_refl). cbn [fst] in Hqi.
  set (inner := BState lines' (mk KBlockquote None []) 0 (b_line st) next (b_tight st) (b_list_indent st) (b_level st + 1) (b_refs st)).
  change (BState (map sh_rec lines') (mk KBlockquote None []) 0 (b_line st) next (b_tight st) (b_list_indent st) (b_level st + 1) (b_refs st)) with (sh inner).
  rewrite (T_sh inner Hqi). destruct (T inner) as [e|inner']; [reflexivity|]. cbn [fmap bind ret].
  cbn [b_line b_tight b_list_indent b_refs b_node sh].
  set (st' := BState (b_lines st) (b_node st) (b_blk st) (b_line inner') (b_max st) (b_tight inner') (b_list_indent inner') (b_level st) (b_refs inner')).
  change (BState (map sh_rec (b_lines st)) (sh_node (b_node st)) (b_blk st) (b_line inner') (b_max st) (b_tight inner') (b_list_indent inner') (b_level st) (b_refs inner')) with (sh st').
  rewrite get_map_sh. destruct (get_map st' (b_line st) (b_line inner' - 1)) as [e|mp]; [reflexivity|]. cbn [fmap bind ret].
  rewrite set_map_sh, push_node_sh. reflexivity.
Qed.

Definition shl (x : bstate * nat * bool) : bstate * nat * bool := (sh (fst (fst x)), snd (fst x), snd x).

Lemma line_rec_nth st l r : line_rec st l = inr r -> nth_error (b_lines st) l = Some r.
Proof. unfold line_rec. destruct (nth_error (b_lines st) l); [intros H; injection H as <-; reflexivity|discriminate]. Qed.

Lemma list_items_sh n : forall st ordered mc p next pe tight, sinv st ->
  (forall r, nth_error (b_lines st) next = Some r -> p + l_first r <= len (l_text r)) ->
  list_items cfg T n (sh st) ordered mc p next pe tight = fmap shl (list_items cfg T n st ordered mc p next pe tight).
Proof.
  induction n as [|n IH]; intros st ordered mc p next pe tight Hs Hp; [reflexivity|].
  cbn [list_items]. cbn [b_max sh]. destruct (negb (next <? b_max st)%nat); [reflexivity|].
  rewrite line_rec_sh. destruct (line_rec st next) as [e|r] eqn:Er; [reflexivity|]. cbn [fmap bind ret]. cbv zeta.
  apply line_rec_nth in Er. destruct (Hs _ _ Er) as (Ha & Hf & Hi). specialize (Hp _ Er).
  change (l_first (sh_rec r)) with (d + l_first r). change (l_text (sh_rec r)) with (P ++ l_text r). change (l_indent (sh_rec r)) with (l_indent r).
  replace (p + (d + l_first r)) with (d + (p + l_first r)) by lia. rewrite (find_indent_of_sh _ _ Ha).
  pose proof (find_indent_of_cols (l_text r) (p + l_first r) Ha) as Hcols.
  pose proof (find_indent_of_bound (l_text r) (p + l_first r) (fst (find_indent_of (l_text r) (p + l_first r))) (snd (find_indent_of (l_text r) (p + l_first r))) Hp ltac:(destruct (find_indent_of _ _); reflexivity)) as Hb.
  destruct (find_indent_of (l_text r) (p + l_first r)) as [ia fn]. cbn [fst snd] in *.
  unfold l_end. change (l_text (sh_rec r)) with (P ++ l_text r). rewrite len_sh. replace (d + fn =? d + len (l_text r)) with (fn =? len (l_text r)) by lia.
  cbn [b_lines b_line b_max b_level b_refs b_blk b_node b_tight b_list_indent sh].
  set (ia' := if fn =? len (l_text r) then 1 else if 4 <? ia then 1 else ia).
  set (rec1 := LRec (l_text r) fn (Z.of_N (Z.to_N (l_indent r) + p + ia))).
  change (LRec (P ++ l_text r) (d + fn) (Z.of_N (Z.to_N (l_indent r) + p + ia))) with (sh_rec rec1). rewrite set_nth_map.
  set (st1 := BState (set_nth (b_lines st) next rec1) (mk KItem None []) (Z.to_N (l_indent r) + p + ia') (b_line st) (b_max st) true (Some (b_blk st)) (b_level st) (b_refs st)).
  change (BState (map sh_rec (set_nth (b_lines st) next rec1)) (mk KItem None []) (Z.to_N (l_indent r) + p + ia') (b_line st) (b_max st) true (Some (b_blk st)) (b_level st) (b_refs st)) with (sh st1).
  assert (Hs1 : sinv st1).
  { unfold sinv. cbn [b_lines st1]. apply set_nth_sinv; [exact Hs|]. unfold sinv_rec, rec1. cbn [l_text l_first l_indent]. repeat split; try assumption; lia. }
  rewrite is_empty_sh.
  (* the item body *)
  assert (Hbody : (if (fn =? len (l_text r)) && is_empty st1 (S next)
                   then ret (set_line (sh st1) (if (b_line st + 2 <? b_max st)%nat then (b_line st + 2)%nat else b_max st))
                   else do x <- T (set_level (set_line (sh st1) next) (b_level st + 1)); ret (set_level x (b_level st))) =
                  fmap sh (if (fn =? len (l_text r)) && is_empty st1 (S next)
                           then ret (set_line st1 (if (b_line st + 2 <? b_max st)%nat then (b_line st + 2)%nat else b_max st))
                           else do x <- T (set_level (set_line st1 next) (b_level st + 1)); ret (set_level x (b_level st)))).
  { destruct (_ && _); [reflexivity|].
    change (set_level (set_line (sh st1) next) (b_level st + 1)) with (sh (set_level (set_line st1 next) (b_level st + 1))).
    rewrite (T_sh (set_level (set_line st1 next) (b_level st + 1)) Hs1). destruct (T (set_level (set_line st1 next) (b_level st + 1))); reflexivity. }
  rewrite Hbody. clear Hbody.
  destruct (if (fn =? len (l_text r)) && is_empty st1 (S next) then _ else _) as [e|st2]; [reflexivity|]. cbn [fmap bind ret].
  cbn [b_tight b_line b_refs b_node sh]. rewrite is_empty_sh.
  destruct (b_line st2 <? next)%nat; [reflexivity|].
  set (st3 := BState (b_lines st) (b_node st) (b_blk st) (b_line st2) (b_max st) (b_tight st) (b_list_indent st) (b_level st) (b_refs st2)).
  change (BState (map sh_rec (b_lines st)) (sh_node (b_node st)) (b_blk st) (b_line st2) (b_max st) (b_tight st) (b_list_indent st) (b_level st) (b_refs st2)) with (sh st3).
  destruct (b_line st2 =? 0)%nat; [reflexivity|].
  rewrite get_map_sh. destruct (get_map st3 next (b_line st2 - 1)) as [e|mp]; [reflexivity|]. cbn [fmap bind ret].
  rewrite set_map_sh, push_node_sh.
  set (st4 := push_node st3 (set_map (b_node st2) mp)).
  cbn [b_max sh]. destruct (b_max st4 <=? b_line st2)%nat; [reflexivity|].
  rewrite line_indent_sh. destruct (line_indent st4 (b_line st2)) as [e|ind]; [reflexivity|]. cbn [bind ret].
  destruct (ind <? 0)%Z; [reflexivity|]. destruct (4 <=? ind)%Z; [reflexivity|].
  rewrite test_rules_at_sh. destruct (test_rules_at cfg st4 (b_line st2)) as [e|term]; [reflexivity|]. cbn [bind ret].
  rewrite set_line_sh. destruct term; [reflexivity|].
  rewrite get_line_sh. destruct (get_line (set_line st4 (b_line st2)) (b_line st2)) as [e|cur] eqn:Ecur; [reflexivity|]. cbn [bind ret].
  destruct (if ordered then skip_ordered_list_marker cur else skip_bullet_list_marker cur) as [p'|] eqn:Emk; [|reflexivity].
  destruct (last_byte (takeN p' cur)) as [mc'|]; [|reflexivity]. destruct (negb (mc' =? mc)); [reflexivity|].
  apply IH.
  - exact Hs.
  - intros r' Hr'. cbn [b_lines set_line st4 push_node set_node st3] in Hr'.
    assert (Hb' : 1 <= p' <= len cur) by (destruct ordered; [apply skip_ordered_bound|apply skip_bullet_bound]; exact Emk).
    pose proof (get_line_len (set_line st4 (b_line st2)) (b_line st2) cur r' Ecur Hr'). lia.
Qed.

Lemma n_children_sh n : n_children (sh_node n) = map sh_node (n_children n).
Proof. destruct n; reflexivity. Qed.
Lemma set_children_sh n cs : set_children (sh_node n) (map sh_node cs) = sh_node (set_children n cs).
Proof. destruct n; reflexivity. Qed.
Lemma push_child_sh a c : push_child (sh_node a) (sh_node c) = sh_node (push_child a c).
Proof. destruct a as [k m at_ e cs]. unfold push_child. cbn [sh_node set_children n_children]. rewrite map_app. reflexivity. Qed.
Lemma set_node_sh st n : set_node (sh st) (sh_node n) = sh (set_node st n).
Proof. reflexivity. Qed.
Lemma n_kind_sh_para n : match n_kind (sh_node n) with KParagraph => true | _ => false end = match n_kind n with KParagraph => true | _ => false end.
Proof. destruct n as [k m a e cs]. destruct k; reflexivity. Qed.
Lemma mark_tight_sh cs : mark_tight (map sh_node cs) = map sh_node (mark_tight cs).
Proof.
  induction cs as [|c t IH]; [reflexivity|]. unfold mark_tight in *. cbn [map flat_map]. rewrite IH, map_app. f_equal.
  destruct c as [k m a e cs]. cbn [sh_node n_kind n_children]. destruct k; reflexivity.
Qed.
Lemma tight_items_sh items :
  map (fun it => set_children it (mark_tight (n_children it))) (map sh_node items) =
  map sh_node (map (fun it => set_children it (mark_tight (n_children it))) items).
Proof. rewrite !map_map. apply map_ext. intros it. rewrite n_children_sh, mark_tight_sh, set_children_sh. reflexivity. Qed.

Lemma rule_list_sh st : sinv st -> rule_list cfg T (sh st) = fmap shr (rule_list cfg T st).
Proof.
  intros Hs. unfold rule_list. rewrite list_open_sh. destruct (list_open st false) as [e|[[[mv p] cur]|]] eqn:Elo; try reflexivity. cbn [bind ret].
  destruct (last_byte (takeN p cur)) as [mc|]; [|reflexivity]. cbv zeta. cbn [b_line b_max b_node sh].
  set (new_node := match mv with Some v => mk (KOrdered v mc) None [] | None => mk (KBullet mc) None [] end).
  assert (Hnn : sh_node new_node = new_node) by (unfold new_node; destruct mv; reflexivity).
  replace (set_node (sh st) new_node) with (sh (set_node st new_node)) by (unfold sh, set_node; cbn [b_lines b_node b_blk b_line b_max b_tight b_list_indent b_level b_refs]; rewrite Hnn; reflexivity).
  rewrite list_items_sh.
  - match goal with |- context [fmap shl ?X] => destruct X as [e|[[st' next] tight]] end; [reflexivity|]. cbn [fmap bind ret shl fst snd].
    cbn [b_node sh]. destruct (next =? 0)%nat; [reflexivity|].
    rewrite get_map_sh. destruct (get_map st' (b_line st) (next - 1)) as [e|mp]; [reflexivity|]. cbn [fmap bind ret].
    unfold shr. cbn [fst snd]. f_equal. f_equal.
    assert (Hln : (if tight then set_children (sh_node (b_node st')) (map (fun it => set_children it (mark_tight (n_children it))) (n_children (sh_node (b_node st'))))
                   else sh_node (b_node st')) =
                  sh_node (if tight then set_children (b_node st') (map (fun it => set_children it (mark_tight (n_children it))) (n_children (b_node st'))) else b_node st')).
    { destruct tight; [|reflexivity]. rewrite n_children_sh, tight_items_sh, set_children_sh. reflexivity. }
    rewrite Hln, set_map_sh, push_child_sh, set_node_sh. reflexivity.
  - exact Hs.
  - intros r Hr. cbn [b_lines set_node] in Hr.
    (* the marker lies within the line: from list_open *)
    unfold list_open in Elo. cbn [andb] in Elo. hinv Elo.
    all: injection Elo as <- <- <-.
    all: match goal with E : get_line ?s ?l = inr ?c |- _ => pose proof (get_line_len s l c r E Hr) as Hl end.
    all: match goal with E : skip_ordered_list_marker _ = Some _ |- _ => apply skip_ordered_bound in E | E : skip_bullet_list_marker _ = Some _ |- _ => apply skip_bullet_bound in E end.
    all: lia.
Qed.

(* ---- every rule hands back the line table it was given ---- *)

Ltac lines_same H := hinv H; injection H as <- _; reflexivity.

Lemma list_items_lines n : forall st ordered mc p next pe tight x, list_items cfg T n st ordered mc p next pe tight = inr x ->
  b_lines (fst (fst x)) = b_lines st.
Proof.
  induction n as [|n IH]; intros st ordered mc p next pe tight x H; cbn [list_items] in H; [discriminate|].
  destruct (negb (next <? b_max st)%nat); [injection H as <-; reflexivity|].
  destruct (line_rec st next) as [e|r]; [discriminate|]. cbn [bind ret] in H. cbv zeta in H.
  destruct (find_indent_of (l_text r) (p + l_first r)) as [ia fn].
  match type of H with bind ?a _ = _ => destruct a as [e|st2]; [discriminate|] end. cbn [bind ret] in H.
  destruct (b_line st2 <? next)%nat; [discriminate|]. destruct (b_line st2 =? 0)%nat; [discriminate|].
  match type of H with bind ?a _ = _ => destruct a as [e|mp]; [discriminate|] end. cbn [bind ret] in H.
  destruct (_ <=? b_line st2)%nat; [injection H as <-; reflexivity|].
  match type of H with bind ?a _ = _ => destruct a as [e|ind]; [discriminate|] end. cbn [bind ret] in H.
  destruct (ind <? 0)%Z; [injection H as <-; reflexivity|]. destruct (4 <=? ind)%Z; [injection H as <-; reflexivity|].
  match type of H with bind ?a _ = _ => destruct a as [e|term]; [discriminate|] end. cbn [bind ret] in H.
  destruct term; [injection H as <-; reflexivity|].
  match type of H with bind ?a _ = _ => destruct a as [e|cur]; [discriminate|] end. cbn [bind ret] in H.
  destruct (if ordered then _ else _) as [p'|]; [|injection H as <-; reflexivity].
  destruct (last_byte _) as [mc'|]; [|discriminate]. destruct (negb (mc' =? mc)); [injection H as <-; reflexivity|].
  apply IH in H. rewrite H. reflexivity.
Qed.

Lemma rule_real_lines r st x b : rule_real cfg T r st = inr (x, b) -> b_lines x = b_lines st.
Proof.
  unfold rule_real.
  repeat match goal with |- (if ?c then _ else _) = _ -> _ => destruct c end.
  - cbv beta zeta delta [rule_code]. intros H. lines_same H.
  - rewrite rule_fence_unfold. intros H. lines_same H.
  - unfold rule_quote. intros H. lines_same H.
  - unfold rule_hr. intros H. lines_same H.
  - unfold rule_list. intros H. hinv H. all: try (injection H as <- _; reflexivity).
    all: match goal with E : list_items _ _ _ _ _ _ _ _ _ _ = inr _ |- _ => apply list_items_lines in E; cbn [fst b_lines set_node] in E end.
    all: injection H as <- _; cbn [b_lines set_node]; exact E || assumption.
  - unfold rule_reference. intros H. lines_same H.
  - unfold rule_heading. intros H. lines_same H.
  - unfold rule_lheading. intros H. lines_same H.
  - unfold rule_paragraph. intros H. lines_same H.
  - rewrite rule_html_block_unfold. intros H. lines_same H.
  - unfold rule_custom. intros H. lines_same H.
  - intros H. injection H as <- _. reflexivity.
Qed.

(* ---- the engine ---- *)

Lemma rule_real_sh r st : sinv st -> rule_real cfg T r (sh st) = fmap shr (rule_real cfg T r st).
Proof.
  intros Hs. unfold rule_real.
  repeat match goal with |- (if ?c then _ else _) = _ => destruct c end;
    auto using rule_code_sh, rule_fence_sh, rule_quote_sh, rule_hr_sh, rule_list_sh, rule_reference_sh, rule_heading_sh,
      rule_lheading_sh, rule_paragraph_sh, rule_html_block_sh, rule_custom_sh.
Qed.

Lemma try_rules_lines chain : forall st x b, try_rules cfg T chain st = inr (x, b) -> b_lines x = b_lines st.
Proof.
  induction chain as [|r t IH]; intros st x b H; cbn [try_rules] in H; [injection H as <- _; reflexivity|].
  destruct (rule_real cfg T r st) as [e|[x' b']] eqn:E; [discriminate|]. cbn [bind ret snd fst] in H.
  destruct b'.
  - destruct (b_line st <? b_line x')%nat; [|discriminate]. injection H as <- _. eapply rule_real_lines; exact E.
  - eapply IH; exact H.
Qed.

Lemma try_rules_sh chain : forall st, sinv st -> try_rules cfg T chain (sh st) = fmap shr (try_rules cfg T chain st).
Proof.
  induction chain as [|r t IH]; intros st Hs; cbn [try_rules]; [reflexivity|].
  rewrite (rule_real_sh r st Hs). destruct (rule_real cfg T r st) as [e|[x b]]; [reflexivity|]. cbn [fmap bind ret shr fst snd].
  destruct b; [|apply IH; exact Hs]. cbn [b_line sh]. destruct (b_line st <? b_line x)%nat; reflexivity.
Qed.

Lemma set_tight_sh st t : set_tight (sh st) t = sh (set_tight st t).
Proof. reflexivity. Qed.

Lemma tok_loop_sh n : forall st he, sinv st -> tok_loop cfg T n (sh st) he = fmap sh (tok_loop cfg T n st he).
Proof.
  induction n as [|n IH]; intros st he Hs; cbn [tok_loop]; cbn [b_line b_max sh].
  { destruct (negb (b_line st <? b_max st)%nat); reflexivity. }
  destruct (negb (b_line st <? b_max st)%nat); [reflexivity|]. cbv zeta.
  unfold skip_empty_lines. cbn [b_max sh]. rewrite skip_empty_from_sh.
  set (line := skip_empty_from (S (b_max st - b_line st)) st (b_line st)).
  rewrite set_line_sh. cbn [b_max b_level sh]. destruct (b_max (set_line st line) <=? line)%nat; [reflexivity|].
  rewrite line_indent_sh. destruct (line_indent (set_line st line) line) as [e|ind]; [reflexivity|]. cbn [bind ret].
  destruct (ind <? 0)%Z; [reflexivity|]. cbn [b_level set_line]. destruct (bc_maxnest cfg <=? b_level st); [reflexivity|].
  assert (Hsl : sinv (set_line st line)) by exact Hs.
  rewrite (try_rules_sh _ _ Hsl). destruct (try_rules cfg T (bc_chain cfg) (set_line st line)) as [e|[x ok]] eqn:Etr; [reflexivity|]. cbn [fmap bind ret shr fst snd].
  assert (Hx : b_lines x = b_lines st) by (apply try_rules_lines in Etr; exact Etr).
  (* the state after a rule or the fallback *)
  assert (Hst1 : (if ok then ret (sh x)
                  else do content <- get_line (sh (set_line st line)) line; do r <- line_rec (sh (set_line st line)) line;
                       ret (set_line (push_node (sh (set_line st line)) (mk (KInlineRoot (content ++ [10]) [(0, SRel line (l_first r))]) None [])) (S line))) =
                 fmap sh (if ok then ret x
                          else do content <- get_line (set_line st line) line; do r <- line_rec (set_line st line) line;
                               ret (set_line (push_node (set_line st line) (mk (KInlineRoot (content ++ [10]) [(0, SRel line (l_first r))]) None [])) (S line)))).
  { destruct ok; [reflexivity|]. rewrite get_line_sh, line_rec_sh. destruct (get_line (set_line st line) line) as [e|content]; [reflexivity|]. cbn [bind ret].
    destruct (line_rec (set_line st line) line) as [e|r]; [reflexivity|]. cbn [fmap bind ret]. change (l_first (sh_rec r)) with (d + l_first r).
    change (mk (KInlineRoot (content ++ [10]) [(0, SRel line (d + l_first r))]) None []) with (sh_node (mk (KInlineRoot (content ++ [10]) [(0, SRel line (l_first r))]) None [])).
    rewrite push_node_sh. reflexivity. }
  assert (Hsub : ok = false -> x = set_line st line).
  { intros ->. clear Hst1. revert Etr. generalize (bc_chain cfg). induction l as [|r0 t0 IHl]; cbn [try_rules]; [intros H; injection H as <-; reflexivity|].
    destruct (rule_real cfg T r0 (set_line st line)) as [e|[x' b']] eqn:Er; [discriminate|]. cbn [bind ret snd fst].
    destruct b'; [destruct (_ <? _)%nat; discriminate|]. exact IHl. }
  destruct ok.
  - rewrite Hst1. cbn [fmap bind ret]. rewrite set_tight_sh. cbn [b_line b_max sh]. rewrite !is_empty_sh.
    assert (Hs2 : forall y, b_lines y = b_lines x -> sinv y) by (intros y Hy; unfold sinv; rewrite Hy, Hx; exact Hs).
    destruct (_ && _).
    + rewrite set_line_sh. apply IH. apply Hs2. reflexivity.
    + apply IH. apply Hs2. reflexivity.
  - rewrite (Hsub eq_refl) in *. rewrite Hst1. clear Hst1.
    destruct (get_line (set_line st line) line) as [e|content]; [reflexivity|]. cbn [bind ret].
    destruct (line_rec (set_line st line) line) as [e|r]; [reflexivity|]. cbn [fmap bind ret]. rewrite set_tight_sh. cbn [b_line b_max sh]. rewrite !is_empty_sh.
    destruct (_ && _).
    + rewrite set_line_sh. apply IH. exact Hs.
    + apply IH. exact Hs.
Qed.

Lemma tokenize_body_sh st : sinv st -> tokenize_body cfg T (sh st) = fmap sh (tokenize_body cfg T st).
Proof. intros Hs. unfold tokenize_body. cbn [b_max b_line sh]. apply tok_loop_sh. exact Hs. Qed.

End WithT.

Theorem btokenize_sh cfg : forall fuel st, sinv st -> btokenize fuel cfg (sh st) = fmap sh (btokenize fuel cfg st).
Proof.
  induction fuel as [|f IH]; intros st Hs; [reflexivity|]. cbn [btokenize]. apply tokenize_body_sh; [exact IH|exact Hs].
Qed.

End Shift.

(* ------------------------------------------------------------------ *)
(* the block quote over a prefixed document                              *)

From MdIt Require Import QuoteProofs.

Lemma quote_scan_length cfg st0 n : forall lines next le x, quote_scan cfg st0 n lines next le = inr x -> length (fst x) = length lines.
Proof.
  induction n as [|n IH]; intros lines next le x H; cbn [quote_scan] in H; [injection H as <-; reflexivity|].
  destruct (negb (next <? b_max st0)%nat); [injection H as <-; reflexivity|]. cbv zeta in H.
  destruct (line_indent _ _) as [e|ind]; [discriminate|]. cbn [bind ret] in H.
  destruct (get_line _ _) as [e|line]; [discriminate|]. cbn [bind ret] in H.
  destruct (line_rec _ _) as [e|r]; [discriminate|]. cbn [bind ret] in H.
  destruct line as [|c rest]; [injection H as <-; reflexivity|].
  destruct (_ && _).
  - destruct (find_indent_of _ _) as [ia fn]. apply IH in H. rewrite H. apply set_nth_length.
  - destruct le; [injection H as <-; reflexivity|].
    destruct (test_rules_at _ _ _) as [e|term]; [discriminate|]. cbn [bind ret] in H. destruct term.
    + injection H as <-. cbn [fst]. destruct (_ =? 0); [reflexivity|apply set_nth_length].
    + apply IH in H. rewrite H. apply set_nth_length.
Qed.

Lemma nth_error_ext {A} (l1 l2 : list A) : (forall i, nth_error l1 i = nth_error l2 i) -> l1 = l2.
Proof.
  revert l2. induction l1 as [|a t IH]; intros [|b u] H; [reflexivity|specialize (H 0%nat); discriminate|specialize (H 0%nat); discriminate|].
  pose proof (H 0%nat) as H0. cbn in H0. injection H0 as <-. f_equal. apply IH. intros i. exact (H (S i)).
Qed.

Definition QP : str := [62; 32].

Lemma atf_tab_free T : atf T = true -> tab_free T = true.
Proof. unfold atf, tab_free. intros H. rewrite forallb_forall in *. intros x Hx. specialize (H x Hx). lia. Qed.

Lemma mk_line_sinv T : atf T = true -> sinv_rec (mk_line T).
Proof.
  intros Ha. destruct (split_spaces T (atf_tab_free T Ha)) as (w & r & -> & Hw & Hr).
  rewrite (mk_line_tab_free w r Hw Hr). unfold sinv_rec. cbn [l_text l_first l_indent]. repeat split; [exact Ha|unfold len; rewrite app_length; lia|lia].
Qed.

Lemma shifted_is_sh T : shifted T = sh_rec QP (mk_line T).
Proof.
  unfold shifted, sh_rec, QP. cbv zeta. assert (Ht : l_text (mk_line T) = T) by apply mk_line_text. rewrite Ht. cbn [app].
  f_equal. change (len [62; 32]) with 2. lia.
Qed.

(* The quote rule on the document "> " ++ T_1, ..., "> " ++ T_n (ASCII, no tabs): its nested tokenizer sees the shifted
   line table of T_1..T_n and therefore returns the shifted result of tokenizing T_1..T_n in a quote shell at level 1. *)
Theorem quote_of_prefixed_document cfg f texts root refs : texts <> [] -> Forall (fun T => atf T = true) texts ->
  let n := length texts in
  let st0 := BState (map qline texts) root 0 0 n false None 0 refs in
  let innerD := BState (map mk_line texts) (mk KBlockquote None []) 0 0 n false None 1 refs in
  rule_quote cfg (btokenize f cfg) st0 =
    do inner' <- fmap (sh QP) (btokenize f cfg innerD);
    let st' := BState (map qline texts) root 0 (b_line inner') n (b_tight inner') (b_list_indent inner') 0 (b_refs inner') in
    do mp <- get_map st' 0 (b_line inner' - 1);
    ret (push_node st' (set_map (b_node inner') mp), true).
Proof.
  intros Hne Hall n st0 innerD. rewrite Forall_forall in Hall.
  unfold rule_quote.
  assert (Hq0 : quote_open st0 = inr true).
  { unfold quote_open, line_indent, get_line, line_rec. unfold st0. cbn [b_line b_lines b_blk]. clear Hall. destruct texts as [|T0 rest]; [congruence|].
    cbn [map nth_error]. rewrite qline_eq. reflexivity. }
  rewrite Hq0. cbn [bind ret negb]. cbv zeta. cbn [b_line b_lines b_max b_tight b_list_indent b_level b_refs b_node b_blk st0].
  destruct (quote_scan_rewrites cfg st0 eq_refl texts 0%nat (map qline texts) (S n) false) as (lines' & Hscan & Hpt & _).
  - intros i T Hi. split; [apply atf_tab_free; apply Hall; eapply nth_error_In; exact Hi|]. cbn [Nat.add]. apply (map_nth_error qline i texts Hi).
  - reflexivity.
  - unfold n. lia.
  - cbn [Nat.add] in Hscan. fold n in Hscan. rewrite Hscan. cbn [bind ret].
    assert (Hl : lines' = map (sh_rec QP) (map mk_line texts)).
    { apply nth_error_ext. intros i. pose proof (quote_scan_length _ _ _ _ _ _ _ Hscan) as Hlen. cbn [fst] in Hlen. rewrite map_length in Hlen.
      destruct (nth_error texts i) as [T|] eqn:ET.
      - pose proof (Hpt i T ET) as Hi0. cbn [Nat.add] in Hi0. rewrite Hi0. rewrite map_map. rewrite (map_nth_error (fun x => sh_rec QP (mk_line x)) i texts ET). f_equal. apply shifted_is_sh.
      - apply nth_error_None in ET. assert (nth_error lines' i = None) by (apply nth_error_None; lia).
        assert (nth_error (map (sh_rec QP) (map mk_line texts)) i = None) by (apply nth_error_None; rewrite !map_length; lia). congruence. }
    rewrite Hl.
    change (BState (map (sh_rec QP) (map mk_line texts)) (mk KBlockquote None []) 0 0 n false None (0 + 1) refs) with (sh QP innerD).
    rewrite (btokenize_sh QP eq_refl cfg f innerD).
    + reflexivity.
    + intros l r Hr. cbn [b_lines innerD] in Hr. apply nth_error_In in Hr. apply in_map_iff in Hr. destruct Hr as (T & <- & HT). apply mk_line_sinv. apply Hall. exact HT.
Qed.
