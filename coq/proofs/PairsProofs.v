(* The emphasis-pair table of every parser assembled from the shipped plugins holds only Em / Strong / Strikethrough
   constructors.  This discharges the `md_pairs_ok` hypothesis of SafeProofs / KindProofs / NoRootProofs for every such
   parser (properties C01, C03, C14). *)
From Coq Require Import String.
From MdIt Require Import Prims Tables Ruler Tree Block Inline Core Dispatch.
From MdIt Require SafeProofs KindProofs NoRootProofs InlKindProofs InlArityProofs.
Local Open Scope list_scope.
Local Open Scope N_scope.

Definition emph_kind (k : kind) : bool := match k with KEm _ | KStrong _ | KStrike _ => true | _ => false end.
Definition fns_emph (fns : list (option kind)) : bool := forallb (fun o => match o with Some k => emph_kind k | None => true end) fns.
Definition pairs_emph (p : list (N * (bool * list (option kind)))) : bool := forallb (fun q => fns_emph (snd (snd q))) p.
Definition md_pairs_emph (m : md) : bool := pairs_emph (md_pairs m).

Lemma pairs_get_emph p marker : pairs_emph p = true -> fns_emph (snd (pairs_get p marker)) = true.
Proof.
  induction p as [|[k v] t IH]; intros H; cbn [pairs_get]; [reflexivity|].
  cbn [pairs_emph forallb snd] in H. apply andb_true_iff in H. destruct H as [Hv Ht]. destruct (k =? marker); [exact Hv|apply IH; exact Ht].
Qed.
Lemma pairs_set_emph p marker v : pairs_emph p = true -> fns_emph (snd v) = true -> pairs_emph (pairs_set p marker v) = true.
Proof.
  induction p as [|[k v'] t IH]; intros H Hv; cbn [pairs_set].
  - cbn [pairs_emph forallb snd]. rewrite Hv. reflexivity.
  - cbn [pairs_emph forallb snd] in H. apply andb_true_iff in H. destruct H as [Hv' Ht]. destruct (k =? marker); cbn [pairs_emph forallb snd].
    + rewrite Hv. exact Ht.
    + rewrite Hv'. apply IH; assumption.
Qed.
Lemma set_nth_opt_emph l : forall i k, fns_emph l = true -> emph_kind k = true -> fns_emph (set_nth_opt l i (Some k)) = true.
Proof.
  induction l as [|x t IH]; intros i k Hl Hk; [reflexivity|]. cbn [fns_emph forallb] in Hl. apply andb_true_iff in Hl. destruct Hl as [Hx Ht].
  destruct i as [|i]; cbn [set_nth_opt fns_emph forallb]; [rewrite Hk; exact Ht|rewrite Hx; apply IH; assumption].
Qed.

Lemma pairs_inline_add m id mk f : md_pairs (inline_add_rule m id mk f) = md_pairs m.
Proof. unfold inline_add_rule. destruct (mk =? 0); reflexivity. Qed.
Lemma pairs_inline_remove m id mk : md_pairs (inline_remove_rule m id mk) = md_pairs m.
Proof. unfold inline_remove_rule. destruct (mk =? 0); reflexivity. Qed.
Lemma pairs_add_inline m id : md_pairs (add_inline m id) = md_pairs m.
Proof. apply pairs_inline_add. Qed.
Lemma pairs_block_add m id f : md_pairs (block_add_rule m id f) = md_pairs m.
Proof. reflexivity. Qed.
Lemma pairs_core_add m id f : md_pairs (core_add_rule m id f) = md_pairs m.
Proof. reflexivity. Qed.
Lemma pairs_link_end m : md_pairs (add_link_end m) = md_pairs m.
Proof. unfold add_link_end. destruct (r_contains _ _); [reflexivity|apply pairs_add_inline]. Qed.

Lemma emph_add_with_emph m marker l id k : md_pairs_emph m = true -> emph_kind k = true -> md_pairs_emph (emph_add_with m marker l id k) = true.
Proof.
  intros Hm Hk. unfold emph_add_with. pose proof (pairs_get_emph (md_pairs m) marker Hm) as Hg.
  destruct (pairs_get (md_pairs m) marker) as [inserted fns]. cbn [snd] in Hg.
  set (m1 := with_pairs m _).
  assert (H1 : md_pairs_emph m1 = true).
  { subst m1. unfold md_pairs_emph. cbn [md_pairs with_pairs]. apply pairs_set_emph; [exact Hm|]. cbn [snd]. apply set_nth_opt_emph; assumption. }
  assert (H2 : md_pairs_emph (if inserted then m1 else add_inline m1 id) = true).
  { destruct inserted; [exact H1|]. unfold md_pairs_emph. rewrite pairs_add_inline. exact H1. }
  destruct (r_contains _ _); [exact H2|]. unfold md_pairs_emph. rewrite pairs_core_add. exact H2.
Qed.

Lemma add_plugin_emph m c : md_pairs_emph m = true -> md_pairs_emph (add_plugin m c) = true.
Proof.
  intros H. unfold add_plugin.
  repeat match goal with |- context [if ?x =? ?v then _ else _] => destruct (x =? v) end.
  all: try exact H.
  all: try (repeat apply emph_add_with_emph; solve [exact H | reflexivity]).
  all: unfold md_pairs_emph; cbn [with_fence_prefix md_pairs]; rewrite ?pairs_link_end, ?pairs_add_inline, ?pairs_block_add, ?pairs_core_add; exact H.
Qed.

Lemma fold_add_plugin_emph cs : forall m, md_pairs_emph m = true -> md_pairs_emph (fold_left add_plugin cs m) = true.
Proof. induction cs as [|c t IH]; intros m H; [exact H|]. cbn [fold_left]. apply IH. apply add_plugin_emph. exact H. Qed.

Lemma add_plugins_emph cs : forall m, md_pairs_emph m = true -> md_pairs_emph (add_plugins m cs) = true.
Proof.
  unfold add_plugins. induction cs as [|c t IH]; intros m H; [exact H|]. cbn [fold_left]. apply IH.
  destruct (c =? 67); [apply fold_add_plugin_emph; exact H|]. destruct (c =? 87); [apply fold_add_plugin_emph; exact H|]. apply add_plugin_emph. exact H.
Qed.

Lemma remove_plugin_rule_emph m c : md_pairs_emph m = true -> md_pairs_emph (remove_plugin_rule m c) = true.
Proof.
  intros H. unfold remove_plugin_rule. cbv zeta.
  repeat match goal with |- context [if ?x then _ else _] => destruct x end.
  all: unfold md_pairs_emph; rewrite ?pairs_inline_remove; exact H.
Qed.

(* every parser the harness (and the model's command language) can build *)
Theorem build_md_pairs_emph cfg nest : md_pairs_emph (build_md cfg nest) = true.
Proof. unfold build_md. apply add_plugins_emph. reflexivity. Qed.

Lemma emph_safe m : md_pairs_emph m = true -> SafeProofs.md_pairs_ok m = true.
Proof.
  unfold md_pairs_emph, pairs_emph, SafeProofs.md_pairs_ok. rewrite !forallb_forall. intros H p Hp. specialize (H p Hp).
  unfold fns_emph, SafeProofs.fns_ok in *. rewrite forallb_forall in *. intros o Ho. specialize (H o Ho). destruct o as [k|]; [|reflexivity]. destruct k; try discriminate H; reflexivity.
Qed.
Lemma emph_kinds m : md_pairs_emph m = true -> KindProofs.md_pairs_ok m = true.
Proof.
  unfold md_pairs_emph, pairs_emph, KindProofs.md_pairs_ok. rewrite !forallb_forall. intros H p Hp. specialize (H p Hp).
  unfold fns_emph, KindProofs.fns_ok in *. rewrite forallb_forall in *. intros o Ho. specialize (H o Ho). destruct o as [k|]; [|reflexivity]. destruct k; try discriminate H; reflexivity.
Qed.
Lemma emph_noroot m ic ti : md_pairs_emph m = true ->
  NoRootProofs.pairs_ok (ICfg ic (md_maxnest m) (fst ti) (snd ti) (map (fun p => (fst p, snd (snd p))) (md_pairs m))) = true.
Proof.
  unfold md_pairs_emph, pairs_emph, NoRootProofs.pairs_ok. cbn [ic_pairs]. rewrite !forallb_forall. intros H p Hp. apply in_map_iff in Hp.
  destruct Hp as (q & <- & Hq). specialize (H q Hq). cbn [snd].
  unfold fns_emph, NoRootProofs.fns_ok in *. rewrite forallb_forall in *. intros o Ho. specialize (H o Ho). destruct o as [k|]; [|reflexivity]. destruct k; try discriminate H; reflexivity.
Qed.

Lemma emph_inlkind m ic ti : md_pairs_emph m = true ->
  InlKindProofs.pairs_ok (ICfg ic (md_maxnest m) (fst ti) (snd ti) (map (fun p => (fst p, snd (snd p))) (md_pairs m))) = true.
Proof.
  unfold md_pairs_emph, pairs_emph, InlKindProofs.pairs_ok. cbn [ic_pairs]. rewrite !forallb_forall. intros H p Hp. apply in_map_iff in Hp.
  destruct Hp as (q & <- & Hq). specialize (H q Hq). cbn [snd].
  unfold fns_emph, InlKindProofs.fns_ok in *. rewrite forallb_forall in *. intros o Ho. specialize (H o Ho). destruct o as [k|]; [|reflexivity]. destruct k; try discriminate H; reflexivity.
Qed.
Lemma emph_inlarity m ic ti : md_pairs_emph m = true ->
  InlArityProofs.pairs_ok (ICfg ic (md_maxnest m) (fst ti) (snd ti) (map (fun p => (fst p, snd (snd p))) (md_pairs m))) = true.
Proof.
  unfold md_pairs_emph, pairs_emph, InlArityProofs.pairs_ok. cbn [ic_pairs]. rewrite !forallb_forall. intros H p Hp. apply in_map_iff in Hp.
  destruct Hp as (q & <- & Hq). specialize (H q Hq). cbn [snd].
  unfold fns_emph, InlArityProofs.fns_ok in *. rewrite forallb_forall in *. intros o Ho. specialize (H o Ho). destruct o as [k|]; [|reflexivity]. destruct k; try discriminate H; reflexivity.
Qed.
