(* Source ranges (property C05): the root range, and what text / escape / character-reference nodes
   record when they are created. *)
From Coq Require Import String.
From MdIt Require Import Prims Tables Escape NormRef Indent Mdurl SourceMap Ruler Tree Render Block Inline Core.
From MdIt Require Import TreeProofs LookaheadProofs.
From Coq Require Import Lia ZifyBool ZifyN ZifyNat.
Local Open Scope list_scope.
Local Open Scope N_scope.

Arguments N.eqb : simpl never.
Arguments N.leb : simpl never.
Arguments N.ltb : simpl never.
Arguments N.add : simpl never.
Arguments N.sub : simpl never.

(* ------------------------------------------------------------------ *)
(* the root covers the whole input, whatever the core chain does         *)

Lemma inline_walk_map fuel cfg refs n n' : inline_walk fuel cfg refs n = inr n' -> n_map n' = n_map n.
Proof.
  destruct n as [k m a e cs]. cbn [inline_walk]. destruct (_ cs) as [|cs']; cbn [bind]; [discriminate|].
  intros H. injection H as <-. reflexivity.
Qed.

Lemma fj_walk_map n : n_map (fj_walk n) = n_map n.
Proof. destruct n as [k m a e cs]. reflexivity. Qed.

Lemma sourcepos_walk_map src starts n d : n_map (walk_mut (sourcepos_attr src starts) n d) = n_map n.
Proof.
  destruct n as [k m a e cs]. cbn [walk_mut]. unfold sourcepos_attr. cbn [n_map]. destruct m as [[x y]|]; reflexivity.
Qed.

Lemma core_step_root_map fuel bcf icf src st rule r :
  core_step fuel bcf icf src st rule = inr r ->
  exists r0, st = inr r0 /\ n_map (fst (fst r)) = n_map (fst (fst r0)).
Proof.
  unfold core_step. destruct st as [|[[root refs] starts]]; cbn [bind]; [discriminate|]. intros H. eexists. split; [reflexivity|]. cbn [fst].
  repeat match type of H with (if ?c then _ else _) = _ => destruct c end.
  - destruct (block_parse _ _ _ _ _) as [|x]; cbn [bind] in H; [discriminate|]. injection H as <-. cbn [fst]. destruct root; reflexivity.
  - destruct (inline_walk _ _ _ _) as [|x] eqn:E; cbn [bind] in H; [discriminate|]. injection H as <-. cbn [fst]. eapply inline_walk_map; exact E.
  - injection H as <-. cbn [fst]. apply fj_walk_map.
  - injection H as <-. cbn [fst]. apply sourcepos_walk_map.
  - injection H as <-. cbn [fst]. destruct root; reflexivity.
  - injection H as <-. reflexivity.
Qed.

Lemma core_fold_root_map fuel bcf icf src chain : forall st r,
  fold_left (core_step fuel bcf icf src) chain st = inr r ->
  exists r0, st = inr r0 /\ n_map (fst (fst r)) = n_map (fst (fst r0)).
Proof.
  induction chain as [|c t IH]; intros st r H; cbn [fold_left] in H.
  - exists r. auto.
  - apply IH in H. destruct H as (r1 & H1 & E1). apply core_step_root_map in H1. destruct H1 as (r0 & H0 & E0).
    exists r0. split; [exact H0|congruence].
Qed.

Theorem root_covers_input fuel m src d :
  snd (parse fuel m src) = inr d -> n_map (d_root d) = Some (SAbs 0, SAbs (len src)).
Proof.
  unfold parse. destruct (r_iter (md_core m)) as [rc cc]. destruct (r_iter (md_block m)) as [rb bc]. destruct (r_iter (md_inline m)) as [ri ic].
  cbn [snd]. destruct cc as [|ccv]; cbn [bind]; [discriminate|]. destruct bc as [|bcv]; cbn [bind]; [discriminate|].
  destruct ic as [|icv]; cbn [bind]; [discriminate|]. cbv zeta.
  match goal with |- bind ?f _ = _ -> _ => destruct f as [|[[root' x] starts]] eqn:E end; cbn [bind]; [discriminate|].
  intros H. injection H as <-. cbn [d_root]. apply core_fold_root_map in E. destruct E as (r0 & H0 & E0).
  injection H0 as <-. exact E0.
Qed.

(* ------------------------------------------------------------------ *)
(* text nodes: what trailing_text_push records                            *)

Definition last_child (st : istate) : option node :=
  match split_last (n_children (i_node st)) with Some (_, x) => Some x | None => None end.

Lemma split_last_app {A} (l : list A) x : split_last (l ++ [x]) = Some (l, x).
Proof. unfold split_last. rewrite rev_app_distr. cbn. rewrite rev_involutive. reflexivity. Qed.

Lemma slice_sub s a b r : slice s a b = inr r -> r = sub s a b.
Proof. unfold slice. destruct (_ && _); [|discriminate]. intros H. injection H as <-. reflexivity. Qed.

Definition is_text_kind (n : node) : bool := match n_kind n with KText _ => true | _ => false end.

(* fresh text node: content = src[a..b), range = positions of a and b *)
Theorem text_push_fresh st a b st' :
  match last_child st with Some x => is_text_kind x = false | None => True end ->
  trailing_text_push st a b = inr st' ->
  exists pa pb, source_pos_for st a = inr pa /\ source_pos_for st b = inr pb /\
    last_child st' = Some (mk (KText (sub (i_src st) a b)) (Some (pa, pb)) []).
Proof.
  unfold trailing_text_push, last_child, isl. intros Hl.
  destruct (slice (i_src st) a b) as [|piece] eqn:Es; cbn [bind]; [discriminate|]. apply slice_sub in Es. subst piece.
  assert (K : (do m <- iget_map st a b; ret (ipush st (mk (KText (sub (i_src st) a b)) m []))) = inr st' ->
          exists pa pb, source_pos_for st a = inr pa /\ source_pos_for st b = inr pb /\
            match split_last (n_children (i_node st')) with Some (_, x) => Some x | None => None end
            = Some (mk (KText (sub (i_src st) a b)) (Some (pa, pb)) [])).
  { unfold iget_map. destruct (a <=? b); [|discriminate]. destruct (source_pos_for st a) as [|pa]; cbn [bind]; [discriminate|].
    destruct (source_pos_for st b) as [|pb]; cbn [bind]; [discriminate|]. intros H. injection H as <-. exists pa, pb.
    repeat split; auto. unfold ipush, push_child. destruct (i_node st) as [k m at_ e cs]. cbn [i_node iset_node n_children set_children].
    rewrite split_last_app. reflexivity. }
  destruct (split_last (n_children (i_node st))) as [[init x]|]; [|exact K].
  destruct x as [k m at_ e cs]. unfold is_text_kind in Hl. cbn [n_kind] in Hl. destruct k; try exact K. discriminate.
Qed.

(* merge: the node grows by src[a..b) at its end and its range end moves to the position of b *)
Theorem text_push_merge st a b st' init c ms me at_ e cs :
  split_last (n_children (i_node st)) = Some (init, Node (KText c) (Some (ms, me)) at_ e cs) ->
  trailing_text_push st a b = inr st' ->
  exists pb, source_pos_for st b = inr pb /\
    last_child st' = Some (Node (KText (c ++ sub (i_src st) a b)) (Some (ms, pb)) at_ e cs).
Proof.
  unfold trailing_text_push, last_child, isl. intros Hs.
  destruct (slice (i_src st) a b) as [|piece] eqn:Es; cbn [bind]; [discriminate|]. apply slice_sub in Es. subst piece.
  rewrite Hs. destruct (source_pos_for st b) as [|pb]; cbn [bind]; [discriminate|]. intros H. injection H as <-.
  exists pb. split; [reflexivity|]. destruct (i_node st) as [k m a0 e0 cs0]. cbn [i_node iset_node n_children set_children].
  rewrite split_last_app. reflexivity.
Qed.

(* ------------------------------------------------------------------ *)
(* escape and character-reference nodes record exactly their markup       *)

(* the node pushed by a successful real call, with its range endpoints in inline coordinates *)
Definition pushed_special (st st' : istate) (n : N) : Prop :=
  exists content markup ent pa pb,
    last_child st' = Some (mk (KTextSpecial content markup ent) (Some (pa, pb)) []) /\
    source_pos_for st (i_pos st) = inr pa /\ source_pos_for st (i_pos st + n) = inr pb /\
    exists full, isl st (i_pos st) (len (i_src st)) = inr full /\ markup = takeN n full.

Lemma last_child_ipush st x : last_child (ipush st x) = Some x.
Proof. unfold last_child, ipush, push_child. destruct (i_node st). cbn. rewrite split_last_app. reflexivity. Qed.

Lemma iget_map_inv st a b m : iget_map st a b = inr m ->
  exists pa pb, m = Some (pa, pb) /\ source_pos_for st a = inr pa /\ source_pos_for st b = inr pb.
Proof.
  unfold iget_map. destruct (a <=? b); [|discriminate]. destruct (source_pos_for st a) as [|pa]; cbn [bind]; [discriminate|].
  destruct (source_pos_for st b) as [|pb]; cbn [bind]; [discriminate|]. intros H. injection H as <-. eauto.
Qed.

Lemma span_split p l : forall a b, span p l = (a, b) -> l = a ++ b.
Proof.
  induction l as [|x t IH]; intros a b; cbn [span]; [intros H; injection H as <- <-; reflexivity|].
  destruct (p x); [|intros H; injection H as <- <-; reflexivity].
  destruct (span p t) as [a' b']. intros H. injection H as <- <-. cbn. f_equal. apply IH. reflexivity.
Qed.

Lemma match_entity_re_prefix h t whole rest : match_entity_re h t = Some (whole, rest) -> 38 :: t = whole ++ rest.
Proof.
  unfold match_entity_re. destruct t as [|c t1]; [discriminate|]. destruct (_ || _); [|discriminate].
  destruct (span is_alnum t1) as [run r] eqn:Es. apply span_split in Es. subst t1.
  destruct r as [|x r']; [discriminate|]. destruct (x =? 59) eqn:E.
  - assert (x = 59) by lia. subst x. destruct (_ && _); [|discriminate]. intros H. injection H as <- <-.
    cbn. rewrite <- app_assoc. reflexivity.
  - destruct x as [|q]; [discriminate|]. repeat (destruct q as [q|q|]; try discriminate).
Qed.

Lemma takeN_app_len (a b : str) : takeN (len a) (a ++ b) = a.
Proof. unfold takeN, len. rewrite Nnat.Nat2N.id. induction a as [|x t IH]; [destruct b; reflexivity|]. cbn. f_equal. exact IH. Qed.

(* the slice to the end of the string starts like any non-empty slice from the same offset *)
Lemma drop_length (s : str) : forall n, length (drop n s) = (length s - n)%nat.
Proof. induction s as [|x t IH]; intros [|n]; cbn; auto. Qed.

Lemma slice_to_end_head s a b1 c1 t1 f : slice s a b1 = inr (c1 :: t1) -> slice s a (len s) = inr f -> exists t2, f = c1 :: t2.
Proof.
  intros H1 H2. apply slice_sub in H1. apply slice_sub in H2. unfold sub, takeN, dropN in *.
  pose proof (drop_length s (N.to_nat a)) as Hl.
  destruct (drop (N.to_nat a) s) as [|x r]; [destruct (N.to_nat (b1 - a)); discriminate|].
  destruct (N.to_nat (b1 - a)); [discriminate|]. cbn in H1. injection H1 as <- _.
  destruct (N.to_nat (len s - a)) eqn:E; [cbn in Hl; unfold len in E; lia|]. cbn in H2. eexists. exact H2.
Qed.

Theorem entity_markup st st' n : rule_entity st false = inr (st', Some n) -> pushed_special st st' n.
Proof.
  unfold rule_entity. intros H. hinv H.
  all: injection H as <- <-.
  all: match goal with E : iget_map _ _ _ = inr _ |- _ => apply iget_map_inv in E; destruct E as (pa & pb & -> & Ea & Eb) end.
  all: unfold pushed_special; rewrite last_child_ipush.
  all: do 5 eexists; split; [reflexivity|]; split; [exact Ea|]; split; [exact Eb|]; eexists; split; [eassumption|].
  all: try reflexivity.
  all: match goal with Em : match_entity_re _ (dropN 1 ?f) = Some (?w, _), Ef : isl _ _ _ = inr ?f, Er : irest _ = inr (?c :: _) |- _ =>
         apply match_entity_re_prefix in Em; destruct (slice_to_end_head _ _ _ _ _ _ Er Ef) as [f' ->] end.
  all: match goal with Hb : negb (_ =? 38) = false |- _ => apply Bool.negb_false_iff in Hb; apply N.eqb_eq in Hb; subst end.
  all: match goal with Em : 38 :: dropN 1 (38 :: ?f') = _ |- _ => change (dropN 1 (38 :: f')) with f' in Em; rewrite Em; symmetry; apply takeN_app_len end.
Qed.

Lemma takeN_succ k x (t : str) : takeN (1 + k) (x :: t) = x :: takeN k t.
Proof. unfold takeN. replace (N.to_nat (1 + k)) with (S (N.to_nat k)) by lia. reflexivity. Qed.

(* backslash escapes: the node's markup is the source text under its range *)
Theorem escape_markup st st' n : rule_escape st false = inr (st', Some n) ->
  exists rest, irest st = inr rest /\
    ((exists m, last_child st' = Some (mk KHardbreak m [])) \/
     exists content pa pb,
       last_child st' = Some (mk (KTextSpecial content (takeN n rest) false) (Some (pa, pb)) []) /\
       source_pos_for st (i_pos st) = inr pa /\ source_pos_for st (i_pos st + n) = inr pb).
Proof.
  unfold rule_escape. intros H. hinv H.
  all: injection H as <- <-.
  all: match goal with Hb : negb (_ =? 92) = false |- _ => apply Bool.negb_false_iff in Hb; apply N.eqb_eq in Hb; subst end.
  all: eexists; split; [reflexivity|].
  all: rewrite last_child_ipush.
  all: try (left; eexists; reflexivity).
  all: right.
  all: match goal with E : iget_map _ _ _ = inr _ |- _ => apply iget_map_inv in E; destruct E as (pa & pb & -> & Ea & Eb) end.
  all: do 3 eexists; split; [|split; [exact Ea|exact Eb]].
  all: rewrite takeN_succ; reflexivity.
Qed.
