(* Kinds of nodes in parsed trees (properties C01, C14): whatever the configuration, no node of kind Empty is ever
   built and every heading level is in range (pass 1, same skeleton as SafeProofs.v); the inline parser never builds
   an inline-root placeholder (pass 2, on the children of the state's node); hence, for core chains in which the
   inline rule runs after the last block rule and the fragments-join rule after the last inline rule, the tree
   consists of final kinds only and rendering it cannot panic. *)
From Coq Require Import String.
From MdIt Require Import Prims Tables Escape NormRef Indent Mdurl SourceMap Ruler LinkParse Tree Render Block Inline Core.
From MdIt Require Import TreeProofs BlockProofs InlineProofs LookaheadProofs RangeProofs DepthProofs InlineDepthProofs.
From Coq Require Import Lia ZifyBool ZifyN ZifyNat.
Local Open Scope list_scope.
Local Open Scope N_scope.

Arguments N.eqb : simpl never.
Arguments N.leb : simpl never.
Arguments N.ltb : simpl never.
Arguments N.add : simpl never.
Arguments N.sub : simpl never.

Definition kind_ok (k : kind) : bool :=
  match k with
  | KEmpty => false
  | KATX l => (1 <=? l) && (l <=? 6)
  | KSetext l _ => (1 <=? l) && (l <=? 2)
  | _ => true
  end.

Fixpoint raw_free (n : node) : bool :=
  let 'Node k _ _ _ cs := n in kind_ok k && forallb raw_free cs.
Definition rfl (cs : list node) : bool := forallb raw_free cs.

Lemma raw_free_node k m a e cs : raw_free (Node k m a e cs) = kind_ok k && rfl cs.
Proof. reflexivity. Qed.
Lemma raw_free_mk k m cs : raw_free (mk k m cs) = kind_ok k && rfl cs.
Proof. reflexivity. Qed.
Lemma raw_free_children n : raw_free n = true -> rfl (n_children n) = true.
Proof. destruct n. cbn [raw_free n_children]. intros H. apply andb_true_iff in H. apply H. Qed.
Lemma raw_free_set_map n m : raw_free (set_map n m) = raw_free n.
Proof. destruct n; reflexivity. Qed.
Lemma raw_free_set_kind n k : raw_free (set_kind n k) = kind_ok k && rfl (n_children n).
Proof. destruct n; reflexivity. Qed.
Lemma raw_free_set_children n cs : raw_free n = true -> rfl cs = true -> raw_free (set_children n cs) = true.
Proof. destruct n. cbn [raw_free set_children]. intros H Hc. apply andb_true_iff in H. destruct H as [Hk _]. rewrite Hk. exact Hc. Qed.
Lemma rfl_app a b : rfl (a ++ b) = rfl a && rfl b.
Proof. apply forallb_app. Qed.
Lemma rfl_rev l : rfl (rev l) = rfl l.
Proof. induction l as [|x t IH]; [reflexivity|]. cbn [rev]. rewrite rfl_app, IH. cbn [rfl forallb]. rewrite andb_true_r. apply andb_comm. Qed.
Lemma raw_free_push n c : raw_free n = true -> raw_free c = true -> raw_free (push_child n c) = true.
Proof.
  intros Hn Hc. unfold push_child. apply raw_free_set_children; [exact Hn|]. rewrite rfl_app, (raw_free_children n Hn). cbn. rewrite Hc. reflexivity.
Qed.

(* ------------------------------------------------------------------ *)
(* 2. block rules other than the HTML block rule build no raw-HTML node *)

Definition brf (st : bstate) : bool := raw_free (b_node st).

Lemma brf_push st c : brf st = true -> raw_free c = true -> brf (push_node st c) = true.
Proof. unfold brf, push_node. cbn [b_node set_node]. apply raw_free_push. Qed.

Lemma rfl_mark_tight cs : rfl cs = true -> rfl (mark_tight cs) = true.
Proof.
  unfold mark_tight. induction cs as [|c t IH]; [reflexivity|]. cbn [rfl forallb flat_map]. intros H. apply andb_true_iff in H. destruct H as [Hc Ht].
  fold (rfl t) in Ht. rewrite rfl_app, (IH Ht), andb_true_r. destruct (n_kind c); cbn [rfl forallb]; rewrite ?Hc; try reflexivity.
  apply raw_free_children. exact Hc.
Qed.

Lemma rfl_map_tight items : rfl items = true ->
  rfl (map (fun it => set_children it (mark_tight (n_children it))) items) = true.
Proof.
  induction items as [|it t IH]; [reflexivity|]. cbn [rfl forallb map]. intros H. apply andb_true_iff in H. destruct H as [Hi Ht].
  fold (rfl t) in Ht. fold (rfl (map (fun it => set_children it (mark_tight (n_children it))) t)). rewrite (IH Ht), andb_true_r.
  apply raw_free_set_children; [exact Hi|]. apply rfl_mark_tight, raw_free_children. exact Hi.
Qed.

Section BlockEngine.
Variable cfg : bcfg.
Variable T : bstate -> res bstate.
Hypothesis T_safe : forall st st', brf st = true -> T st = inr st' -> brf st' = true.

Ltac fin_safe := first [assumption | unfold brf in *; cbn [b_node set_line set_refs set_node push_node] in *;
  rewrite ?raw_free_push, ?raw_free_mk, ?raw_free_set_map; cbn [kind_ok rfl forallb raw_free andb]; auto].

Ltac rule_safe H := hinv H; injection H as <- _; fin_safe.

Lemma rule_code_safe st st' b : brf st = true -> rule_code st = inr (st', b) -> brf st' = true.
Proof. intros Hs H. unfold rule_code in H. rule_safe H. Qed.
Lemma rule_fence_safe st st' b : brf st = true -> rule_fence cfg st = inr (st', b) -> brf st' = true.
Proof. intros Hs H. unfold rule_fence in H. rule_safe H. Qed.
Lemma rule_hr_safe st st' b : brf st = true -> rule_hr st = inr (st', b) -> brf st' = true.
Proof. intros Hs H. unfold rule_hr in H. rule_safe H. Qed.
Lemma rule_reference_safe st st' b : brf st = true -> rule_reference cfg st = inr (st', b) -> brf st' = true.
Proof. intros Hs H. unfold rule_reference in H. rule_safe H. Qed.
Lemma heading_scan_range s : forall idx level lv tp, level <= 6 -> heading_scan s idx level = Some (lv, tp) -> level <= lv /\ lv <= 6.
Proof.
  induction s as [|c t IH]; intros idx level lv tp Hl; cbn [heading_scan]; [intros H; injection H as <- _; lia|].
  destruct (c =? 35).
  - destruct (6 <? level + 1) eqn:E; [discriminate|]. intros H. apply IH in H; lia.
  - destruct (is_sptab c); [intros H; injection H as <- _; lia|discriminate].
Qed.

Lemma heading_open_level st lv tp line : heading_open st = inr (Some (lv, tp, line)) -> (1 <=? lv) && (lv <=? 6) = true.
Proof.
  unfold heading_open. intros H. hinv H. all: injection H as <- _ _.
  all: match goal with E : heading_scan (?c :: ?t) 0 0 = Some _ |- _ => cbn [heading_scan] in E end.
  all: match goal with E : (if ?c =? 35 then _ else _) = Some _ |- _ => destruct (c =? 35) eqn:Ec; [|first [discriminate Ec | (destruct (is_sptab c); [injection E as <- _|discriminate E])]] end.
  all: try match goal with E : (if 6 <? 0 + 1 then None else heading_scan _ _ _) = Some _ |- _ => cbn in E; apply heading_scan_range in E; [lia|lia] end.
  all: try (exfalso; lia).
Qed.

Lemma rule_heading_safe st st' b : brf st = true -> rule_heading st = inr (st', b) -> brf st' = true.
Proof.
  intros Hs H. unfold rule_heading in H. hinv H; injection H as <- _; try assumption.
  match goal with E : heading_open st = inr (Some _) |- _ => apply heading_open_level in E; rename E into Hlv end.
  unfold brf in *. cbn [b_node set_line push_node set_node]. apply raw_free_push; [exact Hs|].
  rewrite raw_free_mk. cbn [kind_ok]. rewrite Hlv. reflexivity.
Qed.

Lemma setext_underline_level s lv : setext_underline s = Some lv -> lv = 1 \/ lv = 2.
Proof.
  unfold setext_underline. destruct s as [|m t]; [discriminate|]. destruct (_ || _); [|discriminate]. destruct (all_sptab _); [|discriminate].
  intros H. injection H as <-. destruct (m =? 61); auto.
Qed.

Lemma lheading_scan_level c st n : forall next nx lv, lheading_scan c st n next = inr (nx, lv) -> lv = 0 \/ lv = 1 \/ lv = 2.
Proof.
  induction n as [|n IH]; intros next nx lv; cbn [lheading_scan]; [intros H; injection H as _ <-; auto|].
  destruct (_ || _); [intros H; injection H as _ <-; auto|].
  destruct (line_indent st next) as [|ind]; cbn [bind]; [discriminate|]. destruct (4 <=? ind)%Z; [apply IH|].
  destruct (get_line st next) as [|line]; cbn [bind]; [discriminate|].
  destruct (if (0 <=? ind)%Z then setext_underline line else None) as [l|] eqn:E.
  - intros H. injection H as _ <-. destruct (0 <=? ind)%Z; [|discriminate]. apply setext_underline_level in E. destruct E; auto.
  - destruct (line_rec st next) as [|r]; cbn [bind]; [discriminate|]. destruct (l_indent r <? 0)%Z; [apply IH|].
    destruct (test_rules_at c st next) as [|term]; cbn [bind]; [discriminate|]. destruct term; [intros H; injection H as _ <-; auto|apply IH].
Qed.

Lemma rule_lheading_safe st st' b : brf st = true -> rule_lheading cfg st = inr (st', b) -> brf st' = true.
Proof.
  intros Hs H. unfold rule_lheading in H. hinv H; injection H as <- _; try assumption.
  all: match goal with E : lheading_scan _ _ _ _ = inr (_, ?lv) |- _ => apply lheading_scan_level in E; rename E into Hlv end.
  all: unfold brf in *; cbn [b_node set_line push_node set_node]; apply raw_free_push; [exact Hs|].
  all: rewrite raw_free_mk; cbn [kind_ok rfl forallb raw_free andb].
  all: destruct Hlv as [Hlv|[Hlv|Hlv]]; subst; try reflexivity; discriminate.
Qed.
Lemma rule_paragraph_safe st st' b : brf st = true -> rule_paragraph cfg st = inr (st', b) -> brf st' = true.
Proof. intros Hs H. unfold rule_paragraph in H. rule_safe H. Qed.
Lemma rule_custom_safe st st' b : brf st = true -> rule_custom st = inr (st', b) -> brf st' = true.
Proof. intros Hs H. unfold rule_custom in H. rule_safe H. Qed.
Lemma rule_html_block_safe st st' b : brf st = true -> rule_html_block st = inr (st', b) -> brf st' = true.
Proof. intros Hs H. unfold rule_html_block in H. rule_safe H. Qed.

Lemma rule_quote_safe st st' b : brf st = true -> rule_quote cfg T st = inr (st', b) -> brf st' = true.
Proof.
  intros Hs H. unfold rule_quote in H. hinv H; injection H as <- _; try fin_safe.
  match goal with E : T _ = inr _ |- _ => apply T_safe in E; [|reflexivity] end.
  unfold brf in *. cbn [b_node push_node set_node] in *. rewrite ?raw_free_set_map.
  first [assumption | apply raw_free_push; [exact Hs|rewrite ?raw_free_set_map; assumption]].
Qed.

Lemma list_items_safe n : forall st ordered mc p next pe tight st' nx tg, brf st = true ->
  list_items cfg T n st ordered mc p next pe tight = inr (st', nx, tg) -> brf st' = true.
Proof.
  induction n as [|n IH]; intros st ordered mc p next pe tight st' nx tg Hs H; [discriminate|].
  cbn [list_items] in H. unfold bind, ret, panic in H.
  repeat match type of H with
  | list_items _ _ _ _ _ _ _ _ _ _ = _ => fail 1
  | (match ?x with _ => _ end) = _ => destruct x eqn:?; try discriminate H
  end.
  all: try (injection H as <- _ _).
  all: repeat match goal with E : (match ?x with _ => _ end) = inr _ |- _ => destruct x eqn:?; try discriminate E end.
  all: repeat match goal with E : inr _ = inr ?v |- _ => is_var v; injection E as <- end.
  all: try match goal with E : T _ = inr _ |- _ => apply T_safe in E; [|reflexivity] end.
  all: try (apply IH in H; [exact H|]).
  all: unfold brf in *; cbn [b_node set_line set_level push_node set_node] in *.
  all: try exact Hs.
  all: apply raw_free_push; [exact Hs|]; rewrite raw_free_set_map; cbn [b_node set_line set_level]; try assumption; reflexivity.
Qed.

Lemma rule_list_safe st st' b : brf st = true -> rule_list cfg T st = inr (st', b) -> brf st' = true.
Proof.
  intros Hs H. unfold rule_list in H. unfold bind, ret, panic in H.
  repeat match type of H with
  | (match list_items _ _ _ _ _ _ _ _ _ _ with _ => _ end) = _ => fail 1
  | (match ?x with _ => _ end) = _ => destruct x eqn:?; try discriminate H
  end.
  all: try (injection H as <- _; exact Hs).
  all: destruct (list_items _ _ _ _ _ _ _ _ _ _) as [|[[st1 nx] tg]] eqn:E; [discriminate|].
  all: apply list_items_safe in E; [|unfold brf; cbn [b_node set_node]; match goal with |- context [match ?m with _ => _ end] => destruct m end; reflexivity].
  all: repeat match type of H with (match ?x with _ => _ end) = _ => destruct x eqn:?; try discriminate H end.
  all: injection H as <- _; unfold brf in *; cbn [b_node set_node]; apply raw_free_push; [exact Hs|]; rewrite raw_free_set_map.
  all: destruct tg; [|exact E].
  all: apply raw_free_set_children; [exact E|]; apply rfl_map_tight, raw_free_children; exact E.
Qed.

Lemma rule_real_safe r st st' b : brf st = true -> rule_real cfg T r st = inr (st', b) -> brf st' = true.
Proof.
  intros Hs. unfold rule_real.
  destruct (r =? R_CODE); [apply rule_code_safe; exact Hs|].
  destruct (r =? R_FENCE); [apply rule_fence_safe; exact Hs|].
  destruct (r =? R_QUOTE); [apply rule_quote_safe; exact Hs|].
  destruct (r =? R_HR); [apply rule_hr_safe; exact Hs|].
  destruct (r =? R_LIST); [apply rule_list_safe; exact Hs|].
  destruct (r =? R_REF); [apply rule_reference_safe; exact Hs|].
  destruct (r =? R_HEADING); [apply rule_heading_safe; exact Hs|].
  destruct (r =? R_LHEADING); [apply rule_lheading_safe; exact Hs|].
  destruct (r =? R_PARA); [apply rule_paragraph_safe; exact Hs|].
  destruct (r =? R_HTMLBLOCK); [apply rule_html_block_safe; exact Hs|].
  destruct (_ || _); [apply rule_custom_safe; exact Hs|].
  intros H. injection H as <- _. exact Hs.
Qed.

Lemma try_rules_safe chain : forall st st' b, brf st = true ->
  Block.try_rules cfg T chain st = inr (st', b) -> brf st' = true.
Proof.
  induction chain as [|r t IH]; intros st st' b Hs; cbn [Block.try_rules]; [intros H; injection H as <- _; exact Hs|].
  destruct (rule_real cfg T r st) as [|[s1 ok]] eqn:E; cbn [bind]; [discriminate|]. cbn [fst snd]. destruct ok.
  - destruct (_ <? _)%nat; [|discriminate]. intros H. injection H as <- _. eapply rule_real_safe; eassumption.
  - apply IH; assumption.
Qed.

Lemma tok_loop_safe n : forall st he st', brf st = true ->
  Block.tok_loop cfg T n st he = inr st' -> brf st' = true.
Proof.
  induction n as [|n IH]; intros st he st' Hs.
  - cbn [Block.tok_loop]. destruct (negb _); [|discriminate]. intros H. injection H as <-. exact Hs.
  - cbn [Block.tok_loop]. destruct (negb _); [intros H; injection H as <-; exact Hs|].
    cbv zeta. destruct (_ <=? _)%nat; [intros H; injection H as <-; exact Hs|].
    destruct (line_indent _ _) as [|ind]; cbn [bind]; [discriminate|].
    destruct (ind <? 0)%Z; [intros H; injection H as <-; exact Hs|].
    destruct (bc_maxnest cfg <=? _); [intros H; injection H as <-; exact Hs|].
    destruct (Block.try_rules cfg T (bc_chain cfg) _) as [|[s1 ok]] eqn:Et; cbn [bind]; [discriminate|]. cbn [fst snd].
    apply try_rules_safe in Et; [|exact Hs].
    assert (R : forall st1, brf st1 = true -> forall he1 he2 st', (if (b_line (set_tight st1 he1) <? b_max (set_tight st1 he1))%nat && is_empty (set_tight st1 he1) (b_line (set_tight st1 he1))
                  then Block.tok_loop cfg T n (set_line (set_tight st1 he1) (S (b_line (set_tight st1 he1)))) true
                  else Block.tok_loop cfg T n (set_tight st1 he1) he2) = inr st' -> brf st' = true).
    { intros st1 H1 he1 he2 st2 H. destruct (_ && _); apply IH in H; auto. }
    destruct ok.
    + cbn [bind ret]. apply R. exact Et.
    + destruct (get_line _ _) as [|content]; cbn [bind]; [discriminate|]. destruct (line_rec _ _) as [|r]; cbn [bind]; [discriminate|].
      cbn [ret]. apply R. unfold brf in *. cbn [b_node set_line push_node set_node]. apply raw_free_push; [exact Hs|reflexivity].
Qed.
End BlockEngine.

Theorem btokenize_safe cfg : forall fuel st st', brf st = true ->
  btokenize fuel cfg st = inr st' -> brf st' = true.
Proof.
  induction fuel as [|f IH]; intros st st' Hs; cbn [btokenize]; [discriminate|].
  apply (tok_loop_safe cfg (btokenize f cfg) IH); assumption.
Qed.

(* ------------------------------------------------------------------ *)
(* 3. inline rules other than the inline-HTML rule build no raw-HTML node *)

Definition irf (st : istate) : bool := raw_free (i_node st).

Definition fns_ok (fns : list (option kind)) : bool := forallb (fun o => match o with Some k => kind_ok k | None => true end) fns.
Definition pairs_ok (cfg : icfg) : bool := forallb (fun p : N * list (option kind) => fns_ok (snd p)) (ic_pairs cfg).

Lemma irf_ipush st c : irf st = true -> raw_free c = true -> irf (ipush st c) = true.
Proof. unfold irf, ipush. cbn [i_node iset_node]. apply raw_free_push. Qed.

Lemma rfl_split_last cs init x : split_last cs = Some (init, x) -> rfl cs = true -> rfl init = true /\ raw_free x = true.
Proof.
  intros H Hc. apply split_last_spec in H. subst cs. rewrite rfl_app in Hc. apply andb_true_iff in Hc. destruct Hc as [A B].
  cbn [rfl forallb] in B. rewrite andb_true_r in B. auto.
Qed.

Lemma ttpush_safe st a b st' : irf st = true -> trailing_text_push st a b = inr st' -> irf st' = true.
Proof.
  intros Hs H. unfold trailing_text_push in H. hinv H; injection H as <-; try (apply irf_ipush; [exact Hs|reflexivity]).
  all: match goal with E : split_last _ = Some _ |- _ => apply rfl_split_last in E; [|apply raw_free_children; exact Hs]; destruct E as [Ei Ex] end.
  all: unfold irf in *; cbn [i_node iset_node]; apply raw_free_set_children; [exact Hs|]; rewrite rfl_app, Ei; cbn [rfl forallb andb].
  all: rewrite andb_true_r; rewrite raw_free_node in *; exact Ex.
Qed.

Lemma ttpop_safe st n st' : irf st = true -> trailing_text_pop st n = inr st' -> irf st' = true.
Proof.
  intros Hs H. unfold trailing_text_pop in H. hinv H; injection H as <-; try exact Hs.
  all: match goal with E : split_last _ = Some _ |- _ => apply rfl_split_last in E; [|apply raw_free_children; exact Hs]; destruct E as [Ei Ex] end.
  all: unfold irf in *; cbn [i_node iset_node]; apply raw_free_set_children; [exact Hs|]; rewrite ?rfl_app, ?Ei; cbn [rfl forallb andb]; try reflexivity.
  all: rewrite andb_true_r; rewrite raw_free_node in *; exact Ex.
Qed.

Lemma or_opt_some {A} (a b : option A) x : or_opt a b = Some x -> a = Some x \/ b = Some x.
Proof. destruct a; cbn; auto. Qed.

Lemma matched_rule_ok fns mx n k : fns_ok fns = true -> matched_rule fns mx = Some (n, k) -> kind_ok k = true.
Proof.
  intros Hf. unfold matched_rule. cbv zeta.
  assert (T : forall i n k, match nth (N.to_nat (i - 1)) fns None with Some k0 => Some (i, k0) | None => None end = Some (n, k) -> kind_ok k = true).
  { intros i n0 k0. destruct (nth (N.to_nat (i - 1)) fns None) as [k1|] eqn:E; [|discriminate]. intros H. injection H as _ <-.
    unfold fns_ok in Hf. rewrite forallb_forall in Hf. destruct (nth_in_or_default (N.to_nat (i - 1)) fns None) as [Hin|Hd]; [|rewrite E in Hd; discriminate].
    rewrite E in Hin. apply (Hf _ Hin). }
  repeat match goal with |- (if ?c then _ else _) = _ -> _ => destruct c end; intros H;
    repeat (apply or_opt_some in H; destruct H as [H|H]); try discriminate; eapply T; exact H.
Qed.

Lemma pair_fns_ok cfg m : pairs_ok cfg = true -> fns_ok (pair_fns cfg m) = true.
Proof.
  unfold pairs_ok, pair_fns. induction (ic_pairs cfg) as [|[k f] t IH]; [reflexivity|]. cbn [forallb snd]. intros H. apply andb_true_iff in H.
  destruct H as [Hf Ht]. destruct (k =? m); [exact Hf|apply IH; exact Ht].
Qed.

Lemma match_pair_safe n fns : fns_ok fns = true -> forall o c om cm inner o2 c2 om2 cm2 inner2 any,
  rfl inner = true -> match_pair n fns o c om cm inner = inr (o2, c2, om2, cm2, inner2, any) -> rfl inner2 = true.
Proof.
  intros Hf. induction n as [|n IH]; intros o c om cm inner o2 c2 om2 cm2 inner2 any Hi; cbn [match_pair].
  - intros H. injection H as _ _ _ _ <- _. exact Hi.
  - destruct (_ && _); [|intros H; injection H as _ _ _ _ <- _; exact Hi].
    destruct (matched_rule fns _) as [[mlen knd]|] eqn:Em; [|intros H; injection H as _ _ _ _ <- _; exact Hi].
    apply (matched_rule_ok _ _ _ _ Hf) in Em. destruct (map_shift_start cm mlen) as [cm' ep].
    match goal with |- bind ?a _ = _ -> _ => destruct a as [|[om' sp]] end; cbn [bind]; [discriminate|].
    match goal with |- bind (match_pair n fns ?o' ?c' ?a ?b ?i) _ = _ -> _ => destruct (match_pair n fns o' c' a b i) as [|[[[[[o3 c3] om3] cm3] inner3] any3]] eqn:E end; cbn [bind]; [discriminate|].
    intros H. injection H as _ _ _ _ <- _. eapply IH; [|exact E]. cbn [rfl forallb]. rewrite raw_free_mk, Em. cbn [andb]. fold (rfl inner). rewrite Hi. reflexivity.
Qed.

Lemma match_openers_safe cfg n : pairs_ok cfg = true -> forall rb af idx mi c cm any cs' c' cm' any',
  rfl rb = true -> rfl af = true ->
  match_openers cfg n rb af idx mi c cm any = inr (cs', c', cm', any') -> rfl cs' = true.
Proof.
  intros Hp. induction n as [|n IH]; intros rb af idx mi c cm any cs' c' cm' any' Hb Ha; cbn [match_openers].
  - intros H. injection H as <- _ _ _. rewrite rev_append_rev, rfl_app, rfl_rev, Hb, Ha. reflexivity.
  - destruct (idx <=? mi); [intros H; injection H as <- _ _ _; rewrite rev_append_rev, rfl_app, rfl_rev, Hb, Ha; reflexivity|].
    destruct rb as [|cand rb']; [intros H; injection H as <- _ _ _; exact Ha|].
    cbn [rfl forallb] in Hb. apply andb_true_iff in Hb. destruct Hb as [Hc Hb']. fold (rfl rb') in Hb'.
    assert (Skip : match_openers cfg n rb' (cand :: af) (idx - 1) mi c cm any = inr (cs', c', cm', any') -> rfl cs' = true).
    { apply IH; [exact Hb'|]. cbn [rfl forallb]. rewrite Hc. exact Ha. }
    destruct (emark_of (n_kind cand)) as [o|]; [|exact Skip].
    destruct (_ && negb _); [|exact Skip].
    destruct (match_pair _ _ o c (n_map cand) cm af) as [|[[[[[o2 c2] om2] cm2] inner2] any2]] eqn:E; cbn [bind]; [discriminate|].
    destruct any2; [|exact Skip].
    apply (match_pair_safe _ _ (pair_fns_ok cfg _ Hp)) in E; [|exact Ha].
    apply IH; [exact Hb'|]. destruct (0 <? em_remaining o2); [|exact E].
    cbn [rfl forallb]. rewrite raw_free_set_map, raw_free_set_kind. cbn [kind_of_emark kind_ok andb]. rewrite (raw_free_children _ Hc). exact E.
Qed.

Lemma samd_safe cfg st m st' : pairs_ok cfg = true -> irf st = true -> scan_and_match_delimiters cfg st m = inr st' -> irf st' = true.
Proof.
  intros Hp Hs. unfold scan_and_match_delimiters.
  destruct (split_last (n_children (i_node st))) as [[init closer_tok]|] eqn:El; [|discriminate].
  destruct init as [|i0 it]; [intros H; injection H as <-; exact Hs|].
  apply rfl_split_last in El; [|apply raw_free_children; exact Hs]. destruct El as [Hi Hc].
  destruct (emark_of (n_kind closer_tok)) as [closer|]; [|discriminate]. cbv zeta.
  destruct (split_last (i0 :: it)) as [[init' lastn]|] eqn:El2; cbn [bind]; [|discriminate].
  apply rfl_split_last in El2; [|exact Hi]. destruct El2 as [Hi' Hl].
  destruct (match_openers _ _ _ _ _ _ _ _ _) as [|[[[cs' closer'] cmap'] any]] eqn:E; cbn [bind]; [discriminate|].
  apply (match_openers_safe _ _ Hp) in E; [|rewrite rfl_rev; exact Hi'|cbn [rfl forallb]; rewrite Hl; reflexivity].
  intros H. injection H as <-. unfold irf in *. cbn [i_node iset_node].
  assert (N1 : raw_free (set_children (i_node st) cs') = true) by (apply raw_free_set_children; assumption).
  assert (N2 : forall v, raw_free (set_openers (set_children (i_node st) cs') m v) = true).
  { intros v. destruct (i_node st) as [k0 m0 a0 e0 c0]. cbn [set_children set_openers] in *. exact N1. }
  assert (N3 : forall nd, raw_free nd = true -> raw_free (if 0 <? em_remaining closer'
             then push_child nd (set_map (set_kind closer_tok (kind_of_emark closer')) cmap') else nd) = true).
  { intros nd Hn. destruct (0 <? em_remaining closer'); [|exact Hn]. apply raw_free_push; [exact Hn|].
    rewrite raw_free_set_map, raw_free_set_kind. cbn [kind_of_emark kind_ok andb]. apply raw_free_children. exact Hc. }
  apply N3. destruct any; [exact N1|]. destruct (_ =? 0); [exact N1|apply N2].
Qed.

Ltac isafe := first [assumption | (apply irf_ipush; [assumption|reflexivity])
  | (unfold irf in *; cbn [i_node iset_node iset_bt iset_ll set_bt ipush] in *; first [assumption | apply raw_free_push; [assumption|reflexivity]])].

Lemma rule_text_safe cfg st silent st' o : irf st = true -> rule_text cfg st silent = inr (st', o) -> irf st' = true.
Proof.
  intros Hs H. destruct silent; unfold rule_text in H; hinv H; injection H as <- _; try isafe.
  eapply ttpush_safe; eassumption.
Qed.
Lemma rule_newline_safe st silent st' o : irf st = true -> rule_newline st silent = inr (st', o) -> irf st' = true.
Proof.
  intros Hs H. destruct silent; unfold rule_newline in H; hinv H; injection H as <- _; try isafe.
  all: match goal with E : trailing_text_pop _ _ = inr _ |- _ => apply ttpop_safe in E; [|exact Hs] end.
  all: apply irf_ipush; [assumption|]; rewrite raw_free_mk; match goal with |- context [if ?c then _ else _] => destruct c end; reflexivity.
Qed.
Lemma rule_escape_safe st silent st' o : irf st = true -> rule_escape st silent = inr (st', o) -> irf st' = true.
Proof. intros Hs H. destruct silent; unfold rule_escape in H; hinv H; injection H as <- _; isafe. Qed.
Lemma rule_code_pair_safe st m silent st' o : irf st = true -> rule_code_pair st m silent = inr (st', o) -> irf st' = true.
Proof. intros Hs H. destruct silent; unfold rule_code_pair in H; hinv H; injection H as <- _; isafe. Qed.
Lemma rule_autolink_safe st silent st' o : irf st = true -> rule_autolink st silent = inr (st', o) -> irf st' = true.
Proof. intros Hs H. destruct silent; unfold rule_autolink in H; hinv H; injection H as <- _; isafe. Qed.
Lemma rule_entity_safe st silent st' o : irf st = true -> rule_entity st silent = inr (st', o) -> irf st' = true.
Proof. intros Hs H. destruct silent; unfold rule_entity in H; hinv H; injection H as <- _; isafe. Qed.
Lemma rule_custom_inline_safe st p v silent st' o : irf st = true -> rule_custom_inline st p v silent = inr (st', o) -> irf st' = true.
Proof. intros Hs H. destruct silent; unfold rule_custom_inline in H; hinv H; injection H as <- _; isafe. Qed.
Lemma rule_html_inline_safe st silent st' o : irf st = true -> rule_html_inline st silent = inr (st', o) -> irf st' = true.
Proof. intros Hs H. destruct silent; unfold rule_html_inline in H; hinv H; injection H as <- _; isafe. Qed.
Lemma rule_emph_safe cfg m cs st silent st' o : pairs_ok cfg = true -> irf st = true -> rule_emph cfg m cs st silent = inr (st', o) -> irf st' = true.
Proof.
  intros Hp Hs H. destruct silent; unfold rule_emph in H; hinv H; injection H as <- _; try isafe.
  all: try (match goal with E : scan_and_match_delimiters _ _ _ = inr _ |- _ => apply (samd_safe _ _ _ _ Hp) in E; [exact E|] end).
  all: try (apply irf_ipush; [exact Hs|reflexivity]).
  all: match goal with E : (if ?b then _ else _) = inr _ |- _ => destruct b end.
  - match goal with E : scan_and_match_delimiters _ _ _ = inr _ |- _ => apply (samd_safe _ _ _ _ Hp) in E; [exact E|] end.
    apply irf_ipush; [exact Hs|reflexivity].
  - match goal with E : inr _ = inr _ |- _ => injection E as <- end. apply irf_ipush; [exact Hs|reflexivity].
Qed.

Section InlineEngine.
Variable cfg : icfg.
Variable f : nat.
Let TK := itokenize f cfg.
Let SK := iskip f cfg.
Hypothesis Hp : pairs_ok cfg = true.
Hypothesis TK_safe : forall st st', irf st = true -> TK st = inr st' -> irf st' = true.

Lemma rule_link_safe st silent nested offset mkk st' o : (forall u t, kind_ok (mkk u t) = true) -> irf st = true ->
  rule_link TK SK st silent nested offset mkk = inr (st', o) -> irf st' = true.
Proof.
  intros Hk Hs. unfold rule_link. cbv zeta.
  destruct (parse_link SK st (i_pos st + offset) nested) as [|[s1 pl]] eqn:E; cbn [bind]; [discriminate|].
  pose proof (parse_link_node SK (iskip_node_untouched cfg f) _ _ _ _ _ E) as Hn.
  assert (H1 : irf s1 = true) by (unfold irf; rewrite Hn; exact Hs).
  destruct pl as [p|]; [|intros H; injection H as <- _; exact H1].
  destruct silent; [destruct (_ <=? _); [|discriminate]; intros H; injection H as <- _; exact H1|].
  match goal with |- bind (TK ?inner) _ = _ -> _ => destruct (TK inner) as [|inner'] eqn:Et end; cbn [bind]; [discriminate|].
  apply TK_safe in Et; [|unfold irf; cbn [i_node]; rewrite raw_free_mk, Hk; reflexivity].
  intros H. hinv H. injection H as <- _. unfold irf in *. cbn [i_node iset_ll ipush iset_node].
  apply raw_free_push; [exact H1|]. rewrite raw_free_set_map. exact Et.
Qed.

Lemma rule_code_pair_tok_safe st m silent st' o : irf st = true -> rule_code_pair_tok TK st m silent = inr (st', o) -> irf st' = true.
Proof.
  intros Hs. unfold rule_code_pair_tok.
  destruct (irest st) as [|rest]; cbn [bind]; [discriminate|]. destruct rest as [|ch t]; [discriminate|].
  destruct (negb (ch =? m)); [intros H; injection H as <- _; exact Hs|].
  destruct (match rev (trailing_text_get st) with x :: _ => x =? m | [] => false end); [intros H; injection H as <- _; exact Hs|].
  destruct (get_bt st m) as [scanned maxv]. destruct (_ && _); [intros H; injection H as <- _; exact Hs|].
  destruct (code_scan _ _ _ _ _ _) as [|[o1 mv]]; cbn [bind]; [discriminate|]. cbn [fst snd].
  destruct o1 as [[ms me]|]; [|intros H; injection H as <- _; exact Hs].
  destruct silent; [intros H; injection H as <- _; exact Hs|].
  destruct (isl st _ ms) as [|raw]; cbn [bind]; [discriminate|]. cbv zeta.
  destruct (iget_map st (i_pos st) me) as [|mp]; cbn [bind]; [discriminate|].
  match goal with |- bind (TK ?inner) _ = _ -> _ => destruct (TK inner) as [|inner'] eqn:Et end; cbn [bind]; [discriminate|].
  apply TK_safe in Et; [|reflexivity].
  destruct (_ <=? me); [|discriminate]. intros H. injection H as <- _. unfold irf in *. cbn [i_node set_bt iset_bt].
  apply raw_free_push; [exact Hs|exact Et].
Qed.

Lemma run_rule_safe r st silent st' o : irf st = true ->
  run_rule cfg TK SK r st silent = inr (st', o) -> irf st' = true.
Proof.
  intros Hs. unfold run_rule.
  assert (Dn : ret (st, @None N) = inr (st', o) -> irf st' = true) by (intros H; injection H as <- _; exact Hs).
  destruct (r =? I_TEXT); [apply rule_text_safe; exact Hs|].
  destruct (r =? I_NEWLINE); [apply rule_newline_safe; exact Hs|].
  destruct (r =? I_ESCAPE); [apply rule_escape_safe; exact Hs|].
  destruct (r =? I_BACKTICK); [apply rule_code_pair_safe; exact Hs|].
  destruct (r =? I_EMPH_STAR); [apply rule_emph_safe; assumption|].
  destruct (r =? I_EMPH_UNDER); [apply rule_emph_safe; assumption|].
  destruct (r =? I_STRIKE); [apply rule_emph_safe; assumption|].
  destruct (r =? I_LINK).
  { destruct (irest st) as [|rest]; cbn [bind]; [discriminate|]. destruct rest as [|ch t]; [discriminate|].
    destruct (ch =? 91); [apply rule_link_safe; [reflexivity|exact Hs]|exact Dn]. }
  destruct (r =? I_IMAGE).
  { destruct (irest st) as [|rest]; cbn [bind]; [discriminate|].
    destruct rest as [|a0 t0]; [exact Dn|]. lit_cases_k a0 ltac:(exact Dn).
    destruct t0 as [|a1 t1]; [exact Dn|]. lit_cases_k a1 ltac:(exact Dn).
    apply rule_link_safe; [reflexivity|exact Hs]. }
  destruct (r =? I_LINKEND); [exact Dn|].
  destruct (r =? I_AUTOLINK); [apply rule_autolink_safe; exact Hs|].
  destruct (r =? I_ENTITY); [apply rule_entity_safe; exact Hs|].
  destruct (r =? I_HTMLINLINE); [apply rule_html_inline_safe; exact Hs|].
  destruct (r =? I_CUSTOM_LETTER); [apply rule_custom_inline_safe; exact Hs|].
  destruct (r =? I_CUSTOM_PUNCT); [apply rule_custom_inline_safe; exact Hs|].
  destruct (r =? I_CUSTOM_PAIR); [apply rule_code_pair_tok_safe; exact Hs|].
  exact Dn.
Qed.

Lemma try_rules_safe_i chain silent bump : forall st st' o, irf st = true ->
  Inline.try_rules cfg TK SK chain st silent bump = inr (st', o) -> irf st' = true.
Proof.
  induction chain as [|r t IH]; intros st st' o Hs; cbn [Inline.try_rules]; [intros H; injection H as <- _; exact Hs|].
  destruct (run_rule cfg TK SK r _ silent) as [|[s1 o1]] eqn:E; cbn [bind]; [discriminate|]. cbn [fst snd].
  apply run_rule_safe in E; [|destruct bump; exact Hs].
  assert (E' : irf (if bump then iset_level s1 (i_level st) else s1) = true) by (destruct bump; exact E).
  destruct o1; [intros H; injection H as <- _; exact E'|]. apply IH; assumption.
Qed.

Lemma itok_loop_safe n : forall st end_ st', irf st = true ->
  Inline.tok_loop cfg TK SK n st end_ = inr st' -> irf st' = true.
Proof.
  induction n as [|n IH]; intros st end_ st' Hs; cbn [Inline.tok_loop].
  - destruct (negb _); [|discriminate]. intros H. injection H as <-. exact Hs.
  - destruct (negb _); [intros H; injection H as <-; exact Hs|].
    match goal with |- bind ?X _ = _ -> _ => destruct X as [|[s1 o]] eqn:Et end; cbn [bind]; [discriminate|]. cbn [fst snd].
    assert (H1 : irf s1 = true).
    { destruct (i_level st <? ic_maxnest cfg); [eapply try_rules_safe_i; eassumption|injection Et as <- _; exact Hs]. }
    destruct o as [n'|].
    + destruct (_ <=? _); [intros H; injection H as <-; exact H1|]. apply IH; exact H1.
    + destruct (first_char_len s1) as [|cl]; cbn [bind]; [discriminate|].
      destruct (trailing_text_push s1 _ _) as [|s2] eqn:Ep; cbn [bind]; [discriminate|]. apply ttpush_safe in Ep; [|exact H1].
      apply IH; exact Ep.
Qed.
End InlineEngine.

Theorem itokenize_safe cfg : pairs_ok cfg = true -> forall f st st',
  irf st = true -> itokenize f cfg st = inr st' -> irf st' = true.
Proof.
  intros Hp. induction f as [|f IH]; intros st st' Hs; cbn [itokenize]; [discriminate|].
  unfold Inline.tokenize_body. apply (itok_loop_safe cfg f Hp IH); assumption.
Qed.

(* ------------------------------------------------------------------ *)
(* 4. the core chain                                                    *)

Lemma inline_parse_safe fuel cfg src map_ k m a e refs root' : pairs_ok cfg = true ->
  kind_ok k = true -> inline_parse fuel cfg src map_ (Node k m a e []) refs = inr root' -> raw_free root' = true.
Proof.
  intros Hp Hk. unfold inline_parse. cbv zeta. destruct (itokenize _ _ _) as [|st'] eqn:E; cbn [bind]; [discriminate|].
  intros H. injection H as <-. apply (itokenize_safe cfg Hp) in E; [exact E|]. unfold irf. cbn [i_node]. rewrite raw_free_node, Hk. reflexivity.
Qed.

Lemma inline_walk_safe fuel cfg refs : pairs_ok cfg = true ->
  forall n n', raw_free n = true -> inline_walk fuel cfg refs n = inr n' -> raw_free n' = true.
Proof.
  intros Hp n. induction n as [k m a e cs IH] using node_ind'. intros n' Hr. rewrite raw_free_node in Hr. apply andb_true_iff in Hr. destruct Hr as [Hk Hc].
  cbn [inline_walk].
  match goal with |- bind (?go cs) _ = _ -> _ => assert (G : forall cs', go cs = inr cs' -> rfl cs' = true) end.
  { induction cs as [|c t IHt]; intros cs'; [intros H; injection H as <-; reflexivity|].
    inversion IH as [|? ? IHc IHt']; subst. cbn [rfl forallb] in Hc. apply andb_true_iff in Hc. destruct Hc as [Hc1 Hc2]. specialize (IHt IHt' Hc2).
    destruct (n_kind c) eqn:Ek.
    all: try (destruct (inline_walk fuel cfg refs c) as [|c'] eqn:Ec; cbn [bind]; [discriminate|];
              match goal with |- bind (?g ?tt) _ = _ -> _ => destruct (g tt) as [|rest] eqn:Er end; cbn [bind]; [discriminate|];
              intros H; injection H as <-; cbn [rfl forallb]; rewrite (IHc c' Hc1 eq_refl); exact (IHt _ eq_refl)).
    destruct (inline_parse _ _ _ _ _ _) as [|root'] eqn:Ep; cbn [bind]; [discriminate|].
    match goal with |- bind (?g ?tt) _ = _ -> _ => destruct (g tt) as [|rest] eqn:Er end; cbn [bind]; [discriminate|].
    intros H; injection H as <-. apply inline_parse_safe in Ep; [|exact Hp|reflexivity].
    rewrite rfl_app, (raw_free_children _ Ep). exact (IHt _ eq_refl). }
  match goal with |- bind ?X _ = _ -> _ => destruct X as [|cs'] eqn:E end; cbn [bind]; [discriminate|]. intros H. injection H as <-. rewrite raw_free_node, Hk. exact (G _ eq_refl).
Qed.

Lemma raw_free_merge_text a x : raw_free a = true -> raw_free (merge_text a x) = true.
Proof.
  intros Ha. unfold merge_text. destruct (n_kind a); try exact Ha. destruct (n_kind x); try exact Ha.
  rewrite raw_free_set_map, raw_free_set_kind. cbn [kind_ok andb]. apply raw_free_children. exact Ha.
Qed.

Lemma fj_collapse_safe l : forall acc, match acc with Some a => raw_free a = true | None => True end -> rfl l = true ->
  rfl (fj_collapse acc l) = true.
Proof.
  induction l as [|x t IH]; intros acc Ha Hl; cbn [fj_collapse].
  - destruct acc as [a|]; [destruct (text_nonempty a)|]; cbn [rfl forallb]; rewrite ?Ha; reflexivity.
  - cbn [rfl forallb] in Hl. apply andb_true_iff in Hl. destruct Hl as [Hx Ht]. destruct (is_text x).
    + apply IH; [|exact Ht]. destruct acc as [a|]; [apply raw_free_merge_text; exact Ha|exact Hx].
    + rewrite rfl_app. cbn [rfl forallb]. rewrite Hx. fold (rfl (fj_collapse None t)). rewrite (IH None I Ht), andb_true_r.
      destruct acc as [a|]; [destruct (text_nonempty a)|]; cbn [rfl forallb]; rewrite ?Ha; reflexivity.
Qed.

Lemma raw_free_marker_to_text n : raw_free n = true -> raw_free (marker_to_text n) = true.
Proof.
  intros H. unfold marker_to_text. destruct (n_kind n); try exact H. rewrite raw_free_set_kind. cbn [kind_ok andb]. apply raw_free_children. exact H.
Qed.

Lemma rfl_map (g : node -> node) cs : (forall c, In c cs -> raw_free c = true -> raw_free (g c) = true) -> rfl cs = true -> rfl (map g cs) = true.
Proof.
  induction cs as [|c t IH]; intros H Hc; [reflexivity|]. cbn [rfl forallb map] in *. apply andb_true_iff in Hc. destruct Hc as [H1 H2].
  rewrite (H c (or_introl eq_refl) H1). apply IH; [|exact H2]. intros x Hx. apply H. right. exact Hx.
Qed.

Lemma fj_walk_safe n : raw_free n = true -> raw_free (fj_walk n) = true.
Proof.
  induction n as [k m a e cs IH] using node_ind'. intros Hr. rewrite raw_free_node in Hr. apply andb_true_iff in Hr. destruct Hr as [Hk Hc].
  cbn [fj_walk]. unfold fragments_join. cbn [set_children n_children]. rewrite raw_free_node, Hk. apply fj_collapse_safe; [exact I|].
  rewrite map_map. apply rfl_map; [|exact Hc]. intros c Hin H. apply raw_free_marker_to_text. rewrite Forall_forall in IH. apply IH; assumption.
Qed.

Lemma walk_mut_safe g n : (forall x d, n_kind (g x d) = n_kind x) -> forall d, raw_free n = true -> raw_free (walk_mut g n d) = true.
Proof.
  intros Hg. induction n as [k m a e cs IH] using node_ind'. intros d Hr. rewrite raw_free_node in Hr. apply andb_true_iff in Hr. destruct Hr as [Hk Hc].
  cbn [walk_mut]. pose proof (Hg (Node k m a e cs) d) as Hkk. destruct (g (Node k m a e cs) d) as [k' m' a' e' cs']. cbn [n_kind] in Hkk. subst k'.
  cbn [set_children]. rewrite raw_free_node, Hk. apply rfl_map; [|exact Hc]. intros c Hin H. rewrite Forall_forall in IH. apply IH; assumption.
Qed.

Lemma sourcepos_kind src starts x d : n_kind (sourcepos_attr src starts x d) = n_kind x.
Proof. unfold sourcepos_attr. destruct (n_map x) as [[p q]|]; [destruct x; reflexivity|reflexivity]. Qed.

Lemma core_step_safe fuel bcf icf src st rule r : pairs_ok icf = true ->
  (match st with inr x => raw_free (fst (fst x)) = true | inl _ => True end) ->
  core_step fuel bcf icf src st rule = inr r -> raw_free (fst (fst r)) = true.
Proof.
  intros Hp Hs. unfold core_step. destruct st as [|[[root refs] starts]]; cbn [bind]; [discriminate|]. cbn [fst] in Hs.
  destruct (rule =? C_BLOCK).
  { unfold block_parse. cbv zeta. destruct (btokenize _ _ _) as [|st'] eqn:E; cbn [bind]; [discriminate|].
    apply (btokenize_safe bcf) in E; [|reflexivity]. intros H. injection H as <-. cbn [fst b_node].
    apply raw_free_set_children; [exact Hs|]. rewrite rfl_app, (raw_free_children _ Hs). apply raw_free_children. exact E. }
  destruct (rule =? C_INLINE).
  { destruct (inline_walk _ _ _ _) as [|r1] eqn:E; cbn [bind]; [discriminate|]. intros H. injection H as <-. cbn [fst].
    eapply inline_walk_safe; eassumption. }
  destruct (rule =? C_FRAGJOIN); [intros H; injection H as <-; cbn [fst]; apply fj_walk_safe; exact Hs|].
  destruct (rule =? C_SOURCEPOS); [intros H; injection H as <-; cbn [fst]; apply walk_mut_safe; [apply sourcepos_kind|exact Hs]|].
  destruct (rule =? C_CUSTOMCORE); [intros H; injection H as <-; cbn [fst]; apply raw_free_push; [exact Hs|reflexivity]|].
  intros H; injection H as <-. exact Hs.
Qed.

Lemma core_fold_safe fuel bcf icf src chain : pairs_ok icf = true ->
  forall st r, (match st with inr x => raw_free (fst (fst x)) = true | inl _ => True end) ->
  fold_left (core_step fuel bcf icf src) chain st = inr r -> raw_free (fst (fst r)) = true.
Proof.
  intros Hp. induction chain as [|c t IH]; intros st r Hs H; cbn [fold_left] in *.
  - subst st. exact Hs.
  - eapply IH; [|exact H]. destruct (core_step fuel bcf icf src st c) as [|x] eqn:E; [exact I|]. eapply core_step_safe; eassumption.
Qed.

Definition md_pairs_ok (m : md) : bool := forallb (fun p : N * (bool * list (option kind)) => fns_ok (snd (snd p))) (md_pairs m).

(* no Empty node, every heading level in range: every configuration, every input *)
Theorem parse_kinds_ok fuel m src d : md_pairs_ok m = true -> snd (parse fuel m src) = inr d -> raw_free (d_root d) = true.
Proof.
  intros Hp. unfold parse.
  destruct (r_iter (md_core m)) as [rc cc0]. destruct (r_iter (md_block m)) as [rb bc0]. destruct (r_iter (md_inline m)) as [ri ic0].
  cbn [snd] in *. destruct cc0 as [|cc]; cbn [bind]; [discriminate|]. destruct bc0 as [|bc]; cbn [bind]; [discriminate|].
  destruct ic0 as [|ic]; cbn [bind]; [discriminate|]. cbv zeta.
  match goal with |- bind ?F _ = _ -> _ => destruct F as [|[[root' x] starts]] eqn:E end; cbn [bind]; [discriminate|].
  intros H. injection H as <-. cbn [d_root].
  eapply core_fold_safe in E; [exact E| |reflexivity].
  unfold pairs_ok, md_pairs_ok in *. cbn [ic_pairs]. rewrite forallb_forall in *. intros p Hin. apply in_map_iff in Hin.
  destruct Hin as (q & <- & Hq). cbn [snd]. apply Hp. exact Hq.
Qed.
