(* The reference-definition rule reports how many lines its definition took.  That number never exceeds the number of
   line feeds of the text it was given: every scanner (label, blanks, destination, title, trailing check) only counts
   line feeds it walks over, and walks forward.  Used by BlockSafeProofs to keep the current line inside the block. *)
From Coq Require Import String.
From MdIt Require Import Prims Tables Escape NormRef Indent Mdurl LinkParse Tree HtmlRe Block.
From Coq Require Import Lia ZifyBool ZifyN ZifyNat Wf_nat.
Local Open Scope list_scope.
Local Open Scope N_scope.

Arguments N.eqb : simpl never.
Arguments N.leb : simpl never.
Arguments N.ltb : simpl never.
Arguments N.add : simpl never.
Arguments N.sub : simpl never.

Fixpoint cl (s : str) : N := match s with [] => 0 | c :: t => (if c =? 10 then 1 else 0) + cl t end.

Lemma cl_app a b : cl (a ++ b) = cl a + cl b.
Proof. induction a as [|x a IH]; cbn [app cl]; [lia|]. rewrite IH. lia. Qed.

Lemma cl_drop_le k : forall s, cl (drop k s) <= cl s.
Proof. induction k as [|k IH]; intros s; destruct s as [|x s]; cbn [drop cl]; try lia. specialize (IH s). lia. Qed.

Lemma cl_take_le k : forall s, cl (take k s) <= cl s.
Proof. induction k as [|k IH]; intros s; destruct s as [|x s]; cbn [take cl]; try lia. specialize (IH s). lia. Qed.

Lemma drop_drop a : forall b (s : str), drop a (drop b s) = drop (b + a) s.
Proof. intros b. induction b as [|b IH]; intros s; [reflexivity|]. destruct s as [|x s]; [destruct a; reflexivity|]. cbn [drop Nat.add]. apply IH. Qed.

Lemma dropN_add (a : N) (k : nat) (s : str) : dropN (a + N.of_nat k) s = drop k (dropN a s).
Proof. unfold dropN. rewrite drop_drop. f_equal. lia. Qed.

Lemma take_all_len (k : nat) (l : str) : (length l <= k)%nat -> take k l = l.
Proof. revert l. induction k as [|k IH]; intros l H; destruct l as [|x l]; cbn [take] in *; try reflexivity; [cbn in H; lia|]. rewrite IH; [reflexivity|cbn in H; lia]. Qed.

Lemma drop_len (k : nat) (l : str) : length (drop k l) = (length l - k)%nat.
Proof. revert l. induction k as [|k IH]; intros l; destruct l as [|x l]; cbn [drop length]; try lia. apply IH. Qed.

Lemma sub_to_end s a : sub s a (len s) = dropN a s.
Proof. unfold sub, takeN, dropN, len. apply take_all_len. rewrite drop_len. lia. Qed.

(* ---- the scanners ---- *)

Lemma ref_label_end_lf rest : forall pos lines p l, ref_label_end rest pos lines = Some (p, l) ->
  exists k, p = pos + N.of_nat k /\ l + cl (drop k rest) <= lines + cl rest.
Proof.
  induction rest as [rest IH] using (well_founded_induction (well_founded_ltof _ (@length N))).
  intros pos lines p l H. destruct rest as [|c t]; cbn [ref_label_end] in H; [discriminate|].
  destruct (c =? 91) eqn:E91; [discriminate|]. destruct (c =? 93) eqn:E93.
  { injection H as <- <-. exists 0%nat. cbn [drop]. split; lia. }
  destruct (c =? 10) eqn:E10.
  { apply IH in H; [|unfold ltof; cbn; lia]. destruct H as (k & -> & Hk). exists (S k). cbn [drop cl]. rewrite E10. split; lia. }
  destruct (c =? 92) eqn:E92.
  { destruct t as [|d t']; [discriminate|]. apply IH in H; [|unfold ltof; cbn; lia]. destruct H as (k & -> & Hk). exists (S (S k)). cbn [drop cl]. rewrite E10.
    destruct (d =? 10); split; lia. }
  apply IH in H; [|unfold ltof; cbn; lia]. destruct H as (k & -> & Hk). exists (S k). cbn [drop cl]. rewrite E10. split; lia.
Qed.

Lemma skip_ws_nl_lf rest : forall pos lines p l, skip_ws_nl rest pos lines = (p, l) ->
  exists k, p = pos + N.of_nat k /\ l + cl (drop k rest) <= lines + cl rest.
Proof.
  induction rest as [|c t IH]; intros pos lines p l H; cbn [skip_ws_nl] in H.
  - injection H as <- <-. exists 0%nat. cbn. split; lia.
  - destruct (is_sptab c) eqn:Es.
    + apply IH in H. destruct H as (k & -> & Hk). exists (S k). cbn [drop cl]. assert (c =? 10 = false) by (unfold is_sptab in Es; lia). rewrite H. split; lia.
    + destruct (c =? 10) eqn:E10.
      * apply IH in H. destruct H as (k & -> & Hk). exists (S k). cbn [drop cl]. rewrite E10. split; lia.
      * injection H as <- <-. exists 0%nat. cbn [drop]. split; lia.
Qed.

Lemma dest_angle_pos s start rest : forall pos fr, dest_angle s start rest pos = Some fr -> pos <= f_pos fr /\ f_lines fr = 0.
Proof.
  induction rest as [rest IH] using (well_founded_induction (well_founded_ltof _ (@length N))).
  intros pos fr H. destruct rest as [|c t]; cbn [dest_angle] in H; [discriminate|].
  destruct ((c =? 10) || (c =? 60)); [discriminate|]. destruct (c =? 62).
  { injection H as <-. cbn. split; lia. }
  destruct (c =? 92).
  { destruct t as [|d t']; [discriminate|]. apply IH in H; [|unfold ltof; cbn; lia]. lia. }
  apply IH in H; [|unfold ltof; cbn; lia]. lia.
Qed.

Lemma dest_plain_pos rest : forall pos level p lv, dest_plain rest pos level = Some (p, lv) -> pos <= p.
Proof.
  induction rest as [rest IH] using (well_founded_induction (well_founded_ltof _ (@length N))).
  intros pos level p lv H. destruct rest as [|c t]; cbn [dest_plain] in H; [injection H as <- <-; lia|].
  destruct ((c <=? 32) || (c =? 127)); [injection H as <- <-; lia|]. destruct (c =? 92).
  { destruct t as [|d t']; [injection H as <- <-; lia|].
    assert (Hrec : dest_plain t' (pos + 2) level = Some (p, lv) -> pos <= p) by (intros H'; apply IH in H'; [lia|unfold ltof; cbn; lia]).
    destruct d as [|pd]; [apply Hrec; exact H|].
    repeat (destruct pd as [pd|pd|]; try (apply Hrec; exact H)). injection H as <- <-. lia. }
  destruct (c =? 40).
  { destruct (32 <? level + 1); [discriminate|]. apply IH in H; [lia|unfold ltof; cbn; lia]. }
  destruct (c =? 41).
  { destruct (level =? 0); [injection H as <- <-; lia|]. apply IH in H; [lia|unfold ltof; cbn; lia]. }
  apply IH in H; [lia|unfold ltof; cbn; lia].
Qed.

Lemma parse_link_destination_pos s start max fr : parse_link_destination s start max = Some fr -> start <= f_pos fr /\ f_lines fr = 0.
Proof.
  unfold parse_link_destination. intros H.
  assert (Hplain : match dest_plain (sub s start max) start 0 with
                   | Some (pos, level) => if level =? 0 then Some (Frag pos 0 (unescape_all (sub s start pos))) else None
                   | None => None end = Some fr -> start <= f_pos fr /\ f_lines fr = 0).
  { destruct (dest_plain (sub s start max) start 0) as [[p lv]|] eqn:E; [|discriminate]. apply dest_plain_pos in E.
    destruct (lv =? 0); [|discriminate]. intros H'. injection H' as <-. cbn. split; lia. }
  destruct (sub s start max) as [|c t] eqn:Es; [apply Hplain; exact H|].
  destruct c as [|pc]; [apply Hplain; exact H|].
  repeat (destruct pc as [pc|pc|]; try (apply Hplain; exact H)).
  apply dest_angle_pos in H. lia.
Qed.

Lemma title_loop_lf s start marker rest : forall pos lines fr, title_loop s start marker rest pos lines = Some fr ->
  exists k, f_pos fr = pos + N.of_nat k /\ f_lines fr + cl (drop k rest) <= lines + cl rest.
Proof.
  induction rest as [rest IH] using (well_founded_induction (well_founded_ltof _ (@length N))).
  intros pos lines fr H. destruct rest as [|c t]; cbn [title_loop] in H; [discriminate|].
  destruct (c =? marker).
  { injection H as <-. exists 1%nat. cbn [f_pos f_lines drop cl]. destruct (c =? 10); split; lia. }
  destruct ((c =? 40) && (marker =? 41)); [discriminate|]. destruct (c =? 10) eqn:E10.
  { apply IH in H; [|unfold ltof; cbn; lia]. destruct H as (k & -> & Hk). exists (S k). cbn [drop cl]. rewrite E10. split; lia. }
  destruct (c =? 92).
  { destruct t as [|d t']; [discriminate|]. apply IH in H; [|unfold ltof; cbn; lia]. destruct H as (k & -> & Hk). exists (S (S k)). cbn [drop cl]. rewrite E10.
    destruct (d =? 10); split; lia. }
  apply IH in H; [|unfold ltof; cbn; lia]. destruct H as (k & -> & Hk). exists (S k). cbn [drop cl]. rewrite E10. split; lia.
Qed.

Lemma parse_link_title_lf s start fr : parse_link_title s start (len s) = Some fr ->
  start <= f_pos fr /\ f_lines fr + cl (dropN (f_pos fr) s) <= cl (dropN start s).
Proof.
  unfold parse_link_title. rewrite sub_to_end. destruct (dropN start s) as [|c t] eqn:Ed; [discriminate|].
  assert (Ht : t = dropN (start + 1) s).
  { replace (start + 1) with (start + N.of_nat 1) by lia. rewrite dropN_add, Ed. reflexivity. }
  assert (Hgen : forall marker, title_loop s start marker t (start + 1) 0 = Some fr ->
            start <= f_pos fr /\ f_lines fr + cl (dropN (f_pos fr) s) <= cl (c :: t)).
  { intros marker H. apply title_loop_lf in H. destruct H as (k & Hp & Hk). rewrite Hp.
    replace (start + 1 + N.of_nat k) with ((start + 1) + N.of_nat k) by lia. rewrite dropN_add, <- Ht. cbn [cl]. split; lia. }
  destruct (c =? 34); [apply Hgen|]. destruct (c =? 39); [apply Hgen|]. destruct (c =? 40); [apply Hgen|discriminate].
Qed.

Lemma ref_trailing_lines fuel s : forall pos title lines dp dl t' l', ref_trailing fuel s pos title lines dp dl = Some (t', l') -> l' = lines \/ l' = dl.
Proof.
  induction fuel as [|f IH]; intros pos title lines dp dl t' l' H; cbn [ref_trailing] in H; [discriminate|].
  destruct (dropN pos s) as [|c r]; [injection H as _ <-; auto|].
  destruct (is_sptab c); [apply IH in H; exact H|]. destruct (c =? 10); [injection H as _ <-; auto|].
  destruct title; [|discriminate]. apply IH in H. destruct H; auto.
Qed.

(* the line count of a definition never exceeds the line feeds of its text *)
Theorem parse_reference_lines s label href title lines : parse_reference s = Some (label, href, title, lines) -> lines <= cl s.
Proof.
  unfold parse_reference. destruct s as [|c0 t]; [discriminate|]. set (s := c0 :: t).
  destruct (ref_label_end t 1 0) as [[label_end lines1]|] eqn:E1; [|discriminate].
  apply ref_label_end_lf in E1. destruct E1 as (k1 & Hle & Hk1).
  assert (Hd1 : drop k1 t = dropN label_end s).
  { rewrite Hle. replace (1 + N.of_nat k1) with (N.of_nat (S k1)) by lia. unfold dropN. rewrite Nnat.Nat2N.id. reflexivity. }
  destruct (dropN (label_end + 1) s) as [|c1 after] eqn:E2; [discriminate|].
  assert (Hafter : after = dropN (label_end + 2) s).
  { replace (label_end + 2) with ((label_end + 1) + N.of_nat 1) by lia. rewrite dropN_add, E2. reflexivity. }
  assert (Hcl_after : cl after <= cl (dropN label_end s)).
  { replace (label_end + 2) with (label_end + N.of_nat 2) in Hafter by lia. rewrite dropN_add in Hafter. rewrite Hafter. apply cl_drop_le. }
  assert (H1 : lines1 + cl after <= cl s).
  { rewrite <- Hd1 in Hcl_after. unfold s. cbn [cl]. destruct (c0 =? 10); lia. }
  destruct c1 as [|pc1]; [discriminate|]. intros H.
  assert (Hc : N.pos pc1 = 58) by (repeat (destruct pc1 as [pc1|pc1|]; try discriminate); reflexivity).
  injection Hc as ->.
  destruct (skip_ws_nl after (label_end + 2) lines1) as [pos lines2] eqn:E3.
  apply skip_ws_nl_lf in E3. destruct E3 as (k2 & Hpos & Hk2).
  assert (Hd2 : drop k2 after = dropN pos s) by (rewrite Hpos, dropN_add, <- Hafter; reflexivity).
  destruct (parse_link_destination s pos (len s)) as [d|] eqn:E4; [|discriminate].
  apply parse_link_destination_pos in E4. destruct E4 as [Hdp Hdl].
  destruct (pos =? f_pos d); [discriminate|]. destruct (negb (validate_link (normalize_link (f_str d)))); [discriminate|].
  rewrite Hdl in H. replace (lines2 + 0) with lines2 in H by lia.
  assert (H2 : lines2 + cl (dropN (f_pos d) s) <= cl s).
  { assert (cl (dropN (f_pos d) s) <= cl (dropN pos s)).
    { replace (f_pos d) with (pos + N.of_nat (N.to_nat (f_pos d - pos))) by lia. rewrite dropN_add. apply cl_drop_le. }
    rewrite <- Hd2 in H0. lia. }
  destruct (skip_ws_nl (dropN (f_pos d) s) (f_pos d) lines2) as [pos2 lines2'] eqn:E5.
  apply skip_ws_nl_lf in E5. destruct E5 as (k3 & Hpos2 & Hk3).
  assert (Hd3 : drop k3 (dropN (f_pos d) s) = dropN pos2 s) by (rewrite Hpos2, dropN_add; reflexivity).
  assert (H3 : lines2' + cl (dropN pos2 s) <= cl s) by (rewrite <- Hd3; lia).
  (* title *)
  assert (Hfin : forall ti p3 l3, (if pos2 =? f_pos d then (None, pos2, lines2')
            else match parse_link_title s pos2 (len s) with
                 | Some ti0 => (Some (f_str ti0), f_pos ti0, lines2' + f_lines ti0)
                 | None => (None, f_pos d, lines2) end) = (ti, p3, l3) -> l3 <= cl s).
  { intros ti p3 l3 Ht. destruct (pos2 =? f_pos d); [injection Ht as _ _ <-; lia|].
    destruct (parse_link_title s pos2 (len s)) as [ti0|] eqn:E6; [|injection Ht as _ _ <-; lia].
    apply parse_link_title_lf in E6. injection Ht as _ _ <-. lia. }
  destruct (if pos2 =? f_pos d then (None, pos2, lines2')
            else match parse_link_title s pos2 (len s) with
                 | Some ti0 => (Some (f_str ti0), f_pos ti0, lines2' + f_lines ti0)
                 | None => (None, f_pos d, lines2) end) as [[ti p3] l3] eqn:E7.
  specialize (Hfin ti p3 l3 eq_refl).
  destruct (ref_trailing _ s p3 ti l3 (f_pos d) lines2) as [[t' l']|] eqn:E8; [|discriminate].
  apply ref_trailing_lines in E8.
  destruct (normalize_reference (sub s 1 label_end)); [discriminate|]. injection H as _ _ _ <-.
  destruct E8 as [->| ->]; lia.
Qed.
