(* Code content is opaque and reproduced verbatim (property C11). *)
From Coq Require Import String.
From MdIt Require Import Prims Tables Escape NormRef Indent Mdurl LinkParse Tree Render Block Inline.
From MdIt Require Import RenderProofs LookaheadProofs RangeProofs.
From Coq Require Import Lia ZifyBool ZifyN ZifyNat.
Local Open Scope list_scope.
Local Open Scope N_scope.
Ltac Zify.zify_post_hook ::= Z.div_mod_to_equations.

Arguments N.eqb : simpl never.
Arguments N.leb : simpl never.
Arguments N.ltb : simpl never.
Arguments N.add : simpl never.
Arguments N.sub : simpl never.
Arguments N.modulo : simpl never.
Arguments Z.leb : simpl never.
Arguments Z.ltb : simpl never.
Arguments Z.sub : simpl never.
Arguments Z.of_N : simpl never.

(* ------------------------------------------------------------------ *)
(* 1. tab stops: cutting the indentation of a line                       *)

Definition is_ws (c : N) : bool := (c =? 32) || (c =? 9).

(* column reached after the blanks w, starting from column c *)
Definition col_step (c : N) (x : N) : N := if x =? 9 then c + (4 - c mod 4) else c + 1.
Definition cols_from (c : N) (w : str) : N := fold_left col_step w c.

Lemma leading_ws_spec w : forall r b c, forallb is_ws w = true ->
  match r with x :: _ => is_ws x = false | [] => True end ->
  leading_ws (w ++ r) b c = (b + len w, cols_from c w).
Proof.
  induction w as [|x t IH]; intros r b c Hw Hr.
  - unfold len, cols_from. cbn [app fold_left length]. replace (b + N.of_nat 0) with b by lia. destruct r as [|y r']; cbn [leading_ws]; [reflexivity|].
    unfold is_ws in Hr. destruct y as [|q]; [reflexivity|].
    repeat (destruct q as [q|q|]; try reflexivity; try discriminate Hr).
  - cbn [forallb] in Hw. apply andb_true_iff in Hw. destruct Hw as [Hx Ht]. unfold is_ws in Hx.
    cbn [app]. destruct (x =? 32) eqn:E32.
    + assert (x = 32) by lia. subst x. cbn [leading_ws]. rewrite (IH r (b + 1) (c + 1) Ht Hr).
      unfold cols_from. cbn [fold_left]. unfold col_step at 2. replace (32 =? 9) with false by reflexivity.
      f_equal. unfold len. cbn [length]. lia.
    + assert (x = 9) by lia. subst x. cbn [leading_ws]. rewrite (IH r (b + 1) (c + (4 - c mod 4)) Ht Hr).
      unfold cols_from. cbn [fold_left]. unfold col_step at 2. replace (9 =? 9) with true by reflexivity.
      f_equal. unfold len. cbn [length]. lia.
Qed.

Lemma cols_from_app c a b : cols_from c (a ++ b) = cols_from (cols_from c a) b.
Proof. unfold cols_from. apply fold_left_app. Qed.

Lemma cols_from_ge c w : c + len w <= cols_from c w.
Proof.
  revert c. induction w as [|x t IH]; intros c; [unfold len; cbn; lia|].
  unfold cols_from in *. cbn [fold_left]. specialize (IH (col_step c x)). unfold len in *. cbn [length].
  unfold col_step in *. destruct (x =? 9); lia.
Qed.

(* characters since the last tab, counted backwards (the implementation's rfind_and_count) *)
Lemma rfind_acc l : forall acc, forallb is_ws l = true -> rfind_count_rev l 9 acc = acc + rfind_count_rev l 9 0.
Proof.
  induction l as [|x t IH]; intros acc Hw; cbn [rfind_count_rev]; [lia|].
  cbn [forallb] in Hw. apply andb_true_iff in Hw. destruct Hw as [Hx Ht]. unfold is_ws in Hx.
  destruct (x =? 9) eqn:E9; [lia|]. assert (x = 32) by lia. subst x.
  replace (is_cont 32) with false by reflexivity. rewrite (IH (acc + 1) Ht), (IH (0 + 1) Ht). lia.
Qed.

Lemma cols_mod_since_tab w : forallb is_ws w = true -> cols_from 0 w mod 4 = rfind_count_rev (rev w) 9 0 mod 4.
Proof.
  induction w as [|x t IH] using rev_ind; intros Hw; [reflexivity|].
  rewrite forallb_app in Hw. apply andb_true_iff in Hw. destruct Hw as [Ht Hx]. cbn [forallb] in Hx. rewrite andb_true_r in Hx.
  rewrite cols_from_app, rev_app_distr. cbn [rev app cols_from fold_left rfind_count_rev]. unfold is_ws in Hx. unfold col_step.
  destruct (x =? 9) eqn:E9.
  - set (c := cols_from 0 t). lia.
  - assert (x = 32) by lia. subst x. replace (is_cont 32) with false by reflexivity.
    rewrite rfind_acc by (rewrite forallb_forall in *; intros y Hy; apply Ht; apply in_rev; exact Hy).
    specialize (IH Ht). set (c := cols_from 0 t) in *. set (d := rfind_count_rev (rev t) 9 0) in *. lia.
Qed.

(* removing exactly the columns contributed by the blanks w that follow the blanks pre leaves pre:
   no spaces are invented and the cut falls right after pre, whatever mixture of tabs and spaces *)
Lemma calc_rw_cut pre : forallb is_ws pre = true -> forall w, forallb is_ws w = true ->
  calc_rw_loop (rev (pre ++ w)) (Z.of_N (cols_from 0 (pre ++ w)) - Z.of_N (cols_from 0 pre)) (len (pre ++ w)) = (0, len pre).
Proof.
  intros Hp w. induction w as [|x t IH] using rev_ind; intros Hw.
  - rewrite app_nil_r. replace (Z.of_N (cols_from 0 pre) - Z.of_N (cols_from 0 pre))%Z with 0%Z by lia.
    destruct (rev pre) as [|y r] eqn:E; cbn [calc_rw_loop].
    + assert (pre = []) by (apply (f_equal (@rev N)) in E; rewrite rev_involutive in E; exact E). subst pre. reflexivity.
    + reflexivity.
  - rewrite forallb_app in Hw. apply andb_true_iff in Hw. destruct Hw as [Ht Hx]. cbn [forallb] in Hx. rewrite andb_true_r in Hx.
    specialize (IH Ht). rewrite app_assoc, rev_app_distr. cbn [rev app calc_rw_loop].
    assert (Hall : forallb is_ws (pre ++ t) = true) by (rewrite forallb_app, Hp, Ht; reflexivity).
    pose proof (cols_mod_since_tab (pre ++ t) Hall) as Hmod.
    assert (Hc : cols_from 0 pre <= cols_from 0 (pre ++ t)).
    { rewrite cols_from_app. pose proof (cols_from_ge (cols_from 0 pre) t). lia. }
    rewrite (cols_from_app 0 (pre ++ t) [x]).
    change (cols_from (cols_from 0 (pre ++ t)) [x]) with (col_step (cols_from 0 (pre ++ t)) x).
    set (c := cols_from 0 (pre ++ t)) in *. set (c0 := cols_from 0 pre) in *.
    unfold is_ws in Hx. unfold col_step. destruct (x =? 9) eqn:E9.
    + assert (x = 9) by lia. subst x. replace (is_cont 9) with false by reflexivity.
      destruct (Z.of_N (c + (4 - c mod 4)) - Z.of_N c0 <=? 0)%Z eqn:E0; [lia|].
      replace (9 =? 9) with true by reflexivity. rewrite <- Hmod.
      destruct (_ <? _)%Z eqn:E1; [lia|].
      replace (Z.of_N (c + (4 - c mod 4)) - Z.of_N c0 - (4 - Z.of_N (c mod 4)))%Z with (Z.of_N c - Z.of_N c0)%Z by lia.
      unfold len. rewrite rev_length. exact IH.
    + assert (x = 32) by lia. subst x. replace (is_cont 32) with false by reflexivity.
      destruct (Z.of_N (c + 1) - Z.of_N c0 <=? 0)%Z eqn:E0; [lia|].
      replace (32 =? 9) with false by reflexivity.
      replace (Z.of_N (c + 1) - Z.of_N c0 - 1)%Z with (Z.of_N c - Z.of_N c0)%Z by lia.
      unfold len. rewrite rev_length. exact IH.
Qed.

(* every text splits into its leading blanks and the rest *)
Lemma split_blanks (T : str) : exists w r, T = w ++ r /\ forallb is_ws w = true /\
  match r with x :: _ => is_ws x = false | [] => True end.
Proof.
  induction T as [|x t (w & r & -> & Hw & Hr)]; [exists [], []; auto|].
  destruct (is_ws x) eqn:E; [exists (x :: w), r; cbn; rewrite E; auto|exists [], (x :: w ++ r); auto].
Qed.

Lemma takeN_len_app (a b : str) : takeN (len a) (a ++ b) = a.
Proof. apply takeN_app_len. Qed.
Lemma dropN_len_app (a b : str) : dropN (len a) (a ++ b) = b.
Proof. unfold dropN, len. rewrite Nnat.Nat2N.id. induction a as [|x t IH]; [destruct b; reflexivity|exact IH]. Qed.

(* a line that starts with the blanks pre: cutting exactly the columns of pre removes exactly pre,
   inventing no spaces -- whatever tabs and spaces follow *)
Theorem cut_line_verbatim pre T : forallb is_ws pre = true ->
  let l := mk_line (pre ++ T) in
  (l_first l <=? l_end l) = true /\
  calc_right_whitespace (takeN (l_first l) (l_text l)) (l_indent l - Z.of_N (cols_from 0 pre)) = (0, len pre).
Proof.
  intros Hp. destruct (split_blanks T) as (w & r & -> & Hw & Hr). cbv zeta. unfold mk_line.
  rewrite app_assoc, (leading_ws_spec (pre ++ w) r 0 0); [|rewrite forallb_app, Hp, Hw; reflexivity|exact Hr].
  cbn [l_first l_end l_text l_indent]. unfold l_end. cbn [l_text]. split; [unfold len; rewrite !app_length; lia|].
  replace (0 + len (pre ++ w)) with (len (pre ++ w)) by lia. rewrite takeN_len_app.
  unfold calc_right_whitespace. apply calc_rw_cut; assumption.
Qed.

(* the text get_lines assembles from lines b, b+1, ... *)
Fixpoint out_lines (keep : bool) (texts : list str) : str :=
  match texts with
  | [] => []
  | [T] => T ++ (if keep then [10] else [])
  | T :: rest => T ++ [10] ++ out_lines keep rest
  end.

Theorem get_lines_verbatim st pre keep : forallb is_ws pre = true -> forall texts n b acc mp,
  (length texts <= n)%nat ->
  (forall i T, nth_error texts i = Some T -> nth_error (b_lines st) (b + i) = Some (mk_line (pre ++ T))) ->
  exists mp', get_lines_loop st n b (b + length texts) (cols_from 0 pre) keep acc mp = inr (acc ++ out_lines keep texts, mp').
Proof.
  intros Hp. induction texts as [|T rest IH]; intros n b acc mp Hn Hl.
  - exists mp. destruct n; cbn [get_lines_loop length]; [rewrite app_nil_r; reflexivity|].
    replace (b + 0)%nat with b by lia. rewrite PeanoNat.Nat.ltb_irrefl. cbn. rewrite app_nil_r. reflexivity.
  - destruct n as [|n]; [cbn in Hn; lia|]. cbn [get_lines_loop length].
    replace (b <? b + S (length rest))%nat with true by (symmetry; apply PeanoNat.Nat.ltb_lt; lia). cbn [negb].
    pose proof (Hl 0%nat T eq_refl) as H0. replace (b + 0)%nat with b in H0 by lia.
    unfold line_rec. rewrite H0. cbn [bind ret].
    destruct (cut_line_verbatim pre T Hp) as [Hle Hcut]. cbv zeta in Hle, Hcut.
    rewrite Hle. cbn [negb]. rewrite Hcut. cbv iota beta. cbn [N.to_nat repeatN app seq map].
    assert (Htext : l_text (mk_line (pre ++ T)) = pre ++ T) by (unfold mk_line; destruct (leading_ws _ _ _); reflexivity).
    rewrite Htext, dropN_len_app.
    destruct (IH n (S b) (acc ++ T ++ (if (S b <? b + S (length rest))%nat || keep then [10] else []))
                 (mp ++ [(len acc + 0, SRel b (len pre))])) as [mp' E].
    + cbn in Hn. lia.
    + intros i T' Hi. replace (S b + i)%nat with (b + S i)%nat by lia. apply Hl. exact Hi.
    + exists mp'. replace (b + S (length rest))%nat with (S b + length rest)%nat in * by lia.
      rewrite E. f_equal. f_equal.
      rewrite <- !app_assoc. f_equal. f_equal. destruct rest as [|T2 rest'].
      * cbn [length out_lines]. replace (S b <? S b + 0)%nat with false by (symmetry; apply PeanoNat.Nat.ltb_ge; lia).
        cbn [orb]. rewrite app_nil_r. reflexivity.
      * cbn [length]. replace (S b <? S b + S (length rest'))%nat with true by (symmetry; apply PeanoNat.Nat.ltb_lt; lia).
        cbn [orb out_lines]. reflexivity.
Qed.

(* ------------------------------------------------------------------ *)
(* 2. where the content of code nodes comes from                          *)

Definition last_block_child (st : bstate) : option node :=
  match split_last (n_children (b_node st)) with Some (_, x) => Some x | None => None end.

Lemma last_block_child_push st x : last_block_child (push_node st x) = Some x.
Proof. unfold last_block_child, push_node, push_child. destruct (b_node st). cbn. rewrite split_last_app. reflexivity. Qed.
Lemma last_block_child_set_line st l : last_block_child (set_line st l) = last_block_child st.
Proof. reflexivity. Qed.

(* fenced block: the content is get_lines of the lines after the opening line, cut by the opening line's
   indentation; nothing else looks at those lines *)
Theorem fence_content cfg st st' : rule_fence cfg st = inr (st', true) ->
  exists m n params r0 next content mp rng,
    fence_open st = inr (Some (m, n, params)) /\ line_rec st (b_line st) = inr r0 /\
    get_lines st (S (b_line st)) next (Z.to_N (l_indent r0)) true = inr (content, mp) /\
    last_block_child st' = Some (mk (KFence params m n content (bc_fence_prefix cfg)) rng []).
Proof.
  unfold rule_fence. intros H. hinv H. all: injection H as <-. all: subst.
  all: match goal with Hg : get_lines _ _ ?nx _ _ = inr ?p |- _ => destruct p as [content mp] end.
  all: do 8 eexists; split; [reflexivity|]; split; [reflexivity|]; split; [eassumption|]; apply last_block_child_push.
Qed.

(* indented code: the content is get_lines of the block's lines cut by 4 columns, plus a final line feed *)
Theorem code_block_content st st' : rule_code st = inr (st', true) ->
  exists last content mp rng,
    get_lines st (b_line st) last (4 + b_blk st) false = inr (content, mp) /\
    last_block_child st' = Some (mk (KCodeBlock (content ++ [10])) rng []).
Proof.
  unfold rule_code. intros H. hinv H. all: injection H as <-. all: subst.
  all: match goal with Hg : get_lines _ _ _ _ _ = inr ?p |- _ => destruct p as [content mp] end.
  all: do 4 eexists; split; [eassumption|]; apply last_block_child_push.
Qed.

(* code span: the content is the source between the opener and the closer, line feeds turned into
   spaces and one pair of padding spaces removed; no escape or reference is looked at *)
Definition span_text (raw : str) : str :=
  let content := map (fun b => if b =? 10 then 32 else b) raw in
  let strip := match content, rev content with
               | 32 :: _, 32 :: _ => 2 <? len content
               | _, _ => false
               end in
  if strip then sub content 1 (len content - 1) else content.

Theorem code_span_content st m st' n : rule_code_pair st m false = inr (st', Some n) ->
  exists rest ms me mv k rng1 rng2,
    irest st = inr rest /\ k = count_run m rest /\
    code_scan (S (length rest)) st m k (i_pos st + k) (snd (get_bt st m)) = inr (Some (ms, me), mv) /\
    n = me - i_pos st /\
    last_child st' = Some (mk (KCodeInline m k) rng1 [mk (KText (span_text (sub (i_src st) (i_pos st + k) ms))) rng2 []]).
Proof.
  unfold rule_code_pair. intros H. hinv H. all: injection H as <- <-.
  all: match goal with E : isl _ _ _ = inr ?raw |- _ => unfold isl in E; apply slice_sub in E; subst raw end.
  all: match goal with E : code_scan _ _ _ _ _ ?mv0 = inr ?p |- _ => destruct p as [o mv]; cbn [fst snd] in *; subst o end.
  all: cbn [snd].
  all: do 7 eexists; split; [reflexivity|]; split; [reflexivity|]; split; [eassumption|]; split; [reflexivity|].
  all: rewrite last_child_ipush; unfold span_text; cbv zeta.
  all: repeat match goal with E : ?x = _ |- context [?x] => rewrite E end; reflexivity.
Qed.

(* ------------------------------------------------------------------ *)
(* 3. how code nodes are rendered: the content goes through escape_html and nothing else *)

Local Open Scope string_scope.
Local Open Scope list_scope.
Local Open Scope N_scope.

Lemma render_events_code_block c m a e cs :
  render_events (Node (KCodeBlock c) m a e cs) =
  inr [ECr; EOpen (bs "pre") []; EOpen (bs "code") a; EText c; EClose (bs "code"); EClose (bs "pre"); ECr].
Proof. reflexivity. Qed.

Lemma render_events_code_inline mk_ k m a e t r :
  render_events (Node (KCodeInline mk_ k) m a e [mk (KText t) r []]) =
  inr [EOpen (bs "code") a; EText t; EClose (bs "code")].
Proof. reflexivity. Qed.

Theorem render_code_block xhtml c m e cs :
  render xhtml (Node (KCodeBlock c) m [] e cs) = inr (replace_nul (bs "<pre><code>" ++ escape_html c ++ bs "</code></pre>" ++ [10]%N)).
Proof.
  unfold render. rewrite render_events_code_block. cbn [bind ret]. rewrite serialize_chunks. f_equal. f_equal.
  cbn [chunks chunk at_line_start ser_event rpush rev_append make_attrs fold_left attrs_chunk flat_map concat app bs].
  cbn. rewrite <- ?app_assoc. reflexivity.
Qed.

Theorem render_fence_plain xhtml mk_ k c pfx m e cs :
  render xhtml (Node (KFence [] mk_ k c pfx) m [] e cs) = inr (replace_nul (bs "<pre><code>" ++ escape_html c ++ bs "</code></pre>" ++ [10]%N)).
Proof.
  unfold render. cbn [render_events]. cbv zeta.
  replace (first_word (unescape_all [])) with (@nil N) by reflexivity. cbn [bind ret]. rewrite serialize_chunks. f_equal. f_equal.
  cbn. rewrite <- ?app_assoc. reflexivity.
Qed.

Theorem render_code_inline xhtml mk_ k m e t r :
  render xhtml (Node (KCodeInline mk_ k) m [] e [mk (KText t) r []]) = inr (replace_nul (bs "<code>" ++ escape_html t ++ bs "</code>")).
Proof.
  unfold render. rewrite render_events_code_inline. cbn [bind ret]. rewrite serialize_chunks. f_equal. f_equal.
  cbn. rewrite <- ?app_assoc. reflexivity.
Qed.
