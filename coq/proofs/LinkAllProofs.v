(* C04 end to end: every URL carried by a Link / Image / Autolink node of a parsed tree is accepted by validate_link,
   is read back by a browser exactly as it stands in the tree (for every string, bytes or not), and -- whenever it is
   an ASCII string, which the normaliser guarantees for every byte string -- is not a dangerous URL. *)
From Coq Require Import String.
From MdIt Require Import Prims Tables NormRef Mdurl Escape Regex HtmlRe Tree Render Core.
From MdIt Require Import MdurlProofs RenderProofs LinkProofs LinkSafeProofs.
From Coq Require Import Lia ZifyBool ZifyN ZifyNat.
Local Open Scope list_scope.
Local Open Scope N_scope.

Arguments N.eqb : simpl never.
Arguments N.leb : simpl never.
Arguments N.ltb : simpl never.

Definition above_space (l : list N) : bool := forallb (fun b => 32 <? b) l.

Lemma hex_digit_upper_gt32 n : 32 <? hex_digit_upper n = true.
Proof. unfold hex_digit_upper. destruct (n <? 10); lia. Qed.

Lemma is_hex_gt32 h : is_hex h = true -> 32 <? h = true.
Proof. unfold is_hex, is_digit, between. lia. Qed.

(* whatever the input (bytes or not), the normaliser never emits a space or a control character *)
Theorem normalize_above_space s : above_space (normalize_link s) = true.
Proof.
  unfold normalize_link, above_space. induction s as [|c t IHt IHt'] using enc_ind; [reflexivity|].
  destruct (encode_cases normalize_safe true c t)
    as [(h1 & h2 & t' & _ & -> & -> & H1 & H2 & ->)|[(_ & _ & ->)|(_ & E & ->)]].
  - cbn [forallb]. rewrite (is_hex_gt32 _ H1), (is_hex_gt32 _ H2), (IHt' h1 h2 t' eq_refl). reflexivity.
  - unfold pct. cbn [app forallb]. rewrite !hex_digit_upper_gt32, IHt. reflexivity.
  - cbn [forallb]. rewrite IHt, andb_true_r. unfold should_encode in E. apply orb_false_iff in E. destruct E as [E1 E2].
    pose proof safe_printable as S. rewrite forallb_forall in S.
    assert (Hin : In c (map N.of_nat (seq 0 128))) by (apply in_map_iff; exists (N.to_nat c); split; [lia|apply in_seq; lia]).
    specialize (S c Hin). destruct (aset_has normalize_safe c); [|discriminate E2]. cbn in S. lia.
Qed.

Lemma strip_above s : above_space s = true -> strip_leading_c0 s = s.
Proof. destruct s as [|c t]; [reflexivity|]. cbn [above_space forallb strip_leading_c0]. intros H. replace (c <=? 32) with false by lia. reflexivity. Qed.

Lemma remove_above s : above_space s = true -> remove_tab_nl s = s.
Proof.
  unfold remove_tab_nl, above_space. induction s as [|c t IH]; [reflexivity|]. cbn [forallb filter]. intros H.
  apply andb_true_iff in H. destruct H as [Hc Ht]. replace (negb ((c =? 9) || (c =? 10) || (c =? 13))) with true by lia. f_equal. apply IH. exact Ht.
Qed.

(* what a browser reads from the escaped attribute is the URL of the tree: no entity, white-space or control-character trick *)
Theorem browser_reads_normalized s : browser_view (escape_html (normalize_link s)) = normalize_link s.
Proof.
  unfold browser_view. rewrite unescape_escape by lia. rewrite strip_above, remove_above; auto using normalize_above_space.
Qed.

Definition ascii_only (u : str) : bool := forallb (fun b => b <? 128) u.

(* the property every URL of a parsed tree has *)
Definition url_safe (u : str) : bool :=
  validate_link u && list_eqb (browser_view (escape_html u)) u && (negb (ascii_only u) || negb (browser_dangerous (escape_html u))).

Lemma list_eqb_refl l : list_eqb l l = true.
Proof. induction l as [|x t IH]; [reflexivity|]. cbn [list_eqb]. rewrite N.eqb_refl. exact IH. Qed.

Lemma url_safe_pipeline s : validate_link (normalize_link s) = true -> url_safe (normalize_link s) = true.
Proof.
  intros Hv. unfold url_safe. rewrite Hv, browser_reads_normalized, list_eqb_refl. cbn [andb].
  destruct (ascii_only (normalize_link s)) eqn:Ha; [|reflexivity]. cbn [negb orb].
  unfold browser_dangerous. rewrite browser_reads_normalized.
  rewrite (validate_link_spec _ Ha) in Hv. destruct (bad_scheme _), (good_data _); cbn in *; congruence.
Qed.

Lemma url_safe_empty : url_safe [] = true.
Proof. vm_compute. reflexivity. Qed.

Theorem parse_urls_safe fuel m src d : LinkSafeProofs.md_pairs_ok url_safe m = true -> snd (parse fuel m src) = inr d ->
  LinkSafeProofs.raw_free url_safe (d_root d) = true.
Proof. exact (LinkSafeProofs.parse_links_good url_safe url_safe_pipeline url_safe_empty fuel m src d). Qed.

(* for byte strings the normaliser's output is ASCII, so the conditional clause of url_safe applies *)
Theorem normalize_ascii_only s : bytes_ok s -> ascii_only (normalize_link s) = true.
Proof. intros H. apply printable_ascii, normalize_printable, H. Qed.
