(* Proofs about src/common/erasedset.rs as modelled in model/ErasedSet.v (property C20, storage half) *)
From MdIt Require Import Prims ErasedSet.
From Coq Require Import Lia ZifyBool ZifyN ZifyNat.
Local Open Scope list_scope.
Local Open Scope N_scope.

Arguments N.eqb : simpl never.

(* representation invariant: one entry per key, and the boxed value has the type of its key
   (this is what makes every downcast().unwrap() succeed) *)
Definition wf (s : eset) : Prop :=
  NoDup (map e_key s) /\ Forall (fun e => e_tag e = e_key e) s.

Lemma wf_new : wf es_new.
Proof. split; constructor. Qed.

Lemma find_some s k e : es_find s k = Some e -> In e s /\ e_key e = k.
Proof.
  induction s as [|x t IH]; cbn [es_find]; [discriminate|].
  destruct (N.eqb_spec (e_key x) k) as [E|E].
  - intros [= <-]. split; [left; reflexivity|exact E].
  - intros H. destruct (IH H). split; [right; assumption|assumption].
Qed.

Lemma find_none s k : es_find s k = None -> ~ In k (map e_key s).
Proof.
  induction s as [|x t IH]; cbn [es_find map]; [intros _ []|].
  destruct (N.eqb_spec (e_key x) k) as [E|E]; [discriminate|].
  intros H [F|F]; [contradiction|]. exact (IH H F).
Qed.

Lemma find_in s k : In k (map e_key s) -> exists e, es_find s k = Some e.
Proof.
  intros H. destruct (es_find s k) eqn:E; [eauto|]. exfalso. exact (find_none _ _ E H).
Qed.

(* under the invariant, get is exactly "the value stored under k" *)
Lemma get_spec s k : wf s ->
  es_get s k = match es_find s k with Some e => Some (e_val e) | None => None end.
Proof.
  intros [_ Ht]. unfold es_get. destruct (es_find s k) as [e|] eqn:E; [|reflexivity].
  destruct (find_some _ _ _ E) as [Hin Hk]. rewrite Forall_forall in Ht.
  rewrite (Ht e Hin), Hk, N.eqb_refl. reflexivity.
Qed.

Lemma find_app s1 s2 k :
  es_find (s1 ++ s2) k = match es_find s1 k with Some e => Some e | None => es_find s2 k end.
Proof.
  induction s1 as [|x t IH]; cbn [es_find app]; [reflexivity|].
  destruct (e_key x =? k); [reflexivity|exact IH].
Qed.

Lemma find_update s k v k' :
  es_find (map (fun e' => if e_key e' =? k then Entry k k v else e') s) k' =
  if k' =? k then match es_find s k with Some _ => Some (Entry k k v) | None => None end
  else es_find s k'.
Proof.
  induction s as [|x t IH]; cbn [es_find map].
  - destruct (k' =? k); reflexivity.
  - destruct (N.eqb_spec (e_key x) k) as [E|E].
    + cbn [e_key]. destruct (N.eqb_spec k k') as [F|F].
      * subst k'. rewrite N.eqb_refl. reflexivity.
      * rewrite IH. destruct (N.eqb_spec k' k) as [G|G]; [congruence|].
        destruct (N.eqb_spec (e_key x) k') as [H|H]; [congruence|reflexivity].
    + destruct (N.eqb_spec (e_key x) k') as [H|H].
      * destruct (N.eqb_spec k' k) as [G|G]; [congruence|reflexivity].
      * rewrite IH. reflexivity.
Qed.

Lemma keys_update s k v :
  map e_key (map (fun e' => if e_key e' =? k then Entry k k v else e') s) = map e_key s.
Proof.
  induction s as [|x t IH]; [reflexivity|]. cbn [map]. rewrite IH. f_equal.
  destruct (N.eqb_spec (e_key x) k); [cbn; lia|reflexivity].
Qed.

Lemma wf_update s k v : wf s -> wf (map (fun e' => if e_key e' =? k then Entry k k v else e') s).
Proof.
  intros [Hn Ht]. split; [rewrite keys_update; exact Hn|].
  apply Forall_forall. intros e He. apply in_map_iff in He. destruct He as (x & <- & Hx).
  destruct (e_key x =? k); [reflexivity|]. rewrite Forall_forall in Ht. exact (Ht x Hx).
Qed.

Lemma NoDup_app_snoc (l : list N) (x : N) : NoDup l -> ~ In x l -> NoDup (l ++ [x]).
Proof.
  induction l as [|y t IH]; intros Hn Hx; cbn [app].
  - constructor; [intros []|constructor].
  - inversion Hn as [|? ? Hy Hn']; subst. constructor.
    + intros H. apply in_app_or in H. destruct H as [H|[H|[]]]; [contradiction|].
      subst. apply Hx. left. reflexivity.
    + apply IH; [exact Hn'|]. intros H. apply Hx. right. exact H.
Qed.

Lemma wf_snoc s k v : wf s -> es_find s k = None -> wf (s ++ [Entry k k v]).
Proof.
  intros [Hn Ht] Hf. split.
  - rewrite map_app. cbn [map e_key]. apply NoDup_app_snoc; [exact Hn|]. exact (find_none _ _ Hf).
  - apply Forall_app. split; [exact Ht|]. constructor; [reflexivity|constructor].
Qed.

Lemma find_drop s k k' :
  es_find (es_drop s k) k' = if k' =? k then None else es_find s k'.
Proof.
  unfold es_drop. induction s as [|x t IH]; cbn [es_find filter].
  - destruct (k' =? k); reflexivity.
  - destruct (N.eqb_spec (e_key x) k) as [E|E]; cbn [negb].
    + rewrite IH. destruct (N.eqb_spec k' k) as [F|F]; [reflexivity|].
      replace (e_key x =? k') with false by lia. reflexivity.
    + cbn [es_find]. destruct (N.eqb_spec (e_key x) k') as [G|G].
      * replace (k' =? k) with false by lia. reflexivity.
      * exact IH.
Qed.

Lemma wf_drop s k : wf s -> wf (es_drop s k).
Proof.
  intros [Hn Ht]. unfold es_drop. split.
  - clear Ht. induction s as [|x t IH]; cbn [filter map]; [constructor|].
    inversion Hn as [|? ? Hx Hn']; subst.
    destruct (negb (e_key x =? k)); [|exact (IH Hn')].
    cbn [map]. constructor; [|exact (IH Hn')].
    intros H. apply Hx. apply in_map_iff in H. destruct H as (y & Hy & Hin).
    apply filter_In in Hin. apply in_map_iff. exists y. tauto.
  - apply Forall_forall. intros e He. apply filter_In in He. rewrite Forall_forall in Ht. apply Ht. tauto.
Qed.

(* ------------------------------------------------------------------ *)
(* refinement: every operation on a well-formed set returns what the abstract map returns,
   never panics, and leaves a well-formed set whose abstraction is the abstract result *)

Definition same (m1 m2 : amap) : Prop := forall k, m1 k = m2 k.

Lemma abs_spec s k : wf s ->
  abs s k = match es_find s k with Some e => Some (e_val e) | None => None end.
Proof. apply get_spec. Qed.

Lemma tag_ok s k e : wf s -> es_find s k = Some e -> e_tag e =? k = true.
Proof.
  intros [_ Ht] E. destruct (find_some _ _ _ E) as [Hin Hk]. rewrite Forall_forall in Ht.
  rewrite (Ht e Hin), Hk. apply N.eqb_refl.
Qed.

Theorem insert_refines s k v : wf s ->
  exists s', es_insert s k v = inr (s', abs s k) /\ wf s' /\ same (abs s') (a_insert (abs s) k v).
Proof.
  intros W. unfold es_insert. rewrite (abs_spec s k W).
  destruct (es_find s k) as [e|] eqn:E.
  - rewrite (tag_ok _ _ _ W E).
    eexists. split; [reflexivity|]. split; [apply wf_update; exact W|].
    intros k'. unfold a_insert. rewrite (abs_spec _ k') by (apply wf_update; exact W).
    rewrite find_update, E, (abs_spec s k' W). destruct (k' =? k); reflexivity.
  - eexists. split; [reflexivity|]. split; [apply wf_snoc; assumption|].
    intros k'. unfold a_insert. rewrite (abs_spec _ k') by (apply wf_snoc; assumption).
    rewrite find_app, (abs_spec s k' W). cbn [es_find e_key].
    destruct (N.eqb_spec k' k) as [F|F].
    + subst. rewrite E, N.eqb_refl. reflexivity.
    + destruct (es_find s k'); [reflexivity|].
      destruct (N.eqb_spec k k'); [congruence|reflexivity].
Qed.

Theorem get_or_insert_refines s k v : wf s ->
  match abs s k with
  | Some x => es_get_or_insert s k v = inr (s, x)
  | None => exists s', es_get_or_insert s k v = inr (s', v) /\ wf s' /\ same (abs s') (a_insert (abs s) k v)
  end.
Proof.
  intros W. unfold es_get_or_insert. rewrite (abs_spec s k W).
  destruct (es_find s k) as [e|] eqn:E.
  - rewrite (tag_ok _ _ _ W E). reflexivity.
  - eexists. split; [reflexivity|]. split; [apply wf_snoc; assumption|].
    intros k'. unfold a_insert. rewrite (abs_spec _ k') by (apply wf_snoc; assumption).
    rewrite find_app, (abs_spec s k' W). cbn [es_find e_key].
    destruct (N.eqb_spec k' k) as [F|F].
    + subst. rewrite E, N.eqb_refl. reflexivity.
    + destruct (es_find s k'); [reflexivity|].
      destruct (N.eqb_spec k k'); [congruence|reflexivity].
Qed.

Theorem set_refines s k v : wf s ->
  let '(s', old) := es_set s k v in
  old = abs s k /\ wf s' /\
  same (abs s') (match abs s k with Some _ => a_insert (abs s) k v | None => abs s end).
Proof.
  intros W. unfold es_set. change (es_get s k) with (abs s k).
  destruct (abs s k) as [x|] eqn:A.
  - split; [reflexivity|]. split; [apply wf_update; exact W|].
    intros k'. unfold a_insert. rewrite (abs_spec _ k') by (apply wf_update; exact W).
    rewrite find_update, (abs_spec s k' W). rewrite (abs_spec s k W) in A.
    destruct (es_find s k); [|discriminate]. destruct (k' =? k); reflexivity.
  - split; [reflexivity|]. split; [exact W|]. intros k'. reflexivity.
Qed.

Theorem remove_refines s k : wf s ->
  exists s', es_remove s k = inr (s', abs s k) /\ wf s' /\ same (abs s') (a_remove (abs s) k).
Proof.
  intros W. unfold es_remove. rewrite (abs_spec s k W).
  destruct (es_find s k) as [e|] eqn:E.
  - rewrite (tag_ok _ _ _ W E).
    eexists. split; [reflexivity|]. split; [apply wf_drop; exact W|].
    intros k'. unfold a_remove. rewrite (abs_spec _ k') by (apply wf_drop; exact W).
    rewrite find_drop, (abs_spec s k' W). destruct (k' =? k); reflexivity.
  - eexists. split; [reflexivity|]. split; [exact W|].
    intros k'. unfold a_remove. rewrite (abs_spec s k' W).
    destruct (N.eqb_spec k' k) as [F|F]; [subst; rewrite E|]; reflexivity.
Qed.

Theorem clear_refines s : wf (es_clear s) /\ same (abs (es_clear s)) a_empty.
Proof. split; [apply wf_new|intros k; reflexivity]. Qed.

Theorem contains_refines s k : wf s ->
  es_contains s k = match abs s k with Some _ => true | None => false end.
Proof.
  intros W. unfold es_contains. rewrite (abs_spec s k W). destruct (es_find s k); reflexivity.
Qed.

(* len = number of types that hold a value: the key list is duplicate free and lists exactly them *)
Theorem len_refines s : wf s ->
  es_len s = len (map e_key s) /\ NoDup (map e_key s) /\
  forall k, In k (map e_key s) <-> abs s k <> None.
Proof.
  intros W. split; [reflexivity|]. split; [exact (proj1 W)|].
  intros k. rewrite (abs_spec s k W). split.
  - intros H. destruct (find_in _ _ H) as [e ->]. discriminate.
  - intros H. destruct (es_find s k) as [e|] eqn:E; [|contradiction].
    destruct (find_some _ _ _ E) as [Hin <-]. apply in_map. exact Hin.
Qed.

(* ------------------------------------------------------------------ *)
(* any sequence of operations: the invariant holds in every reachable state and no
   operation ever panics (every downcast succeeds) *)
Inductive op := OInsert (k v : N) | OGetOrInsert (k v : N) | OSet (k v : N) | ORemove (k : N) | OClear.

Definition step (s : eset) (o : op) : res eset :=
  match o with
  | OInsert k v => do r <- es_insert s k v; ret (fst r)
  | OGetOrInsert k v => do r <- es_get_or_insert s k v; ret (fst r)
  | OSet k v => ret (fst (es_set s k v))
  | ORemove k => do r <- es_remove s k; ret (fst r)
  | OClear => ret (es_clear s)
  end.

Fixpoint run (s : eset) (ops : list op) : res eset :=
  match ops with [] => ret s | o :: t => do s' <- step s o; run s' t end.

Lemma step_ok s o : wf s -> exists s', step s o = inr s' /\ wf s'.
Proof.
  intros W. destruct o as [k v|k v|k v|k|]; cbn [step].
  - destruct (insert_refines s k v W) as (s' & -> & W' & _). eexists; split; [reflexivity|exact W'].
  - pose proof (get_or_insert_refines s k v W) as H. destruct (abs s k).
    + rewrite H. eexists; split; [reflexivity|exact W].
    + destruct H as (s' & -> & W' & _). eexists; split; [reflexivity|exact W'].
  - pose proof (set_refines s k v W) as H. destruct (es_set s k v) as [s' old].
    eexists; split; [reflexivity|tauto].
  - destruct (remove_refines s k W) as (s' & -> & W' & _). eexists; split; [reflexivity|exact W'].
  - eexists; split; [reflexivity|apply wf_new].
Qed.

Theorem run_never_panics ops : forall s, wf s -> exists s', run s ops = inr s' /\ wf s'.
Proof.
  induction ops as [|o t IH]; intros s W; cbn [run].
  - eexists; split; [reflexivity|exact W].
  - destruct (step_ok s o W) as (s1 & -> & W1). cbn [bind]. apply IH, W1.
Qed.
