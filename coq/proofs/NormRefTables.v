(* Table facts for C13 (finite sweep over the generated Unicode tables).
   Facts about the Unicode tables are established by a finite sweep over the GENERATED tables
   (coq/gen/Tables.v, dumped from the implementation): a change of the tables that invalidates
   them breaks these proofs. *)
From MdIt Require Import Prims Tables NormRef Block.
From Coq Require Import Lia.
Local Open Scope list_scope.
Local Open Scope N_scope.

Arguments N.eqb : simpl never.

(* per-character composite  upper . lower *)
Definition n1 (c : N) : list N := flat_map upper_cp (lower_cp c).
Definition n1s (l : list N) : list N := flat_map n1 l.

Lemma normalize_cps_eq l : normalize_cps l = n1s (collapse_ws (trim_cps l) false).
Proof.
  unfold normalize_cps, n1s, n1. induction (collapse_ws (trim_cps l) false) as [|c t IH]; [reflexivity|].
  cbn [flat_map]. rewrite flat_map_app, IH. reflexivity.
Qed.

(* ---- table sweep ---- *)
Definition keys : list N := map fst lower_table ++ map fst upper_table.
Definition images (c : N) : list N := n1 c ++ lower_cp c ++ upper_cp c.
Definition domain : list N := keys ++ flat_map images keys.

Lemma assoc_none c t : ~ In c (map fst t) -> assoc_cp c t = None.
Proof.
  induction t as [|[k v] r IH]; [reflexivity|]. cbn [map fst In assoc_cp]. intros H.
  destruct (N.eqb_spec k c); [exfalso; apply H; left; assumption|]. apply IH. intros G. apply H. right. exact G.
Qed.

Lemma not_key_id c : ~ In c keys -> lower_cp c = [c] /\ upper_cp c = [c].
Proof.
  unfold keys, lower_cp, upper_cp. intros H. rewrite !assoc_none; [split; reflexivity| |];
    intros G; apply H; apply in_or_app; auto.
Qed.

(* what the sweep establishes for one character *)
Definition char_ok (c : N) : bool :=
  (* every character of the normal form is a fixed point, is not whitespace, and the form is not empty *)
  forallb (fun d => list_eqb (n1 d) [d] && negb (is_ws_cp d)) (n1 c) && negb (match n1 c with [] => true | _ => false end)
  (* case variants have the same normal form *)
  && list_eqb (n1s (lower_cp c)) (n1 c) && list_eqb (n1s (upper_cp c)) (n1 c)
  (* characters with case mappings are not whitespace *)
  && negb (is_ws_cp c).

Lemma sweep : forallb char_ok domain = true.
Proof. vm_compute. reflexivity. Qed.

Lemma space_plain : n1 32 = [32] /\ forallb (fun c => list_eqb (n1 c) [c]) ws_table = true.
Proof. split; vm_compute; reflexivity. Qed.

