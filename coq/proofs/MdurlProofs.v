(* Proofs about src/common/mdurl/encode.rs as modelled in model/Mdurl.v  (property C17) *)
From Coq Require Import String.
From MdIt Require Import Prims Mdurl.
From Coq Require Import Lia ZifyBool ZifyN.
Local Open Scope list_scope.
Local Open Scope N_scope.

Arguments N.add : simpl never.
Arguments N.mul : simpl never.
Arguments N.div : simpl never.
Arguments N.modulo : simpl never.
Arguments N.leb : simpl never.
Arguments N.ltb : simpl never.
Arguments N.eqb : simpl never.
Arguments N.testbit : simpl never.

(* ---- finite sweep over bytes, lifted to all b < 256 ---- *)
Lemma byte_sweep (P : N -> bool) :
  forallb P (map N.of_nat (seq 0 256)) = true -> forall b, b < 256 -> P b = true.
Proof.
  intros H b Hb. rewrite forallb_forall in H. apply H.
  apply in_map_iff. exists (N.to_nat b). split; [apply N2Nat.id|].
  apply in_seq. lia.
Qed.

Definition bytes_ok (s : list N) : Prop := Forall (fun b => b < 256) s.

Lemma pct_shape b : pct b = [37; hex_digit_upper (b / 16); hex_digit_upper (b mod 16)].
Proof. reflexivity. Qed.

Lemma pct_hex_hi b : b < 256 -> is_hex (hex_digit_upper (b / 16)) = true.
Proof. revert b. apply byte_sweep. vm_compute. reflexivity. Qed.
Lemma pct_hex_lo b : b < 256 -> is_hex (hex_digit_upper (b mod 16)) = true.
Proof. revert b. apply byte_sweep. vm_compute. reflexivity. Qed.
Lemma pct_val b : b < 256 ->
  hex_val (hex_digit_upper (b / 16)) * 16 + hex_val (hex_digit_upper (b mod 16)) = b.
Proof.
  intros Hb. apply N.eqb_eq. revert b Hb. apply byte_sweep. vm_compute. reflexivity.
Qed.
Lemma pct_hi_ascii b : b < 256 -> hex_digit_upper (b / 16) < 128.
Proof. intros Hb. apply N.ltb_lt. revert b Hb. apply byte_sweep. vm_compute. reflexivity. Qed.
Lemma pct_lo_ascii b : b < 256 -> hex_digit_upper (b mod 16) < 128.
Proof. intros Hb. apply N.ltb_lt. revert b Hb. apply byte_sweep. vm_compute. reflexivity. Qed.
Lemma is_hex_ascii h : is_hex h = true -> h < 128.
Proof. unfold is_hex, is_digit, between. lia. Qed.
Lemma is_hex_not_pct h : is_hex h = true -> h <> 37.
Proof. unfold is_hex, is_digit, between. lia. Qed.

(* ---- induction principle following the recursion of encode ---- *)
Lemma enc_ind (P : list N -> Prop) :
  P [] ->
  (forall c t, P t -> (forall h1 h2 t', t = h1 :: h2 :: t' -> P t') -> P (c :: t)) ->
  forall s, P s.
Proof.
  intros Hnil Hcons s.
  assert (H : forall k, P (drop k s)); [|exact (H O)].
  induction s as [|c t IH]; intros k.
  - destruct k; exact Hnil.
  - destruct k as [|k]; [|exact (IH k)].
    cbn [drop]. apply Hcons; [exact (IH O)|].
    intros h1 h2 t' E. subst t. exact (IH 2%nat).
Qed.

(* one unfolding step of encode, in the three shapes it can take *)
Definition triplet (keep : bool) (c : N) (t : list N) : bool :=
  keep && (c =? 37) && starts_2hex t.

Lemma encode_triplet safe keep c h1 h2 t' :
  triplet keep c (h1 :: h2 :: t') = true ->
  encode safe keep (c :: h1 :: h2 :: t') = c :: h1 :: h2 :: encode safe keep t'.
Proof.
  unfold triplet. intros H. cbn [encode]. rewrite H. reflexivity.
Qed.

Lemma encode_plain safe keep c t :
  triplet keep c t = false ->
  encode safe keep (c :: t) = (if should_encode safe c then pct c else [c]) ++ encode safe keep t.
Proof.
  unfold triplet. intros H. cbn [encode]. rewrite H. reflexivity.
Qed.

Lemma triplet_inv keep c t :
  triplet keep c t = true ->
  keep = true /\ c = 37 /\ exists h1 h2 t', t = h1 :: h2 :: t' /\ is_hex h1 = true /\ is_hex h2 = true.
Proof.
  unfold triplet, starts_2hex. destruct keep; [|discriminate]. cbn [andb].
  destruct (N.eqb_spec c 37); [|discriminate]. cbn [andb].
  destruct t as [|h1 [|h2 t']]; try discriminate.
  intros H. apply andb_true_iff in H. destruct H.
  repeat split; try assumption. exists h1, h2, t'. auto.
Qed.

Lemma encode_cases safe keep c t :
  (exists h1 h2 t', keep = true /\ c = 37 /\ t = h1 :: h2 :: t' /\ is_hex h1 = true /\ is_hex h2 = true /\
      encode safe keep (c :: t) = 37 :: h1 :: h2 :: encode safe keep t')
  \/ (triplet keep c t = false /\ should_encode safe c = true /\
      encode safe keep (c :: t) = pct c ++ encode safe keep t)
  \/ (triplet keep c t = false /\ should_encode safe c = false /\
      encode safe keep (c :: t) = c :: encode safe keep t).
Proof.
  destruct (triplet keep c t) eqn:T.
  - left. pose proof T as T'. apply triplet_inv in T'.
    destruct T' as (-> & -> & h1 & h2 & t' & -> & H1 & H2).
    exists h1, h2, t'. repeat split; auto. apply encode_triplet. exact T.
  - right. rewrite (encode_plain _ _ _ _ T).
    destruct (should_encode safe c); [left|right]; auto.
Qed.

(* ------------------------------------------------------------------ *)
(* 1. pure ASCII                                                        *)

Theorem encode_ascii safe keep s :
  bytes_ok s -> Forall (fun b => b < 128) (encode safe keep s).
Proof.
  induction s as [|c t IHt IHt'] using enc_ind; intros Hs.
  - constructor.
  - inversion Hs as [|? ? Hc Ht]; subst.
    destruct (encode_cases safe keep c t)
      as [(h1 & h2 & t' & _ & -> & -> & H1 & H2 & ->)|[(_ & _ & ->)|(_ & E & ->)]].
    + inversion Ht as [|? ? _ Ht2]; subst. inversion Ht2 as [|? ? _ Ht3]; subst.
      repeat constructor; auto using is_hex_ascii; try lia.
      apply (IHt' h1 h2 t' eq_refl Ht3).
    + rewrite pct_shape. cbn [app].
      repeat constructor; auto using pct_hi_ascii, pct_lo_ascii; try lia.
    + constructor; auto.
      unfold should_encode in E. lia.
Qed.

(* ------------------------------------------------------------------ *)
(* 2. output grammar: safe bytes and well-formed %XX triplets only      *)

Inductive wf_enc (safe : aset) : list N -> Prop :=
| wf_nil : wf_enc safe []
| wf_safe c t : c < 128 -> aset_has safe c = true -> wf_enc safe t -> wf_enc safe (c :: t)
| wf_pct h1 h2 t : is_hex h1 = true -> is_hex h2 = true -> wf_enc safe t ->
                   wf_enc safe (37 :: h1 :: h2 :: t).

Theorem encode_grammar safe keep s :
  bytes_ok s -> wf_enc safe (encode safe keep s).
Proof.
  induction s as [|c t IHt IHt'] using enc_ind; intros Hs.
  - constructor.
  - inversion Hs as [|? ? Hc Ht]; subst.
    destruct (encode_cases safe keep c t)
      as [(h1 & h2 & t' & _ & -> & -> & H1 & H2 & ->)|[(_ & _ & ->)|(_ & E & ->)]].
    + inversion Ht as [|? ? _ Ht2]; subst. inversion Ht2 as [|? ? _ Ht3]; subst.
      apply wf_pct; auto. apply (IHt' h1 h2 t' eq_refl Ht3).
    + rewrite pct_shape. cbn [app]. apply wf_pct; auto using pct_hex_hi, pct_hex_lo.
    + unfold should_encode in E. apply wf_safe; auto; lia.
Qed.

Lemma enc_grammar_sound safe l : enc_grammar safe l = true -> wf_enc safe l.
Proof.
  induction l as [|c t IHt IHt'] using enc_ind; intros H.
  - constructor.
  - cbn [enc_grammar] in H.
    destruct ((c <? 128) && aset_has safe c) eqn:E.
    + apply wf_safe; auto; lia.
    + destruct (N.eqb_spec c 37); [|discriminate]. subst c.
      destruct t as [|h1 [|h2 t']]; try discriminate.
      apply andb_true_iff in H. destruct H as [H H3].
      apply andb_true_iff in H. destruct H as [H1 H2].
      apply wf_pct; auto. apply (IHt' h1 h2 t' eq_refl H3).
Qed.

(* ------------------------------------------------------------------ *)
(* 3/4. keep_escaped = true: idempotent, every valid %XX preserved       *)

Lemma triplet_true_iff c t : triplet true c t = (c =? 37) && starts_2hex t.
Proof. unfold triplet. cbn [andb]. reflexivity. Qed.

(* the first byte of a non-empty encoding *)
Lemma encode_head safe keep c t :
  exists x r, encode safe keep (c :: t) = x :: r /\ (x = 37 \/ (x = c /\ should_encode safe c = false)).
Proof.
  destruct (encode_cases safe keep c t)
    as [(h1 & h2 & t' & _ & -> & -> & H1 & H2 & ->)|[(_ & _ & ->)|(_ & E & ->)]].
  - eexists _, _. split; [reflexivity|]. left; reflexivity.
  - rewrite pct_shape. cbn [app]. eexists _, _. split; [reflexivity|]. left; reflexivity.
  - eexists _, _. split; [reflexivity|]. right; auto.
Qed.

(* if the input does not start with two hex digits, neither does its encoding *)
Lemma encode_no_2hex safe keep t :
  starts_2hex t = false -> starts_2hex (encode safe keep t) = false.
Proof.
  intros H.
  destruct t as [|x t1]; [reflexivity|].
  destruct (encode_cases safe keep x t1)
    as [(h1 & h2 & t' & _ & -> & -> & H1 & H2 & ->)|[(_ & _ & ->)|(_ & E & ->)]].
  - reflexivity.
  - rewrite pct_shape. reflexivity.
  - (* x kept as is *)
    destruct t1 as [|y t2].
    + reflexivity.
    + destruct (encode_head safe keep y t2) as (z & r & -> & Hz).
      cbn [starts_2hex] in *.
      destruct Hz as [->|[-> _]].
      * apply andb_false_iff. right. reflexivity.
      * exact H.
Qed.

Theorem encode_idempotent safe s :
  bytes_ok s -> encode safe true (encode safe true s) = encode safe true s.
Proof.
  induction s as [|c t IHt IHt'] using enc_ind; intros Hs.
  - reflexivity.
  - inversion Hs as [|? ? Hc Ht]; subst.
    destruct (encode_cases safe true c t)
      as [(h1 & h2 & t' & _ & -> & -> & H1 & H2 & ->)|[(T & _ & ->)|(T & E & ->)]].
    + inversion Ht as [|? ? _ Ht2]; subst. inversion Ht2 as [|? ? _ Ht3]; subst.
      rewrite encode_triplet by (unfold triplet, starts_2hex; cbn [andb]; rewrite H1, H2; reflexivity).
      f_equal. f_equal. f_equal. apply (IHt' h1 h2 t' eq_refl Ht3).
    + rewrite pct_shape. cbn [app].
      rewrite encode_triplet
        by (unfold triplet, starts_2hex; cbn [andb]; rewrite pct_hex_hi, pct_hex_lo by assumption; reflexivity).
      f_equal. f_equal. f_equal. apply IHt, Ht.
    + assert (T2 : triplet true c (encode safe true t) = false).
      { rewrite triplet_true_iff in *. apply andb_false_iff in T. apply andb_false_iff.
        destruct T as [T|T]; [left; exact T|right; apply encode_no_2hex; exact T]. }
      rewrite (encode_plain _ _ _ _ T2). rewrite E. cbn [app]. f_equal. apply IHt, Ht.
Qed.

(* one step of pct_dec *)
Lemma pct_dec_triplet h1 h2 t :
  is_hex h1 = true -> is_hex h2 = true ->
  pct_dec (37 :: h1 :: h2 :: t) = (hex_val h1 * 16 + hex_val h2) :: pct_dec t.
Proof. intros H1 H2. cbn [pct_dec]. rewrite H1, H2. reflexivity. Qed.

Lemma pct_dec_plain c t :
  (c =? 37) && starts_2hex t = false -> pct_dec (c :: t) = c :: pct_dec t.
Proof.
  intros H. cbn [pct_dec]. destruct t as [|h1 [|h2 t']]; try reflexivity.
  unfold starts_2hex in H. rewrite <- andb_assoc. rewrite H. reflexivity.
Qed.

Theorem encode_keeps_escapes safe s :
  bytes_ok s -> pct_dec (encode safe true s) = pct_dec s.
Proof.
  induction s as [|c t IHt IHt'] using enc_ind; intros Hs.
  - reflexivity.
  - inversion Hs as [|? ? Hc Ht]; subst.
    destruct (encode_cases safe true c t)
      as [(h1 & h2 & t' & _ & -> & -> & H1 & H2 & ->)|[(T & _ & ->)|(T & E & ->)]].
    + inversion Ht as [|? ? _ Ht2]; subst. inversion Ht2 as [|? ? _ Ht3]; subst.
      rewrite !pct_dec_triplet by assumption. f_equal. apply (IHt' h1 h2 t' eq_refl Ht3).
    + rewrite pct_shape. cbn [app].
      rewrite pct_dec_triplet by auto using pct_hex_hi, pct_hex_lo.
      rewrite pct_val by assumption.
      rewrite triplet_true_iff in T. rewrite (pct_dec_plain _ _ T). f_equal. apply IHt, Ht.
    + rewrite triplet_true_iff in T.
      rewrite (pct_dec_plain _ _ T).
      rewrite pct_dec_plain.
      * f_equal. apply IHt, Ht.
      * apply andb_false_iff in T. apply andb_false_iff.
        destruct T as [T|T]; [left; exact T|right; apply encode_no_2hex; exact T].
Qed.

(* ------------------------------------------------------------------ *)
(* 5. keep_escaped = false and '%' not safe: decoding returns the input *)

Theorem encode_roundtrip safe s :
  bytes_ok s -> aset_has safe 37 = false -> pct_dec (encode safe false s) = s.
Proof.
  intros Hs Hp. induction s as [|c t IHt].
  - reflexivity.
  - inversion Hs as [|? ? Hc Ht]; subst.
    rewrite encode_plain by reflexivity.
    destruct (should_encode safe c) eqn:E.
    + rewrite pct_shape. cbn [app].
      rewrite pct_dec_triplet by auto using pct_hex_hi, pct_hex_lo.
      rewrite pct_val by assumption. f_equal. apply IHt, Ht.
    + cbn [app]. rewrite pct_dec_plain.
      * f_equal. apply IHt, Ht.
      * apply andb_false_iff. left.
        unfold should_encode in E. destruct (N.eqb_spec c 37); [|reflexivity].
        subst c. rewrite Hp in E. cbn in E. lia.
Qed.

(* ------------------------------------------------------------------ *)
(* normalize_link: side condition on the safe set used by C04           *)
(* every byte of a normalised link is a safe ASCII byte or part of %XX  *)
Corollary normalize_link_grammar s : bytes_ok s -> wf_enc normalize_safe (normalize_link s).
Proof. apply encode_grammar. Qed.
