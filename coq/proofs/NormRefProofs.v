(* Proofs about utils::normalize_reference and the reference map (property C13).
   Facts about the Unicode tables are established by a finite sweep over the GENERATED tables
   (coq/gen/Tables.v, dumped from the implementation): a change of the tables that invalidates
   them breaks these proofs. *)
From MdIt Require Import Prims Tables NormRef Block.
From Coq Require Import Lia.
Local Open Scope list_scope.
Local Open Scope N_scope.

Arguments N.eqb : simpl never.

From MdIt Require Import NormRefTables.
Arguments is_ws_cp : simpl never.

Lemma list_eqb_eq a b : list_eqb a b = true -> a = b.
Proof.
  revert b; induction a as [|x a IH]; intros [|y b]; cbn [list_eqb]; try discriminate; [reflexivity|].
  intros H. apply andb_true_iff in H. destruct H as [H1 H2]. apply N.eqb_eq in H1. subst. f_equal. apply IH. exact H2.
Qed.

Lemma in_dec_N (c : N) l : {In c l} + {~ In c l}.
Proof. apply in_dec. apply N.eq_dec. Qed.

Lemma char_ok_all c : is_ws_cp c = false -> char_ok c = true.
Proof.
  intros Hws. destruct (in_dec_N c keys) as [Hk|Hk].
  - pose proof sweep as S. rewrite forallb_forall in S. apply S. unfold domain. apply in_or_app. left. exact Hk.
  - destruct (not_key_id c Hk) as [L U]. unfold char_ok, n1s, n1. rewrite L, U. cbn [flat_map]. rewrite U, app_nil_r.
    cbn [forallb flat_map]. rewrite L. cbn [flat_map]. rewrite U, app_nil_r.
    cbn [app list_eqb]. rewrite !N.eqb_refl, ?Hws. reflexivity.
Qed.

Lemma ws_plain c : is_ws_cp c = true -> n1 c = [c].
Proof.
  intros H. destruct space_plain as [_ S]. rewrite forallb_forall in S. apply list_eqb_eq. apply S.
  unfold is_ws_cp in H. clear S. induction ws_table as [|x t IH]; [discriminate|].
  cbn [mem] in H. destruct (N.eqb_spec c x); [left; auto|right; apply IH; exact H].
Qed.

(* consequences, for every character *)
Lemma n1_fixed c : forall d, In d (n1 c) -> n1 d = [d].
Proof.
  intros d Hd. destruct (is_ws_cp c) eqn:W.
  - rewrite (ws_plain c W) in Hd. destruct Hd as [<-|[]]. apply ws_plain. exact W.
  - pose proof (char_ok_all c W) as H. unfold char_ok in H. repeat (apply andb_true_iff in H; destruct H as [H ?]).
    rewrite forallb_forall in H. specialize (H d Hd). apply andb_true_iff in H. destruct H as [H _]. apply list_eqb_eq. exact H.
Qed.

Lemma n1s_idem l : n1s (n1s l) = n1s l.
Proof.
  unfold n1s. induction l as [|c t IH]; [reflexivity|]. cbn [flat_map]. rewrite flat_map_app, IH. f_equal.
  assert (G : forall x, (forall d, In d x -> n1 d = [d]) -> flat_map n1 x = x).
  { induction x as [|a x IHx]; [reflexivity|]. intros Hx. cbn [flat_map]. rewrite (Hx a (or_introl eq_refl)). cbn [app]. f_equal.
    apply IHx. intros d Hd. apply Hx. right. exact Hd. }
  apply G. apply n1_fixed.
Qed.

Lemma n1_nonws c : is_ws_cp c = false -> forallb (fun d => negb (is_ws_cp d)) (n1 c) = true /\ n1 c <> [].
Proof.
  intros W. pose proof (char_ok_all c W) as H. unfold char_ok in H. repeat (apply andb_true_iff in H; destruct H as [H ?]).
  split.
  - apply forallb_forall. intros d Hd. rewrite forallb_forall in H. specialize (H d Hd).
    apply andb_true_iff in H. tauto.
  - intros E. rewrite E in *. discriminate.
Qed.

(* case variants of a character have the same normal form *)
Theorem n1_lower c : n1s (lower_cp c) = n1 c.
Proof.
  destruct (is_ws_cp c) eqn:W.
  - destruct (in_dec_N c keys) as [Hk|Hk].
    + exfalso. pose proof sweep as S. rewrite forallb_forall in S.
      assert (Hin : In c domain) by (unfold domain; apply in_or_app; left; exact Hk).
      specialize (S c Hin). unfold char_ok in S. repeat (apply andb_true_iff in S; destruct S as [S ?]).
      rewrite W in *. discriminate.
    + destruct (not_key_id c Hk) as [-> _]. unfold n1s. cbn [flat_map]. apply app_nil_r.
  - pose proof (char_ok_all c W) as H. unfold char_ok in H. repeat (apply andb_true_iff in H; destruct H as [H ?]).
    apply list_eqb_eq. assumption.
Qed.

Theorem n1_upper c : n1s (upper_cp c) = n1 c.
Proof.
  destruct (is_ws_cp c) eqn:W.
  - destruct (in_dec_N c keys) as [Hk|Hk].
    + exfalso. pose proof sweep as S. rewrite forallb_forall in S.
      assert (Hin : In c domain) by (unfold domain; apply in_or_app; left; exact Hk).
      specialize (S c Hin). unfold char_ok in S. repeat (apply andb_true_iff in S; destruct S as [S ?]).
      rewrite W in *. discriminate.
    + destruct (not_key_id c Hk) as [_ ->]. unfold n1s. cbn [flat_map]. apply app_nil_r.
  - pose proof (char_ok_all c W) as H. unfold char_ok in H. repeat (apply andb_true_iff in H; destruct H as [H ?]).
    apply list_eqb_eq. assumption.
Qed.

(* ---- the reference map: first definition wins (reference.rs:250-261, HashMap::entry().or_insert_with) ---- *)
Lemma list_eqb_refl a : list_eqb a a = true.
Proof. induction a as [|x a IH]; [reflexivity|]. cbn [list_eqb]. rewrite N.eqb_refl, IH. reflexivity. Qed.

Lemma list_eqb_spec a b : list_eqb a b = true <-> a = b.
Proof. split; [apply list_eqb_eq|intros ->; apply list_eqb_refl]. Qed.

Lemma ref_get_app m1 m2 k :
  ref_get (m1 ++ m2) k = match ref_get m1 k with Some e => Some e | None => ref_get m2 k end.
Proof.
  induction m1 as [|[a e] t IH]; [reflexivity|]. cbn [app ref_get]. destruct (list_eqb a k); [reflexivity|exact IH].
Qed.

Theorem ref_insert_first_spec m k e k' :
  ref_get (ref_insert_first m k e) k' =
  match ref_get m k' with
  | Some x => Some x
  | None => if list_eqb k k' then Some e else None
  end.
Proof.
  unfold ref_insert_first. destruct (ref_get m k) as [x|] eqn:E.
  - destruct (ref_get m k') as [y|] eqn:E'; [reflexivity|].
    destruct (list_eqb k k') eqn:Q; [|reflexivity]. apply list_eqb_eq in Q. subst. congruence.
  - rewrite ref_get_app. cbn [ref_get]. destruct (ref_get m k'); reflexivity.
Qed.

(* inserting a list of definitions in document order: a key resolves to its first definition *)
Fixpoint first_def (defs : list (str * refentry)) (k : str) : option refentry :=
  match defs with
  | [] => None
  | (a, e) :: t => if list_eqb a k then Some e else first_def t k
  end.

Theorem first_definition_wins defs : forall m k,
  ref_get (fold_left (fun m (d : str * refentry) => ref_insert_first m (fst d) (snd d)) defs m) k =
  match ref_get m k with Some x => Some x | None => first_def defs k end.
Proof.
  induction defs as [|[a e] t IH]; intros m k; cbn [fold_left first_def fst snd].
  - destruct (ref_get m k); reflexivity.
  - rewrite IH, ref_insert_first_spec. destruct (ref_get m k); [reflexivity|].
    destruct (list_eqb a k); reflexivity.
Qed.

(* ------------------------------------------------------------------ *)
(* normal form of the whitespace handling and idempotence               *)

Definition W (l : list N) : list N := collapse_ws (trim_cps l) false.

(* words of non-whitespace characters separated by single spaces; no leading or trailing space *)
Fixpoint nf_from (prev_space : bool) (l : list N) : bool :=
  match l with
  | [] => negb prev_space
  | c :: t => if c =? 32 then negb prev_space && nf_from true t
              else negb (is_ws_cp c) && nf_from false t
  end.
Definition nf (l : list N) : bool := match l with [] => true | _ => nf_from true l end.

Lemma ws32 : is_ws_cp 32 = true.
Proof. vm_compute. reflexivity. Qed.

Lemma drop_ws_head l : match drop_ws l with c :: _ => is_ws_cp c = false | [] => True end.
Proof. induction l as [|c t IH]; cbn [drop_ws]; [exact I|]. destruct (is_ws_cp c) eqn:E; [exact IH|exact E]. Qed.

Lemma drop_ws_suffix l : exists pre, l = pre ++ drop_ws l /\ forallb is_ws_cp pre = true.
Proof.
  induction l as [|c t IH]; [exists []; split; reflexivity|]. cbn [drop_ws]. destruct (is_ws_cp c) eqn:E.
  - destruct IH as (pre & H1 & H2). exists (c :: pre). split; [cbn [app]; f_equal; exact H1|cbn [forallb]; rewrite E; exact H2].
  - exists []. split; reflexivity.
Qed.

(* last element of a list *)
Definition last_ok (l : list N) : Prop := match rev l with c :: _ => is_ws_cp c = false | [] => True end.
Definition head_ok (l : list N) : Prop := match l with c :: _ => is_ws_cp c = false | [] => True end.

Lemma trim_ends l : head_ok (trim_cps l) /\ last_ok (trim_cps l).
Proof.
  unfold trim_cps, last_ok, head_ok. rewrite rev_involutive. split; [|apply drop_ws_head].
  (* the head of rev (drop_ws (rev (drop_ws l))) is the head of drop_ws l unless everything was dropped *)
  pose proof (drop_ws_head l) as H. set (x := drop_ws l) in *.
  destruct (drop_ws_suffix (rev x)) as (pre & E & Hp).
  destruct x as [|c t]; [reflexivity|].
  assert (Ex : c :: t = rev (drop_ws (rev (c :: t))) ++ rev pre).
  { rewrite <- rev_app_distr, <- E, rev_involutive. reflexivity. }
  destruct (rev (drop_ws (rev (c :: t)))) as [|d r] eqn:D.
  - exact I.
  - cbn [app] in Ex. injection Ex as -> _. exact H.
Qed.

Lemma last_ok_tail c t : last_ok (c :: t) -> t <> [] -> last_ok t.
Proof.
  unfold last_ok. cbn [rev]. intros H Hn. destruct (rev t) as [|d r] eqn:E.
  - exfalso. apply Hn. apply (f_equal (@rev N)) in E. rewrite rev_involutive in E. exact E.
  - exact H.
Qed.

Lemma collapse_nf_from l : forall b,
  last_ok l -> (l = [] -> b = false) -> nf_from b (collapse_ws l b) = true.
Proof.
  induction l as [|c t IH]; intros b Hl He.
  - cbn. rewrite (He eq_refl). reflexivity.
  - cbn [collapse_ws]. destruct (is_ws_cp c) eqn:Wc.
    + assert (Ht : t <> []) by (intros ->; unfold last_ok in Hl; cbn [rev app] in Hl; congruence).
      assert (G : nf_from true (collapse_ws t true) = true).
      { apply IH; [apply (last_ok_tail c); assumption|intros E; contradiction]. }
      destruct b; [exact G|]. cbn [nf_from]. change (32 =? 32) with true. cbn [negb andb]. exact G.
    + cbn [nf_from]. destruct (N.eqb_spec c 32) as [->|_]; [rewrite ws32 in Wc; discriminate|].
      rewrite Wc. cbn [negb andb]. apply IH; [|reflexivity].
      destruct t as [|d t']; [exact I|]. apply (last_ok_tail c); [exact Hl|discriminate].
Qed.

Lemma nf_from_head b c t : c <> 32 -> nf_from b (c :: t) = nf_from false (c :: t).
Proof. intros H. cbn [nf_from]. destruct (N.eqb_spec c 32); [contradiction|reflexivity]. Qed.

Theorem W_nf l : nf (W l) = true.
Proof.
  unfold W. destruct (trim_ends l) as [Hh Hl]. destruct (trim_cps l) as [|c t] eqn:E; [reflexivity|].
  cbn [head_ok] in Hh. pose proof (collapse_nf_from (c :: t) false Hl ltac:(discriminate)) as G.
  cbn [collapse_ws] in *. rewrite Hh in *. unfold nf.
  rewrite nf_from_head; [exact G|]. intros ->. rewrite ws32 in Hh. discriminate.
Qed.

Lemma nf_from_collapse x : forall b, nf_from b x = true -> collapse_ws x b = x.
Proof.
  induction x as [|c t IH]; intros b H; [reflexivity|]. cbn [nf_from collapse_ws] in *.
  destruct (N.eqb_spec c 32) as [->|Hc].
  - rewrite ws32. destruct b; [discriminate|]. cbn [negb andb] in H. f_equal. apply IH. exact H.
  - apply andb_true_iff in H. destruct H as [H1 H2]. destruct (is_ws_cp c); [discriminate|]. f_equal. apply IH. exact H2.
Qed.

Lemma nf_from_last x : forall b, nf_from b x = true -> x <> [] -> last_ok x.
Proof.
  induction x as [|c t IH]; intros b H Hn; [contradiction|].
  destruct t as [|d t'].
  - unfold last_ok. cbn [rev app]. cbn [nf_from] in H. destruct (N.eqb_spec c 32) as [->|_].
    + apply andb_true_iff in H. destruct H as [_ H]. discriminate.
    + apply andb_true_iff in H. destruct H as [H _]. destruct (is_ws_cp c); [discriminate|reflexivity].
  - assert (G : last_ok (d :: t')).
    { cbn [nf_from] in H. destruct (c =? 32); apply andb_true_iff in H; destruct H as [_ H]; exact (IH _ H ltac:(discriminate)). }
    unfold last_ok in *. cbn [rev] in *. destruct (rev t' ++ [d]) eqn:E; [destruct (rev t'); discriminate|]. exact G.
Qed.

Lemma drop_ws_id x : head_ok x -> drop_ws x = x.
Proof. destruct x as [|c t]; [reflexivity|]. cbn [head_ok drop_ws]. intros ->. reflexivity. Qed.

Theorem nf_W x : nf x = true -> W x = x.
Proof.
  unfold nf, W. destruct x as [|c t]; [reflexivity|]. intros H.
  assert (Hc : c <> 32) by (intros ->; cbn [nf_from] in H; change (32 =? 32) with true in H; discriminate).
  assert (Hh : head_ok (c :: t)).
  { cbn [head_ok]. cbn [nf_from] in H. destruct (N.eqb_spec c 32); [contradiction|]. apply andb_true_iff in H. destruct H as [H _].
    destruct (is_ws_cp c); [discriminate|reflexivity]. }
  pose proof (nf_from_last _ _ H ltac:(discriminate)) as Hl.
  assert (T : trim_cps (c :: t) = c :: t).
  { unfold trim_cps. rewrite (drop_ws_id _ Hh). rewrite drop_ws_id; [apply rev_involutive|]. exact Hl. }
  rewrite T. apply nf_from_collapse. rewrite <- (nf_from_head true); assumption.
Qed.

Lemma nf_from_nonws_prefix ds r b :
  ds <> [] -> forallb (fun d => negb (is_ws_cp d)) ds = true -> nf_from b (ds ++ r) = nf_from false r.
Proof.
  revert b. induction ds as [|d t IH]; intros b Hn H; [contradiction|]. cbn [forallb] in H.
  apply andb_true_iff in H. destruct H as [Hd Ht]. cbn [app nf_from].
  destruct (N.eqb_spec d 32) as [->|_]; [rewrite ws32 in Hd; discriminate|]. rewrite Hd. cbn [andb].
  destruct t as [|e t']; [reflexivity|]. apply IH; [discriminate|exact Ht].
Qed.

Lemma n1s_nf_from x : forall b, nf_from b x = true -> nf_from b (n1s x) = true.
Proof.
  induction x as [|c t IH]; intros b H; [exact H|]. unfold n1s. cbn [flat_map]. fold (n1s t).
  cbn [nf_from] in H. destruct (N.eqb_spec c 32) as [->|Hc].
  - destruct space_plain as [-> _]. cbn [app nf_from]. change (32 =? 32) with true.
    apply andb_true_iff in H. destruct H as [H1 H2]. rewrite H1. cbn [andb]. apply IH. exact H2.
  - apply andb_true_iff in H. destruct H as [H1 H2].
    assert (Wc : is_ws_cp c = false) by (destruct (is_ws_cp c); [discriminate|reflexivity]).
    destruct (n1_nonws c Wc) as [A B]. rewrite nf_from_nonws_prefix by assumption. apply IH. exact H2.
Qed.

Lemma n1s_nf x : nf x = true -> nf (n1s x) = true.
Proof.
  unfold nf. destruct x as [|c t]; [reflexivity|]. intros H. pose proof (n1s_nf_from _ _ H) as G.
  destruct (n1s (c :: t)); [reflexivity|exact G].
Qed.

(* normalising twice is normalising once (definitions normalise the label twice, look-ups once) *)
Theorem normalize_idempotent l : normalize_cps (normalize_cps l) = normalize_cps l.
Proof.
  rewrite !normalize_cps_eq. fold (W l). fold (W (n1s (W l))).
  rewrite (nf_W (n1s (W l))) by (apply n1s_nf, W_nf). apply n1s_idem.
Qed.

(* whole-label lower- or upper-casing does not change the key (labels without whitespace) *)
Lemma W_nows l : forallb (fun c => negb (is_ws_cp c)) l = true -> W l = l.
Proof.
  intros H. apply nf_W. unfold nf. destruct l as [|c t]; [reflexivity|].
  assert (G : forall x b, x <> [] -> forallb (fun c => negb (is_ws_cp c)) x = true -> nf_from b x = true).
  { induction x as [|d r IHr]; intros b Hn Hx; [contradiction|]. cbn [forallb] in Hx. apply andb_true_iff in Hx. destruct Hx as [Hd Hr].
    cbn [nf_from]. destruct (N.eqb_spec d 32) as [->|_]; [rewrite ws32 in Hd; discriminate|]. rewrite Hd. cbn [andb].
    destruct r as [|e r']; [reflexivity|]. apply IHr; [discriminate|exact Hr]. }
  apply G; [discriminate|exact H].
Qed.

(* every White_Space character is equivalent to a space; runs collapse *)
Definition ws_to_space (c : N) : N := if is_ws_cp c then 32 else c.

Lemma ws_to_space_ws c : is_ws_cp (ws_to_space c) = is_ws_cp c.
Proof. unfold ws_to_space. destruct (is_ws_cp c) eqn:E; [apply ws32|exact E]. Qed.

Lemma drop_ws_map l : drop_ws (map ws_to_space l) = map ws_to_space (drop_ws l).
Proof.
  induction l as [|c t IH]; [reflexivity|]. cbn [map drop_ws]. rewrite ws_to_space_ws.
  destruct (is_ws_cp c); [exact IH|reflexivity].
Qed.

Lemma trim_map l : trim_cps (map ws_to_space l) = map ws_to_space (trim_cps l).
Proof. unfold trim_cps. rewrite drop_ws_map, <- map_rev, drop_ws_map, <- map_rev. reflexivity. Qed.

Lemma collapse_map l : forall b, collapse_ws (map ws_to_space l) b = collapse_ws l b.
Proof.
  induction l as [|c t IH]; intros b; [reflexivity|]. cbn [map collapse_ws]. rewrite ws_to_space_ws.
  destruct (is_ws_cp c) eqn:E.
  - destruct b; rewrite IH; reflexivity.
  - unfold ws_to_space. rewrite E, IH. reflexivity.
Qed.

Theorem whitespace_kind_irrelevant l : normalize_cps (map ws_to_space l) = normalize_cps l.
Proof. rewrite !normalize_cps_eq, trim_map, collapse_map. reflexivity. Qed.

Theorem W_idempotent l : W (W l) = W l.
Proof. apply nf_W, W_nf. Qed.
