(* Whole parser: MarkdownIt::parse never loops for ever and never exhausts the recursion budget
   2 * max_nesting + 10 (properties C01, C02), for every parser configuration, every cache state
   and every input. *)
From Coq Require Import String.
From MdIt Require Import Prims Tables Escape NormRef Indent Mdurl SourceMap Ruler Tree Render Block Inline Core.
From MdIt Require Import RulerRefine BlockProofs InlineProofs TreeProofs.
From Coq Require Import Lia ZifyBool ZifyN ZifyNat.
Local Open Scope list_scope.
Local Open Scope N_scope.

Lemma compile_benign ds : benign (compile ds).
Proof. rewrite compile_spec. destruct (requires_ok ds); [|exact I]. destruct (greedy_rank ds); exact I. Qed.

Lemma r_force_benign r : (forall c, compiled r = Some c -> True) -> benign (snd (r_force r)).
Proof.
  intros _. unfold r_force. destruct (compiled r); [exact I|].
  pose proof (compile_benign (deps r)) as H. destruct (compile (deps r)) as [e|x]; cbn [snd]; [exact H|exact I].
Qed.

Lemma r_iter_benign r : benign (snd (r_iter r)).
Proof.
  unfold r_iter. pose proof (r_force_benign r (fun _ _ => I)) as H. destruct (r_force r) as [r' c]. cbn [snd] in *.
  destruct c as [e|x]; cbn; [exact H|exact I].
Qed.

Section Walk.
Variable fuel : nat.
Variable cfg : icfg.
Variable refs : refmap.
Hypothesis Hfuel : (N.to_nat (ic_maxnest cfg) + 1 < fuel)%nat.

Lemma inline_walk_benign n : benign (inline_walk fuel cfg refs n).
Proof.
  induction n as [k m a e cs IH] using node_ind'. cbn [inline_walk].
  apply benign_bind; [|intros; exact I].
  induction cs as [|c t IHt]; [exact I|].
  assert (IHc : benign (inline_walk fuel cfg refs c)) by (inversion IH; assumption).
  assert (IHt' : benign ((fix go (l : list node) : res (list node) :=
               match l with
               | [] => ret []
               | c :: t =>
                 match n_kind c with
                 | KInlineRoot content mapping =>
                   do root' <- inline_parse fuel cfg content mapping
                                 (Node (KInlineRoot [] []) (n_map c) (n_attrs c) (n_env c) []) refs;
                   do rest <- go t;
                   ret (n_children root' ++ rest)
                 | _ => do c' <- inline_walk fuel cfg refs c; do rest <- go t; ret (c' :: rest)
                 end
               end) t)) by (apply IHt; inversion IH; assumption).
  destruct (n_kind c); try (apply benign_bind; [exact IHc|intros; apply benign_bind; [exact IHt'|intros; exact I]]).
  apply benign_bind; [apply inline_parse_terminates; exact Hfuel|]. intros. apply benign_bind; [exact IHt'|intros; exact I].
Qed.
End Walk.

Lemma core_step_benign fuel bcf icf src st rule :
  (N.to_nat (bc_maxnest bcf) < fuel)%nat -> (N.to_nat (ic_maxnest icf) + 1 < fuel)%nat ->
  benign st -> benign (core_step fuel bcf icf src st rule).
Proof.
  intros Hb Hi Hs. unfold core_step. apply benign_bind; [exact Hs|]. intros [[root refs] starts] _.
  repeat match goal with |- benign (if ?c then _ else _) => destruct c end; try exact I.
  - apply benign_bind; [apply block_parse_terminates; exact Hb|intros; exact I].
  - apply benign_bind; [apply inline_walk_benign; exact Hi|intros; exact I].
Qed.

Lemma core_fold_benign fuel bcf icf src chain : forall st,
  (N.to_nat (bc_maxnest bcf) < fuel)%nat -> (N.to_nat (ic_maxnest icf) + 1 < fuel)%nat ->
  benign st -> benign (fold_left (core_step fuel bcf icf src) chain st).
Proof.
  induction chain as [|r t IH]; intros st Hb Hi Hs; [exact Hs|]. cbn [fold_left].
  apply IH; auto. apply core_step_benign; auto.
Qed.

(* for every parser object (any rules in any order, any constraints, cyclic or not, any cache
   state), every nesting limit and every source text: parsing returns a document or panics; it
   never hangs and never needs more than 2 * max_nesting + 10 nested tokenizer calls *)
Theorem parse_terminates m src : benign (snd (parse (default_fuel m) m src)).
Proof.
  unfold parse.
  pose proof (r_iter_benign (md_core m)) as Hc. destruct (r_iter (md_core m)) as [rc cc].
  pose proof (r_iter_benign (md_block m)) as Hb. destruct (r_iter (md_block m)) as [rb bc].
  pose proof (r_iter_benign (md_inline m)) as Hi. destruct (r_iter (md_inline m)) as [ri ic].
  cbn [snd] in *.
  apply benign_bind; [exact Hc|]. intros ccv _. apply benign_bind; [exact Hb|]. intros bcv _.
  apply benign_bind; [exact Hi|]. intros icv _. cbv zeta.
  apply benign_bind; [|intros [[root' x] starts] _; exact I].
  apply core_fold_benign; cbn [bc_maxnest ic_maxnest]; unfold default_fuel; try lia. exact I.
Qed.

(* rendering has no loop that could hang and no recursion budget: only panics (an unrenderable node kind,
   a heading level outside 1..6) remain possible *)
Lemma render_events_benign n : benign (render_events n).
Proof.
  induction n as [k m a e cs IH] using node_ind'. cbn [render_events]. cbv zeta.
  assert (Hc : benign ((fix go (l : list node) : res (list Render.event) :=
       match l with
       | [] => ret []
       | c :: t => do a <- render_events c; do b <- go t; ret (a ++ b)
       end) cs)).
  { induction cs as [|c t IHt]; [exact I|]. inversion IH as [|? ? Hc Ht]; subst.
    apply benign_bind; [exact Hc|]. intros. apply benign_bind; [apply IHt; exact Ht|intros; exact I]. }
  unfold heading_tag, setext_tag. destruct k; bn.
Qed.

Theorem render_benign xhtml n : benign (render xhtml n).
Proof. unfold render. apply benign_bind; [apply render_events_benign|intros; exact I]. Qed.

(* recursion budgets (C02) *)
Theorem block_recursion_bounded cfg fuel st :
  (N.to_nat (bc_maxnest cfg + 1 - b_level st) <= fuel)%nat -> (b_level st <= bc_maxnest cfg) ->
  btokenize fuel cfg st <> inl OutOfFuel.
Proof.
  intros Hf Hl E. pose proof (btokenize_spec cfg fuel st) as H. rewrite E in H. cbn in H.
  apply Bool.andb_false_iff in H. destruct H as [H|H]; [apply N.leb_gt in H|apply N.leb_gt in H]; lia.
Qed.

Theorem inline_recursion_bounded cfg fuel st : cache_ok st ->
  (N.to_nat (ic_maxnest cfg + 2 - i_level st) <= fuel)%nat -> (i_level st <= ic_maxnest cfg) ->
  itokenize fuel cfg st <> inl OutOfFuel.
Proof.
  intros Hc Hf Hl E. pose proof (proj1 (itokenize_iskip_spec cfg fuel) st Hc) as H. rewrite E in H. cbn in H.
  unfold fcondT in H. apply Bool.andb_false_iff in H. destruct H as [H|H]; [apply N.leb_gt in H|apply N.leb_gt in H]; lia.
Qed.

Theorem parse_recursion_bounded m src : snd (parse (default_fuel m) m src) <> inl OutOfFuel.
Proof. intros E. pose proof (parse_terminates m src) as H. rewrite E in H. exact H. Qed.
