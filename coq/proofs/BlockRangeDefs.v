(* Property C05, block level -- definitions: a block node's range has two ends that are positions inside the line texts,
   start before end; the lines of a child lie within the lines of its parent; siblings occupy strictly increasing,
   disjoint line ranges.  Positions are symbolic (line, offset in line); the line texts never change while containers
   rewrite the rest of the line records.  The theorems are in BlockSafeProofs (same invariant as the no-panic proof). *)
From Coq Require Import String.
From MdIt Require Import Prims Tables Escape NormRef Indent Mdurl LinkParse Tree HtmlRe Block.
From Coq Require Import Lia ZifyBool ZifyN ZifyNat.
Local Open Scope list_scope.
Local Open Scope N_scope.

Arguments N.eqb : simpl never.
Arguments N.leb : simpl never.
Arguments N.ltb : simpl never.
Arguments N.add : simpl never.
Arguments N.sub : simpl never.
Arguments Z.leb : simpl never.
Arguments Z.ltb : simpl never.
Arguments Z.sub : simpl never.
Arguments Z.of_N : simpl never.

Definition txs (st : bstate) : list str := map l_text (b_lines st).

Definition pos_ok (tx : list str) (l : nat) (o : N) : Prop := exists t, nth_error tx l = Some t /\ o <= len t.

(* lower bound for the next sibling: the line after this node's last line *)
Definition next_lo (lo : nat) (c : node) : nat :=
  match n_map c with Some (_, SRel b _) => S b | _ => lo end.

(* blk_ok tx lo hi n: the range of n lies in lines [lo, hi), its ends are positions of the texts, and so for its children
   within its own lines, in increasing disjoint order.  Nodes without a range (the inline-content placeholders) are skipped. *)
Fixpoint blk_ok (tx : list str) (lo hi : nat) (n : node) : Prop :=
  let 'Node _ m _ _ cs := n in
  match m with
  | None => cs = []
  | Some (SRel a oa, SRel b ob) =>
    (lo <= a)%nat /\ (a <= b)%nat /\ (b < hi)%nat /\ pos_ok tx a oa /\ pos_ok tx b ob /\ (a = b -> oa <= ob) /\
    (fix kids (lo' : nat) (l : list node) : Prop :=
       match l with [] => True | c :: t => blk_ok tx lo' (S b) c /\ kids (next_lo lo' c) t end) a cs
  | _ => False
  end.

Fixpoint kids_ok (tx : list str) (lo hi : nat) (l : list node) : Prop :=
  match l with [] => True | c :: t => blk_ok tx lo hi c /\ kids_ok tx (next_lo lo c) hi t end.

Lemma blk_ok_unfold tx lo hi k m a e cs :
  blk_ok tx lo hi (Node k m a e cs) =
  match m with
  | None => cs = []
  | Some (SRel la oa, SRel lb ob) =>
    (lo <= la)%nat /\ (la <= lb)%nat /\ (lb < hi)%nat /\ pos_ok tx la oa /\ pos_ok tx lb ob /\ (la = lb -> oa <= ob) /\
    kids_ok tx la (S lb) cs
  | _ => False
  end.
Proof.
  cbn [blk_ok]. destruct m as [[[o1|la oa] [o2|lb ob]]|]; try reflexivity.
  f_equal. f_equal. f_equal. f_equal. f_equal. f_equal.
  generalize la. induction cs as [|c t IH]; intros lo'; [reflexivity|]. cbn [kids_ok]. f_equal. apply IH.
Qed.

Lemma blk_ok_weaken tx lo hi lo' hi' n : (lo' <= lo)%nat -> (hi <= hi')%nat -> blk_ok tx lo hi n -> blk_ok tx lo' hi' n.
Proof.
  destruct n as [k m a e cs]. rewrite !blk_ok_unfold. destruct m as [[[o1|la oa] [o2|lb ob]]|]; auto.
  intros H1 H2 (A & B & C & D). repeat split; try tauto; lia.
Qed.

Lemma next_lo_mono lo lo' c : (lo' <= lo)%nat -> (next_lo lo' c <= next_lo lo c)%nat.
Proof. unfold next_lo. destruct (n_map c) as [[p [o|b ob]]|]; lia. Qed.

Lemma kids_ok_weaken tx l : forall lo hi lo' hi', (lo' <= lo)%nat -> (hi <= hi')%nat -> kids_ok tx lo hi l -> kids_ok tx lo' hi' l.
Proof.
  induction l as [|c t IH]; intros lo hi lo' hi' H1 H2; cbn [kids_ok]; [auto|].
  intros [A B]. split; [eapply blk_ok_weaken; eauto|]. apply (IH (next_lo lo c) hi); [apply next_lo_mono; exact H1|exact H2|exact B].
Qed.

(* where the next sibling may start after a list of siblings *)
Fixpoint kids_end (lo : nat) (l : list node) : nat := match l with [] => lo | c :: t => kids_end (next_lo lo c) t end.

Lemma blk_ok_next_lo tx lo hi c : blk_ok tx lo hi c -> (lo <= hi)%nat -> (lo <= next_lo lo c <= hi)%nat.
Proof.
  destruct c as [k m a e cs]. rewrite blk_ok_unfold. unfold next_lo. cbn [n_map].
  destruct m as [[[o1|la oa] [o2|lb ob]]|]; try tauto; try lia.
Qed.

Lemma kids_end_bound tx l : forall lo hi, kids_ok tx lo hi l -> (lo <= hi)%nat -> (lo <= kids_end lo l <= hi)%nat.
Proof.
  induction l as [|c t IH]; intros lo hi H Hl; cbn [kids_end kids_ok] in *; [lia|].
  destruct H as [A B]. pose proof (blk_ok_next_lo _ _ _ _ A Hl). specialize (IH _ _ B ltac:(lia)). lia.
Qed.

Lemma kids_ok_app tx l1 : forall lo hi l2, kids_ok tx lo hi (l1 ++ l2) <-> kids_ok tx lo hi l1 /\ kids_ok tx (kids_end lo l1) hi l2.
Proof.
  induction l1 as [|c t IH]; intros lo hi l2; cbn [app kids_ok kids_end]; [tauto|]. rewrite IH. tauto.
Qed.

(* pushing a block that starts at the current line *)
Lemma kids_ok_push tx lo cur cur' cs c : (lo <= cur)%nat -> (cur <= cur')%nat ->
  kids_ok tx lo cur cs -> blk_ok tx cur cur' c -> kids_ok tx lo cur' (cs ++ [c]).
Proof.
  intros H1 H2 Hk Hc. apply kids_ok_app. split; [eapply kids_ok_weaken; [apply le_n|exact H2|exact Hk]|].
  cbn [kids_ok]. split; [|exact I]. pose proof (kids_end_bound _ _ _ _ Hk H1). eapply blk_ok_weaken; [|apply le_n|exact Hc]. lia.
Qed.
