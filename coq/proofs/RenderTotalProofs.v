(* Rendering a parsed document never panics (property C01), for every parser whose core chain runs the inline parser
   after the last block pass and the fragments-join pass after the last inline pass:
     - no Empty node, heading levels in range            (KindProofs, every configuration)
     - no inline-root placeholder left                   (NoRootProofs + the inline core rule replaces every one)
     - no emphasis marker left                           (FragProofs: fragments-join turns every one into text)
   and a tree with these three properties has a renderer for every node. *)
From Coq Require Import String.
From MdIt Require Import Prims Tables Escape NormRef Indent Mdurl SourceMap Ruler LinkParse Tree Render Block Inline Core Dispatch.
From MdIt Require Import TreeProofs FragProofs PairsProofs.
From MdIt Require KindProofs NoRootProofs PlaceProofs.
From Coq Require Import Lia ZifyBool ZifyN ZifyNat.
Local Open Scope list_scope.
Local Open Scope N_scope.

Arguments N.eqb : simpl never.
Arguments N.leb : simpl never.
Arguments N.ltb : simpl never.
Arguments N.add : simpl never.
Arguments N.sub : simpl never.

(* ------------------------------------------------------------------ *)
(* 0. "every node's kind satisfies P", generically                      *)

Fixpoint all_k (P : kind -> bool) (n : node) : bool :=
  let 'Node k _ _ _ cs := n in P k && forallb (all_k P) cs.
Definition all_l (P : kind -> bool) (cs : list node) : bool := forallb (all_k P) cs.

Section AllK.
Variable P : kind -> bool.

Lemma all_k_node k m a e cs : all_k P (Node k m a e cs) = P k && all_l P cs.
Proof. reflexivity. Qed.
Lemma all_k_split n : all_k P n = P (n_kind n) && all_l P (n_children n).
Proof. destruct n; reflexivity. Qed.
Lemma all_l_app a b : all_l P (a ++ b) = all_l P a && all_l P b.
Proof. apply forallb_app. Qed.
Lemma all_k_set_map n m : all_k P (set_map n m) = all_k P n.
Proof. destruct n; reflexivity. Qed.
Lemma all_k_set_kind n k : all_k P (set_kind n k) = P k && all_l P (n_children n).
Proof. destruct n; reflexivity. Qed.
Lemma all_k_set_children n cs : all_k P (set_children n cs) = P (n_kind n) && all_l P cs.
Proof. destruct n; reflexivity. Qed.
Lemma all_k_push n c : all_k P n = true -> all_k P c = true -> all_k P (push_child n c) = true.
Proof.
  intros Hn Hc. unfold push_child. rewrite all_k_set_children, all_l_app. rewrite all_k_split in Hn. apply andb_true_iff in Hn. destruct Hn as [-> ->].
  cbn [all_l forallb]. rewrite Hc. reflexivity.
Qed.
Lemma all_l_map (g : node -> node) cs : (forall c, In c cs -> all_k P c = true -> all_k P (g c) = true) -> all_l P cs = true -> all_l P (map g cs) = true.
Proof.
  induction cs as [|c t IH]; intros H Hc; [reflexivity|]. cbn [all_l forallb map] in *. apply andb_true_iff in Hc. destruct Hc as [H1 H2].
  rewrite (H c (or_introl eq_refl) H1). apply IH; [|exact H2]. intros x Hx. apply H. right. exact Hx.
Qed.
Lemma all_k_walk_mut g n : (forall x d, n_kind (g x d) = n_kind x) -> forall d, all_k P n = true -> all_k P (walk_mut g n d) = true.
Proof.
  intros Hg. induction n as [k m a e cs IH] using node_ind'. intros d Hr. rewrite all_k_node in Hr. apply andb_true_iff in Hr. destruct Hr as [Hk Hc].
  cbn [walk_mut]. rewrite all_k_set_children, Hg. cbn [n_kind]. rewrite Hk. apply all_l_map; [|exact Hc].
  intros c Hin H. rewrite Forall_forall in IH. apply IH; assumption.
Qed.

Hypothesis P_text : forall c, P (KText c) = true.

Lemma all_k_merge_text a x : all_k P a = true -> all_k P (merge_text a x) = true.
Proof.
  intros Ha. unfold merge_text. destruct (n_kind a); try exact Ha. destruct (n_kind x); try exact Ha.
  rewrite all_k_set_map, all_k_set_kind, P_text. rewrite all_k_split in Ha. apply andb_true_iff in Ha. apply Ha.
Qed.
Lemma all_l_fj_collapse l : forall acc, match acc with Some a => all_k P a = true | None => True end -> all_l P l = true ->
  all_l P (fj_collapse acc l) = true.
Proof.
  induction l as [|x t IH]; intros acc Ha Hl; cbn [fj_collapse].
  - destruct acc as [a|]; [destruct (text_nonempty a)|]; cbn [all_l forallb]; rewrite ?Ha; reflexivity.
  - cbn [all_l forallb] in Hl. apply andb_true_iff in Hl. destruct Hl as [Hx Ht]. destruct (is_text x).
    + apply IH; [|exact Ht]. destruct acc as [a|]; [apply all_k_merge_text; exact Ha|exact Hx].
    + rewrite all_l_app. cbn [all_l forallb]. rewrite Hx. fold (all_l P (fj_collapse None t)). rewrite (IH None I Ht), andb_true_r.
      destruct acc as [a|]; [destruct (text_nonempty a)|]; cbn [all_l forallb]; rewrite ?Ha; reflexivity.
Qed.
Lemma all_k_marker_to_text n : all_k P n = true -> all_k P (marker_to_text n) = true.
Proof.
  intros H. unfold marker_to_text. destruct (n_kind n); try exact H. rewrite all_k_set_kind, P_text. rewrite all_k_split in H. apply andb_true_iff in H. apply H.
Qed.
Lemma all_k_fj_walk n : all_k P n = true -> all_k P (fj_walk n) = true.
Proof.
  induction n as [k m a e cs IH] using node_ind'. intros Hr. rewrite all_k_node in Hr. apply andb_true_iff in Hr. destruct Hr as [Hk Hc].
  cbn [fj_walk]. unfold fragments_join. cbn [set_children n_children]. rewrite all_k_node, Hk. apply all_l_fj_collapse; [exact I|].
  rewrite map_map. apply all_l_map; [|exact Hc]. intros c Hin H. apply all_k_marker_to_text. rewrite Forall_forall in IH. apply IH; assumption.
Qed.
End AllK.

Lemma kinds_bridge n : KindProofs.raw_free n = all_k KindProofs.kind_ok n.
Proof.
  induction n as [k m a e cs IH] using node_ind'. cbn [KindProofs.raw_free all_k]. f_equal.
  induction IH as [|c t Hc _ IHt]; [reflexivity|]. cbn [forallb]. rewrite Hc, IHt. reflexivity.
Qed.
Lemma noroot_bridge_l cs : NoRootProofs.rfl cs = all_l NoRootProofs.kind_ok cs.
Proof.
  assert (B : forall n, NoRootProofs.raw_free n = all_k NoRootProofs.kind_ok n).
  { intros n. induction n as [k m a e l IH] using node_ind'. cbn [NoRootProofs.raw_free all_k]. f_equal.
    induction IH as [|c t Hc _ IHt]; [reflexivity|]. cbn [forallb]. rewrite Hc, IHt. reflexivity. }
  unfold NoRootProofs.rfl, all_l. induction cs as [|c t IH]; [reflexivity|]. cbn [forallb]. rewrite B, IH. reflexivity.
Qed.

(* ------------------------------------------------------------------ *)
(* 1. a tree of renderable nodes renders                                *)

Definition not_marker (k : kind) : bool := match k with KEmphMarker _ _ _ _ _ => false | _ => true end.
Notation NR := NoRootProofs.kind_ok.
Notation KO := KindProofs.kind_ok.

Theorem render_events_total n : all_k KO n = true -> all_k NR n = true -> all_k not_marker n = true ->
  exists es, render_events n = inr es.
Proof.
  induction n as [k m a e cs IH] using node_ind'. intros H1 H2 H3. rewrite all_k_node in H1, H2, H3.
  apply andb_true_iff in H1, H2, H3. destruct H1 as [K1 C1], H2 as [K2 C2], H3 as [K3 C3].
  cbn [render_events]. cbv zeta.
  assert (G : exists cs', (fix go (l : list node) : res (list event) :=
       match l with
       | [] => ret []
       | c :: t => do a <- render_events c; do b <- go t; ret (a ++ b)
       end) cs = inr cs').
  { clear K1 K2 K3. induction cs as [|c t IHt]; [eexists; reflexivity|].
    inversion IH as [|? ? IHc IHt']; subst. cbn [all_l forallb] in C1, C2, C3. apply andb_true_iff in C1, C2, C3.
    destruct C1 as [A1 B1], C2 as [A2 B2], C3 as [A3 B3].
    destruct (IHc A1 A2 A3) as [ec Ec]. destruct (IHt IHt' B1 B2 B3) as [et Et]. exists (ec ++ et).
    change (bind (render_events c) (fun a0 => bind ((fix go (l : list node) : res (list event) :=
       match l with
       | [] => ret []
       | c :: t => do a <- render_events c; do b <- go t; ret (a ++ b)
       end) t) (fun b => ret (a0 ++ b))) = inr (ec ++ et)).
    rewrite Ec. cbn [bind]. rewrite Et. reflexivity. }
  destruct G as [cs' G]. unfold heading_tag, setext_tag.
  destruct k; try discriminate K1; try discriminate K2; try discriminate K3; unfold KindProofs.kind_ok in K1;
    rewrite ?G, ?K1; cbn [bind ret]; eexists; reflexivity.
Qed.

(* ------------------------------------------------------------------ *)
(* 2. what the core chain leaves in the tree                            *)

Lemma fj_walk_kind n : n_kind (fj_walk n) = n_kind n.
Proof. destruct n; reflexivity. Qed.
Lemma walk_mut_kind g n d : (forall x d, n_kind (g x d) = n_kind x) -> n_kind (walk_mut g n d) = n_kind n.
Proof. intros Hg. destruct n as [k m a e cs]. cbn [walk_mut]. rewrite NoRootProofs.kind_set_children. apply Hg. Qed.

Lemma nomark_of_frag n : frag_ok n = true -> not_marker (n_kind n) = true -> all_k not_marker n = true.
Proof.
  induction n as [k m a e cs IH] using node_ind'. cbn [frag_ok n_kind]. intros H Hk. rewrite all_k_node, Hk. cbn [andb].
  rewrite !andb_true_iff in H. destruct H as [[[Hm _] _] Hf].
  induction IH as [|c t Hc _ IHt]; [reflexivity|]. cbn [all_l forallb] in *. apply andb_true_iff in Hm, Hf. destruct Hm as [Hm1 Hm2], Hf as [Hf1 Hf2].
  rewrite Hc; [exact (IHt Hm2 Hf2)|exact Hf1|]. unfold is_marker in Hm1. destruct (n_kind c); try reflexivity; discriminate Hm1.
Qed.

Lemma inline_walk_noroot fuel icf refs : NoRootProofs.pairs_ok icf = true ->
  forall n r, inline_walk fuel icf refs n = inr r -> n_kind r = n_kind n /\ all_l NR (n_children r) = true.
Proof.
  intros Hp n. induction n as [k m a e cs IH] using node_ind'. intros r. cbn [inline_walk].
  match goal with |- bind (?go cs) _ = _ -> _ => assert (G : forall cs', go cs = inr cs' -> all_l NR cs' = true) end.
  { induction cs as [|c t IHt]; intros cs'; [intros H; injection H as <-; reflexivity|].
    inversion IH as [|? ? IHc IHt']; subst. specialize (IHt IHt').
    destruct (n_kind c) eqn:Ek.
    all: try (destruct (inline_walk fuel icf refs c) as [|c'] eqn:Ec; cbn [bind]; [discriminate|];
              match goal with |- bind (?g ?tt) _ = _ -> _ => destruct (g tt) as [|rest] eqn:Er end; cbn [bind]; [discriminate|];
              intros H; injection H as <-; cbn [all_l forallb]; destruct (IHc c' eq_refl) as [Hk' Hc']; rewrite all_k_split, Hk', ?Ek, Hc';
              exact (IHt _ eq_refl)).
    destruct (inline_parse _ _ _ _ _ _) as [|root'] eqn:Ep; cbn [bind]; [discriminate|].
    match goal with |- bind (?g ?tt) _ = _ -> _ => destruct (g tt) as [|rest] eqn:Er end; cbn [bind]; [discriminate|].
    intros H; injection H as <-. eapply NoRootProofs.inline_parse_no_root in Ep; [|exact Hp].
    rewrite all_l_app, <- noroot_bridge_l, Ep. exact (IHt _ eq_refl). }
  match goal with |- bind ?X _ = _ -> _ => destruct X as [|cs'] eqn:E end; cbn [bind]; [discriminate|]. intros H. injection H as <-.
  split; [reflexivity|]. exact (G _ eq_refl).
Qed.

(* the text discipline established by fragments-join survives the passes that do not touch text *)
Definition shallow_ok (cs : list node) : bool :=
  forallb (fun c => negb (is_marker c)) cs && forallb text_nonempty cs && no_adjacent_text cs.
Lemma frag_ok_node k m a e cs : frag_ok (Node k m a e cs) = shallow_ok cs && forallb frag_ok cs.
Proof. reflexivity. Qed.

Lemma kinds_marker l : forall l', map n_kind l = map n_kind l' ->
  forallb (fun c => negb (is_marker c)) l = forallb (fun c => negb (is_marker c)) l'.
Proof.
  induction l as [|x t IH]; intros [|y u] H; try discriminate H; [reflexivity|]. cbn [map] in H. injection H as Hk Ht.
  cbn [forallb]. unfold is_marker at 1 3. rewrite Hk, (IH _ Ht). reflexivity.
Qed.
Lemma kinds_nonempty l : forall l', map n_kind l = map n_kind l' -> forallb text_nonempty l = forallb text_nonempty l'.
Proof.
  induction l as [|x t IH]; intros [|y u] H; try discriminate H; [reflexivity|]. cbn [map] in H. injection H as Hk Ht.
  cbn [forallb]. unfold text_nonempty at 1 3. rewrite Hk, (IH _ Ht). reflexivity.
Qed.
Lemma kinds_adjacent l : forall l' b, map n_kind l = map n_kind l' -> ok_from b l = ok_from b l'.
Proof.
  induction l as [|x t IH]; intros [|y u] b H; try discriminate H; [reflexivity|]. cbn [map] in H. injection H as Hk Ht.
  cbn [ok_from]. unfold is_text. rewrite Hk, (IH _ true Ht), (IH _ false Ht). reflexivity.
Qed.
Lemma shallow_ok_kinds l l' : map n_kind l = map n_kind l' -> shallow_ok l = shallow_ok l'.
Proof. intros H. unfold shallow_ok, no_adjacent_text. rewrite (kinds_marker _ _ H), (kinds_nonempty _ _ H), (kinds_adjacent _ _ false H). reflexivity. Qed.

Lemma frag_ok_walk_mut g : (forall x d, n_kind (g x d) = n_kind x) -> forall n d, frag_ok n = true -> frag_ok (walk_mut g n d) = true.
Proof.
  intros Hg n. induction n as [k m a e cs IH] using node_ind'. intros d. rewrite frag_ok_node. intros H. apply andb_true_iff in H. destruct H as [Hs Hc].
  cbn [walk_mut]. destruct (g (Node k m a e cs) d) as [k' m' a' e' cs']. cbn [set_children]. rewrite frag_ok_node. apply andb_true_iff. split.
  - rewrite <- Hs. apply shallow_ok_kinds. rewrite map_map. apply map_ext. intros c. apply walk_mut_kind. exact Hg.
  - apply forallb_forall. intros c' Hin. apply in_map_iff in Hin. destruct Hin as (c & <- & Hc'). rewrite Forall_forall in IH. apply IH; [exact Hc'|].
    rewrite forallb_forall in Hc. apply Hc. exact Hc'.
Qed.

Lemma ok_from_snoc l c : is_text c = false -> forall b, ok_from b (l ++ [c]) = ok_from b l.
Proof.
  intros Hc. induction l as [|x t IH]; intros b; cbn [app ok_from]; [rewrite Hc; reflexivity|]. rewrite !IH. reflexivity.
Qed.
Lemma frag_ok_push n c : frag_ok n = true -> frag_ok c = true -> is_text c = false -> is_marker c = false ->
  frag_ok (push_child n c) = true.
Proof.
  destruct n as [k m a e cs]. rewrite frag_ok_node. intros H Hc Ht Hm. apply andb_true_iff in H. destruct H as [Hs Hf].
  unfold push_child. cbn [n_children set_children]. rewrite frag_ok_node, forallb_app, Hf. cbn [forallb]. rewrite Hc. cbn [andb]. rewrite andb_true_r.
  unfold shallow_ok in *. rewrite !forallb_app. cbn [forallb]. rewrite Hm. cbn [negb]. rewrite !andb_true_r.
  unfold no_adjacent_text in *. rewrite ok_from_snoc by exact Ht.
  assert (Hn : text_nonempty c = true) by (unfold text_nonempty, is_text in *; destruct (n_kind c); try reflexivity; discriminate Ht).
  rewrite Hn, andb_true_r. exact Hs.
Qed.

(* the two things a later pass has to remove: (may hold an inline root, may hold an emphasis marker) *)
Definition flags := (bool * bool)%type.
Definition flag_step (f : flags) (rule : N) : flags :=
  if rule =? C_BLOCK then (true, true)
  else if rule =? C_INLINE then (false, true)
  else if rule =? C_FRAGJOIN then (fst f, false)
  else f.
Definition chain_renders (cc : list N) : bool :=
  let f := fold_left flag_step cc (false, false) in negb (fst f) && negb (snd f).

Definition inv (f : flags) (root : node) : Prop :=
  n_kind root = KRoot /\ (fst f = false -> all_k NR root = true) /\
  (snd f = false -> all_k not_marker root = true) /\ (snd f = false -> frag_ok root = true).

Lemma core_step_inv fuel bcf icf src st rule r f : NoRootProofs.pairs_ok icf = true ->
  (match st with inr x => inv f (fst (fst x)) | inl _ => True end) ->
  core_step fuel bcf icf src st rule = inr r -> inv (flag_step f rule) (fst (fst r)).
Proof.
  intros Hp Hs. unfold core_step, flag_step. destruct st as [|[[root refs] starts]]; cbn [bind]; [discriminate|]. cbn [fst] in Hs.
  destruct Hs as (Hk & Hr & Hm & Hg).
  destruct (rule =? C_BLOCK).
  { destruct (block_parse _ _ _ _ _) as [|rb] eqn:E; cbn [bind]; [discriminate|]. intros H. injection H as <-. cbn [fst].
    split; [rewrite NoRootProofs.kind_set_children; exact Hk|]. repeat split; discriminate. }
  destruct (rule =? C_INLINE).
  { destruct (inline_walk _ _ _ _) as [|r1] eqn:E; cbn [bind]; [discriminate|]. intros H. injection H as <-. cbn [fst snd].
    apply (inline_walk_noroot _ _ _ Hp) in E. destruct E as [E1 E2]. split; [congruence|]. split; [|split; discriminate].
    intros _. rewrite all_k_split, E1, Hk, E2. reflexivity. }
  destruct (rule =? C_FRAGJOIN).
  { intros H. injection H as <-. cbn [fst snd]. split; [rewrite fj_walk_kind; exact Hk|]. split.
    - intros Hf. apply all_k_fj_walk; [reflexivity|apply Hr; exact Hf].
    - split; intros _; [apply nomark_of_frag; [apply fj_walk_ok|rewrite fj_walk_kind, Hk; reflexivity]|apply fj_walk_ok]. }
  destruct (rule =? C_SOURCEPOS).
  { intros H. injection H as <-. cbn [fst]. split; [rewrite walk_mut_kind; [exact Hk|apply KindProofs.sourcepos_kind]|].
    split; [|split]; intros Hf; try (apply all_k_walk_mut; [apply KindProofs.sourcepos_kind|auto]).
    apply frag_ok_walk_mut; [apply KindProofs.sourcepos_kind|auto]. }
  destruct (rule =? C_CUSTOMCORE).
  { intros H. injection H as <-. cbn [fst]. split; [rewrite NoRootProofs.kind_push; exact Hk|].
    split; [|split]; intros Hf; try (apply all_k_push; [auto|reflexivity]).
    apply frag_ok_push; [auto|reflexivity|reflexivity|reflexivity]. }
  intros H. injection H as <-. cbn [fst]. exact (conj Hk (conj Hr (conj Hm Hg))).
Qed.

Lemma core_fold_inv fuel bcf icf src chain : NoRootProofs.pairs_ok icf = true ->
  forall st r f, (match st with inr x => inv f (fst (fst x)) | inl _ => True end) ->
  fold_left (core_step fuel bcf icf src) chain st = inr r -> inv (fold_left flag_step chain f) (fst (fst r)).
Proof.
  intros Hp. induction chain as [|c t IH]; intros st r f Hs H; cbn [fold_left] in *.
  - subst st. exact Hs.
  - eapply IH; [|exact H]. destruct (core_step fuel bcf icf src st c) as [|x] eqn:E; [exact I|]. eapply core_step_inv; eassumption.
Qed.

(* ------------------------------------------------------------------ *)
(* 3. parse, then render                                                *)

(* what a tree returned by such a parser contains, in every node of it *)
Definition final_tree (n : node) : Prop :=
  all_k KO n = true /\ all_k NR n = true /\ all_k not_marker n = true /\ frag_ok n = true /\ n_kind n = KRoot.

Theorem parse_final_tree fuel m src d cc :
  md_pairs_emph m = true -> snd (r_iter (md_core m)) = inr cc -> chain_renders cc = true ->
  snd (parse fuel m src) = inr d -> final_tree (d_root d).
Proof.
  intros Hp Hcc Hch Hd.
  pose proof (KindProofs.parse_kinds_ok fuel m src d (emph_kinds m Hp) Hd) as HK. rewrite kinds_bridge in HK.
  revert Hd. unfold parse.
  destruct (r_iter (md_core m)) as [rc cc0]. destruct (r_iter (md_block m)) as [rb bc0]. destruct (r_iter (md_inline m)) as [ri ic0].
  cbn [snd] in *. subst cc0. cbn [bind]. destruct bc0 as [|bc]; cbn [bind]; [discriminate|].
  destruct ic0 as [|ic]; cbn [bind]; [discriminate|]. cbv zeta.
  match goal with |- bind ?F _ = _ -> _ => destruct F as [|[[root' x] starts]] eqn:E end; cbn [bind]; [discriminate|].
  intros H. injection H as <-. cbn [d_root] in *.
  eapply (core_fold_inv _ _ _ _ _ (emph_noroot m ic _ Hp)) with (f := (false, false)) in E.
  2:{ cbn [fst]. split; [reflexivity|]. repeat split; intros _; reflexivity. }
  cbn [fst] in E. unfold chain_renders in Hch. cbv zeta in Hch. apply andb_true_iff in Hch. destruct Hch as [F1 F2].
  apply negb_true_iff in F1, F2. destruct E as (Hk & Hr & Hm & Hg).
  exact (conj HK (conj (Hr F1) (conj (Hm F2) (conj (Hg F2) Hk)))).
Qed.

Theorem parse_then_render fuel m src d cc xhtml :
  md_pairs_emph m = true -> snd (r_iter (md_core m)) = inr cc -> chain_renders cc = true ->
  snd (parse fuel m src) = inr d -> exists html, render xhtml (d_root d) = inr html.
Proof.
  intros Hp Hcc Hch Hd. destruct (parse_final_tree fuel m src d cc Hp Hcc Hch Hd) as (HK & Hr & Hm & _).
  destruct (render_events_total _ HK Hr Hm) as [es Ees].
  unfold render. rewrite Ees. cbn [bind]. eexists. reflexivity.
Qed.

(* ------------------------------------------------------------------ *)
(* 4. placement: every parser with the paragraph rule, any core chain   *)

Theorem parse_placed fuel m src d bc :
  md_pairs_emph m = true -> snd (r_iter (md_block m)) = inr bc -> In R_PARA bc ->
  snd (parse fuel m src) = inr d -> PlaceProofs.placed (d_root d) = true /\ n_kind (d_root d) = KRoot.
Proof.
  intros Hp Hbc Hpara. unfold parse.
  destruct (r_iter (md_core m)) as [rc cc0]. destruct (r_iter (md_block m)) as [rb bc0]. destruct (r_iter (md_inline m)) as [ri ic0].
  cbn [snd] in *. subst bc0. destruct cc0 as [|cc]; cbn [bind]; [discriminate|].
  destruct ic0 as [|ic]; cbn [bind]; [discriminate|]. cbv zeta.
  match goal with |- bind ?F _ = _ -> _ => destruct F as [|[[root' x] starts]] eqn:E end; cbn [bind]; [discriminate|].
  intros H. injection H as <-. cbn [d_root].
  eapply PlaceProofs.core_fold_placed in E; [exact E|exact Hpara|apply emph_inlkind; exact Hp|apply emph_inlarity; exact Hp|].
  cbn [fst]. split; reflexivity.
Qed.

(* placement among final kinds only: no placeholder as a child anywhere *)
Definition may_final (p c : kind) : bool := PlaceProofs.may p c && NR c && not_marker c.
Fixpoint placed_final (n : node) : bool :=
  let 'Node k _ _ _ cs := n in forallb (fun c => may_final k (n_kind c) && placed_final c) cs.

Lemma placed_final_of n : PlaceProofs.placed n = true -> all_k NR n = true -> all_k not_marker n = true -> placed_final n = true.
Proof.
  induction n as [k m a e cs IH] using node_ind'. rewrite PlaceProofs.placed_node, !all_k_node. intros Hp H1 H2.
  apply andb_true_iff in H1, H2. destruct H1 as [_ C1], H2 as [_ C2]. cbn [placed_final].
  apply forallb_forall. intros c Hc. rewrite Forall_forall in IH. unfold all_l in *. rewrite forallb_forall in Hp, C1, C2.
  specialize (Hp c Hc). apply andb_true_iff in Hp. destruct Hp as [Hm Hpc]. pose proof (C1 c Hc) as D1. pose proof (C2 c Hc) as D2.
  rewrite (IH c Hc Hpc D1 D2), andb_true_r. unfold may_final. rewrite Hm. rewrite all_k_split in D1, D2.
  apply andb_true_iff in D1, D2. destruct D1 as [-> _], D2 as [-> _]. reflexivity.
Qed.

(* the whole of C14 for one parser: shipped emphasis table, paragraph rule in the block chain, core chain in order *)
Theorem parse_well_formed fuel m src d bc cc :
  md_pairs_emph m = true -> snd (r_iter (md_block m)) = inr bc -> In R_PARA bc ->
  snd (r_iter (md_core m)) = inr cc -> chain_renders cc = true ->
  snd (parse fuel m src) = inr d ->
  n_kind (d_root d) = KRoot /\ placed_final (d_root d) = true /\ frag_ok (d_root d) = true /\ all_k KO (d_root d) = true.
Proof.
  intros Hp Hbc Hpara Hcc Hch Hd.
  destruct (parse_final_tree fuel m src d cc Hp Hcc Hch Hd) as (HK & Hr & Hm & Hf & Hk).
  destruct (parse_placed fuel m src d bc Hp Hbc Hpara Hd) as [Hpl _].
  repeat split; try assumption. apply placed_final_of; assumption.
Qed.
