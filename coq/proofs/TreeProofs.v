(* Proofs about src/parser/node.rs as modelled in model/Tree.v (property C20, traversal half; used by C18) *)
From MdIt Require Import Prims Tree.
From Coq Require Import Lia ZifyBool ZifyN ZifyNat FinFun.
Local Open Scope list_scope.
Local Open Scope N_scope.

Arguments N.add : simpl never.
Arguments N.of_nat : simpl never.

(* induction principle for the nested inductive type *)
Lemma node_ind' (P : node -> Prop) :
  (forall k m a e cs, Forall P cs -> P (Node k m a e cs)) -> forall n, P n.
Proof.
  intros H. fix IH 1. intros [k m a e cs]. apply H.
  induction cs as [|c t IHt]; constructor; [apply IH|exact IHt].
Qed.

(* ---- specification of "every node, once, in pre-order, with its true depth":
   nodes are addressed by child-index paths; pre-order is the order in which `paths` lists them *)
Fixpoint at_path (n : node) (p : list nat) : option node :=
  match p with
  | [] => Some n
  | i :: q => match nth_error (n_children n) i with Some c => at_path c q | None => None end
  end.

Fixpoint paths (n : node) : list (list nat) :=
  let 'Node _ _ _ _ cs := n in
  [] :: (fix go (i : nat) (l : list node) : list (list nat) :=
           match l with
           | [] => []
           | c :: t => map (cons i) (paths c) ++ go (S i) t
           end) 0%nat cs.

Fixpoint child_paths (i : nat) (l : list node) : list (list nat) :=
  match l with
  | [] => []
  | c :: t => map (cons i) (paths c) ++ child_paths (S i) t
  end.

Lemma paths_eq k m a e cs : paths (Node k m a e cs) = [] :: child_paths 0 cs.
Proof.
  cbn [paths]. f_equal.
Qed.

Lemma walk_eq k m a e cs d :
  walk (Node k m a e cs) d = (Node k m a e cs, d) :: flat_map (fun c => walk c (d + 1)) cs.
Proof. reflexivity. Qed.

(* the depth reported for the node at path p is d + |p| *)
Theorem walk_depths n : forall d,
  map snd (walk n d) = map (fun p => d + N.of_nat (length p)) (paths n).
Proof.
  induction n as [k m a e cs IH] using node_ind'. intros d.
  rewrite walk_eq, paths_eq. cbn [map snd length]. f_equal; [lia|].
  generalize 0%nat as i. induction cs as [|c t IHt]; intros i; cbn [flat_map child_paths map]; [reflexivity|].
  inversion IH as [|? ? Hc Ht]; subst.
  rewrite !map_app. f_equal.
  - rewrite Hc, map_map. apply map_ext. intros p. cbn [length]. lia.
  - apply IHt. exact Ht.
Qed.

(* the node visited at position j is the node addressed by the j-th path *)
Lemma at_path_child k m a e pre c t q :
  at_path (Node k m a e (pre ++ c :: t)) (length pre :: q) = at_path c q.
Proof.
  cbn [at_path n_children]. rewrite nth_error_app2 by lia.
  replace (length pre - length pre)%nat with 0%nat by lia. reflexivity.
Qed.

Theorem walk_nodes n : forall d,
  map Some (map fst (walk n d)) = map (at_path n) (paths n).
Proof.
  induction n as [k m a e cs IH] using node_ind'. intros d.
  rewrite walk_eq, paths_eq. cbn [map fst at_path]. f_equal.
  (* generalise over the children already passed *)
  assert (G : forall pre t, cs = pre ++ t ->
             map Some (map fst (flat_map (fun c => walk c (d + 1)) t)) =
             map (at_path (Node k m a e cs)) (child_paths (length pre) t)).
  { intros pre t. revert pre. induction t as [|c t IHt]; intros pre E; cbn [flat_map child_paths map]; [reflexivity|].
    rewrite !map_app. f_equal.
    - assert (Hc : forall d', map Some (map fst (walk c d')) = map (at_path c) (paths c)).
      { rewrite Forall_forall in IH. apply IH. rewrite E. apply in_or_app. right. left. reflexivity. }
      rewrite Hc, map_map. apply map_ext. intros q. rewrite E. symmetry. apply at_path_child.
    - replace (S (length pre)) with (length (pre ++ [c])) by (rewrite app_length; cbn; lia).
      apply IHt. rewrite <- app_assoc. exact E. }
  exact (G [] cs eq_refl).
Qed.

(* exactly one visit per node *)
Theorem walk_length n d : length (walk n d) = size n.
Proof.
  revert d. induction n as [k m a e cs IH] using node_ind'. intros d.
  rewrite walk_eq. cbn [length size]. f_equal.
  induction cs as [|c t IHt]; cbn [flat_map fold_right]; [reflexivity|].
  inversion IH as [|? ? Hc Ht]; subst. rewrite app_length, Hc, (IHt Ht). reflexivity.
Qed.

(* the listed paths are exactly the valid addresses ... *)
Lemma child_paths_in i l p :
  In p (child_paths i l) <-> exists j q c, p = (i + j)%nat :: q /\ nth_error l j = Some c /\ In q (paths c).
Proof.
  revert i. induction l as [|c t IH]; intros i; cbn [child_paths].
  - split; [intros []|]. intros (j & q & c & _ & H & _). destruct j; discriminate.
  - rewrite in_app_iff, in_map_iff, IH. split.
    + intros [(q & <- & Hq)|(j & q & c' & -> & Hn & Hq)].
      * exists 0%nat, q, c. split; [f_equal; lia|]. split; [reflexivity|exact Hq].
      * exists (S j), q, c'. split; [f_equal; lia|]. split; [exact Hn|exact Hq].
    + intros (j & q & c' & -> & Hn & Hq). destruct j as [|j].
      * left. cbn in Hn. injection Hn as <-. exists q. split; [f_equal; lia|exact Hq].
      * right. exists j, q, c'. split; [f_equal; lia|]. split; [exact Hn|exact Hq].
Qed.

Theorem paths_complete n : forall p, In p (paths n) <-> at_path n p <> None.
Proof.
  induction n as [k m a e cs IH] using node_ind'. intros p.
  rewrite paths_eq. cbn [In]. rewrite child_paths_in. split.
  - intros [<-|(j & q & c & -> & Hn & Hq)]; [discriminate|].
    cbn [at_path n_children Nat.add]. rewrite Hn.
    rewrite Forall_forall in IH. apply (IH c (nth_error_In _ _ Hn)). exact Hq.
  - destruct p as [|i q]; [left; reflexivity|]. intros H. right.
    cbn [at_path n_children] in H. destruct (nth_error cs i) as [c|] eqn:Hn; [|contradiction].
    exists i, q, c. split; [reflexivity|]. split; [exact Hn|].
    rewrite Forall_forall in IH. apply (IH c (nth_error_In _ _ Hn)). exact H.
Qed.

(* ... each listed once *)
Lemma child_paths_head i l p : In p (child_paths i l) -> exists j q, p = j :: q /\ (i <= j)%nat.
Proof.
  intros H. apply child_paths_in in H. destruct H as (j & q & c & -> & _). exists (i + j)%nat, q. split; [reflexivity|lia].
Qed.

Lemma NoDup_app_intro {A} (l1 l2 : list A) :
  NoDup l1 -> NoDup l2 -> (forall x, In x l1 -> In x l2 -> False) -> NoDup (l1 ++ l2).
Proof.
  induction l1 as [|a t IH]; intros H1 H2 Hd; cbn [app]; [exact H2|].
  inversion H1 as [|? ? Ha Ht]; subst. constructor.
  - intros H. apply in_app_or in H. destruct H as [H|H]; [contradiction|].
    exact (Hd a (or_introl eq_refl) H).
  - apply IH; [exact Ht|exact H2|]. intros x Hx. apply Hd. right. exact Hx.
Qed.

Theorem paths_nodup n : NoDup (paths n).
Proof.
  induction n as [k m a e cs IH] using node_ind'. rewrite paths_eq. constructor.
  - intros H. apply child_paths_head in H. destruct H as (j & q & E & _). discriminate.
  - generalize 0%nat as i. induction cs as [|c t IHt]; intros i; cbn [child_paths]; [constructor|].
    inversion IH as [|? ? Hc Ht]; subst.
    apply NoDup_app_intro.
    + apply FinFun.Injective_map_NoDup; [|exact Hc]. intros x y E. injection E. auto.
    + apply IHt. exact Ht.
    + intros p H1 H2. apply in_map_iff in H1. destruct H1 as (q & <- & _).
      apply child_paths_head in H2. destruct H2 as (j & q' & E & Hj). injection E as -> _. lia.
Qed.

(* replace (node.rs:96-99): the kind changes, children, range, attributes and environment stay *)
Theorem replace_spec n k :
  n_kind (replace n k) = k /\ n_children (replace n k) = n_children n /\
  n_map (replace n k) = n_map n /\ n_attrs (replace n k) = n_attrs n /\ n_env (replace n k) = n_env n.
Proof. destruct n. repeat split. Qed.

(* walk_mut visits the same positions whatever the callback does to a node: the shape is preserved *)
Lemma paths_set_children x l : paths (set_children x l) = [] :: child_paths 0 l.
Proof. destruct x. apply paths_eq. Qed.

Theorem walk_mut_paths f n : forall d, paths (walk_mut f n d) = paths n.
Proof.
  induction n as [k m a e cs IH] using node_ind'. intros d.
  cbn [walk_mut]. rewrite paths_set_children, paths_eq. f_equal.
  generalize 0%nat as i. induction cs as [|c t IHt]; intros i; cbn [map child_paths]; [reflexivity|].
  inversion IH as [|? ? Hc Ht]; subst. rewrite (Hc (d + 1)). f_equal. apply IHt. exact Ht.
Qed.
