(* Proofs about the lazily filled caches (OnceCell) of Ruler and InlineParser as modelled in
   model/Ruler.v and model/Core.v: parsing depends on the configuration only (C07, C08) *)
From Coq Require Import String.
From MdIt Require Import Prims Tables Ruler Tree Block Inline Core.
Local Open Scope string_scope.
Local Open Scope list_scope.
Local Open Scope N_scope.

(* ------------------------------------------------------------------ *)
(* Ruler                                                                *)

Definition vals_of (ds : list item) (idxs : list nat) : list N :=
  map (fun i => match nth_error ds i with Some d => value d | None => 0 end) idxs.

(* the cache is empty or holds what compile() returns for the current rule list *)
Definition coherent (r : ruler) : Prop :=
  compiled r = None \/
  exists idxs, compile (deps r) = inr idxs /\ compiled r = Some (idxs, vals_of (deps r) idxs).

Definition clear (r : ruler) : ruler := Ruler (deps r) None.

Lemma coherent_clear r : coherent (clear r).
Proof. left. reflexivity. Qed.

Lemma force_spec r : coherent r ->
  snd (r_force r) = snd (r_force (clear r)) /\ coherent (fst (r_force r)) /\ deps (fst (r_force r)) = deps r.
Proof.
  intros [H|(idxs & Hc & H)]; unfold r_force; rewrite H; cbn [clear compiled deps].
  - destruct (compile (deps r)) as [e|idxs] eqn:E; cbn [fst snd deps].
    + split; [reflexivity|]. split; [left; exact H|reflexivity].
    + split; [reflexivity|]. split; [|reflexivity]. right. exists idxs. split; [exact E|reflexivity].
  - rewrite Hc. cbn [fst snd]. split; [reflexivity|]. split; [|reflexivity]. right. exists idxs. split; [exact Hc|exact H].
Qed.

Lemma iter_spec r : coherent r ->
  snd (r_iter r) = snd (r_iter (clear r)) /\ coherent (fst (r_iter r)) /\ deps (fst (r_iter r)) = deps r.
Proof.
  intros H. destruct (force_spec r H) as (H1 & H2 & H3). unfold r_iter.
  destruct (r_force r) as [r1 c1], (r_force (clear r)) as [r2 c2]. cbn [fst snd] in *. subst c2. auto.
Qed.

Lemma debug_spec r : coherent r ->
  snd (r_debug r) = snd (r_debug (clear r)) /\ coherent (fst (r_debug r)) /\ deps (fst (r_debug r)) = deps r.
Proof.
  intros H. destruct (force_spec r H) as (H1 & H2 & H3).
  assert (H4 : deps (fst (r_force (clear r))) = deps r).
  { destruct (force_spec (clear r) (coherent_clear r)) as (_ & _ & E). exact E. }
  unfold r_debug.
  destruct (r_force r) as [r1 c1], (r_force (clear r)) as [r2 c2]. cbn [fst snd] in *. subst c2.
  rewrite H3, H4. auto.
Qed.

(* configuration calls reset the cache and look at the rule list only *)
Lemma add_coherent r m v : coherent (r_add r m v) /\ r_add r m v = r_add (clear r) m v.
Proof. split; [left; reflexivity|reflexivity]. Qed.
Lemma remove_coherent r m : coherent (r_remove r m) /\ r_remove r m = r_remove (clear r) m.
Proof. split; [left; reflexivity|reflexivity]. Qed.
Lemma contains_clear r m : r_contains r m = r_contains (clear r) m.
Proof. reflexivity. Qed.

(* builder calls act on the item returned by add: they keep the (just reset) cache empty *)
Definition builder (f : ruler -> ruler) : Prop :=
  forall r, compiled (f r) = compiled r /\ deps (f r) = deps (f (clear r)).

Lemma builder_upd_last g : builder (upd_last g).
Proof.
  intros r. unfold upd_last, clear. cbn [deps compiled]. destruct (rev (deps r)); cbn [compiled deps]; auto.
Qed.
Lemma builder_id : builder idf.
Proof. intros r. split; reflexivity. Qed.
Lemma builder_comp f g : builder f -> builder g -> builder (fun r => f (g r)).
Proof.
  intros Hf Hg r. destruct (Hf (g r)) as [F1 F2], (Hg r) as [G1 G2], (Hf (g (clear r))) as [_ F4].
  split; [congruence|].
  rewrite F2, F4. f_equal. f_equal. unfold clear at 1 3. rewrite G2. reflexivity.
Qed.

Lemma ruler_eq r1 r2 : deps r1 = deps r2 -> compiled r1 = compiled r2 -> r1 = r2.
Proof. destruct r1, r2. cbn. intros -> ->. reflexivity. Qed.

Lemma add_builder f r m v : builder f ->
  coherent (f (r_add r m v)) /\ f (r_add r m v) = f (r_add (clear r) m v).
Proof.
  intros Hf. destruct (Hf (r_add r m v)) as [H1 _]. split; [left; rewrite H1; reflexivity|reflexivity].
Qed.

(* ------------------------------------------------------------------ *)
(* MarkdownIt                                                           *)

Definition md_coherent (m : md) : Prop :=
  coherent (md_block m) /\ coherent (md_inline m) /\ coherent (md_core m) /\
  (md_text_impl m = None \/ md_text_impl m = Some (choose_text_impl (md_charmap m))).

(* the configuration: everything but the caches *)
Definition md_clear (m : md) : md :=
  MD (clear (md_block m)) (clear (md_inline m)) (clear (md_core m)) (md_charmap m) None
     (md_pairs m) (md_fence_prefix m) (md_maxnest m).

Lemma md_clear_coherent m : md_coherent (md_clear m).
Proof. repeat split; try (left; reflexivity). Qed.

Lemma md_clear_idem m : md_clear (md_clear m) = md_clear m.
Proof. reflexivity. Qed.

(* parsing reads the configuration only: a parser with warm caches returns what a parser with
   cold caches returns, keeps its configuration, and stays coherent *)
Theorem parse_cache_independent fuel m src : md_coherent m ->
  snd (parse fuel m src) = snd (parse fuel (md_clear m) src) /\
  md_coherent (fst (parse fuel m src)) /\
  md_clear (fst (parse fuel m src)) = md_clear m.
Proof.
  intros (Hb & Hi & Hc & Ht). unfold parse.
  destruct (iter_spec _ Hc) as (C1 & C2 & C3), (iter_spec _ Hb) as (B1 & B2 & B3), (iter_spec _ Hi) as (I1 & I2 & I3).
  cbn [md_clear md_core md_block md_inline md_text_impl md_charmap md_pairs md_fence_prefix md_maxnest].
  destruct (r_iter (md_core m)) as [rc cc], (r_iter (md_block m)) as [rb bc], (r_iter (md_inline m)) as [ri ic].
  destruct (r_iter (clear (md_core m))) as [rc' cc'], (r_iter (clear (md_block m))) as [rb' bc'],
           (r_iter (clear (md_inline m))) as [ri' ic'].
  cbn [fst snd] in *. subst cc' bc' ic'.
  assert (T : match md_text_impl m with Some t => t | None => choose_text_impl (md_charmap m) end
              = choose_text_impl (md_charmap m)).
  { destruct Ht as [->| ->]; reflexivity. }
  rewrite T. cbn [fst snd]. split; [reflexivity|]. split.
  - repeat split; cbn [md_block md_inline md_core md_text_impl md_charmap]; auto.
  - unfold md_clear. cbn [md_block md_inline md_core md_charmap md_pairs md_fence_prefix md_maxnest].
    unfold clear. rewrite B3, I3, C3. reflexivity.
Qed.

(* ------------------------------------------------------------------ *)
(* configuration calls                                                  *)

(* a configuration call: keeps coherence and is determined by the configuration of its argument *)
Definition cfg_op (f : md -> md) : Prop :=
  forall m, md_coherent m -> md_coherent (f m) /\ md_clear (f m) = md_clear (f (md_clear m)).

Lemma cfg_comp f g : cfg_op f -> cfg_op g -> cfg_op (fun m => f (g m)).
Proof.
  intros Hf Hg m Hm. destruct (Hg m Hm) as [G1 G2].
  destruct (Hf (g m) G1) as [F1 F2]. split; [exact F1|].
  destruct (Hg (md_clear m) (md_clear_coherent m)) as [G3 G4].
  destruct (Hf (g (md_clear m)) G3) as [_ F4].
  rewrite F2, F4, G2. reflexivity.
Qed.

Lemma cfg_id : cfg_op (fun m => m).
Proof. intros m Hm. split; [exact Hm|reflexivity]. Qed.

Lemma cfg_if (b : md -> bool) f g :
  (forall m, b m = b (md_clear m)) -> cfg_op f -> cfg_op g -> cfg_op (fun m => if b m then f m else g m).
Proof.
  intros Hb Hf Hg m Hm. rewrite <- (Hb m). destruct (b m); [apply Hf|apply Hg]; exact Hm.
Qed.

Lemma cfg_block_add id f : builder f -> cfg_op (fun m => block_add_rule m id f).
Proof.
  intros Hf m (Hb & Hi & Hc & Ht). destruct (add_builder f (md_block m) id id Hf) as [A1 A2].
  unfold block_add_rule, with_block. split.
  - repeat split; cbn [md_block md_inline md_core md_text_impl md_charmap]; auto.
  - unfold md_clear. cbn [md_block md_inline md_core md_text_impl md_charmap md_pairs md_fence_prefix md_maxnest].
    rewrite A2. reflexivity.
Qed.

Lemma cfg_core_add id f : builder f -> cfg_op (fun m => core_add_rule m id f).
Proof.
  intros Hf m (Hb & Hi & Hc & Ht). destruct (add_builder f (md_core m) id id Hf) as [A1 A2].
  unfold core_add_rule, with_core. split.
  - repeat split; cbn [md_block md_inline md_core md_text_impl md_charmap]; auto.
  - unfold md_clear. cbn [md_block md_inline md_core md_text_impl md_charmap md_pairs md_fence_prefix md_maxnest].
    rewrite A2. reflexivity.
Qed.

Lemma cfg_inline_add id marker f : builder f -> cfg_op (fun m => inline_add_rule m id marker f).
Proof.
  intros Hf m (Hb & Hi & Hc & Ht). unfold inline_add_rule.
  destruct (marker =? 0);
    cbn [with_text_impl with_charmap with_inline md_block md_inline md_core md_text_impl md_charmap md_pairs md_fence_prefix md_maxnest].
  - destruct (add_builder f (md_inline m) id id Hf) as [A1 A2]. split.
    + repeat split; cbn [md_block md_inline md_core md_text_impl md_charmap]; auto.
    + unfold md_clear. cbn [md_block md_inline md_core md_text_impl md_charmap md_pairs md_fence_prefix md_maxnest]. rewrite A2. reflexivity.
  - destruct (add_builder f (md_inline m) id id Hf) as [A1 A2]. split.
    + repeat split; cbn [md_block md_inline md_core md_text_impl md_charmap]; auto.
    + unfold md_clear. cbn [md_block md_inline md_core md_text_impl md_charmap md_pairs md_fence_prefix md_maxnest]. rewrite A2. reflexivity.
Qed.

Lemma cfg_inline_remove id marker : cfg_op (fun m => inline_remove_rule m id marker).
Proof.
  intros m (Hb & Hi & Hc & Ht). unfold inline_remove_rule.
  destruct (marker =? 0);
    cbn [with_text_impl with_charmap with_inline md_block md_inline md_core md_text_impl md_charmap md_pairs md_fence_prefix md_maxnest];
    (split; [repeat split; cbn [md_block md_inline md_core md_text_impl md_charmap]; auto; left; reflexivity|reflexivity]).
Qed.

Lemma cfg_block_remove id : cfg_op (fun m => with_block m (r_remove (md_block m) id)).
Proof.
  intros m (Hb & Hi & Hc & Ht). unfold with_block. split; [|reflexivity].
  repeat split; cbn [md_block md_inline md_core md_text_impl md_charmap]; auto. left; reflexivity.
Qed.
Lemma cfg_core_remove id : cfg_op (fun m => with_core m (r_remove (md_core m) id)).
Proof.
  intros m (Hb & Hi & Hc & Ht). unfold with_core. split; [|reflexivity].
  repeat split; cbn [md_block md_inline md_core md_text_impl md_charmap]; auto. left; reflexivity.
Qed.

Lemma cfg_fence_prefix p : cfg_op (fun m => with_fence_prefix m p).
Proof. intros m (Hb & Hi & Hc & Ht). unfold with_fence_prefix. split; [|reflexivity]. repeat split; auto. Qed.
Lemma cfg_maxnest n : cfg_op (fun m => with_maxnest m n).
Proof. intros m (Hb & Hi & Hc & Ht). unfold with_maxnest. split; [|reflexivity]. repeat split; auto. Qed.
Lemma cfg_pairs (g : md -> list (N * (bool * list (option kind)))) :
  (forall m, g m = g (md_clear m)) -> cfg_op (fun m => with_pairs m (g m)).
Proof.
  intros Hg m (Hb & Hi & Hc & Ht). split; [unfold with_pairs; repeat split; auto|].
  rewrite (Hg m). reflexivity.
Qed.

#[local] Hint Resolve builder_upd_last builder_id builder_comp : bld.

Lemma builder_before m : builder (r_before m). Proof. apply builder_upd_last. Qed.
Lemma builder_after m : builder (r_after m). Proof. apply builder_upd_last. Qed.
Lemma builder_before_all : builder r_before_all. Proof. apply builder_upd_last. Qed.
Lemma builder_after_all : builder r_after_all. Proof. apply builder_upd_last. Qed.

Lemma cfg_add_inline id : cfg_op (fun m => add_inline m id).
Proof. apply cfg_inline_add. apply builder_id. Qed.

Lemma cfg_emph marker length rule_id k : cfg_op (fun m => emph_add_with m marker length rule_id k).
Proof.
  set (step1 := fun m : md =>
        with_pairs m (pairs_set (md_pairs m) marker (true, set_nth_opt (snd (pairs_get (md_pairs m) marker)) (length - 1) (Some k)))).
  set (ins := fun m : md => fst (pairs_get (md_pairs m) marker)).
  assert (E : forall m, emph_add_with m marker length rule_id k =
     (fun m2 => if r_contains (md_core m2) C_FRAGJOIN then m2
                else core_add_rule m2 C_FRAGJOIN (fun r => r_after C_INLINE (r_before_all r)))
     ((fun m => if ins m then step1 m else add_inline (step1 m) rule_id) m)).
  { intros m. unfold emph_add_with, ins, step1. destruct (pairs_get (md_pairs m) marker) as [i f]. cbn [fst snd].
    destruct i; reflexivity. }
  intros m Hm. rewrite !E. clear E.
  assert (C1 : cfg_op step1) by (apply cfg_pairs; reflexivity).
  assert (C2 : cfg_op (fun m => if ins m then step1 m else add_inline (step1 m) rule_id)).
  { apply cfg_if; [reflexivity|exact C1|]. apply (cfg_comp (fun m => add_inline m rule_id) step1); [apply cfg_add_inline|exact C1]. }
  assert (C3 : cfg_op (fun m2 => if r_contains (md_core m2) C_FRAGJOIN then m2
                else core_add_rule m2 C_FRAGJOIN (fun r => r_after C_INLINE (r_before_all r)))).
  { apply cfg_if; [reflexivity|apply cfg_id|]. apply cfg_core_add.
    apply (builder_comp (r_after C_INLINE) r_before_all); [apply builder_after|apply builder_before_all]. }
  destruct (C2 m Hm) as [D1 D2]. destruct (C3 _ D1) as [E1 E2]. split; [exact E1|].
  destruct (C2 (md_clear m) (md_clear_coherent m)) as [D3 D4].
  destruct (C3 _ D3) as [_ E4].
  cbv beta in *. rewrite E2, E4, D2. reflexivity.
Qed.

Lemma cfg_link_end : cfg_op add_link_end.
Proof.
  unfold add_link_end. apply (cfg_if (fun m => r_contains (md_inline m) I_LINKEND)); [reflexivity|apply cfg_id|apply cfg_add_inline].
Qed.

Ltac cfg_solve :=
  repeat first
    [ apply cfg_id | apply cfg_add_inline | apply cfg_emph | apply cfg_link_end | apply cfg_fence_prefix
    | apply cfg_block_add; repeat first [apply builder_id | apply builder_after | apply builder_before_all
                                         | apply builder_after_all | apply builder_before | apply builder_upd_last
                                         | apply (builder_comp r_after_all (r_before R_PARA)) ]
    | apply cfg_core_add; repeat first [apply builder_id | apply builder_after]
    | apply cfg_inline_remove | apply cfg_block_remove | apply cfg_core_remove ].

Theorem add_plugin_cfg c : cfg_op (fun m => add_plugin m c).
Proof.
  unfold add_plugin.
  repeat (match goal with |- cfg_op (fun m => if ?b then _ else _) => destruct b end);
    try (cfg_solve; fail).
  - (* emphasis: four add_with calls *)
    apply (cfg_comp (fun m => emph_add_with m 95 2 I_EMPH_UNDER (KStrong 95))
                    (fun m => emph_add_with (emph_add_with (emph_add_with m 42 1 I_EMPH_STAR (KEm 42)) 95 1 I_EMPH_UNDER (KEm 95)) 42 2 I_EMPH_STAR (KStrong 42))); [apply cfg_emph|].
    apply (cfg_comp (fun m => emph_add_with m 42 2 I_EMPH_STAR (KStrong 42))
                    (fun m => emph_add_with (emph_add_with m 42 1 I_EMPH_STAR (KEm 42)) 95 1 I_EMPH_UNDER (KEm 95))); [apply cfg_emph|].
    apply (cfg_comp (fun m => emph_add_with m 95 1 I_EMPH_UNDER (KEm 95)) (fun m => emph_add_with m 42 1 I_EMPH_STAR (KEm 42))); apply cfg_emph.
  - apply (cfg_comp add_link_end (fun m => add_inline m I_LINK)); [apply cfg_link_end|apply cfg_add_inline].
  - apply (cfg_comp add_link_end (fun m => add_inline m I_IMAGE)); [apply cfg_link_end|apply cfg_add_inline].
  - apply (cfg_comp (fun m => with_fence_prefix m (Some (bs "language-"))) (fun m => block_add_rule m R_FENCE idf)); cfg_solve.
  - apply (cfg_comp (fun m => with_fence_prefix m (Some (bs "lang-"))) (fun m => block_add_rule m R_FENCE idf)); cfg_solve.
Qed.

Theorem remove_rule_cfg c : cfg_op (fun m => remove_plugin_rule m c).
Proof.
  unfold remove_plugin_rule. cbv zeta.
  repeat (match goal with |- cfg_op (fun m => if ?b then _ else _) => destruct b end); cfg_solve.
Qed.

Lemma cfg_fold (f : md -> N -> md) (l : list N) :
  (forall c, cfg_op (fun m => f m c)) -> cfg_op (fun m => fold_left f l m).
Proof.
  intros Hf. induction l as [|c t IH]; cbn [fold_left]; [apply cfg_id|].
  apply (cfg_comp (fun m => fold_left f t m) (fun m => f m c)); [exact IH|apply Hf].
Qed.

Theorem add_plugins_cfg cs : cfg_op (fun m => add_plugins m cs).
Proof.
  unfold add_plugins. apply cfg_fold. intros c.
  destruct (c =? 67); [apply cfg_fold; apply add_plugin_cfg|].
  destruct (c =? 87); [apply cfg_fold; apply add_plugin_cfg|apply add_plugin_cfg].
Qed.

Lemma md_new_coherent : md_coherent md_new.
Proof. repeat split; left; reflexivity. Qed.

(* ------------------------------------------------------------------ *)
(* histories of configuration calls and parses on one parser instance   *)

Inductive hop := HAdd (cs : str) | HRemove (cs : str) | HSetNesting (n : N) | HParse (src : str).

Definition is_parse (o : hop) : bool := match o with HParse _ => true | _ => false end.

Definition hstep (m : md) (o : hop) : md :=
  match o with
  | HAdd cs => add_plugins m cs
  | HRemove cs => fold_left remove_plugin_rule cs m
  | HSetNesting n => with_maxnest m n
  | HParse src => fst (parse (default_fuel m) m src)
  end.

Definition hrun (m : md) (ops : list hop) : md := fold_left hstep ops m.

(* what a parse on the parser reached after the history returns *)
Definition result_after (m : md) (ops : list hop) (src : str) : res doc :=
  let m' := hrun m ops in snd (parse (default_fuel m') m' src).

Lemma hstep_cfg o : forall m, md_coherent m ->
  md_coherent (hstep m o) /\
  md_clear (hstep m o) = if is_parse o then md_clear m else md_clear (hstep (md_clear m) o).
Proof.
  intros m Hm. destruct o as [cs|cs|n|src]; cbn [hstep is_parse].
  - apply add_plugins_cfg. exact Hm.
  - apply (cfg_fold remove_plugin_rule cs remove_rule_cfg). exact Hm.
  - apply cfg_maxnest. exact Hm.
  - destruct (parse_cache_independent (default_fuel m) m src Hm) as (_ & H2 & H3). auto.
Qed.

Lemma hrun_erase ops : forall m1 m2, md_coherent m1 -> md_coherent m2 -> md_clear m1 = md_clear m2 ->
  md_coherent (hrun m1 ops) /\ md_coherent (hrun m2 (filter (fun o => negb (is_parse o)) ops)) /\
  md_clear (hrun m1 ops) = md_clear (hrun m2 (filter (fun o => negb (is_parse o)) ops)).
Proof.
  unfold hrun. induction ops as [|o t IH]; intros m1 m2 H1 H2 E; cbn [fold_left filter]; [auto|].
  destruct (hstep_cfg o m1 H1) as [A1 A2].
  destruct (is_parse o) eqn:P; cbn [negb].
  - apply IH; [exact A1|exact H2|]. rewrite A2. exact E.
  - destruct (hstep_cfg o m2 H2) as [B1 B2]. rewrite P in B2. cbn [fold_left].
    apply IH; [exact A1|exact B1|]. rewrite A2, B2, E. reflexivity.
Qed.

Lemma fuel_clear m : default_fuel (md_clear m) = default_fuel m.
Proof. reflexivity. Qed.

Lemma result_clear m src : md_coherent m ->
  snd (parse (default_fuel m) m src) = snd (parse (default_fuel (md_clear m)) (md_clear m) src).
Proof. intros H. rewrite fuel_clear. apply (parse_cache_independent (default_fuel m) m src H). Qed.

(* C08: deleting the parse calls from a history does not change what the next parse returns *)
Theorem erase_parses_same_result ops src :
  result_after md_new ops src = result_after md_new (filter (fun o => negb (is_parse o)) ops) src.
Proof.
  unfold result_after.
  destruct (hrun_erase ops md_new md_new md_new_coherent md_new_coherent eq_refl) as (H1 & H2 & E).
  rewrite (result_clear _ src H1), (result_clear _ src H2), E. reflexivity.
Qed.

(* C07: after any sequence of documents a parser returns what a fresh parser with the same
   configuration returns *)
Theorem reuse_same_as_fresh cfg docs src :
  result_after md_new (cfg ++ map HParse docs) src = result_after md_new (filter (fun o => negb (is_parse o)) cfg) src.
Proof.
  rewrite erase_parses_same_result. f_equal.
  rewrite filter_app. replace (filter (fun o => negb (is_parse o)) (map HParse docs)) with (@nil hop).
  - apply app_nil_r.
  - induction docs as [|d t IH]; [reflexivity|exact IH].
Qed.

(* determinism: the same configuration history and the same text give the same result *)
Theorem parse_deterministic ops src : result_after md_new ops src = result_after md_new ops src.
Proof. reflexivity. Qed.

(* ------------------------------------------------------------------ *)
(* the same at the level of one Ruler                                   *)

Inductive rmod := MBefore (m : N) | MAfter (m : N) | MAlias (m : N) | MRequire (m : N) | MBeforeAll | MAfterAll.
Definition apply_mod (r : ruler) (x : rmod) : ruler :=
  match x with
  | MBefore m => r_before m r | MAfter m => r_after m r | MAlias m => r_alias m r
  | MRequire m => r_require m r | MBeforeAll => r_before_all r | MAfterAll => r_after_all r
  end.
Inductive rop := RAdd (m v : N) (mods : list rmod) | RRemove (m : N) | RIter | RDebug.
Definition is_use (o : rop) : bool := match o with RIter | RDebug => true | _ => false end.

Definition rstep (r : ruler) (o : rop) : ruler :=
  match o with
  | RAdd m v mods => fold_left apply_mod mods (r_add r m v)
  | RRemove m => r_remove r m
  | RIter => fst (r_iter r)
  | RDebug => fst (r_debug r)
  end.

Lemma mods_builder mods : builder (fun r => fold_left apply_mod mods r).
Proof.
  induction mods as [|x t IH]; cbn [fold_left]; [apply builder_id|].
  apply (builder_comp (fun r => fold_left apply_mod t r) (fun r => apply_mod r x)); [exact IH|].
  destruct x; apply builder_upd_last.
Qed.

Lemma rstep_spec o : forall r, coherent r ->
  coherent (rstep r o) /\ deps (rstep r o) = if is_use o then deps r else deps (rstep (clear r) o).
Proof.
  intros r H. destruct o as [m v mods|m| |]; cbn [rstep is_use].
  - destruct (add_builder _ r m v (mods_builder mods)) as [A1 A2]. split; [exact A1|]. cbv beta in A2. rewrite A2. reflexivity.
  - split; [left; reflexivity|reflexivity].
  - destruct (iter_spec r H) as (_ & A & B). auto.
  - destruct (debug_spec r H) as (_ & A & B). auto.
Qed.

Theorem ruler_erase_uses ops : forall r1 r2, coherent r1 -> coherent r2 -> deps r1 = deps r2 ->
  snd (r_iter (fold_left rstep ops r1)) =
  snd (r_iter (fold_left rstep (filter (fun o => negb (is_use o)) ops) r2)).
Proof.
  induction ops as [|o t IH]; intros r1 r2 H1 H2 E; cbn [fold_left filter].
  - destruct (iter_spec r1 H1) as (A & _), (iter_spec r2 H2) as (B & _). rewrite A, B. unfold clear. rewrite E. reflexivity.
  - destruct (rstep_spec o r1 H1) as [A1 A2]. destruct (is_use o) eqn:U; cbn [negb].
    + apply IH; [exact A1|exact H2|]. rewrite A2. exact E.
    + destruct (rstep_spec o r2 H2) as [B1 B2]. rewrite U in B2. cbn [fold_left].
      apply IH; [exact A1|exact B1|]. rewrite A2, B2. unfold clear. rewrite E. reflexivity.
Qed.
