(* Termination and recursion depth of the block parser (properties C01, C02):
   every loop of model/Block.v that carries fuel standing for a `while` loop of the implementation
   (Hang) makes progress, and the nesting of tokenize calls (OutOfFuel) is bounded by the nesting
   limit.  Holds for every configuration (any chain of rule identifiers) and every state. *)
From Coq Require Import String.
From MdIt Require Import Prims Tables Escape NormRef Indent Mdurl LinkParse Tree HtmlRe Block.
From Coq Require Import Lia ZifyBool ZifyN ZifyNat.
Local Open Scope list_scope.
Local Open Scope N_scope.

Arguments N.eqb : simpl never.
Arguments N.leb : simpl never.
Arguments N.ltb : simpl never.
Arguments N.add : simpl never.
Arguments N.sub : simpl never.
Arguments Z.leb : simpl never.
Arguments Z.ltb : simpl never.
Arguments Z.sub : simpl never.

(* ------------------------------------------------------------------ *)
(* results that are neither Hang nor OutOfFuel                          *)

Definition benign {A} (r : res A) : Prop :=
  match r with inl Hang | inl OutOfFuel => False | _ => True end.

Lemma benign_bind {A B} (a : res A) (f : A -> res B) :
  benign a -> (forall x, a = inr x -> benign (f x)) -> benign (bind a f).
Proof. destruct a as [e|x]; cbn; [tauto|]. intros _ H. apply H. reflexivity. Qed.

Ltac bn_step :=
  match goal with
  | |- True => exact I
  | |- benign (ret _) => exact I
  | |- benign (panic _) => exact I
  | |- benign (inr _) => exact I
  | |- benign (inl (Panic _)) => exact I
  | H : benign ?x |- benign ?x => exact H
  | |- benign (bind _ _) => apply benign_bind; [| intros ? ?]
  | |- benign (match ?x with _ => _ end) => destruct x eqn:?
  | |- benign _ => solve [auto with bn]
  end.
Ltac bn := repeat bn_step.

Lemma line_rec_benign st l : benign (line_rec st l).
Proof. unfold line_rec. bn. Qed.
#[export] Hint Resolve line_rec_benign : bn.
Lemma line_indent_benign st l : benign (line_indent st l).
Proof. unfold line_indent. bn. Qed.
#[export] Hint Resolve line_indent_benign : bn.
Lemma get_line_benign st l : benign (get_line st l).
Proof. unfold get_line. bn. Qed.
#[export] Hint Resolve get_line_benign : bn.
Lemma pos_first_benign st l : benign (pos_first st l).
Proof. unfold pos_first. bn. Qed.
Lemma pos_end_benign st l : benign (pos_end st l).
Proof. unfold pos_end. bn. Qed.
#[export] Hint Resolve pos_first_benign pos_end_benign : bn.
Lemma get_map_benign st a b : benign (get_map st a b).
Proof. unfold get_map. bn. Qed.
#[export] Hint Resolve get_map_benign : bn.

Lemma get_lines_loop_benign st n : forall line e ind k acc mp, benign (get_lines_loop st n line e ind k acc mp).
Proof. induction n as [|n IH]; intros; cbn [get_lines_loop]; bn. Qed.
Lemma get_lines_benign st b e ind k : benign (get_lines st b e ind k).
Proof. unfold get_lines. bn. apply get_lines_loop_benign. Qed.
#[export] Hint Resolve get_lines_benign : bn.

Lemma fence_open_benign st : benign (fence_open st).
Proof. unfold fence_open. bn. Qed.
Lemma quote_open_benign st : benign (quote_open st).
Proof. unfold quote_open. bn. Qed.
Lemma hr_match_benign st : benign (hr_match st).
Proof. unfold hr_match. bn. Qed.
Lemma list_open_benign st s : benign (list_open st s).
Proof. unfold list_open. bn. Qed.
Lemma heading_open_benign st : benign (heading_open st).
Proof. unfold heading_open. bn. Qed.
Lemma html_open_benign st : benign (html_open st).
Proof. unfold html_open. bn. Qed.
Lemma custom_line_benign st : benign (custom_line st).
Proof. unfold custom_line. bn. Qed.
#[export] Hint Resolve fence_open_benign quote_open_benign hr_match_benign list_open_benign heading_open_benign
  html_open_benign custom_line_benign : bn.

Lemma rule_silent_benign r st : benign (rule_silent r st).
Proof. unfold rule_silent. bn. Qed.
#[export] Hint Resolve rule_silent_benign : bn.
Lemma test_rules_benign chain st : benign (test_rules chain st).
Proof. induction chain as [|r t IH]; cbn [test_rules]; bn. Qed.
Lemma test_rules_at_benign cfg st l : benign (test_rules_at cfg st l).
Proof. apply test_rules_benign. Qed.
#[export] Hint Resolve test_rules_at_benign : bn.

Lemma para_scan_benign cfg st n : forall next, benign (para_scan cfg st n next).
Proof. induction n as [|n IH]; intros; cbn [para_scan]; bn. Qed.
Lemma lheading_scan_benign cfg st n : forall next, benign (lheading_scan cfg st n next).
Proof. induction n as [|n IH]; intros; cbn [lheading_scan]; bn. Qed.
#[export] Hint Resolve para_scan_benign lheading_scan_benign : bn.

Lemma quote_scan_benign cfg st0 n : forall lines next le, benign (quote_scan cfg st0 n lines next le).
Proof. induction n as [|n IH]; intros; cbn [quote_scan]; bn. Qed.
#[export] Hint Resolve quote_scan_benign : bn.

(* ------------------------------------------------------------------ *)
(* specifications of the recursive pieces                               *)

(* c = "the level condition under which running out of fuel is excluded" *)
Definition starts_ok (st : bstate) : Prop :=
  is_empty st (b_line st) = true \/
  exists r, nth_error (b_lines st) (b_line st) = Some r /\ (0 <= l_indent r - Z.of_N (b_blk st))%Z.

Definition gspec {A} (c : bool) (P : A -> Prop) (r : res A) : Prop :=
  match r with
  | inl Hang => False
  | inl OutOfFuel => c = false
  | inl (Panic _) => True
  | inr x => P x
  end.

Lemma gspec_bind {A B} c (P : B -> Prop) (a : res A) f :
  benign a -> (forall x, a = inr x -> gspec c P (f x)) -> gspec c P (bind a f).
Proof. destruct a as [[k| |]|x]; cbn; try tauto. intros _ H. apply H. reflexivity. Qed.

Lemma gspec_bind_g {A B} c (Q : A -> Prop) (P : B -> Prop) (a : res A) f :
  gspec c Q a -> (forall x, a = inr x -> Q x -> gspec c P (f x)) -> gspec c P (bind a f).
Proof. destruct a as [[k| |]|x]; cbn; try tauto. intros q H. apply H; [reflexivity|exact q]. Qed.

Lemma gspec_weaken {A} c c' (P Q : A -> Prop) r :
  (c' = true -> c = true) -> (forall x, P x -> Q x) -> gspec c P r -> gspec c' Q r.
Proof. destruct r as [[k| |]|x]; cbn; auto. intros H _ ->. destruct c'; auto. discriminate H; reflexivity. Qed.

Definition tpost (st st' : bstate) : Prop :=
  b_max st' = b_max st /\ b_level st' = b_level st /\ (b_line st <= b_line st')%nat /\
  ((b_line st < b_max st)%nat -> starts_ok st -> (b_line st < b_line st')%nat).
Definition tspec (c : bool) (st : bstate) (r : res bstate) : Prop := gspec c (tpost st) r.

Definition rpost (st : bstate) (x : bstate * bool) : Prop :=
  b_max (fst x) = b_max st /\ b_level (fst x) = b_level st.
Definition rspec (c : bool) (st : bstate) (r : res (bstate * bool)) : Prop := gspec c (rpost st) r.

Lemma rspec_bind {A} c st (a : res A) f :
  benign a -> (forall x, a = inr x -> rspec c st (f x)) -> rspec c st (bind a f).
Proof. apply gspec_bind. Qed.

Ltac rs_step :=
  match goal with
  | |- gspec ?c (rpost ?st) ?r => change (rspec c st r)
  | |- rspec _ _ (ret _) => split; reflexivity
  | |- rspec _ _ (panic _) => exact I
  | |- rspec _ _ (inr _) => split; reflexivity
  | |- rspec _ _ (inl (Panic _)) => exact I
  | |- rspec _ _ (bind (?t _) _) => is_var t; fail 1
  | |- rspec _ _ (bind (list_items _ _ _ _ _ _ _ _ _ _) _) => fail 1
  | |- rspec _ _ (bind _ _) => apply rspec_bind; [try solve [auto with bn] | intros ? ?]
  | |- rspec _ _ (match ?x with _ => _ end) => destruct x eqn:?
  end.
Ltac rs := repeat rs_step.

Section Engine.
Variable cfg : bcfg.
Variable T : bstate -> res bstate.
Variable L : N.
(* contract of the nested tokenizer: never hangs, runs out of fuel only outside levels [L, maxnest] *)
Hypothesis T_ok : forall st, tspec ((L <=? b_level st) && (b_level st <=? bc_maxnest cfg)) st (T st).

Lemma rule_code_spec c st : rspec c st (rule_code st).
Proof.
  unfold rule_code. rs. bn.
  all: match goal with |- benign (?f _ _ _) => let H := fresh in assert (H : forall n a b, benign (f n a b)); [|apply H] end.
  all: intros n; induction n as [|n IH]; intros a b; bn.
Qed.


Ltac fix3 := match goal with |- benign (?f _ _ _) => is_fix f; let H := fresh in assert (H : forall n a b, benign (f n a b)); [let k := fresh "k" in intros k; induction k as [|k IH]; intros ? ?; simpl; bn|apply H] end.
Ltac fix2 := match goal with |- benign (?f _ _) => is_fix f; let H := fresh in assert (H : forall n a, benign (f n a)); [let k := fresh "k" in intros k; induction k as [|k IH]; intros ?; simpl; bn|apply H] end.

Lemma rule_fence_spec c st : rspec c st (rule_fence cfg st).
Proof. unfold rule_fence. rs. bn. all: try fix2. Qed.
Lemma rule_hr_spec c st : rspec c st (rule_hr st).
Proof. unfold rule_hr. rs. Qed.
Lemma rule_reference_spec c st : rspec c st (rule_reference cfg st).
Proof. unfold rule_reference. rs. Qed.
Lemma rule_heading_spec c st : rspec c st (rule_heading st).
Proof. unfold rule_heading. rs. Qed.
Lemma rule_lheading_spec c st : rspec c st (rule_lheading cfg st).
Proof. unfold rule_lheading. rs. Qed.
Lemma rule_paragraph_spec c st : rspec c st (rule_paragraph cfg st).
Proof. unfold rule_paragraph. rs. Qed.
Lemma rule_html_block_spec c st : rspec c st (rule_html_block st).
Proof. unfold rule_html_block. rs. bn. all: try fix2. Qed.
Lemma rule_custom_spec c st : rspec c st (rule_custom st).
Proof. unfold rule_custom. rs. Qed.

(* the nested call, at one level deeper *)
Lemma T_call c (P : bstate -> Prop) inner :
  (c = true -> (L <=? b_level inner) && (b_level inner <=? bc_maxnest cfg) = true) ->
  gspec c (tpost inner) (T inner).
Proof.
  intros Hc. pose proof (T_ok inner) as H. unfold tspec in H. eapply gspec_weaken; [exact Hc| |exact H]. auto.
Qed.

Definition cond (lv : N) : bool := (L <=? lv + 1) && (lv <? bc_maxnest cfg).

Lemma rule_quote_spec st : rspec (cond (b_level st)) st (rule_quote cfg T st).
Proof.
  unfold rule_quote. rs.
  match goal with |- rspec _ _ (bind (T ?inner) _) => apply (gspec_bind_g _ (tpost inner)); [apply (T_call _ (fun _ => True)); unfold cond; cbn [b_level]; lia|] end.
  intros inner' _ (Hm & _). rs.
Qed.

Lemma bind_assoc {A B C} (a : res A) (g : A -> res B) (f : B -> res C) :
  bind (bind a g) f = bind a (fun x => bind (g x) f).
Proof. destruct a; reflexivity. Qed.

Lemma set_nth_same {A} (l : list A) : forall n x y, nth_error l n = Some y -> nth_error (set_nth l n x) n = Some x.
Proof. induction l as [|a t IH]; intros [|n] x y H; cbn in *; try discriminate; [reflexivity|eapply IH; exact H]. Qed.

Definition lpost (st : bstate) (x : bstate * nat * bool) : Prop :=
  b_max (fst (fst x)) = b_max st /\ b_level (fst (fst x)) = b_level st.

Ltac gs_step :=
  match goal with
  | |- gspec _ _ (ret _) => split; reflexivity
  | |- gspec _ _ (inr _) => split; reflexivity
  | |- gspec _ _ (panic _) => exact I
  | |- gspec _ _ (inl (Panic _)) => exact I
  | |- gspec _ _ (bind (?t _) _) => is_var t; fail 1
  | |- gspec _ _ (bind (if ?c then _ else _) _) => destruct c eqn:?
  | |- gspec _ _ (bind (ret ?x) ?f) => change (bind (ret x) f) with (f x); cbv beta
  | |- gspec _ _ (bind (bind _ _) _) => rewrite bind_assoc
  | |- gspec _ _ (bind _ _) => apply gspec_bind; [solve [auto with bn] | intros ? ?]
  | |- gspec _ _ (match ?x with _ => _ end) => destruct x eqn:?
  end.
Ltac gs := repeat gs_step.

Lemma list_items_spec n : forall st ordered mc p next pe tight,
  b_line st = next -> (b_max st - next < n)%nat ->
  gspec (cond (b_level st)) (lpost st) (list_items cfg T n st ordered mc p next pe tight).
Proof.
  induction n as [|n IH]; intros st ordered mc p next pe tight Hline Hn; [lia|].
  cbn [list_items]. cbv zeta. do 3 gs_step.
  apply (gspec_bind_g _ (fun st2 : bstate => (next < b_line st2)%nat)).
  - (* the item body advances past the marker line *)
    match goal with H : negb (next <? b_max st)%nat = false |- _ => rename H into Hlt end.
    match goal with H : line_rec st next = inr ?r |- _ => rename H into Hrec end.
    destruct (_ && _) eqn:Hfast.
    + unfold gspec, ret. cbn [b_line set_line]. rewrite Hline. destruct (next + 2 <? b_max st)%nat eqn:E; lia.
    + match goal with |- gspec _ _ (bind (T ?inner) _) => apply (gspec_bind_g _ (tpost inner)); [apply (T_call _ (fun _ => True)); unfold cond; cbn [b_level set_level]; lia|] end.
      intros x0 _ (Hm & _ & _ & Hprog). cbn. cbn in Hprog, Hm. apply Hprog; [lia|].
      unfold line_rec in Hrec. destruct (nth_error (b_lines st) next) as [r|] eqn:En; [|discriminate]. injection Hrec as <-.
      destruct (n1 =? l_end r) eqn:Ee.
      * left. unfold is_empty. cbn [b_lines b_line set_level set_line]. rewrite (set_nth_same _ _ _ _ En).
        unfold l_end in *. cbn [l_text l_first]. lia.
      * right. cbn [b_lines b_line b_blk set_level set_line]. rewrite (set_nth_same _ _ _ _ En).
        eexists. split; [reflexivity|]. cbn [l_indent]. destruct (4 <? n0) eqn:E4; lia.
  - intros st2 _ Hgt. gs.
    eapply gspec_weaken; [| |apply IH]; [cbn [b_level set_line push_node set_node]; auto| |reflexivity|].
    + intros y. unfold lpost. cbn [b_max b_level set_line push_node set_node]. auto.
    + cbn [b_max set_line push_node set_node]. lia.
Qed.

Lemma rule_list_spec st : rspec (cond (b_level st)) st (rule_list cfg T st).
Proof.
  unfold rule_list. rs.
  match goal with |- rspec _ _ (bind (list_items _ _ ?n ?s ?o ?m ?p ?nx ?pe ?t) _) =>
    apply (gspec_bind_g _ (lpost s)); [apply (list_items_spec n s o m p nx pe t); [reflexivity|cbn [b_max set_node]; lia]|] end.
  intros [[st' nx] tg] _ [Hm Hl]. cbn [fst] in Hm, Hl. cbn [b_max b_level set_node] in Hm, Hl.
  rs. all: split; cbn [fst b_max b_level set_node]; assumption.
Qed.

Lemma rule_real_spec r st : rspec (cond (b_level st)) st (rule_real cfg T r st).
Proof.
  unfold rule_real.
  repeat match goal with |- rspec _ _ (if ?c then _ else _) => destruct c end;
    auto using rule_code_spec, rule_fence_spec, rule_quote_spec, rule_hr_spec, rule_list_spec, rule_reference_spec,
      rule_heading_spec, rule_lheading_spec, rule_paragraph_spec, rule_html_block_spec, rule_custom_spec.
  split; reflexivity.
Qed.

(* try_rules: a rule that succeeds has advanced the line (the engine asserts it) *)
Definition trpost (st : bstate) (x : bstate * bool) : Prop :=
  b_max (fst x) = b_max st /\ b_level (fst x) = b_level st /\
  (if snd x then (b_line st < b_line (fst x))%nat else fst x = st).

Lemma try_rules_spec chain : forall st, gspec (cond (b_level st)) (trpost st) (try_rules cfg T chain st).
Proof.
  induction chain as [|r t IH]; intros st; cbn [try_rules].
  - repeat split.
  - apply (gspec_bind_g _ (rpost st)); [apply rule_real_spec|]. intros [st' b] _ [Hm Hl]. cbn [fst snd] in *.
    destruct b; [|apply IH]. destruct (b_line st <? b_line st')%nat eqn:E; [|exact I].
    apply PeanoNat.Nat.ltb_lt in E. unfold gspec, ret, trpost. cbn [fst snd]. auto.
Qed.

Lemma skip_empty_from_spec st : forall n l,
  (l <= skip_empty_from n st l)%nat /\
  (is_empty st l = false -> skip_empty_from n st l = l) /\
  (n <> 0%nat -> is_empty st l = true -> l <> b_max st -> (l < skip_empty_from n st l)%nat).
Proof.
  induction n as [|n IH]; intros l; cbn [skip_empty_from]; [repeat split; auto; lia|].
  destruct (Nat.eqb_spec l (b_max st)) as [->|Hne]; cbn [negb andb]; [repeat split; auto; try lia; congruence|].
  destruct (is_empty st l) eqn:E; [|repeat split; auto; try lia; congruence].
  destruct (IH (S l)) as (H1 & _ & _). repeat split; try lia; congruence.
Qed.

Definition cond0 (lv : N) : bool := (L - 1 <=? lv) && (lv <=? bc_maxnest cfg).

Lemma tok_loop_spec n : forall st he, (b_max st - b_line st < n)%nat ->
  gspec (cond0 (b_level st)) (tpost st) (tok_loop cfg T n st he).
Proof.
  induction n as [|n IH]; intros st he Hn; [lia|].
  cbn [tok_loop]. destruct (negb (b_line st <? b_max st)%nat) eqn:Hlt.
  { unfold gspec, ret, tpost. repeat split; auto; lia. }
  cbv zeta. unfold skip_empty_lines.
  destruct (skip_empty_from_spec st (S (b_max st - b_line st)) (b_line st)) as (Hs1 & Hs2 & Hs3).
  set (line := skip_empty_from (S (b_max st - b_line st)) st (b_line st)) in *.
  assert (Hprog : starts_ok st -> (b_max st <= line)%nat \/
                   (exists r, nth_error (b_lines st) line = Some r /\ (l_indent r - Z.of_N (b_blk st) < 0)%Z) ->
                   (b_line st < line)%nat).
  { intros [He|(r & Hr & Hi)] Hc.
    - apply Hs3; [lia|exact He|lia].
    - destruct (is_empty st (b_line st)) eqn:He; [apply Hs3; [lia|reflexivity|lia]|].
      rewrite (Hs2 eq_refl) in Hc. destruct Hc as [Hc|(r' & Hr' & Hi')]; [lia|]. rewrite Hr in Hr'. injection Hr' as <-. lia. }
  cbn [b_max set_line b_line b_level].
  destruct (b_max st <=? line)%nat eqn:Hmax.
  { unfold gspec, ret, tpost. cbn [b_max b_level b_line set_line]. repeat split; auto. intros _ Hso. apply Hprog; [exact Hso|left; lia]. }
  apply gspec_bind; [auto with bn|]. intros ind Hind.
  destruct (ind <? 0)%Z eqn:Hneg.
  { unfold gspec, ret, tpost. cbn [b_max b_level b_line set_line]. repeat split; auto. intros _ Hso. apply Hprog; [exact Hso|right].
    unfold line_indent, line_rec in Hind. cbn [b_lines set_line b_blk] in Hind.
    destruct (nth_error (b_lines st) line) as [r|] eqn:Er; [|discriminate]. cbn in Hind. injection Hind as <-.
    exists r. split; [reflexivity|lia]. }
  destruct (bc_maxnest cfg <=? b_level st) eqn:Hlv.
  { unfold gspec, ret, tpost. cbn [b_max b_level b_line set_line]. repeat split; auto; lia. }
  apply (gspec_bind_g _ (trpost (set_line st line))).
  { eapply gspec_weaken; [| |apply try_rules_spec]; [|auto]. unfold cond0, cond. cbn [b_level set_line]. lia. }
  intros [st1' ok] _ (Hm & Hl & Hp). cbn [fst snd] in *. cbn [b_max b_level b_line set_line] in Hm, Hl, Hp.
  (* st1: after a rule or the fallback, the line has advanced *)
  apply (gspec_bind_g _ (fun st1 : bstate => b_max st1 = b_max st /\ b_level st1 = b_level st /\ (line < b_line st1)%nat)).
  { destruct ok; [unfold gspec, ret; auto|]. subst st1'. gs. unfold gspec, ret. cbn [b_max b_level b_line set_line push_node set_node]. repeat split; lia. }
  intros st1 _ (Hm1 & Hl1 & Hp1).
  assert (Hrec : forall he', gspec (cond0 (b_level st)) (tpost st) (tok_loop cfg T n (set_tight st1 (negb he)) he')).
  { intros he'. eapply gspec_weaken; [| |apply IH]; [cbn [b_level set_tight]; rewrite Hl1; auto| |cbn [b_max b_line set_tight]; lia].
    intros y (A & B & C & _). unfold tpost. cbn [b_max b_level b_line set_tight] in *. repeat split; try congruence; lia. }
  destruct (_ && _) eqn:Hnext; [|apply Hrec].
  eapply gspec_weaken; [| |apply IH]; [cbn [b_level set_tight set_line]; rewrite Hl1; auto| |].
  - intros y (A & B & C & _). unfold tpost. cbn [b_max b_level b_line set_tight set_line] in *. repeat split; try congruence; lia.
  - cbn [b_max b_line set_tight set_line]. lia.
Qed.

Lemma tokenize_body_spec st : tspec (cond0 (b_level st)) st (tokenize_body cfg T st).
Proof. unfold tokenize_body, tspec. apply tok_loop_spec. lia. Qed.

End Engine.

(* ------------------------------------------------------------------ *)
(* closing the recursion: fuel f is enough for every level >= maxnest + 1 - f *)

Theorem btokenize_spec cfg : forall fuel st,
  tspec ((bc_maxnest cfg + 1 - N.of_nat fuel <=? b_level st) && (b_level st <=? bc_maxnest cfg)) st (btokenize fuel cfg st).
Proof.
  induction fuel as [|f IH]; intros st.
  - cbn. lia.
  - cbn [btokenize]. pose proof (tokenize_body_spec cfg (btokenize f cfg) _ IH st) as H.
    unfold tspec in *. eapply gspec_weaken; [| |exact H]; [|auto]. unfold cond0. lia.
Qed.

(* the block parser never loops for ever, and its recursion depth is at most maxnest + 1, for every
   input, every chain of rules and every nesting limit *)
Theorem block_parse_terminates fuel cfg texts root refs :
  (N.to_nat (bc_maxnest cfg) < fuel)%nat -> benign (block_parse fuel cfg texts root refs).
Proof.
  intros Hf. unfold block_parse. cbv zeta.
  match goal with |- benign (bind (btokenize _ _ ?st) _) => pose proof (btokenize_spec cfg fuel st) as H end.
  unfold tspec in H. cbn [b_level] in H.
  destruct (btokenize fuel cfg _) as [[k| |]|st']; cbn in *; auto. lia.
Qed.

Theorem btokenize_never_hangs fuel cfg st : btokenize fuel cfg st <> inl Hang.
Proof. pose proof (btokenize_spec cfg fuel st) as H. intros E. rewrite E in H. exact H. Qed.
