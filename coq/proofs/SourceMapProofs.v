(* Proofs about src/common/sourcemap.rs as modelled in model/SourceMap.v  (property C15) *)
From MdIt Require Import Prims SourceMap.
From Coq Require Import Lia ZifyBool ZifyN ZifyNat Sorted.
Local Open Scope list_scope.
Local Open Scope N_scope.

Arguments N.add : simpl never.
Arguments N.mul : simpl never.
Arguments N.modulo : simpl never.
Arguments N.leb : simpl never.
Arguments N.ltb : simpl never.
Arguments N.eqb : simpl never.
Arguments N.of_nat : simpl never.
Arguments N.to_nat : simpl never.

(* ---- classification of one byte, as in both build loop and direct definition ---- *)
Inductive bclass := CrOfCrlf | Eol | Cont | Start.
Definition classify (b : N) (t : str) : bclass :=
  if (b =? 13) && next_is_lf t then CrOfCrlf
  else if (b =? 13) || (b =? 10) then Eol
  else if is_cont b then Cont else Start.

(* a line ending is counted at the byte that completes it: LF, or CR not followed by LF *)
Definition counted_eol (s : str) (i : nat) : bool :=
  match drop i s with
  | b :: t => match classify b t with Eol => true | _ => false end
  | [] => false
  end.

Lemma scan_nil l c k : scan [] l c k = (l, c).
Proof. destruct k; reflexivity. Qed.

Lemma scan_cons b t l c k :
  scan (b :: t) l c (S k) =
  match classify b t with
  | CrOfCrlf => scan t l (c + 1) k
  | Eol => scan t (l + 1) 0 k
  | Cont => scan t l c k
  | Start => scan t l (c + 1) k
  end.
Proof.
  unfold classify. cbn [scan].
  destruct ((b =? 13) && next_is_lf t); [reflexivity|].
  destruct ((b =? 13) || (b =? 10)); [reflexivity|].
  destruct (is_cont b); reflexivity.
Qed.

Lemma marks_cons b t o l c :
  marks_from (b :: t) o l c =
  match classify b t with
  | CrOfCrlf => marks_from t (o + 1) l (c + 1)
  | Eol => Mark (o + 1) (l + 1) 0 :: marks_from t (o + 1) (l + 1) 0
  | Cont => marks_from t (o + 1) l c
  | Start => if (c mod 16 =? 0) && (0 <? c)
             then Mark o l c :: marks_from t (o + 1) l (c + 1)
             else marks_from t (o + 1) l (c + 1)
  end.
Proof.
  unfold classify. cbn [marks_from].
  destruct ((b =? 13) && next_is_lf t); [reflexivity|].
  destruct ((b =? 13) || (b =? 10)); [reflexivity|].
  destruct (is_cont b); reflexivity.
Qed.

Lemma classify_start_not_cont b t : classify b t = Start -> is_cont b = false.
Proof.
  unfold classify.
  destruct ((b =? 13) && next_is_lf t); [discriminate|].
  destruct ((b =? 13) || (b =? 10)); [discriminate|].
  destruct (is_cont b); [discriminate|reflexivity].
Qed.
Lemma classify_cont b t : classify b t = Cont -> is_cont b = true.
Proof.
  unfold classify.
  destruct ((b =? 13) && next_is_lf t); [discriminate|].
  destruct ((b =? 13) || (b =? 10)); [discriminate|].
  destruct (is_cont b); [reflexivity|discriminate].
Qed.
Lemma classify_crlf_not_cont b t : classify b t = CrOfCrlf -> is_cont b = false.
Proof.
  unfold classify.
  destruct ((b =? 13) && next_is_lf t) eqn:E.
  - intros _. unfold is_cont. lia.
  - destruct ((b =? 13) || (b =? 10)); [discriminate|]. destruct (is_cont b); discriminate.
Qed.

Lemma count_starts_nil : count_starts [] = 0.
Proof. reflexivity. Qed.
Lemma count_starts_cons b t :
  count_starts (b :: t) = (if is_cont b then 0 else 1) + count_starts t.
Proof.
  unfold count_starts, len. cbn [filter]. destruct (is_cont b); cbn [negb length]; lia.
Qed.

Lemma drop_nil n : drop n [] = [].
Proof. destruct n; reflexivity. Qed.

Lemma drop_drop a b (s : str) : drop a (drop b s) = drop (b + a) s.
Proof.
  revert s; induction b as [|b IH]; intros s; [reflexivity|].
  destruct s as [|x s]; [rewrite !drop_nil; reflexivity|]. cbn [drop Nat.add]. apply IH.
Qed.

Lemma counted_eol_drop j s i : counted_eol (drop j s) i = counted_eol s (j + i).
Proof. unfold counted_eol. rewrite drop_drop. reflexivity. Qed.

Lemma counted_eol_S b t i : counted_eol (b :: t) (S i) = counted_eol t i.
Proof. reflexivity. Qed.

(* ---- scanning k1 + k2 bytes = scanning k1, then k2 from there ---- *)
Lemma scan_split s l c a k :
  scan s l c (a + k) = scan (drop a s) (fst (scan s l c a)) (snd (scan s l c a)) k.
Proof.
  revert s l c; induction a as [|a IH]; intros s l c; [reflexivity|].
  destruct s as [|b t].
  - rewrite !scan_nil. cbn [fst snd]. rewrite ?drop_nil, ?scan_nil. destruct k; reflexivity.
  - cbn [Nat.add drop]. rewrite !scan_cons. destruct (classify b t); apply IH.
Qed.

(* ---- with no line ending among the next k bytes, only the column moves ---- *)
Lemma scan_no_eol s l c k :
  (forall i, (i < k)%nat -> counted_eol s i = false) ->
  scan s l c k = (l, c + count_starts (take k s)).
Proof.
  revert s l c; induction k as [|k IH]; intros s l c H.
  - cbn [scan take]. rewrite count_starts_nil. f_equal. lia.
  - destruct s as [|b t].
    + cbn [scan take]. rewrite count_starts_nil. f_equal. lia.
    + assert (Ht : forall i, (i < k)%nat -> counted_eol t i = false).
      { intros i Hi. rewrite <- (counted_eol_S b). apply H. lia. }
      pose proof (H O ltac:(lia)) as H0. unfold counted_eol in H0. cbn [drop] in H0.
      rewrite scan_cons. cbn [take]. rewrite count_starts_cons.
      destruct (classify b t) eqn:E; try discriminate.
      * rewrite (IH _ _ _ Ht). rewrite (classify_crlf_not_cont _ _ E). f_equal. lia.
      * rewrite (IH _ _ _ Ht). rewrite (classify_cont _ _ E). f_equal.
      * rewrite (IH _ _ _ Ht). rewrite (classify_start_not_cont _ _ E). f_equal. lia.
Qed.

(* ---- every checkpoint records the state of the direct definition at its offset ---- *)
Lemma marks_valid s : forall o l c m,
  In m (marks_from s o l c) ->
  exists j, (j <= length s)%nat /\ m_off m = o + N.of_nat j /\ scan s l c j = (m_line m, m_col m).
Proof.
  induction s as [|b t IH]; intros o l c m Hin; [destruct Hin|].
  rewrite marks_cons in Hin.
  assert (Rest : forall l' c', In m (marks_from t (o + 1) l' c') ->
             scan (b :: t) l c 1 = (l', c') ->
             exists j, (j <= length (b :: t))%nat /\ m_off m = o + N.of_nat j /\
                       scan (b :: t) l c j = (m_line m, m_col m)).
  { intros l' c' Hin' Hstep. destruct (IH _ _ _ _ Hin') as (j & Hj & Ho & Hs).
    exists (S j). split; [cbn [length]; lia|]. split; [lia|].
    change (S j) with (1 + j)%nat. rewrite scan_split. rewrite Hstep. cbn [fst snd drop]. exact Hs. }
  destruct (classify b t) eqn:E.
  - apply (Rest l (c + 1) Hin). rewrite scan_cons, E. reflexivity.
  - destruct Hin as [<-|Hin].
    + exists 1%nat. split; [cbn [length]; lia|]. split; [cbn; lia|].
      rewrite scan_cons, E. reflexivity.
    + apply (Rest (l + 1) 0 Hin). rewrite scan_cons, E. reflexivity.
  - apply (Rest l c Hin). rewrite scan_cons, E. reflexivity.
  - destruct ((c mod 16 =? 0) && (0 <? c)).
    + destruct Hin as [<-|Hin].
      * exists 0%nat. split; [lia|]. split; [cbn; lia|]. reflexivity.
      * apply (Rest l (c + 1) Hin). rewrite scan_cons, E. reflexivity.
    + apply (Rest l (c + 1) Hin). rewrite scan_cons, E. reflexivity.
Qed.

(* ---- every line ending is followed immediately by a checkpoint ---- *)
Lemma marks_cover s : forall o l c i,
  counted_eol s i = true ->
  exists m, In m (marks_from s o l c) /\ m_off m = o + N.of_nat i + 1.
Proof.
  induction s as [|b t IH]; intros o l c i H.
  - unfold counted_eol in H. rewrite drop_nil in H. discriminate.
  - rewrite marks_cons. destruct i as [|i].
    + unfold counted_eol in H. cbn [drop] in H.
      destruct (classify b t); try discriminate.
      eexists. split; [left; reflexivity|]. cbn. lia.
    + rewrite counted_eol_S in H.
      assert (R : forall l' c', exists m, In m (marks_from t (o + 1) l' c') /\ m_off m = o + N.of_nat (S i) + 1).
      { intros l' c'. destruct (IH (o + 1) l' c' i H) as (m & Hm & Ho). exists m. split; [exact Hm|lia]. }
      destruct (classify b t).
      * apply R.
      * destruct (R (l + 1) 0) as (m & Hm & Ho). exists m. split; [right; exact Hm|exact Ho].
      * apply R.
      * destruct ((c mod 16 =? 0) && (0 <? c)).
        -- destruct (R l (c + 1)) as (m & Hm & Ho). exists m. split; [right; exact Hm|exact Ho].
        -- apply R.
Qed.

(* ---- offsets are strictly increasing ---- *)
Definition lt_off (a b : mark) : Prop := m_off a < m_off b.

Lemma marks_sorted s : forall o l c,
  StronglySorted lt_off (marks_from s o l c) /\
  (forall m, In m (marks_from s o l c) ->
     o <= m_off m /\ (m_off m = o -> (c mod 16 =? 0) && (0 <? c) = true)).
Proof.
  induction s as [|b t IH]; intros o l c.
  - split; [constructor|intros m []].
  - rewrite marks_cons.
    assert (R : forall l' c', forall m, In m (marks_from t (o + 1) l' c') -> o + 1 <= m_off m).
    { intros l' c' m Hm. apply (proj2 (IH (o + 1) l' c') m Hm). }
    destruct (classify b t).
    + split; [apply IH|]. intros m Hm. pose proof (R _ _ m Hm). split; [lia|intros; lia].
    + split.
      * constructor; [apply IH|]. apply Forall_forall. intros m Hm.
        destruct (proj2 (IH (o + 1) (l + 1) 0) m Hm) as [Hge Heq]. unfold lt_off. cbn [m_off].
        destruct (N.eq_dec (m_off m) (o + 1)) as [E|E]; [|lia].
        specialize (Heq E). cbn in Heq. discriminate.
      * intros m [<-|Hm]; cbn [m_off]; [split; [lia|intros; lia]|].
        pose proof (R _ _ m Hm). split; [lia|intros; lia].
    + split; [apply IH|]. intros m Hm. pose proof (R _ _ m Hm). split; [lia|intros; lia].
    + destruct ((c mod 16 =? 0) && (0 <? c)) eqn:Ck.
      * split.
        -- constructor; [apply IH|]. apply Forall_forall. intros m Hm.
           pose proof (R _ _ m Hm). unfold lt_off. cbn [m_off]. lia.
        -- intros m [<-|Hm]; cbn [m_off]; [split; [lia|auto]|].
           pose proof (R _ _ m Hm). split; [lia|intros; lia].
      * split; [apply IH|]. intros m Hm. pose proof (R _ _ m Hm). split; [lia|intros; lia].
Qed.

(* ---- what the search returns ---- *)
Lemma last_le_ge ms : forall key cur,
  (forall m, In m ms -> m_off cur <= m_off m) -> StronglySorted lt_off ms ->
  m_off cur <= m_off (last_le ms key cur).
Proof.
  induction ms as [|m1 t IH]; intros key cur Hge Hs; cbn [last_le]; [lia|].
  destruct (m_off m1 <=? key); [|lia].
  inversion Hs as [|? ? Hs' Hall]; subst.
  assert (m_off m1 <= m_off (last_le t key m1)).
  { apply IH; [|exact Hs']. intros m Hm. rewrite Forall_forall in Hall. specialize (Hall m Hm).
    unfold lt_off in Hall. lia. }
  specialize (Hge m1 (or_introl eq_refl)). lia.
Qed.

Lemma last_le_spec ms : forall key cur,
  StronglySorted lt_off ms -> m_off cur <= key ->
  (forall m, In m ms -> m_off cur <= m_off m) ->
  let r := last_le ms key cur in
  (r = cur \/ In r ms) /\ m_off r <= key /\
  (forall m, In m ms -> m_off m <= key -> m_off m <= m_off r).
Proof.
  induction ms as [|m1 t IH]; intros key cur Hs Hcur Hge; cbn [last_le].
  - split; [left; reflexivity|]. split; [exact Hcur|intros m []].
  - inversion Hs as [|? ? Hs' Hall]; subst. rewrite Forall_forall in Hall.
    destruct (N.leb_spec (m_off m1) key) as [Hle|Hgt].
    + assert (Hge1 : forall m, In m t -> m_off m1 <= m_off m).
      { intros m Hm. specialize (Hall m Hm). unfold lt_off in Hall. lia. }
      destruct (IH key m1 Hs' Hle Hge1) as (Hin & Hk & Hmax).
      split; [right; destruct Hin as [->|Hin]; [left; reflexivity|right; exact Hin]|].
      split; [exact Hk|].
      intros m [<-|Hm] Hmk; [apply last_le_ge; assumption|apply Hmax; assumption].
    + split; [left; reflexivity|]. split; [exact Hcur|].
      intros m [<-|Hm] Hmk; [lia|]. specialize (Hall m Hm). unfold lt_off in Hall. lia.
Qed.

(* ------------------------------------------------------------------ *)
(* main theorem: sparse checkpoints + search + forward count = direct definition *)

Theorem get_position_spec src off : get_position src off = pos_spec src off.
Proof.
  unfold get_position, pos_spec, marks_of. set (key := off + 1).
  cbn [last_le m_off first_mark].
  replace (0 <=? key) with true by lia.
  destruct (marks_sorted src 0 1 0) as [Hsorted Hlb].
  assert (Hge0 : forall m, In m (marks_from src 0 1 0) -> m_off first_mark <= m_off m)
    by (intros m Hm; cbn; lia).
  destruct (last_le_spec (marks_from src 0 1 0) key first_mark Hsorted ltac:(cbn; lia) Hge0)
    as (Hin & Hk & Hmax).
  set (m := last_le (marks_from src 0 1 0) key first_mark) in *.
  assert (Hvalid : exists j, m_off m = N.of_nat j /\ scan src 1 0 j = (m_line m, m_col m)).
  { destruct Hin as [->|Hin].
    - exists 0%nat. split; reflexivity.
    - destruct (marks_valid src 0 1 0 m Hin) as (j & _ & Ho & Hs). exists j. split; [lia|exact Hs]. }
  destruct Hvalid as (j & Hj & Hscan).
  set (K := N.to_nat key).
  assert (HjK : (j <= K)%nat) by lia.
  replace K with (j + (K - j))%nat by lia.
  rewrite scan_split, Hscan. cbn [fst snd].
  rewrite scan_no_eol.
  - unfold sub, takeN, dropN.
    replace (N.to_nat (key - m_off m)) with (K - j)%nat by lia.
    replace (N.to_nat (m_off m)) with j by lia. reflexivity.
  - intros i Hi. rewrite counted_eol_drop.
    destruct (counted_eol src (j + i)) eqn:E; [|reflexivity]. exfalso.
    destruct (marks_cover src 0 1 0 (j + i) E) as (m' & Hm' & Ho').
    assert (m_off m' <= key) by lia.
    specialize (Hmax m' Hm' H). lia.
Qed.

Corollary get_positions_spec src s e :
  get_positions src s e = (pos_spec src s, pos_spec src (if 0 <? e then e - 1 else e)).
Proof. unfold get_positions. rewrite !get_position_spec. reflexivity. Qed.

(* ------------------------------------------------------------------ *)
(* the direct definition, declaratively: line = 1 + number of line endings completed
   within the first k bytes; with no line ending, column = number of characters *)
Fixpoint count_eols (s : str) (k : nat) : N :=
  match k, s with
  | O, _ => 0
  | _, [] => 0
  | S k', b :: t => (match classify b t with Eol => 1 | _ => 0 end) + count_eols t k'
  end.

Lemma scan_line s : forall l c k, fst (scan s l c k) = l + count_eols s k.
Proof.
  induction s as [|b t IH]; intros l c k.
  - rewrite scan_nil. destruct k; cbn; lia.
  - destruct k as [|k]; [cbn; lia|].
    rewrite scan_cons. cbn [count_eols]. destruct (classify b t); rewrite IH; lia.
Qed.

Corollary pos_spec_line src off :
  fst (pos_spec src off) = 1 + count_eols src (N.to_nat (off + 1)).
Proof. unfold pos_spec. apply scan_line. Qed.

(* column: characters since the last completed line ending *)
Corollary pos_spec_col src off j :
  (j <= N.to_nat (off + 1))%nat ->
  (forall i, (i < N.to_nat (off + 1) - j)%nat -> counted_eol src (j + i) = false) ->
  (j = 0%nat \/ counted_eol src (j - 1) = true) ->
  snd (pos_spec src off) = count_starts (take (N.to_nat (off + 1) - j) (drop j src)).
Proof.
  intros Hj Hno Hlast. unfold pos_spec.
  replace (N.to_nat (off + 1)) with (j + (N.to_nat (off + 1) - j))%nat at 1 by lia.
  rewrite scan_split.
  assert (Hc : snd (scan src 1 0 j) = 0).
  { destruct Hlast as [->|Hl]; [reflexivity|].
    destruct j as [|j']; [reflexivity|].
    replace (S j' - 1)%nat with j' in Hl by lia.
    replace (S j') with (j' + 1)%nat by lia. rewrite scan_split.
    unfold counted_eol in Hl. destruct (drop j' src) as [|b t]; [discriminate|].
    rewrite scan_cons. destruct (classify b t); try discriminate. reflexivity. }
  rewrite scan_no_eol.
  - cbn [snd]. rewrite Hc. lia.
  - intros i Hi. rewrite counted_eol_drop. apply Hno. exact Hi.
Qed.
