(* Every node the inline parser builds has an inline kind (property C14): the engine pass of NoRootProofs.v for the
   predicate "inline kind" (delimiter placeholders included; fragments-join removes those) on the CHILDREN of the
   state's node. *)
From Coq Require Import String.
From MdIt Require Import Prims Tables Escape NormRef Indent Mdurl SourceMap Ruler LinkParse Tree Render Block Inline Core.
From MdIt Require Import TreeProofs BlockProofs InlineProofs LookaheadProofs RangeProofs DepthProofs InlineDepthProofs.
From Coq Require Import Lia ZifyBool ZifyN ZifyNat.
Local Open Scope list_scope.
Local Open Scope N_scope.

Arguments N.eqb : simpl never.
Arguments N.leb : simpl never.
Arguments N.ltb : simpl never.
Arguments N.add : simpl never.
Arguments N.sub : simpl never.

Definition kind_ok (k : kind) : bool :=
  match k with
  | KText _ | KTextSpecial _ _ _ | KSoftbreak | KHardbreak | KCodeInline _ _ | KEm _ | KStrong _ | KStrike _ | KLink _ _ | KImage _ _
  | KAutolink _ | KHtmlInline _ | KCustomInline _ | KCustomPair _ | KEmphMarker _ _ _ _ _ => true
  | _ => false
  end.

Fixpoint raw_free (n : node) : bool :=
  let 'Node k _ _ _ cs := n in kind_ok k && forallb raw_free cs.
Definition rfl (cs : list node) : bool := forallb raw_free cs.

Lemma raw_free_node k m a e cs : raw_free (Node k m a e cs) = kind_ok k && rfl cs.
Proof. reflexivity. Qed.
Lemma raw_free_mk k m cs : raw_free (mk k m cs) = kind_ok k && rfl cs.
Proof. reflexivity. Qed.
Lemma raw_free_children n : raw_free n = true -> rfl (n_children n) = true.
Proof. destruct n. cbn [raw_free n_children]. intros H. apply andb_true_iff in H. apply H. Qed.
Lemma raw_free_set_map n m : raw_free (set_map n m) = raw_free n.
Proof. destruct n; reflexivity. Qed.
Lemma raw_free_set_kind n k : raw_free (set_kind n k) = kind_ok k && rfl (n_children n).
Proof. destruct n; reflexivity. Qed.
Lemma raw_free_set_children n cs : raw_free n = true -> rfl cs = true -> raw_free (set_children n cs) = true.
Proof. destruct n. cbn [raw_free set_children]. intros H Hc. apply andb_true_iff in H. destruct H as [Hk _]. rewrite Hk. exact Hc. Qed.
Lemma rfl_app a b : rfl (a ++ b) = rfl a && rfl b.
Proof. apply forallb_app. Qed.
Lemma rfl_rev l : rfl (rev l) = rfl l.
Proof. induction l as [|x t IH]; [reflexivity|]. cbn [rev]. rewrite rfl_app, IH. cbn [rfl forallb]. rewrite andb_true_r. apply andb_comm. Qed.
Lemma raw_free_push n c : raw_free n = true -> raw_free c = true -> raw_free (push_child n c) = true.
Proof.
  intros Hn Hc. unfold push_child. apply raw_free_set_children; [exact Hn|]. rewrite rfl_app, (raw_free_children n Hn). cbn. rewrite Hc. reflexivity.
Qed.

Definition fns_ok (fns : list (option kind)) : bool := forallb (fun o => match o with Some k => kind_ok k | None => true end) fns.
Definition pairs_ok (cfg : icfg) : bool := forallb (fun p : N * list (option kind) => fns_ok (snd p)) (ic_pairs cfg).

Lemma rfl_split_last cs init x : split_last cs = Some (init, x) -> rfl cs = true -> rfl init = true /\ raw_free x = true.
Proof.
  intros H Hc. apply split_last_spec in H. subst cs. rewrite rfl_app in Hc. apply andb_true_iff in Hc. destruct Hc as [A B].
  cbn [rfl forallb] in B. rewrite andb_true_r in B. auto.
Qed.

Lemma or_opt_some {A} (a b : option A) x : or_opt a b = Some x -> a = Some x \/ b = Some x.
Proof. destruct a; cbn; auto. Qed.

Lemma matched_rule_ok fns mx n k : fns_ok fns = true -> matched_rule fns mx = Some (n, k) -> kind_ok k = true.
Proof.
  intros Hf. unfold matched_rule. cbv zeta.
  assert (T : forall i n k, match nth (N.to_nat (i - 1)) fns None with Some k0 => Some (i, k0) | None => None end = Some (n, k) -> kind_ok k = true).
  { intros i n0 k0. destruct (nth (N.to_nat (i - 1)) fns None) as [k1|] eqn:E; [|discriminate]. intros H. injection H as _ <-.
    unfold fns_ok in Hf. rewrite forallb_forall in Hf. destruct (nth_in_or_default (N.to_nat (i - 1)) fns None) as [Hin|Hd]; [|rewrite E in Hd; discriminate].
    rewrite E in Hin. apply (Hf _ Hin). }
  repeat match goal with |- (if ?c then _ else _) = _ -> _ => destruct c end; intros H;
    repeat (apply or_opt_some in H; destruct H as [H|H]); try discriminate; eapply T; exact H.
Qed.

Lemma pair_fns_ok cfg m : pairs_ok cfg = true -> fns_ok (pair_fns cfg m) = true.
Proof.
  unfold pairs_ok, pair_fns. induction (ic_pairs cfg) as [|[k f] t IH]; [reflexivity|]. cbn [forallb snd]. intros H. apply andb_true_iff in H.
  destruct H as [Hf Ht]. destruct (k =? m); [exact Hf|apply IH; exact Ht].
Qed.

Lemma match_pair_safe n fns : fns_ok fns = true -> forall o c om cm inner o2 c2 om2 cm2 inner2 any,
  rfl inner = true -> match_pair n fns o c om cm inner = inr (o2, c2, om2, cm2, inner2, any) -> rfl inner2 = true.
Proof.
  intros Hf. induction n as [|n IH]; intros o c om cm inner o2 c2 om2 cm2 inner2 any Hi; cbn [match_pair].
  - intros H. injection H as _ _ _ _ <- _. exact Hi.
  - destruct (_ && _); [|intros H; injection H as _ _ _ _ <- _; exact Hi].
    destruct (matched_rule fns _) as [[mlen knd]|] eqn:Em; [|intros H; injection H as _ _ _ _ <- _; exact Hi].
    apply (matched_rule_ok _ _ _ _ Hf) in Em. destruct (map_shift_start cm mlen) as [cm' ep].
    match goal with |- bind ?a _ = _ -> _ => destruct a as [|[om' sp]] end; cbn [bind]; [discriminate|].
    match goal with |- bind (match_pair n fns ?o' ?c' ?a ?b ?i) _ = _ -> _ => destruct (match_pair n fns o' c' a b i) as [|[[[[[o3 c3] om3] cm3] inner3] any3]] eqn:E end; cbn [bind]; [discriminate|].
    intros H. injection H as _ _ _ _ <- _. eapply IH; [|exact E]. cbn [rfl forallb]. rewrite raw_free_mk, Em. cbn [andb]. fold (rfl inner). rewrite Hi. reflexivity.
Qed.

Lemma match_openers_safe cfg n : pairs_ok cfg = true -> forall rb af idx mi c cm any cs' c' cm' any',
  rfl rb = true -> rfl af = true ->
  match_openers cfg n rb af idx mi c cm any = inr (cs', c', cm', any') -> rfl cs' = true.
Proof.
  intros Hp. induction n as [|n IH]; intros rb af idx mi c cm any cs' c' cm' any' Hb Ha; cbn [match_openers].
  - intros H. injection H as <- _ _ _. rewrite rev_append_rev, rfl_app, rfl_rev, Hb, Ha. reflexivity.
  - destruct (idx <=? mi); [intros H; injection H as <- _ _ _; rewrite rev_append_rev, rfl_app, rfl_rev, Hb, Ha; reflexivity|].
    destruct rb as [|cand rb']; [intros H; injection H as <- _ _ _; exact Ha|].
    cbn [rfl forallb] in Hb. apply andb_true_iff in Hb. destruct Hb as [Hc Hb']. fold (rfl rb') in Hb'.
    assert (Skip : match_openers cfg n rb' (cand :: af) (idx - 1) mi c cm any = inr (cs', c', cm', any') -> rfl cs' = true).
    { apply IH; [exact Hb'|]. cbn [rfl forallb]. rewrite Hc. exact Ha. }
    destruct (emark_of (n_kind cand)) as [o|]; [|exact Skip].
    destruct (_ && negb _); [|exact Skip].
    destruct (match_pair _ _ o c (n_map cand) cm af) as [|[[[[[o2 c2] om2] cm2] inner2] any2]] eqn:E; cbn [bind]; [discriminate|].
    destruct any2; [|exact Skip].
    apply (match_pair_safe _ _ (pair_fns_ok cfg _ Hp)) in E; [|exact Ha].
    apply IH; [exact Hb'|]. destruct (0 <? em_remaining o2); [|exact E].
    cbn [rfl forallb]. rewrite raw_free_set_map, raw_free_set_kind. cbn [kind_of_emark kind_ok andb]. rewrite (raw_free_children _ Hc). exact E.
Qed.


(* ------------------------------------------------------------------ *)
(* the state's node: its children are free of inline roots, and its own kind never changes *)

Definition nok (n : node) : bool := rfl (n_children n).
Definition ist (st st' : istate) : Prop := nok (i_node st') = true /\ n_kind (i_node st') = n_kind (i_node st).

Lemma nok_push n c : nok n = true -> raw_free c = true -> nok (push_child n c) = true.
Proof. unfold nok, push_child. destruct n. cbn [n_children set_children]. intros H Hc. rewrite rfl_app, H. cbn. rewrite Hc. reflexivity. Qed.
Lemma nok_set_children n cs : nok (set_children n cs) = rfl cs.
Proof. destruct n; reflexivity. Qed.
Lemma kind_push n c : n_kind (push_child n c) = n_kind n.
Proof. destruct n; reflexivity. Qed.
Lemma kind_set_children n cs : n_kind (set_children n cs) = n_kind n.
Proof. destruct n; reflexivity. Qed.
Lemma kind_set_openers n m v : n_kind (set_openers n m v) = n_kind n.
Proof. destruct n; reflexivity. Qed.
Lemma nok_set_openers n m v : nok (set_openers n m v) = nok n.
Proof. destruct n; reflexivity. Qed.

Ltac nfin Hs := split; [unfold nok in *; cbn [i_node iset_node iset_bt iset_ll set_bt ipush] in *;
    first [assumption | (apply nok_push; [assumption|reflexivity]) | (rewrite nok_set_children; assumption)]
  | cbn [i_node iset_node iset_bt iset_ll set_bt ipush]; rewrite ?kind_push, ?kind_set_children; reflexivity].

Lemma ist_refl st : nok (i_node st) = true -> ist st st.
Proof. split; [assumption|reflexivity]. Qed.
Lemma ist_trans a b c : ist a b -> ist b c -> ist a c.
Proof. unfold ist. intuition congruence. Qed.
Lemma ist_ipush st c : nok (i_node st) = true -> raw_free c = true -> ist st (ipush st c).
Proof. intros H Hc. split; cbn [i_node ipush iset_node]; [apply nok_push; assumption|apply kind_push]. Qed.

Lemma ttpush_safe st a b st' : nok (i_node st) = true -> trailing_text_push st a b = inr st' -> ist st st'.
Proof.
  intros Hs H. unfold trailing_text_push in H. hinv H; injection H as <-; try (apply ist_ipush; [exact Hs|reflexivity]).
  all: match goal with E : split_last _ = Some _ |- _ => apply rfl_split_last in E; [|exact Hs]; destruct E as [Ei Ex] end.
  all: split; cbn [i_node iset_node]; [|apply kind_set_children].
  all: rewrite nok_set_children, rfl_app, Ei; cbn [rfl forallb andb]; rewrite andb_true_r; rewrite raw_free_node in *; exact Ex.
Qed.

Lemma ttpop_safe st n st' : nok (i_node st) = true -> trailing_text_pop st n = inr st' -> ist st st'.
Proof.
  intros Hs H. unfold trailing_text_pop in H. hinv H; injection H as <-; try (apply ist_refl; exact Hs).
  all: match goal with E : split_last _ = Some _ |- _ => apply rfl_split_last in E; [|exact Hs]; destruct E as [Ei Ex] end.
  all: split; cbn [i_node iset_node]; [|apply kind_set_children].
  all: rewrite nok_set_children, ?rfl_app, ?Ei; cbn [rfl forallb andb]; try reflexivity.
  all: rewrite andb_true_r; rewrite raw_free_node in *; exact Ex.
Qed.

Lemma samd_safe cfg st m st' : pairs_ok cfg = true -> nok (i_node st) = true -> scan_and_match_delimiters cfg st m = inr st' -> ist st st'.
Proof.
  intros Hp Hs. unfold scan_and_match_delimiters.
  destruct (split_last (n_children (i_node st))) as [[init closer_tok]|] eqn:El; [|discriminate].
  destruct init as [|i0 it]; [intros H; injection H as <-; apply ist_refl; exact Hs|].
  apply rfl_split_last in El; [|exact Hs]. destruct El as [Hi Hc].
  destruct (emark_of (n_kind closer_tok)) as [closer|]; [|discriminate]. cbv zeta.
  destruct (split_last (i0 :: it)) as [[init' lastn]|] eqn:El2; cbn [bind]; [|discriminate].
  apply rfl_split_last in El2; [|exact Hi]. destruct El2 as [Hi' Hl].
  destruct (match_openers _ _ _ _ _ _ _ _ _) as [|[[[cs' closer'] cmap'] any]] eqn:E; cbn [bind]; [discriminate|].
  apply (match_openers_safe _ _ Hp) in E; [|rewrite rfl_rev; exact Hi'|cbn [rfl forallb]; rewrite Hl; reflexivity].
  intros H. injection H as <-. cbn [i_node iset_node].
  set (n1 := set_children (i_node st) cs').
  assert (A1 : nok n1 = true /\ n_kind n1 = n_kind (i_node st)) by (subst n1; rewrite nok_set_children, kind_set_children; auto).
  assert (A2 : forall nd, (nok nd = true /\ n_kind nd = n_kind (i_node st)) ->
     (nok (if 0 <? em_remaining closer' then push_child nd (set_map (set_kind closer_tok (kind_of_emark closer')) cmap') else nd) = true /\
      n_kind (if 0 <? em_remaining closer' then push_child nd (set_map (set_kind closer_tok (kind_of_emark closer')) cmap') else nd) = n_kind (i_node st))).
  { intros nd [Hn Hk]. destruct (0 <? em_remaining closer'); [|auto]. split; [|rewrite kind_push; exact Hk].
    apply nok_push; [exact Hn|]. rewrite raw_free_set_map, raw_free_set_kind. cbn [kind_of_emark kind_ok andb]. apply raw_free_children. exact Hc. }
  unfold ist. cbn [i_node iset_node]. apply A2. destruct any; [exact A1|]. destruct (_ =? 0); [exact A1|].
  rewrite nok_set_openers, kind_set_openers. exact A1.
Qed.

Ltac isafe Hs := first [ (apply ist_refl; exact Hs) | (apply ist_ipush; [exact Hs|reflexivity])
  | (split; cbn [i_node iset_node iset_bt iset_ll set_bt ipush]; [first [exact Hs | apply nok_push; [exact Hs|reflexivity]] | rewrite ?kind_push; reflexivity]) ].

Lemma rule_text_safe cfg st silent st' o : nok (i_node st) = true -> rule_text cfg st silent = inr (st', o) -> ist st st'.
Proof.
  intros Hs H. destruct silent; unfold rule_text in H; hinv H; injection H as <- _; try isafe Hs.
  eapply ttpush_safe; eassumption.
Qed.
Lemma rule_newline_safe st silent st' o : nok (i_node st) = true -> rule_newline st silent = inr (st', o) -> ist st st'.
Proof.
  intros Hs H. destruct silent; unfold rule_newline in H; hinv H; injection H as <- _; try isafe Hs.
  all: match goal with E : trailing_text_pop _ _ = inr _ |- _ => apply ttpop_safe in E; [|exact Hs]; destruct E as [E1 E2] end.
  all: eapply ist_trans; [split; eassumption|]; apply ist_ipush; [assumption|].
  all: rewrite raw_free_mk; match goal with |- context [if ?c then _ else _] => destruct c end; reflexivity.
Qed.
Lemma rule_escape_safe st silent st' o : nok (i_node st) = true -> rule_escape st silent = inr (st', o) -> ist st st'.
Proof. intros Hs H. destruct silent; unfold rule_escape in H; hinv H; injection H as <- _; isafe Hs. Qed.
Lemma rule_code_pair_safe st m silent st' o : nok (i_node st) = true -> rule_code_pair st m silent = inr (st', o) -> ist st st'.
Proof. intros Hs H. destruct silent; unfold rule_code_pair in H; hinv H; injection H as <- _; isafe Hs. Qed.
Lemma rule_autolink_safe st silent st' o : nok (i_node st) = true -> rule_autolink st silent = inr (st', o) -> ist st st'.
Proof. intros Hs H. destruct silent; unfold rule_autolink in H; hinv H; injection H as <- _; isafe Hs. Qed.
Lemma rule_entity_safe st silent st' o : nok (i_node st) = true -> rule_entity st silent = inr (st', o) -> ist st st'.
Proof. intros Hs H. destruct silent; unfold rule_entity in H; hinv H; injection H as <- _; isafe Hs. Qed.
Lemma rule_html_inline_safe st silent st' o : nok (i_node st) = true -> rule_html_inline st silent = inr (st', o) -> ist st st'.
Proof. intros Hs H. destruct silent; unfold rule_html_inline in H; hinv H; injection H as <- _; isafe Hs. Qed.
Lemma rule_custom_inline_safe st p v silent st' o : nok (i_node st) = true -> rule_custom_inline st p v silent = inr (st', o) -> ist st st'.
Proof. intros Hs H. destruct silent; unfold rule_custom_inline in H; hinv H; injection H as <- _; isafe Hs. Qed.
Lemma rule_emph_safe cfg m cs st silent st' o : pairs_ok cfg = true -> nok (i_node st) = true -> rule_emph cfg m cs st silent = inr (st', o) -> ist st st'.
Proof.
  intros Hp Hs H. destruct silent; unfold rule_emph in H; hinv H; injection H as <- _; try isafe Hs.
  all: match goal with E : (if ?b then _ else _) = inr _ |- _ => destruct b end.
  - match goal with E : scan_and_match_delimiters _ _ _ = inr _ |- _ => apply (samd_safe _ _ _ _ Hp) in E end.
    + eapply ist_trans; [|eassumption]. apply ist_ipush; [exact Hs|reflexivity].
    + cbn [i_node ipush iset_node]. apply nok_push; [exact Hs|reflexivity].
  - match goal with E : inr _ = inr _ |- _ => injection E as <- end. apply ist_ipush; [exact Hs|reflexivity].
Qed.

Section InlineEngine.
Variable cfg : icfg.
Variable f : nat.
Let TK := itokenize f cfg.
Let SK := iskip f cfg.
Hypothesis Hp : pairs_ok cfg = true.
Hypothesis TK_safe : forall st st', nok (i_node st) = true -> TK st = inr st' -> ist st st'.

Lemma rule_link_safe st silent nested offset mkk st' o : (forall u t, kind_ok (mkk u t) = true) -> nok (i_node st) = true ->
  rule_link TK SK st silent nested offset mkk = inr (st', o) -> ist st st'.
Proof.
  intros Hk Hs. unfold rule_link. cbv zeta.
  destruct (parse_link SK st (i_pos st + offset) nested) as [|[s1 pl]] eqn:E; cbn [bind]; [discriminate|].
  pose proof (parse_link_node SK (iskip_node_untouched cfg f) _ _ _ _ _ E) as Hn.
  assert (H1 : ist st s1) by (split; rewrite Hn; [exact Hs|reflexivity]).
  destruct pl as [p|]; [|intros H; injection H as <- _; exact H1].
  destruct silent; [destruct (_ <=? _); [|discriminate]; intros H; injection H as <- _; exact H1|].
  match goal with |- bind (TK ?inner) _ = _ -> _ => destruct (TK inner) as [|inner'] eqn:Et end; cbn [bind]; [discriminate|].
  apply TK_safe in Et; [|reflexivity]. destruct Et as [En Ek]. cbn [i_node] in Ek.
  intros H. hinv H. injection H as <- _. split; cbn [i_node iset_ll ipush iset_node]; [|rewrite kind_push, Hn; reflexivity].
  apply nok_push; [rewrite Hn; exact Hs|]. rewrite raw_free_set_map. destruct (i_node inner') as [k0 m0 a0 e0 c0].
  cbn [n_kind] in Ek. subst k0. rewrite raw_free_node. unfold mk. cbn [n_kind]. rewrite Hk. exact En.
Qed.

Lemma set_bt_node st m v : i_node (set_bt st m v) = i_node st.
Proof. unfold set_bt. destruct st; reflexivity. Qed.

Lemma rule_code_pair_tok_safe st m silent st' o : nok (i_node st) = true -> rule_code_pair_tok TK st m silent = inr (st', o) -> ist st st'.
Proof.
  intros Hs. unfold rule_code_pair_tok.
  assert (Dn : forall v, ist st (set_bt st m v)) by (intros v; split; rewrite set_bt_node; [exact Hs|reflexivity]).
  destruct (irest st) as [|rest]; cbn [bind]; [discriminate|]. destruct rest as [|ch t]; [discriminate|].
  destruct (negb (ch =? m)); [intros H; injection H as <- _; apply ist_refl; exact Hs|].
  destruct (match rev (trailing_text_get st) with x :: _ => x =? m | [] => false end); [intros H; injection H as <- _; apply ist_refl; exact Hs|].
  destruct (get_bt st m) as [scanned maxv]. destruct (_ && _); [intros H; injection H as <- _; apply ist_refl; exact Hs|].
  destruct (code_scan _ _ _ _ _ _) as [|[o1 mv]]; cbn [bind]; [discriminate|]. cbn [fst snd].
  destruct o1 as [[ms me]|]; [|intros H; injection H as <- _; apply Dn].
  destruct silent; [intros H; injection H as <- _; apply Dn|].
  destruct (isl st _ ms) as [|raw]; cbn [bind]; [discriminate|]. cbv zeta.
  destruct (iget_map st (i_pos st) me) as [|mp]; cbn [bind]; [discriminate|].
  match goal with |- bind (TK ?inner) _ = _ -> _ => destruct (TK inner) as [|inner'] eqn:Et end; cbn [bind]; [discriminate|].
  apply TK_safe in Et; [|reflexivity]. destruct Et as [En Ek]. cbn [i_node] in Ek.
  match goal with |- (if ?c then _ else _) = _ -> _ => destruct c end; [|discriminate]. intros H. injection H as <- _.
  split; cbn [i_node]; rewrite ?set_bt_node; [|apply kind_push].
  apply nok_push; [exact Hs|]. destruct (i_node inner') as [k0 m0 a0 e0 c0]. cbn [n_kind] in Ek. subst k0. rewrite raw_free_node. exact En.
Qed.

Lemma run_rule_safe r st silent st' o : nok (i_node st) = true -> run_rule cfg TK SK r st silent = inr (st', o) -> ist st st'.
Proof.
  intros Hs. unfold run_rule.
  assert (Dn : ret (st, @None N) = inr (st', o) -> ist st st') by (intros H; injection H as <- _; apply ist_refl; exact Hs).
  destruct (r =? I_TEXT); [apply rule_text_safe; exact Hs|].
  destruct (r =? I_NEWLINE); [apply rule_newline_safe; exact Hs|].
  destruct (r =? I_ESCAPE); [apply rule_escape_safe; exact Hs|].
  destruct (r =? I_BACKTICK); [apply rule_code_pair_safe; exact Hs|].
  destruct (r =? I_EMPH_STAR); [apply rule_emph_safe; assumption|].
  destruct (r =? I_EMPH_UNDER); [apply rule_emph_safe; assumption|].
  destruct (r =? I_STRIKE); [apply rule_emph_safe; assumption|].
  destruct (r =? I_LINK).
  { destruct (irest st) as [|rest]; cbn [bind]; [discriminate|]. destruct rest as [|ch t]; [discriminate|].
    destruct (ch =? 91); [apply rule_link_safe; [reflexivity|exact Hs]|exact Dn]. }
  destruct (r =? I_IMAGE).
  { destruct (irest st) as [|rest]; cbn [bind]; [discriminate|].
    destruct rest as [|a0 t0]; [exact Dn|]. lit_cases_k a0 ltac:(exact Dn).
    destruct t0 as [|a1 t1]; [exact Dn|]. lit_cases_k a1 ltac:(exact Dn).
    apply rule_link_safe; [reflexivity|exact Hs]. }
  destruct (r =? I_LINKEND); [exact Dn|].
  destruct (r =? I_AUTOLINK); [apply rule_autolink_safe; exact Hs|].
  destruct (r =? I_ENTITY); [apply rule_entity_safe; exact Hs|].
  destruct (r =? I_HTMLINLINE); [apply rule_html_inline_safe; exact Hs|].
  destruct (r =? I_CUSTOM_LETTER); [apply rule_custom_inline_safe; exact Hs|].
  destruct (r =? I_CUSTOM_PUNCT); [apply rule_custom_inline_safe; exact Hs|].
  destruct (r =? I_CUSTOM_PAIR); [apply rule_code_pair_tok_safe; exact Hs|].
  exact Dn.
Qed.

Lemma try_rules_safe_i chain silent bump : forall st st' o, nok (i_node st) = true ->
  Inline.try_rules cfg TK SK chain st silent bump = inr (st', o) -> ist st st'.
Proof.
  induction chain as [|r t IH]; intros st st' o Hs; cbn [Inline.try_rules]; [intros H; injection H as <- _; apply ist_refl; exact Hs|].
  destruct (run_rule cfg TK SK r _ silent) as [|[s1 o1]] eqn:E; cbn [bind]; [discriminate|]. cbn [fst snd].
  apply run_rule_safe in E; [|destruct bump; exact Hs].
  assert (E' : ist st (if bump then iset_level s1 (i_level st) else s1)) by (destruct bump; exact E).
  destruct o1; [intros H; injection H as <- _; exact E'|]. intros H. apply IH in H; [|exact (proj1 E')]. eapply ist_trans; eassumption.
Qed.

Lemma itok_loop_safe n : forall st end_ st', nok (i_node st) = true -> Inline.tok_loop cfg TK SK n st end_ = inr st' -> ist st st'.
Proof.
  induction n as [|n IH]; intros st end_ st' Hs; cbn [Inline.tok_loop].
  - destruct (negb _); [|discriminate]. intros H. injection H as <-. apply ist_refl; exact Hs.
  - destruct (negb _); [intros H; injection H as <-; apply ist_refl; exact Hs|].
    match goal with |- bind ?X _ = _ -> _ => destruct X as [|[s1 o]] eqn:Et end; cbn [bind]; [discriminate|]. cbn [fst snd].
    assert (H1 : ist st s1).
    { destruct (i_level st <? ic_maxnest cfg); [eapply try_rules_safe_i; eassumption|injection Et as <- _; apply ist_refl; exact Hs]. }
    destruct o as [n'|].
    + destruct (_ <=? _); [intros H; injection H as <-; exact H1|]. intros H. apply IH in H; [|exact (proj1 H1)]. eapply ist_trans; [exact H1|exact H].
    + destruct (first_char_len s1) as [|cl]; cbn [bind]; [discriminate|].
      destruct (trailing_text_push s1 _ _) as [|s2] eqn:Ep; cbn [bind]; [discriminate|]. apply ttpush_safe in Ep; [|exact (proj1 H1)].
      intros H. apply IH in H; [|exact (proj1 Ep)]. eapply ist_trans; [exact H1|]. eapply ist_trans; [exact Ep|exact H].
Qed.
End InlineEngine.

Theorem itokenize_inl_kinds cfg : pairs_ok cfg = true -> forall f st st',
  nok (i_node st) = true -> itokenize f cfg st = inr st' -> ist st st'.
Proof.
  intros Hp. induction f as [|f IH]; intros st st' Hs; cbn [itokenize]; [discriminate|].
  unfold Inline.tokenize_body. apply (itok_loop_safe cfg f Hp IH); assumption.
Qed.

(* the nodes an inline root is replaced with contain no inline root *)
Theorem inline_parse_inl_kinds fuel cfg src map_ k m a e refs root' : pairs_ok cfg = true ->
  inline_parse fuel cfg src map_ (Node k m a e []) refs = inr root' -> rfl (n_children root') = true.
Proof.
  intros Hp. unfold inline_parse. cbv zeta. destruct (itokenize _ _ _) as [|st'] eqn:E; cbn [bind]; [discriminate|].
  intros H. injection H as <-. apply (itokenize_inl_kinds cfg Hp) in E; [exact (proj1 E)|reflexivity].
Qed.
