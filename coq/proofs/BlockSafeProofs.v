(* Property C01, the block pass: no index, slice, unwrap, overflow or assertion failure.
   For every document (list of line texts), every chain of block rules that does not contain the reference-definition
   rule, every nesting limit and every amount of recursion fuel, block_parse does not end in a Panic.
   (Hang / OutOfFuel are excluded by BlockProofs; together: it returns.)

   Invariant: the line table has at least b_max entries and in every entry the first non-blank offset lies within the
   text.  Every rule keeps the table (containers restore it), ends with the current line inside [start+1, b_max] when it
   accepts, and returns the state unchanged when it declines. *)
From Coq Require Import String.
From MdIt Require Import Prims Tables Escape NormRef Indent Mdurl LinkParse Tree HtmlRe Block.
From MdIt Require Import BlockProofs RefSafeProofs BlockRangeDefs.
From Coq Require Import Lia ZifyBool ZifyN ZifyNat.
Local Open Scope list_scope.
Local Open Scope N_scope.

Arguments N.eqb : simpl never.
Arguments N.leb : simpl never.
Arguments N.ltb : simpl never.
Arguments N.add : simpl never.
Arguments N.sub : simpl never.
Arguments Z.leb : simpl never.
Arguments Z.ltb : simpl never.
Arguments Z.sub : simpl never.
Arguments Z.of_N : simpl never.

Definition np {A} (P : A -> Prop) (r : res A) : Prop :=
  match r with inl (Panic _) => False | inl _ => True | inr x => P x end.

Lemma np_bind {A B} (Q : A -> Prop) (P : B -> Prop) (a : res A) f :
  np Q a -> (forall x, a = inr x -> Q x -> np P (f x)) -> np P (bind a f).
Proof. destruct a as [[k| |]|x]; cbn; try tauto. intros q H. apply H; [reflexivity|exact q]. Qed.

Lemma np_weaken {A} (P Q : A -> Prop) r : (forall x, P x -> Q x) -> np P r -> np Q r.
Proof. destruct r as [[k| |]|x]; cbn; auto. Qed.

Lemma np_ret {A} (P : A -> Prop) x : P x -> np P (ret x).
Proof. exact (fun H => H). Qed.

(* ------------------------------------------------------------------ *)
(* the invariant                                                         *)

(* a line record: the first non-blank offset lies within the text, and the text holds no line feed *)
Definition rec_wf (r : lrec) : Prop := ((l_first r <=? len (l_text r)) && (cl (l_text r) =? 0)) = true.
Definition lines_wf (ls : list lrec) : Prop := forall l r, nth_error ls l = Some r -> rec_wf r.
Definition binv (st : bstate) : Prop := (b_max st <= length (b_lines st))%nat /\ lines_wf (b_lines st).

Lemma nth_in_range {A} (l : list A) n : (n < length l)%nat -> exists x, nth_error l n = Some x.
Proof. intros H. destruct (nth_error l n) eqn:E; [eexists; reflexivity|]. apply nth_error_None in E. lia. Qed.

Lemma np_line_rec st l : binv st -> (l < b_max st)%nat ->
  np (fun r => nth_error (b_lines st) l = Some r /\ rec_wf r) (line_rec st l).
Proof.
  intros [Hm Hw] Hl. unfold line_rec. destruct (nth_in_range (b_lines st) l) as [r Hr]; [lia|]. rewrite Hr. cbn. split; [reflexivity|eapply Hw; exact Hr].
Qed.

Lemma np_line_indent st l : binv st -> (l < b_max st)%nat -> np (fun _ => True) (line_indent st l).
Proof. intros Hi Hl. unfold line_indent. eapply np_bind; [apply np_line_rec; assumption|]. intros; exact I. Qed.

Lemma np_get_line st l : binv st -> (l < b_max st)%nat -> np (fun _ => True) (get_line st l).
Proof.
  intros Hi Hl. unfold get_line. eapply np_bind; [apply np_line_rec; assumption|]. intros r _ [_ Hw]. unfold rec_wf, l_end in *.
  replace (l_first r <=? len (l_text r)) with true by lia. exact I.
Qed.

Lemma txs_nth st l r : nth_error (b_lines st) l = Some r -> nth_error (txs st) l = Some (l_text r).
Proof. intros H. unfold txs. apply (map_nth_error l_text l (b_lines st) H). Qed.

Definition pe_ok (st : bstate) (l : nat) (first : bool) (p : spos) : Prop :=
  exists r, nth_error (b_lines st) l = Some r /\ rec_wf r /\ p = SRel l (if first then l_first r else l_end r).

Lemma np_pos_first st l : binv st -> (l < b_max st)%nat -> np (pe_ok st l true) (pos_first st l).
Proof. intros Hi Hl. unfold pos_first. eapply np_bind; [apply np_line_rec; assumption|]. intros r _ [A B]. exists r. auto. Qed.
Lemma np_pos_end st l : binv st -> (l < b_max st)%nat -> np (pe_ok st l false) (pos_end st l).
Proof. intros Hi Hl. unfold pos_end. eapply np_bind; [apply np_line_rec; assumption|]. intros r _ [A B]. exists r. auto. Qed.

Lemma pe_ok_pos st l f p : pe_ok st l f p -> exists o, p = SRel l o /\ pos_ok (txs st) l o.
Proof.
  intros (r & Hr & Hw & ->). eexists. split; [reflexivity|]. exists (l_text r). split; [apply txs_nth; exact Hr|].
  unfold rec_wf, l_end in *. destruct f; lia.
Qed.

(* the range get_map returns: both ends are positions of the texts, in order *)
Definition gm_ok (st : bstate) (a b : nat) (mp : smap) : Prop :=
  exists oa ob, mp = Some (SRel a oa, SRel b ob) /\ pos_ok (txs st) a oa /\ pos_ok (txs st) b ob /\ (a = b -> oa <= ob).

Lemma np_get_map st a b : binv st -> (a <= b)%nat -> (b < b_max st)%nat -> np (gm_ok st a b) (get_map st a b).
Proof.
  intros Hi Hab Hb. unfold get_map. replace (a <=? b)%nat with true by (symmetry; apply PeanoNat.Nat.leb_le; exact Hab).
  eapply np_bind; [apply np_pos_first; [assumption|lia]|]. intros p1 _ (r1 & Hr1 & Hw1 & ->).
  eapply np_bind; [apply np_pos_end; assumption|]. intros p2 _ (r2 & Hr2 & Hw2 & ->).
  cbn. exists (l_first r1), (l_end r2). split; [reflexivity|]. unfold rec_wf, l_end in *.
  split; [exists (l_text r1); split; [apply txs_nth; exact Hr1|lia]|].
  split; [exists (l_text r2); split; [apply txs_nth; exact Hr2|lia]|].
  intros ->. rewrite Hr1 in Hr2. injection Hr2 as <-. lia.
Qed.

Lemma calc_rw_bound rs : forall indent start, len rs <= start -> snd (calc_rw_loop rs indent start) <= start.
Proof.
  induction rs as [|b t IH]; intros indent start H; cbn [calc_rw_loop].
  - destruct (0 <? indent)%Z; cbn [snd]; lia.
  - assert (Ht : len t <= start) by (unfold len in *; cbn [length] in H; lia).
    destruct (indent <=? 0)%Z; [cbn [snd]; lia|]. destruct (is_cont b); [apply IH; exact Ht|].
    destruct (b =? 9).
    + destruct (indent <? _)%Z; [cbn [snd]; lia|]. specialize (IH (indent - (4 - Z.of_N (rfind_count_rev t 9 0 mod 4)))%Z (len t) ltac:(lia)). lia.
    + specialize (IH (indent - 1)%Z (len t) ltac:(lia)). lia.
Qed.

Lemma len_take_le k (t : str) : len (takeN k t) <= k.
Proof.
  unfold takeN, len. assert (H : forall n (l : str), (length (take n l) <= n)%nat).
  { induction n as [|n IH]; intros l; destruct l as [|x l]; cbn [take length]; try lia. specialize (IH l). lia. }
  specialize (H (N.to_nat k) t). lia.
Qed.

Definition first_entry_ok (st : bstate) (line : nat) (ext : list (N * spos)) : Prop :=
  exists k o rest, ext = (k, SRel line o) :: rest /\ pos_ok (txs st) line o.

Lemma np_get_lines_loop st n : forall line e ind k acc mp, binv st -> (e <= b_max st)%nat ->
  np (fun x => exists ext, snd x = mp ++ ext /\ ((line < e)%nat -> (0 < n)%nat -> first_entry_ok st line ext))
     (get_lines_loop st n line e ind k acc mp).
Proof.
  induction n as [|n IH]; intros line e ind k acc mp Hi He; cbn [get_lines_loop].
  { cbn. exists []. rewrite app_nil_r. split; [reflexivity|intros; lia]. }
  destruct (negb (line <? e)%nat) eqn:E.
  { cbn. exists []. rewrite app_nil_r. split; [reflexivity|]. intros H. apply PeanoNat.Nat.ltb_lt in H. rewrite H in E. discriminate. }
  assert (Hl : (line < e)%nat) by (apply PeanoNat.Nat.ltb_lt; destruct (line <? e)%nat; [reflexivity|discriminate]).
  eapply np_bind; [apply np_line_rec; [assumption|lia]|]. intros r _ [Hr Hw]. unfold rec_wf, l_end in *.
  replace (l_first r <=? len (l_text r)) with true by lia. cbn [negb].
  destruct (calc_right_whitespace (takeN (l_first r) (l_text r)) (l_indent r - Z.of_N ind)) as [sp first] eqn:Ec.
  assert (Hfirst : first <= l_first r).
  { unfold calc_right_whitespace in Ec. pose proof (calc_rw_bound (rev (takeN (l_first r) (l_text r))) (l_indent r - Z.of_N ind) (len (takeN (l_first r) (l_text r)))) as Hb.
    rewrite Ec in Hb. cbn [snd] in Hb. pose proof (len_take_le (l_first r) (l_text r)). unfold len in Hb at 1. rewrite rev_length in Hb. fold (len (takeN (l_first r) (l_text r))) in Hb. lia. }
  eapply np_weaken; [|apply IH; assumption]. cbn beta. intros x (ext & Hx & _).
  eexists. split; [rewrite Hx, <- !app_assoc; reflexivity|]. intros _ _.
  assert (Hp : forall o, o <= first -> pos_ok (txs st) line o).
  { intros o Ho. exists (l_text r). split; [apply txs_nth; exact Hr|lia]. }
  unfold first_entry_ok. destruct (N.to_nat sp) as [|q]; cbn [seq map app].
  - do 3 eexists. split; [reflexivity|]. apply Hp. lia.
  - do 3 eexists. split; [reflexivity|]. apply Hp. lia.
Qed.

Lemma np_get_lines st b e ind k : binv st -> (b <= e)%nat -> (e <= b_max st)%nat ->
  np (fun x => (b < e)%nat -> first_entry_ok st b (snd x)) (get_lines st b e ind k).
Proof.
  intros Hi Hbe He. unfold get_lines. replace (b <=? e)%nat with true by (symmetry; apply PeanoNat.Nat.leb_le; exact Hbe).
  eapply np_weaken; [|apply np_get_lines_loop; assumption]. cbn beta. intros x (ext & Hx & Hn) Hlt.
  rewrite Hx. cbn [app]. apply Hn; lia.
Qed.

(* ------------------------------------------------------------------ *)
(* look-ahead verdicts                                                   *)

Ltac side := first [assumption | lia | (cbn [b_max b_lines b_line set_line set_lines set_node push_node set_tight set_level set_refs set_blk set_list_indent]; first [assumption | lia])].
Ltac np_step :=
  match goal with
  | |- np _ (ret _) => cbn; try exact I
  | |- np _ (inr _) => cbn; try exact I
  | |- np _ (bind (line_indent _ _) _) => eapply np_bind; [apply np_line_indent; side | intros ? ? _]
  | |- np _ (bind (get_line _ _) _) => eapply np_bind; [apply np_get_line; side | intros ? ? _]
  | |- np _ (bind (line_rec _ _) _) => eapply np_bind; [apply np_line_rec; side | intros ? ? [? ?]]
  | |- np _ (bind (pos_end _ _) _) => eapply np_bind; [apply np_pos_end; side | intros ? ? ?]
  | |- np _ (bind (get_map _ _ _) _) => eapply np_bind; [apply np_get_map; side | intros ? ? ?]
  | |- np _ (if ?c then _ else _) => destruct c eqn:?
  | |- np _ (match ?x with _ => _ end) => destruct x eqn:?
  end.
Ltac nps := repeat np_step.

Section Silent.
Variable st : bstate.
Hypothesis Hi : binv st.
Hypothesis Hl : (b_line st < b_max st)%nat.

Lemma np_fence_open : np (fun _ => True) (fence_open st).
Proof. unfold fence_open. nps. Qed.
Lemma np_quote_open : np (fun _ => True) (quote_open st).
Proof. unfold quote_open. nps. Qed.
Lemma np_hr_match : np (fun _ => True) (hr_match st).
Proof. unfold hr_match. nps. Qed.
Lemma np_list_open s : np (fun _ => True) (list_open st s).
Proof. unfold list_open. nps. Qed.
Lemma np_heading_open : np (fun _ => True) (heading_open st).
Proof. unfold heading_open. nps. Qed.
Lemma np_html_open : np (fun _ => True) (html_open st).
Proof. unfold html_open. nps. Qed.
Lemma np_custom_line : np (fun _ => True) (custom_line st).
Proof. unfold custom_line. nps. Qed.

Lemma np_rule_silent r : np (fun _ => True) (rule_silent r st).
Proof.
  unfold rule_silent.
  repeat match goal with |- np _ (if ?c then _ else _) => destruct c end; try exact I.
  - eapply np_bind; [apply np_fence_open|intros; exact I].
  - apply np_quote_open.
  - eapply np_bind; [apply np_hr_match|intros; exact I].
  - eapply np_bind; [apply np_list_open|intros; exact I].
  - eapply np_bind; [apply np_heading_open|intros; exact I].
  - eapply np_bind; [apply np_html_open|intros; exact I].
  - apply np_custom_line.
Qed.

Lemma np_test_rules chain : np (fun _ => True) (test_rules chain st).
Proof.
  induction chain as [|r t IH]; cbn [test_rules]; [exact I|].
  eapply np_bind; [apply np_rule_silent|]. intros ok _ _. destruct ok; [exact I|exact IH].
Qed.
End Silent.

Lemma binv_set_line st l : binv st -> binv (set_line st l).
Proof. exact (fun H => H). Qed.

Lemma np_test_rules_at cfg st l : binv st -> (l < b_max st)%nat -> np (fun _ => True) (test_rules_at cfg st l).
Proof. intros Hi Hl. unfold test_rules_at. apply np_test_rules; [apply binv_set_line; exact Hi|exact Hl]. Qed.

(* paragraph continuation scans stay within the block *)
Lemma np_para_scan cfg st n : forall next, binv st -> (next <= b_max st)%nat ->
  np (fun x => (next <= x <= b_max st)%nat) (para_scan cfg st n next).
Proof.
  induction n as [|n IH]; intros next Hi Hn; cbn [para_scan]; [cbn; lia|].
  destruct (Nat.leb (b_max st) next || is_empty st next) eqn:E; [cbn; lia|].
  apply orb_false_iff in E. destruct E as [E _]. apply PeanoNat.Nat.leb_gt in E.
  assert (Hrec : np (fun x => (next <= x <= b_max st)%nat) (para_scan cfg st n (S next))).
  { eapply np_weaken; [|apply IH; [exact Hi|lia]]. cbn beta. intros; lia. }
  nps; try exact Hrec; try lia.
  eapply np_bind; [apply np_test_rules_at; [exact Hi|exact E]|]. intros term _ _. destruct term; [cbn; lia|exact Hrec].
Qed.

Lemma np_lheading_scan cfg st n : forall next, binv st -> (next <= b_max st)%nat ->
  np (fun x => (next <= fst x <= b_max st)%nat /\ (snd x <> 0 -> (fst x < b_max st)%nat)) (lheading_scan cfg st n next).
Proof.
  induction n as [|n IH]; intros next Hi Hn; cbn [lheading_scan]; [cbn; split; [lia|congruence]|].
  destruct (Nat.leb (b_max st) next || is_empty st next) eqn:E; [cbn; split; [lia|congruence]|].
  apply orb_false_iff in E. destruct E as [E _]. apply PeanoNat.Nat.leb_gt in E.
  assert (Hrec : np (fun x => (next <= fst x <= b_max st)%nat /\ (snd x <> 0 -> (fst x < b_max st)%nat)) (lheading_scan cfg st n (S next))).
  { eapply np_weaken; [|apply IH; [exact Hi|lia]]. cbn beta. intros x [H1 H2]. split; [lia|exact H2]. }
  nps; try exact Hrec; try (split; [lia|intros; lia]); try (split; [lia|congruence]).
  all: eapply np_bind; [apply np_test_rules_at; [exact Hi|exact E]|]; intros term _ _; destruct term; [cbn; split; [lia|congruence]|exact Hrec].
Qed.

(* ------------------------------------------------------------------ *)
(* the rules                                                             *)

(* an accepting rule has appended one block whose lines are exactly those it consumed *)
Definition pushed (st : bstate) (x : bstate) : Prop :=
  b_node x = b_node st \/
  exists c, b_node x = push_child (b_node st) c /\ blk_ok (txs st) (b_line st) (b_line x) c.
Definition rok (st : bstate) (x : bstate * bool) : Prop :=
  b_lines (fst x) = b_lines st /\ b_max (fst x) = b_max st /\
  (if snd x then (b_line st < b_line (fst x) <= b_max st)%nat /\ pushed st (fst x) else fst x = st).

Ltac rng_leaf :=
  repeat match goal with H : gm_ok _ _ _ _ |- _ => destruct H as (?oa & ?ob & -> & ?P1 & ?P2 & ?P3) end;
  unfold mk; rewrite blk_ok_unfold; cbn [txs b_lines set_line] in *;
  repeat split; try assumption; try lia; cbn [kids_ok]; rewrite ?blk_ok_unfold; auto.
Ltac accept := apply np_ret; unfold rok, pushed; cbn [fst snd b_lines b_max b_line b_node set_line push_node set_node set_refs];
  split; [reflexivity|]; split; [reflexivity|]; split; [lia|]; right; eexists; split; [reflexivity|]; rng_leaf.

Lemma rok_decline st : rok st (st, false).
Proof. repeat split. Qed.

Lemma heading_scan_bound s : forall idx level lv tp, idx = level -> heading_scan s idx level = Some (lv, tp) -> tp <= idx + len s.
Proof.
  induction s as [|c t IH]; intros idx level lv tp E H; cbn [heading_scan] in H.
  - injection H as <- <-. unfold len. cbn. lia.
  - unfold len in *. cbn [length]. destruct (c =? 35).
    + destruct (6 <? level + 1); [discriminate|]. apply IH in H; [lia|lia].
    + destruct (is_sptab c); [|discriminate]. injection H as <- <-. lia.
Qed.

Lemma heading_text_max_ge line tp : tp <= len line -> tp <= heading_text_max line tp.
Proof.
  intros H. unfold heading_text_max. cbv zeta.
  match goal with |- context [match ?x with [] => _ | _ => _ end] => destruct x as [|c l] end; [lia|].
  destruct (is_sptab c); lia.
Qed.

Section Rules.
Variable cfg : bcfg.
Variable st : bstate.
Hypothesis Hi : binv st.
Hypothesis Hl : (b_line st < b_max st)%nat.


Lemma np_rule_hr : np (rok st) (rule_hr st).
Proof.
  unfold rule_hr. eapply np_bind; [apply np_hr_match; assumption|]. intros o _ _. destruct o as [[m c]|]; [|apply rok_decline].
  nps. accept.
Qed.

Lemma np_rule_custom : np (rok st) (rule_custom st).
Proof.
  unfold rule_custom. eapply np_bind; [apply np_custom_line; assumption|]. intros ok _ _. destruct ok; cbn [negb]; [|apply rok_decline].
  nps. accept.
Qed.

Lemma np_heading_open' : np (fun o => match o with Some (_, tp, line) => tp <= len line | None => True end) (heading_open st).
Proof.
  unfold heading_open. nps.
  all: match goal with H : heading_scan ?l 0 0 = Some (_, ?tp) |- _ => apply heading_scan_bound in H; [|reflexivity]; unfold len in H; cbn [length] in H; lia end.
Qed.

Lemma np_rule_heading : np (rok st) (rule_heading st).
Proof.
  unfold rule_heading. eapply np_bind; [apply np_heading_open'|]. intros o _ Ho. destruct o as [[[lv tp] line]|]; [|apply rok_decline].
  cbv zeta. nps.
  - exfalso. pose proof (heading_text_max_ge line tp Ho). lia.
  - accept.
Qed.
End Rules.

(* ------------------------------------------------------------------ *)
(* line feeds: the text handed to the reference rule has one per line break *)

Lemma cl_repeat32 k : cl (repeatN 32 k) = 0.
Proof. induction k as [|k IH]; [reflexivity|]. cbn [repeatN cl]. rewrite IH. reflexivity. Qed.

Lemma get_lines_loop_cl st n : forall line e ind acc mp x, binv st -> (e <= b_max st)%nat ->
  get_lines_loop st n line e ind false acc mp = inr x -> (e - line <= n)%nat ->
  ((line < e)%nat -> cl (fst x) + 1 <= cl acc + N.of_nat (e - line)) /\ ((e <= line)%nat -> cl (fst x) = cl acc).
Proof.
  induction n as [|n IH]; intros line e ind acc mp x Hi He H Hn; cbn [get_lines_loop] in H.
  { injection H as <-. cbn [fst]. split; [lia|auto]. }
  destruct (line <? e)%nat eqn:E; cbn [negb] in H.
  2:{ apply PeanoNat.Nat.ltb_ge in E. injection H as <-. cbn [fst]. split; [lia|auto]. }
  apply PeanoNat.Nat.ltb_lt in E. unfold line_rec in H. destruct (nth_in_range (b_lines st) line) as [r Hr]; [destruct Hi; lia|].
  rewrite Hr in H. cbn [bind ret] in H. destruct (negb (l_first r <=? l_end r)); [discriminate|].
  destruct (calc_right_whitespace _ _) as [sp first].
  apply IH in H; [|exact Hi|exact He|lia]. destruct H as [H1 H2].
  assert (Hlf : cl (dropN first (l_text r)) = 0).
  { destruct Hi as [_ Hw]. pose proof (Hw _ _ Hr) as Hrw. unfold rec_wf in Hrw. pose proof (cl_drop_le (N.to_nat first) (l_text r)). unfold dropN. lia. }
  rewrite !cl_app, cl_repeat32, Hlf in H1, H2. rewrite orb_false_r in H1, H2.
  split; [intros _|lia].
  destruct (S line <? e)%nat eqn:E2.
  - apply PeanoNat.Nat.ltb_lt in E2. specialize (H1 E2). cbn [cl] in H1. change (10 =? 10) with true in H1. cbv iota in H1. lia.
  - apply PeanoNat.Nat.ltb_ge in E2. specialize (H2 E2). cbn [cl] in H2. lia.
Qed.

Lemma get_lines_cl st b e ind cm : binv st -> (b < e)%nat -> (e <= b_max st)%nat ->
  get_lines st b e ind false = inr cm -> cl (fst cm) + 1 <= N.of_nat (e - b).
Proof.
  intros Hi Hbe He H. unfold get_lines in H. replace (b <=? e)%nat with true in H by (symmetry; apply PeanoNat.Nat.leb_le; lia).
  apply get_lines_loop_cl in H; [|exact Hi|exact He|lia]. destruct H as [H _]. specialize (H Hbe). cbn [cl] in H. lia.
Qed.

Lemma cl_trim_start f : forall s, cl (trim_start_fuel f s) <= cl s.
Proof.
  induction f as [|f IH]; intros s; cbn [trim_start_fuel]; [lia|].
  destruct (decode1 s) as [[c n]|]; [|lia]. destruct (is_ws_cp c); [|lia].
  specialize (IH (dropN n s)). pose proof (cl_drop_le (N.to_nat n) s). unfold dropN in *. lia.
Qed.
Lemma cl_trim_end f : forall s, cl (trim_end_fuel f s) <= cl s.
Proof.
  induction f as [|f IH]; intros s; cbn [trim_end_fuel]; [lia|]. cbv zeta.
  destruct (_ <? len s); [|lia]. destruct (decode1 _) as [[c n]|]; [|lia]. destruct (is_ws_cp c); [|lia].
  match goal with |- cl (trim_end_fuel f (takeN ?p s)) <= _ => specialize (IH (takeN p s)); pose proof (cl_take_le (N.to_nat p) s) end.
  unfold takeN in *. lia.
Qed.
Lemma cl_trim_str s : cl (trim_str s) <= cl s.
Proof. unfold trim_str. cbv zeta. pose proof (cl_trim_start (length s) s). pose proof (cl_trim_end (length (trim_start_fuel (length s) s)) (trim_start_fuel (length s) s)). lia. Qed.

Section Rules2.
Variable cfg : bcfg.
Variable st : bstate.
Hypothesis Hi : binv st.
Hypothesis Hl : (b_line st < b_max st)%nat.


Lemma np_rule_paragraph : np (rok st) (rule_paragraph cfg st).
Proof.
  unfold rule_paragraph. cbv zeta.
  eapply np_bind; [apply np_para_scan; [exact Hi|lia]|]. intros next _ Hn. cbn beta in Hn.
  eapply np_bind; [apply np_get_lines; [exact Hi|lia|lia]|]. intros cm _ _.
  eapply np_bind; [apply np_get_map; [exact Hi|lia|cbn [b_max set_line]; lia]|]. intros mp _ Hmp. accept.
Qed.

Lemma np_rule_lheading : np (rok st) (rule_lheading cfg st).
Proof.
  unfold rule_lheading. cbv zeta.
  eapply np_bind; [apply np_line_indent; assumption|]. intros ind _ _. destruct (4 <=? ind)%Z; [apply rok_decline|].
  eapply np_bind; [apply np_lheading_scan; [exact Hi|lia]|]. intros [next level] _ [Hn Hlv]. cbn [fst snd] in Hn, Hlv.
  destruct (level =? 0) eqn:E0; [apply rok_decline|]. assert (Hlt : (next < b_max st)%nat) by (apply Hlv; lia).
  eapply np_bind; [apply np_get_lines; [exact Hi|lia|lia]|]. intros cm _ _.
  eapply np_bind; [apply np_get_map; [exact Hi|lia|cbn [b_max set_line]; lia]|]. intros mp _ Hmp. accept.
Qed.

Lemma np_rule_code : np (rok st) (rule_code st).
Proof.
  unfold rule_code.
  eapply np_bind; [apply np_line_indent; assumption|]. intros ind _ _. destruct (ind <? 4)%Z; [apply rok_decline|].
  match goal with |- context [(fix scan (n : nat) (next last : nat) {struct n} : res nat := @?body scan n next last) _ _ _] =>
    set (scan := fix scan (n : nat) (next last : nat) {struct n} : res nat := body scan n next last) end.
  assert (Hscan : forall n next last, (last <= b_max st)%nat ->
            np (fun x => x = last \/ (next < x <= b_max st)%nat) (scan n next last)).
  { induction n as [|n IH]; intros next last Hlast; cbn [scan]; [cbn; auto|].
    destruct (negb (next <? b_max st)%nat) eqn:E; [cbn; auto|].
    assert (Hn : (next < b_max st)%nat) by (apply PeanoNat.Nat.ltb_lt; destruct (next <? b_max st)%nat; [reflexivity|discriminate]).
    destruct (is_empty st next).
    - eapply np_weaken; [|apply IH; exact Hlast]. cbn beta. intros x [->|H]; [auto|right; lia].
    - eapply np_bind; [apply np_line_indent; assumption|]. intros i _ _. destruct (4 <=? i)%Z; [|cbn; auto].
      eapply np_weaken; [|apply IH; lia]. cbn beta. intros x [->|H]; right; lia. }
  change (np (rok st) (do last <- scan (S (b_max st)) (S (b_line st)) (S (b_line st));
                        do cm <- get_lines st (b_line st) last (4 + b_blk st) false;
                        match snd cm with
                        | [] => panic IndexOOB
                        | (_, p0) :: _ => do pe <- pos_end st (last - 1);
                            ret (push_node (set_line st last) (mk (KCodeBlock (fst cm ++ [10])) (Some (p0, pe)) []), true)
                        end)).
  eapply np_bind; [apply Hscan; lia|]. intros last _ Hlast. cbn beta in Hlast.
  assert (Hb : (S (b_line st) <= last <= b_max st)%nat) by (destruct Hlast as [->|H]; lia).
  eapply np_bind; [apply np_get_lines; [exact Hi|lia|lia]|]. intros cm _ Hcm. cbn beta in Hcm.
  destruct (Hcm ltac:(lia)) as (k0 & o0 & rest & Es & Ho0). rewrite Es.
  eapply np_bind; [apply np_pos_end; [exact Hi|lia]|]. intros pe _ (re & Hre & Hwe & ->).
  apply np_ret. unfold rok, pushed. cbn [fst snd b_lines b_max b_line b_node set_line push_node set_node].
  split; [reflexivity|]. split; [reflexivity|]. split; [lia|]. right. eexists. split; [reflexivity|].
  unfold mk. rewrite blk_ok_unfold. unfold l_end, rec_wf in *.
  repeat split; try lia; try exact Ho0; try exact I.
  - exists (l_text re). split; [apply txs_nth; exact Hre|lia].
  - intros E. destruct Ho0 as (t & Ht & Hot). rewrite E in Ht. rewrite (txs_nth _ _ _ Hre) in Ht. injection Ht as <-. exact Hot.
Qed.

(* the reference-definition rule: adds no node; the lines it reports lie inside the text it scanned *)
Lemma np_rule_reference : np (rok st) (rule_reference cfg st).
Proof.
  unfold rule_reference.
  eapply np_bind; [apply np_line_indent; assumption|]. intros ind _ _. destruct (4 <=? ind)%Z; [apply rok_decline|].
  eapply np_bind; [apply np_get_line; assumption|]. intros line _ _.
  destruct line as [|c t]; [apply rok_decline|].
  destruct c as [|pc]; [apply rok_decline|].
  repeat (destruct pc as [pc|pc|]; try apply rok_decline).
  destruct (negb (ref_precheck t)); [apply rok_decline|]. cbv zeta.
  eapply np_bind; [apply np_para_scan; [exact Hi|lia]|]. intros next _ Hn. cbn beta in Hn.
  eapply np_bind; [apply np_get_lines; [exact Hi|lia|lia]|]. intros cm Hcm _.
  destruct (parse_reference (trim_str (fst cm))) as [[[[label href] title] lines]|] eqn:Ep; [|apply rok_decline].
  apply parse_reference_lines in Ep. pose proof (cl_trim_str (fst cm)) as Htr.
  pose proof (get_lines_cl st (b_line st) next (b_blk st) cm Hi ltac:(lia) ltac:(lia) Hcm) as Hcl.
  apply np_ret. unfold rok, pushed. cbn [fst snd b_lines b_max b_line b_node set_line set_refs].
  split; [reflexivity|]. split; [reflexivity|]. split; [lia|]. left. reflexivity.
Qed.
End Rules2.

Section Rules3.
Variable cfg : bcfg.
Variable st : bstate.
Hypothesis Hi : binv st.
Hypothesis Hl : (b_line st < b_max st)%nat.


Lemma np_rule_fence : np (rok st) (rule_fence cfg st).
Proof.
  unfold rule_fence.
  eapply np_bind; [apply np_fence_open; assumption|]. intros o _ _. destruct o as [[[marker n] params]|]; [|apply rok_decline].
  match goal with |- context [(fix search (k : nat) (next : nat) {struct k} : res (nat * bool) := @?body search k next) _ _] =>
    set (search := fix search (k : nat) (next : nat) {struct k} : res (nat * bool) := body search k next) end.
  assert (Hsearch : forall k next, (next <= b_max st)%nat ->
            np (fun x => (next <= fst x <= b_max st)%nat /\ (snd x = true -> (fst x < b_max st)%nat)) (search k next)).
  { induction k as [|k IH]; intros next Hn; cbn [search]; [cbn; split; [lia|congruence]|].
    destruct (b_max st <=? next)%nat eqn:E; [cbn; split; [lia|congruence]|]. apply PeanoNat.Nat.leb_gt in E.
    assert (Hrec : np (fun x => (next <= fst x <= b_max st)%nat /\ (snd x = true -> (fst x < b_max st)%nat)) (search k (S next))).
    { eapply np_weaken; [|apply IH; lia]. cbn beta. intros x [H1 H2]. split; [lia|exact H2]. }
    nps; try exact Hrec; try (split; [lia|congruence]); try (split; [lia|intros; lia]). }
  cbv zeta.
  match goal with |- np _ (bind ?a _) => change a with (search (S (b_max st)) (S (b_line st))) end.
  eapply np_bind; [apply Hsearch; lia|]. intros [next he] _ [Hn Hhe]. cbn [fst snd] in Hn, Hhe.
  eapply np_bind; [apply np_line_rec; assumption|]. intros r0 _ _.
  eapply np_bind; [apply np_get_lines; [exact Hi|lia|lia]|]. intros cm _ _.
  destruct he.
  - specialize (Hhe eq_refl). eapply np_bind; [apply np_get_map; [exact Hi|lia|lia]|]. intros mp _ Hmp. accept.
  - eapply np_bind; [apply np_get_map; [exact Hi|lia|lia]|]. intros mp _ Hmp. accept.
Qed.

Lemma np_rule_html_block : np (rok st) (rule_html_block st).
Proof.
  unfold rule_html_block.
  eapply np_bind; [apply np_html_open; assumption|]. intros o _ _. destruct o as [[seq_i line_text]|]; [|apply rok_decline].
  match goal with |- context [(fix roll (k : nat) (next : nat) {struct k} : res nat := @?body roll k next) _ _] =>
    set (roll := fix roll (k : nat) (next : nat) {struct k} : res nat := body roll k next) end.
  assert (Hroll : forall k next, (next <= b_max st)%nat -> np (fun x => (next <= x <= b_max st)%nat) (roll k next)).
  { induction k as [|k IH]; intros next Hn; cbn [roll]; [cbn; lia|].
    destruct (negb (next <? b_max st)%nat) eqn:E; [cbn; lia|].
    assert (Hlt : (next < b_max st)%nat) by (apply PeanoNat.Nat.ltb_lt; destruct (next <? b_max st)%nat; [reflexivity|discriminate]).
    assert (Hrec : np (fun x => (next <= x <= b_max st)%nat) (roll k (S next))).
    { eapply np_weaken; [|apply IH; lia]. cbn beta. intros; lia. }
    nps; try exact Hrec; try lia.
    all: repeat match goal with |- context [match ?l with [] => _ | _ :: _ => _ end] => destruct l end; lia. }
  cbv zeta.
  assert (Hnext : np (fun x => (S (b_line st) <= x <= b_max st)%nat)
            (if html_seq_close seq_i line_text then ret (S (b_line st)) else roll (S (b_max st)) (S (b_line st)))).
  { destruct (html_seq_close seq_i line_text); [cbn; lia|apply Hroll; lia]. }
  match goal with |- np _ (bind ?a _) => change a with (if html_seq_close seq_i line_text then ret (S (b_line st)) else roll (S (b_max st)) (S (b_line st))) end.
  eapply np_bind; [exact Hnext|]. intros next _ Hn. cbn beta in Hn.
  eapply np_bind; [apply np_get_lines; [exact Hi|lia|cbn [b_max set_line]; lia]|]. intros cm _ _.
  eapply np_bind; [apply np_get_map; [exact Hi|lia|cbn [b_max set_line]; lia]|]. intros mp _ Hmp. accept.
Qed.
End Rules3.

(* ------------------------------------------------------------------ *)
(* containers                                                            *)

Lemma set_nth_length {A} (l : list A) : forall n x, length (set_nth l n x) = length l.
Proof. induction l as [|a t IH]; intros [|n] x; cbn; auto. Qed.

Lemma set_nth_other {A} (l : list A) : forall n x m, m <> n -> nth_error (set_nth l n x) m = nth_error l m.
Proof.
  induction l as [|a t IH]; intros [|n] x [|m] H; cbn; auto; try congruence.
Qed.

Lemma set_nth_wf ls n x : lines_wf ls -> rec_wf x -> lines_wf (set_nth ls n x).
Proof.
  intros Hw Hx l r H. destruct (PeanoNat.Nat.eq_dec l n) as [->|Hne].
  - destruct (nth_error ls n) as [y|] eqn:E.
    + rewrite (set_nth_same _ _ _ _ E) in H. injection H as <-. exact Hx.
    + assert (nth_error (set_nth ls n x) n = None).
      { apply nth_error_None. rewrite set_nth_length. apply nth_error_None. exact E. }
      congruence.
  - rewrite set_nth_other in H by exact Hne. eapply Hw; exact H.
Qed.

Lemma set_nth_text ls : forall n r f i, nth_error ls n = Some r -> map l_text (set_nth ls n (LRec (l_text r) f i)) = map l_text ls.
Proof.
  induction ls as [|a t IH]; intros [|n] r f i H; cbn in *; try discriminate.
  - injection H as <-. reflexivity.
  - f_equal. apply IH. exact H.
Qed.

Lemma find_indent_loop_bound line : forall rest pos ind i p, find_indent_loop line rest pos ind = (i, p) -> pos <= p <= pos + len rest.
Proof.
  induction rest as [|c t IH]; intros pos ind i p H; cbn [find_indent_loop] in H.
  - injection H as _ <-. unfold len. cbn. lia.
  - unfold len in *. cbn [length].
    destruct c as [|pc]; [injection H as _ <-; lia|].
    repeat (destruct pc as [pc|pc|]; try (injection H as _ <-; lia)); apply IH in H; lia.
Qed.

Lemma drop_cons_lt (s : str) n c rest : dropN n s = c :: rest -> n < len s /\ n + 1 + len rest = len s.
Proof.
  unfold dropN, len. revert s. induction (N.to_nat n) as [|k IH] eqn:E in n |- *; intros s H.
  - cbn [drop] in H. subst s. cbn [length]. lia.
  - destruct s as [|x s]; [discriminate|]. cbn [drop] in H. specialize (IH (N.of_nat k) ltac:(lia) s H). cbn [length]. lia.
Qed.

Lemma find_indent_of_bound text pos i p : pos <= len text -> find_indent_of text pos = (i, p) -> pos <= p <= len text.
Proof.
  intros Hp H. unfold find_indent_of in H. apply find_indent_loop_bound in H.
  assert (len (dropN pos text) = len text - pos).
  { unfold dropN, len. clear H. revert text Hp. unfold len. induction (N.to_nat pos) as [|k IH] eqn:E in pos |- *; intros text Hp.
    - cbn [drop]. lia.
    - destruct text as [|x t]; [cbn in *; lia|]. cbn [drop length] in *. specialize (IH (N.of_nat k) ltac:(lia) t ltac:(lia)). lia. }
  lia.
Qed.

Section Quote.
Variable cfg : bcfg.
Variable st0 : bstate.
Variable L : nat.
Hypothesis HL : (b_max st0 <= L)%nat.

Definition qpost (lines : list lrec) (next : nat) (x : list lrec * nat) : Prop :=
  length (fst x) = L /\ lines_wf (fst x) /\ (next <= snd x <= b_max st0)%nat /\
  (forall l, (l < next)%nat -> nth_error (fst x) l = nth_error lines l) /\ map l_text (fst x) = map l_text lines.

Lemma np_quote_scan n : forall lines next le, length lines = L -> lines_wf lines -> (next <= b_max st0)%nat ->
  np (qpost lines next) (quote_scan cfg st0 n lines next le).
Proof.
  induction n as [|n IH]; intros lines next le Hlen Hw Hn; cbn [quote_scan].
  { cbn. unfold qpost. cbn [fst snd]. repeat split; auto; lia. }
  destruct (negb (next <? b_max st0)%nat) eqn:E.
  { cbn. unfold qpost. cbn [fst snd]. repeat split; auto; lia. }
  assert (Hlt : (next < b_max st0)%nat) by (apply PeanoNat.Nat.ltb_lt; destruct (next <? b_max st0)%nat; [reflexivity|discriminate]).
  cbv zeta.
  assert (Hi : binv (set_lines st0 lines)) by (split; cbn [b_max b_lines set_lines]; [lia|exact Hw]).
  assert (Hl' : (next < b_max (set_lines st0 lines))%nat) by exact Hlt.
  eapply np_bind; [apply np_line_indent; assumption|]. intros ind _ _.
  eapply np_bind; [apply np_get_line; assumption|]. intros line Hline _.
  eapply np_bind; [apply np_line_rec; assumption|]. intros r Hr [Hnth Hrw]. cbn [b_lines set_lines] in Hnth.
  assert (Hrec : forall f i le', f <= len (l_text r) -> np (qpost lines next) (quote_scan cfg st0 n (set_nth lines next (LRec (l_text r) f i)) (S next) le')).
  { intros f i le' Hx. eapply np_weaken; [|apply IH; [rewrite set_nth_length; exact Hlen|apply set_nth_wf; [assumption|unfold rec_wf in *; cbn [l_first l_text]; lia]|lia]].
    intros y (A & B & C & D & E'). unfold qpost. repeat split; auto; try lia.
    - intros l Hl. rewrite D by lia. apply set_nth_other. lia.
    - rewrite E'. apply set_nth_text. exact Hnth. }
  destruct line as [|c rest].
  { cbn. unfold qpost. cbn [fst snd]. repeat split; auto; lia. }
  (* first < len text *)
  assert (Hfirst : l_first r < len (l_text r)).
  { unfold get_line, line_rec in Hline. cbn [b_lines set_lines] in Hline. rewrite Hnth in Hline. cbn [bind ret] in Hline.
    destruct (l_first r <=? l_end r); [|discriminate]. injection Hline as Hline. apply drop_cons_lt in Hline. lia. }
  destruct ((c =? 62) && negb (ind <? 0)%Z).
  - destruct (find_indent_of (l_text r) (l_first r + 1)) as [ia fn] eqn:Ef.
    apply find_indent_of_bound in Ef; [|lia]. apply Hrec. lia.
  - destruct le.
    { cbn. unfold qpost. cbn [fst snd]. repeat split; auto; lia. }
    eapply np_bind; [apply np_test_rules_at; assumption|]. intros term _ _. destruct term.
    + cbn. unfold qpost. cbn [fst snd]. destruct (b_blk st0 =? 0).
      * repeat split; auto; lia.
      * repeat split; [rewrite set_nth_length; exact Hlen|apply set_nth_wf; [exact Hw|exact Hrw]|lia|lia| |].
        -- intros l Hl. apply set_nth_other. lia.
        -- apply set_nth_text. exact Hnth.
    + apply Hrec. unfold rec_wf in Hrw. lia.
Qed.
End Quote.

(* list markers *)
Lemma ordered_loop_bound s : forall pos p rest, ordered_loop s pos = Some (p, rest) -> pos <= p /\ p + len rest + 1 = pos + len s.
Proof.
  induction s as [|c t IH]; intros pos p rest H; cbn [ordered_loop] in H; [discriminate|].
  unfold len in *. cbn [length]. destruct (is_digit c).
  - destruct (10 <=? pos); [discriminate|]. apply IH in H. lia.
  - destruct ((c =? 41) || (c =? 46)); [|discriminate]. injection H as <- <-. lia.
Qed.

Lemma skip_ordered_bound s p : skip_ordered_list_marker s = Some p -> 1 <= p <= len s.
Proof.
  unfold skip_ordered_list_marker. destruct s as [|c t]; [discriminate|]. destruct (is_digit c); [|discriminate].
  destruct (ordered_loop t 2) as [[pos rest]|] eqn:E; [|discriminate]. apply ordered_loop_bound in E.
  intros H. assert (p = pos) by (destruct rest as [|d r]; [congruence|destruct (is_sptab d); congruence]). subst p.
  unfold len in *. cbn [length]. lia.
Qed.

Lemma skip_bullet_bound s p : skip_bullet_list_marker s = Some p -> 1 <= p <= len s.
Proof.
  unfold skip_bullet_list_marker. destruct s as [|c t]; [discriminate|]. destruct ((c =? 42) || (c =? 45) || (c =? 43)); [|discriminate].
  intros H. assert (p = 1) by (destruct t as [|d r]; [congruence|destruct (is_sptab d); congruence]). subst p.
  unfold len. cbn [length]. lia.
Qed.

Lemma last_byte_take p (cur : str) : 1 <= p <= len cur -> exists c, last_byte (takeN p cur) = Some c.
Proof.
  intros H. unfold last_byte. destruct (rev (takeN p cur)) as [|c r] eqn:E; [|eexists; reflexivity].
  exfalso. apply (f_equal (@rev N)) in E. rewrite rev_involutive in E. cbn in E.
  unfold takeN in E. destruct (N.to_nat p) as [|k] eqn:Ek; [lia|]. destruct cur as [|x t]; [unfold len in H; cbn in H; lia|]. discriminate.
Qed.

Lemma get_line_len st l cur r : get_line st l = inr cur -> nth_error (b_lines st) l = Some r -> len cur + l_first r = len (l_text r).
Proof.
  unfold get_line, line_rec. intros H Hr. rewrite Hr in H. cbn [bind ret] in H. destruct (l_first r <=? l_end r) eqn:E; [|discriminate].
  injection H as <-. unfold l_end in E. unfold dropN, len in *.
  assert (forall k (t : str), (k <= length t)%nat -> length (drop k t) = (length t - k)%nat).
  { induction k as [|k IH]; intros t Hk; destruct t as [|x t]; cbn [drop length] in *; try lia. apply IH. lia. }
  rewrite H by lia. lia.
Qed.

(* tight lists: paragraphs are replaced by their (range-less) inline content; the remaining blocks keep their order *)
Lemma mark_tight_ok tx cs : forall lo hi, (lo <= hi)%nat -> kids_ok tx lo hi cs -> kids_ok tx lo hi (mark_tight cs).
Proof.
  induction cs as [|c t IH]; intros lo hi Hl H; [exact I|].
  cbn [kids_ok] in H. destruct H as [Hc Ht]. pose proof (blk_ok_next_lo _ _ _ _ Hc Hl) as Hn.
  specialize (IH (next_lo lo c) hi ltac:(lia) Ht).
  change (mark_tight (c :: t)) with ((match n_kind c with KParagraph => n_children c | _ => [c] end) ++ mark_tight t).
  assert (Hkeep : kids_ok tx lo hi ([c] ++ mark_tight t)) by (cbn [app kids_ok]; split; assumption).
  destruct c as [k m a e ccs]. cbn [n_kind n_children]. destruct k; try exact Hkeep.
  rewrite blk_ok_unfold in Hc. unfold next_lo in IH, Hn. cbn [n_map] in IH, Hn.
  destruct m as [[[o1|la oa] [o2|lb ob]]|]; try contradiction.
  - destruct Hc as (A & B & C & _ & _ & _ & K). apply kids_ok_app.
    assert (K' : kids_ok tx lo (S lb) ccs) by (eapply kids_ok_weaken; [exact A|apply le_n|exact K]).
    split; [eapply kids_ok_weaken; [apply le_n| |exact K']; lia|].
    pose proof (kids_end_bound _ _ _ _ K' ltac:(lia)). eapply kids_ok_weaken; [|apply le_n|exact IH]. lia.
  - subst ccs. exact IH.
Qed.

Lemma items_tight_ok tx items : forall lo hi, kids_ok tx lo hi items ->
  kids_ok tx lo hi (map (fun it => set_children it (mark_tight (n_children it))) items).
Proof.
  induction items as [|it t IH]; intros lo hi H; [exact I|]. cbn [map kids_ok] in *. destruct H as [Hc Ht].
  destruct it as [k m a e cs]. cbn [set_children n_children]. split.
  - rewrite blk_ok_unfold in *. destruct m as [[[o1|la oa] [o2|lb ob]]|]; try contradiction.
    + destruct Hc as (A & B & C & D & E & F & K). repeat split; try assumption. apply mark_tight_ok; [lia|exact K].
    + subst cs. reflexivity.
  - apply IH. exact Ht.
Qed.

Section Engine.
Variable cfg : bcfg.
Variable T : bstate -> res bstate.
(* what BlockProofs shows of the nested tokenizer: limits, level, progress *)
Hypothesis T_post : forall st st', T st = inr st' -> tpost st st'.
(* what this file shows of it: no panic, same line table, the line stays inside the block *)
Definition tsafe (st st' : bstate) : Prop :=
  b_lines st' = b_lines st /\ (b_line st' <= b_max st)%nat /\
  (forall lo, (lo <= b_line st)%nat -> kids_ok (txs st) lo (b_line st) (n_children (b_node st)) ->
              kids_ok (txs st) lo (b_line st') (n_children (b_node st'))).
Hypothesis T_safe : forall st, binv st -> (b_line st <= b_max st)%nat -> np (tsafe st) (T st).

Lemma np_T st : binv st -> (b_line st <= b_max st)%nat -> np (fun st' => tsafe st st' /\ tpost st st') (T st).
Proof.
  intros Hi Hl. pose proof (T_safe st Hi Hl) as H. pose proof (T_post st) as Hp.
  destruct (T st) as [[k| |]|st']; cbn in *; auto.
Qed.


Section OneRule.
Variable st : bstate.
Hypothesis Hi : binv st.
Hypothesis Hl : (b_line st < b_max st)%nat.
(* the engine calls the rules on a line that is not outdented *)
Hypothesis Hnn : exists r, nth_error (b_lines st) (b_line st) = Some r /\ (0 <= l_indent r - Z.of_N (b_blk st))%Z.

Lemma np_rule_quote : np (rok st) (rule_quote cfg T st).
Proof.
  unfold rule_quote.
  eapply np_bind; [apply np_quote_open; assumption|]. intros ok Hok _. destruct ok; cbn [negb]; [|apply rok_decline].
  cbv zeta.
  (* first iteration of the scan: the marker line itself *)
  destruct Hi as [Hm Hw]. destruct Hnn as (r & Hr & Hind).
  unfold quote_open in Hok. unfold line_indent, get_line, line_rec in Hok. rewrite Hr in Hok. cbn [bind ret] in Hok.
  destruct (4 <=? l_indent r - Z.of_N (b_blk st))%Z eqn:E4; [discriminate|].
  destruct (l_first r <=? l_end r) eqn:Efe; [|discriminate]. cbn [bind ret] in Hok.
  destruct (dropN (l_first r) (l_text r)) as [|c rest] eqn:Ed; [discriminate|].
  assert (c = 62) by (injection Hok as Hc; destruct c as [|pc]; [discriminate|]; repeat (destruct pc as [pc|pc|]; try discriminate); reflexivity). subst c.
  pose proof (drop_cons_lt _ _ _ _ Ed) as [Hfl _].
  cbn [quote_scan]. replace (b_line st <? b_max st)%nat with true by (symmetry; apply PeanoNat.Nat.ltb_lt; exact Hl). cbn [negb].
  cbv zeta. unfold line_indent, get_line, line_rec. cbn [b_lines set_lines b_blk]. rewrite Hr. cbn [bind ret]. rewrite Efe. cbn [bind ret]. rewrite Ed.
  change (62 =? 62) with true. replace (l_indent r - Z.of_N (b_blk st) <? 0)%Z with false by lia. cbn [andb negb].
  destruct (find_indent_of (l_text r) (l_first r + 1)) as [ia fn] eqn:Ef.
  assert (Hfn : l_first r + 1 <= fn <= len (l_text r)) by (apply (find_indent_of_bound _ _ ia fn); [lia|exact Ef]).
  set (ia' := match rest with d :: _ => if is_sptab d then ia - 1 else ia | [] => ia end).
  set (rec1 := LRec (l_text r) fn (Z.of_N ia')).
  assert (Hw1 : lines_wf (set_nth (b_lines st) (b_line st) rec1)).
  { apply set_nth_wf; [exact Hw|]. pose proof (Hw _ _ Hr) as Hrw. unfold rec_wf, rec1 in *. cbn [l_first l_text]. lia. }
  eapply np_bind; [apply (np_quote_scan cfg st (length (b_lines st)) Hm); [apply set_nth_length|exact Hw1|lia]|].
  intros [lines' next] _ (Hlen & Hw' & Hnx & Hframe & Htx). cbn [fst snd] in Hlen, Hw', Hnx, Hframe, Htx.
  assert (Htx' : map l_text lines' = txs st) by (rewrite Htx; unfold rec1; apply set_nth_text; exact Hr).
  set (inner := BState lines' (mk KBlockquote None []) 0 (b_line st) next (b_tight st) (b_list_indent st) (b_level st + 1) (b_refs st)).
  assert (Hinner : binv inner) by (split; cbn [b_max b_lines inner]; [lia|exact Hw']).
  eapply np_bind; [apply np_T; [exact Hinner|cbn [b_line b_max inner]; lia]|].
  intros inner' _ [(Hlines & Hline' & Hkids) (Hmax' & _ & Hmono & Hprog)]. cbn [b_lines b_line b_max inner] in *.
  assert (Hadv : (b_line st < b_line inner')%nat).
  { apply Hprog; [lia|]. right. cbn [b_lines b_line b_blk inner]. exists rec1. split.
    - rewrite (Hframe (b_line st)) by lia. apply (set_nth_same _ _ _ _ Hr).
    - unfold rec1. cbn [l_indent]. lia. }
  specialize (Hkids (b_line st) (le_n _) I). unfold txs in Hkids. cbn [b_lines inner] in Hkids. rewrite Htx' in Hkids.
  eapply np_bind; [apply np_get_map; [split; cbn [b_max b_lines]; assumption|lia|cbn [b_max]; lia]|]. intros mp _ (oa & ob & -> & P1 & P2 & P3).
  apply np_ret. unfold rok, pushed. cbn [fst snd b_lines b_max b_line b_node push_node set_node].
  split; [reflexivity|]. split; [reflexivity|]. split; [lia|]. right. eexists. split; [reflexivity|].
  destruct (b_node inner') as [k0 m0 a0 e0 cs0]. cbn [set_map n_children] in *. rewrite blk_ok_unfold.
  unfold txs in P1, P2. cbn [b_lines] in P1, P2.
  repeat split; try assumption; try lia.
  replace (S (b_line inner' - 1)) with (b_line inner') by lia. exact Hkids.
Qed.
End OneRule.

Definition lok (st : bstate) (next : nat) (x : bstate * nat * bool) : Prop :=
  b_lines (fst (fst x)) = b_lines st /\ b_max (fst (fst x)) = b_max st /\
  b_line (fst (fst x)) = snd (fst x) /\ (next < snd (fst x) <= b_max st)%nat /\
  (forall lo, (lo <= next)%nat -> kids_ok (txs st) lo next (n_children (b_node st)) ->
              kids_ok (txs st) lo (snd (fst x)) (n_children (b_node (fst (fst x))))).

Lemma np_list_items n : forall st ordered mc p next pe tight,
  binv st -> b_line st = next -> (next < b_max st)%nat ->
  (exists r, nth_error (b_lines st) next = Some r /\ p + l_first r <= len (l_text r)) ->
  np (lok st next) (list_items cfg T n st ordered mc p next pe tight).
Proof.
  induction n as [|n IH]; intros st ordered mc p next pe tight Hi Hline Hlt (r & Hr & Hp); [exact I|].
  cbn [list_items]. replace (next <? b_max st)%nat with true by (symmetry; apply PeanoNat.Nat.ltb_lt; exact Hlt). cbn [negb].
  unfold line_rec at 1. rewrite Hr. cbn [bind ret]. cbv zeta.
  destruct (find_indent_of (l_text r) (p + l_first r)) as [ia fn] eqn:Ef.
  assert (Hfn : p + l_first r <= fn <= len (l_text r)) by (apply (find_indent_of_bound _ _ ia fn); [lia|exact Ef]).
  destruct Hi as [Hm Hw].
  set (ia' := if fn =? l_end r then 1 else if 4 <? ia then 1 else ia).
  set (rec1 := LRec (l_text r) fn (Z.of_N (Z.to_N (l_indent r) + p + ia))).
  set (lines1 := set_nth (b_lines st) next rec1).
  set (st1 := BState lines1 (mk KItem None []) (Z.to_N (l_indent r) + p + ia') (b_line st) (b_max st) true (Some (b_blk st)) (b_level st) (b_refs st)).
  assert (Hw1 : lines_wf lines1) by (apply set_nth_wf; [exact Hw|pose proof (Hw _ _ Hr) as Hrw; unfold rec_wf, rec1 in *; cbn [l_first l_text]; lia]).
  assert (Hi1 : binv st1) by (split; cbn [b_max b_lines st1]; [unfold lines1; rewrite set_nth_length; exact Hm|exact Hw1]).
  (* the item body *)
  assert (Htx1 : map l_text lines1 = txs st) by (unfold lines1, rec1; apply set_nth_text; exact Hr).
  eapply (np_bind (fun st2 : bstate => b_max st2 = b_max st /\ (next < b_line st2 <= b_max st)%nat /\
                                       kids_ok (txs st) next (b_line st2) (n_children (b_node st2)))).
  { destruct ((fn =? l_end r) && is_empty st1 (S next)) eqn:Hfast.
    - apply np_ret. cbn [b_max b_line b_node set_line st1 mk n_children kids_ok]. rewrite Hline. destruct (next + 2 <? b_max st)%nat eqn:E; [apply PeanoNat.Nat.ltb_lt in E|apply PeanoNat.Nat.ltb_ge in E]; repeat split; lia.
    - set (inner := set_level (set_line st1 next) (b_level st + 1)).
      eapply np_bind; [apply (np_T inner); [exact Hi1|cbn [b_line b_max inner set_level set_line st1]; lia]|].
      intros x _ [(Hxl & Hxline & Hxk) (Hxm & _ & _ & Hprog)]. cbn [b_max b_line inner set_level set_line st1] in *.
      specialize (Hxk next (le_n _) I). unfold txs in Hxk. cbn [b_lines inner set_level set_line st1] in Hxk. rewrite Htx1 in Hxk.
      apply np_ret. cbn [b_max b_line b_node set_level]. split; [exact Hxm|].
      assert (Hadv : (next < b_line x)%nat); [|split; [lia|exact Hxk]].
      apply Hprog; [exact Hlt|].
      destruct (fn =? l_end r) eqn:Ee.
      + left. unfold is_empty. cbn [b_lines b_line inner set_level set_line st1]. unfold lines1. rewrite (set_nth_same _ _ _ _ Hr).
        unfold l_end, rec1 in *. cbn [l_text l_first]. lia.
      + right. cbn [b_lines b_line b_blk inner set_level set_line st1]. unfold lines1. rewrite (set_nth_same _ _ _ _ Hr).
        eexists. split; [reflexivity|]. unfold rec1, ia'. cbn [l_indent]. rewrite ?Ee. destruct (4 <? ia) eqn:E4; lia. }
  intros st2 _ (Hm2 & Hl2 & Hk2).
  replace (b_line st2 <? next)%nat with false by (symmetry; apply PeanoNat.Nat.ltb_ge; lia).
  replace (b_line st2 =? 0)%nat with false by (symmetry; apply PeanoNat.Nat.eqb_neq; lia).
  set (st3 := BState (b_lines st) (b_node st) (b_blk st) (b_line st2) (b_max st) (b_tight st) (b_list_indent st) (b_level st) (b_refs st2)).
  assert (Hi3 : binv st3) by (split; cbn [b_max b_lines st3]; assumption).
  eapply np_bind; [apply np_get_map; [exact Hi3|lia|cbn [b_max st3]; lia]|]. intros mp _ (oa & ob & -> & P1 & P2 & P3).
  unfold txs in P1, P2. cbn [b_lines st3] in P1, P2. fold (txs st) in P1, P2.
  set (item := set_map (b_node st2) (Some (SRel next oa, SRel (b_line st2 - 1) ob))).
  assert (Hitem : blk_ok (txs st) next (b_line st2) item).
  { unfold item. destruct (b_node st2) as [k0 m0 a0 e0 cs0]. cbn [set_map n_children] in *. rewrite blk_ok_unfold.
    repeat split; try assumption; try lia. replace (S (b_line st2 - 1)) with (b_line st2) by lia. exact Hk2. }
  set (st4 := push_node st3 item).
  assert (Hi4 : binv st4) by exact Hi3.
  assert (Hk4 : forall lo, (lo <= next)%nat -> kids_ok (txs st) lo next (n_children (b_node st)) ->
                kids_ok (txs st) lo (b_line st2) (n_children (b_node st4))).
  { intros lo Hlo Hk. unfold st4, push_node, st3. cbn [b_node set_node]. unfold push_child. destruct (b_node st) as [k0 m0 a0 e0 cs0].
    cbn [set_children n_children] in *. apply (kids_ok_push _ lo next); [exact Hlo|lia|exact Hk|exact Hitem]. }
  assert (Hdone : forall (s' : bstate) t', b_lines s' = b_lines st -> b_max s' = b_max st -> b_line s' = b_line st2 -> b_node s' = b_node st4 ->
            np (lok st next) (ret (s', b_line st2, t'))).
  { intros s' t' A B C D. apply np_ret. unfold lok. cbn [fst snd]. rewrite D. repeat split; try assumption; lia. }
  cbn [b_max st4 push_node set_node st3].
  destruct (b_max st <=? b_line st2)%nat eqn:Emax; [apply Hdone; reflexivity|]. apply PeanoNat.Nat.leb_gt in Emax.
  eapply np_bind; [apply np_line_indent; [exact Hi4|cbn [b_max st4 push_node set_node st3]; exact Emax]|]. intros ind _ _.
  destruct (ind <? 0)%Z; [apply Hdone; reflexivity|]. destruct (4 <=? ind)%Z; [apply Hdone; reflexivity|].
  eapply np_bind; [apply np_test_rules_at; [exact Hi4|cbn [b_max st4 push_node set_node st3]; exact Emax]|]. intros term _ _.
  destruct term; [apply Hdone; reflexivity|].
  set (st5 := set_line st4 (b_line st2)).
  eapply np_bind; [apply np_get_line; [exact Hi4|cbn [b_max st5 st4 set_line push_node set_node st3]; exact Emax]|]. intros cur Hcur _.
  assert (Hmk : forall p', (if ordered then skip_ordered_list_marker cur else skip_bullet_list_marker cur) = Some p' -> 1 <= p' <= len cur).
  { intros p' H. destruct ordered; [apply skip_ordered_bound|apply skip_bullet_bound]; exact H. }
  destruct (if ordered then skip_ordered_list_marker cur else skip_bullet_list_marker cur) as [p'|] eqn:Emk; [|apply Hdone; reflexivity].
  specialize (Hmk p' eq_refl). destruct (last_byte_take p' cur Hmk) as [c0 Hc0]. rewrite Hc0.
  destruct (negb (c0 =? mc)); [apply Hdone; reflexivity|].
  destruct (nth_in_range (b_lines st) (b_line st2)) as [r' Hr']; [lia|].
  eapply np_weaken; [|apply IH; [exact Hi4|reflexivity|cbn [b_max st5 st4 set_line push_node set_node st3]; exact Emax|]].
  - intros [[s' nx] t'] (A & B & C & D & K). cbn [fst snd] in *. unfold lok. cbn [fst snd].
    cbn [b_lines b_max st5 st4 set_line push_node set_node st3] in A, B, D. repeat split; try assumption; try lia.
    intros lo Hlo Hk. apply K; [lia|]. apply Hk4; assumption.
  - cbn [b_lines st5 st4 set_line push_node set_node st3]. exists r'. split; [exact Hr'|].
    pose proof (get_line_len st5 (b_line st2) cur r' Hcur Hr'). lia.
Qed.

Lemma np_list_open' (st : bstate) : binv st -> (b_line st < b_max st)%nat ->
  np (fun o => match o with Some (_, p, cur) => get_line st (b_line st) = inr cur /\ 1 <= p <= len cur | None => True end) (list_open st false).
Proof.
  intros Hi Hl. unfold list_open. cbn [andb]. nps.
  all: split; [assumption|].
  all: first [apply skip_ordered_bound; assumption | apply skip_bullet_bound; assumption].
Qed.

Lemma np_rule_list st : binv st -> (b_line st < b_max st)%nat -> np (rok st) (rule_list cfg T st).
Proof.
  intros Hi Hl. unfold rule_list.
  eapply np_bind; [apply np_list_open'; assumption|]. intros o _ Ho. destruct o as [[[mv p] cur]|]; [|apply rok_decline].
  destruct Ho as [Hcur Hp]. destruct (last_byte_take p cur Hp) as [mc Hmc]. rewrite Hmc. cbv zeta.
  destruct (nth_in_range (b_lines st) (b_line st)) as [r Hr]; [destruct Hi; lia|].
  eapply np_bind.
  { apply np_list_items; [exact Hi|reflexivity|cbn [b_max set_node]; exact Hl|].
    cbn [b_lines set_node]. exists r. split; [exact Hr|]. pose proof (get_line_len st (b_line st) cur r Hcur Hr). lia. }
  intros [[st' next] tight] _ (A & B & C & D & K). cbn [fst snd b_lines b_max b_node set_node n_children] in A, B, C, D, K.
  replace (next =? 0)%nat with false by (symmetry; apply PeanoNat.Nat.eqb_neq; lia).
  eapply np_bind; [apply np_get_map; [split; [rewrite A, B; apply Hi|rewrite A; apply Hi]|lia|lia]|]. intros mp _ (oa & ob & -> & P1 & P2 & P3).
  unfold txs in P1, P2. rewrite A in P1, P2. fold (txs st) in P1, P2.
  assert (Hitems : kids_ok (txs st) (b_line st) next (n_children (b_node st'))).
  { apply K; [apply le_n|]. unfold txs. cbn [b_lines set_node]. destruct mv; exact I. }
  apply np_ret. unfold rok, pushed. cbn [fst snd b_lines b_max b_line b_node set_node].
  split; [exact A|]. split; [exact B|]. split; [lia|]. right. eexists. split; [reflexivity|].
  destruct (b_node st') as [k0 m0 a0 e0 cs0]. cbn [n_children] in Hitems.
  destruct tight; cbn [set_children set_map n_children]; rewrite blk_ok_unfold; repeat split; try assumption; try lia;
    replace (S (next - 1)) with next by lia; [apply items_tight_ok|]; exact Hitems.
Qed.

Lemma np_rule_real r st : binv st -> (b_line st < b_max st)%nat ->
  (exists r0, nth_error (b_lines st) (b_line st) = Some r0 /\ (0 <= l_indent r0 - Z.of_N (b_blk st))%Z) ->
  np (rok st) (rule_real cfg T r st).
Proof.
  intros Hi Hl Hnn. unfold rule_real.
  repeat match goal with |- np _ (if ?c then _ else _) => destruct c eqn:? end;
    auto using np_rule_code, np_rule_fence, np_rule_quote, np_rule_hr, np_rule_list, np_rule_heading, np_rule_lheading,
      np_rule_paragraph, np_rule_html_block, np_rule_custom, np_rule_reference, rok_decline.
  apply rok_decline.
Qed.

Lemma np_try_rules chain : forall st, binv st -> (b_line st < b_max st)%nat ->
  (exists r0, nth_error (b_lines st) (b_line st) = Some r0 /\ (0 <= l_indent r0 - Z.of_N (b_blk st))%Z) ->
  np (rok st) (try_rules cfg T chain st).
Proof.
  induction chain as [|r t IH]; intros st Hi Hl Hnn; cbn [try_rules]; [apply rok_decline|].
  eapply np_bind; [apply np_rule_real; assumption|]. intros [st' b] _ (A & B & C). cbn [fst snd] in *.
  destruct b; [|subst st'; apply IH; assumption].
  replace (b_line st <? b_line st')%nat with true by (symmetry; apply PeanoNat.Nat.ltb_lt; lia).
  apply np_ret. unfold rok. cbn [fst snd]. auto.
Qed.

Lemma skip_empty_from_le st : forall n l, (l <= b_max st)%nat -> (l <= skip_empty_from n st l <= b_max st)%nat.
Proof.
  induction n as [|n IH]; intros l Hl; cbn [skip_empty_from]; [lia|].
  destruct (Nat.eqb_spec l (b_max st)) as [->|Hne]; cbn [negb andb]; [lia|].
  destruct (is_empty st l); [|lia]. specialize (IH (S l) ltac:(lia)). lia.
Qed.


Lemma tsafe_refl st : (b_line st <= b_max st)%nat -> tsafe st st.
Proof. intros H. split; [reflexivity|]. split; [exact H|]. auto. Qed.

Lemma tsafe_line st l : (b_line st <= l <= b_max st)%nat -> tsafe st (set_line st l).
Proof.
  intros H. split; [reflexivity|]. split; [cbn [b_line set_line]; lia|]. intros lo Hlo Hk. cbn [b_line b_node set_line].
  eapply kids_ok_weaken; [apply le_n| |exact Hk]. lia.
Qed.

Lemma np_tok_loop n : forall st he, binv st -> (b_line st <= b_max st)%nat -> np (tsafe st) (tok_loop cfg T n st he).
Proof.
  induction n as [|n IH]; intros st he Hi Hl; cbn [tok_loop].
  { destruct (negb (b_line st <? b_max st)%nat); [apply np_ret; apply tsafe_refl; exact Hl|exact I]. }
  destruct (negb (b_line st <? b_max st)%nat) eqn:Hlt; [apply np_ret; apply tsafe_refl; exact Hl|].
  cbv zeta. unfold skip_empty_lines.
  pose proof (skip_empty_from_le st (S (b_max st - b_line st)) (b_line st) Hl) as Hs.
  set (line := skip_empty_from (S (b_max st - b_line st)) st (b_line st)) in *.
  cbn [b_max set_line].
  destruct (b_max st <=? line)%nat eqn:Hmax; [apply np_ret; apply tsafe_line; lia|].
  apply PeanoNat.Nat.leb_gt in Hmax.
  assert (Hi' : binv (set_line st line)) by exact Hi.
  eapply np_bind; [apply np_line_indent; [exact Hi'|exact Hmax]|]. intros ind Hind _.
  destruct (ind <? 0)%Z eqn:Hneg; [apply np_ret; apply tsafe_line; lia|].
  cbn [b_level set_line].
  destruct (bc_maxnest cfg <=? b_level st).
  { apply np_ret. pose proof (tsafe_line st (b_max st) ltac:(lia)) as H. exact H. }
  assert (Hnn : exists r0, nth_error (b_lines (set_line st line)) (b_line (set_line st line)) = Some r0 /\
                           (0 <= l_indent r0 - Z.of_N (b_blk (set_line st line)))%Z).
  { unfold line_indent, line_rec in Hind. cbn [b_lines b_line b_blk set_line] in *.
    destruct (nth_error (b_lines st) line) as [r0|]; [|discriminate]. cbn [bind ret] in Hind. injection Hind as <-.
    exists r0. split; [reflexivity|lia]. }
  eapply np_bind; [apply np_try_rules; [exact Hi'|exact Hmax|exact Hnn]|].
  intros [st1' ok] _ (A & B & C). cbn [fst snd b_lines b_max b_line set_line] in A, B, C.
  (* after a rule or the fallback: one more child, made of the lines consumed *)
  eapply (np_bind (fun st1 : bstate => b_lines st1 = b_lines st /\ b_max st1 = b_max st /\ (line < b_line st1 <= b_max st)%nat /\
                                       (b_node st1 = b_node st \/
                                        exists c, b_node st1 = push_child (b_node st) c /\ blk_ok (txs st) line (b_line st1) c))).
  { destruct ok.
    - destruct C as [C Hp]. cbn [b_node b_line set_line txs b_lines] in Hp. apply np_ret. cbn [fst]. split; [exact A|]. split; [exact B|]. split; [lia|]. exact Hp.
    - subst st1'.
      eapply np_bind; [apply np_get_line; [exact Hi'|exact Hmax]|]. intros content _ _.
      eapply np_bind; [apply np_line_rec; [exact Hi'|exact Hmax]|]. intros r0 _ _.
      apply np_ret. cbn [b_lines b_max b_line b_node set_line push_node set_node]. repeat split; try lia.
      right. eexists. split; [reflexivity|]. unfold mk. rewrite blk_ok_unfold. reflexivity. }
  intros st1 _ (A1 & B1 & C1 & Hp1).
  assert (Hrec : forall s' he', b_lines s' = b_lines st -> b_max s' = b_max st -> (b_line st1 <= b_line s' <= b_max st)%nat ->
            b_node s' = b_node st1 -> np (tsafe st) (tok_loop cfg T n s' he')).
  { intros s' he' X Y Z W. eapply np_weaken; [|apply IH; [split; [rewrite X, Y; apply Hi|rewrite X; apply Hi]|lia]].
    intros y (P & Q & K). split; [congruence|]. split; [lia|]. intros lo Hlo Hk.
    assert (Htx : txs s' = txs st) by (unfold txs; rewrite X; reflexivity). rewrite Htx in K.
    apply K; [lia|]. rewrite W. destruct Hp1 as [Hsame|(c & Hc & Hb)].
    - rewrite Hsame. eapply kids_ok_weaken; [apply le_n| |exact Hk]. lia.
    - rewrite Hc. unfold push_child. destruct (b_node st) as [k0 m0 a0 e0 cs0]. cbn [set_children n_children] in *.
      eapply kids_ok_weaken; [apply le_n| |apply (kids_ok_push _ lo line (b_line st1)); [lia|lia| |exact Hb]]; [lia|].
      eapply kids_ok_weaken; [apply le_n| |exact Hk]. lia. }
  cbn [b_line b_max set_tight].
  destruct ((b_line st1 <? b_max st1)%nat && is_empty (set_tight st1 (negb he)) (b_line st1)) eqn:Hnext.
  - apply andb_true_iff in Hnext. destruct Hnext as [Hn1 _]. apply PeanoNat.Nat.ltb_lt in Hn1.
    apply Hrec; cbn [b_lines b_max b_line b_node set_line set_tight]; try assumption; try reflexivity; lia.
  - apply Hrec; cbn [b_lines b_max b_line b_node set_tight]; try assumption; try reflexivity; lia.
Qed.

Lemma np_tokenize_body st : binv st -> (b_line st <= b_max st)%nat -> np (tsafe st) (tokenize_body cfg T st).
Proof. intros. unfold tokenize_body. apply np_tok_loop; assumption. Qed.

End Engine.

(* ------------------------------------------------------------------ *)
(* closing the recursion                                                 *)

Theorem btokenize_safe cfg :
  forall fuel st, binv st -> (b_line st <= b_max st)%nat -> np (tsafe st) (btokenize fuel cfg st).
Proof.
  induction fuel as [|f IH]; intros st Hi Hl; cbn [btokenize]; [exact I|].
  apply np_tokenize_body; try assumption.
  intros s s' E. pose proof (btokenize_spec cfg f s) as H. unfold tspec in H. rewrite E in H. exact H.
Qed.

Lemma leading_ws_bound s : forall b c, fst (leading_ws s b c) <= b + len s.
Proof.
  induction s as [|x t IH]; intros b c; cbn [leading_ws].
  - cbn [fst]. unfold len. cbn [length]. lia.
  - assert (Hl : len (x :: t) = 1 + len t) by (unfold len; cbn [length]; lia). rewrite Hl.
    destruct x as [|p]; [cbn [fst]; lia|].
    repeat (destruct p as [p|p|]; try (cbn [fst]; lia)).
    all: match goal with |- context [leading_ws _ ?b1 ?c1] => specialize (IH b1 c1) end; lia.
Qed.

Lemma mk_line_wf text : cl text = 0 -> rec_wf (mk_line text).
Proof.
  intros Hcl. unfold rec_wf, mk_line. pose proof (leading_ws_bound text 0 0) as H. destruct (leading_ws text 0 0) as [b c]. cbn [fst l_first l_text] in *. lia.
Qed.

(* the block pass does not panic: every document, every chain without the reference-definition rule, every limit, every fuel *)
Theorem block_parse_never_panics fuel cfg texts root refs : Forall (fun t => cl t = 0) texts ->
  forall k, block_parse fuel cfg texts root refs <> inl (Panic k).
Proof.
  intros Hlf k. unfold block_parse. cbv zeta.
  set (st0 := BState (map mk_line texts) root 0 0 (length (map mk_line texts)) false None 0 refs).
  assert (Hi : binv st0).
  { split; [cbn [b_max b_lines st0]; lia|]. intros l r H. cbn [b_lines st0] in H.
    apply nth_error_In in H. apply in_map_iff in H. destruct H as (t & <- & Ht). apply mk_line_wf. rewrite Forall_forall in Hlf. apply Hlf. exact Ht. }
  pose proof (btokenize_safe cfg fuel st0 Hi ltac:(cbn [b_line b_max st0]; lia)) as H.
  destruct (btokenize fuel cfg st0) as [[k'| |]|st']; cbn in *; try discriminate; try contradiction.
Qed.

(* with the termination theorem of BlockProofs: it returns *)
Theorem block_parse_returns fuel cfg texts root refs : Forall (fun t => cl t = 0) texts ->
  (N.to_nat (bc_maxnest cfg) < fuel)%nat -> exists x, block_parse fuel cfg texts root refs = inr x.
Proof.
  intros Hc Hf. pose proof (block_parse_terminates fuel cfg texts root refs Hf) as Ht.
  pose proof (block_parse_never_panics fuel cfg texts root refs Hc) as Hp.
  destruct (block_parse fuel cfg texts root refs) as [[k| |]|x]; cbn in Ht; try contradiction; [exfalso; apply (Hp k); reflexivity|].
  eexists. reflexivity.
Qed.

(* ------------------------------------------------------------------ *)
(* C05, block level: the ranges of the block tree                        *)

Lemma mk_line_text t : l_text (mk_line t) = t.
Proof. unfold mk_line. destruct (leading_ws t 0 0). reflexivity. Qed.

(* every block the block pass returns has a range made of two positions of the line texts, start before end; children lie
   within the lines of their parent; siblings occupy strictly increasing, disjoint line ranges -- every document, every
   chain without the reference-definition rule, every limit and fuel *)
Theorem block_parse_ranges fuel cfg texts refs root' refs' : Forall (fun t => cl t = 0) texts ->
  block_parse fuel cfg texts (mk KRoot None []) refs = inr (root', refs') ->
  kids_ok texts 0 (length texts) (n_children root').
Proof.
  intros Hlf. unfold block_parse. cbv zeta.
  set (st0 := BState (map mk_line texts) (mk KRoot None []) 0 0 (length (map mk_line texts)) false None 0 refs).
  assert (Hi : binv st0).
  { split; [cbn [b_max b_lines st0]; lia|]. intros l r H. cbn [b_lines st0] in H.
    apply nth_error_In in H. apply in_map_iff in H. destruct H as (t & <- & Ht). apply mk_line_wf. rewrite Forall_forall in Hlf. apply Hlf. exact Ht. }
  pose proof (btokenize_safe cfg fuel st0 Hi ltac:(cbn [b_line b_max st0]; lia)) as H.
  destruct (btokenize fuel cfg st0) as [e|st'] eqn:E; cbn [bind ret]; [discriminate|]. intros Heq. injection Heq as <- <-.
  cbn [np] in H. destruct H as (_ & Hline & Hk). specialize (Hk 0%nat (le_n _) I).
  cbn [b_line b_max st0] in Hline, Hk. rewrite map_length in Hline.
  assert (Htx : txs st0 = texts).
  { unfold txs. cbn [b_lines st0]. rewrite map_map. rewrite <- (map_id texts) at 2. apply map_ext. apply mk_line_text. }
  rewrite Htx in Hk. eapply kids_ok_weaken; [apply le_n|exact Hline|exact Hk].
Qed.

(* ------------------------------------------------------------------ *)
(* the lines of a source text hold no line feed: the theorems apply to every source *)

From MdIt Require Import LineProofs.

Lemma texts_loop_lf s : forall cur, cl cur = 0 -> Forall (fun t => cl t = 0) (texts_loop s cur).
Proof.
  assert (Hrev : forall c : str, cl c = 0 -> cl (rev c) = 0).
  { induction c as [|x c IH]; cbn [rev cl]; [auto|]. intros H. rewrite cl_app. cbn [cl]. destruct (x =? 10); [lia|]. rewrite IH; lia. }
  induction s as [s IH] using len_ind. intros cur Hc. destruct s as [|c t]; cbn [texts_loop]; [repeat constructor; apply Hrev; exact Hc|].
  destruct (c =? 10) eqn:E10.
  - destruct t as [|d t']; [repeat constructor; apply Hrev; exact Hc|]. constructor; [apply Hrev; exact Hc|apply IH; [cbn; lia|reflexivity]].
  - destruct (c =? 13).
    + destruct t as [|d t']; [repeat constructor; apply Hrev; exact Hc|]. destruct (d =? 10).
      * destruct t' as [|e t'']; [repeat constructor; apply Hrev; exact Hc|]. constructor; [apply Hrev; exact Hc|apply IH; [cbn; lia|reflexivity]].
      * constructor; [apply Hrev; exact Hc|apply IH; [cbn; lia|reflexivity]].
    + apply IH; [cbn; lia|]. cbn [cl]. rewrite E10. lia.
Qed.

Theorem texts_of_lf_free src : Forall (fun t => cl t = 0) (texts_of src).
Proof. rewrite texts_of_loop. apply texts_loop_lf. reflexivity. Qed.

(* for the lines of ANY source text: the block pass returns, and its tree is well ranged *)
Theorem block_pass_of_source_returns fuel cfg src root refs : (N.to_nat (bc_maxnest cfg) < fuel)%nat ->
  exists x, block_parse fuel cfg (texts_of src) root refs = inr x.
Proof. intros Hf. apply block_parse_returns; [apply texts_of_lf_free|exact Hf]. Qed.

Theorem block_pass_of_source_ranges fuel cfg src refs root' refs' :
  block_parse fuel cfg (texts_of src) (mk KRoot None []) refs = inr (root', refs') ->
  kids_ok (texts_of src) 0 (length (texts_of src)) (n_children root').
Proof. apply block_parse_ranges. apply texts_of_lf_free. Qed.
