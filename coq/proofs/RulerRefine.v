(* Refinement: compile() as written in src/common/ruler.rs (model/Ruler.v, statement by statement)
   computes exactly the specification: missing requirement -> panic; otherwise the canonical
   (greedy by rank) order, or a panic when the selection gets stuck (property C09) *)
From MdIt Require Import Prims Ruler RulerProofs.
From Coq Require Import Lia Permutation.
Local Open Scope list_scope.
Local Open Scope nat_scope.

(* ------------------------------------------------------------------ *)
(* (a) first loop: priority pre-order and idhash                        *)

Definition cls (ds : list item) (p : prio) (i : nat) : bool :=
  match nth_error ds i with
  | Some d => match pr d, p with
              | PBeforeAll, PBeforeAll | PNormal, PNormal | PAfterAll, PAfterAll => true
              | _, _ => false end
  | None => false end.

Lemma rank_order_cls ds :
  rank_order ds = filter (cls ds PBeforeAll) (seq 0 (length ds)) ++ filter (cls ds PNormal) (seq 0 (length ds))
                  ++ filter (cls ds PAfterAll) (seq 0 (length ds)).
Proof. reflexivity. Qed.

Lemma insert_at_app {A} (l1 l2 : list A) x : insert_at (length l1) x (l1 ++ l2) = l1 ++ x :: l2.
Proof. induction l1 as [|y t IH]; cbn [length insert_at app]; [destruct l2; reflexivity|]. f_equal. exact IH. Qed.

Lemma insert_at_end {A} (l : list A) x : insert_at (length l) x l = l ++ [x].
Proof. rewrite <- (app_nil_r l) at 2. rewrite insert_at_app. reflexivity. Qed.

Lemma seq_S_filter (f : nat -> bool) k :
  filter f (seq 0 (S k)) = filter f (seq 0 k) ++ (if f k then [k] else []).
Proof. rewrite seq_S, filter_app. cbn [filter Nat.add]. destruct (f k); reflexivity. Qed.

(* holders of a mark in the hash built so far *)
Definition hold_lt (ds : list item) (k : nat) (m : N) (i : nat) : Prop := i < k /\ holds ds i m = true.

Definition hash_ok (ds : list item) (k : nat) (h : idhash) : Prop :=
  forall m i, In i (ih_holders h m) <-> hold_lt ds k m i.

Lemma ih_push_holders h m idx m' :
  forall i, In i (ih_holders (ih_push h m idx) m') <-> In i (ih_holders h m') \/ (m' = m /\ i = idx).
Proof.
  unfold ih_holders. induction h as [|[k v] t IH]; intros i; cbn [ih_push ih_get].
  - destruct (N.eqb_spec m m') as [->|Hn]; cbn [In]; intuition congruence.
  - destruct (N.eqb_spec k m) as [->|Hkm]; cbn [ih_get].
    + destruct (N.eqb_spec m m') as [->|Hn].
      * rewrite in_app_iff. cbn [In]. intuition congruence.
      * intuition congruence.
    + destruct (N.eqb_spec k m') as [->|Hn]; [intuition congruence|]. apply IH.
Qed.

Lemma fold_push_holders marks_ : forall h idx m' i,
  In i (ih_holders (fold_left (fun h m => ih_push h m idx) marks_ h) m') <->
  In i (ih_holders h m') \/ (In m' marks_ /\ i = idx).
Proof.
  induction marks_ as [|m t IH]; intros h idx m' i; cbn [fold_left In]; [tauto|].
  rewrite IH, ih_push_holders. intuition congruence.
Qed.

Lemma mem_In x l : mem x l = true <-> In x l.
Proof.
  induction l as [|y t IH]; cbn [mem In]; [split; [discriminate|tauto]|].
  rewrite Bool.orb_true_iff, IH, N.eqb_eq. split; intros [H|H]; auto.
Qed.

Record pre_inv (ds : list item) (k : nat) (st : pre) : Prop := {
  pi_order : p_order st = filter (cls ds PBeforeAll) (seq 0 k) ++ filter (cls ds PNormal) (seq 0 k)
                          ++ filter (cls ds PAfterAll) (seq 0 k);
  pi_before : p_before st = length (filter (cls ds PBeforeAll) (seq 0 k));
  pi_after : p_after st = length (filter (cls ds PAfterAll) (seq 0 k));
  pi_hash : hash_ok ds k (p_hash st) }.

Lemma pre_step_inv ds k st d : nth_error ds k = Some d -> pre_inv ds k st -> pre_inv ds (S k) (pre_step st k d).
Proof.
  intros Hd [Ho Hb Ha Hh].
  assert (Hhash : hash_ok ds (S k) (fold_left (fun h m => ih_push h m k) (marks d) (p_hash st))).
  { intros m i. rewrite fold_push_holders, (Hh m i). unfold hold_lt, holds. split.
    - intros [[H1 H2]|[H1 ->]]; [split; [lia|exact H2]|split; [lia|rewrite Hd; apply mem_In; exact H1]].
    - intros [H1 H2]. destruct (PeanoNat.Nat.eq_dec i k) as [->|Hn]; [right; split; [rewrite Hd in H2; apply mem_In; exact H2|reflexivity]|left; split; [lia|exact H2]]. }
  set (B := filter (cls ds PBeforeAll) (seq 0 k)) in *.
  set (Nn := filter (cls ds PNormal) (seq 0 k)) in *.
  set (A := filter (cls ds PAfterAll) (seq 0 k)) in *.
  assert (CB : cls ds PBeforeAll k = match pr d with PBeforeAll => true | _ => false end) by (unfold cls; rewrite Hd; destruct (pr d); reflexivity).
  assert (CN : cls ds PNormal k = match pr d with PNormal => true | _ => false end) by (unfold cls; rewrite Hd; destruct (pr d); reflexivity).
  assert (CA : cls ds PAfterAll k = match pr d with PAfterAll => true | _ => false end) by (unfold cls; rewrite Hd; destruct (pr d); reflexivity).
  unfold pre_step.
  destruct (pr d) eqn:Ep; constructor; cbn [p_order p_before p_after p_hash]; try exact Hhash;
    rewrite ?seq_S_filter, ?CB, ?CN, ?CA, ?app_nil_r; fold B Nn A; rewrite ?Ho, ?Hb, ?Ha; try reflexivity.
  - (* Normal: insert at len - |A| = |B ++ Nn| *)
    replace (length (B ++ Nn ++ A) - length A) with (length (B ++ Nn)) by (rewrite !app_length; lia).
    rewrite (app_assoc B Nn A), insert_at_app, <- !app_assoc. reflexivity.
  - rewrite insert_at_app, <- !app_assoc. reflexivity.
  - rewrite app_length. cbn [length]. lia.
  - rewrite insert_at_end, <- !app_assoc. reflexivity.
  - rewrite app_length. cbn [length]. lia.
Qed.

Lemma pre_loop_inv ds : forall suffix k st, k + length suffix = length ds ->
  (forall j d, nth_error suffix j = Some d -> nth_error ds (k + j) = Some d) ->
  pre_inv ds k st -> pre_inv ds (length ds) (pre_loop suffix k st).
Proof.
  induction suffix as [|d t IH]; intros k st Hl Hn Hi; cbn [pre_loop].
  - cbn [length] in Hl. replace (length ds) with k by lia. exact Hi.
  - apply IH; [cbn [length] in Hl; lia| |].
    + intros j d' Hj. replace (S k + j) with (k + S j) by lia. apply Hn. exact Hj.
    + apply pre_step_inv; [|exact Hi]. replace k with (k + 0) by lia. apply Hn. reflexivity.
Qed.

Lemma pre_loop_spec ds :
  let st := pre_loop ds 0 (Pre [] 0 0 []) in
  p_order st = rank_order ds /\ hash_ok ds (length ds) (p_hash st).
Proof.
  cbv zeta. assert (I0 : pre_inv ds 0 (Pre [] 0 0 [])).
  { constructor; cbn; try reflexivity. intros m i. unfold ih_holders, hold_lt. cbn. split; [tauto|lia]. }
  destruct (pre_loop_inv ds ds 0 _ eq_refl (fun j d H => H) I0) as [Ho _ _ Hh]. split; [exact Ho|exact Hh].
Qed.

(* ------------------------------------------------------------------ *)
(* (b) second loop: the dependency graph                                *)

(* graph g represents the relation E: In j g[i] <-> E j i *)
Definition graph_ok (n : nat) (g : list (list nat)) (E : nat -> nat -> Prop) : Prop :=
  length g = n /\ forall i j, In j (nth i g []) <-> E j i.

Lemma set_insert_in x l y : In y (set_insert x l) <-> In y l \/ y = x.
Proof.
  unfold set_insert. destruct (memn x l) eqn:M.
  - apply memn_In in M. intuition congruence.
  - rewrite in_app_iff. cbn [In]. intuition congruence.
Qed.

Lemma graph_insert_spec g : forall at_ x, length (graph_insert g at_ x) = length g /\
  forall i y, In y (nth i (graph_insert g at_ x) []) <-> In y (nth i g []) \/ (i = at_ /\ at_ < length g /\ y = x).
Proof.
  induction g as [|s t IH]; intros at_ x; cbn [graph_insert].
  - split; [reflexivity|]. intros i y. destruct i; cbn; intuition lia.
  - destruct at_ as [|a]; cbn [length].
    + split; [reflexivity|]. intros [|i] y; cbn [nth]; [rewrite set_insert_in; intuition lia|intuition lia].
    + destruct (IH a x) as [L S]. split; [lia|]. intros [|i] y; cbn [nth]; [intuition lia|]. rewrite S. intuition lia.
Qed.

Lemma graph_ok_insert n g E at_ x : graph_ok n g E -> at_ < n ->
  graph_ok n (graph_insert g at_ x) (fun j i => E j i \/ (i = at_ /\ j = x)).
Proof.
  intros [L S] Ha. destruct (graph_insert_spec g at_ x) as [L' S']. split; [lia|].
  intros i j. rewrite S', S. intuition lia.
Qed.

Lemma graph_ok_ext n g E E' : graph_ok n g E -> (forall j i, E j i <-> E' j i) -> graph_ok n g E'.
Proof. intros [L S] H. split; [exact L|]. intros i j. rewrite S. apply H. Qed.

(* Before(v): every holder d of v gets idx as predecessor *)
Lemma fold_before n hs : forall g E idx, graph_ok n g E -> (forall d, In d hs -> d < n) ->
  graph_ok n (fold_left (fun g depidx => graph_insert g depidx idx) hs g)
           (fun j i => E j i \/ (In i hs /\ j = idx)).
Proof.
  induction hs as [|d t IH]; intros g E idx G Hd; cbn [fold_left].
  - eapply graph_ok_ext; [exact G|]. intros j i. cbn [In]. tauto.
  - eapply graph_ok_ext; [apply IH; [apply graph_ok_insert; [exact G|apply Hd; left; reflexivity]|intros x Hx; apply Hd; right; exact Hx]|].
    intros j i. cbn [In]. intuition congruence.
Qed.

(* After(v): idx gets every holder d of v as predecessor *)
Lemma fold_after n hs : forall g E idx, graph_ok n g E -> idx < n ->
  graph_ok n (fold_left (fun g depidx => graph_insert g idx depidx) hs g)
           (fun j i => E j i \/ (i = idx /\ In j hs)).
Proof.
  induction hs as [|d t IH]; intros g E idx G Hi; cbn [fold_left].
  - eapply graph_ok_ext; [exact G|]. intros j i. cbn [In]. tauto.
  - eapply graph_ok_ext; [apply IH; [apply graph_ok_insert; [exact G|exact Hi]|exact Hi]|].
    intros j i. cbn [In]. intuition congruence.
Qed.

Lemma ih_touch_holders h v m : ih_holders (ih_touch h v) m = ih_holders h m.
Proof.
  unfold ih_touch. destruct (ih_get h v) eqn:E; [reflexivity|]. unfold ih_holders.
  assert (G : forall h0, ih_get (h0 ++ [(v, [])]) m = match ih_get h0 m with Some l => Some l | None => if (v =? m)%N then Some [] else None end).
  { induction h0 as [|[k l] t IH]; cbn [app ih_get]; [reflexivity|]. destruct (k =? m)%N; [reflexivity|exact IH]. }
  rewrite G. destruct (ih_get h m); [reflexivity|]. destruct (v =? m)%N; reflexivity.
Qed.

(* edges contributed by the constraints cs of rule idx *)
Definition cons_edges (ds : list item) (idx : nat) (cs : list rcons) (j i : nat) : Prop :=
  (exists v, In (CBefore v) cs /\ j = idx /\ hold_lt ds (length ds) v i) \/
  (exists v, In (CAfter v) cs /\ i = idx /\ hold_lt ds (length ds) v j).

Definition req_ok (ds : list item) (cs : list rcons) : Prop :=
  forall v, In (CRequire v) cs -> exists i, hold_lt ds (length ds) v i.

Lemma cons_loop_spec ds idx fm : forall cs h g E, idx < length ds ->
  hash_ok ds (length ds) h -> graph_ok (length ds) g E ->
  match cons_loop idx fm cs h g with
  | inr (h', g') => req_ok ds cs /\ hash_ok ds (length ds) h' /\
                    graph_ok (length ds) g' (fun j i => E j i \/ cons_edges ds idx cs j i)
  | inl e => e = Panic Missing /\ ~ req_ok ds cs
  end.
Proof.
  induction cs as [|c t IH]; intros h g E Hi Hh G; cbn [cons_loop].
  - split; [intros v []|]. split; [exact Hh|]. eapply graph_ok_ext; [exact G|].
    intros j i. unfold cons_edges. cbn [In]. split; [tauto|]. intros [H|[(v & [] & _)|(v & [] & _)]]. exact H.
  - assert (Hh' : forall v, hash_ok ds (length ds) (ih_touch h v)).
    { intros v m i. rewrite ih_touch_holders. apply Hh. }
    destruct c as [v|v|v].
    + (* Before *)
      assert (Hlt : forall d, In d (ih_holders (ih_touch h v) v) -> d < length ds).
      { intros d Hd. apply (Hh' v) in Hd. destruct Hd. assumption. }
      pose proof (fold_before _ _ g E idx G Hlt) as G1.
      specialize (IH (ih_touch h v) _ _ Hi (Hh' v) G1).
      destruct (cons_loop idx fm t (ih_touch h v) _) as [e|[h' g']].
      * destruct IH as [-> Hn]. split; [reflexivity|]. intros R. apply Hn. intros w Hw. apply R. right. exact Hw.
      * destruct IH as (R & H2 & G2). split; [intros w [Hw|Hw]; [discriminate|apply R; exact Hw]|]. split; [exact H2|].
        eapply graph_ok_ext; [exact G2|]. intros j i. unfold cons_edges. cbn [In].
        split.
        -- intros [[H|[Hin ->]]|[(w & Hw & Hj & Hl)|(w & Hw & Hj & Hl)]].
           ++ left; exact H.
           ++ right. left. exists v. split; [left; reflexivity|]. split; [reflexivity|]. apply (Hh' v). exact Hin.
           ++ right. left. exists w. split; [right; exact Hw|]. split; assumption.
           ++ right. right. exists w. split; [right; exact Hw|]. split; assumption.
        -- intros [H|[(w & [Hw|Hw] & Hj & Hl)|(w & [Hw|Hw] & Hj & Hl)]].
           ++ left. left. exact H.
           ++ injection Hw as <-. left. right. split; [apply (Hh' v); exact Hl|exact Hj].
           ++ right. left. exists w. auto.
           ++ discriminate.
           ++ right. right. exists w. auto.
    + (* After *)
      pose proof (fold_after _ (ih_holders (ih_touch h v) v) g E idx G Hi) as G1.
      specialize (IH (ih_touch h v) _ _ Hi (Hh' v) G1).
      destruct (cons_loop idx fm t (ih_touch h v) _) as [e|[h' g']].
      * destruct IH as [-> Hn]. split; [reflexivity|]. intros R. apply Hn. intros w Hw. apply R. right. exact Hw.
      * destruct IH as (R & H2 & G2). split; [intros w [Hw|Hw]; [discriminate|apply R; exact Hw]|]. split; [exact H2|].
        eapply graph_ok_ext; [exact G2|]. intros j i. unfold cons_edges. cbn [In].
        split.
        -- intros [[H|[-> Hin]]|[(w & Hw & Hj & Hl)|(w & Hw & Hj & Hl)]].
           ++ left; exact H.
           ++ right. right. exists v. split; [left; reflexivity|]. split; [reflexivity|]. apply (Hh' v). exact Hin.
           ++ right. left. exists w. split; [right; exact Hw|]. split; assumption.
           ++ right. right. exists w. split; [right; exact Hw|]. split; assumption.
        -- intros [H|[(w & [Hw|Hw] & Hj & Hl)|(w & [Hw|Hw] & Hj & Hl)]].
           ++ left. left. exact H.
           ++ discriminate.
           ++ right. left. exists w. auto.
           ++ injection Hw as <-. left. right. split; [exact Hj|apply (Hh' v); exact Hl].
           ++ right. right. exists w. auto.
    + (* Require *)
      destruct (ih_get h v) as [[|x l]|] eqn:Eg.
      * split; [reflexivity|]. intros R. destruct (R v (or_introl eq_refl)) as (i & Hl). apply (Hh v) in Hl.
        unfold ih_holders in Hl. rewrite Eg in Hl. exact Hl.
      * specialize (IH h g E Hi Hh G). destruct (cons_loop idx fm t h g) as [e|[h' g']].
        -- destruct IH as [-> Hn]. split; [reflexivity|]. intros R. apply Hn. intros w Hw. apply R. right. exact Hw.
        -- destruct IH as (R & H2 & G2). split.
           ++ intros w [Hw|Hw]; [injection Hw as <-; exists x; apply (Hh v); unfold ih_holders; rewrite Eg; left; reflexivity|apply R; exact Hw].
           ++ split; [exact H2|]. eapply graph_ok_ext; [exact G2|]. intros j i. unfold cons_edges. cbn [In].
              split.
              ** intros [H|[(w & Hw & Q)|(w & Hw & Q)]]; [left; exact H|right; left; exists w; auto|right; right; exists w; auto].
              ** intros [H|[(w & [Hw|Hw] & Q)|(w & [Hw|Hw] & Q)]]; try discriminate; [left; exact H|right; left; exists w; auto|right; right; exists w; auto].
      * split; [reflexivity|]. intros R. destruct (R v (or_introl eq_refl)) as (i & Hl). apply (Hh v) in Hl.
        unfold ih_holders in Hl. rewrite Eg in Hl. exact Hl.
Qed.

(* the whole second loop over a list of rule indices *)
Definition all_edges (ds : list item) (idxs : list nat) (j i : nat) : Prop :=
  exists idx d, In idx idxs /\ nth_error ds idx = Some d /\ cons_edges ds idx (rcs d) j i.
Definition all_req (ds : list item) (idxs : list nat) : Prop :=
  forall idx d, In idx idxs -> nth_error ds idx = Some d -> req_ok ds (rcs d).

Lemma graph_loop_spec ds : forall order h g E, (forall i, In i order -> i < length ds) ->
  hash_ok ds (length ds) h -> graph_ok (length ds) g E ->
  match graph_loop ds order h g with
  | inr (h', g') => all_req ds order /\ graph_ok (length ds) g' (fun j i => E j i \/ all_edges ds order j i)
  | inl e => e = Panic Missing /\ ~ all_req ds order
  end.
Proof.
  induction order as [|idx t IH]; intros h g E Hlt Hh G; cbn [graph_loop].
  - split; [intros idx d []|]. eapply graph_ok_ext; [exact G|]. intros j i. unfold all_edges. split; [tauto|].
    intros [H|(idx & d & [] & _)]. exact H.
  - assert (Hi : idx < length ds) by (apply Hlt; left; reflexivity).
    destruct (nth_error ds idx) as [d|] eqn:Ed; [|apply nth_error_None in Ed; lia].
    pose proof (cons_loop_spec ds idx (hd 0%N (marks d)) (rcs d) h g E Hi Hh G) as C.
    destruct (cons_loop idx (hd 0%N (marks d)) (rcs d) h g) as [e|[h1 g1]]; cbn [bind].
    + destruct C as [-> Hn]. split; [reflexivity|]. intros R. apply Hn. apply (R idx d); [left; reflexivity|exact Ed].
    + destruct C as (R1 & H1 & G1). cbn [fst snd].
      specialize (IH h1 g1 _ (fun i Hin => Hlt i (or_intror Hin)) H1 G1).
      destruct (graph_loop ds t h1 g1) as [e|[h2 g2]].
      * destruct IH as [-> Hn]. split; [reflexivity|]. intros R. apply Hn. intros i d' Hin Hd'. apply (R i d'); [right; exact Hin|exact Hd'].
      * destruct IH as (R2 & G2). split.
        -- intros i d' [<-|Hin] Hd'; [rewrite Ed in Hd'; injection Hd' as <-; exact R1|apply (R2 i d'); assumption].
        -- eapply graph_ok_ext; [exact G2|]. intros j i. unfold all_edges. cbn [In]. split.
           ++ intros [[H|H]|(i0 & d0 & Hin & Hd0 & Hc)]; [left; exact H|right; exists idx, d; auto|right; exists i0, d0; auto].
           ++ intros [H|(i0 & d0 & [<-|Hin] & Hd0 & Hc)]; [left; left; exact H| |right; exists i0, d0; auto].
              rewrite Ed in Hd0. injection Hd0 as <-. left. right. exact Hc.
Qed.

(* the relation built = the specification's edge relation; the requirement test = requires_ok *)
Lemma holds_lt ds v i : hold_lt ds (length ds) v i <-> holds ds i v = true.
Proof.
  unfold hold_lt. split; [tauto|]. intros H. split; [|exact H]. unfold holds in H.
  destruct (nth_error ds i) eqn:E; [|discriminate]. apply nth_error_Some. congruence.
Qed.

Lemma all_edges_edge ds order : (forall i, i < length ds -> In i order) ->
  forall j i, all_edges ds order j i <-> edge ds j i = true.
Proof.
  intros Hall j i. unfold all_edges, cons_edges, edge. split.
  - intros (idx & d & Hin & Hd & [(v & Hv & -> & Hl)|(v & Hv & -> & Hl)]); apply holds_lt in Hl; unfold holds in Hl.
    + destruct (nth_error ds i) as [di|] eqn:Ei; [|discriminate]. rewrite Hd. apply Bool.orb_true_iff. right.
      apply existsb_exists. exists (CBefore v). split; [exact Hv|exact Hl].
    + destruct (nth_error ds j) as [dj|] eqn:Ej; [|discriminate]. rewrite Hd. apply Bool.orb_true_iff. left.
      apply existsb_exists. exists (CAfter v). split; [exact Hv|exact Hl].
  - destruct (nth_error ds i) as [di|] eqn:Ei; [|discriminate]. destruct (nth_error ds j) as [dj|] eqn:Ej; [|discriminate].
    intros H. apply Bool.orb_true_iff in H. destruct H as [H|H]; apply existsb_exists in H; destruct H as (c & Hc & Hm).
    + destruct c as [v|v|v]; try discriminate. exists i, di. split; [apply Hall; apply nth_error_Some; congruence|]. split; [exact Ei|].
      right. exists v. split; [exact Hc|]. split; [reflexivity|]. apply holds_lt. unfold holds. rewrite Ej. exact Hm.
    + destruct c as [v|v|v]; try discriminate. exists j, dj. split; [apply Hall; apply nth_error_Some; congruence|]. split; [exact Ej|].
      left. exists v. split; [exact Hc|]. split; [reflexivity|]. apply holds_lt. unfold holds. rewrite Ei. exact Hm.
Qed.

Lemma all_req_requires ds order : (forall i, i < length ds -> In i order) -> (forall i, In i order -> i < length ds) ->
  all_req ds order <-> requires_ok ds = true.
Proof.
  intros Hall Hlt. unfold all_req, req_ok, requires_ok. rewrite forallb_forall. split.
  - intros R d Hd. apply forallb_forall. intros c Hc. destruct c as [v|v|v]; try reflexivity.
    apply In_nth_error in Hd. destruct Hd as (idx & Hidx).
    destruct (R idx d (Hall idx ltac:(apply nth_error_Some; congruence)) Hidx v Hc) as (i & Hl).
    apply holds_lt in Hl. unfold holds in Hl. destruct (nth_error ds i) as [di|] eqn:Ei; [|discriminate].
    apply existsb_exists. exists di. split; [exact (nth_error_In _ _ Ei)|exact Hl].
  - intros R idx d Hin Hd v Hv. specialize (R d (nth_error_In _ _ Hd)). rewrite forallb_forall in R.
    specialize (R _ Hv). cbn in R. apply existsb_exists in R. destruct R as (d' & Hd' & Hm).
    apply In_nth_error in Hd'. destruct Hd' as (i & Hi). exists i. apply holds_lt. unfold holds. rewrite Hi. exact Hm.
Qed.

(* ------------------------------------------------------------------ *)
(* (c) third loop = greedy selection                                    *)

Definition sel_inv (ds : list item) (placed : list nat) (g : list (list nat)) : Prop :=
  length g = length ds /\ forall i j, In j (nth i g []) <-> (edge ds j i = true /\ j < length ds /\ ~ In j placed).

Lemma set_remove_in x l y : In y (set_remove x l) <-> In y l /\ y <> x.
Proof.
  unfold set_remove. rewrite filter_In, Bool.negb_true_iff, PeanoNat.Nat.eqb_neq. intuition congruence.
Qed.

Lemma sel_inv_step ds placed g idx : sel_inv ds placed g -> sel_inv ds (idx :: placed) (map (set_remove idx) g).
Proof.
  intros [L S]. split; [rewrite map_length; exact L|]. intros i j.
  destruct (Compare_dec.lt_dec i (length g)) as [Hi|Hi].
  - rewrite (nth_indep _ [] (set_remove idx []) ) by (rewrite map_length; exact Hi).
    rewrite map_nth, set_remove_in, S. cbn [In]. intuition congruence.
  - rewrite nth_overflow by (rewrite map_length; lia). specialize (S i j). rewrite nth_overflow in S by lia.
    cbn [In]. split; [tauto|]. intros (H1 & H2 & H3). apply S. repeat split; auto.
Qed.

Lemma ready_free ds placed g idx : sel_inv ds placed g -> idx < length ds ->
  (if memn idx placed then false else match nth_error g idx with Some [] => true | _ => false end) = ready ds placed idx.
Proof.
  intros [L S] Hi. unfold ready. destruct (memn idx placed) eqn:M; [reflexivity|]. cbn [negb andb].
  destruct (nth_error g idx) as [l|] eqn:E; [|apply nth_error_None in E; lia].
  assert (Hl : l = nth idx g []) by (symmetry; apply nth_error_nth; exact E).
  destruct (forallb (fun j => memn j placed) (preds ds idx)) eqn:F.
  - destruct l as [|j r]; [reflexivity|]. exfalso.
    assert (Hj : In j (nth idx g [])) by (rewrite <- Hl; left; reflexivity).
    apply S in Hj. destruct Hj as (He & Hlt & Hn). rewrite forallb_forall in F.
    assert (Hp : In j (preds ds idx)) by (unfold preds; apply filter_In; split; [apply in_seq; lia|exact He]).
    specialize (F j Hp). apply memn_In in F. contradiction.
  - destruct l as [|j r]; [|reflexivity]. exfalso.
    assert (Q : forallb (fun j => memn j placed) (preds ds idx) = true).
    { apply forallb_forall. intros j Hj. unfold preds in Hj. apply filter_In in Hj. destruct Hj as [Hs He]. apply in_seq in Hs.
      destruct (memn j placed) eqn:Mj; [reflexivity|]. exfalso.
      assert (Hin : In j (nth idx g [])).
      { apply S. split; [exact He|]. split; [lia|]. intros Hp. apply memn_In in Hp. congruence. }
      rewrite <- Hl in Hin. exact Hin. }
    congruence.
Qed.

Lemma find_free_find ds order placed g : sel_inv ds placed g -> (forall i, In i order -> i < length ds) ->
  find_free order placed g = find (ready ds placed) order.
Proof.
  intros I. induction order as [|idx t IH]; intros Hlt; [reflexivity|]. cbn [find_free find].
  rewrite <- (ready_free ds placed g idx I (Hlt idx (or_introl eq_refl))).
  destruct (memn idx placed); [apply IH; intros i Hi; apply Hlt; right; exact Hi|].
  destruct (nth_error g idx) as [[|x l]|]; try reflexivity; apply IH; intros i Hi; apply Hlt; right; exact Hi.
Qed.

Lemma select_greedy ds order : (forall i, In i order -> i < length ds) ->
  forall n placed g, sel_inv ds placed g ->
  select n order placed g placed = match greedy n ds order placed with Some o => inr o | None => inl (Panic Cyclic) end.
Proof.
  intros Hlt. induction n as [|n IH]; intros placed g I; cbn [select greedy]; [reflexivity|].
  rewrite (find_free_find ds order placed g I Hlt).
  destruct (find (ready ds placed) order) as [idx|]; [|reflexivity].
  apply IH. apply sel_inv_step. exact I.
Qed.

(* ------------------------------------------------------------------ *)
(* compile = specification                                              *)

Theorem compile_spec ds :
  compile ds = if requires_ok ds then match greedy_rank ds with Some o => inr o | None => inl (Panic Cyclic) end
               else inl (Panic Missing).
Proof.
  unfold compile. destruct (pre_loop_spec ds) as [Ho Hh]. cbv zeta in Ho, Hh. rewrite Ho.
  assert (Hlt : forall i, In i (rank_order ds) -> i < length ds).
  { intros i Hi. apply (Permutation_in _ (rank_order_perm ds)) in Hi. apply in_seq in Hi. lia. }
  assert (Hall : forall i, i < length ds -> In i (rank_order ds)).
  { intros i Hi. apply (Permutation_in _ (Permutation_sym (rank_order_perm ds))). apply in_seq. lia. }
  assert (G0 : graph_ok (length ds) (map (fun _ : item => []) ds) (fun _ _ => False)).
  { split; [apply map_length|]. intros i j. split; [|tauto].
    assert (Q : forall (l : list item) i, nth i (map (fun _ : item => @nil nat) l) [] = []).
    { induction l as [|x t IH]; intros [|i0]; cbn [map nth]; auto. }
    rewrite Q. intros []. }
  pose proof (graph_loop_spec ds (rank_order ds) _ _ _ Hlt Hh G0) as GL.
  destruct (graph_loop ds (rank_order ds) _ _) as [e|[h' g']]; cbn [bind].
  - destruct GL as [-> Hn]. destruct (requires_ok ds) eqn:R; [|reflexivity]. exfalso. apply Hn.
    apply (all_req_requires ds _ Hall Hlt). exact R.
  - destruct GL as [R GO]. apply (all_req_requires ds _ Hall Hlt) in R. rewrite R. cbn [snd].
    unfold greedy_rank. apply select_greedy; [exact Hlt|].
    destruct GO as [L S]. split; [exact L|]. intros i j. rewrite S. rewrite (all_edges_edge ds _ Hall).
    cbn [In]. split.
    + intros [[]|H]. split; [exact H|]. split; [|tauto]. unfold edge in H.
      destruct (nth_error ds i); [|discriminate]. destruct (nth_error ds j) eqn:E; [|discriminate]. apply nth_error_Some. congruence.
    + intros (H & _). right. exact H.
Qed.

(* ------------------------------------------------------------------ *)
(* the OnceCell cache: every use gives the same answer                  *)

Lemma r_force_stable r : let '(r', c) := r_force r in r_force r' = (r', c).
Proof.
  unfold r_force. destruct (compiled r) as [c|] eqn:E; [rewrite E; reflexivity|].
  destruct (compile (deps r)) as [e|idxs] eqn:C; [rewrite E, C; reflexivity|]. reflexivity.
Qed.

Lemma r_iter_stable r : let '(r', c) := r_iter r in r_iter r' = (r', c).
Proof.
  unfold r_iter. pose proof (r_force_stable r) as H. destruct (r_force r) as [r' c]. rewrite H. reflexivity.
Qed.

(* a fresh (uncached) ruler answers with the specification *)
Lemma r_iter_fresh ds :
  snd (r_iter (Ruler ds None)) =
  if requires_ok ds then
    match greedy_rank ds with
    | Some o => inr (map (fun i => match nth_error ds i with Some d => value d | None => 0%N end) o)
    | None => inl (Panic Cyclic) end
  else inl (Panic Missing).
Proof.
  unfold r_iter, r_force. cbn [compiled deps]. rewrite compile_spec.
  destruct (requires_ok ds); [|reflexivity]. destruct (greedy_rank ds); reflexivity.
Qed.
