(* Termination and recursion depth of the inline parser (properties C01, C02): the two `while`
   loops of model/Inline.v that carry fuel (tokenize, parse_link_label) always make progress
   -- every rule that reports a match reports a positive length, every skip_token moves forward,
   every cache entry points forward -- and the nesting of tokenize/skip_token calls is bounded
   by the nesting limit.  Holds for every chain of rules, every pair configuration and every state
   whose skip cache points forward (the initial cache is empty). *)
From Coq Require Import String.
From MdIt Require Import Prims Tables Escape NormRef Mdurl LinkParse Tree Regex HtmlRe Block Inline.
From MdIt Require Import BlockProofs RegexProofs.
From Coq Require Import Lia ZifyBool ZifyN ZifyNat.
Local Open Scope list_scope.
Local Open Scope N_scope.

Arguments N.eqb : simpl never.
Arguments N.leb : simpl never.
Arguments N.ltb : simpl never.
Arguments N.add : simpl never.
Arguments N.sub : simpl never.
Arguments N.min : simpl never.
Arguments N.modulo : simpl never.
Arguments Z.add : simpl never.
Arguments Z.sub : simpl never.

(* ------------------------------------------------------------------ *)
(* leaves: neither Hang nor OutOfFuel                                   *)

Lemma slice_benign s a b : benign (slice s a b).
Proof. unfold slice. bn. Qed.
#[export] Hint Resolve slice_benign : bn.
Lemma isl_benign st a b : benign (isl st a b).
Proof. apply slice_benign. Qed.
Lemma irest_benign st : benign (irest st).
Proof. apply slice_benign. Qed.
#[export] Hint Resolve isl_benign irest_benign : bn.
Lemma spos_sub_benign p n : benign (spos_sub p n).
Proof. unfold spos_sub. bn. Qed.
Lemma source_pos_for_benign st p : benign (source_pos_for st p).
Proof. unfold source_pos_for. bn. Qed.
#[export] Hint Resolve spos_sub_benign source_pos_for_benign : bn.
Lemma iget_map_benign st a b : benign (iget_map st a b).
Proof. unfold iget_map. bn. Qed.
#[export] Hint Resolve iget_map_benign : bn.
Lemma scan_delims_benign st a b : benign (scan_delims st a b).
Proof. unfold scan_delims. bn. Qed.
#[export] Hint Resolve scan_delims_benign : bn.
Lemma first_char_len_benign st : benign (first_char_len st).
Proof. unfold first_char_len. bn. Qed.
#[export] Hint Resolve first_char_len_benign : bn.

Lemma match_pair_benign n : forall fns o c om cm inner, benign (match_pair n fns o c om cm inner).
Proof. induction n as [|n IH]; intros; cbn [match_pair]; bn. Qed.
#[export] Hint Resolve match_pair_benign : bn.
Lemma match_openers_benign cfg n : forall rb af idx mi c cm any, benign (match_openers cfg n rb af idx mi c cm any).
Proof. induction n as [|n IH]; intros; cbn [match_openers]; bn. Qed.
#[export] Hint Resolve match_openers_benign : bn.
Lemma code_scan_benign n : forall st m ol me mv, benign (code_scan n st m ol me mv).
Proof. induction n as [|n IH]; intros; cbn [code_scan]; bn. Qed.
#[export] Hint Resolve code_scan_benign : bn.

(* ------------------------------------------------------------------ *)
(* what a rule may change                                               *)

Definition iframe (st st' : istate) : Prop :=
  i_src st' = i_src st /\ i_max st' = i_max st /\ i_level st' = i_level st /\
  i_cache st' = i_cache st /\ i_pos st' = i_pos st.

Lemma iframe_refl st : iframe st st.
Proof. repeat split. Qed.
Lemma iframe_trans a b c : iframe a b -> iframe b c -> iframe a c.
Proof. unfold iframe. intuition congruence. Qed.

Ltac is_step :=
  match goal with
  | |- gspec _ _ (ret _) => unfold gspec, ret
  | |- gspec _ _ (inr _) => unfold gspec
  | |- gspec _ _ (panic _) => exact I
  | |- gspec _ _ (inl (Panic _)) => exact I
  | |- gspec _ _ (bind (match ?c with _ => _ end) _) => destruct c eqn:?
  | |- gspec _ _ (bind (ret ?x) ?f) => change (bind (ret x) f) with (f x); cbv beta
  | |- gspec _ _ (bind (bind _ _) _) => rewrite bind_assoc
  | |- gspec _ _ (bind _ _) => apply gspec_bind; [solve [auto with bn] | intros ? ?]
  | |- gspec _ _ (match ?x with _ => _ end) => destruct x eqn:?
  end.
Ltac is_ := repeat is_step.
Ltac frame := repeat split; cbn [i_src i_max i_level i_cache i_pos iset_node ipush iset_bt iset_ll fst snd]; auto.

Lemma ttpush_spec c st a b : gspec c (iframe st) (trailing_text_push st a b).
Proof. unfold trailing_text_push. is_; frame. Qed.
Lemma ttpop_spec c st n : gspec c (iframe st) (trailing_text_pop st n).
Proof. unfold trailing_text_pop. is_; frame. Qed.
Lemma samd_spec c cfg st m : gspec c (iframe st) (scan_and_match_delimiters cfg st m).
Proof. unfold scan_and_match_delimiters. is_; frame. Qed.

Lemma ttpush_benign st a b : benign (trailing_text_push st a b).
Proof. pose proof (ttpush_spec true st a b) as H. destruct (trailing_text_push st a b) as [[| |]|]; cbn in *; auto; discriminate. Qed.
Lemma ttpop_benign st n : benign (trailing_text_pop st n).
Proof. pose proof (ttpop_spec true st n) as H. destruct (trailing_text_pop st n) as [[| |]|]; cbn in *; auto; discriminate. Qed.
Lemma samd_benign cfg st m : benign (scan_and_match_delimiters cfg st m).
Proof. pose proof (samd_spec true cfg st m) as H. destruct (scan_and_match_delimiters cfg st m) as [[| |]|]; cbn in *; auto; discriminate. Qed.
#[export] Hint Resolve ttpush_benign ttpop_benign samd_benign : bn.

Ltac is2_step :=
  match goal with
  | |- gspec _ _ (bind (scan_and_match_delimiters ?cf ?s ?m) _) => apply (gspec_bind_g _ (iframe s)); [apply samd_spec | intros ? _ ?]
  | |- gspec _ _ (bind (trailing_text_push ?s ?a ?b) _) => apply (gspec_bind_g _ (iframe s)); [apply ttpush_spec | intros ? _ ?]
  | |- gspec _ _ (bind (trailing_text_pop ?s ?a) _) => apply (gspec_bind_g _ (iframe s)); [apply ttpop_spec | intros ? _ ?]
  | _ => is_step
  end.
Ltac is2 := repeat is2_step.
Ltac fin := split; cbn [fst snd]; [first [apply iframe_refl | solve [frame] | solve [eapply iframe_trans; [|eassumption]; frame] | solve [eapply iframe_trans; [eassumption|]; frame]] | try exact I; try lia].

(* rules other than links: the state keeps its frame and a match has positive length *)
Definition rpost_i (st : istate) (x : istate * option N) : Prop :=
  iframe st (fst x) /\ match snd x with Some n => 0 < n | None => True end.

Lemma count_run_pos m t : 0 < count_run m (m :: t).
Proof. cbn [count_run]. rewrite N.eqb_refl. lia. Qed.

Lemma scan_delims_pos st start b n o c : scan_delims st start b = inr (n, o, c) -> 0 < n.
Proof.
  unfold scan_delims. destruct (isl st 0 start); cbn [bind]; [discriminate|].
  destruct (isl st start (i_max st)) as [|rest]; cbn [bind]; [discriminate|].
  destruct rest as [|m t]; [discriminate|]. intros H. injection H as <- _ _. apply count_run_pos.
Qed.

Lemma rule_emph_spec c cfg marker cs st silent : gspec c (rpost_i st) (rule_emph cfg marker cs st silent).
Proof.
  unfold rule_emph. destruct silent; [split; [apply iframe_refl|exact I]|].
  is2; try (split; [apply iframe_refl|exact I]).
  all: match goal with H : scan_delims _ _ _ = inr _ |- _ => apply scan_delims_pos in H end.
  all: fin.
Qed.

Lemma rule_text_spec c cfg st silent : gspec c (rpost_i st) (rule_text cfg st silent).
Proof. unfold rule_text. is2; try (split; [apply iframe_refl|exact I]); fin. Qed.

Lemma rule_newline_spec c st silent : gspec c (rpost_i st) (rule_newline st silent).
Proof. unfold rule_newline. is2; try (split; [apply iframe_refl|exact I]); fin. Qed.

Lemma decode1_len s c n : decode1 s = Some (c, n) -> 1 <= n.
Proof.
  unfold decode1. destruct s as [|b0 t]; [discriminate|].
  destruct (b0 <? 128); [intros H; injection H as _ <-; lia|].
  destruct (b0 <? 224); [destruct t; intros H; injection H as _ <-; lia|].
  destruct (b0 <? 240); [destruct t as [|? [|? ?]]; intros H; injection H as _ <-; lia|].
  destruct t as [|? [|? [|? ?]]]; intros H; injection H as _ <-; lia.
Qed.

Lemma rule_escape_spec c st silent : gspec c (rpost_i st) (rule_escape st silent).
Proof.
  unfold rule_escape. is_; try (split; [apply iframe_refl|exact I]); split; cbn [fst snd]; try apply iframe_refl; try frame; lia.
Qed.

Lemma code_scan_ge n : forall st m ol me mv ms me' mv',
  code_scan n st m ol me mv = inr (Some (ms, me'), mv') -> me <= me'.
Proof.
  induction n as [|n IH]; intros st m ol me mv ms me' mv'; cbn [code_scan]; [discriminate|].
  destruct (isl st me (i_max st)) as [|rest]; cbn [bind]; [discriminate|].
  destruct (find_byte m rest 0) as [p|]; [|discriminate].
  destruct (count_run m (dropN p rest) =? ol).
  - intros H. injection H as <- <- _. lia.
  - intros H. apply IH in H. lia.
Qed.

Lemma rule_code_pair_spec c st mk_ silent : gspec c (rpost_i st) (rule_code_pair st mk_ silent).
Proof.
  unfold rule_code_pair. is2; try (split; [apply iframe_refl|exact I]); try (split; cbn [fst snd]; [frame|exact I]).
  all: match goal with H : code_scan _ _ _ _ _ _ = inr ?x |- _ => destruct x as [o mv']; cbn [fst snd] in *; subst o; apply code_scan_ge in H end.
  all: match goal with H : negb (?x =? ?m) = false |- _ => assert (x = m) by lia; subst x end.
  all: match goal with H : irest _ = inr (?m :: ?l) |- _ => pose proof (count_run_pos m l) as Hc end.
  all: fin.
Qed.

Lemma autolink_end_ge s : forall pos e, autolink_end s pos = Some e -> pos <= e.
Proof.
  induction s as [|ch t IH]; intros pos e; cbn [autolink_end]; [discriminate|].
  destruct (ch =? 60); [discriminate|]. destruct (ch =? 62); [intros H; injection H as <-; lia|].
  intros H. apply IH in H. lia.
Qed.

Lemma rule_autolink_spec c st silent : gspec c (rpost_i st) (rule_autolink st silent).
Proof.
  unfold rule_autolink. is_; try (split; [apply iframe_refl|exact I]).
  all: match goal with H : autolink_end _ _ = Some _ |- _ => apply autolink_end_ge in H end.
  all: split; cbn [fst snd]; [try apply iframe_refl; frame|lia].
Qed.

Lemma match_entity_re_pos h t whole rest : match_entity_re h t = Some (whole, rest) -> 0 < len whole.
Proof.
  unfold match_entity_re. destruct t as [|ch t1]; [discriminate|]. destruct (_ || _); [|discriminate].
  destruct (span is_alnum t1) as [run r]. destruct r as [|x r']; [discriminate|]. destruct (x =? 59) eqn:E.
  - assert (x = 59) by lia. subst x. destruct (_ && _); [|discriminate]. intros H. injection H as <- _. unfold len. cbn [length]. lia.
  - destruct x as [|p]; [discriminate|]. repeat (destruct p as [p|p|]; try discriminate).
Qed.

Lemma rule_entity_spec c st silent : gspec c (rpost_i st) (rule_entity st silent).
Proof.
  unfold rule_entity. is_; try (split; [apply iframe_refl|exact I]).
  all: try match goal with H : match_entity_re _ _ = Some _ |- _ => apply match_entity_re_pos in H end.
  all: split; cbn [fst snd]; [try apply iframe_refl; frame|lia].
Qed.

Lemma encode1_nonempty cp : (0 < length (encode1 cp))%nat.
Proof. unfold encode1. destruct (cp <? 128); [cbn; lia|]. destruct (cp <? 2048); [cbn; lia|]. destruct (cp <? 65536); cbn; lia. Qed.

Lemma min_len_html_tag : (1 <= min_len re_html_tag)%nat.
Proof. vm_compute. lia. Qed.

Lemma html_tag_len_pos s n : html_tag_len s = Some n -> 0 < n.
Proof.
  unfold html_tag_len. cbv zeta. destruct (match_prefix re_html_tag (chars s)) as [rest|] eqn:E; [|discriminate].
  apply match_prefix_consumes in E. destruct E as (pre & Hs & Hl). pose proof min_len_html_tag as Hm.
  intros H. injection H as <-. rewrite Hs, app_length.
  replace (length pre + length rest - length rest)%nat with (length pre) by lia.
  rewrite firstn_app, firstn_all, PeanoNat.Nat.sub_diag. cbn [firstn]. rewrite app_nil_r.
  destruct pre as [|cp pre']; [cbn in Hl; lia|]. unfold unchars, len. cbn [flat_map]. rewrite app_length.
  pose proof (encode1_nonempty cp). lia.
Qed.

Lemma rule_html_inline_spec c st silent : gspec c (rpost_i st) (rule_html_inline st silent).
Proof.
  unfold rule_html_inline. is_; try (split; [apply iframe_refl|exact I]).
  all: match goal with H : html_tag_len _ = Some _ |- _ => apply html_tag_len_pos in H end.
  all: split; cbn [fst snd]; [try apply iframe_refl; frame|lia].
Qed.

Lemma rule_custom_inline_spec c st pat v silent : gspec c (rpost_i st) (rule_custom_inline st pat v silent).
Proof.
  unfold rule_custom_inline. is_; try (split; [apply iframe_refl|exact I]); split; cbn [fst snd]; try apply iframe_refl; try frame; lia.
Qed.

(* ------------------------------------------------------------------ *)
(* link destination / title scanners never move backwards               *)

Lemma dest_angle_ge s start : forall rest pos d, dest_angle s start rest pos = Some d -> pos <= f_pos d.
Proof.
  intros rest. induction rest as [rest H] using (well_founded_induction (Wf_nat.well_founded_ltof _ (@length N))).
  intros pos d. destruct rest as [|ch t]; cbn [dest_angle]; [discriminate|].
  destruct (_ || _); [discriminate|]. destruct (ch =? 62); [intros E; injection E as <-; cbn; lia|].
  destruct (ch =? 92).
  - destruct t as [|x t']; [discriminate|]. intros E. apply H in E; [lia|]. unfold ltof. cbn. lia.
  - intros E. apply H in E; [lia|]. unfold ltof. cbn. lia.
Qed.

Lemma dest_plain_ge : forall rest pos lv p l, dest_plain rest pos lv = Some (p, l) -> pos <= p.
Proof.
  intros rest. induction rest as [rest H] using (well_founded_induction (Wf_nat.well_founded_ltof _ (@length N))).
  intros pos lv p l. destruct rest as [|ch t]; cbn [dest_plain]; [intros E; injection E as <- _; lia|].
  destruct (_ || _); [intros E; injection E as <- _; lia|].
  destruct (ch =? 92).
  - destruct t as [|x t']; [intros E; injection E as <- _; lia|].
    destruct (x =? 32) eqn:Ex.
    + assert (x = 32) by lia. subst x. intros E; injection E as <- _; lia.
    + assert (HH : dest_plain t' (pos + 2) lv = Some (p, l) -> pos <= p).
      { intros E. apply H in E; [lia|]. unfold ltof. cbn. lia. }
      destruct x as [|q]; [exact HH|]. repeat (destruct q as [q|q|]; try exact HH). discriminate Ex.
  - destruct (ch =? 40).
    + destruct (32 <? lv + 1); [discriminate|]. intros E. apply H in E; [lia|]. unfold ltof. cbn. lia.
    + destruct (ch =? 41).
      * destruct (lv =? 0); [intros E; injection E as <- _; lia|]. intros E. apply H in E; [lia|]. unfold ltof. cbn. lia.
      * intros E. apply H in E; [lia|]. unfold ltof. cbn. lia.
Qed.

Lemma parse_link_destination_ge s start mx_ d : parse_link_destination s start mx_ = Some d -> start <= f_pos d.
Proof.
  unfold parse_link_destination. cbv zeta.
  assert (P : forall body, match dest_plain body start 0 with
                           | Some (pos, level) => if level =? 0 then Some (Frag pos 0 (unescape_all (sub s start pos))) else None
                           | None => None end = Some d -> start <= f_pos d).
  { intros body. destruct (dest_plain body start 0) as [[p l]|] eqn:E; [|discriminate]. apply dest_plain_ge in E.
    destruct (l =? 0); [|discriminate]. intros Q. injection Q as <-. exact E. }
  destruct (sub s start mx_) as [|ch t] eqn:Eb; [apply (P [])|].
  destruct (ch =? 60) eqn:E60.
  - assert (ch = 60) by lia. subst ch. intros E. apply dest_angle_ge in E. lia.
  - assert (Q : match ch with 60 => dest_angle s start t (start + 1) | _ =>
                  match dest_plain (ch :: t) start 0 with
                  | Some (pos, level) => if level =? 0 then Some (Frag pos 0 (unescape_all (sub s start pos))) else None
                  | None => None end end = Some d -> start <= f_pos d).
    { destruct ch as [|q]; [apply P|]. repeat (destruct q as [q|q|]; try apply P). discriminate E60. }
    exact Q.
Qed.

Lemma title_loop_ge s start m : forall rest pos lines d, title_loop s start m rest pos lines = Some d -> pos <= f_pos d.
Proof.
  intros rest. induction rest as [rest H] using (well_founded_induction (Wf_nat.well_founded_ltof _ (@length N))).
  intros pos lines d. destruct rest as [|ch t]; cbn [title_loop]; [discriminate|].
  destruct (ch =? m); [intros E; injection E as <-; cbn; lia|]. destruct (_ && _); [discriminate|].
  destruct (ch =? 10); [intros E; apply H in E; [lia|unfold ltof; cbn; lia]|].
  destruct (ch =? 92).
  - destruct t as [|x t']; [discriminate|]. intros E. apply H in E; [lia|unfold ltof; cbn; lia].
  - intros E. apply H in E; [lia|unfold ltof; cbn; lia].
Qed.

Lemma parse_link_title_ge s start mx_ d : parse_link_title s start mx_ = Some d -> start <= f_pos d.
Proof.
  unfold parse_link_title. destruct (sub s start mx_) as [|ch t]; [discriminate|].
  destruct (ch =? 34); [intros E; apply title_loop_ge in E; lia|].
  destruct (ch =? 39); [intros E; apply title_loop_ge in E; lia|].
  destruct (ch =? 40); [intros E; apply title_loop_ge in E; lia|discriminate].
Qed.

(* ------------------------------------------------------------------ *)
(* the engine, relative to the contracts of the recursive calls          *)

Definition cache_ok (st : istate) : Prop := forall k v, In (k, v) (i_cache st) -> k < v.

(* same source, limits and level; cache still pointing forward *)
Definition sframe (st st' : istate) : Prop :=
  cache_ok st' /\ i_src st' = i_src st /\ i_max st' = i_max st /\ i_level st' = i_level st.

Definition ipost (st : istate) (x : istate * option N) : Prop :=
  sframe st (fst x) /\
  match snd x with Some n => i_pos st < i_pos (fst x) + n | None => i_pos (fst x) = i_pos st end.

Lemma rpost_ipost st x : cache_ok st -> rpost_i st x -> ipost st x.
Proof.
  intros Hc [(A & B & C & D & E) P]. split.
  - repeat split; auto. unfold cache_ok. rewrite D. exact Hc.
  - destruct (snd x); lia.
Qed.

Lemma slice_nonempty s a b ch t : slice s a b = inr (ch :: t) -> a < b /\ b <= len s.
Proof.
  unfold slice. destruct (_ && _) eqn:E; [|discriminate]. intros H. injection H as H. split; [|lia].
  unfold sub, takeN in H. destruct (N.to_nat (b - a)) eqn:En; [discriminate|]. lia.
Qed.

Section Engine.
Variable cfg : icfg.
Variable TK SK : istate -> res istate.
Variable LT LS : N.
Let mx := ic_maxnest cfg.
Definition condT (lv : N) : bool := (LT <=? lv) && (lv <=? ic_maxnest cfg).
Definition condS (lv : N) : bool := (LS <=? lv) && (lv <=? ic_maxnest cfg).
Definition spost_i (st st' : istate) : Prop := sframe st st' /\ i_pos st < i_pos st'.

Hypothesis T_ok : forall st, cache_ok st -> gspec (condT (i_level st)) cache_ok (TK st).
Hypothesis S_ok : forall st, cache_ok st -> i_pos st < i_max st -> gspec (condS (i_level st)) (spost_i st) (SK st).

Definition lpost_i (st : istate) (x : istate * option N) : Prop :=
  sframe st (fst x) /\ i_pos st <= i_pos (fst x) /\ match snd x with Some e => i_pos st <= e | None => True end.

Lemma label_loop_spec c n : forall st level nested, cache_ok st ->
  (c = true -> condS (i_level st) = true) ->
  (length (i_src st) - N.to_nat (i_pos st) < n)%nat ->
  gspec c (lpost_i st) (label_loop SK n st level nested).
Proof.
  induction n as [|n IH]; intros st level nested Hc Hcond Hn; [lia|].
  cbn [label_loop]. apply gspec_bind; [auto with bn|]. intros rest Hrest.
  destruct rest as [|ch t].
  { unfold gspec, ret, lpost_i, sframe. cbn [fst snd]. repeat split; auto; lia. }
  apply slice_nonempty in Hrest. destruct Hrest as [Hlt Hle].
  destruct (_ && _).
  { unfold gspec, ret, lpost_i, sframe. cbn [fst snd]. repeat split; auto; lia. }
  apply (gspec_bind_g _ (spost_i st)).
  { eapply gspec_weaken; [exact Hcond| |apply S_ok; assumption]. auto. }
  intros st' _ ((Hc' & Hs & Hm & Hl) & Hp).
  assert (R : forall lv, gspec c (lpost_i st) (label_loop SK n st' lv nested)).
  { intros lv. eapply gspec_weaken; [| |apply (IH st' lv nested Hc')]; [auto| |rewrite Hl; exact Hcond|rewrite Hs; unfold len in *; lia].
    intros x ((A & B & C & D) & E & F). unfold lpost_i, sframe. split; [split; [exact A|repeat split; congruence]|]. split; [lia|]. destruct (snd x); [lia|exact I]. }
  destruct (ch =? 91).
  - destruct (_ =? _); [apply R|]. destruct (negb nested); [|apply R].
    unfold gspec, ret, lpost_i, sframe. cbn [fst snd]. repeat split; auto; lia.
  - apply R.
Qed.

Definition pframe (st st' : istate) : Prop := sframe st st' /\ i_pos st' = i_pos st.

Lemma parse_link_label_spec c st start nested : cache_ok st -> (c = true -> condS (i_level st) = true) ->
  gspec c (fun x => pframe st (fst x) /\ match snd x with Some e => start + 1 <= e | None => True end)
        (parse_link_label SK st start nested).
Proof.
  intros Hc Hcond. unfold parse_link_label. cbv zeta.
  apply (gspec_bind_g _ (lpost_i (iset_pos st (start + 1)))).
  { apply label_loop_spec; [exact Hc|exact Hcond|cbn [i_src i_pos iset_pos]; lia]. }
  intros [st' r] _ ((A & B & C & D) & E & F). cbn [fst snd i_src i_max i_level i_pos iset_pos] in *.
  unfold gspec, ret, pframe, sframe. cbn [fst snd i_src i_max i_level i_pos i_cache iset_pos]. repeat split; auto.
Qed.

Lemma skip_spnl_ge s p : p <= skip_spnl s p.
Proof. unfold skip_spnl. lia. Qed.

Lemma pframe_trans a b c : pframe a b -> pframe b c -> pframe a c.
Proof. unfold pframe, sframe. intuition congruence. Qed.

(* case analysis of a byte compared with a numeric literal pattern; tac closes the default branches *)
Ltac lit_cases_k a tac := destruct a as [|?q]; [tac|];
  do 8 (try match goal with q : positive |- _ => destruct q as [q|q|]; try tac end).
Ltac lit_cases a := lit_cases_k a ltac:(discriminate).

Definition plpost (st : istate) (pos0 : N) (x : istate * option plink) : Prop :=
  pframe st (fst x) /\ match snd x with Some pl => pos0 < pl_end pl | None => True end.

Lemma parse_link_spec c st pos0 nested : cache_ok st -> (c = true -> condS (i_level st) = true) ->
  gspec c (plpost st pos0) (parse_link SK st pos0 nested).
Proof.
  intros Hc Hcond. unfold parse_link.
  eapply gspec_bind_g; [apply (parse_link_label_spec c st pos0 nested Hc Hcond)|].
  intros [st1 le] _ [Hf Hle]. cbn [fst snd] in Hf, Hle.
  destruct le as [label_end|]; [|split; [exact Hf|exact I]].
  cbv zeta. apply gspec_bind; [auto with bn|]. intros after _.
  match goal with |- gspec _ _ (match ?ir with Some _ => _ | None => _ end) => destruct ir as [pl|] eqn:Eir end.
  - (* inline link *)
    split; [exact Hf|]. cbn [snd].
    destruct after as [|a0 t0]; [discriminate|]. lit_cases a0.
    pose proof (skip_spnl_ge t0 (label_end + 2)) as H0. set (pos := skip_spnl t0 (label_end + 2)) in *.
    assert (H1 : forall pos1 h ti, pos <= pos1 ->
              match sub (i_src st1) pos1 (i_max st1) with
              | 41 :: _ => Some (PLink (pos0 + 1) label_end h ti (pos1 + 1))
              | _ => None end = Some pl -> pos0 < pl_end pl).
    { intros pos1 h ti Hp E. destruct (sub (i_src st1) pos1 (i_max st1)) as [|b0 ?]; [discriminate|]. lit_cases b0.
      injection E as <-. cbn [pl_end]. lia. }
    destruct (parse_link_destination (i_src st1) pos (i_max st1)) as [d|] eqn:Ed; [|eapply H1; [|exact Eir]; lia].
    apply parse_link_destination_ge in Ed.
    destruct (validate_link (normalize_link (f_str d))).
    + pose proof (skip_spnl_ge (sub (i_src st1) (f_pos d) (i_max st1)) (f_pos d)) as H2.
      destruct (parse_link_title _ _ _) as [ti|] eqn:Et.
      * apply parse_link_title_ge in Et. pose proof (skip_spnl_ge (sub (i_src st1) (f_pos ti) (i_max st1)) (f_pos ti)) as H3.
        eapply H1; [|exact Eir]. lia.
      * eapply H1; [|exact Eir]. lia.
    + pose proof (skip_spnl_ge (sub (i_src st1) pos (i_max st1)) pos) as H2.
      destruct (parse_link_title _ _ _) as [ti|] eqn:Et.
      * apply parse_link_title_ge in Et. pose proof (skip_spnl_ge (sub (i_src st1) (f_pos ti) (i_max st1)) (f_pos ti)) as H3.
        eapply H1; [|exact Eir]. lia.
      * eapply H1; [|exact Eir]. lia.
  - (* reference *)
    clear Eir.
    assert (Hc1 : cache_ok st1) by (destruct Hf as [[A _] _]; exact A).
    assert (Hcond1 : c = true -> condS (i_level st1) = true).
    { destruct Hf as [(_ & _ & _ & A) _]. rewrite A. exact Hcond. }
    match goal with |- gspec _ _ (bind ?X ?K) =>
      assert (HK : forall st2 ml pos', pframe st st2 -> pos0 < pos' -> gspec c (plpost st pos0) (K (st2, ml, pos'))) end.
    { intros st2 ml pos' Hf2 Hp. cbv beta iota. destruct (ref_get _ _); (split; [exact Hf2|]); cbn [snd pl_end]; [exact Hp|exact I]. }
    assert (HX : forall X, gspec c (fun x : istate * option str * N => pframe st (fst (fst x)) /\ pos0 < snd x) X ->
                 forall K, (forall st2 ml pos', pframe st st2 -> pos0 < pos' -> gspec c (plpost st pos0) (K (st2, ml, pos'))) ->
                 gspec c (plpost st pos0) (bind X K)).
    { intros X HXs K HKs. eapply gspec_bind_g; [exact HXs|]. intros [[st2 ml] pos'] _ [A B]. apply HKs; assumption. }
    apply HX; [|exact HK].
    assert (Hdef : gspec c (fun x : istate * option str * N => pframe st (fst (fst x)) /\ pos0 < snd x) (ret (st1, None, label_end + 1))).
    { split; cbn [fst snd]; [exact Hf|lia]. }
    destruct after as [|a0 t0]; [exact Hdef|]. lit_cases_k a0 ltac:(exact Hdef).
    eapply gspec_bind_g; [apply (parse_link_label_spec c st1 (label_end + 1) false Hc1 Hcond1)|].
    intros [st2 e2] _ [Hf2 He2]. cbn [fst snd] in *. destruct e2 as [e|]; split; cbn [fst snd]; try (eapply pframe_trans; eassumption); lia.
Qed.

Lemma rule_link_spec c st silent nested offset mkk : cache_ok st ->
  (c = true -> condS (i_level st) = true) ->
  (c = true -> silent = false -> condT (i_level st + 1) = true) ->
  gspec c (ipost st) (rule_link TK SK st silent nested offset mkk).
Proof.
  intros Hc Hcs Hct. unfold rule_link. cbv zeta.
  eapply gspec_bind_g; [apply (parse_link_spec c st (i_pos st + offset) nested Hc Hcs)|].
  intros [st1 pl] _ [[Hf Hp] Hpl]. cbn [fst snd] in *.
  destruct pl as [p|]; [|split; [exact Hf|exact Hp]].
  destruct silent.
  - destruct (i_pos st1 <=? pl_end p) eqn:E; [|exact I]. split; cbn [fst snd]; [exact Hf|lia].
  - destruct Hf as (Hc1 & Hs1 & Hm1 & Hl1).
    match goal with |- gspec _ _ (bind (TK ?inner) _) => apply (gspec_bind_g _ cache_ok); [
      eapply gspec_weaken; [| |apply (T_ok inner)]; [cbn [i_level]; rewrite Hl1; auto|auto|exact Hc1] |] end.
    intros inner' _ Hci. is_.
    split; cbn [fst snd i_pos i_src i_max i_level i_cache iset_ll ipush iset_node] in *; [|lia].
    repeat split; auto.
Qed.

Lemma rule_code_pair_tok_spec c st mk_ silent : cache_ok st ->
  (c = true -> silent = false -> condT (i_level st + 1) = true) ->
  gspec c (ipost st) (rule_code_pair_tok TK st mk_ silent).
Proof.
  intros Hc Hct. unfold rule_code_pair_tok.
  assert (Wn : forall st', iframe st st' -> gspec c (ipost st) (ret (st', None))).
  { intros st' F. apply rpost_ipost; [exact Hc|]. split; [exact F|exact I]. }
  apply gspec_bind; [auto with bn|]. intros rest Hrest. destruct rest as [|ch t]; [exact I|].
  destruct (negb (ch =? mk_)) eqn:Em; [apply Wn, iframe_refl|]. assert (ch = mk_) by lia. subst ch.
  destruct (match rev (trailing_text_get st) with x :: _ => x =? mk_ | [] => false end); [apply Wn, iframe_refl|].
  destruct (get_bt st mk_) as [scanned maxv]. destruct (_ && _); [apply Wn, iframe_refl|].
  apply gspec_bind; [auto with bn|]. intros [o mv] Hs. cbn [fst snd]. destruct o as [[ms me]|]; [|apply Wn; frame].
  apply code_scan_ge in Hs. pose proof (count_run_pos mk_ t) as Hp.
  destruct silent.
  { apply rpost_ipost; [exact Hc|]. split; cbn [fst snd]; [frame|lia]. }
  apply gspec_bind; [auto with bn|]. intros raw _. cbv zeta. apply gspec_bind; [auto with bn|]. intros m _.
  match goal with |- gspec _ _ (bind (TK ?inner) _) => apply (gspec_bind_g _ cache_ok); [
    eapply gspec_weaken; [| |apply (T_ok inner)]; [cbn [i_level set_bt iset_bt]; auto|auto|intros x y []] |] end.
  intros inner' _ Hci. cbn [i_pos]. destruct (i_pos inner' <=? me) eqn:E; [|exact I].
  split; cbn [fst snd i_pos i_src i_max i_level i_cache set_bt iset_bt]; [|lia]. repeat split; auto.
Qed.

(* condition under which a rule may run at level lv: skip_token at lv, and, when not silent, tokenize at lv + 1 *)
Definition rcond (c silent : bool) (lv : N) : Prop :=
  (c = true -> condS lv = true) /\ (c = true -> silent = false -> condT (lv + 1) = true).

Lemma run_rule_spec c r st silent : cache_ok st -> rcond c silent (i_level st) ->
  gspec c (ipost st) (run_rule cfg TK SK r st silent).
Proof.
  intros Hc [Hcs Hct]. unfold run_rule.
  assert (W : forall x, gspec c (rpost_i st) x -> gspec c (ipost st) x).
  { intros x. apply gspec_weaken; [auto|]. intros y. apply rpost_ipost. exact Hc. }
  assert (Hnone : gspec c (ipost st) (ret (st, None))).
  { split; cbn [fst snd]; [|reflexivity]. repeat split; auto. }
  repeat match goal with |- gspec _ _ (if ?b then _ else _) => destruct b end;
    try solve [apply W; auto using rule_text_spec, rule_newline_spec, rule_escape_spec, rule_code_pair_spec, rule_emph_spec,
           rule_autolink_spec, rule_entity_spec, rule_html_inline_spec, rule_custom_inline_spec]; try exact Hnone;
    try solve [apply rule_code_pair_tok_spec; assumption].
  - apply gspec_bind; [auto with bn|]. intros rest _. destruct rest as [|ch t]; [exact I|].
    destruct (ch =? 91); [apply rule_link_spec; assumption|exact Hnone].
  - apply gspec_bind; [auto with bn|]. intros rest _.
    destruct rest as [|a0 t0]; [exact Hnone|]. lit_cases_k a0 ltac:(exact Hnone).
    destruct t0 as [|a1 t1]; [exact Hnone|]. lit_cases_k a1 ltac:(exact Hnone).
    apply rule_link_spec; assumption.
Qed.

Lemma ipost_trans st st' y : sframe st st' -> i_pos st' = i_pos st -> ipost st' y -> ipost st y.
Proof.
  intros (A & B & C & D) E [(A' & B' & C' & D') P]. split; [split; [exact A'|repeat split; congruence]|].
  rewrite <- E. exact P.
Qed.

Lemma try_rules_spec (c silent bump : bool) (chain : list N) : forall st : istate, cache_ok st ->
  rcond c silent (if bump then i_level st + 1 else i_level st) ->
  gspec c (ipost st) (try_rules cfg TK SK chain st silent bump).
Proof.
  induction chain as [|r t IH]; intros st Hc Hr; cbn [try_rules].
  { split; cbn [fst snd]; [repeat split; auto|reflexivity]. }
  destruct bump.
  - eapply gspec_bind_g; [apply (run_rule_spec c r (iset_level st (i_level st + 1)) silent); [exact Hc|exact Hr]|].
    intros [st1 o] _ [(A & B & C & D) P]. cbn [fst snd i_src i_max i_level i_pos i_cache iset_level] in *.
    assert (Hsf : sframe st (iset_level st1 (i_level st))) by (repeat split; cbn [i_src i_max i_level i_cache iset_level]; auto).
    destruct o as [n|].
    + split; [exact Hsf|]. cbn [fst snd i_pos iset_level]. exact P.
    + eapply gspec_weaken; [| |apply IH]; [auto| |exact A|cbn [i_level iset_level]; exact Hr].
      intros y. apply ipost_trans; [exact Hsf|exact P].
  - eapply gspec_bind_g; [apply (run_rule_spec c r st silent); [exact Hc|exact Hr]|].
    intros [st1 o] _ [(A & B & C & D) P]. cbn [fst snd] in *.
    assert (Hsf : sframe st st1) by (repeat split; auto).
    destruct o as [n|].
    + split; [exact Hsf|exact P].
    + eapply gspec_weaken; [| |apply IH]; [auto| |exact A|rewrite D; exact Hr].
      intros y. apply ipost_trans; [exact Hsf|exact P].
Qed.

Lemma first_char_len_pos st n : first_char_len st = inr n -> 1 <= n.
Proof.
  unfold first_char_len. destruct (irest st) as [|rest]; cbn [bind]; [discriminate|].
  destruct (decode1 rest) as [[cp l]|] eqn:E; [|discriminate]. intros H. injection H as <-. eapply decode1_len. exact E.
Qed.

(* the body of tokenize at level lv needs skip_token at lv and tokenize at lv + 1, but only below the limit *)
Definition bcond (c : bool) (lv : N) : Prop := lv <? ic_maxnest cfg = true -> rcond c false lv.

Lemma itok_loop_spec c n : forall st end_, cache_ok st -> bcond c (i_level st) ->
  (N.to_nat (end_ - i_pos st) < n)%nat ->
  gspec c cache_ok (tok_loop cfg TK SK n st end_).
Proof.
  induction n as [|n IH]; intros st end_ Hc Hb Hn; [lia|].
  cbn [tok_loop]. destruct (negb (i_pos st <? end_)) eqn:Hlt; [exact Hc|].
  apply (gspec_bind_g _ (ipost st)).
  { destruct (i_level st <? ic_maxnest cfg) eqn:El.
    - apply try_rules_spec; [exact Hc|apply Hb; exact El].
    - split; cbn [fst snd]; [repeat split; auto|reflexivity]. }
  intros [st1 o] _ [(A & B & C & D) P]. cbn [fst snd] in *.
  destruct o as [n'|].
  - destruct (end_ <=? i_pos (iset_pos st1 (i_pos st1 + n'))) eqn:Ee; [exact A|].
    apply IH; [exact A|cbn [i_level iset_pos]; rewrite D; exact Hb|cbn [i_pos iset_pos] in *; lia].
  - apply gspec_bind; [auto with bn|]. intros cl Hcl. apply first_char_len_pos in Hcl.
    apply (gspec_bind_g _ (iframe st1)); [apply ttpush_spec|]. intros st2 _ (F1 & F2 & F3 & F4 & F5).
    apply IH.
    + unfold cache_ok. cbn [i_cache iset_pos]. rewrite F4. exact A.
    + cbn [i_level iset_pos]. rewrite F3, D. exact Hb.
    + cbn [i_pos iset_pos]. lia.
Qed.

(* skip_token at level lv runs the rules silently at lv + 1 *)
Definition kcond (c : bool) (lv : N) : Prop := lv <? ic_maxnest cfg = true -> rcond c true (lv + 1).

Lemma cache_get_in st p x : cache_get st p = Some x -> In (p, x) (i_cache st).
Proof.
  unfold cache_get. induction (i_cache st) as [|[k v] t IH]; [discriminate|].
  destruct (k =? p) eqn:E; [intros H; injection H as <-; left; f_equal; lia|]. intros H. right. apply IH. exact H.
Qed.

Lemma skip_token_body_spec c st : cache_ok st -> i_pos st < i_max st -> kcond c (i_level st) ->
  gspec c (spost_i st) (skip_token_body cfg TK SK st).
Proof.
  intros Hc Hlt Hk. unfold skip_token_body. cbv zeta.
  destruct (cache_get st (i_pos st)) as [x|] eqn:Eg.
  { apply cache_get_in in Eg. apply Hc in Eg. split; [repeat split; auto|]. cbn [i_pos iset_pos]. exact Eg. }
  destruct (i_level st <? ic_maxnest cfg) eqn:El.
  - eapply gspec_bind_g; [apply (try_rules_spec c true true); [exact Hc|apply Hk; exact El]|].
    intros [st1 o] _ [(A & B & C & D) P]. cbn [fst snd] in *.
    assert (Hfin : forall st2, iframe st1 st2 \/ True -> i_cache st2 = i_cache st1 -> i_src st2 = i_src st1 -> i_max st2 = i_max st1 ->
                   i_level st2 = i_level st1 -> i_pos st < i_pos st2 ->
                   gspec c (spost_i st) (ret (iset_cache st2 ((i_pos st, i_pos st2) :: i_cache st2)))).
    { intros st2 _ E1 E2 E3 E4 E5. split; [|cbn [i_pos iset_cache]; exact E5].
      repeat split; cbn [i_src i_max i_level i_cache iset_cache]; try congruence.
      intros k v [H|H]; [injection H as <- <-; exact E5|]. rewrite E1 in H. apply A. exact H. }
    destruct o as [n|].
    + change (bind (ret ?x) ?f) with (f x). cbv beta. apply Hfin; cbn [i_cache i_src i_max i_level i_pos iset_pos]; auto.
    + rewrite bind_assoc. apply gspec_bind; [auto with bn|]. intros cl Hcl. apply first_char_len_pos in Hcl.
      change (bind (ret ?x) ?f) with (f x). cbv beta. apply Hfin; cbn [i_cache i_src i_max i_level i_pos iset_pos]; auto. lia.
  - split; [|cbn [i_pos iset_cache iset_pos]; exact Hlt].
    repeat split; cbn [i_src i_max i_level i_cache iset_cache iset_pos]; auto.
    intros k v [H|H]; [injection H as <- <-; exact Hlt|apply Hc; exact H].
Qed.

Lemma tokenize_body_spec c st : cache_ok st -> bcond c (i_level st) ->
  gspec c cache_ok (tokenize_body cfg TK SK st).
Proof. intros Hc Hb. unfold tokenize_body. apply itok_loop_spec; [exact Hc|exact Hb|lia]. Qed.

End Engine.

(* ------------------------------------------------------------------ *)
(* closing the mutual recursion: fuel f serves tokenize at levels >= maxnest + 2 - f and
   skip_token at levels >= maxnest + 1 - f                               *)

Definition fcondT (cfg : icfg) (f : nat) (lv : N) : bool := (ic_maxnest cfg + 2 - N.of_nat f <=? lv) && (lv <=? ic_maxnest cfg).
Definition fcondS (cfg : icfg) (f : nat) (lv : N) : bool := (ic_maxnest cfg + 1 - N.of_nat f <=? lv) && (lv <=? ic_maxnest cfg).

Theorem itokenize_iskip_spec cfg : forall f,
  (forall st, cache_ok st -> gspec (fcondT cfg f (i_level st)) cache_ok (itokenize f cfg st)) /\
  (forall st, cache_ok st -> i_pos st < i_max st -> gspec (fcondS cfg f (i_level st)) (spost_i st) (iskip f cfg st)).
Proof.
  induction f as [|f [IHt IHs]].
  - split; intros st Hc; [|intros _]; cbn; unfold fcondT, fcondS; lia.
  - split.
    + intros st Hc. cbn [itokenize].
      apply (tokenize_body_spec cfg (itokenize f cfg) (iskip f cfg) (ic_maxnest cfg + 2 - N.of_nat f) (ic_maxnest cfg + 1 - N.of_nat f)); [exact IHt|exact IHs|exact Hc|].
      unfold bcond, rcond, condS, condT, fcondT. intros Hl. split; intros; lia.
    + intros st Hc Hlt. cbn [iskip].
      apply (skip_token_body_spec cfg (itokenize f cfg) (iskip f cfg) (ic_maxnest cfg + 2 - N.of_nat f) (ic_maxnest cfg + 1 - N.of_nat f)); [exact IHt|exact IHs|exact Hc|exact Hlt|].
      unfold kcond, rcond, condS, condT, fcondS. intros Hl. split; intros; try discriminate; lia.
Qed.

(* the inline parser never loops for ever and its recursion depth is at most maxnest + 2,
   for every source text, mapping, chain of rules, pair configuration and nesting limit *)
Theorem inline_parse_terminates fuel cfg src map_ nd refs :
  (N.to_nat (ic_maxnest cfg) + 1 < fuel)%nat -> benign (inline_parse fuel cfg src map_ nd refs).
Proof.
  intros Hf. unfold inline_parse. cbv zeta.
  match goal with |- benign (bind (itokenize _ _ ?st) _) => pose proof (proj1 (itokenize_iskip_spec cfg fuel) st) as H end.
  assert (Hc : cache_ok (IState src map_ nd (if len src - len (fst (span is_sptab (rev src))) =? 0 then 0 else len (fst (span is_sptab src)))
                                 (len src - len (fst (span is_sptab (rev src)))) [] 0 0 [] refs)) by (intros k v []).
  specialize (H Hc). cbn [i_level] in H. unfold fcondT in H.
  destruct (itokenize fuel cfg _) as [[k| |]|st']; cbn in *; auto. lia.
Qed.

Theorem itokenize_never_hangs fuel cfg st : cache_ok st -> itokenize fuel cfg st <> inl Hang.
Proof. intros Hc E. pose proof (proj1 (itokenize_iskip_spec cfg fuel) st Hc) as H. rewrite E in H. exact H. Qed.
