(* Property C12, the paragraph-text path: the inline entity and escape rules decode a reference / an escaped
   punctuation character to exactly the characters the attribute path (unescape_all: destinations, titles,
   definitions, info strings) makes of the same markup. *)
From Coq Require Import String.
From MdIt Require Import Prims Tables Escape NormRef Mdurl LinkParse Tree HtmlRe Block Inline.
From MdIt Require Import LookaheadProofs RangeProofs EscapeProofs EscapeCtxProofs.
From Coq Require Import Lia ZifyBool ZifyN ZifyNat.
Local Open Scope list_scope.
Local Open Scope N_scope.

Arguments N.eqb : simpl never.
Arguments N.leb : simpl never.
Arguments N.ltb : simpl never.
Arguments N.add : simpl never.
Arguments N.sub : simpl never.

Lemma span_spec (p : N -> bool) s : forall a b, span p s = (a, b) -> s = a ++ b /\ forallb p a = true.
Proof.
  induction s as [|c t IH]; intros a b H; cbn [span] in H.
  - injection H as <- <-. split; reflexivity.
  - destruct (p c) eqn:E.
    + destruct (span p t) as [a' b'] eqn:Es. injection H as <- <-. destruct (IH a' b' eq_refl) as [-> Hp].
      split; [reflexivity|cbn [forallb]; rewrite E, Hp; reflexivity].
    + injection H as <- <-. split; reflexivity.
Qed.

Lemma takeN_app_exact (a b : str) n : n = len a -> takeN n (a ++ b) = a.
Proof. intros ->. apply takeN_app_len. Qed.

Lemma take_drop (k : nat) (l : str) : take k l ++ drop k l = l.
Proof. revert l. induction k as [|k IH]; intros l; [reflexivity|]. destruct l as [|x l]; [reflexivity|]. cbn [take drop app]. rewrite IH. reflexivity. Qed.

Lemma take_all (k : nat) (l : str) : (length l <= k)%nat -> take k l = l.
Proof. revert l. induction k as [|k IH]; intros l H; destruct l as [|x l]; cbn [take] in *; try reflexivity; [cbn in H; lia|]. rewrite IH; [reflexivity|cbn in H; lia]. Qed.

Lemma drop_length (k : nat) (l : str) : length (drop k l) = (length l - k)%nat.
Proof. revert l. induction k as [|k IH]; intros l; destruct l as [|x l]; cbn [drop length]; try lia. apply IH. Qed.

(* the text up to pos_max is a prefix of the text up to the end of the source *)
Lemma slice_prefix_of_rest s a b r f : slice s a b = inr r -> slice s a (len s) = inr f -> exists t, f = r ++ t.
Proof.
  intros Hr Hf. pose proof (slice_sub _ _ _ _ Hr) as ->. pose proof (slice_sub _ _ _ _ Hf) as ->.
  unfold slice in Hr. destruct ((a <=? b) && (b <=? len s) && is_boundary s a && is_boundary s b) eqn:E; [|discriminate].
  unfold sub, takeN, dropN. exists (drop (N.to_nat (b - a)) (drop (N.to_nat a) s)).
  rewrite (take_all (N.to_nat (len s - a))); [symmetry; apply take_drop|].
  rewrite drop_length. unfold len. lia.
Qed.

(* whenever the entity rule accepts, the node it pushes carries the markup it consumed and the characters that the
   attribute-path decoder makes of that very markup *)
Theorem entity_rule_same_decoding st st' n : rule_entity st false = inr (st', Some n) ->
  exists markup content rng,
    last_child st' = Some (mk (KTextSpecial content markup true) rng []) /\ n = len markup /\
    unescape_all markup = content.
Proof.
  unfold rule_entity. intros H. hinv H.
  all: try (injection H as <- <-; do 3 eexists; split; [apply last_child_ipush|]; split; [reflexivity|];
            apply named_reference_decodes; assumption).
  injection H as <- <-.
  assert (n0 = 38) by (destruct (n0 =? 38) eqn:E; [lia|discriminate]). subst n0.
  destruct (slice_prefix_of_rest _ _ _ _ _ Heqr Heqr0) as [t Ht]. cbn [app] in Ht.
  apply span_spec in Heqp6. destruct Heqp6 as [Hs Hp].
  assert (Hd : dropN 2 s1 = l ++ t) by (rewrite Ht; reflexivity). rewrite Hd in Hs.
  assert (Es1 : s1 = (38 :: 35 :: s2 ++ [59]) ++ s4).
  { rewrite Ht. cbn [app]. f_equal. f_equal. rewrite Hs, <- app_assoc. reflexivity. }
  do 3 eexists. split; [apply last_child_ipush|]. split.
  - rewrite Es1. rewrite takeN_app_exact; unfold len; cbn [length]; rewrite ?app_length; cbn [length]; lia.
  - rewrite Es1. rewrite takeN_app_exact by (unfold len; cbn [length]; rewrite ?app_length; cbn [length]; lia).
    apply numeric_reference_decodes. exact Heqo.
Qed.

(* ------------------------------------------------------------------ *)
(* every valid reference IS decoded in paragraph text                    *)

(* shape of the names of the generated table: & letter alnum{1,31} ;  (finite sweep) *)
Definition name_shape (k : str) : bool :=
  match k with
  | 38 :: c :: t =>
    match rev t with
    | 59 :: rbody => is_alpha c && forallb is_alnum (rev rbody) && (1 <=? len (rev rbody)) && (len (rev rbody) <=? 31)
    | _ => false
    end
  | _ => false
  end.
Lemma names_shape_sweep : forallb (fun kv : str * str => name_shape (fst kv)) entity_table = true.
Proof. vm_compute. reflexivity. Qed.

Lemma assoc_key_in k v t : assoc_str k t = Some v -> exists k', In (k', v) t /\ list_eqb k' k = true.
Proof.
  induction t as [|[a w] t IH]; cbn [assoc_str]; [discriminate|].
  destruct (list_eqb a k) eqn:E.
  - intros H. injection H as <-. exists a. split; [left; reflexivity|exact E].
  - intros H. destruct (IH H) as (k' & Hin & He). exists k'. split; [right; exact Hin|exact He].
Qed.

Lemma entity_name_shape k v : get_entity_from_str k = Some v ->
  exists c body, k = 38 :: c :: body ++ [59] /\ is_alpha c = true /\ forallb is_alnum body = true /\ 1 <= len body <= 31.
Proof.
  intros H. destruct (assoc_key_in _ _ _ H) as (k' & Hin & He). apply list_eqb_eq in He. subst k'.
  pose proof names_shape_sweep as Hs. rewrite forallb_forall in Hs. specialize (Hs _ Hin). cbn [fst] in Hs.
  unfold name_shape in Hs. destruct k as [|a k]; [discriminate|]. hinv Hs.
  match goal with E : rev ?t = 59 :: ?rb |- _ => apply (f_equal (@rev N)) in E; rewrite rev_involutive in E; cbn [rev] in E; subst t end.
  repeat match goal with E : _ && _ = true |- _ => apply andb_true_iff in E; destruct E end.
  do 2 eexists. split; [reflexivity|]. repeat split; try assumption; lia.
Qed.

Lemma match_entity_re_nohash c body post : is_alpha c = true -> forallb is_alnum body = true -> 1 <= len body <= 31 ->
  match_entity_re false (c :: body ++ 59 :: post) = Some (38 :: c :: body ++ [59], post).
Proof.
  intros Hc Hb Hl. unfold match_entity_re. rewrite Hc. cbn [orb].
  rewrite (span_app is_alnum body 59 post Hb eq_refl).
  replace ((1 <=? len body) && (len body <=? 31)) with true by lia. reflexivity.
Qed.

Lemma alpha_not_hash c : is_alpha c = true -> c <> 35.
Proof. unfold is_alpha, is_upper, is_lower, between. lia. Qed.

Lemma pos_match_35 {A} (pc : positive) (x y : A) : Npos pc <> 35 -> match pc with 35%positive => x | _ => y end = y.
Proof. intros H. repeat (destruct pc as [pc|pc|]; try reflexivity). exfalso. apply H. reflexivity. Qed.

(* a named reference of the table at the current position is turned into a node holding its value *)
Theorem entity_rule_accepts_named st k v tail1 tail2 m :
  get_entity_from_str k = Some v ->
  irest st = inr (k ++ tail1) -> isl st (i_pos st) (len (i_src st)) = inr (k ++ tail2) ->
  iget_map st (i_pos st) (i_pos st + len k) = inr m ->
  rule_entity st false = inr (ipush st (mk (KTextSpecial v k true) m []), Some (len k)).
Proof.
  intros Hv Hr Hf Hm. destruct (entity_name_shape _ _ Hv) as (c & body & -> & Hc & Hb & Hl).
  unfold rule_entity. rewrite Hr. cbn [bind ret app]. change (38 =? 38) with true. cbn [negb].
  rewrite Hf. cbn [bind ret app].
  assert (Hnh : c <> 35) by (apply alpha_not_hash; exact Hc).
  assert (Hm0 : match_entity_re false (dropN 1 (38 :: c :: (body ++ [59]) ++ tail2)) = Some (38 :: c :: body ++ [59], tail2)).
  { change (dropN 1 (38 :: c :: (body ++ [59]) ++ tail2)) with (c :: (body ++ [59]) ++ tail2). rewrite <- app_assoc. cbn [app].
    apply match_entity_re_nohash; assumption. }
  destruct c as [|pc]; [unfold is_alpha, is_upper, is_lower, between in Hc; lia|].
  rewrite (pos_match_35 pc) by exact Hnh.
  rewrite Hm0. rewrite Hv. rewrite Hm. reflexivity.
Qed.


Lemma alnum_ascii b : is_alnum b = true -> ((b <? 128) && is_alnum b) = true.
Proof. intros H. rewrite H. unfold is_alnum, is_digit, is_alpha, is_upper, is_lower, between in H. lia. Qed.

(* a well-formed numeric reference at the current position is turned into a node holding the character of its code
   point (U+FFFD when the code point is not allowed) *)
Theorem entity_rule_accepts_numeric st body code tail1 tail2 m :
  numeric_code body = Some code ->
  irest st = inr (38 :: 35 :: body ++ 59 :: tail1) -> isl st (i_pos st) (len (i_src st)) = inr (38 :: 35 :: body ++ 59 :: tail2) ->
  iget_map st (i_pos st) (i_pos st + (2 + len body + 1)) = inr m ->
  rule_entity st false =
    inr (ipush st (mk (KTextSpecial (code_to_str code) (38 :: 35 :: body ++ [59]) true) m []), Some (2 + len body + 1)).
Proof.
  intros Hc Hr Hf Hm. destruct (numeric_code_shape _ _ Hc) as (Ha & H1 & H7).
  unfold rule_entity. rewrite Hr. cbn [bind ret]. change (38 =? 38) with true. cbn [negb]. rewrite Hf. cbn [bind ret].
  change (dropN 2 (38 :: 35 :: body ++ 59 :: tail2)) with (body ++ 59 :: tail2).
  rewrite (span_app (fun b => (b <? 128) && is_alnum b) body 59 tail2); [|exact (forallb_impl _ _ _ alnum_ascii Ha)|reflexivity].
  rewrite Hc. rewrite Hm. cbn [bind ret].
  replace (38 :: 35 :: body ++ 59 :: tail2) with ((38 :: 35 :: body ++ [59]) ++ tail2) by (cbn [app]; rewrite <- app_assoc; reflexivity).
  rewrite takeN_app_exact by (unfold len; cbn [length]; rewrite app_length; cbn [length]; lia). reflexivity.
Qed.

Lemma rule_escape_char st d tail : irest st = inr (92 :: d :: tail) -> d <> 10 ->
  rule_escape st false =
    (let t := d :: tail in
     let clen := match decode1 t with Some (_, l) => l | None => 1 end in
     let chr := takeN clen t in
     let n := 1 + clen in
     let orig := 92 :: chr in
     let content := if (d <? 128) && is_ascii_punct d then chr else orig in
     do m <- iget_map st (i_pos st) (i_pos st + n);
     ret (ipush st (mk (KTextSpecial content orig false) m []), Some n)).
Proof.
  intros Hr H. unfold rule_escape. rewrite Hr. cbn [bind ret]. change (92 =? 92) with true. cbn [negb].
  destruct d as [|pc]; [reflexivity|]. repeat (destruct pc as [pc|pc|]; try reflexivity). exfalso. apply H. reflexivity.
Qed.

(* an escaped ASCII character: the node holds what the attribute path makes of the same two bytes -- the character
   itself for punctuation, backslash and character otherwise *)
Theorem escape_rule_same_decoding st d tail m :
  irest st = inr (92 :: d :: tail) -> d <> 10 -> d < 128 ->
  iget_map st (i_pos st) (i_pos st + 2) = inr m ->
  rule_escape st false = inr (ipush st (mk (KTextSpecial (unescape_all [92; d]) [92; d] false) m []), Some 2).
Proof.
  intros Hr H10 H128 Hm. rewrite (rule_escape_char st d tail Hr H10). cbv zeta.
  assert (Hdec : decode1 (d :: tail) = Some (d, 1)) by (unfold decode1; replace (d <? 128) with true by lia; reflexivity).
  rewrite Hdec. change (takeN 1 (d :: tail)) with [d]. replace (d <? 128) with true by lia. cbn [andb].
  change (1 + 1) with 2. rewrite Hm. cbn [bind ret].
  destruct (is_ascii_punct d) eqn:Ep.
  - rewrite (escape_decodes d Ep). reflexivity.
  - rewrite (escape_other_stays d Ep); [reflexivity|intros ->; discriminate|intros ->; discriminate].
Qed.
