(* Code content is opaque and reproduced verbatim (property C11), second part: the SEARCH for the end of
   the code -- the closing fence, the end of an indented block, the closing backtick run -- stops exactly
   where the property says, for every payload, so the payload is what reaches the node. *)
From Coq Require Import String.
From MdIt Require Import Prims Tables Escape NormRef Indent Mdurl LinkParse Tree Render Block Inline.
From MdIt Require Import RenderProofs LookaheadProofs RangeProofs CodeProofs.
From Coq Require Import Lia ZifyBool ZifyN ZifyNat.
Local Open Scope list_scope.
Local Open Scope N_scope.
Ltac Zify.zify_post_hook ::= Z.div_mod_to_equations.

Arguments N.eqb : simpl never.
Arguments N.leb : simpl never.
Arguments N.ltb : simpl never.
Arguments N.add : simpl never.
Arguments N.sub : simpl never.
Arguments N.modulo : simpl never.
Arguments Z.leb : simpl never.
Arguments Z.ltb : simpl never.
Arguments Z.sub : simpl never.
Arguments Z.of_N : simpl never.

(* ------------------------------------------------------------------ *)
(* runs of a marker byte                                                 *)

(* every run of m in s is shorter than n (stated for every suffix of s) *)
Fixpoint runs_lt (m n : N) (s : str) : bool :=
  match s with [] => true | _ :: t => (count_prefix m s <? n) && runs_lt m n t end.

Lemma runs_lt_suffix m n a b : runs_lt m n (a ++ b) = true -> 0 < n -> count_prefix m b < n.
Proof.
  induction a as [|x a IH]; intros H Hn.
  - destruct b as [|y b]; [cbn; lia|]. cbn [app runs_lt] in H. apply andb_true_iff in H. destruct H as [H _]. lia.
  - cbn [app runs_lt] in H. apply andb_true_iff in H. destruct H as [_ H]. apply IH; assumption.
Qed.

Lemma count_prefix_repeat m k rest : match rest with x :: _ => (x =? m) = false | [] => True end ->
  count_prefix m (repeatN m k ++ rest) = N.of_nat k.
Proof.
  intros Hr. induction k as [|k IH].
  - cbn [repeatN app]. destruct rest as [|x r]; [reflexivity|]. cbn [count_prefix]. rewrite Hr. reflexivity.
  - cbn [repeatN app count_prefix]. rewrite N.eqb_refl, IH. lia.
Qed.

Lemma dropN_repeat_app m k rest : dropN (N.of_nat k) (repeatN m k ++ rest) = rest.
Proof. unfold dropN. rewrite Nnat.Nat2N.id. induction k as [|k IH]; [destruct rest; reflexivity|exact IH]. Qed.

(* ------------------------------------------------------------------ *)
(* line records of untouched lines                                       *)

Lemma mk_line_split pre T : forallb is_ws pre = true ->
  exists w r, T = w ++ r /\ forallb is_ws w = true /\
    match r with x :: _ => is_ws x = false | [] => True end /\
    mk_line (pre ++ T) = LRec (pre ++ T) (len (pre ++ w)) (Z.of_N (cols_from 0 (pre ++ w))).
Proof.
  intros Hp. destruct (split_blanks T) as (w & r & -> & Hw & Hr). exists w, r. repeat split; try assumption.
  unfold mk_line. rewrite app_assoc, (leading_ws_spec (pre ++ w) r 0 0); [|rewrite forallb_app, Hp, Hw; reflexivity|exact Hr].
  replace (0 + len (pre ++ w)) with (len (pre ++ w)) by lia. reflexivity.
Qed.

(* a line whose first non-blank byte is given *)
Lemma mk_line_nonblank pre x r : forallb is_ws pre = true -> is_ws x = false ->
  mk_line (pre ++ x :: r) = LRec (pre ++ x :: r) (len pre) (Z.of_N (cols_from 0 pre)).
Proof.
  intros Hp Hx. unfold mk_line. rewrite (leading_ws_spec pre (x :: r) 0 0 Hp Hx).
  replace (0 + len pre) with (len pre) by lia. reflexivity.
Qed.

Lemma get_line_at st l text f i : nth_error (b_lines st) l = Some (LRec text f i) -> f <= len text ->
  get_line st l = inr (dropN f text).
Proof.
  intros H Hf. unfold get_line, line_rec. rewrite H. cbn [bind ret l_first l_end l_text]. unfold l_end. cbn [l_text].
  replace (f <=? len text) with true by lia. reflexivity.
Qed.

Lemma line_indent_at st l text f i : nth_error (b_lines st) l = Some (LRec text f i) ->
  line_indent st l = inr (i - Z.of_N (b_blk st))%Z.
Proof. intros H. unfold line_indent, line_rec. rewrite H. reflexivity. Qed.

Lemma len_app (a b : str) : len (a ++ b) = len a + len b.
Proof. unfold len. rewrite app_length. lia. Qed.

Lemma is_ws_sptab c : is_ws c = is_sptab c.
Proof. reflexivity. Qed.

(* ------------------------------------------------------------------ *)
(* 1. fenced code: the closing fence is found, and nothing before it     *)

Lemma marker_line (m : N) p k rest : m = 96 \/ m = 126 -> forallb is_ws p = true -> (1 <= k)%nat ->
  mk_line (p ++ repeatN m k ++ rest) = LRec (p ++ repeatN m k ++ rest) (len p) (Z.of_N (cols_from 0 p)).
Proof.
  intros Hm Hp Hk. destruct k as [|k]; [lia|]. cbn [repeatN app]. apply mk_line_nonblank; [exact Hp|].
  destruct Hm; subst m; reflexivity.
Qed.

Section Fence.
Variable cfg : bcfg.
Variable st : bstate.
Variables (m : N) (n : nat) (pre cpre params trail : str) (n' : nat) (texts : list (list N)).

Let start := b_line st.

Hypothesis Hm : m = 96 \/ m = 126.
Hypothesis Hn : (3 <= n)%nat.
Hypothesis Hpre : forallb is_ws pre = true.
Hypothesis Hcpre : forallb is_ws cpre = true.
(* the fence is indented by less than four columns relative to the enclosing block *)
Hypothesis Hcols : b_blk st <= cols_from 0 pre < b_blk st + 4.
Hypothesis Hccols : b_blk st <= cols_from 0 cpre < b_blk st + 4.
(* opening line: pre, n markers, the info string (no backtick in it for a backtick fence) *)
Hypothesis Hparams0 : match params with x :: _ => (x =? m) = false | [] => True end.
Hypothesis Hparams : m = 96 -> mem 96 params = false.
Hypothesis Hopen : nth_error (b_lines st) start = Some (mk_line (pre ++ repeatN m n ++ params)).
(* payload lines: indented like the fence, every run of the marker shorter than the fence *)
Hypothesis Htexts : forall i T, nth_error texts i = Some T ->
  nth_error (b_lines st) (S start + i) = Some (mk_line (pre ++ T)) /\ runs_lt m (N.of_nat n) T = true.
(* closing line: at least n markers, then blanks only *)
Hypothesis Hn' : (n <= n')%nat.
Hypothesis Htrail : all_sptab trail = true.
Hypothesis Hclose : nth_error (b_lines st) (S start + length texts) = Some (mk_line (cpre ++ repeatN m n' ++ trail)).
Hypothesis Hmax : (S start + length texts < b_max st)%nat.

Lemma m_not_ws : is_ws m = false.
Proof. destruct Hm; subst m; reflexivity. Qed.

Lemma marker_line_rec p k rest : forallb is_ws p = true -> (1 <= k)%nat ->
  mk_line (p ++ repeatN m k ++ rest) = LRec (p ++ repeatN m k ++ rest) (len p) (Z.of_N (cols_from 0 p)).
Proof.
  intros Hp Hk. destruct k as [|k]; [lia|]. cbn [repeatN app]. apply mk_line_nonblank; [exact Hp|exact m_not_ws].
Qed.

Lemma fence_open_here : fence_open st = inr (Some (m, N.of_nat n, params)).
Proof.
  unfold fence_open. fold start.
  pose proof Hopen as Ho. rewrite marker_line_rec in Ho by (try assumption; lia).
  rewrite (line_indent_at _ _ _ _ _ Ho). cbn [bind ret].
  replace (4 <=? Z.of_N (cols_from 0 pre) - Z.of_N (b_blk st))%Z with false by lia.
  rewrite (get_line_at _ _ _ _ _ Ho) by (rewrite len_app; lia). cbn [bind ret].
  rewrite dropN_len_app. destruct n as [|k] eqn:En; [lia|]. cbn [repeatN app].
  replace ((m =? 126) || (m =? 96)) with true by (destruct Hm; subst m; reflexivity).
  change (m :: repeatN m k ++ params) with (repeatN m (S k) ++ params).
  rewrite count_prefix_repeat by exact Hparams0.
  replace (N.of_nat (S k) <? 3) with false by lia.
  rewrite dropN_repeat_app.
  destruct (m =? 96) eqn:E96; cbn [andb]; [|reflexivity].
  rewrite Hparams by lia. reflexivity.
Qed.


(* the record of a payload line and what the search sees of it *)
Lemma payload_line i T : nth_error texts i = Some T ->
  exists text f ind line,
    nth_error (b_lines st) (S start + i) = Some (LRec text f ind) /\ f <= len text /\
    dropN f text = line /\ (Z.of_N (b_blk st) <= ind)%Z /\ count_prefix m line < N.of_nat n.
Proof.
  intros Hi. destruct (Htexts i T Hi) as [Hl Hr].
  destruct (mk_line_split pre T Hpre) as (w & r & -> & Hw & Hr0 & Hrec).
  rewrite Hrec in Hl. do 4 eexists. split; [exact Hl|]. split; [rewrite !len_app; lia|]. split; [reflexivity|].
  split.
  - rewrite cols_from_app. pose proof (cols_from_ge (cols_from 0 pre) w). lia.
  - rewrite app_assoc, dropN_len_app. apply (runs_lt_suffix m (N.of_nat n) w r Hr). lia.
Qed.

Theorem fence_verbatim :
  exists rng,
  rule_fence cfg st =
    inr (push_node (set_line st (S (S start + length texts)))
           (mk (KFence params m (N.of_nat n) (out_lines true texts) (bc_fence_prefix cfg)) rng []), true).
Proof.
  unfold rule_fence. rewrite fence_open_here. 
  match goal with |- context [bind (inr ?x) ?f] => change (bind (inr x) f) with (f x) end. cbv beta match. fold start.
  match goal with |- context [(fix search (k : nat) (next : nat) {struct k} : res (nat * bool) := @?body search k next) _ _] =>
    set (search := fix search (k : nat) (next : nat) {struct k} : res (nat * bool) := body search k next) end.
  assert (Hsearch : forall j i k, (i + j = length texts)%nat -> (j < k)%nat ->
            search k (S start + i)%nat = inr ((S start + length texts)%nat, true)).
  { induction j as [|j IH]; intros i k Hij Hk.
    - assert (i = length texts) by lia. subst i. destruct k as [|k]; [lia|].
      pose proof Hclose as Hc. rewrite marker_line_rec in Hc by (try assumption; lia).
      cbn [search]. replace (b_max st <=? S start + length texts)%nat with false by (symmetry; apply PeanoNat.Nat.leb_gt; lia).
      rewrite (get_line_at _ _ _ _ _ Hc) by (rewrite len_app; lia). cbn [bind ret].
      rewrite (line_indent_at _ _ _ _ _ Hc). cbn [bind ret]. rewrite dropN_len_app.
      destruct n' as [|k'] eqn:En'; [lia|]. cbn [repeatN app negb andb].
      replace (Z.of_N (cols_from 0 cpre) - Z.of_N (b_blk st) <? 0)%Z with false by lia. cbn [andb].
      rewrite N.eqb_refl. cbn [negb].
      replace (4 <=? Z.of_N (cols_from 0 cpre) - Z.of_N (b_blk st))%Z with false by lia.
      change (m :: repeatN m k' ++ trail) with (repeatN m (S k') ++ trail).
      assert (Ht0 : match trail with x :: _ => (x =? m) = false | [] => True end).
      { destruct trail as [|x t]; [exact I|]. cbn [all_sptab forallb] in Htrail. apply andb_true_iff in Htrail.
        destruct Htrail as [Hx _]. unfold is_sptab in Hx. destruct Hm; subst m; lia. }
      rewrite count_prefix_repeat by exact Ht0.
      replace (N.of_nat (S k') <? N.of_nat n) with false by lia.
      rewrite dropN_repeat_app, Htrail. reflexivity.
    - destruct k as [|k]; [lia|].
      destruct (nth_error texts i) as [T|] eqn:ET; [|apply nth_error_None in ET; lia].
      destruct (payload_line i T ET) as (text & f & ind & line & Hl & Hf & Hline & Hind & Hrun).
      cbn [search]. replace (b_max st <=? S start + i)%nat with false by (symmetry; apply PeanoNat.Nat.leb_gt; lia).
      rewrite (get_line_at _ _ _ _ _ Hl Hf). cbn [bind ret]. rewrite (line_indent_at _ _ _ _ _ Hl). cbn [bind ret].
      rewrite Hline. replace (ind - Z.of_N (b_blk st) <? 0)%Z with false by lia. rewrite andb_false_r.
      replace (S (S start + i))%nat with (S start + S i)%nat by lia.
      assert (Hnext : search k (S start + S i)%nat = inr ((S start + length texts)%nat, true)) by (apply IH; lia).
      destruct line as [|c rest]; [exact Hnext|].
      destruct (c =? m); cbn [negb]; [|exact Hnext].
      destruct (4 <=? ind - Z.of_N (b_blk st))%Z; [exact Hnext|].
      replace (count_prefix m (c :: rest) <? N.of_nat n) with true by lia. exact Hnext. }
  pose proof (Hsearch (length texts) 0%nat (S (b_max st))) as H0. replace (S start + 0)%nat with (S start) in H0 by lia.
  match goal with |- context [bind ?a _] => match a with (if _ then _ else _) => change a with (search (S (b_max st)) (S start)) end end.
  rewrite H0 by lia. cbn [bind ret].
  pose proof Hopen as Ho. rewrite marker_line_rec in Ho by (try assumption; lia).
  unfold line_rec at 1. rewrite Ho. cbn [bind ret l_indent]. rewrite N2Z.id.
  unfold get_lines. replace (S start <=? S start + length texts)%nat with true by (symmetry; apply PeanoNat.Nat.leb_le; lia).
  destruct (get_lines_verbatim st pre true Hpre texts (S start + length texts - S start) (S start) [] [])
    as [mp' Hgl]. 1:lia. 1:(intros i T Hi; apply (Htexts i T Hi)).
  rewrite Hgl. cbn [bind ret fst app].
  unfold get_map. replace (start <=? S start + length texts)%nat with true by (symmetry; apply PeanoNat.Nat.leb_le; lia).
  unfold pos_first, pos_end, line_rec. rewrite Ho, Hclose. cbn [bind ret].
  eexists. reflexivity.
Qed.

End Fence.

(* ------------------------------------------------------------------ *)
(* 2. indented code: the block ends after its last non-blank line        *)

Definition blank (T : str) : bool := forallb is_ws T.

Lemma get_lines_map_extends st keep indent : forall n b e acc mp r mp',
  get_lines_loop st n b e indent keep acc mp = inr (r, mp') -> exists ext, mp' = mp ++ ext.
Proof.
  induction n as [|n IH]; intros b e acc mp r mp' H; cbn [get_lines_loop] in H.
  - injection H as _ <-. exists []. rewrite app_nil_r. reflexivity.
  - destruct (negb (b <? e)%nat); [injection H as _ <-; exists []; rewrite app_nil_r; reflexivity|].
    hinv H. apply IH in H. destruct H as [ext ->]. rewrite <- app_assoc. eexists. reflexivity.
Qed.

Lemma get_lines_map_nonempty st keep indent n b e acc r mp' :
  get_lines_loop st n b e indent keep acc [] = inr (r, mp') -> (b < e)%nat -> (0 < n)%nat -> mp' <> [].
Proof.
  intros H Hbe Hn. destruct n as [|n]; [lia|]. cbn [get_lines_loop] in H.
  replace (b <? e)%nat with true in H by (symmetry; apply PeanoNat.Nat.ltb_lt; lia). cbn [negb] in H.
  hinv H. apply get_lines_map_extends in H. destruct H as [ext ->]. cbn [app].
  intros E. apply (f_equal (@length _)) in E. rewrite !app_length in E. cbn [length] in E. lia.
Qed.

Section Indented.
Variable st : bstate.
Variables (pre : str) (texts : list (list N)) (tailblank : nat).

Let start := b_line st.
Let total := length texts.

Hypothesis Hpre : forallb is_ws pre = true.
Hypothesis Hcols : cols_from 0 pre = 4 + b_blk st.
(* payload lines, each behind the same four columns of indentation *)
Hypothesis Htexts : forall i T, nth_error texts i = Some T ->
  nth_error (b_lines st) (start + i) = Some (mk_line (pre ++ T)).
(* first and last line are not blank *)
Hypothesis Hfirst : exists T, nth_error texts 0 = Some T /\ blank T = false.
Hypothesis Hlast : exists T, nth_error texts (total - 1) = Some T /\ blank T = false.
(* then blank lines, then the end of the enclosing block or a non-blank line indented by less than 4 *)
Hypothesis Htail : forall j, (j < tailblank)%nat -> is_empty st (start + total + j) = true.
Hypothesis Htailmax : (start + total + tailblank <= b_max st)%nat.
Hypothesis Hstop : (start + total + tailblank = b_max st)%nat \/
  exists text f ind, nth_error (b_lines st) (start + total + tailblank) = Some (LRec text f ind) /\
                     f < len text /\ (ind - Z.of_N (b_blk st) < 4)%Z.

Lemma total_pos : (1 <= total)%nat.
Proof. destruct Hfirst as (T & H & _). unfold total. destruct texts; [discriminate|cbn; lia]. Qed.

Lemma blank_split w r : forallb is_ws w = true -> match r with x :: _ => is_ws x = false | [] => True end ->
  blank (w ++ r) = match r with [] => true | _ => false end.
Proof.
  intros Hw Hr. unfold blank. rewrite forallb_app, Hw. destruct r as [|x r]; [reflexivity|]. cbn [forallb andb]. rewrite Hr. reflexivity.
Qed.

(* what the scan sees of a payload line *)
Lemma payload_rec i T : nth_error texts i = Some T ->
  exists text f ind, nth_error (b_lines st) (start + i) = Some (LRec text f ind) /\
    (Z.of_N (b_blk st) + 4 <= ind)%Z /\ ((len text <=? f) = blank T).
Proof.
  intros Hi. pose proof (Htexts i T Hi) as Hl.
  destruct (mk_line_split pre T Hpre) as (w & r & -> & Hw & Hr0 & Hrec). rewrite Hrec in Hl.
  do 3 eexists. split; [exact Hl|]. split.
  - rewrite cols_from_app. pose proof (cols_from_ge (cols_from 0 pre) w). lia.
  - rewrite (blank_split w r Hw Hr0). rewrite !len_app. destruct r; unfold len; cbn [length]; lia.
Qed.

Theorem code_block_verbatim :
  exists rng,
  rule_code st =
    inr (push_node (set_line st (start + total)) (mk (KCodeBlock (out_lines false texts ++ [10])) rng []), true).
Proof.
  pose proof total_pos as Htp.
  unfold rule_code. fold start.
  destruct Hfirst as (T0 & HT0 & HB0).
  destruct (payload_rec 0 T0 HT0) as (text0 & f0 & ind0 & Hl0 & Hind0 & _).
  replace (start + 0)%nat with start in Hl0 by lia.
  rewrite (line_indent_at _ _ _ _ _ Hl0). cbn [bind ret].
  replace (ind0 - Z.of_N (b_blk st) <? 4)%Z with false by lia.
  match goal with |- context [(fix scan (n : nat) (next last : nat) {struct n} : res nat := @?body scan n next last) _ _ _] =>
    set (scan := fix scan (n : nat) (next last : nat) {struct n} : res nat := body scan n next last) end.
  (* after the payload: blank lines are skipped, then the scan stops *)
  assert (HA : forall j k last, (j <= tailblank)%nat -> (j < k)%nat ->
            scan k (start + total + (tailblank - j))%nat last = inr last).
  { induction j as [|j IH]; intros k last Hj Hk; (destruct k as [|k]; [lia|]); cbn [scan].
    - replace (tailblank - 0)%nat with tailblank by lia.
      destruct Hstop as [He|(text & f & ind & Hl & Hf & Hi)].
      + rewrite He. rewrite PeanoNat.Nat.ltb_irrefl. reflexivity.
      + destruct (start + total + tailblank <? b_max st)%nat; [|reflexivity]. cbn [negb].
        unfold is_empty. rewrite Hl. unfold l_end. cbn [l_text l_first].
        replace (len text <=? f) with false by lia.
        rewrite (line_indent_at _ _ _ _ _ Hl). cbn [bind ret].
        replace (4 <=? ind - Z.of_N (b_blk st))%Z with false by lia. reflexivity.
    - replace (start + total + (tailblank - S j) <? b_max st)%nat with true by (symmetry; apply PeanoNat.Nat.ltb_lt; lia).
      cbn [negb]. rewrite Htail by lia.
      replace (S (start + total + (tailblank - S j)))%nat with (start + total + (tailblank - j))%nat by lia.
      apply IH; lia. }
  assert (HB : forall j i k last, (i + j = total)%nat -> (j + tailblank < k)%nat ->
            (i = total -> last = (start + total)%nat) ->
            scan k (start + i)%nat last = inr (start + total)%nat).
  { induction j as [|j IH]; intros i k last Hij Hk Hlast0.
    - assert (i = total) by lia. subst i. rewrite (Hlast0 eq_refl).
      pose proof (HA tailblank k (start + total)%nat) as H. replace (tailblank - tailblank)%nat with 0%nat in H by lia.
      replace (start + total + 0)%nat with (start + total)%nat in H by lia. apply H; lia.
    - destruct k as [|k]; [lia|].
      destruct (nth_error texts i) as [T|] eqn:ET; [|apply nth_error_None in ET; unfold total in *; lia].
      destruct (payload_rec i T ET) as (text & f & ind & Hl & Hind & Hbl).
      cbn [scan]. replace (start + i <? b_max st)%nat with true by (symmetry; apply PeanoNat.Nat.ltb_lt; lia).
      cbn [negb]. unfold is_empty. rewrite Hl. unfold l_end. cbn [l_text l_first]. rewrite Hbl.
      replace (S (start + i))%nat with (start + S i)%nat by lia.
      destruct (blank T) eqn:EB.
      + apply IH; [lia|lia|]. intros Hi. destruct Hlast as (TL & HTL & HBL).
        replace (total - 1)%nat with i in HTL by lia. congruence.
      + rewrite (line_indent_at _ _ _ _ _ Hl). cbn [bind ret].
        replace (4 <=? ind - Z.of_N (b_blk st))%Z with true by lia.
        apply IH; [lia|lia|]. intros Hi. lia. }
  match goal with |- context [bind ?a _] => match a with (if _ then _ else _) => change a with (scan (S (b_max st)) (S start) (S start)) end end.
  pose proof (HB (total - 1)%nat 1%nat (S (b_max st)) (start + 1)%nat) as HB1.
  replace (start + 1)%nat with (S start) in HB1 by lia.
  rewrite HB1 by lia. cbn [bind ret].
  unfold get_lines. replace (start <=? start + total)%nat with true by (symmetry; apply PeanoNat.Nat.leb_le; lia).
  rewrite <- Hcols.
  destruct (get_lines_verbatim st pre false Hpre texts (start + total - start) start [] [])
    as [mp' Hgl]; [unfold total; lia|exact Htexts|].
  fold total in Hgl. rewrite Hgl. cbn [bind ret fst snd app].
  (* the mapping table is not empty: at least one line was cut *)
  destruct mp' as [|[k0 p0] mp''].
  - exfalso. apply get_lines_map_nonempty in Hgl; [exact (Hgl eq_refl)|lia|lia].
  - unfold pos_end, line_rec.
    destruct Hlast as (TL & HTL & _).
    replace (start + total - 1)%nat with (start + (total - 1))%nat by lia. rewrite (Htexts _ _ HTL). cbn [bind ret].
    eexists. reflexivity.
Qed.

End Indented.

(* ------------------------------------------------------------------ *)
(* 3. code span: the closing run is found, and nothing before it         *)

(* every run of m in s is shorter than n (count_run is the inline rules' name for count_prefix) *)
Fixpoint iruns_lt (m n : N) (s : str) : bool :=
  match s with [] => true | _ :: t => (count_run m s <? n) && iruns_lt m n t end.

Lemma iruns_lt_suffix m n a b : iruns_lt m n (a ++ b) = true -> iruns_lt m n b = true.
Proof.
  induction a as [|x a IH]; intros H; [exact H|].
  cbn [app iruns_lt] in H. apply andb_true_iff in H. destruct H as [_ H]. apply IH; assumption.
Qed.

Lemma count_run_repeat m k rest : match rest with x :: _ => (x =? m) = false | [] => True end ->
  count_run m (repeatN m k ++ rest) = N.of_nat k.
Proof.
  intros Hr. induction k as [|k IH].
  - cbn [repeatN app]. destruct rest as [|x r]; [reflexivity|]. cbn [count_run]. rewrite Hr. reflexivity.
  - cbn [repeatN app count_run]. rewrite N.eqb_refl, IH. lia.
Qed.

(* s = the run at its head, then a byte that is not the marker (or nothing) *)
Lemma count_run_split m s : exists r, s = repeatN m (N.to_nat (count_run m s)) ++ r /\
  match r with x :: _ => (x =? m) = false | [] => True end.
Proof.
  induction s as [|x s (r & Hs & Hr)].
  - exists []. split; [reflexivity|exact I].
  - cbn [count_run]. destruct (x =? m) eqn:E.
    + assert (x = m) by lia. subst x. exists r. split; [|exact Hr].
      replace (N.to_nat (1 + count_run m s)) with (S (N.to_nat (count_run m s))) by lia. cbn [repeatN app]. f_equal. exact Hs.
    + exists (x :: s). split; [reflexivity|exact E].
Qed.

Definition last_not (m : N) (s : str) : Prop := match rev s with x :: _ => (x =? m) = false | [] => True end.

Lemma last_not_suffix m a b : b <> [] -> last_not m (a ++ b) -> last_not m b.
Proof.
  unfold last_not. rewrite rev_app_distr. intros Hb H. destruct (rev b) as [|y rb] eqn:E.
  - exfalso. apply Hb. apply (f_equal (@rev N)) in E. rewrite rev_involutive in E. exact E.
  - exact H.
Qed.

(* a run inside s cannot merge with what follows s when s does not end with the marker *)
Lemma count_run_app m s r : s <> [] -> last_not m s -> count_run m (s ++ r) = count_run m s /\ count_run m s < len s.
Proof.
  induction s as [|x s IH]; intros Hne Hl; [congruence|].
  cbn [app count_run]. destruct (x =? m) eqn:E.
  - destruct s as [|y s'].
    + exfalso. unfold last_not in Hl. cbn in Hl. congruence.
    + destruct IH as [IH1 IH2]; [discriminate|apply (last_not_suffix m [x]); [discriminate|exact Hl]|].
      rewrite IH1. split; [reflexivity|]. unfold len in *. cbn [length] in *. lia.
  - split; [reflexivity|]. unfold len. cbn [length]. lia.
Qed.

Fixpoint no_byte (m : N) (s : str) : bool := match s with [] => true | x :: t => negb (x =? m) && no_byte m t end.

Lemma find_byte_none m s r i : no_byte m s = true -> find_byte m (s ++ m :: r) i = Some (i + len s).
Proof.
  revert i. induction s as [|x s IH]; intros i H.
  - cbn [app find_byte]. rewrite N.eqb_refl. f_equal. unfold len. cbn. lia.
  - cbn [no_byte] in H. apply andb_true_iff in H. destruct H as [Hx Hs]. cbn [app find_byte].
    destruct (x =? m); [discriminate|]. rewrite IH by exact Hs. f_equal. unfold len. cbn [length]. lia.
Qed.

Lemma find_byte_none_rep m s j r i : no_byte m s = true -> (1 <= j)%nat ->
  find_byte m (s ++ repeatN m j ++ r) i = Some (i + len s).
Proof. intros H Hj. destruct j as [|j]; [lia|]. cbn [repeatN app]. apply find_byte_none. exact H. Qed.

Lemma byte_split m s : no_byte m s = true \/ exists a b, s = a ++ m :: b /\ no_byte m a = true.
Proof.
  induction s as [|x s IH]; [left; reflexivity|].
  destruct (x =? m) eqn:E.
  - right. exists [], s. split; [cbn [app]; f_equal; lia|reflexivity].
  - destruct IH as [IH|(a & b & -> & Ha)].
    + left. cbn [no_byte]. rewrite E, IH. reflexivity.
    + right. exists (x :: a), b. split; [reflexivity|]. cbn [no_byte]. rewrite E, Ha. reflexivity.
Qed.

(* UTF-8: no continuation byte follows a marker byte (true of every valid UTF-8 string, the marker being ASCII) *)
Fixpoint no_cont_after (m : N) (s : str) : bool :=
  match s with
  | x :: t => (match t with y :: _ => negb (x =? m) || negb (is_cont y) | [] => true end) && no_cont_after m t
  | [] => true
  end.

Lemma no_cont_after_suffix m a b : no_cont_after m (a ++ b) = true -> no_cont_after m b = true.
Proof.
  induction a as [|x a IH]; intros H; [exact H|].
  cbn [app no_cont_after] in H. apply andb_true_iff in H. destruct H as [_ H]. apply IH; exact H.
Qed.

Lemma no_cont_after_head m y t : no_cont_after m (m :: y :: t) = true -> is_cont y = false.
Proof. cbn [no_cont_after]. rewrite N.eqb_refl. cbn [negb orb]. intros H. apply andb_true_iff in H. destruct H as [H _]. destruct (is_cont y); [discriminate|reflexivity]. Qed.

Definition starts_clean (s : str) : Prop := match s with y :: _ => is_cont y = false | [] => True end.

(* &s[a..b] for a decomposition of s *)
Lemma slice_mid (a b c : str) : starts_clean (b ++ c) -> starts_clean c ->
  slice (a ++ b ++ c) (len a) (len a + len b) = inr b.
Proof.
  intros Hb Hc. unfold slice.
  assert (B1 : is_boundary (a ++ b ++ c) (len a) = true).
  { unfold is_boundary. destruct (len a =? 0); [reflexivity|]. rewrite dropN_len_app.
    destruct (b ++ c) as [|y t] eqn:E; [|cbn in Hb; rewrite Hb; reflexivity].
    apply app_eq_nil in E. destruct E as [-> ->]. rewrite !app_nil_r. lia. }
  assert (B2 : is_boundary (a ++ b ++ c) (len a + len b) = true).
  { unfold is_boundary. destruct (len a + len b =? 0); [reflexivity|].
    rewrite app_assoc. rewrite <- len_app. rewrite dropN_len_app.
    destruct c as [|y t]; [rewrite app_nil_r; lia|cbn in Hc; rewrite Hc; reflexivity]. }
  rewrite B1, B2. rewrite !len_app.
  replace ((len a <=? len a + len b) && (len a + len b <=? len a + (len b + len c))) with true by lia. cbn [andb].
  unfold sub. rewrite dropN_len_app. replace (len a + len b - len a) with (len b) by lia. rewrite takeN_len_app. reflexivity.
Qed.

Lemma length_repeatN m j : length (repeatN m j) = j.
Proof. induction j as [|j IH]; [reflexivity|cbn; f_equal; exact IH]. Qed.

Lemma repeatN_head m j : (1 <= j)%nat -> repeatN m j = m :: repeatN m (j - 1).
Proof. destruct j as [|j]; [lia|]. intros _. cbn. replace (j - 0)%nat with j by lia. reflexivity. Qed.

Lemma strip_len (c : str) :
  match c with 32 :: l => match rev (32 :: l) with 32 :: _ => 2 <? len c | _ => false end | _ => false end = true -> 2 < len c.
Proof. intros H. hinv H. lia. Qed.

Section Span.
Variable st : istate.
Variables (m : N) (k : nat) (before T tail after : str).

Let K := N.of_nat k.
Let pos := i_pos st.
Let closer := repeatN m k.

Hypothesis Hm : m < 128.
Hypothesis Hk : (1 <= k)%nat.
(* the text being parsed: ... opener payload closer tail | (after: beyond pos_max) *)
Hypothesis Hsrc : i_src st = before ++ (closer ++ T ++ closer ++ tail) ++ after.
Hypothesis Hpos : i_pos st = len before.
Hypothesis Hmax : i_max st = len before + len (closer ++ T ++ closer ++ tail).
Hypothesis Hafter : starts_clean after.
Hypothesis Htailc : starts_clean (tail ++ after).
(* the payload: not empty, neither starts nor ends with the marker, every run of the marker shorter than k *)
Hypothesis HT0 : match T with x :: _ => (x =? m) = false | [] => False end.
Hypothesis HTl : last_not m T.
Hypothesis Hruns : iruns_lt m K T = true.
Hypothesis Hutf : starts_clean T /\ no_cont_after m T = true.
(* what follows the closer is not the marker; the text before the opener does not end with it *)
Hypothesis Htail : match tail with x :: _ => (x =? m) = false | [] => True end.
Hypothesis Htrail : match rev (trailing_text_get st) with x :: _ => (x =? m) = false | [] => True end.
(* the closer cache does not claim that no closer of this length follows *)
Hypothesis Hcache : (fst (get_bt st m) && (nth (N.to_nat K) (snd (get_bt st m)) 0 <=? pos)) = false.
(* the mapping table starts at offset 0 (true of every inline root) *)
Hypothesis Hmap : exists p0 t, i_map st = (0, p0) :: t.

Lemma m_not_cont : is_cont m = false.
Proof. clear - Hm. unfold is_cont. lia. Qed.

Lemma closer_clean r : starts_clean (closer ++ r).
Proof. unfold closer. destruct k as [|k']; [lia|]. cbn. exact m_not_cont. Qed.

Lemma len_closer : len closer = K.
Proof. unfold closer, K, len. f_equal. apply length_repeatN. Qed.

(* src[x..pos_max] for x inside the region *)
Lemma isl_from (u v : str) : closer ++ T ++ closer ++ tail = u ++ v -> starts_clean (v ++ after) ->
  isl st (pos + len u) (i_max st) = inr v.
Proof.
  intros E Hv. unfold isl. rewrite Hsrc, Hmax, E. unfold pos. rewrite Hpos.
  replace (before ++ (u ++ v) ++ after) with ((before ++ u) ++ v ++ after) by (rewrite <- !app_assoc; reflexivity).
  rewrite <- len_app. replace (len before + len (u ++ v)) with (len (before ++ u) + len v) by (rewrite !len_app; lia).
  apply slice_mid; assumption.
Qed.

Lemma source_pos_ok p : exists q, source_pos_for st p = inr q.
Proof.
  destruct Hmap as (p0 & t & E). unfold source_pos_for. rewrite E. cbn [last_entry fst].
  replace (0 <=? p) with true by lia.
  assert (H : forall l cur, exists e, last_entry l p (Some cur) = Some e).
  { induction l as [|e l IH]; intros cur; cbn [last_entry]; [eexists; reflexivity|]. destruct (fst e <=? p); [apply IH|eexists; reflexivity]. }
  destruct (H t (0, p0)) as [[k0 q0] ->]. eexists. reflexivity.
Qed.

Lemma iget_map_ok a b : a <= b -> exists r, iget_map st a b = inr r.
Proof.
  intros H. unfold iget_map. replace (a <=? b) with true by lia.
  destruct (source_pos_ok a) as [x ->]. destruct (source_pos_ok b) as [y ->]. eexists. reflexivity.
Qed.

(* the scan from any point of the payload reaches the closer *)
Lemma scan_finds : forall fuel b a maxv, T = a ++ b -> (length b < fuel)%nat -> starts_clean (b ++ closer) ->
  exists mv, code_scan fuel st m K (pos + K + len a) maxv = inr (Some (pos + K + len T, pos + K + len T + K), mv).
Proof.
  induction fuel as [|fuel IH]; intros b a maxv ET Hf Hb; [lia|].
  cbn [code_scan].
  assert (Hisl : isl st (pos + K + len a) (i_max st) = inr (b ++ closer ++ tail)).
  { replace (pos + K + len a) with (pos + len (closer ++ a)) by (rewrite len_app, len_closer; lia).
    apply isl_from; [rewrite ET, <- !app_assoc; reflexivity|].
    destruct b as [|y b']; [cbn [app]; rewrite <- app_assoc; apply closer_clean|exact Hb]. }
  rewrite Hisl. cbn [bind ret].
  assert (Hruns_b : iruns_lt m K b = true) by (apply (iruns_lt_suffix m K a); rewrite <- ET; exact Hruns).
  destruct (byte_split m b) as [Hnone|(b1 & b2 & Eb & Hb1)].
  - (* no marker left in the payload: the next run is the closer *)
    unfold closer at 1. rewrite find_byte_none_rep by (try exact Hnone; exact Hk). fold closer.
    replace (0 + len b) with (len b) by lia. rewrite dropN_len_app.
    unfold closer. rewrite count_run_repeat by exact Htail. fold K. rewrite N.eqb_refl.
    exists maxv. unfold ret. rewrite ET, len_app. replace (pos + K + (len a + len b)) with (pos + K + len a + len b) by lia. reflexivity.
  - (* a run inside the payload: shorter than the opener, skipped *)
    rewrite Eb, <- app_assoc. cbn [app]. rewrite find_byte_none by exact Hb1.
    replace (0 + len b1) with (len b1) by lia.
    replace (b1 ++ m :: b2 ++ closer ++ tail) with (b1 ++ (m :: b2) ++ closer ++ tail) by reflexivity.
    rewrite dropN_len_app.
    assert (Hl2 : last_not m (m :: b2)).
    { apply (last_not_suffix m (a ++ b1)); [discriminate|]. rewrite <- app_assoc. cbn [app]. rewrite <- Eb, <- ET. exact HTl. }
    destruct (count_run_app m (m :: b2) (closer ++ tail)) as [Hr1 Hr2]; [discriminate|exact Hl2|].
    rewrite Hr1.
    assert (Hlt : count_run m (m :: b2) < K).
    { rewrite Eb in Hruns_b. apply (iruns_lt_suffix m K b1) in Hruns_b.
      cbn [iruns_lt] in Hruns_b. apply andb_true_iff in Hruns_b. destruct Hruns_b as [H _]. lia. }
    replace (count_run m (m :: b2) =? K) with false by lia.
    destruct (count_run_split m (m :: b2)) as (r & Er & Hr0).
    set (run := count_run m (m :: b2)) in *.
    assert (Hrun1 : 1 <= run) by (unfold run; cbn [count_run]; rewrite N.eqb_refl; lia).
    (* the rest of the payload after the run *)
    assert (Hrne : r <> []).
    { intros ->. rewrite app_nil_r in Er. apply (f_equal len) in Er. unfold len in Er at 2.
      pose proof (length_repeatN m (N.to_nat run)). lia. }
    assert (Hlenrun : len (repeatN m (N.to_nat run)) = run).
    { unfold len. pose proof (length_repeatN m (N.to_nat run)). lia. }
    destruct (IH r (a ++ b1 ++ repeatN m (N.to_nat run))
                (setN (extend_to maxv (S (N.to_nat run))) (N.to_nat run) (pos + K + len a + len b1))) as [mv Hmv].
    + rewrite ET, Eb, Er, <- !app_assoc. reflexivity.
    + pose proof (f_equal (@length N) Er) as El. rewrite app_length, length_repeatN in El. rewrite Eb, app_length in Hf. lia.
    + (* the byte after a run is not a continuation byte *)
      destruct r as [|y r']; [congruence|]. cbn [app starts_clean].
      destruct Hutf as [_ Hnc]. rewrite ET, Eb in Hnc.
      destruct (N.to_nat run) as [|j] eqn:Ej; [lia|].
      assert (Hshape : a ++ b1 ++ m :: b2 = (a ++ b1 ++ repeatN m j) ++ m :: y :: r').
      { rewrite Er. rewrite <- !app_assoc. f_equal. f_equal. clear. induction j as [|j IHj]; [reflexivity|]. cbn [repeatN app]. f_equal. exact IHj. }
      rewrite Hshape in Hnc. apply no_cont_after_suffix in Hnc. apply (no_cont_after_head m y r'). exact Hnc.
    + exists mv. rewrite <- Hmv. f_equal. rewrite !len_app, Hlenrun. lia.
Qed.

Theorem code_span_verbatim :
  exists mv rng rng2,
  rule_code_pair st m false =
    inr (ipush (set_bt st m (fst (get_bt st m), mv))
           (mk (KCodeInline m K) rng [mk (KText (span_text T)) rng2 []]), Some (K + len T + K)).
Proof.
  unfold rule_code_pair. unfold irest.
  assert (Hrest : isl st (i_pos st) (i_max st) = inr (closer ++ T ++ closer ++ tail)).
  { replace (i_pos st) with (pos + len (@nil N)) by (unfold pos, len; cbn; lia).
    apply isl_from; [reflexivity|]. rewrite <- app_assoc. apply closer_clean. }
  rewrite Hrest. cbn [bind ret].
  assert (HT0' : match T ++ closer ++ tail with x :: _ => (x =? m) = false | [] => True end).
  { destruct T as [|x T']; [contradiction|exact HT0]. }
  pose proof (count_run_repeat m k (T ++ closer ++ tail) HT0') as Hcr. fold closer in Hcr. fold K in Hcr.
  pose proof (repeatN_head m k Hk) as Hcl. fold closer in Hcl.
  assert (Erest : closer ++ T ++ closer ++ tail = m :: (repeatN m (k - 1) ++ T ++ closer ++ tail)).
  { rewrite Hcl at 1. reflexivity. }
  rewrite Erest.
  rewrite N.eqb_refl. cbn [negb].
  destruct (match rev (trailing_text_get st) with x :: _ => x =? m | [] => false end) eqn:Etr.
  { destruct (rev (trailing_text_get st)); [discriminate|congruence]. }
  rewrite <- Erest, Hcr.
  rewrite (surjective_pairing (get_bt st m)). fold pos. rewrite Hcache.
  set (scanned := fst (get_bt st m)). set (maxv := snd (get_bt st m)).
  destruct (scan_finds (S (length (closer ++ T ++ closer ++ tail))) T [] maxv) as [mv Hscan].
  - reflexivity.
  - rewrite !app_length. lia.
  - destruct Hutf as [Hc _]. destruct T as [|x T']; [contradiction|exact Hc].
  - replace (pos + K + len (@nil N)) with (pos + K) in Hscan by (unfold len; cbn; lia).
    rewrite Hscan. cbn [bind ret fst snd].
    assert (Hraw : isl st (pos + K) (pos + K + len T) = inr T).
    { unfold isl. rewrite Hsrc. unfold pos. rewrite Hpos.
      replace (before ++ (closer ++ T ++ closer ++ tail) ++ after) with ((before ++ closer) ++ T ++ (closer ++ tail ++ after))
        by (rewrite <- !app_assoc; reflexivity).
      replace (len before + K) with (len (before ++ closer)) by (rewrite len_app, len_closer; reflexivity).
      apply slice_mid; [|apply closer_clean]. destruct Hutf as [Hc _]. destruct T as [|x T']; [contradiction|exact Hc]. }
    rewrite Hraw. cbn [bind ret].
    destruct (iget_map_ok pos (pos + K + len T + K)) as [rng Hrng]; [lia|]. rewrite Hrng. cbn [bind ret].
    unfold span_text. cbv zeta.
    assert (Hlm : len (map (fun b : N => if b =? 10 then 32 else b) T) = len T) by (unfold len; rewrite map_length; reflexivity).
    remember (match map (fun b : N => if b =? 10 then 32 else b) T with
              | 32 :: l => match rev (32 :: l) with 32 :: _ => 2 <? len (map (fun b : N => if b =? 10 then 32 else b) T) | _ => false end
              | _ => false end) as strip eqn:Es.
    destruct strip.
    + symmetry in Es. apply strip_len in Es. rewrite Hlm in Es.
      destruct (iget_map_ok (pos + K + 1) (pos + K + len T - 1)) as [mi Hmi]; [lia|]. rewrite Hmi. cbn [bind ret].
      exists mv, rng, mi. replace (pos + K + len T + K - pos) with (K + len T + K) by lia. reflexivity.
    + destruct (iget_map_ok (pos + K) (pos + K + len T)) as [mi Hmi]; [lia|]. rewrite Hmi. cbn [bind ret].
      exists mv, rng, mi. replace (pos + K + len T + K - pos) with (K + len T + K) by lia. reflexivity.
Qed.

End Span.
