(* Proofs about emph_pair::fragments_join / FragmentsJoin as modelled in model/Core.v (property C14) *)
From MdIt Require Import Prims Tree Core TreeProofs.
From Coq Require Import Lia.
Local Open Scope list_scope.
Local Open Scope N_scope.

Definition is_marker (n : node) : bool := match n_kind n with KEmphMarker _ _ _ _ _ => true | _ => false end.
Definition content_of (n : node) : str := match n_kind n with KText c => c | _ => [] end.

(* no two adjacent Text siblings *)
Fixpoint ok_from (prev_text : bool) (l : list node) : bool :=
  match l with
  | [] => true
  | x :: t => if is_text x then negb prev_text && ok_from true t else ok_from false t
  end.
Definition no_adjacent_text (l : list node) : bool := ok_from false l.

Lemma kind_set_kind n k : n_kind (set_kind n k) = k.
Proof. destruct n; reflexivity. Qed.
Lemma kind_set_map n m : n_kind (set_map n m) = n_kind n.
Proof. destruct n; reflexivity. Qed.
Lemma children_set_kind n k : n_children (set_kind n k) = n_children n.
Proof. destruct n; reflexivity. Qed.
Lemma children_set_map n m : n_children (set_map n m) = n_children n.
Proof. destruct n; reflexivity. Qed.

Lemma marker_to_text_not_marker x : is_marker (marker_to_text x) = false.
Proof.
  unfold marker_to_text, is_marker. destruct (n_kind x) eqn:E; try (rewrite E; reflexivity).
  rewrite kind_set_kind. reflexivity.
Qed.

Lemma merge_text_kind a x : is_text a = true -> is_text x = true ->
  is_text (merge_text a x) = true /\ content_of (merge_text a x) = content_of a ++ content_of x /\
  n_children (merge_text a x) = n_children a.
Proof.
  unfold is_text, merge_text, content_of. destruct (n_kind a) eqn:Ea; try discriminate.
  destruct (n_kind x) eqn:Ex; try discriminate. intros _ _.
  rewrite kind_set_map, kind_set_kind, children_set_map, children_set_kind. repeat split.
Qed.

Lemma is_text_not_marker a : is_text a = true -> is_marker a = false.
Proof. unfold is_text, is_marker. destruct (n_kind a); try discriminate; reflexivity. Qed.

Definition flush (acc : option node) : list node :=
  match acc with Some a => if text_nonempty a then [a] else [] | None => [] end.

Lemma fj_cons acc x t :
  fj_collapse acc (x :: t) =
  if is_text x then fj_collapse (Some (match acc with Some a => merge_text a x | None => x end)) t
  else flush acc ++ x :: fj_collapse None t.
Proof. reflexivity. Qed.
Lemma fj_nil acc : fj_collapse acc [] = flush acc.
Proof. destruct acc; reflexivity. Qed.

Definition acc_text (acc : option node) : Prop := match acc with Some a => is_text a = true | None => True end.

Lemma acc_step acc x : acc_text acc -> is_text x = true ->
  acc_text (Some (match acc with Some a => merge_text a x | None => x end)).
Proof. destruct acc as [a|]; cbn; intros Ha Hx; [apply (merge_text_kind a x Ha Hx)|exact Hx]. Qed.

(* every output node satisfies P if the inputs do and P is stable under merging *)
Lemma fj_forall (P : node -> Prop) l :
  (forall a x, P a -> P x -> is_text a = true -> is_text x = true -> P (merge_text a x)) ->
  forall acc, acc_text acc -> (forall a, acc = Some a -> P a) -> Forall P l -> Forall P (fj_collapse acc l).
Proof.
  intros Hm. induction l as [|x t IH]; intros acc Ha Hacc Hl.
  - rewrite fj_nil. destruct acc as [a|]; cbn [flush]; [|constructor].
    destruct (text_nonempty a); [constructor; [apply Hacc; reflexivity|constructor]|constructor].
  - inversion Hl as [|? ? Hx Ht]; subst. rewrite fj_cons. destruct (is_text x) eqn:Ex.
    + apply IH; [apply acc_step; assumption| |exact Ht].
      intros a' [= <-]. destruct acc as [a|]; [apply Hm; auto|exact Hx].
    + apply Forall_app. split.
      * destruct acc as [a|]; cbn [flush]; [|constructor].
        destruct (text_nonempty a); [constructor; [apply Hacc; reflexivity|constructor]|constructor].
      * constructor; [exact Hx|]. apply IH; [exact I|discriminate|exact Ht].
Qed.

(* 1. no delimiter placeholder survives *)
Theorem fj_no_marker cs :
  forallb (fun n => negb (is_marker n)) (n_children (fragments_join (Node KRoot None [] [] cs))) = true.
Proof.
  cbn [fragments_join n_children set_children]. apply forallb_forall. apply Forall_forall.
  apply (fj_forall (fun n => negb (is_marker n) = true)).
  - intros a x _ _ Ha Hx. destruct (merge_text_kind a x Ha Hx) as (Ht & _). rewrite (is_text_not_marker _ Ht). reflexivity.
  - exact I.
  - discriminate.
  - apply Forall_forall. intros n Hn. apply in_map_iff in Hn. destruct Hn as (x & <- & _).
    rewrite marker_to_text_not_marker. reflexivity.
Qed.

(* 2. no empty Text node *)
Lemma fj_nonempty l : forall acc, forallb text_nonempty (fj_collapse acc l) = true.
Proof.
  induction l as [|x t IH]; intros acc.
  - rewrite fj_nil. destruct acc as [a|]; cbn [flush]; [|reflexivity].
    destruct (text_nonempty a) eqn:E; [cbn; rewrite E; reflexivity|reflexivity].
  - rewrite fj_cons. destruct (is_text x) eqn:Ex; [apply IH|].
    rewrite forallb_app. cbn [forallb]. rewrite IH, andb_true_r.
    assert (Hx : text_nonempty x = true).
    { unfold is_text in Ex. unfold text_nonempty. destruct (n_kind x); try reflexivity; discriminate. }
    rewrite Hx, andb_true_r.
    destruct acc as [a|]; cbn [flush]; [|reflexivity].
    destruct (text_nonempty a) eqn:E; [cbn; rewrite E; reflexivity|reflexivity].
Qed.

(* 3. no two adjacent Text siblings *)
Lemma fj_no_adjacent l : forall acc, no_adjacent_text (fj_collapse acc l) = true.
Proof.
  unfold no_adjacent_text. induction l as [|x t IH]; intros acc.
  - rewrite fj_nil. destruct acc as [a|]; cbn [flush]; [|reflexivity].
    destruct (text_nonempty a); [cbn [ok_from]; destruct (is_text a); reflexivity|reflexivity].
  - rewrite fj_cons. destruct (is_text x) eqn:Ex; [apply IH|].
    assert (G : forall pre, (length pre <= 1)%nat -> ok_from false (pre ++ x :: fj_collapse None t) = true).
    { intros pre Hp. destruct pre as [|a [|b r]]; cbn [app ok_from].
      - rewrite Ex. apply IH.
      - destruct (is_text a); cbn [negb andb]; rewrite Ex; apply IH.
      - cbn in Hp. lia. }
    apply G. destruct acc as [a|]; cbn [flush]; [destruct (text_nonempty a)|]; cbn; lia.
Qed.

(* 4. nothing but text is touched: the other nodes stay, in order, and the text is preserved *)
Lemma fj_others l : forall acc, acc_text acc ->
  filter (fun n => negb (is_text n)) (fj_collapse acc l) = filter (fun n => negb (is_text n)) l.
Proof.
  induction l as [|x t IH]; intros acc Ha.
  - rewrite fj_nil. destruct acc as [a|]; cbn [flush]; [|reflexivity].
    destruct (text_nonempty a); [cbn [filter]; cbn in Ha; rewrite Ha; reflexivity|reflexivity].
  - rewrite fj_cons. cbn [filter]. destruct (is_text x) eqn:Ex; cbn [negb].
    + apply IH. apply acc_step; assumption.
    + rewrite filter_app. cbn [filter]. rewrite Ex. cbn [negb]. rewrite (IH None I).
      destruct acc as [a|]; cbn [flush]; [|reflexivity].
      destruct (text_nonempty a); [cbn [filter]; cbn in Ha; rewrite Ha; reflexivity|reflexivity].
Qed.

Lemma content_nonempty_flush acc : acc_text acc ->
  flat_map content_of (flush acc) = match acc with Some a => content_of a | None => [] end.
Proof.
  destruct acc as [a|]; cbn [flush]; [|reflexivity]. intros Ha.
  unfold text_nonempty, content_of. cbn in Ha. unfold is_text in Ha.
  destruct (n_kind a) eqn:E; try discriminate. destruct content; cbn [flat_map]; unfold content_of; rewrite ?E, ?app_nil_r; reflexivity.
Qed.

Lemma fj_text l : forall acc, acc_text acc ->
  flat_map content_of (fj_collapse acc l) =
  (match acc with Some a => content_of a | None => [] end) ++ flat_map content_of l.
Proof.
  induction l as [|x t IH]; intros acc Ha.
  - rewrite fj_nil, content_nonempty_flush by exact Ha. cbn [flat_map]. rewrite app_nil_r. reflexivity.
  - rewrite fj_cons. cbn [flat_map]. destruct (is_text x) eqn:Ex.
    + rewrite IH by (apply acc_step; assumption). destruct acc as [a|].
      * cbn in Ha. destruct (merge_text_kind a x Ha Ex) as (_ & -> & _). rewrite <- app_assoc. reflexivity.
      * reflexivity.
    + rewrite flat_map_app, content_nonempty_flush by exact Ha. cbn [flat_map]. rewrite (IH None I). reflexivity.
Qed.

(* the whole-tree rule: after FragmentsJoin every node's child list has the three properties *)
Fixpoint frag_ok (n : node) : bool :=
  let 'Node _ _ _ _ cs := n in
  forallb (fun c => negb (is_marker c)) cs && forallb text_nonempty cs && no_adjacent_text cs && forallb frag_ok cs.

Lemma frag_ok_children_only a b : n_children a = n_children b -> frag_ok a = frag_ok b.
Proof. destruct a, b. cbn. intros ->. reflexivity. Qed.

Theorem fj_walk_ok n : frag_ok (fj_walk n) = true.
Proof.
  induction n as [k m a e cs IH] using node_ind'.
  cbn [fj_walk]. set (cs' := map fj_walk cs).
  assert (Hcs' : Forall (fun c => frag_ok c = true) cs').
  { apply Forall_forall. intros c Hc. apply in_map_iff in Hc. destruct Hc as (x & <- & Hx).
    rewrite Forall_forall in IH. apply IH. exact Hx. }
  unfold fragments_join. cbn [n_children set_children frag_ok].
  rewrite !andb_true_iff. repeat split.
  - apply forallb_forall. apply Forall_forall.
    apply (fj_forall (fun n => negb (is_marker n) = true)).
    + intros a0 x _ _ Ha Hx. destruct (merge_text_kind a0 x Ha Hx) as (Ht & _). rewrite (is_text_not_marker _ Ht). reflexivity.
    + exact I.
    + discriminate.
    + apply Forall_forall. intros n Hn. apply in_map_iff in Hn. destruct Hn as (x & <- & _).
      rewrite marker_to_text_not_marker. reflexivity.
  - apply fj_nonempty.
  - apply fj_no_adjacent.
  - apply forallb_forall. apply Forall_forall.
    apply (fj_forall (fun n => frag_ok n = true)).
    + intros a0 x Ha0 _ Ha Hx. destruct (merge_text_kind a0 x Ha Hx) as (_ & _ & Hc).
      rewrite (frag_ok_children_only _ a0 Hc). exact Ha0.
    + exact I.
    + discriminate.
    + apply Forall_forall. intros n Hn. apply in_map_iff in Hn. destruct Hn as (x & <- & Hx).
      rewrite Forall_forall in Hcs'. specialize (Hcs' x Hx).
      unfold marker_to_text. destruct (n_kind x); try exact Hcs'.
      rewrite (frag_ok_children_only _ x (children_set_kind _ _)). exact Hcs'.
Qed.
