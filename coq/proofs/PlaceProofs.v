(* Where nodes may stand (property C14): list items only under lists and lists hold only items, block nodes only under
   containers, inline nodes only under leaf blocks, items and inline containers, leaf kinds childless.
   Part 1 (this file, sections 1-2): the block parser, for every chain of block rules.
   Part 2 (section 3): composition with the inline parser (InlKindProofs, InlArityProofs) over the core chain. *)
From Coq Require Import String.
From MdIt Require Import Prims Tables Escape NormRef Indent Mdurl SourceMap Ruler LinkParse Tree Render Block Inline Core.
From MdIt Require Import TreeProofs BlockProofs InlineProofs LookaheadProofs.
From MdIt Require InlKindProofs InlArityProofs KindProofs.
From Coq Require Import Lia ZifyBool ZifyN ZifyNat.
Local Open Scope list_scope.
Local Open Scope N_scope.

Arguments N.eqb : simpl never.
Arguments N.leb : simpl never.
Arguments N.ltb : simpl never.
Arguments N.add : simpl never.
Arguments N.sub : simpl never.

(* ------------------------------------------------------------------ *)
(* 1. the placement relation                                            *)

Definition is_blk (k : kind) : bool :=
  match k with
  | KParagraph | KATX _ | KSetext _ _ | KHr _ _ | KCodeBlock _ | KFence _ _ _ _ _ | KBlockquote | KBullet _ | KOrdered _ _
  | KHtmlBlock _ | KCustomBlock | KCustomCore _ => true
  | _ => false
  end.
Definition is_inl (k : kind) : bool := InlKindProofs.kind_ok k.
(* inline position: an inline node, or (before the inline pass) the placeholder it will be spliced into *)
Definition is_inl_ph (k : kind) : bool := is_inl k || match k with KInlineRoot _ _ => true | _ => false end.

Definition may (p c : kind) : bool :=
  match p with
  | KRoot | KBlockquote => is_blk c
  | KItem => is_blk c || is_inl_ph c
  | KBullet _ | KOrdered _ _ => match c with KItem => true | _ => false end
  | KParagraph | KATX _ | KSetext _ _ => is_inl_ph c
  | KEm _ | KStrong _ | KStrike _ | KLink _ _ | KImage _ _ | KCustomPair _ => is_inl_ph c
  | KCodeInline _ _ | KAutolink _ => match c with KText _ => true | _ => false end
  | _ => false
  end.

Fixpoint placed (n : node) : bool :=
  let 'Node k _ _ _ cs := n in forallb (fun c => may k (n_kind c) && placed c) cs.

Lemma placed_node k m a e cs : placed (Node k m a e cs) = forallb (fun c => may k (n_kind c) && placed c) cs.
Proof. reflexivity. Qed.
Lemma placed_split n : placed n = forallb (fun c => may (n_kind n) (n_kind c) && placed c) (n_children n).
Proof. destruct n; reflexivity. Qed.
Lemma placed_set_map n m : placed (set_map n m) = placed n.
Proof. destruct n; reflexivity. Qed.

(* a block in block position *)
Definition cok (c : node) : bool := is_blk (n_kind c) && placed c.
Definition cokl (cs : list node) : bool := forallb cok cs.

Lemma cokl_app a b : cokl (a ++ b) = cokl a && cokl b.
Proof. apply forallb_app. Qed.

(* the node a tokenizer works in: its children are blocks in block position; its own kind never changes *)
Definition nst (n n' : node) : Prop := cokl (n_children n') = true /\ n_kind n' = n_kind n.
Definition bst (st st' : bstate) : Prop := nst (b_node st) (b_node st').

Lemma nst_refl n : cokl (n_children n) = true -> nst n n.
Proof. split; [assumption|reflexivity]. Qed.
Lemma nst_push n c : cokl (n_children n) = true -> cok c = true -> nst n (push_child n c).
Proof.
  intros Hn Hc. destruct n as [k m a e cs]. split; [|reflexivity]. cbn [push_child n_children set_children] in *.
  rewrite cokl_app, Hn. cbn [cokl forallb]. rewrite Hc. reflexivity.
Qed.
Lemma nst_trans a b c : nst a b -> nst b c -> nst a c.
Proof. unfold nst. intuition congruence. Qed.

Lemma forallb_ext' {A} (f g : A -> bool) l : (forall x, f x = g x) -> forallb f l = forallb g l.
Proof. intros H. induction l as [|x t IH]; [reflexivity|]. cbn [forallb]. rewrite H, IH. reflexivity. Qed.

(* a container's children are blocks in block position *)
Lemma placed_container n : (forall c, may (n_kind n) c = is_blk c) -> placed n = cokl (n_children n).
Proof.
  intros H. rewrite placed_split. unfold cokl, cok. apply forallb_ext'. intros c. rewrite H. reflexivity.
Qed.

Lemma item_placed cs : cokl cs = true -> forallb (fun c => may KItem (n_kind c) && placed c) cs = true.
Proof.
  unfold cokl, cok. rewrite !forallb_forall. intros H c Hc. specialize (H c Hc). apply andb_true_iff in H. destruct H as [H1 H2].
  cbn [may]. rewrite H1, H2. reflexivity.
Qed.

Lemma item_placed_tight cs : cokl cs = true -> forallb (fun c => may KItem (n_kind c) && placed c) (mark_tight cs) = true.
Proof.
  unfold mark_tight. induction cs as [|c t IH]; [reflexivity|]. cbn [cokl forallb flat_map]. intros H. apply andb_true_iff in H. destruct H as [Hc Ht].
  rewrite forallb_app, (IH Ht), andb_true_r. unfold cok in Hc. apply andb_true_iff in Hc. destruct Hc as [Hb Hp].
  destruct (n_kind c) eqn:Ek; try (cbn [forallb]; rewrite Ek, Hp; cbn [may]; rewrite ?Hb; cbn; try reflexivity; discriminate Hb).
  (* a paragraph: its children take its place *)
  rewrite placed_split, Ek in Hp. rewrite forallb_forall in *. intros x Hx. specialize (Hp x Hx). apply andb_true_iff in Hp. destruct Hp as [P1 P2].
  cbn [may] in *. rewrite P1, P2, orb_true_r. reflexivity.
Qed.

(* ------------------------------------------------------------------ *)
(* 2. the block rules                                                   *)

Section BlockEngine.
Variable cfg : bcfg.
Variable T : bstate -> res bstate.
Hypothesis T_ok : forall st st', cokl (n_children (b_node st)) = true -> T st = inr st' -> bst st st'.

Ltac fin Hs := unfold bst; cbn [b_node set_line set_refs set_node push_node set_tight set_level];
  first [ apply nst_refl; exact Hs | apply nst_push; [exact Hs|reflexivity] ].
Ltac rule_ok Hs H := hinv H; injection H as <- _; fin Hs.

Lemma rule_code_ok st st' b : cokl (n_children (b_node st)) = true -> rule_code st = inr (st', b) -> bst st st'.
Proof. intros Hs H. unfold rule_code in H. rule_ok Hs H. Qed.
Lemma rule_fence_ok st st' b : cokl (n_children (b_node st)) = true -> rule_fence cfg st = inr (st', b) -> bst st st'.
Proof. intros Hs H. unfold rule_fence in H. rule_ok Hs H. Qed.
Lemma rule_hr_ok st st' b : cokl (n_children (b_node st)) = true -> rule_hr st = inr (st', b) -> bst st st'.
Proof. intros Hs H. unfold rule_hr in H. rule_ok Hs H. Qed.
Lemma rule_reference_ok st st' b : cokl (n_children (b_node st)) = true -> rule_reference cfg st = inr (st', b) -> bst st st'.
Proof. intros Hs H. unfold rule_reference in H. rule_ok Hs H. Qed.
Lemma rule_heading_ok st st' b : cokl (n_children (b_node st)) = true -> rule_heading st = inr (st', b) -> bst st st'.
Proof. intros Hs H. unfold rule_heading in H. rule_ok Hs H. Qed.
Lemma rule_lheading_ok st st' b : cokl (n_children (b_node st)) = true -> rule_lheading cfg st = inr (st', b) -> bst st st'.
Proof. intros Hs H. unfold rule_lheading in H. rule_ok Hs H. Qed.
Lemma rule_paragraph_ok st st' b : cokl (n_children (b_node st)) = true -> rule_paragraph cfg st = inr (st', b) -> bst st st'.
Proof. intros Hs H. unfold rule_paragraph in H. rule_ok Hs H. Qed.
Lemma rule_custom_ok st st' b : cokl (n_children (b_node st)) = true -> rule_custom st = inr (st', b) -> bst st st'.
Proof. intros Hs H. unfold rule_custom in H. rule_ok Hs H. Qed.
Lemma rule_html_block_ok st st' b : cokl (n_children (b_node st)) = true -> rule_html_block st = inr (st', b) -> bst st st'.
Proof. intros Hs H. unfold rule_html_block in H. rule_ok Hs H. Qed.

Lemma rule_quote_ok st st' b : cokl (n_children (b_node st)) = true -> rule_quote cfg T st = inr (st', b) -> bst st st'.
Proof.
  intros Hs H. unfold rule_quote in H. hinv H; injection H as <- _; try fin Hs.
  match goal with E : T _ = inr _ |- _ => apply T_ok in E; [|reflexivity]; destruct E as [Ec Ek] end. cbn [b_node] in Ek.
  unfold bst. cbn [b_node push_node set_node]. apply nst_push; [exact Hs|].
  unfold cok. rewrite placed_set_map. match goal with |- context [set_map ?n _] => destruct n as [k0 m0 a0 e0 c0] end.
  cbn [n_kind set_map] in *. subst k0. cbn [is_blk andb]. rewrite placed_node. exact Ec.
Qed.

(* the item loop works in the list node: its children are items whose children are blocks in block position *)
Definition item_ok (it : node) : bool := match n_kind it with KItem => true | _ => false end && cokl (n_children it).
Definition lst (n n' : node) : Prop := forallb item_ok (n_children n') = true /\ n_kind n' = n_kind n.

Lemma lst_push n c : forallb item_ok (n_children n) = true -> item_ok c = true -> lst n (push_child n c).
Proof.
  intros Hn Hc. destruct n as [k m a e cs]. split; [|reflexivity]. cbn [push_child n_children set_children] in *.
  rewrite forallb_app, Hn. cbn [forallb]. rewrite Hc. reflexivity.
Qed.
Lemma lst_trans a b c : lst a b -> lst b c -> lst a c.
Proof. unfold lst. intuition congruence. Qed.
Lemma item_ok_set_map n m : item_ok (set_map n m) = item_ok n.
Proof. destruct n; reflexivity. Qed.

Lemma list_items_ok n : forall st ordered mc p next pe tight st' nx tg, forallb item_ok (n_children (b_node st)) = true ->
  list_items cfg T n st ordered mc p next pe tight = inr (st', nx, tg) -> lst (b_node st) (b_node st').
Proof.
  induction n as [|n IH]; intros st ordered mc p next pe tight st' nx tg Hs H; [discriminate|].
  cbn [list_items] in H. unfold bind, ret, panic in H.
  repeat match type of H with
  | list_items _ _ _ _ _ _ _ _ _ _ = _ => fail 1
  | (match ?x with _ => _ end) = _ => destruct x eqn:?; try discriminate H
  end.
  all: try (injection H as <- _ _).
  all: repeat match goal with E : (match ?x with _ => _ end) = inr _ |- _ => destruct x eqn:?; try discriminate E end.
  all: repeat match goal with E : inr _ = inr ?v |- _ => is_var v; injection E as <- end.
  all: try match goal with E : T _ = inr _ |- _ => apply T_ok in E; [|reflexivity]; destruct E as [Ec Ek]; cbn [b_node set_line set_level] in Ek end.
  all: try (apply IH in H; [eapply lst_trans; [|exact H]|]).
  all: cbn [b_node set_line set_level push_node set_node] in *.
  all: try (split; [exact Hs|reflexivity]).
  all: try (apply lst_push; [exact Hs|]); try (apply (proj1 (lst_push _ _ Hs _))).
  all: rewrite ?item_ok_set_map; unfold item_ok; cbn [b_node set_line set_level]; rewrite ?Ek; try assumption; try reflexivity.
Qed.

Lemma tight_items_placed items : forallb item_ok items = true ->
  forallb (fun c => may (KBullet 0) (n_kind c) && placed c) (map (fun it => set_children it (mark_tight (n_children it))) items) = true.
Proof.
  induction items as [|it t IH]; [reflexivity|]. cbn [forallb map]. intros H. apply andb_true_iff in H. destruct H as [Hi Ht].
  rewrite (IH Ht), andb_true_r. unfold item_ok in Hi. apply andb_true_iff in Hi. destruct Hi as [Hk Hc].
  destruct it as [k m a e cs]. cbn [n_kind n_children set_children] in *. destruct k; try discriminate Hk. cbn [may andb].
  rewrite placed_node. apply item_placed_tight. exact Hc.
Qed.
Lemma loose_items_placed items : forallb item_ok items = true ->
  forallb (fun c => may (KBullet 0) (n_kind c) && placed c) items = true.
Proof.
  induction items as [|it t IH]; [reflexivity|]. cbn [forallb]. intros H. apply andb_true_iff in H. destruct H as [Hi Ht].
  rewrite (IH Ht), andb_true_r. unfold item_ok in Hi. apply andb_true_iff in Hi. destruct Hi as [Hk Hc].
  destruct it as [k m a e cs]. cbn [n_kind n_children] in *. destruct k; try discriminate Hk. cbn [may andb].
  rewrite placed_node. apply item_placed. exact Hc.
Qed.

Lemma rule_list_ok st st' b : cokl (n_children (b_node st)) = true -> rule_list cfg T st = inr (st', b) -> bst st st'.
Proof.
  intros Hs H. unfold rule_list in H. unfold bind, ret, panic in H.
  repeat match type of H with
  | (match list_items _ _ _ _ _ _ _ _ _ _ with _ => _ end) = _ => fail 1
  | (match ?x with _ => _ end) = _ => destruct x eqn:?; try discriminate H
  end.
  all: try (injection H as <- _; apply nst_refl; exact Hs).
  all: destruct (list_items _ _ _ _ _ _ _ _ _ _) as [|[[st1 nx] tg]] eqn:E; [discriminate|].
  all: apply list_items_ok in E; [|cbn [b_node set_node]; match goal with |- context [match ?m with _ => _ end] => destruct m end; reflexivity].
  all: destruct E as [Ei Ek]; cbn [b_node set_node] in Ek.
  all: repeat match type of H with (match ?x with _ => _ end) = _ => destruct x eqn:?; try discriminate H end.
  all: injection H as <- _; unfold bst; cbn [b_node set_node]; apply nst_push; [exact Hs|]; unfold cok; rewrite placed_set_map.
  all: assert (Hb : is_blk (n_kind (b_node st1)) = true /\ (forall c, may (n_kind (b_node st1)) c = may (KBullet 0) c))
         by (rewrite Ek; match goal with |- context [match ?m with _ => _ end] => destruct m end; split; reflexivity).
  all: destruct Hb as [Hb Hm]; destruct (b_node st1) as [k1 m1 a1 e1 c1]; cbn [n_kind n_children set_map set_children] in *.
  all: destruct tg; cbn [n_kind set_children set_map]; rewrite Hb; cbn [andb]; rewrite placed_node.
  all: rewrite (forallb_ext' _ (fun c => may (KBullet 0) (n_kind c) && placed c)) by (intros x; rewrite Hm; reflexivity).
  all: first [apply tight_items_placed; exact Ei | apply loose_items_placed; exact Ei].
Qed.

Lemma rule_real_ok r st st' b : cokl (n_children (b_node st)) = true -> rule_real cfg T r st = inr (st', b) -> bst st st'.
Proof.
  intros Hs. unfold rule_real.
  destruct (r =? R_CODE); [apply rule_code_ok; exact Hs|].
  destruct (r =? R_FENCE); [apply rule_fence_ok; exact Hs|].
  destruct (r =? R_QUOTE); [apply rule_quote_ok; exact Hs|].
  destruct (r =? R_HR); [apply rule_hr_ok; exact Hs|].
  destruct (r =? R_LIST); [apply rule_list_ok; exact Hs|].
  destruct (r =? R_REF); [apply rule_reference_ok; exact Hs|].
  destruct (r =? R_HEADING); [apply rule_heading_ok; exact Hs|].
  destruct (r =? R_LHEADING); [apply rule_lheading_ok; exact Hs|].
  destruct (r =? R_PARA); [apply rule_paragraph_ok; exact Hs|].
  destruct (r =? R_HTMLBLOCK); [apply rule_html_block_ok; exact Hs|].
  destruct (_ || _); [apply rule_custom_ok; exact Hs|].
  intros H. injection H as <- _. apply nst_refl. exact Hs.
Qed.

Lemma try_rules_ok chain : forall st st' b, cokl (n_children (b_node st)) = true ->
  Block.try_rules cfg T chain st = inr (st', b) -> bst st st'.
Proof.
  induction chain as [|r t IH]; intros st st' b Hs; cbn [Block.try_rules]; [intros H; injection H as <- _; apply nst_refl; exact Hs|].
  destruct (rule_real cfg T r st) as [|[s1 ok]] eqn:E; cbn [bind]; [discriminate|]. cbn [fst snd]. destruct ok.
  - destruct (_ <? _)%nat; [|discriminate]. intros H. injection H as <- _. eapply rule_real_ok; eassumption.
  - apply IH; assumption.
Qed.

(* with the paragraph rule in the chain some rule always accepts: the engine's placeholder fallback is never used *)
Lemma try_rules_para chain : In R_PARA chain -> forall st st' b, Block.try_rules cfg T chain st = inr (st', b) -> b = true.
Proof.
  induction chain as [|r t IH]; intros Hin st st' b; [destruct Hin|]. cbn [Block.try_rules].
  destruct (rule_real cfg T r st) as [|[s1 ok]] eqn:E; cbn [bind]; [discriminate|]. cbn [fst snd]. destruct ok.
  - destruct (_ <? _)%nat; [|discriminate]. intros H. injection H as _ <-. reflexivity.
  - destruct Hin as [->|Hin]; [|apply IH; exact Hin]. exfalso. revert E. unfold rule_real.
    repeat match goal with |- context [R_PARA =? ?x] => let v := eval vm_compute in (R_PARA =? x) in change (R_PARA =? x) with v end.
    cbv iota. unfold rule_paragraph. intros H. hinv H; congruence.
Qed.

Hypothesis has_para : In R_PARA (bc_chain cfg).

Lemma tok_loop_ok n : forall st he st', cokl (n_children (b_node st)) = true ->
  Block.tok_loop cfg T n st he = inr st' -> bst st st'.
Proof.
  induction n as [|n IH]; intros st he st' Hs.
  - cbn [Block.tok_loop]. destruct (negb _); [|discriminate]. intros H. injection H as <-. apply nst_refl. exact Hs.
  - cbn [Block.tok_loop]. destruct (negb _); [intros H; injection H as <-; apply nst_refl; exact Hs|].
    cbv zeta. destruct (_ <=? _)%nat; [intros H; injection H as <-; apply nst_refl; exact Hs|].
    destruct (line_indent _ _) as [|ind]; cbn [bind]; [discriminate|].
    destruct (ind <? 0)%Z; [intros H; injection H as <-; apply nst_refl; exact Hs|].
    destruct (bc_maxnest cfg <=? _); [intros H; injection H as <-; apply nst_refl; exact Hs|].
    destruct (Block.try_rules cfg T (bc_chain cfg) _) as [|[s1 ok]] eqn:Et; cbn [bind]; [discriminate|]. cbn [fst snd].
    pose proof (try_rules_para _ has_para _ _ _ Et) as Hok. subst ok.
    apply try_rules_ok in Et; [|exact Hs].
    assert (R : forall st1, bst st st1 -> forall he1 he2 st', (if (b_line (set_tight st1 he1) <? b_max (set_tight st1 he1))%nat && is_empty (set_tight st1 he1) (b_line (set_tight st1 he1))
                  then Block.tok_loop cfg T n (set_line (set_tight st1 he1) (S (b_line (set_tight st1 he1)))) true
                  else Block.tok_loop cfg T n (set_tight st1 he1) he2) = inr st' -> bst st st').
    { intros st1 H1 he1 he2 st2 H. destruct (_ && _); apply IH in H; try exact (proj1 H1); eapply nst_trans; [exact H1|exact H|exact H1|exact H]. }
    cbn [bind ret]. apply R. exact Et.
Qed.
End BlockEngine.

Theorem btokenize_placed cfg : In R_PARA (bc_chain cfg) -> forall fuel st st', cokl (n_children (b_node st)) = true ->
  btokenize fuel cfg st = inr st' -> bst st st'.
Proof.
  intros Hp. induction fuel as [|f IH]; intros st st' Hs; cbn [btokenize]; [discriminate|].
  apply (tok_loop_ok cfg (btokenize f cfg) IH Hp); assumption.
Qed.

(* what block_parse adds to the root: blocks in block position *)
Theorem block_parse_placed fuel cfg texts refs r : In R_PARA (bc_chain cfg) ->
  block_parse fuel cfg texts (mk KRoot None []) refs = inr r -> cokl (n_children (fst r)) = true.
Proof.
  intros Hp. unfold block_parse. cbv zeta. destruct (btokenize _ _ _) as [|st'] eqn:E; cbn [bind]; [discriminate|].
  intros H. injection H as <-. cbn [fst]. apply (btokenize_placed _ Hp) in E; [exact (proj1 E)|reflexivity].
Qed.

(* ------------------------------------------------------------------ *)
(* 3. inline forests and the core chain                                 *)

From MdIt Require Import FragProofs.

(* a tree of inline kinds whose leaves are childless is well placed *)
Lemma inl_placed n : InlKindProofs.raw_free n = true -> InlArityProofs.raw_free n = true -> placed n = true.
Proof.
  induction n as [k m a e cs IH] using node_ind'. rewrite InlKindProofs.raw_free_node, InlArityProofs.raw_free_node, placed_node.
  intros H1 H2. apply andb_true_iff in H1, H2. destruct H1 as [K1 C1], H2 as [K2 C2].
  apply forallb_forall. intros c Hc. rewrite Forall_forall in IH.
  unfold InlKindProofs.rfl, InlArityProofs.rfl in *. rewrite forallb_forall in C1, C2.
  pose proof (C1 c Hc) as D1. pose proof (C2 c Hc) as D2. rewrite (IH c Hc D1 D2), andb_true_r.
  assert (Hi : is_inl (n_kind c) = true) by (destruct c; cbn [InlKindProofs.raw_free n_kind] in *; apply andb_true_iff in D1; apply D1).
  destruct k; try discriminate K1; cbn [may]; unfold is_inl_ph; rewrite ?Hi; try reflexivity.
  all: cbn [InlArityProofs.arity] in K2.
  all: try (destruct cs; [destruct Hc|discriminate K2]).
  all: rewrite forallb_forall in K2; specialize (K2 c Hc); unfold InlArityProofs.is_text_k in K2; destruct (n_kind c); try discriminate K2; reflexivity.
Qed.

Lemma may_placeholder p a b c : may p (KInlineRoot a b) = true -> is_inl c = true -> may p c = true.
Proof. destruct p; cbn [may]; unfold is_inl_ph; cbn; try discriminate; intros _ ->; rewrite ?orb_true_r; reflexivity. Qed.

Lemma inline_walk_placed fuel icf refs : InlKindProofs.pairs_ok icf = true -> InlArityProofs.pairs_ok icf = true ->
  forall n r, placed n = true -> inline_walk fuel icf refs n = inr r -> placed r = true /\ n_kind r = n_kind n.
Proof.
  intros Hp1 Hp2 n. induction n as [k m a e cs IH] using node_ind'. intros r Hpl. rewrite placed_node in Hpl. cbn [inline_walk].
  match goal with |- bind (?go cs) _ = _ -> _ => assert (G : forall cs', go cs = inr cs' -> forallb (fun c => may k (n_kind c) && placed c) cs' = true) end.
  { induction cs as [|c t IHt]; intros cs'; [intros H; injection H as <-; reflexivity|].
    inversion IH as [|? ? IHc IHt']; subst. cbn [forallb] in Hpl. apply andb_true_iff in Hpl. destruct Hpl as [Hc Ht]. apply andb_true_iff in Hc. destruct Hc as [Hm Hc].
    specialize (IHt IHt' Ht).
    destruct (n_kind c) eqn:Ek.
    all: try (destruct (inline_walk fuel icf refs c) as [|c'] eqn:Ec; cbn [bind]; [discriminate|];
              match goal with |- bind (?g ?tt) _ = _ -> _ => destruct (g tt) as [|rest] eqn:Er end; cbn [bind]; [discriminate|];
              intros H; injection H as <-; cbn [forallb]; destruct (IHc c' Hc eq_refl) as [Hc' Hk']; rewrite Hk', Hm, Hc'; exact (IHt _ eq_refl)).
    destruct (inline_parse _ _ _ _ _ _) as [|root'] eqn:Ep; cbn [bind]; [discriminate|].
    match goal with |- bind (?g ?tt) _ = _ -> _ => destruct (g tt) as [|rest] eqn:Er end; cbn [bind]; [discriminate|].
    intros H; injection H as <-. pose proof Ep as Ep2.
    eapply InlKindProofs.inline_parse_inl_kinds in Ep; [|exact Hp1]. eapply InlArityProofs.inline_parse_arity in Ep2; [|exact Hp2].
    rewrite forallb_app, (IHt _ eq_refl), andb_true_r. apply forallb_forall. intros x Hx.
    unfold InlKindProofs.rfl, InlArityProofs.rfl in *. rewrite forallb_forall in Ep, Ep2.
    rewrite (inl_placed x (Ep x Hx) (Ep2 x Hx)), andb_true_r. eapply may_placeholder; [exact Hm|].
    pose proof (Ep x Hx) as D. destruct x; cbn [InlKindProofs.raw_free n_kind] in *; apply andb_true_iff in D; apply D. }
  match goal with |- bind ?X _ = _ -> _ => destruct X as [|cs'] eqn:E end; cbn [bind]; [discriminate|]. intros H. injection H as <-.
  split; [|reflexivity]. rewrite placed_node. exact (G _ eq_refl).
Qed.

(* nodes without permitted children: a well-placed one has none *)
Definition leafk (k : kind) : Prop := forall c, may k c = false.
Lemma placed_leaf n n' : leafk (n_kind n) -> leafk (n_kind n') -> n_children n' = n_children n -> placed n = true -> placed n' = true.
Proof.
  intros L L' Hc. rewrite !placed_split, Hc. destruct (n_children n) as [|c t]; [reflexivity|]. cbn [forallb]. rewrite L. discriminate.
Qed.
Lemma leafk_text s : leafk (KText s). Proof. intros c. reflexivity. Qed.
Lemma leafk_marker a b c d e : leafk (KEmphMarker a b c d e). Proof. intros x. reflexivity. Qed.
Lemma may_text p a b : may p (KText a) = may p (KText b).
Proof. destruct p; reflexivity. Qed.
Lemma may_marker_text p a b c d e s : may p (KEmphMarker a b c d e) = true -> may p (KText s) = true.
Proof. destruct p; cbn; try discriminate; reflexivity. Qed.

Lemma placed_fj_walk n : placed n = true -> placed (fj_walk n) = true.
Proof.
  induction n as [k m a e cs IH] using node_ind'. rewrite placed_node. intros Hpl.
  cbn [fj_walk]. unfold fragments_join. cbn [set_children n_children]. rewrite placed_node.
  apply forallb_forall. apply Forall_forall.
  apply (fj_forall (fun c => may k (n_kind c) && placed c = true)).
  - intros t1 t2 H1 _ T1 T2. apply andb_true_iff in H1. destruct H1 as [M1 P1].
    unfold merge_text. unfold is_text in T1, T2. destruct (n_kind t1) eqn:E1; try discriminate T1. destruct (n_kind t2) eqn:E2; try discriminate T2.
    destruct t1 as [k1 m1 a1 e1 c1]. cbn [n_kind] in E1. subst k1. cbn [set_kind set_map n_kind n_map].
    rewrite (may_text k _ content) , M1. cbn [andb].
    apply (placed_leaf (Node (KText content) m1 a1 e1 c1)); [apply leafk_text|apply leafk_text|destruct (match m1 with Some _ => _ | None => _ end); reflexivity|exact P1].
  - exact I.
  - discriminate.
  - apply Forall_forall. intros x Hx. rewrite map_map in Hx. apply in_map_iff in Hx. destruct Hx as (c & <- & Hc).
    rewrite forallb_forall in Hpl. specialize (Hpl c Hc). apply andb_true_iff in Hpl. destruct Hpl as [Mc Pc].
    rewrite Forall_forall in IH. specialize (IH c Hc Pc).
    assert (Kc : n_kind (fj_walk c) = n_kind c) by (destruct c; reflexivity).
    assert (Pm : may k (n_kind (fj_walk c)) = true) by (rewrite Kc; exact Mc).
    unfold marker_to_text. destruct (fj_walk c) as [k1 m1 a1 e1 c1] eqn:Ef. cbn [n_kind] in *.
    destruct k1; try (cbn [n_kind]; rewrite Pm, IH; reflexivity).
    cbn [set_kind n_kind]. rewrite (may_marker_text _ _ _ _ _ _ _ Pm). cbn [andb].
    match type of IH with placed (Node ?kk _ _ _ _) = true => apply (placed_leaf (Node kk m1 a1 e1 c1)) end; [apply leafk_marker|apply leafk_text|reflexivity|exact IH].
Qed.

Lemma placed_walk_mut g : (forall x d, n_kind (g x d) = n_kind x) -> forall n d, placed n = true -> placed (walk_mut g n d) = true.
Proof.
  intros Hg n. induction n as [k m a e cs IH] using node_ind'. intros d. rewrite placed_node. intros Hpl.
  cbn [walk_mut]. pose proof (Hg (Node k m a e cs) d) as Hk. destruct (g (Node k m a e cs) d) as [k' m' a' e' cs']. cbn [n_kind] in Hk. subst k'.
  cbn [set_children]. rewrite placed_node. apply forallb_forall. intros x Hx. apply in_map_iff in Hx. destruct Hx as (c & <- & Hc).
  rewrite forallb_forall in Hpl. specialize (Hpl c Hc). apply andb_true_iff in Hpl. destruct Hpl as [Mc Pc].
  rewrite Forall_forall in IH. rewrite (IH c Hc _ Pc), andb_true_r.
  assert (Kc : n_kind (walk_mut g c (d + 1)) = n_kind c).
  { destruct c as [kc mc ac ec cc]. cbn [walk_mut]. pose proof (Hg (Node kc mc ac ec cc) (d + 1)) as Hk. destruct (g _ _) as [k2 ? ? ? ?]. cbn [n_kind set_children] in *. exact Hk. }
  rewrite Kc. exact Mc.
Qed.

Definition rinv (root : node) : Prop := placed root = true /\ n_kind root = KRoot.

Lemma core_step_placed fuel bcf icf src st rule r : In R_PARA (bc_chain bcf) ->
  InlKindProofs.pairs_ok icf = true -> InlArityProofs.pairs_ok icf = true ->
  (match st with inr x => rinv (fst (fst x)) | inl _ => True end) ->
  core_step fuel bcf icf src st rule = inr r -> rinv (fst (fst r)).
Proof.
  intros Hpara Hp1 Hp2 Hs. unfold core_step. destruct st as [|[[root refs] starts]]; cbn [bind]; [discriminate|]. cbn [fst] in Hs.
  destruct Hs as [Hpl Hk].
  destruct (rule =? C_BLOCK).
  { destruct (block_parse _ _ _ _ _) as [|rb] eqn:E; cbn [bind]; [discriminate|]. intros H. injection H as <-. cbn [fst].
    apply (block_parse_placed _ _ _ _ _ Hpara) in E. destruct root as [k m a e cs]. cbn [n_kind] in Hk. subst k.
    split; [|reflexivity]. cbn [set_children n_children]. rewrite placed_node in *. rewrite forallb_app, Hpl. exact E. }
  destruct (rule =? C_INLINE).
  { destruct (inline_walk _ _ _ _) as [|r1] eqn:E; cbn [bind]; [discriminate|]. intros H. injection H as <-. cbn [fst snd].
    apply (inline_walk_placed _ _ _ Hp1 Hp2) in E; [|exact Hpl]. destruct E as [E1 E2]. split; [exact E1|congruence]. }
  destruct (rule =? C_FRAGJOIN).
  { intros H. injection H as <-. cbn [fst snd]. split; [apply placed_fj_walk; exact Hpl|]. destruct root; exact Hk. }
  destruct (rule =? C_SOURCEPOS).
  { intros H. injection H as <-. cbn [fst]. split; [apply placed_walk_mut; [apply KindProofs.sourcepos_kind|exact Hpl]|].
    destruct root as [k m a e cs]. cbn [walk_mut]. pose proof (KindProofs.sourcepos_kind src starts (Node k m a e cs) 0) as Hs.
    destruct (sourcepos_attr _ _ _ _) as [k2 ? ? ? ?]. cbn [n_kind set_children] in *. congruence. }
  destruct (rule =? C_CUSTOMCORE).
  { intros H. injection H as <-. cbn [fst]. destruct root as [k m a e cs]. cbn [n_kind] in Hk. subst k. split; [|reflexivity].
    cbn [push_child n_children set_children]. rewrite placed_node in *. rewrite forallb_app, Hpl. reflexivity. }
  intros H. injection H as <-. cbn [fst]. split; assumption.
Qed.

Lemma core_fold_placed fuel bcf icf src chain : In R_PARA (bc_chain bcf) ->
  InlKindProofs.pairs_ok icf = true -> InlArityProofs.pairs_ok icf = true ->
  forall st r, (match st with inr x => rinv (fst (fst x)) | inl _ => True end) ->
  fold_left (core_step fuel bcf icf src) chain st = inr r -> rinv (fst (fst r)).
Proof.
  intros Hpara Hp1 Hp2. induction chain as [|c t IH]; intros st r Hs H; cbn [fold_left] in *.
  - subst st. exact Hs.
  - eapply IH; [|exact H]. destruct (core_step fuel bcf icf src st c) as [|x] eqn:E; [exact I|]. eapply core_step_placed; eassumption.
Qed.
