(* Proofs about src/parser/renderer.rs, utils::escape_html and the NodeValue::render
   implementations as modelled in model/Render.v and model/Escape.v (C19, C18, C03) *)
From Coq Require Import String.
From MdIt Require Import Prims Tables Escape Tree Render TreeProofs.
From Coq Require Import Lia ZifyBool ZifyN ZifyNat.
Local Open Scope string_scope.
Local Open Scope list_scope.
Local Open Scope N_scope.

Arguments N.eqb : simpl never.
Arguments N.add : simpl never.

(* ------------------------------------------------------------------ *)
(* escape_html                                                          *)

Definition special (b : N) : bool := (b =? 60) || (b =? 62) || (b =? 34).

Lemma esc_byte_cases b :
  (b = 38 /\ esc_byte b = bs "&amp;") \/ (b = 60 /\ esc_byte b = bs "&lt;") \/
  (b = 62 /\ esc_byte b = bs "&gt;") \/ (b = 34 /\ esc_byte b = bs "&quot;") \/
  (b <> 38 /\ b <> 60 /\ b <> 62 /\ b <> 34 /\ esc_byte b = [b]).
Proof.
  unfold esc_byte.
  destruct (N.eqb_spec b 38); [left; auto|].
  destruct (N.eqb_spec b 60); [right; left; auto|].
  destruct (N.eqb_spec b 62); [right; right; left; auto|].
  destruct (N.eqb_spec b 34); [right; right; right; left; auto|].
  right; right; right; right. auto.
Qed.

(* no raw lt, gt or double quote survives escaping *)
Theorem escape_no_special s : forallb (fun b => negb (special b)) (escape_html s) = true.
Proof.
  unfold escape_html. induction s as [|b t IH]; [reflexivity|].
  cbn [flat_map]. rewrite forallb_app, IH, andb_true_r.
  destruct (esc_byte_cases b) as [[-> ->]|[[-> ->]|[[-> ->]|[[-> ->]|(H1 & H2 & H3 & H4 & ->)]]]];
    try reflexivity.
  cbn [forallb]. unfold special. rewrite andb_true_r.
  destruct (N.eqb_spec b 60); [contradiction|]. destruct (N.eqb_spec b 62); [contradiction|].
  destruct (N.eqb_spec b 34); [contradiction|]. reflexivity.
Qed.

(* the inverse a conforming reader applies: the four entities back to their characters *)
Fixpoint unescape_html (fuel : nat) (s : str) : str :=
  match fuel with
  | O => s
  | S f =>
    match s with
    | [] => []
    | c :: t =>
      if c =? 38 then
        if starts_with (bs "amp;") t then 38 :: unescape_html f (dropN 4 t)
        else if starts_with (bs "lt;") t then 60 :: unescape_html f (dropN 3 t)
        else if starts_with (bs "gt;") t then 62 :: unescape_html f (dropN 3 t)
        else if starts_with (bs "quot;") t then 34 :: unescape_html f (dropN 5 t)
        else c :: unescape_html f t
      else c :: unescape_html f t
    end
  end.

Lemma escape_length_ge s : (length s <= length (escape_html s))%nat.
Proof.
  unfold escape_html. induction s as [|b t IH]; [cbn; lia|]. cbn [flat_map]. rewrite app_length.
  destruct (esc_byte_cases b) as [[-> ->]|[[-> ->]|[[-> ->]|[[-> ->]|(_ & _ & _ & _ & ->)]]]]; cbn [length bs]; cbn; lia.
Qed.

Lemma unesc_amp f r : unescape_html (S f) (bs "&amp;" ++ r) = 38 :: unescape_html f r.
Proof. reflexivity. Qed.
Lemma unesc_lt f r : unescape_html (S f) (bs "&lt;" ++ r) = 60 :: unescape_html f r.
Proof. reflexivity. Qed.
Lemma unesc_gt f r : unescape_html (S f) (bs "&gt;" ++ r) = 62 :: unescape_html f r.
Proof. reflexivity. Qed.
Lemma unesc_quot f r : unescape_html (S f) (bs "&quot;" ++ r) = 34 :: unescape_html f r.
Proof. reflexivity. Qed.
Lemma unesc_other f b r : b <> 38 -> unescape_html (S f) (b :: r) = b :: unescape_html f r.
Proof. intros H. cbn [unescape_html]. destruct (N.eqb_spec b 38); [contradiction|reflexivity]. Qed.

(* escaping is lossless: a reader gets the original characters back *)
Theorem unescape_escape s : forall fuel, (length (escape_html s) <= fuel)%nat ->
  unescape_html fuel (escape_html s) = s.
Proof.
  induction s as [|b t IH]; intros fuel Hf.
  - destruct fuel; reflexivity.
  - unfold escape_html in *. cbn [flat_map] in *. rewrite app_length in Hf.
    destruct (esc_byte_cases b) as [[-> E]|[[-> E]|[[-> E]|[[-> E]|(H1 & H2 & H3 & H4 & E)]]]];
      rewrite E in *; (destruct fuel as [|fuel]; [cbn in Hf; lia|]).
    + rewrite unesc_amp. f_equal. apply IH. cbn in Hf. lia.
    + rewrite unesc_lt. f_equal. apply IH. cbn in Hf. lia.
    + rewrite unesc_gt. f_equal. apply IH. cbn in Hf. lia.
    + rewrite unesc_quot. f_equal. apply IH. cbn in Hf. lia.
    + cbn [app]. rewrite (unesc_other _ _ _ H1). f_equal. apply IH. cbn in Hf. lia.
Qed.

(* ------------------------------------------------------------------ *)
(* serializer (C19)                                                     *)

(* the text one event appends, given whether the buffer is empty / ends in a line feed *)
Definition attrs_chunk (attrs : attrs_t) : str :=
  flat_map (fun a : str * str => [32] ++ escape_html (fst a) ++ [61; 34] ++ escape_html (snd a) ++ [34]) attrs.

Definition chunk (xhtml : bool) (line_start : bool) (e : event) : str :=
  match e with
  | EOpen tag attrs => [60] ++ tag ++ attrs_chunk attrs ++ [62]
  | EClose tag => [60; 47] ++ tag ++ [62]
  | ESelfClose tag attrs => [60] ++ tag ++ attrs_chunk attrs ++ (if xhtml then [32; 47] else []) ++ [62]
  | ECr => if line_start then [] else [10]
  | EText s => escape_html s
  | ERaw s => s
  end.

Lemma rpush_rev buf s : rev (rpush buf s) = rev buf ++ s.
Proof. unfold rpush. rewrite rev_append_rev, rev_app_distr, rev_involutive. reflexivity. Qed.

Lemma make_attrs_rev buf attrs : rev (make_attrs buf attrs) = rev buf ++ attrs_chunk attrs.
Proof.
  unfold make_attrs, attrs_chunk. revert buf. induction attrs as [|a t IH]; intros buf; cbn [fold_left flat_map].
  - rewrite app_nil_r. reflexivity.
  - rewrite IH, !rpush_rev, <- !app_assoc. reflexivity.
Qed.

(* every event appends exactly its chunk *)
Lemma ser_event_chunk xhtml buf e :
  rev (ser_event xhtml buf e) = rev buf ++ chunk xhtml (at_line_start buf) e.
Proof.
  destruct e as [tag attrs|tag|tag attrs| |s|s]; cbn [ser_event chunk].
  - rewrite rpush_rev, make_attrs_rev, !rpush_rev, <- !app_assoc. reflexivity.
  - rewrite !rpush_rev, <- !app_assoc. reflexivity.
  - destruct xhtml; rewrite ?rpush_rev, make_attrs_rev, !rpush_rev, <- !app_assoc; reflexivity.
  - destruct (at_line_start buf); [rewrite app_nil_r; reflexivity|reflexivity].
  - rewrite rpush_rev. reflexivity.
  - rewrite rpush_rev. reflexivity.
Qed.

(* whether the buffer is at a line start does not depend on the XHTML flag *)
Lemma als_rpush_nonempty buf c t : at_line_start (rpush buf (t ++ [c])) = (c =? 10).
Proof. unfold rpush. rewrite rev_append_rev, rev_app_distr. reflexivity. Qed.

Lemma als_cr buf : at_line_start (if at_line_start buf then buf else 10 :: buf) = true.
Proof. destruct (at_line_start buf) eqn:E; [exact E|reflexivity]. Qed.

Lemma als_rpush_same b1 b2 s : at_line_start b1 = at_line_start b2 ->
  at_line_start (rpush b1 s) = at_line_start (rpush b2 s).
Proof.
  intros H. unfold rpush. rewrite !rev_append_rev.
  destruct (rev s) as [|x r]; cbn [app at_line_start]; [exact H|reflexivity].
Qed.

Lemma line_start_same buf1 buf2 e :
  at_line_start buf1 = at_line_start buf2 ->
  at_line_start (ser_event true buf1 e) = at_line_start (ser_event false buf2 e).
Proof.
  intros H. destruct e as [tag attrs|tag|tag attrs| |s|s]; cbn [ser_event].
  - rewrite !(als_rpush_nonempty _ 62 []). reflexivity.
  - rewrite !(als_rpush_nonempty _ 62 []). reflexivity.
  - rewrite !(als_rpush_nonempty _ 62 []). reflexivity.
  - rewrite !als_cr. reflexivity.
  - apply als_rpush_same. exact H.
  - apply als_rpush_same. exact H.
Qed.

(* XHTML output = HTML output with space-slash inserted before the final gt of self-close chunks only *)
Definition xchunk_rel (e : event) (ch_h ch_x : str) : Prop :=
  match e with
  | ESelfClose _ _ => exists pre, ch_h = pre ++ [62] /\ ch_x = pre ++ [32; 47; 62]
  | _ => ch_x = ch_h
  end.

Lemma chunk_rel ls e : xchunk_rel e (chunk false ls e) (chunk true ls e).
Proof.
  destruct e as [tag attrs|tag|tag attrs| |s|s]; cbn [xchunk_rel chunk]; try reflexivity.
  exists ([60] ++ tag ++ attrs_chunk attrs). rewrite <- !app_assoc. split; reflexivity.
Qed.

Fixpoint chunks (xhtml : bool) (buf : str) (es : list event) : list str :=
  match es with
  | [] => []
  | e :: t => chunk xhtml (at_line_start buf) e :: chunks xhtml (ser_event xhtml buf e) t
  end.

Lemma fold_chunks xhtml es : forall buf,
  rev (fold_left (ser_event xhtml) es buf) = rev buf ++ concat (chunks xhtml buf es).
Proof.
  induction es as [|e t IH]; intros buf; cbn [fold_left chunks concat]; [rewrite app_nil_r; reflexivity|].
  rewrite IH, ser_event_chunk, <- app_assoc. reflexivity.
Qed.

Theorem serialize_chunks xhtml es :
  serialize xhtml es = replace_nul (concat (chunks xhtml [] es)).
Proof. unfold serialize. rewrite fold_chunks. reflexivity. Qed.

Theorem xhtml_vs_html es : forall b1 b2, at_line_start b1 = at_line_start b2 ->
  Forall2 (fun e (p : str * str) => xchunk_rel e (fst p) (snd p)) es
          (combine (chunks false b2 es) (chunks true b1 es)).
Proof.
  induction es as [|e t IH]; intros b1 b2 H; cbn [chunks combine]; constructor.
  - cbn [fst snd]. rewrite H. apply chunk_rel.
  - apply IH. apply line_start_same. exact H.
Qed.

(* U+0000 never reaches the output *)
Theorem replace_nul_no_nul s : forallb (fun b => negb (b =? 0)) (replace_nul s) = true.
Proof.
  unfold replace_nul. induction s as [|b t IH]; [reflexivity|]. cbn [flat_map]. rewrite forallb_app, IH, andb_true_r.
  destruct (N.eqb_spec b 0); [reflexivity|]. cbn [forallb]. destruct (N.eqb_spec b 0); [contradiction|reflexivity].
Qed.

Theorem replace_nul_id s : forallb (fun b => negb (b =? 0)) s = true -> replace_nul s = s.
Proof.
  unfold replace_nul. induction s as [|b t IH]; [reflexivity|]. cbn [forallb flat_map]. intros H.
  apply andb_true_iff in H. destruct H as [Hb Ht]. destruct (b =? 0); [discriminate|]. cbn [app]. f_equal. exact (IH Ht).
Qed.

(* ------------------------------------------------------------------ *)
(* image alt text (C18)                                                 *)

Definition text_of (k : kind) : str :=
  match k with
  | KText c => c
  | KTextSpecial c _ _ => c
  | KSoftbreak | KHardbreak => [10]
  | _ => []
  end.

(* alt text = concatenation, over the pre-order walk of the image subtree, of what each node contributes *)
Theorem alt_text_walk n : forall d, alt_text n = flat_map (fun p : node * N => text_of (n_kind (fst p))) (walk n d).
Proof.
  induction n as [k m a e cs IH] using node_ind'. intros d.
  rewrite walk_eq. cbn [alt_text flat_map fst n_kind]. fold (text_of k). f_equal.
  induction cs as [|c t IHt]; cbn [flat_map]; [reflexivity|].
  inversion IH as [|? ? Hc Ht]; subst. rewrite flat_map_app. f_equal; [apply Hc|apply IHt; exact Ht].
Qed.

(* the alt attribute issued through the renderer interface is that text *)
Theorem image_alt_attr m a e cs url title :
  render_events (Node (KImage url title) m a e cs) =
  inr [ESelfClose (bs "img")
         (a ++ [(bs "src", url); (bs "alt", alt_text (Node (KImage url title) m a e cs))]
            ++ match title with Some t => [(bs "title", t)] | None => [] end)].
Proof. reflexivity. Qed.

(* ------------------------------------------------------------------ *)
(* alt text = the text the description displays (C18)                   *)

Fixpoint contents_of (l : list node) : res (list event) :=
  match l with
  | [] => ret []
  | c :: t => do a <- render_events c; do b <- contents_of t; ret (a ++ b)
  end.

Definition is_alt_name (n : str) : bool := list_eqb n (bs "alt").

(* displayed text of an event sequence: text events, line breaks, and for images their alt *)
Definition ev_text1 (e : event) : str :=
  match e with
  | EText s => s
  | ECr => [10]
  | ESelfClose tag attrs =>
    if list_eqb tag (bs "img")
    then match find (fun p : str * str => is_alt_name (fst p)) attrs with Some p => snd p | None => [] end
    else []
  | _ => []
  end.
Definition ev_text (es : list event) : str := flat_map ev_text1 es.

Lemma ev_text_app a b : ev_text (a ++ b) = ev_text a ++ ev_text b.
Proof. apply flat_map_app. Qed.

(* inline content as it can occur in an image description; node attributes never use the name alt *)
Definition no_alt (a : attrs_t) : bool := forallb (fun p : str * str => negb (is_alt_name (fst p))) a.

Definition inline_kind (k : kind) : bool :=
  match k with
  | KText _ | KTextSpecial _ _ _ | KSoftbreak | KHardbreak | KCodeInline _ _ | KEm _ | KStrong _ | KStrike _
  | KLink _ _ | KImage _ _ | KAutolink _ | KHtmlInline _ => true
  | _ => false
  end.

Definition leaf_kind (k : kind) : bool :=
  match k with
  | KText _ | KTextSpecial _ _ _ | KSoftbreak | KHardbreak | KHtmlInline _ => true
  | _ => false
  end.

(* leaf kinds have no children (tree well-formedness, C14) *)
Fixpoint inline_only (n : node) : bool :=
  let 'Node k _ a _ cs := n in
  inline_kind k && no_alt a && (if leaf_kind k then match cs with [] => true | _ => false end else true)
  && forallb inline_only cs.

Lemma find_alt_skip a rest : no_alt a = true ->
  find (fun p : str * str => is_alt_name (fst p)) (a ++ rest) = find (fun p : str * str => is_alt_name (fst p)) rest.
Proof.
  induction a as [|x t IH]; [reflexivity|]. cbn [no_alt forallb app find]. intros H.
  apply andb_true_iff in H. destruct H as [Hx Ht]. destruct (is_alt_name (fst x)); [discriminate|]. exact (IH Ht).
Qed.

Lemma contents_text cs :
  Forall (fun c => inline_only c = true -> forall es, render_events c = inr es -> ev_text es = alt_text c) cs ->
  forallb inline_only cs = true ->
  forall es, contents_of cs = inr es -> ev_text es = flat_map alt_text cs.
Proof.
  induction cs as [|c t IH]; intros HF Hi es; cbn [contents_of flat_map].
  - intros [= <-]. reflexivity.
  - inversion HF as [|? ? Hc Ht]; subst. cbn [forallb] in Hi. apply andb_true_iff in Hi. destruct Hi as [Hic Hit].
    destruct (render_events c) as [e1|a1] eqn:E1; cbn [bind]; [discriminate|].
    destruct (contents_of t) as [e2|a2] eqn:E2; cbn [bind]; [discriminate|].
    intros [= <-]. rewrite ev_text_app, (Hc Hic a1 eq_refl), (IH Ht Hit a2 eq_refl). reflexivity.
Qed.

Lemma ev_text_nil l : (forall x, In x l -> ev_text1 x = []) -> ev_text l = [].
Proof.
  induction l as [|y l IHl]; [reflexivity|]. intros Hl. cbn [ev_text flat_map]. rewrite (Hl y (or_introl eq_refl)).
  apply IHl. intros x Hx. apply Hl. right. exact Hx.
Qed.

Lemma wrap_text cs pre post es :
  (forall es', contents_of cs = inr es' -> ev_text es' = flat_map alt_text cs) ->
  (forall x, In x (pre ++ post) -> ev_text1 x = []) ->
  (do c <- contents_of cs; ret (pre ++ c ++ post)) = inr es ->
  ev_text es = flat_map alt_text cs.
Proof.
  intros C Hn H. destruct (contents_of cs) as [x|c] eqn:E; cbn [bind] in H; [discriminate|].
  injection H as <-. rewrite !ev_text_app, (C c eq_refl).
  rewrite (ev_text_nil pre), (ev_text_nil post), app_nil_r; [reflexivity| |]; intros x Hx; apply Hn; apply in_or_app; auto.
Qed.

Ltac no_text := let x := fresh in let Hx := fresh in
  intros x Hx; cbn [app In] in Hx; repeat (destruct Hx as [<-|Hx]; [reflexivity|]); destruct Hx.

Theorem alt_is_displayed_text n :
  inline_only n = true -> forall es, render_events n = inr es -> ev_text es = alt_text n.
Proof.
  induction n as [k m a e cs IH] using node_ind'. intros Hi es.
  cbn [inline_only] in Hi. apply andb_true_iff in Hi. destruct Hi as [Hi Hcs].
  apply andb_true_iff in Hi. destruct Hi as [Hi Hleaf].
  apply andb_true_iff in Hi. destruct Hi as [Hk Ha].
  assert (C : forall es', contents_of cs = inr es' -> ev_text es' = flat_map alt_text cs)
    by (apply contents_text; assumption).
  destruct k; try discriminate Hk; cbn [leaf_kind] in Hleaf; cbn [alt_text]; fold (flat_map alt_text cs).
  - (* Text *) destruct cs; [|discriminate]. intros [= <-]. cbn. rewrite !app_nil_r. reflexivity.
  - (* TextSpecial *) destruct cs; [|discriminate]. intros [= <-]. cbn. rewrite !app_nil_r. reflexivity.
  - (* Softbreak *) destruct cs; [|discriminate]. intros [= <-]. reflexivity.
  - (* Hardbreak *) destruct cs; [|discriminate]. intros [= <-]. reflexivity.
  - (* CodeInline *) intros H. cbn [app]. apply (wrap_text cs [EOpen (bs "code") a] [EClose (bs "code")] es C); [no_text|exact H].
  - (* Em *) intros H. cbn [app]. apply (wrap_text cs [EOpen (bs "em") a] [EClose (bs "em")] es C); [no_text|exact H].
  - (* Strong *) intros H. cbn [app]. apply (wrap_text cs [EOpen (bs "strong") a] [EClose (bs "strong")] es C); [no_text|exact H].
  - (* Strike *) intros H. cbn [app]. apply (wrap_text cs [EOpen (bs "s") a] [EClose (bs "s")] es C); [no_text|exact H].
  - (* Link *) intros H. cbn [app].
    apply (wrap_text cs [EOpen (bs "a") (a ++ [(bs "href", url)] ++ match title with Some t => [(bs "title", t)] | None => [] end)]
                     [EClose (bs "a")] es C); [no_text|exact H].
  - (* Image *) intros [= <-]. cbn [ev_text flat_map ev_text1]. rewrite app_nil_r.
    change (list_eqb (bs "img") (bs "img")) with true. cbv iota.
    rewrite (find_alt_skip a _ Ha). reflexivity.
  - (* Autolink *) intros H. cbn [app].
    apply (wrap_text cs [EOpen (bs "a") (a ++ [(bs "href", url)])] [EClose (bs "a")] es C); [no_text|exact H].
  - (* HtmlInline *) destruct cs; [|discriminate]. intros [= <-]. reflexivity.
Qed.
