(* End-to-end statements for whole documents under the default CommonMark parser (property C11):
   source text -> lines -> block pass -> inline pass -> clean-up -> HTML. *)
From Coq Require Import String.
From MdIt Require Import Prims Tables Escape NormRef Indent Mdurl LinkParse Ruler Tree Render Block Inline Core Dump Dispatch.
From MdIt Require Import RenderProofs LookaheadProofs RangeProofs CodeProofs CodeSearchProofs LineProofs RefSafeProofs.
From Coq Require Import Lia ZifyBool ZifyN ZifyNat.
Local Open Scope string_scope.
Local Open Scope list_scope.
Local Open Scope N_scope.

Arguments N.eqb : simpl never.
Arguments N.leb : simpl never.
Arguments N.ltb : simpl never.
Arguments N.add : simpl never.
Arguments N.sub : simpl never.
Arguments Z.leb : simpl never.
Arguments Z.ltb : simpl never.
Arguments Z.sub : simpl never.
Arguments Z.of_N : simpl never.

(* ------------------------------------------------------------------ *)
(* lines of an LF-terminated text                                        *)

Definition eol_free (l : str) : bool := forallb (fun c => negb (c =? 10) && negb (c =? 13)) l.
Definition lf_lines (ls : list str) : str := flat_map (fun l => l ++ [10]) ls.

Lemma texts_loop_line l : forall rest cur, eol_free l = true ->
  texts_loop (l ++ 10 :: rest) cur = match rest with [] => [rev cur ++ l] | _ => (rev cur ++ l) :: texts_loop rest [] end.
Proof.
  induction l as [|c l IH]; intros rest cur H.
  - cbn [app texts_loop]. change (10 =? 10) with true. cbv iota. rewrite app_nil_r. destruct rest; reflexivity.
  - cbn [eol_free forallb] in H. apply andb_true_iff in H. destruct H as [Hc Hl]. apply andb_true_iff in Hc. destruct Hc as [H10 H13].
    cbn [app texts_loop]. destruct (c =? 10); [discriminate|]. destruct (c =? 13); [discriminate|].
    rewrite (IH rest (c :: cur) Hl). cbn [rev]. rewrite <- !app_assoc. reflexivity.
Qed.

Theorem texts_of_lf_lines ls : ls <> [] -> forallb eol_free ls = true -> texts_of (lf_lines ls) = ls.
Proof.
  intros Hne H. rewrite texts_of_loop. induction ls as [|l ls IH]; [congruence|].
  cbn [forallb] in H. apply andb_true_iff in H. destruct H as [Hl Hls].
  unfold lf_lines. cbn [flat_map]. rewrite <- app_assoc. cbn [app]. rewrite texts_loop_line by exact Hl. cbn [rev app].
  destruct ls as [|l2 ls']; [reflexivity|].
  fold (lf_lines (l2 :: ls')). destruct (lf_lines (l2 :: ls')) eqn:E.
  - unfold lf_lines in E. cbn [flat_map] in E. destruct l2; discriminate.
  - f_equal. apply IH; [discriminate|exact Hls].
Qed.

(* ------------------------------------------------------------------ *)
(* the block pass over a document that is one fenced block               *)

Definition fence_leads (chain : list N) : Prop :=
  exists rest, chain = R_FENCE :: rest \/ chain = R_CODE :: R_FENCE :: rest.

Section FenceDoc.
Variable cfg : bcfg.
Variables (m : N) (n : nat) (pre cpre params trail : str) (n' : nat) (texts : list (list N)).
Variables (root : node) (refs : refmap) (fuel : nat).

Hypothesis Hchain : fence_leads (bc_chain cfg).
Hypothesis Hnest : 0 < bc_maxnest cfg.
Hypothesis Hm : m = 96 \/ m = 126.
Hypothesis Hn : (3 <= n)%nat.
Hypothesis Hpre : forallb is_ws pre = true.
Hypothesis Hcpre : forallb is_ws cpre = true.
Hypothesis Hcols : cols_from 0 pre < 4.
Hypothesis Hccols : cols_from 0 cpre < 4.
Hypothesis Hparams0 : match params with x :: _ => (x =? m) = false | [] => True end.
Hypothesis Hparams : m = 96 -> mem 96 params = false.
Hypothesis Hruns : forall T, In T texts -> runs_lt m (N.of_nat n) T = true.
Hypothesis Hn' : (n <= n')%nat.
Hypothesis Htrail : all_sptab trail = true.

Let opener := pre ++ repeatN m n ++ params.
Let closing := cpre ++ repeatN m n' ++ trail.
Let doc := opener :: map (fun T => pre ++ T) texts ++ [closing].

Lemma doc_nth_payload i T : nth_error texts i = Some T -> nth_error (map mk_line doc) (S i) = Some (mk_line (pre ++ T)).
Proof.
  intros H. unfold doc. cbn [map nth_error]. rewrite map_app, nth_error_app1.
  - rewrite map_map. rewrite (map_nth_error (fun T0 => mk_line (pre ++ T0)) i texts H). reflexivity.
  - rewrite !map_length. apply nth_error_Some. congruence.
Qed.

Lemma doc_nth_closing : nth_error (map mk_line doc) (S (length texts)) = Some (mk_line closing).
Proof.
  unfold doc. cbn [map nth_error]. rewrite map_app, nth_error_app2; rewrite !map_length; [|lia].
  replace (length texts - length texts)%nat with 0%nat by lia. reflexivity.
Qed.

Lemma doc_length : length (map mk_line doc) = S (S (length texts)).
Proof. unfold doc. cbn [map length]. rewrite map_length, app_length, map_length. cbn [length]. lia. Qed.

Lemma opener_not_empty (st : bstate) : nth_error (b_lines st) 0 = Some (mk_line opener) -> is_empty st 0 = false.
Proof.
  intros H. unfold is_empty. rewrite H. unfold opener.
  rewrite (marker_line m pre n params Hm Hpre) by lia. unfold l_end. cbn [l_text l_first].
  rewrite !len_app. pose proof (length_repeatN m n). unfold len at 2. lia.
Qed.

Lemma tok_loop_done rec k (st : bstate) he : (b_max st <= b_line st)%nat -> Block.tok_loop cfg rec k st he = ret st.
Proof.
  intros H. destruct k; cbn [Block.tok_loop]; replace (b_line st <? b_max st)%nat with false by (symmetry; apply PeanoNat.Nat.ltb_ge; exact H); reflexivity.
Qed.

Theorem fence_block_parse (Hf : (0 < fuel)%nat) :
  exists rng,
  block_parse fuel cfg doc root refs =
    inr (push_child root (mk (KFence params m (N.of_nat n) (out_lines true texts) (bc_fence_prefix cfg)) rng []), refs).
Proof.
  destruct fuel as [|f]; [lia|]. unfold block_parse. cbv zeta. cbn [btokenize].
  pose (st0 := BState (map mk_line doc) root 0 0 (length (map mk_line doc)) false None 0 refs).
  fold st0.
  assert (Hl0 : b_line st0 = 0%nat) by reflexivity.
  assert (Hm0 : b_max st0 = S (S (length texts))) by (unfold st0; cbn [b_max]; apply doc_length).
  assert (Hb0 : b_blk st0 = 0) by reflexivity.
  assert (Hopen : nth_error (b_lines st0) (b_line st0) = Some (mk_line opener)) by reflexivity.
  destruct (fence_verbatim cfg st0 m n pre cpre params trail n' texts) as [rng Hrule]; try assumption.
  - rewrite Hb0. lia.
  - rewrite Hb0. lia.
  - intros i T Hi. rewrite Hl0. split; [apply doc_nth_payload; exact Hi|apply Hruns; eapply nth_error_In; exact Hi].
  - rewrite Hl0. apply doc_nth_closing.
  - rewrite Hl0, Hm0. lia.
  - exists rng. unfold Block.tokenize_body. rewrite Hm0, Hl0.
    replace (S (S (length texts)) - 0)%nat with (S (S (length texts))) by lia.
    remember (S (S (length texts))) as k1 eqn:Ek1.
    cbn [Block.tok_loop]. rewrite Hl0, Hm0.
    replace (0 <? k1)%nat with true by (symmetry; apply PeanoNat.Nat.ltb_lt; lia). cbn [negb].
    assert (Hskip : skip_empty_lines st0 0 = 0%nat).
    { unfold skip_empty_lines. rewrite Hm0. cbn [skip_empty_from]. rewrite Hl0 in Hopen. rewrite (opener_not_empty st0 Hopen). rewrite andb_false_r. reflexivity. }
    rewrite Hskip. change (set_line st0 0) with st0. rewrite Hm0.
    replace (k1 <=? 0)%nat with false by (symmetry; apply PeanoNat.Nat.leb_gt; lia).
    pose proof Hopen as Ho. rewrite Hl0 in Ho. unfold opener in Ho. rewrite (marker_line m pre n params Hm Hpre) in Ho by lia.
    rewrite (line_indent_at _ _ _ _ _ Ho). cbn [bind ret]. rewrite Hb0.
    replace (Z.of_N (cols_from 0 pre) - Z.of_N 0 <? 0)%Z with false by lia.
    change (b_level st0) with 0. replace (bc_maxnest cfg <=? 0) with false by lia.
    assert (Htry : Block.try_rules cfg (btokenize f cfg) (bc_chain cfg) st0 =
                   inr (push_node (set_line st0 (S (S (b_line st0) + length texts)))
                          (mk (KFence params m (N.of_nat n) (out_lines true texts) (bc_fence_prefix cfg)) rng []), true)).
    { assert (Hcode : rule_code st0 = inr (st0, false)).
      { unfold rule_code. rewrite Hl0, (line_indent_at _ _ _ _ _ Ho). cbn [bind ret]. rewrite Hb0.
        replace (Z.of_N (cols_from 0 pre) - Z.of_N 0 <? 4)%Z with true by lia. reflexivity. }
      destruct Hchain as [rest [E|E]]; rewrite E; cbn [Block.try_rules]; unfold Block.rule_real.
      - change (R_FENCE =? R_CODE) with false. change (R_FENCE =? R_FENCE) with true. cbv iota.
        rewrite Hrule. cbn [bind ret snd fst b_line set_line push_node set_node]. rewrite Hl0.
        replace (0 <? S (1 + length texts))%nat with true by reflexivity. reflexivity.
      - change (R_CODE =? R_CODE) with true. cbv iota. rewrite Hcode. cbn [bind ret snd].
        change (R_FENCE =? R_CODE) with false. change (R_FENCE =? R_FENCE) with true. cbv iota.
        rewrite Hrule. cbn [bind ret snd fst b_line set_line push_node set_node]. rewrite Hl0.
        replace (0 <? S (1 + length texts))%nat with true by reflexivity. reflexivity. }
    rewrite Htry. cbn [bind ret snd fst]. rewrite Hl0.
    cbn [b_line b_max set_tight push_node set_node set_line]. rewrite Hm0.
    replace (S (1 + length texts) <? k1)%nat with false by (symmetry; apply PeanoNat.Nat.ltb_ge; lia).
    cbn [andb]. rewrite tok_loop_done by (cbn [b_line b_max set_tight push_node set_node set_line]; rewrite Hm0; lia).
    cbn [bind ret b_node b_refs set_tight push_node set_node set_line]. reflexivity.
Qed.

End FenceDoc.

(* ------------------------------------------------------------------ *)
(* the whole pipeline for the default CommonMark parser                   *)

Definition md_cmark : md := build_md (bs "C") 100.

Lemma cmark_core : snd (r_iter (md_core md_cmark)) = inr [C_BLOCK; C_INLINE; C_FRAGJOIN].
Proof. vm_compute. reflexivity. Qed.
Lemma cmark_block : snd (r_iter (md_block md_cmark)) =
  inr [R_CODE; R_FENCE; R_QUOTE; R_HR; R_LIST; R_REF; R_HEADING; R_LHEADING; R_PARA].
Proof. vm_compute. reflexivity. Qed.
Lemma cmark_inline_ok : exists ic, snd (r_iter (md_inline md_cmark)) = inr ic.
Proof. eexists. vm_compute. reflexivity. Qed.
Lemma cmark_prefix : md_fence_prefix md_cmark = Some (bs "language-").
Proof. vm_compute. reflexivity. Qed.
Lemma cmark_nest : md_maxnest md_cmark = 100.
Proof. vm_compute. reflexivity. Qed.

(* rendering a document that is one fenced block without info string *)
Lemma render_root_fence xhtml rm ra re mk_ k c pfx rng :
  render xhtml (Node KRoot rm ra re [mk (KFence [] mk_ k c pfx) rng []]) =
  inr (replace_nul (bs "<pre><code>" ++ escape_html c ++ bs "</code></pre>" ++ [10]%N)).
Proof.
  unfold render. cbn [render_events mk n_kind n_attrs n_children map]. cbv zeta.
  replace (first_word (unescape_all [])) with (@nil N) by reflexivity. cbn [bind ret app]. rewrite serialize_chunks. f_equal. f_equal.
  cbn. rewrite <- ?app_assoc. reflexivity.
Qed.

Section FencePipeline.
Variables (m : N) (n : nat) (pre cpre trail : str) (n' : nat) (texts : list (list N)) (src : str).

Hypothesis Hm : m = 96 \/ m = 126.
Hypothesis Hn : (3 <= n)%nat.
Hypothesis Hpre : forallb is_ws pre = true.
Hypothesis Hcpre : forallb is_ws cpre = true.
Hypothesis Hcols : cols_from 0 pre < 4.
Hypothesis Hccols : cols_from 0 cpre < 4.
Hypothesis Hruns : forall T, In T texts -> runs_lt m (N.of_nat n) T = true.
Hypothesis Hn' : (n <= n')%nat.
Hypothesis Htrail : all_sptab trail = true.
(* the lines of the source: opening fence, payload lines behind the fence's indentation, closing fence *)
Hypothesis Hsrc : texts_of src = (pre ++ repeatN m n ++ []) :: map (fun T => pre ++ T) texts ++ [cpre ++ repeatN m n' ++ trail].

Theorem fence_document_html xhtml :
  html_of_parse (default_fuel md_cmark) md_cmark xhtml src =
  inr (replace_nul (bs "<pre><code>" ++ escape_html (out_lines true texts) ++ bs "</code></pre>" ++ [10]%N)).
Proof.
  unfold html_of_parse, parse.
  destruct cmark_inline_ok as [ic Hic].
  pose proof cmark_core as Hc. pose proof cmark_block as Hb.
  destruct (r_iter (md_core md_cmark)) as [rc cc]. destruct (r_iter (md_block md_cmark)) as [rb bc].
  destruct (r_iter (md_inline md_cmark)) as [ri ich]. cbn [snd] in *. subst cc bc ich. cbn [bind ret].
  rewrite cmark_prefix, cmark_nest.
  cbn [fold_left]. unfold core_step at 3. cbn [bind ret].
  change (C_BLOCK =? C_BLOCK) with true. cbv iota.
  fold (texts_of src). rewrite Hsrc.
  set (bcf := BCfg _ 100 (bs "language-")).
  destruct (fence_block_parse bcf m n pre cpre [] trail n' texts (mk KRoot None []) [] (default_fuel md_cmark)) as [rng Hbp]; try assumption.
  - exists [R_QUOTE; R_HR; R_LIST; R_REF; R_HEADING; R_LHEADING; R_PARA]. right. reflexivity.
  - reflexivity.
  - exact I.
  - reflexivity.
  - vm_compute. lia.
  - rewrite Hbp. cbn [bind ret fst snd].
    unfold core_step at 2. cbn [bind ret]. change (C_INLINE =? C_BLOCK) with false. change (C_INLINE =? C_INLINE) with true. cbv iota.
    cbn [set_children push_child mk n_children app inline_walk n_kind bind ret].
    unfold core_step. cbn [bind ret]. change (C_FRAGJOIN =? C_BLOCK) with false. change (C_FRAGJOIN =? C_INLINE) with false.
    change (C_FRAGJOIN =? C_FRAGJOIN) with true. cbv iota.
    cbn [fj_walk map fragments_join set_children n_children marker_to_text n_kind fj_collapse is_text app d_root].
    apply render_root_fence.
Qed.

End FencePipeline.

(* the same with an info string: its first word, decoded by unescape_all, becomes the class *)
Definition class_attr (pfx info : str) : str :=
  match first_word (unescape_all info) with
  | [] => []
  | w => bs " class=""" ++ escape_html (pfx ++ w) ++ bs """"
  end.

Lemma render_root_fence_info xhtml rm ra re mk_ k info c pfx rng :
  render xhtml (Node KRoot rm ra re [mk (KFence info mk_ k c pfx) rng []]) =
  inr (replace_nul (bs "<pre><code" ++ class_attr pfx info ++ bs ">" ++ escape_html c ++ bs "</code></pre>" ++ [10]%N)).
Proof.
  unfold render, class_attr. cbn [render_events mk n_kind n_attrs n_children map]. cbv zeta.
  destruct (first_word (unescape_all info)) as [|w0 w]; cbn [bind ret app]; rewrite serialize_chunks; f_equal; f_equal.
  all: cbn [chunks chunk concat at_line_start ser_event rpush rev_append make_attrs fold_left attrs_chunk flat_map fst snd app].
  all: try (let v := eval vm_compute in (escape_html (bs "class")) in change (escape_html (bs "class")) with v).
  all: repeat match goal with |- context [bs ?s] => let v := eval vm_compute in (bs s) in change (bs s) with v end.
  all: change (62 =? 10) with false; cbv iota.
  all: repeat (rewrite <- ?app_assoc; cbn [app]).
  all: reflexivity.
Qed.

Section FenceInfoPipeline.
Variables (m : N) (n : nat) (pre cpre trail params : str) (n' : nat) (texts : list (list N)) (src : str).

Hypothesis Hm : m = 96 \/ m = 126.
Hypothesis Hn : (3 <= n)%nat.
Hypothesis Hpre : forallb is_ws pre = true.
Hypothesis Hcpre : forallb is_ws cpre = true.
Hypothesis Hcols : cols_from 0 pre < 4.
Hypothesis Hccols : cols_from 0 cpre < 4.
Hypothesis Hparams0 : match params with x :: _ => (x =? m) = false | [] => True end.
Hypothesis Hparams : m = 96 -> mem 96 params = false.
Hypothesis Hruns : forall T, In T texts -> runs_lt m (N.of_nat n) T = true.
Hypothesis Hn' : (n <= n')%nat.
Hypothesis Htrail : all_sptab trail = true.
Hypothesis Hsrc : texts_of src = (pre ++ repeatN m n ++ params) :: map (fun T => pre ++ T) texts ++ [cpre ++ repeatN m n' ++ trail].

Theorem fence_info_document_html xhtml :
  html_of_parse (default_fuel md_cmark) md_cmark xhtml src =
  inr (replace_nul (bs "<pre><code" ++ class_attr (bs "language-") params ++ bs ">" ++ escape_html (out_lines true texts) ++ bs "</code></pre>" ++ [10]%N)).
Proof.
  unfold html_of_parse, parse.
  destruct cmark_inline_ok as [ic Hic].
  pose proof cmark_core as Hc. pose proof cmark_block as Hb.
  destruct (r_iter (md_core md_cmark)) as [rc cc]. destruct (r_iter (md_block md_cmark)) as [rb bc].
  destruct (r_iter (md_inline md_cmark)) as [ri ich]. cbn [snd] in *. subst cc bc ich. cbn [bind ret].
  rewrite cmark_prefix, cmark_nest.
  cbn [fold_left]. unfold core_step at 3. cbn [bind ret].
  change (C_BLOCK =? C_BLOCK) with true. cbv iota.
  fold (texts_of src). rewrite Hsrc.
  set (bcf := BCfg _ 100 (bs "language-")).
  destruct (fence_block_parse bcf m n pre cpre params trail n' texts (mk KRoot None []) [] (default_fuel md_cmark)) as [rng Hbp]; try assumption.
  - exists [R_QUOTE; R_HR; R_LIST; R_REF; R_HEADING; R_LHEADING; R_PARA]. right. reflexivity.
  - reflexivity.
  - vm_compute. lia.
  - rewrite Hbp. cbn [bind ret fst snd].
    unfold core_step at 2. cbn [bind ret]. change (C_INLINE =? C_BLOCK) with false. change (C_INLINE =? C_INLINE) with true. cbv iota.
    cbn [set_children push_child mk n_children app inline_walk n_kind bind ret].
    unfold core_step. cbn [bind ret]. change (C_FRAGJOIN =? C_BLOCK) with false. change (C_FRAGJOIN =? C_INLINE) with false.
    change (C_FRAGJOIN =? C_FRAGJOIN) with true. cbv iota.
    cbn [fj_walk map fragments_join set_children n_children marker_to_text n_kind fj_collapse is_text app d_root].
    apply render_root_fence_info.
Qed.

End FenceInfoPipeline.

(* ------------------------------------------------------------------ *)
(* a document that is one indented code block                             *)

Section IndentedDoc.
Variable cfg : bcfg.
Variables (pre : str) (texts : list (list N)) (root : node) (refs : refmap) (fuel : nat).

Hypothesis Hchain : exists rest, bc_chain cfg = R_CODE :: rest.
Hypothesis Hnest : 0 < bc_maxnest cfg.
Hypothesis Hpre : forallb is_ws pre = true.
Hypothesis Hcols : cols_from 0 pre = 4.
Hypothesis Hfirst : exists T, nth_error texts 0 = Some T /\ blank T = false.
Hypothesis Hlast : exists T, nth_error texts (length texts - 1) = Some T /\ blank T = false.

Let doc := map (fun T => pre ++ T) texts.

Lemma idoc_nth i T : nth_error texts i = Some T -> nth_error (map mk_line doc) i = Some (mk_line (pre ++ T)).
Proof. intros H. unfold doc. rewrite map_map. apply (map_nth_error (fun T0 => mk_line (pre ++ T0)) i texts H). Qed.

Lemma idoc_length : length (map mk_line doc) = length texts.
Proof. unfold doc. rewrite !map_length. reflexivity. Qed.

Theorem indented_block_parse (Hf : (0 < fuel)%nat) :
  exists rng,
  block_parse fuel cfg doc root refs = inr (push_child root (mk (KCodeBlock (out_lines false texts ++ [10])) rng []), refs).
Proof.
  destruct fuel as [|f]; [lia|]. unfold block_parse. cbv zeta. cbn [btokenize].
  pose (st0 := BState (map mk_line doc) root 0 0 (length (map mk_line doc)) false None 0 refs).
  fold st0.
  assert (Hl0 : b_line st0 = 0%nat) by reflexivity.
  assert (Hm0 : b_max st0 = length texts) by (unfold st0; cbn [b_max]; apply idoc_length).
  assert (Hb0 : b_blk st0 = 0) by reflexivity.
  assert (Hpos : (1 <= length texts)%nat) by (destruct Hfirst as (T & H & _); destruct texts; [discriminate|cbn; lia]).
  assert (H2 : cols_from 0 pre = 4 + b_blk st0) by (rewrite Hb0, Hcols; reflexivity).
  assert (H3 : forall i T, nth_error texts i = Some T -> nth_error (b_lines st0) (b_line st0 + i) = Some (mk_line (pre ++ T))).
  { intros i T Hi. rewrite Hl0. apply idoc_nth. exact Hi. }
  assert (H6 : forall j, (j < 0)%nat -> is_empty st0 (b_line st0 + length texts + j) = true) by (intros j Hj; lia).
  assert (H7 : (b_line st0 + length texts + 0 <= b_max st0)%nat) by (rewrite Hl0, Hm0; lia).
  assert (H8 : (b_line st0 + length texts + 0 = b_max st0)%nat \/
               exists text f ind, nth_error (b_lines st0) (b_line st0 + length texts + 0) = Some (LRec text f ind) /\
                                  f < len text /\ (ind - Z.of_N (b_blk st0) < 4)%Z) by (left; rewrite Hl0, Hm0; lia).
  destruct (code_block_verbatim st0 pre texts 0 Hpre H2 H3 Hfirst Hlast H6 H7 H8) as [rng Hrule].
  exists rng. unfold Block.tokenize_body. rewrite Hm0, Hl0.
    replace (length texts - 0)%nat with (length texts) by lia.
    remember (length texts) as k1 eqn:Ek1.
    cbn [Block.tok_loop]. rewrite Hl0, Hm0.
    replace (0 <? k1)%nat with true by (symmetry; apply PeanoNat.Nat.ltb_lt; lia). cbn [negb].
    destruct Hfirst as (T0 & HT0 & HB0).
    destruct (mk_line_split pre T0 Hpre) as (w & r & ET0 & Hw & Hr0 & Hrec).
    assert (Hline0 : nth_error (b_lines st0) 0 = Some (LRec (pre ++ T0) (len (pre ++ w)) (Z.of_N (cols_from 0 (pre ++ w))))).
    { rewrite <- Hrec. apply idoc_nth. exact HT0. }
    assert (Hrne : r <> []).
    { intros ->. rewrite app_nil_r in ET0. subst T0. unfold blank in HB0. congruence. }
    assert (Hskip : skip_empty_lines st0 0 = 0%nat).
    { unfold skip_empty_lines. rewrite Hm0. cbn [skip_empty_from]. unfold is_empty. rewrite Hline0. unfold l_end. cbn [l_text l_first].
      rewrite ET0. destruct r as [|x r']; [congruence|].
      assert (Hlt : (len (pre ++ w ++ x :: r') <=? len (pre ++ w)) = false).
      { rewrite app_assoc, (len_app (pre ++ w)). unfold len at 2. cbn [length]. lia. }
      rewrite Hlt, andb_false_r. reflexivity. }
    rewrite Hskip. change (set_line st0 0) with st0. rewrite Hm0.
    replace (k1 <=? 0)%nat with false by (symmetry; apply PeanoNat.Nat.leb_gt; lia).
    rewrite (line_indent_at _ _ _ _ _ Hline0). cbn [bind ret]. rewrite Hb0.
    assert (Hge : cols_from 0 pre <= cols_from 0 (pre ++ w)) by (rewrite cols_from_app; pose proof (cols_from_ge (cols_from 0 pre) w); lia).
    replace (Z.of_N (cols_from 0 (pre ++ w)) - Z.of_N 0 <? 0)%Z with false by lia.
    change (b_level st0) with 0. replace (bc_maxnest cfg <=? 0) with false by lia.
    destruct Hchain as [rest E]. rewrite E. cbn [Block.try_rules]. unfold Block.rule_real.
    change (R_CODE =? R_CODE) with true. cbv iota. rewrite Hrule. cbn [bind ret snd fst b_line set_line push_node set_node].
    rewrite Hl0. replace (0 <? 0 + k1)%nat with true by (symmetry; apply PeanoNat.Nat.ltb_lt; lia).
    cbn [bind ret snd fst]. cbn [b_line b_max set_tight push_node set_node set_line]. rewrite Hm0.
    replace (0 + k1 <? k1)%nat with false by (symmetry; apply PeanoNat.Nat.ltb_ge; lia).
    cbn [andb]. rewrite tok_loop_done by (cbn [b_line b_max set_tight push_node set_node set_line]; rewrite Hm0; lia).
    cbn [bind ret b_node b_refs set_tight push_node set_node set_line]. reflexivity.
Qed.

End IndentedDoc.

Lemma render_root_code_block xhtml rm ra re c rng :
  render xhtml (Node KRoot rm ra re [mk (KCodeBlock c) rng []]) =
  inr (replace_nul (bs "<pre><code>" ++ escape_html c ++ bs "</code></pre>" ++ [10]%N)).
Proof.
  unfold render. cbn [render_events mk n_kind n_attrs n_children map]. cbn [bind ret app]. rewrite serialize_chunks. f_equal. f_equal.
  cbn. rewrite <- ?app_assoc. reflexivity.
Qed.

Section IndentedPipeline.
Variables (pre : str) (texts : list (list N)) (src : str).
Hypothesis Hpre : forallb is_ws pre = true.
Hypothesis Hcols : cols_from 0 pre = 4.
Hypothesis Hfirst : exists T, nth_error texts 0 = Some T /\ blank T = false.
Hypothesis Hlast : exists T, nth_error texts (length texts - 1) = Some T /\ blank T = false.
Hypothesis Hsrc : texts_of src = map (fun T => pre ++ T) texts.

Theorem indented_document_html xhtml :
  html_of_parse (default_fuel md_cmark) md_cmark xhtml src =
  inr (replace_nul (bs "<pre><code>" ++ escape_html (out_lines false texts ++ [10]) ++ bs "</code></pre>" ++ [10]%N)).
Proof.
  unfold html_of_parse, parse.
  destruct cmark_inline_ok as [ic Hic].
  pose proof cmark_core as Hc. pose proof cmark_block as Hb.
  destruct (r_iter (md_core md_cmark)) as [rc cc]. destruct (r_iter (md_block md_cmark)) as [rb bc].
  destruct (r_iter (md_inline md_cmark)) as [ri ich]. cbn [snd] in *. subst cc bc ich. cbn [bind ret].
  rewrite cmark_prefix, cmark_nest.
  cbn [fold_left]. unfold core_step at 3. cbn [bind ret].
  change (C_BLOCK =? C_BLOCK) with true. cbv iota.
  fold (texts_of src). rewrite Hsrc.
  set (bcf := BCfg _ 100 (bs "language-")).
  destruct (indented_block_parse bcf pre texts (mk KRoot None []) [] (default_fuel md_cmark)) as [rng Hbp]; try assumption.
  - eexists. reflexivity.
  - reflexivity.
  - vm_compute. lia.
  - rewrite Hbp. cbn [bind ret fst snd].
    unfold core_step at 2. cbn [bind ret]. change (C_INLINE =? C_BLOCK) with false. change (C_INLINE =? C_INLINE) with true. cbv iota.
    cbn [set_children push_child mk n_children app inline_walk n_kind bind ret].
    unfold core_step. cbn [bind ret]. change (C_FRAGJOIN =? C_BLOCK) with false. change (C_FRAGJOIN =? C_INLINE) with false.
    change (C_FRAGJOIN =? C_FRAGJOIN) with true. cbv iota.
    cbn [fj_walk map fragments_join set_children n_children marker_to_text n_kind fj_collapse is_text app d_root].
    apply render_root_code_block.
Qed.

End IndentedPipeline.

(* ------------------------------------------------------------------ *)
(* a paragraph that is one code span: the inline pass                     *)

Lemma rev_repeatN m k : rev (repeatN m k) = repeatN m k.
Proof.
  induction k as [|k IH]; [reflexivity|]. cbn [repeatN rev]. rewrite IH. clear IH.
  induction k as [|k IH]; [reflexivity|]. cbn [repeatN app]. f_equal. exact IH.
Qed.

Section SpanInline.
Variable cfg : icfg.
Variables (k : nat) (T : str) (p0 : spos) (mt : list (N * spos)) (nd : node) (refs : refmap) (rest : list N) (fuel : nat).

Let closer := repeatN 96 k.
Let src := closer ++ T ++ closer ++ [].

Hypothesis Hk : (1 <= k)%nat.
Hypothesis HT0 : match T with x :: _ => (x =? 96) = false | [] => False end.
Hypothesis HTl : last_not 96 T.
Hypothesis Hruns : iruns_lt 96 (N.of_nat k) T = true.
Hypothesis Hutf : starts_clean T /\ no_cont_after 96 T = true.
Hypothesis Hchain : ic_chain cfg = I_TEXT :: I_NEWLINE :: I_ESCAPE :: I_BACKTICK :: rest.
Hypothesis Hstop : (if ic_text_punct cfg then punct_stop 96 else mem 96 (ic_text_stops cfg)) = true.
Hypothesis Hnest : 0 < ic_maxnest cfg.
Hypothesis Hnd : n_children nd = [].
Hypothesis Hfuel : (0 < fuel)%nat.

Lemma src_head : exists body, src = 96 :: body.
Proof. unfold src, closer. rewrite (repeatN_head 96 k Hk). eexists. reflexivity. Qed.

Lemma rev_src_head : exists body, rev src = 96 :: body.
Proof.
  unfold src. rewrite app_nil_r, !rev_app_distr. unfold closer. rewrite rev_repeatN, (repeatN_head 96 k Hk). eexists. reflexivity.
Qed.

Theorem span_inline_parse :
  exists rng rng2,
  inline_parse fuel cfg src ((0, p0) :: mt) nd refs =
    inr (push_child nd (mk (KCodeInline 96 (N.of_nat k)) rng [mk (KText (span_text T)) rng2 []])).
Proof.
  unfold inline_parse. destruct rev_src_head as [rb Hrb]. destruct src_head as [sb Hsb].
  rewrite Hrb. cbn [span]. change (is_sptab 96) with false. cbv iota. cbn [fst]. change (len []) with 0.
  replace (len src - 0) with (len src) by lia.
  assert (Hlen : 0 < len src) by (rewrite Hsb; unfold len; cbn [length]; lia).
  replace (len src =? 0) with false by lia.
  replace (fst (span is_sptab src)) with (@nil N) by (rewrite Hsb; reflexivity). change (len []) with 0.
  cbv zeta.
  set (st0 := IState src ((0, p0) :: mt) nd 0 (len src) [] 0 0 [] refs).
  destruct fuel as [|f]; [lia|]. cbn [itokenize]. unfold Inline.tokenize_body.
  change (i_max st0) with (len src). change (i_pos st0) with 0.
  remember (S (N.to_nat (len src - 0))) as n1 eqn:En1. cbn [Inline.tok_loop].
  change (i_pos st0) with 0. replace (0 <? len src) with true by lia. cbn [negb].
  change (i_level st0) with 0. replace (0 <? ic_maxnest cfg) with true by lia.
  (* the rules in front of the backtick rule decline at a backtick *)
  assert (Hrest0 : irest st0 = inr src).
  { unfold irest, isl. cbn [i_src i_pos i_max st0]. unfold slice.
    assert (is_boundary src 0 = true) by reflexivity.
    assert (is_boundary src (len src) = true).
    { unfold is_boundary. replace (len src =? 0) with false by lia. unfold dropN, len. rewrite Nnat.Nat2N.id.
      assert (forall l : str, drop (length l) l = []) by (induction l; auto). rewrite H0. lia. }
    rewrite H, H0. replace ((0 <=? len src) && (len src <=? len src)) with true by lia. cbn [andb].
    unfold sub. replace (len src - 0) with (len src) by lia. change (dropN 0 src) with src. unfold takeN, len. rewrite Nnat.Nat2N.id.
    unfold ret. f_equal. apply take_all_len. lia. }
  assert (Htext : rule_text cfg st0 false = inr (st0, None)).
  { unfold rule_text. rewrite Hrest0. cbn [bind ret]. rewrite Hsb. cbn [span].
    destruct (ic_text_punct cfg); rewrite Hstop; reflexivity. }
  assert (Hnl : rule_newline st0 false = inr (st0, None)).
  { unfold rule_newline. rewrite Hrest0. cbn [bind ret]. rewrite Hsb. reflexivity. }
  assert (Hesc : rule_escape st0 false = inr (st0, None)).
  { unfold rule_escape. rewrite Hrest0. cbn [bind ret]. rewrite Hsb. reflexivity. }
  assert (A3 : i_src st0 = [] ++ (repeatN 96 k ++ T ++ repeatN 96 k ++ []) ++ []) by (cbn [app i_src st0]; rewrite app_nil_r; reflexivity).
  assert (A5 : i_max st0 = len (@nil N) + len (repeatN 96 k ++ T ++ repeatN 96 k ++ [])) by (cbn [i_max st0]; unfold len at 2; cbn [length]; unfold src, closer; lia).
  assert (A12 : match rev (trailing_text_get st0) with x :: _ => (x =? 96) = false | [] => True end).
  { unfold trailing_text_get. cbn [i_node st0]. rewrite Hnd. exact I. }
  destruct (code_span_verbatim st0 96 k [] T [] [] ltac:(lia) Hk A3 eq_refl A5 I HT0 HTl Hruns Hutf I A12 eq_refl
              (ex_intro _ p0 (ex_intro _ mt eq_refl))) as (mv & rng & rng2 & Hcode).
  rewrite Hchain. cbn [Inline.try_rules]. unfold run_rule.
  change (I_TEXT =? I_TEXT) with true. cbv iota. rewrite Htext. cbn [bind ret snd fst].
  change (I_NEWLINE =? I_TEXT) with false. change (I_NEWLINE =? I_NEWLINE) with true. cbv iota. rewrite Hnl. cbn [bind ret snd fst].
  change (I_ESCAPE =? I_TEXT) with false. change (I_ESCAPE =? I_NEWLINE) with false. change (I_ESCAPE =? I_ESCAPE) with true. cbv iota.
  rewrite Hesc. cbn [bind ret snd fst].
  change (I_BACKTICK =? I_TEXT) with false. change (I_BACKTICK =? I_NEWLINE) with false. change (I_BACKTICK =? I_ESCAPE) with false.
  change (I_BACKTICK =? I_BACKTICK) with true. cbv iota. rewrite Hcode. cbn [bind ret snd fst].
  cbn [i_pos ipush iset_node set_bt iset_bt st0 iset_pos].
  assert (Hend : 0 + (N.of_nat k + len T + N.of_nat k) = len src).
  { unfold src, closer. rewrite !len_app. assert (Hr : len (repeatN 96 k) = N.of_nat k) by (unfold len; rewrite length_repeatN; reflexivity).
    rewrite !Hr. change (len []) with 0. lia. }
  rewrite Hend. replace (len src <=? len src) with true by lia.
  cbn [bind ret i_node iset_pos ipush iset_node set_bt iset_bt].
  exists rng, rng2. reflexivity.
Qed.

End SpanInline.

(* ------------------------------------------------------------------ *)
(* a document that is one line starting with a backtick: one paragraph    *)

Section BacktickLine.
Variable cfg : bcfg.
Variables (body : str) (root : node) (refs : refmap) (fuel : nat).
Let line := 96 :: body.

Hypothesis Hchain : bc_chain cfg = [R_CODE; R_FENCE; R_QUOTE; R_HR; R_LIST; R_REF; R_HEADING; R_LHEADING; R_PARA].
Hypothesis Hnest : 0 < bc_maxnest cfg.
(* not an opening fence: fewer than three backticks, or a backtick in what follows them *)
Hypothesis Hfence : (count_prefix 96 line <? 3) || mem 96 (dropN (count_prefix 96 line) line) = true.
Hypothesis Hf : (0 < fuel)%nat.

Theorem backtick_line_block_parse :
  exists rng,
  block_parse fuel cfg [line] root refs =
    inr (push_child root (mk KParagraph rng [mk (KInlineRoot line [(0, SRel 0 0)]) None []]), refs).
Proof.
  destruct fuel as [|f]; [lia|]. unfold block_parse. cbv zeta. cbn [btokenize map length].
  assert (Hml : mk_line line = LRec line 0 0) by reflexivity. rewrite Hml.
  set (st0 := BState [LRec line 0 0] root 0 0 1 false None 0 refs).
  assert (Hrec : line_rec st0 0 = inr (LRec line 0 0)) by reflexivity.
  assert (Hind : line_indent st0 0 = inr 0%Z) by reflexivity.
  assert (Hgl : get_line st0 0 = inr line).
  { unfold get_line. rewrite Hrec. cbn [bind ret l_first l_end l_text]. unfold l_end. cbn [l_text]. replace (0 <=? len line) with true by lia. reflexivity. }
  unfold Block.tokenize_body. change (b_max st0) with 1%nat. change (b_line st0) with 0%nat. change (S (1 - 0)) with 2%nat.
  cbn [Block.tok_loop]. change (b_line st0) with 0%nat. change (b_max st0) with 1%nat. change (0 <? 1)%nat with true. cbn [negb].
  assert (Hne : is_empty st0 0 = false).
  { unfold is_empty. cbn [b_lines st0 nth_error l_first]. unfold l_end. cbn [l_text]. unfold len, line. cbn [length]. lia. }
  assert (Hskip : skip_empty_lines st0 0 = 0%nat).
  { unfold skip_empty_lines. change (b_max st0) with 1%nat. cbn [skip_empty_from Nat.sub]. rewrite Hne, andb_false_r. reflexivity. }
  rewrite Hskip. change (set_line st0 0) with st0. change (b_max st0) with 1%nat. change (1 <=? 0)%nat with false.
  rewrite Hind. cbn [bind ret]. change (0 <? 0)%Z with false. change (b_level st0) with 0. replace (bc_maxnest cfg <=? 0) with false by lia.
  (* every rule in front of the paragraph rule declines *)
  assert (Hcode : rule_code st0 = inr (st0, false)) by (unfold rule_code; change (b_line st0) with 0%nat; rewrite Hind; reflexivity).
  assert (Hfo : fence_open st0 = inr None).
  { unfold fence_open. change (b_line st0) with 0%nat. rewrite Hind, Hgl. cbn [bind ret]. change (4 <=? 0)%Z with false.
    unfold line at 1. change ((96 =? 126) || (96 =? 96)) with true. cbv iota. fold line.
    destruct (count_prefix 96 line <? 3) eqn:E3; [reflexivity|]. cbn [orb] in Hfence. change (96 =? 96) with true. cbn [andb]. rewrite Hfence. reflexivity. }
  assert (Hfe : rule_fence cfg st0 = inr (st0, false)) by (unfold rule_fence; rewrite Hfo; reflexivity).
  assert (Hq : rule_quote cfg (btokenize f cfg) st0 = inr (st0, false)).
  { unfold rule_quote, quote_open. change (b_line st0) with 0%nat. rewrite Hind, Hgl. reflexivity. }
  assert (Hhr : rule_hr st0 = inr (st0, false)).
  { unfold rule_hr, hr_match. change (b_line st0) with 0%nat. rewrite Hind, Hgl. reflexivity. }
  assert (Hli : rule_list cfg (btokenize f cfg) st0 = inr (st0, false)).
  { unfold rule_list, list_open. cbn [andb]. change (b_line st0) with 0%nat. rewrite Hind, Hrec, Hgl. reflexivity. }
  assert (Href : rule_reference cfg st0 = inr (st0, false)).
  { unfold rule_reference. change (b_line st0) with 0%nat. rewrite Hind, Hgl. reflexivity. }
  assert (Hhe : rule_heading st0 = inr (st0, false)).
  { unfold rule_heading, heading_open. change (b_line st0) with 0%nat. rewrite Hind, Hgl. reflexivity. }
  assert (Hlh : rule_lheading cfg st0 = inr (st0, false)).
  { unfold rule_lheading. change (b_line st0) with 0%nat. rewrite Hind. cbn [bind ret]. change (4 <=? 0)%Z with false.
    change (b_max st0) with 1%nat. cbn [lheading_scan]. change (b_max st0) with 1%nat. reflexivity. }
  assert (Hpa : exists rng, rule_paragraph cfg st0 =
            inr (push_node (set_line st0 1) (mk KParagraph rng [mk (KInlineRoot line [(0, SRel 0 0)]) None []]), true)).
  { unfold rule_paragraph. cbv zeta. change (b_line st0) with 0%nat. change (b_max st0) with 1%nat. cbn [para_scan].
    change (b_max st0) with 1%nat. change (Nat.leb 1 1) with true. cbn [orb bind ret].
    unfold get_lines. change (0 <=? 1)%nat with true. change (1 - 0)%nat with 1%nat. cbn [get_lines_loop].
    change (0 <? 1)%nat with true. cbn [negb]. rewrite Hrec. cbn [bind ret l_first l_end l_text l_indent]. unfold l_end. cbn [l_text].
    replace (0 <=? len line) with true by lia. cbn [negb]. change (b_blk st0) with 0.
    change (calc_right_whitespace (takeN 0 line) (0 - Z.of_N 0)) with (0, 0). cbv iota beta.
    cbn [N.to_nat seq map repeatN app]. change (1 <? 1)%nat with false. cbn [orb app]. rewrite app_nil_r.
    change (dropN 0 line) with line. change (len [] + 0) with 0.
    unfold get_map. change (0 <=? 1 - 1)%nat with true. unfold pos_first, pos_end. change (1 - 1)%nat with 0%nat.
    cbn [b_lines set_line st0 line_rec nth_error bind ret]. eexists. reflexivity. }
  destruct Hpa as [rng Hpa]. exists rng.
  rewrite Hchain. cbn [Block.try_rules]. unfold Block.rule_real.
  repeat match goal with |- context [(?a =? ?b)] => let v := eval vm_compute in (a =? b) in change (a =? b) with v end.
  cbv iota. rewrite Hcode. cbn [bind ret snd]. rewrite Hfe. cbn [bind ret snd]. rewrite Hq. cbn [bind ret snd].
  rewrite Hhr. cbn [bind ret snd]. rewrite Hli. cbn [bind ret snd]. rewrite Href. cbn [bind ret snd].
  rewrite Hhe. cbn [bind ret snd]. rewrite Hlh. cbn [bind ret snd]. rewrite Hpa. cbn [bind ret snd fst].
  cbn [b_line b_max set_line push_node set_node set_tight st0]. change (0 <? 1)%nat with true. cbn [bind ret snd fst].
  change (1 <? 1)%nat with false. cbn [andb Block.tok_loop b_line b_max set_line push_node set_node set_tight]. change (1 <? 1)%nat with false. cbn [negb].
  cbn [bind ret b_node b_refs set_tight push_node set_node set_line st0]. reflexivity.
Qed.

End BacktickLine.

(* ------------------------------------------------------------------ *)
(* the whole pipeline for a document that is one code span               *)

Lemma span_text_nonempty T : T <> [] -> exists c r, span_text T = c :: r.
Proof.
  intros H. unfold span_text. cbv zeta. set (content := map (fun b => if b =? 10 then 32 else b) T).
  assert (Hne : content <> []) by (unfold content; destruct T; [congruence|discriminate]).
  match goal with |- context [if ?c then _ else _] => destruct c eqn:E end.
  - apply strip_len in E. unfold sub, takeN, dropN, len in *.
    destruct content as [|c0 [|c1 [|c2 l2]]]; cbn [length] in *; try lia.
    replace (N.to_nat (N.of_nat (S (S (S (length l2)))) - 1 - 1)) with (S (length l2)) by lia.
    change (N.to_nat 1) with 1%nat. cbn [drop take]. do 2 eexists. reflexivity.
  - destruct content as [|c0 l0]; [congruence|]. do 2 eexists. reflexivity.
Qed.

Lemma mem_app_r x (a b : str) : mem x b = true -> mem x (a ++ b) = true.
Proof. intros H. induction a as [|y a IH]; [exact H|]. cbn [app mem]. rewrite IH. apply orb_true_r. Qed.

Lemma render_root_para_code xhtml rm ra re pm pa pe k t cm tm :
  pa = [] ->
  render xhtml (Node KRoot rm ra re [Node KParagraph pm pa pe [mk (KCodeInline 96 k) cm [mk (KText t) tm []]]]) =
  inr (replace_nul (bs "<p><code>" ++ escape_html t ++ bs "</code></p>" ++ [10]%N)).
Proof.
  intros ->. unfold render. cbn [render_events mk n_kind n_attrs n_children map bind ret app]. rewrite serialize_chunks. f_equal. f_equal.
  cbn. rewrite <- ?app_assoc. reflexivity.
Qed.

Section SpanPipeline.
Variables (k : nat) (T : str) (src : str).
Hypothesis Hk : (1 <= k)%nat.
Hypothesis HT0 : match T with x :: _ => (x =? 96) = false | [] => False end.
Hypothesis HTl : last_not 96 T.
Hypothesis Hruns : iruns_lt 96 (N.of_nat k) T = true.
Hypothesis Hutf : starts_clean T /\ no_cont_after 96 T = true.
(* the source is one line: k backticks, the payload, k backticks *)
Hypothesis Hsrc : texts_of src = [repeatN 96 k ++ T ++ repeatN 96 k ++ []].

Theorem span_document_html xhtml :
  html_of_parse (default_fuel md_cmark) md_cmark xhtml src =
  inr (replace_nul (bs "<p><code>" ++ escape_html (span_text T) ++ bs "</code></p>" ++ [10]%N)).
Proof.
  unfold html_of_parse, parse.
  assert (Hic : snd (r_iter (md_inline md_cmark)) = inr [1; 2; 3; 4; 5; 6; 7; 8; 9; 10; 11]) by (vm_compute; reflexivity).
  assert (Hti : md_text_impl md_cmark = None) by (vm_compute; reflexivity).
  assert (Hcm : fst (choose_text_impl (md_charmap md_cmark)) = true) by (vm_compute; reflexivity).
  pose proof cmark_core as Hc. pose proof cmark_block as Hb.
  destruct (r_iter (md_core md_cmark)) as [rc cc]. destruct (r_iter (md_block md_cmark)) as [rb bc].
  destruct (r_iter (md_inline md_cmark)) as [ri ich]. cbn [snd] in *. subst cc bc ich. cbn [bind ret].
  rewrite cmark_prefix, cmark_nest, Hti.
  cbn [fold_left]. unfold core_step at 3. cbn [bind ret]. change (C_BLOCK =? C_BLOCK) with true. cbv iota.
  fold (texts_of src). rewrite Hsrc.
  set (line := repeatN 96 k ++ T ++ repeatN 96 k ++ []).
  assert (Hline : exists body, line = 96 :: body) by (unfold line; rewrite (repeatN_head 96 k Hk); eexists; reflexivity).
  destruct Hline as [body Hline].
  set (bcf := BCfg _ 100 (bs "language-")).
  assert (Hfence : (count_prefix 96 (96 :: body) <? 3) || mem 96 (dropN (count_prefix 96 (96 :: body)) (96 :: body)) = true).
  { rewrite <- Hline. unfold line.
    assert (HT0' : match T ++ repeatN 96 k ++ [] with x :: _ => (x =? 96) = false | [] => True end) by (destruct T; [contradiction|exact HT0]).
    rewrite (count_prefix_repeat 96 k _ HT0'), dropN_repeat_app.
    destruct (N.of_nat k <? 3); [reflexivity|]. cbn [orb]. apply mem_app_r. rewrite (repeatN_head 96 k Hk). reflexivity. }
  destruct (backtick_line_block_parse bcf body (mk KRoot None []) [] (default_fuel md_cmark) eq_refl ltac:(reflexivity) Hfence ltac:(vm_compute; lia)) as [prng Hbp].
  rewrite Hline. rewrite Hbp. cbn [bind ret fst snd]. rewrite <- Hline.
  unfold core_step at 2. cbn [bind ret]. change (C_INLINE =? C_BLOCK) with false. change (C_INLINE =? C_INLINE) with true. cbv iota.
  cbn [set_children push_child mk n_children app].
  set (icf := ICfg _ 100 _ _ _).
  destruct (span_inline_parse icf k T (SRel 0 0) [] (Node (KInlineRoot [] []) None [] [] []) [] [5; 6; 7; 8; 9; 10; 11] (default_fuel md_cmark)
              Hk HT0 HTl Hruns Hutf eq_refl) as (crng & trng & Hip).
  - unfold icf. cbn [ic_text_punct]. rewrite Hcm. reflexivity.
  - reflexivity.
  - reflexivity.
  - vm_compute. lia.
  - cbn [inline_walk n_kind n_map n_attrs n_env bind ret mk]. fold line in Hip. rewrite Hip. cbn [bind ret n_children push_child set_children app].
    unfold core_step. cbn [bind ret]. change (C_FRAGJOIN =? C_BLOCK) with false. change (C_FRAGJOIN =? C_INLINE) with false.
    change (C_FRAGJOIN =? C_FRAGJOIN) with true. cbv iota.
    assert (HTne : T <> []) by (destruct T; [contradiction|discriminate]).
    destruct (span_text_nonempty T HTne) as (c0 & r0 & Hst). rewrite Hst.
    cbn [fj_walk map fragments_join set_children n_children marker_to_text n_kind fj_collapse is_text text_nonempty app d_root mk].
    rewrite <- Hst. apply render_root_para_code. reflexivity.
Qed.

End SpanPipeline.
