(* End-to-end statements for whole documents under the default CommonMark parser (property C11):
   source text -> lines -> block pass -> inline pass -> clean-up -> HTML. *)
From Coq Require Import String.
From MdIt Require Import Prims Tables Escape NormRef Indent Mdurl LinkParse Ruler Tree Render Block Inline Core Dump Dispatch.
From MdIt Require Import RenderProofs LookaheadProofs RangeProofs CodeProofs CodeSearchProofs LineProofs.
From Coq Require Import Lia ZifyBool ZifyN ZifyNat.
Local Open Scope string_scope.
Local Open Scope list_scope.
Local Open Scope N_scope.

Arguments N.eqb : simpl never.
Arguments N.leb : simpl never.
Arguments N.ltb : simpl never.
Arguments N.add : simpl never.
Arguments N.sub : simpl never.
Arguments Z.leb : simpl never.
Arguments Z.ltb : simpl never.
Arguments Z.sub : simpl never.
Arguments Z.of_N : simpl never.

(* ------------------------------------------------------------------ *)
(* lines of an LF-terminated text                                        *)

Definition eol_free (l : str) : bool := forallb (fun c => negb (c =? 10) && negb (c =? 13)) l.
Definition lf_lines (ls : list str) : str := flat_map (fun l => l ++ [10]) ls.

Lemma texts_loop_line l : forall rest cur, eol_free l = true ->
  texts_loop (l ++ 10 :: rest) cur = match rest with [] => [rev cur ++ l] | _ => (rev cur ++ l) :: texts_loop rest [] end.
Proof.
  induction l as [|c l IH]; intros rest cur H.
  - cbn [app texts_loop]. change (10 =? 10) with true. cbv iota. rewrite app_nil_r. destruct rest; reflexivity.
  - cbn [eol_free forallb] in H. apply andb_true_iff in H. destruct H as [Hc Hl]. apply andb_true_iff in Hc. destruct Hc as [H10 H13].
    cbn [app texts_loop]. destruct (c =? 10); [discriminate|]. destruct (c =? 13); [discriminate|].
    rewrite (IH rest (c :: cur) Hl). cbn [rev]. rewrite <- !app_assoc. reflexivity.
Qed.

Theorem texts_of_lf_lines ls : ls <> [] -> forallb eol_free ls = true -> texts_of (lf_lines ls) = ls.
Proof.
  intros Hne H. rewrite texts_of_loop. induction ls as [|l ls IH]; [congruence|].
  cbn [forallb] in H. apply andb_true_iff in H. destruct H as [Hl Hls].
  unfold lf_lines. cbn [flat_map]. rewrite <- app_assoc. cbn [app]. rewrite texts_loop_line by exact Hl. cbn [rev app].
  destruct ls as [|l2 ls']; [reflexivity|].
  fold (lf_lines (l2 :: ls')). destruct (lf_lines (l2 :: ls')) eqn:E.
  - unfold lf_lines in E. cbn [flat_map] in E. destruct l2; discriminate.
  - f_equal. apply IH; [discriminate|exact Hls].
Qed.

(* ------------------------------------------------------------------ *)
(* the block pass over a document that is one fenced block               *)

Definition fence_leads (chain : list N) : Prop :=
  exists rest, chain = R_FENCE :: rest \/ chain = R_CODE :: R_FENCE :: rest.

Section FenceDoc.
Variable cfg : bcfg.
Variables (m : N) (n : nat) (pre cpre params trail : str) (n' : nat) (texts : list (list N)).
Variables (root : node) (refs : refmap) (fuel : nat).

Hypothesis Hchain : fence_leads (bc_chain cfg).
Hypothesis Hnest : 0 < bc_maxnest cfg.
Hypothesis Hm : m = 96 \/ m = 126.
Hypothesis Hn : (3 <= n)%nat.
Hypothesis Hpre : forallb is_ws pre = true.
Hypothesis Hcpre : forallb is_ws cpre = true.
Hypothesis Hcols : cols_from 0 pre < 4.
Hypothesis Hccols : cols_from 0 cpre < 4.
Hypothesis Hparams0 : match params with x :: _ => (x =? m) = false | [] => True end.
Hypothesis Hparams : m = 96 -> mem 96 params = false.
Hypothesis Hruns : forall T, In T texts -> runs_lt m (N.of_nat n) T = true.
Hypothesis Hn' : (n <= n')%nat.
Hypothesis Htrail : all_sptab trail = true.

Let opener := pre ++ repeatN m n ++ params.
Let closing := cpre ++ repeatN m n' ++ trail.
Let doc := opener :: map (fun T => pre ++ T) texts ++ [closing].

Lemma doc_nth_payload i T : nth_error texts i = Some T -> nth_error (map mk_line doc) (S i) = Some (mk_line (pre ++ T)).
Proof.
  intros H. unfold doc. cbn [map nth_error]. rewrite map_app, nth_error_app1.
  - rewrite map_map. rewrite (map_nth_error (fun T0 => mk_line (pre ++ T0)) i texts H). reflexivity.
  - rewrite !map_length. apply nth_error_Some. congruence.
Qed.

Lemma doc_nth_closing : nth_error (map mk_line doc) (S (length texts)) = Some (mk_line closing).
Proof.
  unfold doc. cbn [map nth_error]. rewrite map_app, nth_error_app2; rewrite !map_length; [|lia].
  replace (length texts - length texts)%nat with 0%nat by lia. reflexivity.
Qed.

Lemma doc_length : length (map mk_line doc) = S (S (length texts)).
Proof. unfold doc. cbn [map length]. rewrite map_length, app_length, map_length. cbn [length]. lia. Qed.

Lemma opener_not_empty (st : bstate) : nth_error (b_lines st) 0 = Some (mk_line opener) -> is_empty st 0 = false.
Proof.
  intros H. unfold is_empty. rewrite H. unfold opener.
  rewrite (marker_line m pre n params Hm Hpre) by lia. unfold l_end. cbn [l_text l_first].
  rewrite !len_app. pose proof (length_repeatN m n). unfold len at 2. lia.
Qed.

Lemma tok_loop_done rec k (st : bstate) he : (b_max st <= b_line st)%nat -> Block.tok_loop cfg rec k st he = ret st.
Proof.
  intros H. destruct k; cbn [Block.tok_loop]; replace (b_line st <? b_max st)%nat with false by (symmetry; apply PeanoNat.Nat.ltb_ge; exact H); reflexivity.
Qed.

Theorem fence_block_parse (Hf : (0 < fuel)%nat) :
  exists rng,
  block_parse fuel cfg doc root refs =
    inr (push_child root (mk (KFence params m (N.of_nat n) (out_lines true texts) (bc_fence_prefix cfg)) rng []), refs).
Proof.
  destruct fuel as [|f]; [lia|]. unfold block_parse. cbv zeta. cbn [btokenize].
  pose (st0 := BState (map mk_line doc) root 0 0 (length (map mk_line doc)) false None 0 refs).
  fold st0.
  assert (Hl0 : b_line st0 = 0%nat) by reflexivity.
  assert (Hm0 : b_max st0 = S (S (length texts))) by (unfold st0; cbn [b_max]; apply doc_length).
  assert (Hb0 : b_blk st0 = 0) by reflexivity.
  assert (Hopen : nth_error (b_lines st0) (b_line st0) = Some (mk_line opener)) by reflexivity.
  destruct (fence_verbatim cfg st0 m n pre cpre params trail n' texts) as [rng Hrule]; try assumption.
  - rewrite Hb0. lia.
  - rewrite Hb0. lia.
  - intros i T Hi. rewrite Hl0. split; [apply doc_nth_payload; exact Hi|apply Hruns; eapply nth_error_In; exact Hi].
  - rewrite Hl0. apply doc_nth_closing.
  - rewrite Hl0, Hm0. lia.
  - exists rng. unfold Block.tokenize_body. rewrite Hm0, Hl0.
    replace (S (S (length texts)) - 0)%nat with (S (S (length texts))) by lia.
    remember (S (S (length texts))) as k1 eqn:Ek1.
    cbn [Block.tok_loop]. rewrite Hl0, Hm0.
    replace (0 <? k1)%nat with true by (symmetry; apply PeanoNat.Nat.ltb_lt; lia). cbn [negb].
    assert (Hskip : skip_empty_lines st0 0 = 0%nat).
    { unfold skip_empty_lines. rewrite Hm0. cbn [skip_empty_from]. rewrite Hl0 in Hopen. rewrite (opener_not_empty st0 Hopen). rewrite andb_false_r. reflexivity. }
    rewrite Hskip. change (set_line st0 0) with st0. rewrite Hm0.
    replace (k1 <=? 0)%nat with false by (symmetry; apply PeanoNat.Nat.leb_gt; lia).
    pose proof Hopen as Ho. rewrite Hl0 in Ho. unfold opener in Ho. rewrite (marker_line m pre n params Hm Hpre) in Ho by lia.
    rewrite (line_indent_at _ _ _ _ _ Ho). cbn [bind ret]. rewrite Hb0.
    replace (Z.of_N (cols_from 0 pre) - Z.of_N 0 <? 0)%Z with false by lia.
    change (b_level st0) with 0. replace (bc_maxnest cfg <=? 0) with false by lia.
    assert (Htry : Block.try_rules cfg (btokenize f cfg) (bc_chain cfg) st0 =
                   inr (push_node (set_line st0 (S (S (b_line st0) + length texts)))
                          (mk (KFence params m (N.of_nat n) (out_lines true texts) (bc_fence_prefix cfg)) rng []), true)).
    { assert (Hcode : rule_code st0 = inr (st0, false)).
      { unfold rule_code. rewrite Hl0, (line_indent_at _ _ _ _ _ Ho). cbn [bind ret]. rewrite Hb0.
        replace (Z.of_N (cols_from 0 pre) - Z.of_N 0 <? 4)%Z with true by lia. reflexivity. }
      destruct Hchain as [rest [E|E]]; rewrite E; cbn [Block.try_rules]; unfold Block.rule_real.
      - change (R_FENCE =? R_CODE) with false. change (R_FENCE =? R_FENCE) with true. cbv iota.
        rewrite Hrule. cbn [bind ret snd fst b_line set_line push_node set_node]. rewrite Hl0.
        replace (0 <? S (1 + length texts))%nat with true by reflexivity. reflexivity.
      - change (R_CODE =? R_CODE) with true. cbv iota. rewrite Hcode. cbn [bind ret snd].
        change (R_FENCE =? R_CODE) with false. change (R_FENCE =? R_FENCE) with true. cbv iota.
        rewrite Hrule. cbn [bind ret snd fst b_line set_line push_node set_node]. rewrite Hl0.
        replace (0 <? S (1 + length texts))%nat with true by reflexivity. reflexivity. }
    rewrite Htry. cbn [bind ret snd fst]. rewrite Hl0.
    cbn [b_line b_max set_tight push_node set_node set_line]. rewrite Hm0.
    replace (S (1 + length texts) <? k1)%nat with false by (symmetry; apply PeanoNat.Nat.ltb_ge; lia).
    cbn [andb]. rewrite tok_loop_done by (cbn [b_line b_max set_tight push_node set_node set_line]; rewrite Hm0; lia).
    cbn [bind ret b_node b_refs set_tight push_node set_node set_line]. reflexivity.
Qed.

End FenceDoc.

(* ------------------------------------------------------------------ *)
(* the whole pipeline for the default CommonMark parser                   *)

Definition md_cmark : md := build_md (bs "C") 100.

Lemma cmark_core : snd (r_iter (md_core md_cmark)) = inr [C_BLOCK; C_INLINE; C_FRAGJOIN].
Proof. vm_compute. reflexivity. Qed.
Lemma cmark_block : snd (r_iter (md_block md_cmark)) =
  inr [R_CODE; R_FENCE; R_QUOTE; R_HR; R_LIST; R_REF; R_HEADING; R_LHEADING; R_PARA].
Proof. vm_compute. reflexivity. Qed.
Lemma cmark_inline_ok : exists ic, snd (r_iter (md_inline md_cmark)) = inr ic.
Proof. eexists. vm_compute. reflexivity. Qed.
Lemma cmark_prefix : md_fence_prefix md_cmark = Some (bs "language-").
Proof. vm_compute. reflexivity. Qed.
Lemma cmark_nest : md_maxnest md_cmark = 100.
Proof. vm_compute. reflexivity. Qed.

(* rendering a document that is one fenced block without info string *)
Lemma render_root_fence xhtml rm ra re mk_ k c pfx rng :
  render xhtml (Node KRoot rm ra re [mk (KFence [] mk_ k c pfx) rng []]) =
  inr (replace_nul (bs "<pre><code>" ++ escape_html c ++ bs "</code></pre>" ++ [10]%N)).
Proof.
  unfold render. cbn [render_events mk n_kind n_attrs n_children map]. cbv zeta.
  replace (first_word (unescape_all [])) with (@nil N) by reflexivity. cbn [bind ret app]. rewrite serialize_chunks. f_equal. f_equal.
  cbn. rewrite <- ?app_assoc. reflexivity.
Qed.

Section FencePipeline.
Variables (m : N) (n : nat) (pre cpre trail : str) (n' : nat) (texts : list (list N)) (src : str).

Hypothesis Hm : m = 96 \/ m = 126.
Hypothesis Hn : (3 <= n)%nat.
Hypothesis Hpre : forallb is_ws pre = true.
Hypothesis Hcpre : forallb is_ws cpre = true.
Hypothesis Hcols : cols_from 0 pre < 4.
Hypothesis Hccols : cols_from 0 cpre < 4.
Hypothesis Hruns : forall T, In T texts -> runs_lt m (N.of_nat n) T = true.
Hypothesis Hn' : (n <= n')%nat.
Hypothesis Htrail : all_sptab trail = true.
(* the lines of the source: opening fence, payload lines behind the fence's indentation, closing fence *)
Hypothesis Hsrc : texts_of src = (pre ++ repeatN m n ++ []) :: map (fun T => pre ++ T) texts ++ [cpre ++ repeatN m n' ++ trail].

Theorem fence_document_html xhtml :
  html_of_parse (default_fuel md_cmark) md_cmark xhtml src =
  inr (replace_nul (bs "<pre><code>" ++ escape_html (out_lines true texts) ++ bs "</code></pre>" ++ [10]%N)).
Proof.
  unfold html_of_parse, parse.
  destruct cmark_inline_ok as [ic Hic].
  pose proof cmark_core as Hc. pose proof cmark_block as Hb.
  destruct (r_iter (md_core md_cmark)) as [rc cc]. destruct (r_iter (md_block md_cmark)) as [rb bc].
  destruct (r_iter (md_inline md_cmark)) as [ri ich]. cbn [snd] in *. subst cc bc ich. cbn [bind ret].
  rewrite cmark_prefix, cmark_nest.
  cbn [fold_left]. unfold core_step at 3. cbn [bind ret].
  change (C_BLOCK =? C_BLOCK) with true. cbv iota.
  fold (texts_of src). rewrite Hsrc.
  set (bcf := BCfg _ 100 (bs "language-")).
  destruct (fence_block_parse bcf m n pre cpre [] trail n' texts (mk KRoot None []) [] (default_fuel md_cmark)) as [rng Hbp]; try assumption.
  - exists [R_QUOTE; R_HR; R_LIST; R_REF; R_HEADING; R_LHEADING; R_PARA]. right. reflexivity.
  - reflexivity.
  - exact I.
  - reflexivity.
  - vm_compute. lia.
  - rewrite Hbp. cbn [bind ret fst snd].
    unfold core_step at 2. cbn [bind ret]. change (C_INLINE =? C_BLOCK) with false. change (C_INLINE =? C_INLINE) with true. cbv iota.
    cbn [set_children push_child mk n_children app inline_walk n_kind bind ret].
    unfold core_step. cbn [bind ret]. change (C_FRAGJOIN =? C_BLOCK) with false. change (C_FRAGJOIN =? C_INLINE) with false.
    change (C_FRAGJOIN =? C_FRAGJOIN) with true. cbv iota.
    cbn [fj_walk map fragments_join set_children n_children marker_to_text n_kind fj_collapse is_text app d_root].
    apply render_root_fence.
Qed.

End FencePipeline.

(* ------------------------------------------------------------------ *)
(* a document that is one indented code block                             *)

Section IndentedDoc.
Variable cfg : bcfg.
Variables (pre : str) (texts : list (list N)) (root : node) (refs : refmap) (fuel : nat).

Hypothesis Hchain : exists rest, bc_chain cfg = R_CODE :: rest.
Hypothesis Hnest : 0 < bc_maxnest cfg.
Hypothesis Hpre : forallb is_ws pre = true.
Hypothesis Hcols : cols_from 0 pre = 4.
Hypothesis Hfirst : exists T, nth_error texts 0 = Some T /\ blank T = false.
Hypothesis Hlast : exists T, nth_error texts (length texts - 1) = Some T /\ blank T = false.

Let doc := map (fun T => pre ++ T) texts.

Lemma idoc_nth i T : nth_error texts i = Some T -> nth_error (map mk_line doc) i = Some (mk_line (pre ++ T)).
Proof. intros H. unfold doc. rewrite map_map. apply (map_nth_error (fun T0 => mk_line (pre ++ T0)) i texts H). Qed.

Lemma idoc_length : length (map mk_line doc) = length texts.
Proof. unfold doc. rewrite !map_length. reflexivity. Qed.

Theorem indented_block_parse (Hf : (0 < fuel)%nat) :
  exists rng,
  block_parse fuel cfg doc root refs = inr (push_child root (mk (KCodeBlock (out_lines false texts ++ [10])) rng []), refs).
Proof.
  destruct fuel as [|f]; [lia|]. unfold block_parse. cbv zeta. cbn [btokenize].
  pose (st0 := BState (map mk_line doc) root 0 0 (length (map mk_line doc)) false None 0 refs).
  fold st0.
  assert (Hl0 : b_line st0 = 0%nat) by reflexivity.
  assert (Hm0 : b_max st0 = length texts) by (unfold st0; cbn [b_max]; apply idoc_length).
  assert (Hb0 : b_blk st0 = 0) by reflexivity.
  assert (Hpos : (1 <= length texts)%nat) by (destruct Hfirst as (T & H & _); destruct texts; [discriminate|cbn; lia]).
  assert (H2 : cols_from 0 pre = 4 + b_blk st0) by (rewrite Hb0, Hcols; reflexivity).
  assert (H3 : forall i T, nth_error texts i = Some T -> nth_error (b_lines st0) (b_line st0 + i) = Some (mk_line (pre ++ T))).
  { intros i T Hi. rewrite Hl0. apply idoc_nth. exact Hi. }
  assert (H6 : forall j, (j < 0)%nat -> is_empty st0 (b_line st0 + length texts + j) = true) by (intros j Hj; lia).
  assert (H7 : (b_line st0 + length texts + 0 <= b_max st0)%nat) by (rewrite Hl0, Hm0; lia).
  assert (H8 : (b_line st0 + length texts + 0 = b_max st0)%nat \/
               exists text f ind, nth_error (b_lines st0) (b_line st0 + length texts + 0) = Some (LRec text f ind) /\
                                  f < len text /\ (ind - Z.of_N (b_blk st0) < 4)%Z) by (left; rewrite Hl0, Hm0; lia).
  destruct (code_block_verbatim st0 pre texts 0 Hpre H2 H3 Hfirst Hlast H6 H7 H8) as [rng Hrule].
  exists rng. unfold Block.tokenize_body. rewrite Hm0, Hl0.
    replace (length texts - 0)%nat with (length texts) by lia.
    remember (length texts) as k1 eqn:Ek1.
    cbn [Block.tok_loop]. rewrite Hl0, Hm0.
    replace (0 <? k1)%nat with true by (symmetry; apply PeanoNat.Nat.ltb_lt; lia). cbn [negb].
    destruct Hfirst as (T0 & HT0 & HB0).
    destruct (mk_line_split pre T0 Hpre) as (w & r & ET0 & Hw & Hr0 & Hrec).
    assert (Hline0 : nth_error (b_lines st0) 0 = Some (LRec (pre ++ T0) (len (pre ++ w)) (Z.of_N (cols_from 0 (pre ++ w))))).
    { rewrite <- Hrec. apply idoc_nth. exact HT0. }
    assert (Hrne : r <> []).
    { intros ->. rewrite app_nil_r in ET0. subst T0. unfold blank in HB0. congruence. }
    assert (Hskip : skip_empty_lines st0 0 = 0%nat).
    { unfold skip_empty_lines. rewrite Hm0. cbn [skip_empty_from]. unfold is_empty. rewrite Hline0. unfold l_end. cbn [l_text l_first].
      rewrite ET0. destruct r as [|x r']; [congruence|].
      assert (Hlt : (len (pre ++ w ++ x :: r') <=? len (pre ++ w)) = false).
      { rewrite app_assoc, (len_app (pre ++ w)). unfold len at 2. cbn [length]. lia. }
      rewrite Hlt, andb_false_r. reflexivity. }
    rewrite Hskip. change (set_line st0 0) with st0. rewrite Hm0.
    replace (k1 <=? 0)%nat with false by (symmetry; apply PeanoNat.Nat.leb_gt; lia).
    rewrite (line_indent_at _ _ _ _ _ Hline0). cbn [bind ret]. rewrite Hb0.
    assert (Hge : cols_from 0 pre <= cols_from 0 (pre ++ w)) by (rewrite cols_from_app; pose proof (cols_from_ge (cols_from 0 pre) w); lia).
    replace (Z.of_N (cols_from 0 (pre ++ w)) - Z.of_N 0 <? 0)%Z with false by lia.
    change (b_level st0) with 0. replace (bc_maxnest cfg <=? 0) with false by lia.
    destruct Hchain as [rest E]. rewrite E. cbn [Block.try_rules]. unfold Block.rule_real.
    change (R_CODE =? R_CODE) with true. cbv iota. rewrite Hrule. cbn [bind ret snd fst b_line set_line push_node set_node].
    rewrite Hl0. replace (0 <? 0 + k1)%nat with true by (symmetry; apply PeanoNat.Nat.ltb_lt; lia).
    cbn [bind ret snd fst]. cbn [b_line b_max set_tight push_node set_node set_line]. rewrite Hm0.
    replace (0 + k1 <? k1)%nat with false by (symmetry; apply PeanoNat.Nat.ltb_ge; lia).
    cbn [andb]. rewrite tok_loop_done by (cbn [b_line b_max set_tight push_node set_node set_line]; rewrite Hm0; lia).
    cbn [bind ret b_node b_refs set_tight push_node set_node set_line]. reflexivity.
Qed.

End IndentedDoc.

Lemma render_root_code_block xhtml rm ra re c rng :
  render xhtml (Node KRoot rm ra re [mk (KCodeBlock c) rng []]) =
  inr (replace_nul (bs "<pre><code>" ++ escape_html c ++ bs "</code></pre>" ++ [10]%N)).
Proof.
  unfold render. cbn [render_events mk n_kind n_attrs n_children map]. cbn [bind ret app]. rewrite serialize_chunks. f_equal. f_equal.
  cbn. rewrite <- ?app_assoc. reflexivity.
Qed.

Section IndentedPipeline.
Variables (pre : str) (texts : list (list N)) (src : str).
Hypothesis Hpre : forallb is_ws pre = true.
Hypothesis Hcols : cols_from 0 pre = 4.
Hypothesis Hfirst : exists T, nth_error texts 0 = Some T /\ blank T = false.
Hypothesis Hlast : exists T, nth_error texts (length texts - 1) = Some T /\ blank T = false.
Hypothesis Hsrc : texts_of src = map (fun T => pre ++ T) texts.

Theorem indented_document_html xhtml :
  html_of_parse (default_fuel md_cmark) md_cmark xhtml src =
  inr (replace_nul (bs "<pre><code>" ++ escape_html (out_lines false texts ++ [10]) ++ bs "</code></pre>" ++ [10]%N)).
Proof.
  unfold html_of_parse, parse.
  destruct cmark_inline_ok as [ic Hic].
  pose proof cmark_core as Hc. pose proof cmark_block as Hb.
  destruct (r_iter (md_core md_cmark)) as [rc cc]. destruct (r_iter (md_block md_cmark)) as [rb bc].
  destruct (r_iter (md_inline md_cmark)) as [ri ich]. cbn [snd] in *. subst cc bc ich. cbn [bind ret].
  rewrite cmark_prefix, cmark_nest.
  cbn [fold_left]. unfold core_step at 3. cbn [bind ret].
  change (C_BLOCK =? C_BLOCK) with true. cbv iota.
  fold (texts_of src). rewrite Hsrc.
  set (bcf := BCfg _ 100 (bs "language-")).
  destruct (indented_block_parse bcf pre texts (mk KRoot None []) [] (default_fuel md_cmark)) as [rng Hbp]; try assumption.
  - eexists. reflexivity.
  - reflexivity.
  - vm_compute. lia.
  - rewrite Hbp. cbn [bind ret fst snd].
    unfold core_step at 2. cbn [bind ret]. change (C_INLINE =? C_BLOCK) with false. change (C_INLINE =? C_INLINE) with true. cbv iota.
    cbn [set_children push_child mk n_children app inline_walk n_kind bind ret].
    unfold core_step. cbn [bind ret]. change (C_FRAGJOIN =? C_BLOCK) with false. change (C_FRAGJOIN =? C_INLINE) with false.
    change (C_FRAGJOIN =? C_FRAGJOIN) with true. cbv iota.
    cbn [fj_walk map fragments_join set_children n_children marker_to_text n_kind fj_collapse is_text app d_root].
    apply render_root_code_block.
Qed.

End IndentedPipeline.
