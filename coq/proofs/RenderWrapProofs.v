(* Property C06, the HTML wrapper: a document whose only block is a block quote renders as "<blockquote>" LF, the rendering
   of the quote's content as a document of its own, a line feed unless that rendering is empty or ends with one, and
   "</blockquote>" LF -- for every content, HTML and XHTML.  (The serializer's only context dependence is "am I at a
   line start", and the content starts at a line start in both documents.) *)
From Coq Require Import String.
From MdIt Require Import Prims Tables Escape Tree Render RenderProofs ShiftProofs.
From Coq Require Import Lia ZifyBool ZifyN ZifyNat.
Local Open Scope list_scope.
Local Open Scope N_scope.

Arguments N.eqb : simpl never.

Definition ends_nl (s : str) : bool := at_line_start (rev s).

Lemma als_same xhtml b1 b2 e : at_line_start b1 = at_line_start b2 ->
  at_line_start (ser_event xhtml b1 e) = at_line_start (ser_event xhtml b2 e).
Proof.
  intros H. destruct e as [tag attrs|tag|tag attrs| |s|s]; cbn [ser_event].
  - rewrite !(als_rpush_nonempty _ 62 []). reflexivity.
  - rewrite !(als_rpush_nonempty _ 62 []). reflexivity.
  - rewrite !(als_rpush_nonempty _ 62 []). reflexivity.
  - rewrite !als_cr. reflexivity.
  - apply als_rpush_same. exact H.
  - apply als_rpush_same. exact H.
Qed.

Lemma chunks_als xhtml es : forall b1 b2, at_line_start b1 = at_line_start b2 -> chunks xhtml b1 es = chunks xhtml b2 es.
Proof.
  induction es as [|e t IH]; intros b1 b2 H; [reflexivity|]. cbn [chunks]. rewrite H. f_equal. apply IH. apply als_same. exact H.
Qed.

Lemma chunks_app xhtml a : forall buf b,
  chunks xhtml buf (a ++ b) = chunks xhtml buf a ++ chunks xhtml (fold_left (ser_event xhtml) a buf) b.
Proof. induction a as [|e t IH]; intros buf b; [reflexivity|]. cbn [app chunks fold_left]. rewrite IH. reflexivity. Qed.

Lemma als_rev_app (p s : str) : at_line_start (rev (p ++ s)) = match s with [] => at_line_start (rev p) | _ => at_line_start (rev s) end.
Proof.
  destruct s as [|c t]; [rewrite app_nil_r; reflexivity|]. rewrite rev_app_distr.
  destruct (rev (c :: t)) as [|x r] eqn:E; [apply (f_equal (@length N)) in E; rewrite rev_length in E; discriminate|reflexivity].
Qed.

Lemma rev_inj_buf (b : str) : b = rev (rev b).
Proof. symmetry. apply rev_involutive. Qed.

Definition bq_open : str := bs "<blockquote>".
Definition bq_close : str := bs "</blockquote>".

(* the events of a quote around the events c, serialized from the empty buffer *)
Lemma wrap_chunks xhtml c :
  let h := concat (chunks xhtml [] c) in
  concat (chunks xhtml [] ([ECr; EOpen (bs "blockquote") []; ECr] ++ c ++ [ECr; EClose (bs "blockquote"); ECr])) =
  bq_open ++ [10] ++ h ++ (if ends_nl h then [] else [10]) ++ bq_close ++ [10].
Proof.
  intros h.
  set (b2 := ser_event xhtml (ser_event xhtml (ser_event xhtml [] ECr) (EOpen (bs "blockquote") [])) ECr).
  assert (Hb2 : at_line_start b2 = true) by reflexivity.
  change ([ECr; EOpen (bs "blockquote") []; ECr] ++ c ++ [ECr; EClose (bs "blockquote"); ECr])
    with (ECr :: EOpen (bs "blockquote") [] :: ECr :: (c ++ [ECr; EClose (bs "blockquote"); ECr])).
  cbn [chunks]. fold b2. rewrite chunks_app.
  rewrite (chunks_als xhtml c b2 [] Hb2). fold h.
  set (b3 := fold_left (ser_event xhtml) c b2).
  assert (H3 : at_line_start b3 = ends_nl h).
  { unfold b3, ends_nl. rewrite (rev_inj_buf (fold_left (ser_event xhtml) c b2)), fold_chunks.
    rewrite (chunks_als xhtml c b2 [] Hb2). fold h. rewrite als_rev_app.
    destruct h; [rewrite rev_involutive; exact Hb2|reflexivity]. }
  cbn [chunks]. rewrite H3.
  assert (H4 : at_line_start (ser_event xhtml (ser_event xhtml b3 ECr) (EClose (bs "blockquote"))) = false).
  { cbn [ser_event]. rewrite (als_rpush_nonempty _ 62 []). reflexivity. }
  rewrite H4. cbn [concat]. rewrite concat_app. cbn [concat chunk at_line_start app attrs_chunk flat_map]. fold h.
  unfold bq_open, bq_close. rewrite ?app_nil_r, <- ?app_assoc. cbn [app].
  change (bs "<blockquote>") with ([60] ++ bs "blockquote" ++ [62]).
  change (bs "</blockquote>") with ([60; 47] ++ bs "blockquote" ++ [62]).
  rewrite <- ?app_assoc. cbn [app]. destruct (ends_nl h); reflexivity.
Qed.

Lemma replace_nul_app a b : replace_nul (a ++ b) = replace_nul a ++ replace_nul b.
Proof. unfold replace_nul. apply flat_map_app. Qed.

Lemma ends_nl_replace_nul h : ends_nl (replace_nul h) = ends_nl h.
Proof.
  unfold ends_nl. induction h as [|x t IH] using rev_ind; [reflexivity|].
  rewrite replace_nul_app, !rev_app_distr. cbn [replace_nul flat_map rev app].
  destruct (x =? 0) eqn:E; cbn [app rev at_line_start]; [|reflexivity].
  assert (x = 0) by lia. subst x. reflexivity.
Qed.

Definition bq_wrap (h : str) : str := bq_open ++ [10] ++ h ++ (if ends_nl h then [] else [10]) ++ bq_close ++ [10].

Lemma replace_nul_ascii s : forallb (fun b => negb (b =? 0)) s = true -> replace_nul s = s.
Proof. apply replace_nul_id. Qed.

Theorem quote_wrapper_html xhtml m a e m2 e2 m' a' e' cs :
  render xhtml (Node KRoot m a e [Node KBlockquote m2 [] e2 cs]) = fmap bq_wrap (render xhtml (Node KRoot m' a' e' cs)).
Proof.
  unfold render. cbn [render_events].
  match goal with |- context [fmap _ (bind (?g cs) _)] => set (go := g) end.
  destruct (go cs) as [err|c]; [reflexivity|]. cbn [bind ret fmap].
  rewrite !serialize_chunks. rewrite app_nil_r. unfold ret. f_equal.
  change ([ECr; EOpen (bs "blockquote") []; ECr] ++ c ++ [ECr; EClose (bs "blockquote"); ECr])
    with ([ECr; EOpen (bs "blockquote") []; ECr] ++ c ++ [ECr; EClose (bs "blockquote"); ECr]).
  rewrite wrap_chunks. cbv zeta. unfold bq_wrap. rewrite !replace_nul_app, ends_nl_replace_nul.
  rewrite (replace_nul_ascii bq_open) by reflexivity. rewrite (replace_nul_ascii bq_close) by reflexivity.
  destruct (ends_nl (concat (chunks xhtml [] c))); reflexivity.
Qed.
