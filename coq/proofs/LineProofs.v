(* Proofs for C10: the parser sees the source only through the list of line texts, and that list
   does not depend on the line-ending convention nor on a final line ending *)
From MdIt Require Import Prims Tables Indent Ruler Tree Render Block Inline Core.
From Coq Require Import Lia ZifyBool ZifyN ZifyNat.
Local Open Scope list_scope.
Local Open Scope N_scope.

Arguments N.eqb : simpl never.
Arguments N.add : simpl never.

(* ------------------------------------------------------------------ *)
(* 1. the line splitter                                                 *)

Definition texts_of (src : str) : list str := map snd (split_lines src).

(* the texts do not depend on the offsets carried along *)
Fixpoint texts_loop (s : str) (cur : str) : list str :=
  match s with
  | [] => [rev cur]
  | c :: t =>
    if c =? 10 then
      match t with [] => [rev cur] | _ :: _ => rev cur :: texts_loop t [] end
    else if c =? 13 then
      match t with
      | [] => [rev cur]
      | d :: t' =>
        if d =? 10 then match t' with [] => [rev cur] | _ :: _ => rev cur :: texts_loop t' [] end
        else rev cur :: texts_loop t []
      end
    else texts_loop t (c :: cur)
  end.

Lemma len_ind (P : str -> Prop) :
  (forall s, (forall s', (length s' < length s)%nat -> P s') -> P s) -> forall s, P s.
Proof.
  intros H s. remember (length s) as n eqn:E. revert s E.
  induction n as [n IH] using (well_founded_induction PeanoNat.Nat.lt_wf_0).
  intros s ->. apply H. intros s' Hs'. exact (IH _ Hs' s' eq_refl).
Qed.

Lemma split_texts s : forall pos start cur, map snd (split_lines_loop s pos start cur) = texts_loop s cur.
Proof.
  induction s as [s IH] using len_ind. intros pos start cur.
  destruct s as [|c t]; [reflexivity|]. cbn [split_lines_loop texts_loop].
  destruct (c =? 10).
  - destruct t as [|d t']; [reflexivity|]. cbn [map snd]. f_equal. apply IH. cbn; lia.
  - destruct (c =? 13).
    + destruct t as [|d t']; [reflexivity|]. destruct (d =? 10).
      * destruct t' as [|e t'']; [reflexivity|]. cbn [map snd]. f_equal. apply IH. cbn; lia.
      * cbn [map snd]. f_equal. apply IH. cbn; lia.
    + apply IH. cbn; lia.
Qed.

Lemma texts_of_loop src : texts_of src = texts_loop src [].
Proof. unfold texts_of, split_lines. apply split_texts. Qed.

(* LF -> CRLF and LF -> CR *)
Definition to_crlf (s : str) : str := flat_map (fun c => if c =? 10 then [13; 10] else [c]) s.
Definition to_cr (s : str) : str := map (fun c => if c =? 10 then 13 else c) s.
Definition cr_free (s : str) : bool := forallb (fun c => negb (c =? 13)) s.

Lemma to_crlf_nonempty c t : to_crlf (c :: t) <> [].
Proof. unfold to_crlf. cbn [flat_map]. destruct (c =? 10); discriminate. Qed.

Lemma texts_crlf s : forall cur, cr_free s = true -> texts_loop (to_crlf s) cur = texts_loop s cur.
Proof.
  induction s as [|c t IH]; intros cur H; [reflexivity|].
  cbn [cr_free forallb] in H. apply andb_true_iff in H. destruct H as [Hc Ht].
  unfold to_crlf. cbn [flat_map]. fold (to_crlf t).
  destruct (N.eqb_spec c 10) as [->|Hn].
  - cbn [app texts_loop]. change (13 =? 10) with false. change (13 =? 13) with true. change (10 =? 10) with true.
    cbv iota. destruct t as [|d t']; [reflexivity|].
    pose proof (to_crlf_nonempty d t') as NE. specialize (IH [] Ht).
    destruct (to_crlf (d :: t')) as [|x y]; [contradiction|]. f_equal. exact IH.
  - cbn [app texts_loop]. destruct (N.eqb_spec c 10); [contradiction|].
    destruct (N.eqb_spec c 13) as [->|_]; [discriminate|]. apply IH. exact Ht.
Qed.

Lemma texts_cr s : forall cur, cr_free s = true -> texts_loop (to_cr s) cur = texts_loop s cur.
Proof.
  induction s as [|c t IH]; intros cur H; [reflexivity|].
  cbn [cr_free forallb] in H. apply andb_true_iff in H. destruct H as [Hc Ht].
  unfold to_cr. cbn [map]. fold (to_cr t).
  destruct (N.eqb_spec c 10) as [->|Hn].
  - cbn [texts_loop]. change (13 =? 10) with false. change (13 =? 13) with true. change (10 =? 10) with true. cbv iota.
    destruct t as [|d t']; [reflexivity|]. cbn [to_cr map]. fold (to_cr t').
    (* the character after the CR is not LF: LF itself has become CR *)
    assert (Hd : (if d =? 10 then 13 else d) =? 10 = false).
    { destruct (N.eqb_spec d 10); [reflexivity|]. destruct (N.eqb_spec d 10); [contradiction|reflexivity]. }
    rewrite Hd. f_equal. change ((if d =? 10 then 13 else d) :: to_cr t') with (to_cr (d :: t')). apply IH. exact Ht.
  - cbn [texts_loop]. destruct (N.eqb_spec c 10); [contradiction|].
    destruct (N.eqb_spec c 13) as [->|_]; [discriminate|]. apply IH. exact Ht.
Qed.

(* appending one final LF to a text that does not end with a line ending *)
Definition ends_with_eol (s : str) : bool :=
  match rev s with c :: _ => (c =? 10) || (c =? 13) | [] => false end.

Lemma texts_final_lf (s : str) : forall cur,
  match s with [] => True | _ => ends_with_eol s = false end ->
  texts_loop (s ++ [10]) cur = texts_loop s cur.
Proof.
  induction s as [s IH] using len_ind. intros cur H.
  destruct s as [|c t]; [reflexivity|].
  assert (Hlast : forall x y l, ends_with_eol (x :: y :: l) = ends_with_eol (y :: l)).
  { intros x y l. unfold ends_with_eol. cbn [rev]. destruct (rev l ++ [y]) eqn:E; [destruct (rev l); discriminate|reflexivity]. }
  cbn [app texts_loop]. destruct (N.eqb_spec c 10) as [->|Hn].
  - destruct t as [|d t']; [discriminate H|]. cbn [app]. f_equal. apply (IH (d :: t')); [cbn; lia|]. rewrite Hlast in H. exact H.
  - destruct (N.eqb_spec c 13) as [->|Hr].
    + destruct t as [|d t']; [discriminate H|]. cbn [app]. rewrite Hlast in H. destruct (N.eqb_spec d 10) as [->|Hd].
      * destruct t' as [|e t'']; [discriminate H|]. cbn [app]. f_equal. apply (IH (e :: t'')); [cbn; lia|]. rewrite Hlast in H. exact H.
      * f_equal. apply (IH (d :: t')); [cbn; lia|exact H].
    + destruct t as [|d t'].
      * cbn [app texts_loop]. change (10 =? 10) with true. reflexivity.
      * apply (IH (d :: t')); [cbn; lia|]. rewrite Hlast in H. exact H.
Qed.

Theorem texts_of_crlf s : cr_free s = true -> texts_of (to_crlf s) = texts_of s.
Proof. intros H. rewrite !texts_of_loop. apply texts_crlf. exact H. Qed.
Theorem texts_of_cr s : cr_free s = true -> texts_of (to_cr s) = texts_of s.
Proof. intros H. rewrite !texts_of_loop. apply texts_cr. exact H. Qed.
Theorem texts_of_final_lf s : ends_with_eol s = false -> texts_of (s ++ [10]) = texts_of s.
Proof. intros H. rewrite !texts_of_loop. apply texts_final_lf. destruct s; [exact I|exact H]. Qed.

(* ------------------------------------------------------------------ *)
(* 2. the core chain reads the source through texts_of only (unless the sourcepos rule runs) *)

Definition strip (n : node) : node := set_map n None.

Lemma strip_set_map n m : strip (set_map n m) = strip n.
Proof. destruct n; reflexivity. Qed.
Lemma strip_eq a b : strip a = strip b -> b = set_map a (n_map b).
Proof. destruct a, b. cbn. intros [= -> -> -> ->]. reflexivity. Qed.
Lemma strip_set_children n cs : strip (set_children n cs) = set_children (strip n) cs.
Proof. destruct n; reflexivity. Qed.
Lemma children_strip n : n_children (strip n) = n_children n.
Proof. destruct n; reflexivity. Qed.

Lemma render_events_map n m : render_events (set_map n m) = render_events n.
Proof. destruct n; reflexivity. Qed.

Lemma inline_walk_map fuel cfg refs n m :
  inline_walk fuel cfg refs (set_map n m) = do r <- inline_walk fuel cfg refs n; ret (set_map r m).
Proof.
  destruct n as [k m0 a e cs]. cbn [set_map inline_walk].
  match goal with |- bind ?X _ = _ => destruct X as [err|cs'] end; reflexivity.
Qed.

Lemma fj_walk_map n m : fj_walk (set_map n m) = set_map (fj_walk n) m.
Proof. destruct n as [k m0 a e cs]. reflexivity. Qed.

Lemma count_custom_map n m : count_custom (set_map n m) = count_custom n.
Proof. destruct n; reflexivity. Qed.

Definition st_rel (x y : node * refmap * list N) : Prop :=
  strip (fst (fst x)) = strip (fst (fst y)) /\ snd (fst x) = snd (fst y).

Definition res_rel (x y : res (node * refmap * list N)) : Prop :=
  match x, y with
  | inl e1, inl e2 => e1 = e2
  | inr a, inr b => st_rel a b
  | _, _ => False
  end.

Lemma core_step_rel fuel bcf icf s1 s2 rule st1 st2 :
  rule <> C_SOURCEPOS -> texts_of s1 = texts_of s2 -> res_rel st1 st2 ->
  res_rel (core_step fuel bcf icf s1 st1 rule) (core_step fuel bcf icf s2 st2 rule).
Proof.
  intros Hr Ht R. unfold core_step.
  destruct st1 as [e1|[[root1 refs1] starts1]], st2 as [e2|[[root2 refs2] starts2]]; cbn [res_rel bind] in *; try contradiction; [exact R|].
  destruct R as [Rroot Rrefs]. cbn [fst snd] in Rroot, Rrefs. subst refs2.
  destruct (N.eqb_spec rule C_BLOCK) as [_|_].
  - fold (texts_of s1) (texts_of s2). rewrite Ht.
    destruct (block_parse fuel bcf (texts_of s2) (mk KRoot None []) refs1) as [e|[bn br]]; cbn [bind res_rel fst snd]; [reflexivity|].
    split; cbn [fst snd]; [|reflexivity].
    rewrite !strip_set_children, Rroot. f_equal. f_equal.
    rewrite <- (children_strip root1), <- (children_strip root2), Rroot. reflexivity.
  - destruct (N.eqb_spec rule C_INLINE) as [_|_].
    + rewrite (strip_eq _ _ Rroot), inline_walk_map.
      destruct (inline_walk fuel icf refs1 root1) as [e|r]; cbn [bind res_rel]; [reflexivity|].
      split; cbn [fst snd]; [rewrite strip_set_map; reflexivity|reflexivity].
    + destruct (N.eqb_spec rule C_FRAGJOIN) as [_|_].
      * cbn [res_rel]. split; cbn [fst snd]; [|reflexivity].
        rewrite (strip_eq _ _ Rroot), fj_walk_map, strip_set_map. reflexivity.
      * destruct (N.eqb_spec rule C_SOURCEPOS) as [E|_]; [contradiction|].
        destruct (N.eqb_spec rule C_CUSTOMCORE) as [_|_]; cbn [res_rel]; (split; cbn [fst snd]; [|reflexivity]).
        -- rewrite (strip_eq _ _ Rroot), count_custom_map. destruct root1; reflexivity.
        -- exact Rroot.
Qed.

Lemma fold_core_rel fuel bcf icf s1 s2 chain : forall st1 st2,
  Forall (fun r => r <> C_SOURCEPOS) chain -> texts_of s1 = texts_of s2 -> res_rel st1 st2 ->
  res_rel (fold_left (core_step fuel bcf icf s1) chain st1) (fold_left (core_step fuel bcf icf s2) chain st2).
Proof.
  induction chain as [|r t IH]; intros st1 st2 Hc Ht R; cbn [fold_left]; [exact R|].
  inversion Hc as [|? ? Hr Hc']; subst. apply IH; [exact Hc'|exact Ht|]. apply core_step_rel; assumption.
Qed.

(* the HTML (or XHTML) a parse produces *)
Definition html_of_parse (fuel : nat) (m : md) (xhtml : bool) (src : str) : res str :=
  do d <- snd (parse fuel m src); render xhtml (d_root d).

(* a configuration whose core chain does not contain the source-position rule *)
Definition no_sourcepos (m : md) : Prop :=
  match snd (r_iter (md_core m)) with inr chain => Forall (fun r => r <> C_SOURCEPOS) chain | inl _ => True end.

Theorem parse_depends_on_texts fuel m xhtml s1 s2 :
  no_sourcepos m -> texts_of s1 = texts_of s2 -> html_of_parse fuel m xhtml s1 = html_of_parse fuel m xhtml s2.
Proof.
  intros Hn Ht. unfold html_of_parse, parse, no_sourcepos in *.
  destruct (r_iter (md_core m)) as [rc [ce|cc]]; destruct (r_iter (md_block m)) as [rb [be|bc]];
    destruct (r_iter (md_inline m)) as [ri [ie|ic]]; cbn [snd bind] in *; try reflexivity.
  match goal with
  | |- context [fold_left (core_step ?f ?b ?i s1) cc ?st1] =>
    match goal with
    | |- context [fold_left (core_step f b i s2) cc ?st2] =>
      pose proof (fold_core_rel f b i s1 s2 cc st1 st2 Hn Ht) as R
    end
  end.
  match type of R with ?P -> _ => assert (HP : P) by (cbn [res_rel ret]; split; reflexivity); specialize (R HP); clear HP end.
  match type of R with res_rel ?X ?Y => destruct X as [e1|[[r1 f1] t1]], Y as [e2|[[r2 f2] t2]] end;
    cbn [res_rel bind] in *; try contradiction; [subst; reflexivity|].
  destruct R as [R _]. cbn [fst snd] in R. unfold ret. cbn [bind d_root].
  unfold render. rewrite (strip_eq _ _ R), render_events_map. reflexivity.
Qed.

(* C10 *)
Theorem html_crlf fuel m xhtml s : no_sourcepos m -> cr_free s = true ->
  html_of_parse fuel m xhtml (to_crlf s) = html_of_parse fuel m xhtml s.
Proof. intros Hn Hs. apply parse_depends_on_texts; [exact Hn|apply texts_of_crlf; exact Hs]. Qed.
Theorem html_cr fuel m xhtml s : no_sourcepos m -> cr_free s = true ->
  html_of_parse fuel m xhtml (to_cr s) = html_of_parse fuel m xhtml s.
Proof. intros Hn Hs. apply parse_depends_on_texts; [exact Hn|apply texts_of_cr; exact Hs]. Qed.
Theorem html_final_lf fuel m xhtml s : no_sourcepos m -> ends_with_eol s = false ->
  html_of_parse fuel m xhtml (s ++ [10]) = html_of_parse fuel m xhtml s.
Proof. intros Hn Hs. apply parse_depends_on_texts; [exact Hn|apply texts_of_final_lf; exact Hs]. Qed.
